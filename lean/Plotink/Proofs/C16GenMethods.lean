import Plotink.Proofs.C16GenLink
import Plotink.Gen.EBB3_var_write
import Plotink.Gen.EBB3_var_read
import Plotink.Gen.EBB3_var_write_int32
import Plotink.Gen.EBB3_var_read_int32
import Plotink.Gen.EBB3_write_nickname
import Plotink.Gen.EBB3_query_nickname
import Plotink.Gen.EBBMotionWrap_motors_enable
import Plotink.Gen.EBBMotionWrap_motors_query_enabled
/-! C16 ↔ regenerated code, part 3: each of the eight regenerated methods evaluated on the reply lines of a
conforming conversation (direct symbolic evaluation of the `Gen.*` definitions; the reply lines are explicit here and
are tied to the board in `C16GenBridge.lean`). -/
set_option linter.unusedSimpArgs false
set_option linter.constructorNameAsVariable false
namespace Plotink.C16
open PyObj Gen

/-- request lines -/
def lineSL (v i : Nat) : Str := 'S' :: 'L' :: (',' :: (showNat v ++ ',' :: showNat i))
def lineQL (i : Nat) : Str := 'Q' :: 'L' :: (',' :: showNat i)

theorem lineSL_eq (v i : Nat) : lineSL v i = cSL ++ ',' :: (showNat v ++ ',' :: showNat i) := rfl
theorem lineQL_eq (i : Nat) : lineQL i = cQL ++ ',' :: showNat i := rfl

theorem gen_var_write (fuel : Nat) (obj : EBB3_Obj) (ext : Ext) (rest : List PyIO.Rd) (log : List (List Char)) (n : Nat)
    (hobj : ReadyObj obj) (v i : Nat) :
    EBB3_var_write (fuel + 1) (.int v) (.int i) ⟨obj, ⟨.line (cSL ++ ['\n']) :: rest, [], log, n⟩, ext⟩ =
      .val (.bool true) ⟨obj, ⟨rest, [], log ++ [lineSL v i ++ ['\r']], n + 1⟩, ext⟩ := by
  have hcmd := gen_command_ack fuel obj ext rest log n 'S' 'L' (',' :: (showNat v ++ ',' :: showNat i)) (cSL ++ ['\n']) cSL hobj
    (by decide) (strip_of_noEdge (noEdge_cmd2 'S' 'L' ',' v i (by decide)))
    (isAscii_cons (by decide) (isAscii_cons (by decide) (isAscii_cons (by decide)
      (isAscii_append (isAscii_showNat v) (isAscii_cons (by decide) (isAscii_showNat i))))))
    (by decide) strip_SL (by decide) (by decide) (by decide)
  obtain ⟨ho, he⟩ := hobj
  obtain ⟨pn, port, ver, verp, name, err, caller⟩ := obj
  simp only at ho he
  subst ho he
  simp [EBB3_var_write, EBB3_var_write_main, PyObj.run, block, seq, EBB3_var_write_if1, EBB3_var_write_if2, ifte, or_, PyObj.bind, app1, getattr, ofP, op_is_none, op_is_not_none, isNone, ok, truthy, pass, expr, mcall1, fstr, evalList, strOf, ebb3_showInt_nat, return_]
  rw [hcmd]
  simp [ofOut, lineSL, getattr, isNone, truthy, ok]


theorem gen_var_read (fuel : Nat) (obj : EBB3_Obj) (ext : Ext) (rest : List PyIO.Rd) (log : List (List Char)) (n : Nat)
    (hobj : ReadyObj obj) (i x : Nat) :
    EBB3_var_read (fuel + 1) (.int i) ⟨obj, ⟨.line (cQL ++ ',' :: (showNat x ++ ['\n'])) :: rest, [], log, n⟩, ext⟩ =
      .val (.int x) ⟨obj, ⟨rest, [], log ++ [lineQL i ++ ['\r']], n + 1⟩, ext⟩ := by
  have hq := gen_query_data fuel obj ext rest log n 'Q' 'L' (',' :: showNat i) (cQL ++ ',' :: (showNat x ++ ['\n']))
    (showNat x) hobj
    (by decide) (strip_of_noEdge (noEdge_cmd1 'Q' 'L' ',' i (by decide) (by decide)))
    (isAscii_cons (by decide) (isAscii_cons (by decide) (isAscii_cons (by decide) (isAscii_showNat i))))
    (isAscii_cons (by decide) (isAscii_cons (by decide) (isAscii_cons (by decide)
      (isAscii_append (isAscii_showNat x) (by decide)))))
    (strip_data (name := cQL) (noEdge_cmd1 'Q' 'L' ',' x (by decide) (by decide)))
    (by apply no_err_of_no_colon
        have := colon_not_mem_showNat x
        simp [this])
  obtain ⟨ho, he⟩ := hobj
  obtain ⟨pn, port, ver, verp, name, err, caller⟩ := obj
  simp only at ho he
  subst ho he
  simp [EBB3_var_read, EBB3_var_read_main, PyObj.run, block, seq, EBB3_var_read_if1, EBB3_var_read_if2, ifte, or_, PyObj.bind, app1, getattr, ofP, op_is_none, op_is_not_none, isNone, ok, truthy, pass, assign, mcall1, fstr, evalList, strOf, ebb3_showInt_nat, return_]
  rw [hq]
  simp [ofOut, lineQL, getattr, isNone, truthy, ok, load, b_int, ebb3_pyInt_showNat]

theorem toNat_ofNat_byte (n : Nat) (h : n < 256) : (Char.ofNat n).toNat = n := by
  have hv : n.isValidChar := Or.inl (by omega)
  unfold Char.ofNat
  rw [dif_pos hv]
  simp [Char.ofNatAux, Char.toNat]
theorem ebb3_toBytes4_eq {v : Int} (hv : IsInt32 v) :
    Ebb3.toBytes4 v = .ok ((Spec.beByte v 0 : Int), (Spec.beByte v 1 : Int), (Spec.beByte v 2 : Int), (Spec.beByte v 3 : Int)) := by
  unfold Ebb3.toBytes4 Spec.beByte
  have h1 := hv.1; have h2 := hv.2
  rw [if_pos ⟨h1, h2⟩]
  simp only [Nat.sub_zero, Nat.reduceSub, Int.reducePow, Int.pow_zero, Int.pow_one]
  congr 1
  refine Prod.ext ?_ (Prod.ext ?_ (Prod.ext ?_ ?_)) <;> simp <;> omega


abbrev ackSL : PyIO.Rd := .line (cSL ++ ['\n'])

theorem gen_w32_body (fuel : Nat) (obj : EBB3_Obj) (ext : Ext) (rest : List PyIO.Rd) (log : List (List Char)) (n : Nat)
    (hobj : ReadyObj obj) (value bs : PyObj.Val) (b i : Nat) :
    EBB3_var_write_int32_fbody1 (fuel + 1) ⟨value, .int i, bs, .int b⟩ ⟨obj, ⟨ackSL :: rest, [], log, n⟩, ext⟩ =
      .norm ⟨value, .int ((i + 1 : Nat) : Int), bs, .int b⟩ ⟨obj, ⟨rest, [], log ++ [lineSL b i ++ ['\r']], n + 1⟩, ext⟩ := by
  have h := gen_var_write fuel obj ext rest log n hobj b i
  simp [EBB3_var_write_int32_fbody1, block, seq, expr, mcall2, PyObj.bind, load, ok]
  rw [h]
  simp [ofOut, assign, app2, PyObj.bind, load, ok, ofP, op_add, intOf]


theorem gen_var_write_int32 (fuel : Nat) (obj : EBB3_Obj) (ext : Ext) (rest : List PyIO.Rd) (log : List (List Char))
    (n : Nat) (hobj : ReadyObj obj) (v : Int) (hv : IsInt32 v) (i : Nat) :
    EBB3_var_write_int32 (fuel + 1) (.int v) (.int i)
        ⟨obj, ⟨ackSL :: ackSL :: ackSL :: ackSL :: rest, [], log, n⟩, ext⟩ =
      .val (.bool true) ⟨obj, ⟨rest, [],
        log ++ [lineSL (Spec.beByte v 0) i ++ ['\r'], lineSL (Spec.beByte v 1) (i + 1) ++ ['\r'],
                lineSL (Spec.beByte v 2) (i + 2) ++ ['\r'], lineSL (Spec.beByte v 3) (i + 3) ++ ['\r']], n + 4⟩, ext⟩ := by
  have hb := fun k => beByte_le v k
  have hready := hobj
  obtain ⟨ho, he⟩ := hobj
  simp [EBB3_var_write_int32, EBB3_var_write_int32_main, PyObj.run, block, seq, EBB3_var_write_int32_if1, ifte, or_, PyObj.bind, app1, getattr, ofP, op_is_none, op_is_not_none, isNone, ok, truthy, pass, assign, ho, he,
    meth_to_bytes4_big_signed, intOf, ebb3_toBytes4_eq hv, EBB3_var_write_int32_for1, PyObj.forIn, load, items, forLoop,
    toNat_ofNat_byte _ (Nat.lt_succ_of_le (hb 0)), toNat_ofNat_byte _ (Nat.lt_succ_of_le (hb 1)),
    toNat_ofNat_byte _ (Nat.lt_succ_of_le (hb 2)), toNat_ofNat_byte _ (Nat.lt_succ_of_le (hb 3))]
  rw [gen_w32_body fuel obj ext _ log n hready]
  simp only []
  rw [gen_w32_body fuel obj ext _ _ _ hready]
  simp only []
  rw [gen_w32_body fuel obj ext _ _ _ hready]
  simp only []
  rw [gen_w32_body fuel obj ext _ _ _ hready]
  simp [EBB3_var_write_int32_if2, ifte, app1, PyObj.bind, getattr, he, ofP, op_is_not_none, isNone, truthy, pass, return_, ok, Nat.add_assoc]


abbrev dataQL (x : Nat) : PyIO.Rd := .line (cQL ++ ',' :: (showNat x ++ ['\n']))

theorem gen_r32_body (fuel : Nat) (obj : EBB3_Obj) (ext : Ext) (rest : List PyIO.Rd) (log : List (List Char)) (n : Nat)
    (hobj : ReadyObj obj) (value : PyObj.Val) (l : List PyObj.Val) (i k x : Nat) (off : Int) (hk : off = k) :
    EBB3_var_read_int32_fbody1 (fuel + 1) ⟨.int i, .list l, .int off, value⟩ ⟨obj, ⟨dataQL x :: rest, [], log, n⟩, ext⟩ =
      .norm ⟨.int i, .list (l ++ [.int x]), .int (off + 1), .int x⟩
        ⟨obj, ⟨rest, [], log ++ [lineQL (i + k) ++ ['\r']], n + 1⟩, ext⟩ := by
  subst hk
  have h := gen_var_read fuel obj ext rest log n hobj (i + k) x
  have hc : ((i : Int) + (k : Int)) = ((i + k : Nat) : Int) := by omega
  simp [EBB3_var_read_int32_fbody1, block, seq, assign, mcall1, PyObj.bind, load, ok, app2, ofP, op_add, intOf]
  rw [hc, h]
  simp [ofOut, assign, app2, PyObj.bind, load, ok, ofP, op_add, intOf, meth_append]

set_option maxRecDepth 8192 in
theorem ebb3_fromBytes4_nat {a b c d : Nat} (ha : a ≤ 255) (hb : b ≤ 255) (hc : c ≤ 255) (hd : d ≤ 255) :
    Ebb3.fromBytes4 (.int a) (.int b) (.int c) (.int d) = .ok (Spec.decode32 a b c d) := by
  have hr : ((0 ≤ (a : Int) ∧ (a : Int) < 256) ∧ (0 ≤ (b : Int) ∧ (b : Int) < 256) ∧ (0 ≤ (c : Int) ∧ (c : Int) < 256) ∧
      (0 ≤ (d : Int) ∧ (d : Int) < 256)) := by omega
  simp only [Ebb3.fromBytes4]
  rw [if_pos hr]
  rfl

theorem gen_var_read_int32 (fuel : Nat) (obj : EBB3_Obj) (ext : Ext) (rest : List PyIO.Rd) (log : List (List Char))
    (n : Nat) (hobj : ReadyObj obj) (i a b c d : Nat) (ha : a ≤ 255) (hb : b ≤ 255) (hc : c ≤ 255) (hd : d ≤ 255) :
    EBB3_var_read_int32 (fuel + 1) (.int i)
        ⟨obj, ⟨dataQL a :: dataQL b :: dataQL c :: dataQL d :: rest, [], log, n⟩, ext⟩ =
      .val (.int (Spec.decode32 a b c d)) ⟨obj, ⟨rest, [],
        log ++ [lineQL i ++ ['\r'], lineQL (i + 1) ++ ['\r'], lineQL (i + 2) ++ ['\r'], lineQL (i + 3) ++ ['\r']],
        n + 4⟩, ext⟩ := by
  have hready := hobj
  obtain ⟨ho, he⟩ := hobj
  simp [EBB3_var_read_int32, EBB3_var_read_int32_main, PyObj.run, block, seq, EBB3_var_read_int32_if1, ifte, or_, PyObj.bind, app1, getattr, ofP, op_is_none, op_is_not_none, isNone, ok, truthy, pass, assign, ho, he,
    mkList, evalList, EBB3_var_read_int32_for1, PyObj.forIn, app2, b_range2, intOf, rangeList, items, forLoop]
  rw [gen_r32_body fuel obj ext _ log n hready _ _ i 0 a 0 rfl]
  simp only []
  rw [gen_r32_body fuel obj ext _ _ _ hready _ _ i 1 b 1 rfl]
  simp only []
  rw [gen_r32_body fuel obj ext _ _ _ hready _ _ i 2 c 2 rfl]
  simp only []
  rw [gen_r32_body fuel obj ext _ _ _ hready _ _ i 3 d 3 rfl]
  simp [EBB3_var_read_int32_if2, ifte, app1, PyObj.bind, getattr, he, ofP, op_is_not_none, isNone, truthy, pass, return_, ok, Nat.add_assoc,
    load, b_from_bytes_big_signed, items, toEbb3Val, ebb3_fromBytes4_nat ha hb hc hd]



theorem isAscii_of_printable {s : Str} (h : ∀ c ∈ s, Spec.printable c = true) : PyIO.isAscii s = true := by
  unfold PyIO.isAscii
  rw [List.all_eq_true]
  intro c hc
  have := h c hc
  simp only [Spec.printable, Bool.and_eq_true, decide_eq_true_eq] at this
  simp; omega

theorem gen_write_nickname (fuel : Nat) (obj : EBB3_Obj) (ext : Ext) (rest : List PyIO.Rd) (log : List (List Char))
    (n : Nat) (hobj : ReadyObj obj) (s : Str) (hs : NickOK s) :
    EBB3_write_nickname (fuel + 1) (.str s) ⟨obj, ⟨.line (cST ++ ['\n']) :: rest, [], log, n⟩, ext⟩ =
      .val (.bool true) ⟨{ obj with name := .str (strip s) },
        ⟨rest, [], log ++ [(cST ++ ',' :: strip s) ++ ['\r']], n + 1⟩, ext⟩ := by
  have hcmd := gen_command_ack fuel obj ext rest log n 'S' 'T' (',' :: strip s) (cST ++ ['\n']) cST hobj
    (by decide) (strip_of_noEdge (noEdge_prefixed 'S' 'T' ',' (by decide) (by decide) (noEdge_strip s)))
    (isAscii_cons (by decide) (isAscii_cons (by decide) (isAscii_cons (by decide) (isAscii_of_printable hs.2.1))))
    (by decide) strip_ST (by decide) (by decide) (by decide)
  obtain ⟨ho, he⟩ := hobj
  obtain ⟨pn, port, ver, verp, name, err, caller⟩ := obj
  simp only at ho he
  subst ho he
  simp [EBB3_write_nickname, EBB3_write_nickname_main, PyObj.run, block, seq, EBB3_write_nickname_if1, ifte, or_, PyObj.bind, app1, getattr, ofP, op_is_none, op_is_not_none, isNone, ok, truthy, pass, assign, load, meth_strip, ebb3_strip_eq,
    EBB3_write_nickname_if2, not_, b_bool]
  cases hnk : strip s with
  | nil =>
    rw [hnk] at hcmd
    simp [tryExcept, EBB3_write_nickname_try1, block, seq, EBB3_write_nickname_if3, ifte, not_, mcall1, PyObj.bind, app2, ok, load, ofP, op_add, truthy]
    rw [hcmd]
    simp [ofOut, truthy, pass, setattr, load, ok, return_, cST]
  | cons c cs =>
    rw [hnk] at hcmd
    simp [tryExcept, EBB3_write_nickname_try1, block, seq, EBB3_write_nickname_if3, ifte, not_, mcall1, PyObj.bind, app2, ok, load, ofP, op_add, truthy, pass]
    rw [hcmd]
    simp [ofOut, truthy, pass, setattr, load, ok, return_, cST]


theorem strip_qt_reply (nm : Str) : strip (cQT ++ ',' :: (nm ++ ['\n'])) = cQT ++ ',' :: rstrip nm := by
  obtain ⟨z, hz, e⟩ := rstrip_decomp nm
  have hne := noEdge_prefixed_last 'Q' 'T' ',' (by decide) (by decide) (rstrip_last nm)
  have hz' : AllSp (z ++ ['\n']) := allSp_append hz (fun c hc => by simp at hc; subst hc; decide)
  have := strip_unique (a := []) (m := cQT ++ ',' :: rstrip nm) (z := z ++ ['\n'])
    (fun _ h => by simp at h) hz' hne
  rw [← this]
  congr 1
  rw (occs := [1]) [e]
  simp [cQT]

theorem noErr_qt (nm : Str) (herr : isInfix sErr nm = false) : isInfix sErr (cQT ++ ',' :: rstrip nm) = false := by
  obtain ⟨z, hz, e⟩ := rstrip_decomp nm
  have h0 : isInfix sErr (rstrip nm) = false := by
    cases h : isInfix sErr (rstrip nm) with
    | false => rfl
    | true =>
      have := isInfix_append z h
      rw [← e, herr] at this
      exact absurd this (by simp)
  have h0' : isInfix ['E', 'r', 'r', ':'] (rstrip nm) = false := h0
  simp [isInfix, startsWith, sErr, cQT, h0']

theorem gen_query_nickname (fuel : Nat) (obj : EBB3_Obj) (ext : Ext) (rest : List PyIO.Rd) (log : List (List Char))
    (n : Nat) (hobj : ReadyObj obj) (nm : Str) (hasc : PyIO.isAscii nm = true) (herr : isInfix sErr nm = false) :
    EBB3_query_nickname (fuel + 1) ⟨obj, ⟨.line (cQT ++ ',' :: (nm ++ ['\n'])) :: rest, [], log, n⟩, ext⟩ =
      .val .none ⟨{ obj with name := .str (strip nm) }, ⟨rest, [], log ++ [cQT ++ ['\r']], n + 1⟩, ext⟩ := by
  have hq := gen_query_data fuel obj ext rest log n 'Q' 'T' [] (cQT ++ ',' :: (nm ++ ['\n'])) (rstrip nm) hobj
    (by decide) (by decide) (by decide)
    (isAscii_cons (by decide) (isAscii_cons (by decide) (isAscii_cons (by decide) (isAscii_append hasc (by decide)))))
    (strip_qt_reply nm) (noErr_qt nm herr)
  obtain ⟨ho, he⟩ := hobj
  obtain ⟨pn, port, ver, verp, name, err, caller⟩ := obj
  simp only at ho he
  subst ho he
  simp [EBB3_query_nickname, EBB3_query_nickname_main, PyObj.run, block, seq, EBB3_query_nickname_if1, ifte, or_, PyObj.bind, app1, getattr, ofP, op_is_none, op_is_not_none, isNone, ok, truthy, pass, assign, mcall1]
  rw [hq]
  simp [ofOut, EBB3_query_nickname_if2, EBB3_query_nickname_if3, ifte, app1, not_, PyObj.bind, load, ok, ofP, op_is_not_none, isNone, truthy,
    meth_isspace, ebb3_isSpaceStr_eq, isspace_of_last (rstrip_last nm), setattr, b_str, strOf, meth_strip, ebb3_strip_eq, strip_rstrip, cQT]


/-- the `res_map` dictionary of `motors_query_enabled` -/
def resDict : List (PyObj.Val × PyObj.Val) :=
  [(.int 16, .int 1), (.int 8, .int 2), (.int 4, .int 3), (.int 2, .int 4), (.int 1, .int 5), (.int 0, .int 0)]

theorem dictGet_resDict (z r : Int) (h : resMap z = .ok r) : dictGet resDict (.int z) = some (.int r) := by
  unfold resMap at h
  unfold resDict
  simp only [dictGet, pyEq, beq_iff_eq]
  split at h
  · rename_i h1; simp [h1] at h ⊢; exact h
  · rename_i h1
    split at h
    · rename_i h2; simp [h1, h2] at h ⊢; exact h
    · rename_i h2
      split at h
      · rename_i h3; simp [h1, h2, h3] at h ⊢; exact h
      · rename_i h3
        split at h
        · rename_i h4; simp [h1, h2, h3, h4] at h ⊢; exact h
        · rename_i h4
          split at h
          · rename_i h5; simp [h1, h2, h3, h4, h5] at h ⊢; exact h
          · rename_i h5
            split at h
            · rename_i h6; simp [h1, h2, h3, h4, h5, h6] at h ⊢; exact h
            · simp at h

abbrev dataQE (s1 s2 : Nat) : PyIO.Rd := .line (cQE ++ ',' :: (showNat s1 ++ ',' :: (showNat s2 ++ ['\n'])))

theorem gen_motors_query_enabled (fuel : Nat) (obj : EBB3_Obj) (ext : Ext) (rest : List PyIO.Rd) (log : List (List Char))
    (n : Nat) (hobj : ReadyObj obj) (s1 s2 : Nat) (r1 r2 : Int)
    (h1 : resMap (s1 : Int) = .ok r1) (h2 : resMap (s2 : Int) = .ok r2) :
    EBBMotionWrap_motors_query_enabled (fuel + 1) ⟨obj, ⟨dataQE s1 s2 :: rest, [], log, n⟩, ext⟩ =
      .val (.tuple [.int r1, .int r2]) ⟨obj, ⟨rest, [], log ++ [cQE ++ ['\r']], n + 1⟩, ext⟩ := by
  have hq := gen_query_data fuel obj ext rest log n 'Q' 'E' [] (cQE ++ ',' :: (showNat s1 ++ ',' :: (showNat s2 ++ ['\n'])))
    (showNat s1 ++ ',' :: showNat s2) hobj
    (by decide) (by decide) (by decide)
    (isAscii_cons (by decide) (isAscii_cons (by decide) (isAscii_cons (by decide)
      (isAscii_append (isAscii_showNat s1) (isAscii_cons (by decide) (isAscii_append (isAscii_showNat s2) (by decide)))))))
    (by have := strip_data (name := cQE) (payload := showNat s1 ++ ',' :: showNat s2) (noEdge_cmd2 'Q' 'E' ',' s1 s2 (by decide))
        simpa [cQE] using this)
    (by apply no_err_of_no_colon
        simp [colon_not_mem_showNat])
  obtain ⟨ho, he⟩ := hobj
  obtain ⟨pn, port, ver, verp, name, err, caller⟩ := obj
  simp only at ho he
  subst ho he
  simp [EBBMotionWrap_motors_query_enabled, EBBMotionWrap_motors_query_enabled_main, PyObj.run, block, seq, EBBMotionWrap_motors_query_enabled_if1, ifte, or_, PyObj.bind, app1, getattr, ofP, op_is_none, op_is_not_none, isNone, ok, truthy, pass, assign, mcall1]
  rw [hq]
  have hsplit : Ebb3.splitOn ',' (showNat s1 ++ ',' :: showNat s2) = [showNat s1, showNat s2] := by
    rw [ebb3_splitOn_eq, splitOn_append_sep _ (comma_not_mem_showNat _), splitOn_noSep (comma_not_mem_showNat _)]
  have hd1 := dictGet_resDict _ _ h1
  have hd2 := dictGet_resDict _ _ h2
  unfold resDict at hd1 hd2
  simp [ofOut, EBBMotionWrap_motors_query_enabled_if2, ifte, app1, PyObj.bind, load, ok, ofP, op_is_none, isNone, truthy, pass, assign,
    mkDict, evalList, meth_split_char, hsplit, return_, mkTuple, app2, op_getitem, intOf, normIdx, b_int, ebb3_pyInt_showNat, hd1, hd2, cQE]



def lineEM (a b : Nat) : Str := 'E' :: 'M' :: (',' :: (showNat a ++ ',' :: showNat b))
theorem lineEM_eq (a b : Nat) : lineEM a b = cmdEM a b := by
  simp [lineEM, cmdEM, cEM, showInt_ofNat]

abbrev ackEM : PyIO.Rd := .line (cEM ++ ['\n'])
abbrev ackCU : PyIO.Rd := .line (cCU ++ ['\n'])

theorem gen_command_EM (fuel : Nat) (obj : EBB3_Obj) (ext : Ext) (rest : List PyIO.Rd) (log : List (List Char)) (n : Nat)
    (hobj : ReadyObj obj) (a b : Nat) :
    EBB3_command (fuel + 1) (.str ('E' :: 'M' :: ',' :: (showNat a ++ ',' :: showNat b))) ⟨obj, ⟨ackEM :: rest, [], log, n⟩, ext⟩ =
      .val (.bool true) ⟨obj, ⟨rest, [], log ++ [lineEM a b ++ ['\r']], n + 1⟩, ext⟩ := by
  have := gen_command_ack fuel obj ext rest log n 'E' 'M' (',' :: (showNat a ++ ',' :: showNat b)) (cEM ++ ['\n']) cEM hobj
    (by decide) (strip_of_noEdge (noEdge_cmd2 'E' 'M' ',' a b (by decide)))
    (isAscii_cons (by decide) (isAscii_cons (by decide) (isAscii_cons (by decide)
      (isAscii_append (isAscii_showNat a) (isAscii_cons (by decide) (isAscii_showNat b))))))
    (by decide) strip_EM (by decide) (by decide) (by decide)
  simpa [lineEM] using this

theorem gen_command_CU (fuel : Nat) (obj : EBB3_Obj) (ext : Ext) (rest : List PyIO.Rd) (log : List (List Char)) (n : Nat)
    (hobj : ReadyObj obj) :
    EBB3_command (fuel + 1) (.str ['C', 'U', ',', '5', '0', ',', '0']) ⟨obj, ⟨ackCU :: rest, [], log, n⟩, ext⟩ =
      .val (.bool true) ⟨obj, ⟨rest, [], log ++ [cmdCU50 ++ ['\r']], n + 1⟩, ext⟩ := by
  have := gen_command_ack fuel obj ext rest log n 'C' 'U' [',', '5', '0', ',', '0'] (cCU ++ ['\n']) cCU hobj
    (by decide) (by decide) (by decide) (by decide) strip_CU (by decide) (by decide) (by decide)
  simpa [cmdCU50, cCU, ackCU] using this

theorem b_max2_int (r : Int) : b_max2 (.int r) (.int 0) = .ok (.int (max r 0)) := by
  simp only [b_max2, ltVal, intOf]
  by_cases h : r < 0
  · have : max r 0 = 0 := by omega
    simp [h, this]
  · have : max r 0 = r := by omega
    simp [h, this]

theorem b_min2_int (x : Int) : b_min2 (.int x) (.int 5) = .ok (.int (min x 5)) := by
  simp only [b_min2, ltVal, intOf]
  by_cases h : 5 < x
  · have : min x 5 = 5 := by omega
    simp [h, this]
  · have : min x 5 = x := by omega
    simp [h, this]

theorem clampNat (r : Int) : ∃ c : Nat, Spec.clamp r = (c : Int) ∧ c ≤ 5 := by
  have h := clamp_range r
  exact ⟨(Spec.clamp r).toNat, by omega, by omega⟩

theorem minmax_clamp (r : Int) : min (max r 0) 5 = Spec.clamp r := by
  rw [← clamp05_eq]; rfl

abbrev MEnv := EBBMotionWrap_motors_enable_Env

/-- `if (r1 != r2) and (r1 * r2 == 0)`: not taken -/
theorem gen_me_if2_skip (fuel : Nat) (w : PyObj.World EBB3_Obj) (c1 c2 : Int) (o m : PyObj.Val)
    (h : ¬ (c1 ≠ c2 ∧ c1 * c2 = 0)) :
    EBBMotionWrap_motors_enable_if2 fuel (⟨.int c1, .int c2, o, m⟩ : MEnv) w = .norm ⟨.int c1, .int c2, o, m⟩ w := by
  by_cases e : c1 = c2
  · simp [EBBMotionWrap_motors_enable_if2, ifte, and_, PyObj.bind, app2, load, ok, ofP, op_ne, op_eq, op_mul, intOf, pyEq, truthy, pass, e]
  · have hm : ¬ (c1 * c2 = 0) := fun hm => h ⟨e, hm⟩
    simp [EBBMotionWrap_motors_enable_if2, ifte, and_, PyObj.bind, app2, load, ok, ofP, op_ne, op_eq, op_mul, intOf, pyEq, truthy, pass, e, hm]

/-- `if (r1 != r2) and (r1 * r2 == 0)`: taken, `CU,50,0` is sent and acknowledged -/
theorem gen_me_if2_cu (fuel : Nat) (obj : EBB3_Obj) (ext : Ext) (rest : List PyIO.Rd) (log : List (List Char)) (n : Nat)
    (hobj : ReadyObj obj) (c1 c2 : Int) (o m : PyObj.Val) (h : c1 ≠ c2 ∧ c1 * c2 = 0) :
    EBBMotionWrap_motors_enable_if2 (fuel + 1) (⟨.int c1, .int c2, o, m⟩ : MEnv) ⟨obj, ⟨ackCU :: rest, [], log, n⟩, ext⟩ =
      .norm ⟨.int c1, .int c2, o, m⟩ ⟨obj, ⟨rest, [], log ++ [cmdCU50 ++ ['\r']], n + 1⟩, ext⟩ := by
  have hcu := gen_command_CU fuel obj ext rest log n hobj
  obtain ⟨e, hm⟩ := h
  simp [EBBMotionWrap_motors_enable_if2, ifte, and_, PyObj.bind, app2, load, ok, ofP, op_ne, op_eq, op_mul, intOf, pyEq, truthy, pass, e, hm, expr, mcall1]
  rw [hcu]
  simp [ofOut]

/-- `if (r1 == 0) and (r2 != 0)`: not taken -/
theorem gen_me_if3_skip (fuel : Nat) (w : PyObj.World EBB3_Obj) (c1 c2 : Int) (o m : PyObj.Val)
    (h : ¬ (c1 = 0 ∧ c2 ≠ 0)) :
    EBBMotionWrap_motors_enable_if3 fuel (⟨.int c1, .int c2, o, m⟩ : MEnv) w = .norm ⟨.int c1, .int c2, o, m⟩ w := by
  by_cases e : c1 = 0
  · have : c2 = 0 := by
      apply Classical.byContradiction; intro h2; exact h ⟨e, h2⟩
    simp [EBBMotionWrap_motors_enable_if3, ifte, and_, PyObj.bind, app2, load, ok, ofP, op_ne, op_eq, intOf, pyEq, truthy, pass, e, this]
  · simp [EBBMotionWrap_motors_enable_if3, ifte, and_, PyObj.bind, app2, load, ok, ofP, op_ne, op_eq, intOf, pyEq, truthy, pass, e]

/-- the final `self.command(f'EM,{r1},{r2}')` -/
theorem gen_me_final (fuel : Nat) (obj : EBB3_Obj) (ext : Ext) (rest : List PyIO.Rd) (log : List (List Char)) (n : Nat)
    (hobj : ReadyObj obj) (c1 c2 : Nat) (o m : PyObj.Val) :
    (expr (fun fuel env => (mcall1 (EBB3_command fuel) (fstr [(ok (.str ['E', 'M', ','])), (load env.resolution_1), (ok (.str [','])), (load env.resolution_2)]))) :
        Stmt EBB3_Obj MEnv) (fuel + 1) ⟨.int c1, .int c2, o, m⟩ ⟨obj, ⟨ackEM :: rest, [], log, n⟩, ext⟩ =
      .norm ⟨.int c1, .int c2, o, m⟩ ⟨obj, ⟨rest, [], log ++ [lineEM c1 c2 ++ ['\r']], n + 1⟩, ext⟩ := by
  have hem := gen_command_EM fuel obj ext rest log n hobj c1 c2
  simp [expr, mcall1, fstr, evalList, strOf, PyObj.bind, load, ok, ebb3_showInt_nat]
  rw [hem]
  simp [ofOut]

/-- the prelude: guard passes, both resolutions are clamped -/
theorem gen_me_unfold (fuel : Nat) (w : PyObj.World EBB3_Obj) (hobj : ReadyObj w.obj) (r1 r2 : Int) :
    EBBMotionWrap_motors_enable fuel (.int r1) (.int r2) w =
      PyObj.run (seq EBBMotionWrap_motors_enable_if2 (seq EBBMotionWrap_motors_enable_if3
        (expr (fun fuel env => (mcall1 (EBB3_command fuel) (fstr [(ok (.str ['E', 'M', ','])), (load env.resolution_1), (ok (.str [','])), (load env.resolution_2)]))))))
        fuel ⟨.int (Spec.clamp r1), .int (Spec.clamp r2), .unbound, .unbound⟩ w := by
  obtain ⟨ho, he⟩ := hobj
  simp [EBBMotionWrap_motors_enable, EBBMotionWrap_motors_enable_main, PyObj.run, block, seq, EBBMotionWrap_motors_enable_if1, ifte, or_, PyObj.bind, app1, app2, getattr, ofP, op_is_none, op_is_not_none, isNone, ok, truthy, pass, assign, ho, he, load, b_int, b_max2_int, b_min2_int, minmax_clamp]

/-- both motors requested on, or both off: a single `EM` -/
theorem gen_me_simple (fuel : Nat) (obj : EBB3_Obj) (ext : Ext) (rest : List PyIO.Rd) (log : List (List Char)) (n : Nat)
    (hobj : ReadyObj obj) (r1 r2 : Int) (c1 c2 : Nat) (h1 : Spec.clamp r1 = c1) (h2 : Spec.clamp r2 = c2)
    (hcase : (c1 = 0 ∧ c2 = 0) ∨ (c1 ≠ 0 ∧ c2 ≠ 0)) :
    EBBMotionWrap_motors_enable (fuel + 1) (.int r1) (.int r2) ⟨obj, ⟨ackEM :: rest, [], log, n⟩, ext⟩ =
      .val .none ⟨obj, ⟨rest, [], log ++ [lineEM c1 c2 ++ ['\r']], n + 1⟩, ext⟩ := by
  rw [gen_me_unfold _ _ hobj, h1, h2]
  have hA : ¬ ((c1 : Int) ≠ c2 ∧ (c1 : Int) * c2 = 0) := by
    rintro ⟨a, b⟩
    rcases Int.mul_eq_zero.mp b with h | h <;> rcases hcase with ⟨x, y⟩ | ⟨x, y⟩ <;> omega
  have hB : ¬ ((c1 : Int) = 0 ∧ (c2 : Int) ≠ 0) := by
    rintro ⟨a, b⟩
    rcases hcase with ⟨x, y⟩ | ⟨x, y⟩ <;> omega
  unfold PyObj.run
  rw [seq_norm (gen_me_if2_skip _ _ _ _ _ _ hA), seq_norm (gen_me_if3_skip _ _ _ _ _ _ hB),
    gen_me_final fuel obj ext rest log n hobj]


/-- only motor 1: `CU,50,0`, then `EM,c1,0` -/
theorem gen_me_only1 (fuel : Nat) (obj : EBB3_Obj) (ext : Ext) (rest : List PyIO.Rd) (log : List (List Char)) (n : Nat)
    (hobj : ReadyObj obj) (r1 r2 : Int) (c1 : Nat) (h1 : Spec.clamp r1 = c1) (h2 : Spec.clamp r2 = 0) (hc : c1 ≠ 0) :
    EBBMotionWrap_motors_enable (fuel + 1) (.int r1) (.int r2) ⟨obj, ⟨ackCU :: ackEM :: rest, [], log, n⟩, ext⟩ =
      .val .none ⟨obj, ⟨rest, [], log ++ [cmdCU50 ++ ['\r'], lineEM c1 0 ++ ['\r']], n + 2⟩, ext⟩ := by
  rw [gen_me_unfold _ _ hobj, h1, h2]
  have hA : ((c1 : Int) ≠ 0 ∧ (c1 : Int) * 0 = 0) := ⟨by omega, by omega⟩
  have hB : ¬ ((c1 : Int) = 0 ∧ (0 : Int) ≠ 0) := by omega
  unfold PyObj.run
  rw [seq_norm (gen_me_if2_cu fuel obj ext _ log n hobj _ _ _ _ hA), seq_norm (gen_me_if3_skip _ _ _ _ _ _ hB)]
  have := gen_me_final fuel obj ext rest (log ++ [cmdCU50 ++ ['\r']]) (n + 1) hobj c1 0 .unbound .unbound
  simp only [Int.natCast_zero] at this ⊢
  rw [this]
  simp

theorem gen_me_if4 (fuel : Nat) (w : PyObj.World EBB3_Obj) (c1 c2 o : PyObj.Val) (a b : Int) :
    EBBMotionWrap_motors_enable_if4 fuel (⟨c1, c2, o, .tuple [.int a, .int b]⟩ : MEnv) w =
      .norm ⟨c1, c2, o, .tuple [.int a, .int b]⟩ w := by
  simp [EBBMotionWrap_motors_enable_if4, ifte, app1, PyObj.bind, load, ok, ofP, op_is_none, isNone, truthy, pass]

theorem gen_me_if5 (fuel : Nat) (w : PyObj.World EBB3_Obj) (c1 c2 : PyObj.Val) (a b : Int) :
    EBBMotionWrap_motors_enable_if5 fuel (⟨c1, c2, .int 0, .tuple [.int a, .int b]⟩ : MEnv) w =
      .norm ⟨c1, c2, .int (if b ≠ 0 then b else 0), .tuple [.int a, .int b]⟩ w := by
  by_cases hb0 : b = 0 <;>
    simp [EBBMotionWrap_motors_enable_if5, ifte, app2, PyObj.bind, load, ok, ofP, truthy, pass, op_ne, op_getitem,
      intOf, normIdx, pyEq, assign, hb0]

theorem gen_me_if6 (fuel : Nat) (w : PyObj.World EBB3_Obj) (c1 c2 : PyObj.Val) (a b x : Int) :
    EBBMotionWrap_motors_enable_if6 fuel (⟨c1, c2, .int x, .tuple [.int a, .int b]⟩ : MEnv) w =
      .norm ⟨c1, c2, .int (if a ≠ 0 then a else x), .tuple [.int a, .int b]⟩ w := by
  by_cases ha0 : a = 0 <;>
    simp [EBBMotionWrap_motors_enable_if6, ifte, app2, PyObj.bind, load, ok, ofP, truthy, pass, op_ne, op_getitem,
      intOf, normIdx, pyEq, assign, ha0]

theorem oldRes_eq (a b : Int) : (if a ≠ 0 then a else (if b ≠ 0 then b else 0)) = oldRes a b := rfl

/-- only motor 2, the mode in use differs: `QE`, then the pre-setting `EM,c2,c2` -/
theorem gen_me_if3_preset (fuel : Nat) (obj : EBB3_Obj) (ext : Ext) (rest : List PyIO.Rd) (log : List (List Char)) (n : Nat)
    (hobj : ReadyObj obj) (c2 : Nat) (hc2 : c2 ≠ 0) (s1 s2 : Nat) (a b : Int)
    (ha : resMap (s1 : Int) = .ok a) (hb : resMap (s2 : Int) = .ok b) (hold : oldRes a b ≠ (c2 : Int)) (o m : PyObj.Val) :
    EBBMotionWrap_motors_enable_if3 (fuel + 1) (⟨.int 0, .int c2, o, m⟩ : MEnv)
        ⟨obj, ⟨dataQE s1 s2 :: ackEM :: rest, [], log, n⟩, ext⟩ =
      .norm ⟨.int 0, .int c2, .int (oldRes a b), .tuple [.int a, .int b]⟩
        ⟨obj, ⟨rest, [], log ++ [cQE ++ ['\r'], lineEM c2 c2 ++ ['\r']], n + 2⟩, ext⟩ := by
  have hq := gen_motors_query_enabled fuel obj ext (ackEM :: rest) log n hobj s1 s2 a b ha hb
  have hem := gen_command_EM fuel obj ext rest (log ++ [cQE ++ ['\r']]) (n + 1) hobj c2 c2
  have hc2' : ¬ ((c2 : Int) = 0) := by omega
  simp [EBBMotionWrap_motors_enable_if3, ifte, and_, PyObj.bind, app2, load, ok, ofP, op_ne, op_eq, intOf, pyEq, truthy, pass, hc2', hc2,
    block, seq, assign, mcall0]
  rw [hq]
  simp only [ofOut]
  rw [gen_me_if4]
  simp only []
  rw [gen_me_if5]
  simp only []
  rw [gen_me_if6, oldRes_eq]
  simp only []
  simp [EBBMotionWrap_motors_enable_if7, ifte, app2, PyObj.bind, load, ok, ofP, op_ne, pyEq, truthy, hold, expr, mcall1, fstr, evalList, strOf, ebb3_showInt_nat]
  rw [hem]
  simp [ofOut]

/-- only motor 2, the mode in use is already the requested one: `QE` only -/
theorem gen_me_if3_nopreset (fuel : Nat) (obj : EBB3_Obj) (ext : Ext) (rest : List PyIO.Rd) (log : List (List Char)) (n : Nat)
    (hobj : ReadyObj obj) (c2 : Nat) (hc2 : c2 ≠ 0) (s1 s2 : Nat) (a b : Int)
    (ha : resMap (s1 : Int) = .ok a) (hb : resMap (s2 : Int) = .ok b) (hold : oldRes a b = (c2 : Int)) (o m : PyObj.Val) :
    EBBMotionWrap_motors_enable_if3 (fuel + 1) (⟨.int 0, .int c2, o, m⟩ : MEnv)
        ⟨obj, ⟨dataQE s1 s2 :: rest, [], log, n⟩, ext⟩ =
      .norm ⟨.int 0, .int c2, .int (oldRes a b), .tuple [.int a, .int b]⟩
        ⟨obj, ⟨rest, [], log ++ [cQE ++ ['\r']], n + 1⟩, ext⟩ := by
  have hq := gen_motors_query_enabled fuel obj ext rest log n hobj s1 s2 a b ha hb
  have hc2' : ¬ ((c2 : Int) = 0) := by omega
  simp [EBBMotionWrap_motors_enable_if3, ifte, and_, PyObj.bind, app2, load, ok, ofP, op_ne, op_eq, intOf, pyEq, truthy, pass, hc2', hc2,
    block, seq, assign, mcall0]
  rw [hq]
  simp only [ofOut]
  rw [gen_me_if4]
  simp only []
  rw [gen_me_if5]
  simp only []
  rw [gen_me_if6, oldRes_eq]
  simp only []
  simp [EBBMotionWrap_motors_enable_if7, ifte, app2, PyObj.bind, load, ok, ofP, op_ne, pyEq, truthy, hold, pass]


/-- only motor 2 and the mode in use differs from the requested one -/
theorem gen_me_only2_preset (fuel : Nat) (obj : EBB3_Obj) (ext : Ext) (rest : List PyIO.Rd) (log : List (List Char)) (n : Nat)
    (hobj : ReadyObj obj) (r1 r2 : Int) (c2 : Nat) (h1 : Spec.clamp r1 = 0) (h2 : Spec.clamp r2 = c2) (hc : c2 ≠ 0)
    (s1 s2 : Nat) (a b : Int) (ha : resMap (s1 : Int) = .ok a) (hb : resMap (s2 : Int) = .ok b)
    (hold : oldRes a b ≠ (c2 : Int)) :
    EBBMotionWrap_motors_enable (fuel + 1) (.int r1) (.int r2)
        ⟨obj, ⟨ackCU :: dataQE s1 s2 :: ackEM :: ackEM :: rest, [], log, n⟩, ext⟩ =
      .val .none ⟨obj, ⟨rest, [],
        log ++ [cmdCU50 ++ ['\r'], cQE ++ ['\r'], lineEM c2 c2 ++ ['\r'], lineEM 0 c2 ++ ['\r']], n + 4⟩, ext⟩ := by
  rw [gen_me_unfold _ _ hobj, h1, h2]
  have hA : ((0 : Int) ≠ c2 ∧ (0 : Int) * c2 = 0) := ⟨by omega, by omega⟩
  unfold PyObj.run
  rw [seq_norm (gen_me_if2_cu fuel obj ext _ log n hobj _ _ _ _ hA),
    seq_norm (gen_me_if3_preset fuel obj ext _ _ _ hobj c2 hc s1 s2 a b ha hb hold _ _)]
  have := gen_me_final fuel obj ext rest (log ++ [cmdCU50 ++ ['\r']] ++ [cQE ++ ['\r'], lineEM c2 c2 ++ ['\r']]) (n + 1 + 2) hobj 0 c2
    (.int (oldRes a b)) (.tuple [.int a, .int b])
  simp only [Int.natCast_zero] at this ⊢
  rw [this]
  simp

/-- only motor 2 and the mode in use is already the requested one -/
theorem gen_me_only2_nopreset (fuel : Nat) (obj : EBB3_Obj) (ext : Ext) (rest : List PyIO.Rd) (log : List (List Char)) (n : Nat)
    (hobj : ReadyObj obj) (r1 r2 : Int) (c2 : Nat) (h1 : Spec.clamp r1 = 0) (h2 : Spec.clamp r2 = c2) (hc : c2 ≠ 0)
    (s1 s2 : Nat) (a b : Int) (ha : resMap (s1 : Int) = .ok a) (hb : resMap (s2 : Int) = .ok b)
    (hold : oldRes a b = (c2 : Int)) :
    EBBMotionWrap_motors_enable (fuel + 1) (.int r1) (.int r2)
        ⟨obj, ⟨ackCU :: dataQE s1 s2 :: ackEM :: rest, [], log, n⟩, ext⟩ =
      .val .none ⟨obj, ⟨rest, [],
        log ++ [cmdCU50 ++ ['\r'], cQE ++ ['\r'], lineEM 0 c2 ++ ['\r']], n + 3⟩, ext⟩ := by
  rw [gen_me_unfold _ _ hobj, h1, h2]
  have hA : ((0 : Int) ≠ c2 ∧ (0 : Int) * c2 = 0) := ⟨by omega, by omega⟩
  unfold PyObj.run
  rw [seq_norm (gen_me_if2_cu fuel obj ext _ log n hobj _ _ _ _ hA),
    seq_norm (gen_me_if3_nopreset fuel obj ext _ _ _ hobj c2 hc s1 s2 a b ha hb hold _ _)]
  have := gen_me_final fuel obj ext rest (log ++ [cmdCU50 ++ ['\r']] ++ [cQE ++ ['\r']]) (n + 1 + 1) hobj 0 c2
    (.int (oldRes a b)) (.tuple [.int a, .int b])
  simp only [Int.natCast_zero] at this ⊢
  rw [this]
  simp


end Plotink.C16
