import Plotink.Proofs.Ebb3Gen
import Plotink.Gen.EBBMotionWrap_dispatch

/-! # Toolkit for the bridges of the regenerated `EBB3` / `EBBMotionWrap` methods (stage B)

Generic pieces every bridge uses: message / request literals as explicit character lists, ASCII facts about rendered
integers, the two-disjunct guard as a *statement* (`run_guard2`), straight-line evaluation of a method body
(`run_seq_assign_ok`, `run_seq_norm`), a call of `command` as the last statement (`cmdOut`, `run_cmd_expr`) or as an
inner statement (`command_stmt`), and the generic bridge of the shape *guard → text → `self.command(text)`*
(`cmdShape_sim`). -/

namespace Plotink
namespace Ebb3Gen
open PyObj
set_option linter.unusedSimpArgs false
set_option linter.unusedVariables false

/-! ## literals -/

theorem lit_qryUnexpectedA : "\nUnexpected response from EBB.    Query: ".toList = ['\n', 'U', 'n', 'e', 'x', 'p', 'e', 'c', 't', 'e', 'd', ' ', 'r', 'e', 's', 'p', 'o', 'n', 's', 'e', ' ', 'f', 'r', 'o', 'm', ' ', 'E', 'B', 'B', '.', ' ', ' ', ' ', ' ', 'Q', 'u', 'e', 'r', 'y', ':', ' '] := by decide
theorem lit_qryTimeoutA : "EBB Serial Timeout after query: ".toList = ['E', 'B', 'B', ' ', 'S', 'e', 'r', 'i', 'a', 'l', ' ', 'T', 'i', 'm', 'e', 'o', 'u', 't', ' ', 'a', 'f', 't', 'e', 'r', ' ', 'q', 'u', 'e', 'r', 'y', ':', ' '] := by decide
theorem lit_qryUsbA : "USB communication error after query: ".toList = ['U', 'S', 'B', ' ', 'c', 'o', 'm', 'm', 'u', 'n', 'i', 'c', 'a', 't', 'i', 'o', 'n', ' ', 'e', 'r', 'r', 'o', 'r', ' ', 'a', 'f', 't', 'e', 'r', ' ', 'q', 'u', 'e', 'r', 'y', ':', ' '] := by decide
theorem lit_qgUnexpectedA : "\nUnexpected response from EBB.    Response to QG query: ".toList = ['\n', 'U', 'n', 'e', 'x', 'p', 'e', 'c', 't', 'e', 'd', ' ', 'r', 'e', 's', 'p', 'o', 'n', 's', 'e', ' ', 'f', 'r', 'o', 'm', ' ', 'E', 'B', 'B', '.', ' ', ' ', ' ', ' ', 'R', 'e', 's', 'p', 'o', 'n', 's', 'e', ' ', 't', 'o', ' ', 'Q', 'G', ' ', 'q', 'u', 'e', 'r', 'y', ':', ' '] := by decide
theorem lit_qgTimeout : "EBB Serial Timeout while reading status byte.".toList = ['E', 'B', 'B', ' ', 'S', 'e', 'r', 'i', 'a', 'l', ' ', 'T', 'i', 'm', 'e', 'o', 'u', 't', ' ', 'w', 'h', 'i', 'l', 'e', ' ', 'r', 'e', 'a', 'd', 'i', 'n', 'g', ' ', 's', 't', 'a', 't', 'u', 's', ' ', 'b', 'y', 't', 'e', '.'] := by decide
theorem lit_qgUsb : "USB communication error after status byte query".toList = ['U', 'S', 'B', ' ', 'c', 'o', 'm', 'm', 'u', 'n', 'i', 'c', 'a', 't', 'i', 'o', 'n', ' ', 'e', 'r', 'r', 'o', 'r', ' ', 'a', 'f', 't', 'e', 'r', ' ', 's', 't', 'a', 't', 'u', 's', ' ', 'b', 'y', 't', 'e', ' ', 'q', 'u', 'e', 'r', 'y'] := by decide
theorem lit_qgErrA : "Error reported by EBB.\n    Query: QG\n    Response: ".toList = ['E', 'r', 'r', 'o', 'r', ' ', 'r', 'e', 'p', 'o', 'r', 't', 'e', 'd', ' ', 'b', 'y', ' ', 'E', 'B', 'B', '.', '\n', ' ', ' ', ' ', ' ', 'Q', 'u', 'e', 'r', 'y', ':', ' ', 'Q', 'G', '\n', ' ', ' ', ' ', ' ', 'R', 'e', 's', 'p', 'o', 'n', 's', 'e', ':', ' '] := by decide
theorem lit_Err : "Err:".toList = ['E', 'r', 'r', ':'] := by decide
theorem lit_QG : "QG".toList = ['Q', 'G'] := by decide
theorem lit_QGcr : "QG\r".toList = ['Q', 'G', '\r'] := by decide
theorem lit_RBcr : "RB\r".toList = ['R', 'B', '\r'] := by decide
theorem lit_BLcr : "BL\r".toList = ['B', 'L', '\r'] := by decide
theorem lit_SMc : "SM,".toList = ['S', 'M', ','] := by decide
theorem lit_c0c0 : ",0,0".toList = [',', '0', ',', '0'] := by decide
theorem lit_HMc : "HM,".toList = ['H', 'M', ','] := by decide
theorem lit_EM00 : "EM,0,0".toList = ['E', 'M', ',', '0', ',', '0'] := by decide
theorem lit_EMc : "EM,".toList = ['E', 'M', ','] := by decide
theorem lit_CS : "CS".toList = ['C', 'S'] := by decide
theorem lit_T3 : "T3,1,0,0,0,0,0,0,3".toList = ['T', '3', ',', '1', ',', '0', ',', '0', ',', '0', ',', '0', ',', '0', ',', '0', ',', '3'] := by decide
theorem lit_SPc : "SP,".toList = ['S', 'P', ','] := by decide
theorem lit_POBc : "PO,B,".toList = ['P', 'O', ',', 'B', ','] := by decide
theorem lit_PDBc : "PD,B,".toList = ['P', 'D', ',', 'B', ','] := by decide
theorem lit_SC5 : "SC,5,".toList = ['S', 'C', ',', '5', ','] := by decide
theorem lit_SC4 : "SC,4,".toList = ['S', 'C', ',', '4', ','] := by decide
theorem lit_SC12 : "SC,12,".toList = ['S', 'C', ',', '1', '2', ','] := by decide
theorem lit_SC11 : "SC,11,".toList = ['S', 'C', ',', '1', '1', ','] := by decide
theorem lit_SRc : "SR,".toList = ['S', 'R', ','] := by decide
theorem lit_SLc : "SL,".toList = ['S', 'L', ','] := by decide
theorem lit_QLc : "QL,".toList = ['Q', 'L', ','] := by decide
theorem lit_QT : "QT".toList = ['Q', 'T'] := by decide
theorem lit_QE : "QE".toList = ['Q', 'E'] := by decide
theorem lit_QS : "QS".toList = ['Q', 'S'] := by decide
theorem lit_QC : "QC".toList = ['Q', 'C'] := by decide
theorem lit_PIBc : "PI,B,".toList = ['P', 'I', ',', 'B', ','] := by decide
theorem lit_STc : "ST,".toList = ['S', 'T', ','] := by decide
theorem lit_CU500 : "CU,50,0".toList = ['C', 'U', ',', '5', '0', ',', '0'] := by decide

/-! ## rendered integers are ASCII -/

theorem isAscii_append (a b : List Char) : PyIO.isAscii (a ++ b) = (PyIO.isAscii a && PyIO.isAscii b) := by
  simp [PyIO.isAscii, List.all_append]

theorem isAscii_of_digits (l : List Char) (h : ∀ c ∈ l, c.isDigit = true) : PyIO.isAscii l = true := by
  unfold PyIO.isAscii
  rw [List.all_eq_true]
  intro c hc
  have := h c hc
  simp only [Char.isDigit, Bool.and_eq_true, decide_eq_true_eq] at this
  simp only [decide_eq_true_eq]
  have h2 : c.val.toNat ≤ 57 := by
    have := this.2
    exact this
  show c.val.toNat < 128
  omega

theorem isAscii_natRepr (n : Nat) : PyIO.isAscii (toString n).toList = true := by
  apply isAscii_of_digits
  intro c hc
  have : (toString n).toList = Nat.toDigits 10 n := by
    show (Nat.repr n).toList = _
    exact Nat.toList_repr
  rw [this] at hc
  exact Nat.isDigit_of_mem_toDigits (by decide) (by decide) hc

theorem isAscii_showInt (z : Int) : PyIO.isAscii (Ebb3.showInt z) = true := by
  unfold Ebb3.showInt
  cases z with
  | ofNat n => exact isAscii_natRepr n
  | negSucc n =>
    have : (toString (Int.negSucc n)).toList = '-' :: (toString (n + 1)).toList := by
      show (Int.repr (Int.negSucc n)).toList = _
      simp [Int.repr, String.toList_append]
    rw [this]
    have h := isAscii_natRepr (n + 1)
    unfold PyIO.isAscii at h ⊢
    simp only [List.all_cons, h, Bool.and_true]
    decide

theorem isAscii_commaInts : ∀ l : List Int, PyIO.isAscii (Ebb3.commaInts l) = true
  | [] => rfl
  | [a] => by simp only [Ebb3.commaInts]; exact isAscii_showInt a
  | a :: b :: r => by
    have ih := isAscii_commaInts (b :: r)
    rw [Ebb3.commaInts]
    · simp only [isAscii_append, isAscii_showInt, ih, Bool.and_true, Bool.true_and]
      decide
    · intro h; cases h

theorem showInt_zero : Ebb3.showInt 0 = ['0'] := by decide
theorem showInt_one : Ebb3.showInt 1 = ['1'] := by decide

theorem absOpt_str {v : Val} {e : List Char} (h : absOpt v = some e) : v = .str e := by
  cases v <;> simp [absOpt] at h
  rw [h]

theorem absOpt_none {v : Val} (hv : IsOptStr v) (h : absOpt v = Option.none) : v = .none := by
  cases v <;> simp_all [absOpt, IsOptStr]

/-! ## generic evaluation of method bodies -/

section
variable {σ : Type}
open Gen

/-- the expression of the guard of 30 methods -/
abbrev guard2E : Expr EBB3_Obj σ :=
  fun fuel env => or_ (app1 op_is_none (getattr (·.port))) (app1 op_is_not_none (getattr (·.err)))

/-- the guard statement `if (self.port is None) or (self.err is not None): return X` -/
theorem guard2_stmt (X : Val) (fuel : Nat) (env : σ) (w : World EBB3_Obj) (ho : ObjOk w.obj) :
    ifte (guard2E (σ := σ)) (return_ (fun fuel env => ok X)) pass fuel env w
      = if (absSt w.obj).blocked = true then .ret X w else .norm env w := by
  simp only [ifte, guard2E, guard2_eval w ho, truthy_bool, return_, ok_apply, pass]
  by_cases hb : (absSt w.obj).blocked = true <;> simp [hb]

/-- a method body that starts with the guard -/
theorem run_guard2 (X : Val) (rest : Stmt EBB3_Obj σ) (fuel : Nat) (env : σ) (w : World EBB3_Obj) (ho : ObjOk w.obj) :
    PyObj.run (seq (ifte (guard2E (σ := σ)) (return_ (fun fuel env => ok X)) pass) rest) fuel env w
      = if (absSt w.obj).blocked = true then .val X w else PyObj.run rest fuel env w := by
  unfold PyObj.run seq
  rw [guard2_stmt X fuel env w ho]
  by_cases hb : (absSt w.obj).blocked = true <;> simp [hb]

theorem run_seq_norm {a b : Stmt EBB3_Obj σ} {fuel : Nat} {env env' : σ} {w w' : World EBB3_Obj}
    (h : a fuel env w = .norm env' w') : PyObj.run (seq a b) fuel env w = PyObj.run b fuel env' w' := by
  unfold PyObj.run
  rw [seq_norm h]

/-- a pure assignment in front of the rest of the body -/
theorem run_seq_assign_ok {set : σ → Val → σ} {e : Expr EBB3_Obj σ} {rest : Stmt EBB3_Obj σ} {fuel : Nat} {env : σ}
    {w : World EBB3_Obj} {v : Val} (h : e fuel env = ok v) :
    PyObj.run (seq (assign set e) rest) fuel env w = PyObj.run rest fuel (set env v) w :=
  run_seq_norm (assign_of (by rw [h]; rfl))

/-- what a method that ends with `self.command(text)` returns -/
def cmdOut (fuel : Nat) (text : List Char) (w : World EBB3_Obj) : Out EBB3_Obj :=
  match EBB3_command fuel (.str text) w with
  | .val _ w' => .val .none w'
  | .exc c w' => .exc c w'
  | .fuelOut => .fuelOut

theorem run_cmd_expr {e : Expr EBB3_Obj σ} {fuel : Nat} {env : σ} {w : World EBB3_Obj} {text : List Char}
    (h : e fuel env = ok (.str text)) :
    PyObj.run (expr (fun fuel env => mcall1 (EBB3_command fuel) (e fuel env))) fuel env w = cmdOut fuel text w := by
  unfold PyObj.run expr cmdOut
  simp only [h, mcall1_ok_apply]
  cases EBB3_command fuel (.str text) w <;> rfl

/-- the model's `Ebb3.run … (.command (some text))` is `(commandP … (some text)).run` -/
theorem run_command_eq (text : List Char) :
    Ebb3.run Ebb3.srcParams Ebb3.scriptDev (.command (some text)) =
      (Ebb3.commandP Ebb3.srcParams Ebb3.scriptDev (some text)).run := rfl

/-- how a statement of a caller ends, against a unit-valued fragment of the model -/
def StmtSim (fl : Flow EBB3_Obj σ) (env : σ) : Except Ebb3.PyExc Unit × Ebb3.World Ebb3.Script → Prop
  | (.ok _, aw') => ∃ w', fl = .norm env w' ∧ absWorld w' = aw' ∧ Good w'
  | (.error ex, aw') => ∃ w', fl = .exc (excOfEbb3 ex) env w' ∧ absWorld w' = aw' ∧ Good w'

/-- `self.command(text)` as a statement of a caller = the model's `cmd_` -/
theorem command_stmt (fuel : Nat) (hf : 26 ≤ fuel) (text : List Char) (hasc : PyIO.isAscii text = true) (env : σ)
    (w : World EBB3_Obj) (hg : Good w) (e : Expr EBB3_Obj σ) (he : e fuel env = ok (.str text)) :
    StmtSim (expr (fun fuel env => mcall1 (EBB3_command fuel) (e fuel env)) fuel env w) env
      (Ebb3.cmd_ Ebb3.srcParams Ebb3.scriptDev text (absWorld w)) := by
  have hb := command_bridge_ascii fuel hf (some text) (fun s hs => by injection hs with hs; rw [← hs]; exact hasc) w hg
  rw [run_command_eq] at hb
  unfold Ebb3.cmd_
  simp only [expr, he, mcall1_ok_apply]
  simp only [encReq] at hb
  generalize EBB3_command fuel (.str text) w = out at hb ⊢
  rw [Ebb3.bind_apply]
  generalize (Ebb3.commandP Ebb3.srcParams Ebb3.scriptDev (some text)).run (absWorld w) = r at hb ⊢
  obtain ⟨res, aw'⟩ := r
  cases out with
  | fuelOut => cases res <;> exact hb.elim
  | val v w' =>
    cases res with
    | error ex => exact hb.elim
    | ok v' => exact ⟨w', rfl, hb.2.1, hb.2.2⟩
  | exc c w' =>
    cases res with
    | ok v' => exact hb.elim
    | error ex =>
      obtain ⟨h1, h2, h3⟩ := hb
      exact ⟨w', by simp only [ofOut_exc, h1], h2, h3⟩

/-- **generic bridge of the shape guard → text → `self.command(text)`** (13 helpers): a regenerated method whose
result is `None` when blocked and otherwise whatever `self.command(text)` does (value dropped) is the model's `cmdP` -/
theorem cmdShape_sim (fuel : Nat) (hf : 26 ≤ fuel) (text : List Char) (hasc : PyIO.isAscii text = true)
    (w : World EBB3_Obj) (hg : Good w) (out : Out EBB3_Obj)
    (hout : out = if (absSt w.obj).blocked = true then .val .none w else cmdOut fuel text w) :
    Sim out ((Ebb3.cmdP Ebb3.srcParams Ebb3.scriptDev text).run (absWorld w)) := by
  subst hout
  show Sim _ (Ebb3.guardM .none _ (absWorld w))
  unfold Ebb3.guardM
  show Sim _ (if (absSt w.obj).blocked = true then _ else _)
  by_cases hb : (absSt w.obj).blocked = true
  · simp only [hb, ↓reduceIte]
    exact ⟨rfl, rfl, hg⟩
  · simp only [hb, Bool.false_eq_true, ↓reduceIte]
    have hc := command_bridge_ascii fuel hf (some text) (fun s hs => by injection hs with hs; rw [← hs]; exact hasc) w hg
    rw [run_command_eq] at hc
    simp only [encReq] at hc
    show Sim _ ((Ebb3.cmd_ Ebb3.srcParams Ebb3.scriptDev text >>= fun _ => pure Ebb3.Val.none) (absWorld w))
    unfold cmdOut Ebb3.cmd_
    generalize EBB3_command fuel (.str text) w = o at hc ⊢
    rw [Ebb3.bind_apply, Ebb3.bind_apply]
    generalize (Ebb3.commandP Ebb3.srcParams Ebb3.scriptDev (some text)).run (absWorld w) = r at hc ⊢
    obtain ⟨res, aw'⟩ := r
    cases o with
    | fuelOut => cases res <;> exact hc.elim
    | val v w' =>
      cases res with
      | error ex => exact hc.elim
      | ok v' => exact ⟨rfl, hc.2.1, hc.2.2⟩
    | exc c w' =>
      cases res with
      | ok v' => exact hc.elim
      | error ex => exact hc

end

end Ebb3Gen
end Plotink
