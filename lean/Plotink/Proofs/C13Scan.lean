import Plotink.Model.C13
import Mathlib.Tactic.Linarith
import Mathlib.Data.Rat.Init
import Mathlib.Algebra.Order.Ring.Rat

/-! C13: the argmin fold of `nearest`. -/
namespace Plotink
namespace C13

/-- `st` is the running best over the scanned identifiers `l` -/
def Good (g : Grid) (q : Pt) (st : Option (Rat × Nat)) (l : List Nat) : Prop :=
  match st with
  | none => l = []
  | some (d, i) => i ∈ l ∧ d = sqDist q (endPt g i) ∧ ∀ j ∈ l, d ≤ sqDist q (endPt g j)

theorem good_better {g : Grid} {q : Pt} {st : Option (Rat × Nat)} {l : List Nat} (id : Nat)
    (h : Good g q st l) : Good g q (better g q st id) (l ++ [id]) := by
  unfold better
  cases st with
  | none =>
    simp only [Good] at h ⊢
    subst h
    refine ⟨by simp, trivial, ?_⟩
    intro j hj
    simp at hj
    subst hj
    exact le_refl _
  | some s =>
    obtain ⟨bd, bi⟩ := s
    simp only [Good] at h
    obtain ⟨hi, hd, hmin⟩ := h
    by_cases hlt : sqDist q (endPt g id) < bd
    · simp only [hlt, if_true, Good]
      refine ⟨by simp, trivial, ?_⟩
      intro j hj
      rcases List.mem_append.mp hj with hj | hj
      · exact le_trans (le_of_lt hlt) (hmin j hj)
      · simp at hj; subst hj; exact le_refl _
    · simp only [hlt, if_false, Good]
      refine ⟨List.mem_append_left _ hi, hd, ?_⟩
      intro j hj
      rcases List.mem_append.mp hj with hj | hj
      · exact hmin j hj
      · simp at hj; subst hj; exact not_lt.mp hlt

theorem good_scan {g : Grid} {q : Pt} (ids : List Nat) :
    ∀ {st : Option (Rat × Nat)} {l : List Nat}, Good g q st l → Good g q (scan g q st ids) (l ++ ids) := by
  induction ids with
  | nil => intro st l h; simpa [scan] using h
  | cons id ids ih =>
    intro st l h
    have := ih (good_better id h)
    simpa [scan, List.append_assoc] using this

theorem nearest_eq (g : Grid) (q : Pt) :
    nearest g q = match scan g q none (nbIds g q) with
      | some (_, i + 1) => some (i + 1)
      | st1 => (scan g q st1 (restIds g q)).map (·.2) := rfl

/-- what `nearest` computes, in terms of the two scanned lists -/
theorem nearest_cases (g : Grid) (q : Pt) :
    (∃ r, nearest g q = some r ∧ r ∈ nbIds g q ∧ ∀ j ∈ nbIds g q, sqDist q (endPt g r) ≤ sqDist q (endPt g j)) ∨
    (nearest g q = none ∧ nbIds g q ++ restIds g q = []) ∨
    (∃ r, nearest g q = some r ∧ r ∈ nbIds g q ++ restIds g q ∧
      ∀ j ∈ nbIds g q ++ restIds g q, sqDist q (endPt g r) ≤ sqDist q (endPt g j)) := by
  have h1 : Good g q (scan g q none (nbIds g q)) ([] ++ nbIds g q) := good_scan _ (by simp [Good])
  simp only [List.nil_append] at h1
  have h2 : Good g q (scan g q (scan g q none (nbIds g q)) (restIds g q)) (nbIds g q ++ restIds g q) :=
    good_scan _ h1
  have fall : nearest g q = (scan g q (scan g q none (nbIds g q)) (restIds g q)).map (·.2) →
      (nearest g q = none ∧ nbIds g q ++ restIds g q = []) ∨
      (∃ r, nearest g q = some r ∧ r ∈ nbIds g q ++ restIds g q ∧
        ∀ j ∈ nbIds g q ++ restIds g q, sqDist q (endPt g r) ≤ sqDist q (endPt g j)) := by
    intro hn
    cases hs : scan g q (scan g q none (nbIds g q)) (restIds g q) with
    | none =>
      rw [hs] at h2 hn
      exact Or.inl ⟨by simpa using hn, by simpa [Good] using h2⟩
    | some s =>
      obtain ⟨d, i⟩ := s
      rw [hs] at h2 hn
      simp only [Good] at h2
      obtain ⟨hi, hd, hmin⟩ := h2
      exact Or.inr ⟨i, by simpa using hn, hi, fun j hj => hd ▸ hmin j hj⟩
  cases hs1 : scan g q none (nbIds g q) with
  | none =>
    right
    apply fall
    rw [nearest_eq, hs1]
  | some s =>
    obtain ⟨d, i⟩ := s
    cases i with
    | zero =>
      right
      apply fall
      rw [nearest_eq, hs1]
    | succ i =>
      left
      rw [hs1] at h1
      simp only [Good] at h1
      obtain ⟨hi, hd, hmin⟩ := h1
      refine ⟨i + 1, ?_, hi, fun j hj => hd ▸ hmin j hj⟩
      rw [nearest_eq, hs1]

end C13
end Plotink
