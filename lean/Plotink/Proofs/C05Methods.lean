import Plotink.Proofs.C05Decode
set_option linter.unusedSimpArgs false
set_option linter.unusedVariables false
/-!
The generic "every request method returns" theorem: for any device `D` and any invariant `I` of
worlds for which the four port-touching primitives (`command`, `query`, `query_statusbyte`, raw
reboot write) are *sound* — they return, keep `I`, and a query that returns text returns a
well-formed payload — every request method, with in-domain arguments, returns (no exception) and
keeps `I`.  Instantiated twice: scripts over the fault alphabet (C05_no_raise) and conforming
devices (C05_attribution).  Core Lean only.
-/
namespace Plotink
namespace Ebb3
open M

variable {σ : Type}

/-- soundness of the primitives with respect to an invariant -/
structure Sound (P : Params) (D : Device σ) (I : World σ → Prop) : Prop where
  /-- `I` does not depend on attributes other than `err` and `port` -/
  congr : ∀ (w : World σ) (f : St → St), (∀ st, (f st).err = st.err ∧ (f st).port = st.port) → I w →
    I { w with st := f w.st }
  cmd : ∀ (text : Str) (w : World σ), strip text ≠ [] → I w → w.st.blocked = false →
    ∃ w', commandCore P D (strip text) w = (.ok (.bool w'.st.err.isNone), w') ∧ I w' ∧
      w'.st.port = w.st.port
  qry : ∀ (q name : Str) (w : World σ), cmdName (strip q) = .ok name → I w → w.st.blocked = false →
    ∃ v w', queryCore P D (strip q) w = (.ok v, w') ∧ I w' ∧ w'.st.port = w.st.port ∧
      ((v = .none ∧ errTruthy w'.st = true) ∨
       (∃ s, v = .str s ∧ GoodPayload name s ∧ w'.st.err = Option.none))
  qg : ∀ (w : World σ), I w → w.st.blocked = false →
    ∃ v w', queryStatusByteBody D w = (.ok v, w') ∧ I w'
  raw : ∀ (text : Str) (w : World σ), I w → w.st.blocked = false →
    ∃ v w', rawCloseBody D text w = (.ok v, w') ∧ I w'

/-- a program returns and keeps the invariant -/
def Total (I : World σ → Prop) (x : M σ Val) : Prop :=
  ∀ w, I w → ∃ v w', x w = (.ok v, w') ∧ I w'

theorem Prog.run_open (p : Prog σ) (fv : Val) (hg : p.guard = some fv) (w : World σ)
    (h : w.st.blocked = false) : p.run w = p.body w := by
  simp [Prog.run, hg, guardM_open _ _ _ h]

/-- a guarded program is total as soon as its body is total on unblocked worlds -/
theorem total_guarded {I : World σ → Prop} (p : Prog σ) (fv : Val) (hg : p.guard = some fv)
    (hbody : ∀ w, I w → w.st.blocked = false → ∃ v w', p.body w = (.ok v, w') ∧ I w') : Total I p.run := by
  intro w hI
  by_cases hb : w.st.blocked = true
  · exact ⟨fv, w, Prog.run_blocked p fv hg w hb, hI⟩
  · have hb' : w.st.blocked = false := by simpa using hb
    rw [Prog.run_open p fv hg w hb']
    exact hbody w hI hb'

theorem errTruthy_isSome {st : St} (h : errTruthy st = true) : st.err.isSome = true := by
  unfold errTruthy at h
  split at h
  · rename_i e he; simp [he]
  · cases h

theorem errTruthy_of_none {st : St} (h : st.err = Option.none) : errTruthy st = false := by
  simp [errTruthy, h]

theorem rstrip_cons_nonspace {c : Char} (cs : Str) (h : isSpace c = false) : rstrip (c :: cs) = c :: rstrip cs := by
  rw [rstrip]
  split
  · rename_i heq; simp [h, heq]
  · rfl

theorem strip_cons_nonspace {c : Char} (cs : Str) (h : isSpace c = false) : strip (c :: cs) = c :: rstrip cs := by
  unfold strip lstrip
  rw [List.dropWhile_cons]
  simp only [h]
  exact rstrip_cons_nonspace cs h

/-- texts that begin with a literal whose first character is not whitespace are non-blank -/
theorem strip_ne_of_prefix (pre rest : Str) (h : (pre.head?.map isSpace) = some false) :
    strip (pre ++ rest) ≠ [] := by
  cases pre with
  | nil => simp at h
  | cons c tl =>
    simp only [List.head?_cons, Option.map_some, Option.some.injEq] at h
    exact nonBlank_cons _ h

/-- name of a text that begins with two literal non-space characters, the second not a comma -/
theorem cmdName_of_prefix2 (c d : Char) (rest : Str) (hc : isSpace c = false) (hd : isSpace d = false)
    (hne : d ≠ ',') : cmdName (strip (c :: d :: rest)) = .ok [c, d] := by
  rw [strip_cons_nonspace _ hc, rstrip_cons_nonspace _ hd]
  simp [cmdName, hne]

/-- alternatives after a step of a multi-step method: an error is recorded, or still unblocked -/
def Live (w : World σ) : Prop := w.st.err.isSome = true ∨ w.st.blocked = false

theorem errIsNone_total (w : World σ) : (errIsNone : M σ Val) w = (.ok (.bool w.st.err.isNone), w) := rfl

theorem run_of_err (p : Prog σ) (fv : Val) (hg : p.guard = some fv) (w : World σ)
    (h : w.st.err.isSome = true) : p.run w = (.ok fv, w) :=
  Prog.run_blocked p fv hg w (by simp [St.blocked, h])

theorem blocked_false_iff {st : St} : st.blocked = false ↔ st.port = true ∧ st.err = Option.none := by
  cases hp : st.port <;> cases he : st.err <;> simp [St.blocked, hp, he]

theorem toBytes4_ok {v : Int} (h : -2147483648 ≤ v ∧ v < 2147483648) :
    ∃ b3 b2 b1 b0, toBytes4 v = .ok (b3, b2, b1, b0) := by
  simp [toBytes4, h]

theorem isSome_keeps (p : Prog σ) (fv : Val) (hg : p.guard = some fv) {w : World σ} {r : Except PyExc Val}
    {w' : World σ} (h : p.run w = (r, w')) (he : w.st.err.isSome = true) : w'.st.err.isSome = true := by
  rw [run_of_err p fv hg w he] at h
  injection h with _ h2
  rw [← h2]; exact he

theorem pauseText_ne (d : Int) : strip (pauseText d) ≠ [] := by
  unfold pauseText
  rw [List.append_assoc]
  exact strip_ne_of_prefix _ _ (by decide)

theorem absMoveText_ne (r : Int) (a b : Option Int) : strip (absMoveText r a b) ≠ [] := by
  cases a <;> cases b <;> exact strip_ne_of_prefix _ _ (by decide)

theorem penText_ne (u d : Int) (p : Option Int) : strip (penText u d p) ≠ [] := by
  cases p <;> exact strip_ne_of_prefix _ _ (by decide)

theorem servoText_ne (m : Int) (s : Option Int) : strip (servoText m s) ≠ [] := by
  cases s <;> exact strip_ne_of_prefix _ _ (by decide)

theorem emText_ne (x y : Int) : strip (emText x y) ≠ [] := by
  unfold emText; exact strip_ne_of_prefix _ _ (by decide)

section
variable {P : Params} {D : Device σ} {I : World σ → Prop} (S : Sound P D I)
include S

/-- `self.command(text)` anywhere -/
theorem command_total (text : Str) (hnb : strip text ≠ []) : Total I (commandP P D (some text)).run :=
  total_guarded _ _ rfl (fun w hI hb => by
    obtain ⟨w', h, hI', -⟩ := S.cmd text w hnb hI hb
    exact ⟨_, w', h, hI'⟩)

theorem cmd__total (text : Str) (hnb : strip text ≠ []) (w : World σ) (hI : I w) :
    ∃ w', cmd_ P D text w = (.ok (), w') ∧ I w' := by
  obtain ⟨v, w', h, hI'⟩ := command_total S text hnb w hI
  exact ⟨w', by simp [cmd_, bind_ok h], hI'⟩

theorem cmdP_total (text : Str) (hnb : strip text ≠ []) : Total I (cmdP P D text).run :=
  total_guarded _ _ rfl (fun w hI _ => by
    obtain ⟨w', h, hI'⟩ := cmd__total S text hnb w hI
    exact ⟨.none, w', by simp [cmdP, bind_ok h], hI'⟩)

theorem runCmds_total : ∀ (l : List Str), (∀ t ∈ l, strip t ≠ []) → ∀ w, I w →
    ∃ w', runCmds P D l w = (.ok (), w') ∧ I w'
  | [], _, w, hI => ⟨w, rfl, hI⟩
  | t :: ts, h, w, hI => by
    obtain ⟨w1, h1, hI1⟩ := cmd__total S t (h t (by simp)) w hI
    obtain ⟨w2, h2, hI2⟩ := runCmds_total ts (fun u hu => h u (by simp [hu])) w1 hI1
    exact ⟨w2, by simp [runCmds, bind_ok h1, h2], hI2⟩

/-- `self.query(q)` on an unblocked object -/
theorem query_open (q name : Str) (hn : cmdName (strip q) = .ok name) (w : World σ) (hI : I w)
    (hb : w.st.blocked = false) :
    ∃ v w', (queryP P D (some q)).run w = (.ok v, w') ∧ I w' ∧ w'.st.port = w.st.port ∧
      ((v = .none ∧ errTruthy w'.st = true) ∨
       (∃ s, v = .str s ∧ GoodPayload name s ∧ w'.st.err = Option.none)) := by
  rw [Prog.run_open _ _ rfl w hb]
  exact S.qry q name w hn hI hb

/-! #### methods of `EBB3` -/

theorem queryStatusByte_total : Total I (queryStatusByteP D).run :=
  total_guarded _ _ rfl (fun w hI hb => S.qg w hI hb)

theorem reboot_total : Total I (rebootP D).run :=
  total_guarded _ _ rfl (fun w hI hb => S.raw _ w hI hb)

theorem bootload_total : Total I (bootloadP D).run :=
  total_guarded _ _ rfl (fun w hI hb => S.raw _ w hI hb)

theorem setName_keeps (n : Str) (w : World σ) (hI : I w) :
    ∃ w', (setName n : M σ Unit) w = (.ok (), w') ∧ I w' :=
  ⟨_, rfl, S.congr w (fun st => { st with name := some n }) (fun _ => ⟨rfl, rfl⟩) hI⟩

theorem queryNickname_total : Total I (queryNicknameP P D).run :=
  total_guarded _ _ rfl (fun w hI hb => by
    obtain ⟨v, w', h, hI', -, hv⟩ := query_open S "QT".toList "QT".toList (by rfl) w hI hb
    rcases hv with ⟨rfl, -⟩ | ⟨s, rfl, -, -⟩
    · exact ⟨.none, w', by simp only [queryNicknameP]; rw [bind_ok h]; rfl, hI'⟩
    · by_cases hsp : isSpaceStr s = true
      · exact ⟨.none, w', by simp only [queryNicknameP]; rw [bind_ok h]; simp [hsp, bind_apply], hI'⟩
      · obtain ⟨w2, h2, hI2⟩ := setName_keeps S (strip s) w' hI'
        exact ⟨.none, w2, by simp only [queryNicknameP]; rw [bind_ok h]; simp [bind_apply, hsp, h2], hI2⟩)

theorem writeNickname_total (nick : Option Str) : Total I (writeNicknameP P D nick).run :=
  total_guarded _ _ rfl (fun w hI hb => by
    cases nick with
    | none => exact ⟨_, w, rfl, hI⟩
    | some n0 =>
      obtain ⟨v, w', h, hI'⟩ := command_total S ("ST,".toList ++ strip n0)
        (strip_ne_of_prefix _ _ (by decide)) w hI
      by_cases hv : v = .bool true
      · subst hv
        obtain ⟨w2, h2, hI2⟩ := setName_keeps S (strip n0) w' hI'
        exact ⟨.bool true, w2, by simp only [writeNicknameP]; rw [bind_ok h]; simp [bind_apply, h2], hI2⟩
      · refine ⟨.bool false, w', ?_, hI'⟩
        simp only [writeNicknameP]
        rw [bind_ok h]
        split
        · exact absurd rfl hv
        · rfl)


theorem varWrite_total (v i : Int) : Total I (varWriteP P D v i).run :=
  total_guarded _ _ rfl (fun w hI hb => by
    obtain ⟨r, w', h, hI'⟩ := command_total S ("SL,".toList ++ showInt v ++ [','] ++ showInt i)
      (by rw [List.append_assoc, List.append_assoc]; exact strip_ne_of_prefix _ _ (by decide)) w hI
    exact ⟨_, w', by simp only [varWriteP]; rw [bind_ok h, errIsNone_total], hI'⟩)




/-- one `var_read`: afterwards an error is recorded, or the object is unblocked and the value is a
byte -/
theorem varRead_step (i : Int) (w : World σ) (hI : I w) (hl : Live w) :
    ∃ v w', (varReadP P D i).run w = (.ok v, w') ∧ I w' ∧ Live w' ∧
      (w'.st.err.isSome = true ∨ ∃ z, v = .int z ∧ 0 ≤ z ∧ z < 256) := by
  rcases hl with he | hb
  · exact ⟨.none, w, run_of_err _ _ rfl w he, hI, Or.inl he, Or.inl he⟩
  · rw [Prog.run_open _ _ rfl w hb]
    have hn : cmdName (strip ("QL,".toList ++ showInt i)) = .ok "QL".toList :=
      cmdName_of_prefix2 'Q' 'L' _ (by decide) (by decide) (by decide)
    obtain ⟨v, w', h, hI', hport, hv⟩ := query_open S _ _ hn w hI hb
    rcases hv with ⟨rfl, ht⟩ | ⟨s, rfl, hg, he⟩
    · have hs := errTruthy_isSome ht
      exact ⟨.none, w', by simp only [varReadP]; rw [bind_ok h]; simp [bind_apply, hs], hI', Or.inl hs, Or.inl hs⟩
    · obtain ⟨z, hz, h0, h1⟩ := hg.2.2.2.2 rfl
      refine ⟨.int z, w', ?_, hI', Or.inr ?_, Or.inr ⟨z, rfl, h0, h1⟩⟩
      · simp only [varReadP]; rw [bind_ok h]; simp [bind_apply, he, intOfVal_good hz]
      · rw [blocked_false_iff] at hb ⊢
        exact ⟨hport.trans hb.1, he⟩

theorem varRead_total (i : Int) : Total I (varReadP P D i).run := by
  intro w hI
  by_cases hb : w.st.blocked = true
  · exact ⟨_, w, Prog.run_blocked _ _ rfl w hb, hI⟩
  · obtain ⟨v, w', h, hI', -, -⟩ := varRead_step S i w hI (Or.inr (by simpa using hb))
    exact ⟨v, w', h, hI'⟩


theorem varWriteInt32_total (v i : Int) (hv : -2147483648 ≤ v ∧ v < 2147483648) :
    Total I (varWriteInt32P P D v i).run :=
  total_guarded _ _ rfl (fun w hI hb => by
    obtain ⟨b3, b2, b1, b0, hbytes⟩ := toBytes4_ok hv
    obtain ⟨r1, w1, h1, hI1⟩ := varWrite_total S b3 i w hI
    obtain ⟨r2, w2, h2, hI2⟩ := varWrite_total S b2 (i + 1) w1 hI1
    obtain ⟨r3, w3, h3, hI3⟩ := varWrite_total S b1 (i + 2) w2 hI2
    obtain ⟨r4, w4, h4, hI4⟩ := varWrite_total S b0 (i + 3) w3 hI3
    exact ⟨_, w4, by simp only [varWriteInt32P, hbytes]; rw [bind_ok h1, bind_ok h2, bind_ok h3, bind_ok h4,
      errIsNone_total], hI4⟩)


theorem varReadInt32_total (i : Int) : Total I (varReadInt32P P D i).run :=
  total_guarded _ _ rfl (fun w hI hb => by
    obtain ⟨a, w1, h1, hI1, hl1, hv1⟩ := varRead_step S i w hI (Or.inr hb)
    obtain ⟨b, w2, h2, hI2, hl2, hv2⟩ := varRead_step S (i + 1) w1 hI1 hl1
    obtain ⟨c, w3, h3, hI3, hl3, hv3⟩ := varRead_step S (i + 2) w2 hI2 hl2
    obtain ⟨d, w4, h4, hI4, hl4, hv4⟩ := varRead_step S (i + 3) w3 hI3 hl3
    by_cases he : w4.st.err.isSome = true
    · exact ⟨.none, w4, by simp only [varReadInt32P]; rw [bind_ok h1, bind_ok h2, bind_ok h3, bind_ok h4]; simp [bind_apply, he], hI4⟩
    · have he3 : ¬ w3.st.err.isSome = true := fun h => he (isSome_keeps _ _ rfl h4 h)
      have he2 : ¬ w2.st.err.isSome = true := fun h => he3 (isSome_keeps _ _ rfl h3 h)
      have he1 : ¬ w1.st.err.isSome = true := fun h => he2 (isSome_keeps _ _ rfl h2 h)
      obtain ⟨za, rfl, ha0, ha1⟩ := hv1.resolve_left he1
      obtain ⟨zb, rfl, hb0, hb1⟩ := hv2.resolve_left he2
      obtain ⟨zc, rfl, hc0, hc1⟩ := hv3.resolve_left he3
      obtain ⟨zd, rfl, hd0, hd1⟩ := hv4.resolve_left he
      have hfb : ∃ z, fromBytes4 (.int za) (.int zb) (.int zc) (.int zd) = .ok z := by
        simp [fromBytes4, ha0, ha1, hb0, hb1, hc0, hc1, hd0, hd1]
      obtain ⟨z, hz⟩ := hfb
      refine ⟨.int z, w4, ?_, hI4⟩
      simp only [varReadInt32P]
      rw [bind_ok h1, bind_ok h2, bind_ok h3, bind_ok h4]
      simp [bind_apply, he, hz])

/-! #### methods of `EBBMotionWrap` -/


theorem timedPause_total (t : Int) : Total I (timedPauseP P D t).run :=
  total_guarded _ _ rfl (fun w hI hb => by
    obtain ⟨w', h, hI'⟩ := runCmds_total S ((pauseChunks P (t.toNat + 1) t).map pauseText)
      (fun u hu => by
        obtain ⟨d, -, rfl⟩ := List.mem_map.mp hu
        exact pauseText_ne d) w hI
    exact ⟨.none, w', by simp only [timedPauseP]; rw [bind_ok h]; rfl, hI'⟩)





theorem dioBConfig_total (a b c : Int) : Total I (dioBConfigP P D a b c).run :=
  total_guarded _ _ rfl (fun w hI hb => by
    obtain ⟨w1, h1, hI1⟩ := cmd__total S ("PO,B,".toList ++ commaInts [a, b]) (strip_ne_of_prefix _ _ (by decide)) w hI
    obtain ⟨w2, h2, hI2⟩ := cmd__total S ("PD,B,".toList ++ commaInts [a, c]) (strip_ne_of_prefix _ _ (by decide)) w1 hI1
    exact ⟨.none, w2, by simp only [dioBConfigP]; rw [bind_ok h1, bind_ok h2]; rfl, hI2⟩)

theorem motorsQueryEnabled_total : Total I (motorsQueryEnabledP P D).run :=
  total_guarded _ _ rfl (fun w hI hb => by
    obtain ⟨v, w', h, hI', -, hv⟩ := query_open S "QE".toList "QE".toList (by rfl) w hI hb
    rcases hv with ⟨rfl, -⟩ | ⟨s, rfl, hg, -⟩
    · exact ⟨.none, w', by simp only [motorsQueryEnabledP]; rw [bind_ok h]; rfl, hI'⟩
    · obtain ⟨ra, rb, hd⟩ := qeDecode_good (hg.2.2.1 rfl) w'
      exact ⟨_, w', by simp only [motorsQueryEnabledP]; rw [bind_ok h]; exact hd, hI'⟩)

theorem optCmd_total (c : Prop) [Decidable c] (text : Str) (hnb : strip text ≠ []) (w : World σ) (hI : I w) :
    ∃ w', (if c then cmd_ P D text else (pure () : M σ Unit)) w = (.ok (), w') ∧ I w' := by
  by_cases hc : c
  · simp only [hc, if_true]; exact cmd__total S text hnb w hI
  · simp only [hc, if_false]; exact ⟨w, rfl, hI⟩

theorem motorsEnable_total (r1 r2 : Int) : Total I (motorsEnableP P D r1 r2).run :=
  total_guarded _ _ rfl (fun w hI hb => by
    show ∃ v w', motorsEnableCore P D (clampRes r1) (clampRes r2) w = (.ok v, w') ∧ I w'
    generalize clampRes r1 = a
    generalize clampRes r2 = b
    unfold motorsEnableCore
    obtain ⟨w1, h1, hI1⟩ := optCmd_total S (a ≠ b ∧ a * b = 0) "CU,50,0".toList (by decide) w hI
    rw [bind_ok h1]
    by_cases hc : a = 0 ∧ b ≠ 0
    · rw [if_pos hc]
      obtain ⟨mr, w2, h2, hI2⟩ := motorsQueryEnabled_total S w1 hI1
      rw [bind_ok h2]
      split
      · rename_i m0 m1
        obtain ⟨w3, h3, hI3⟩ := optCmd_total S (oldRes m0 m1 ≠ b) (emText b b) (emText_ne b b) w2 hI2
        obtain ⟨w4, h4, hI4⟩ := cmd__total S (emText a b) (emText_ne a b) w3 hI3
        refine ⟨.none, w4, ?_, hI4⟩
        rw [bind_ok h3, bind_ok h4]
        rfl
      · exact ⟨.none, w2, rfl, hI2⟩
    · rw [if_neg hc]
      obtain ⟨w2, h2, hI2⟩ := cmd__total S (emText a b) (emText_ne a b) w1 hI1
      exact ⟨.none, w2, by rw [bind_ok h2]; rfl, hI2⟩)

theorem querySteps_total : Total I (queryStepsP P D).run :=
  total_guarded _ _ rfl (fun w hI hb => by
    obtain ⟨v, w', h, hI', -, hv⟩ := query_open S "QS".toList "QS".toList (by rfl) w hI hb
    rcases hv with ⟨rfl, ht⟩ | ⟨s, rfl, hg, he⟩
    · exact ⟨.none, w', by simp only [queryStepsP]; rw [bind_ok h]; simp [bind_apply, ht], hI'⟩
    · obtain ⟨za, zb, hd⟩ := int2_good (hg.1 rfl) w'
      exact ⟨.pair (.int za) (.int zb), w',
        by simp only [queryStepsP]; rw [bind_ok h]; simp [bind_apply, errTruthy_of_none he, hd], hI'⟩)

theorem dioBRead_total (pin : Int) : Total I (dioBReadP P D pin).run :=
  total_guarded _ _ rfl (fun w hI hb => by
    have hn : cmdName (strip ("PI,B,".toList ++ showInt pin)) = .ok "PI".toList :=
      cmdName_of_prefix2 'P' 'I' _ (by decide) (by decide) (by decide)
    obtain ⟨v, w', h, hI', -, hv⟩ := query_open S _ _ hn w hI hb
    rcases hv with ⟨rfl, -⟩ | ⟨s, rfl, hg, -⟩
    · exact ⟨.none, w', by simp only [dioBReadP]; rw [bind_ok h]; rfl, hI'⟩
    · obtain ⟨z, hz⟩ := hg.2.2.2.1 rfl
      exact ⟨_, w', by simp only [dioBReadP]; rw [bind_ok h]; exact boolOfStr_good hz w', hI'⟩)

theorem queryVoltage_total (th : Option Int) : Total I (queryVoltageP P D th).run :=
  total_guarded _ _ rfl (fun w hI hb => by
    obtain ⟨v, w', h, hI', -, hv⟩ := query_open S "QC".toList "QC".toList (by rfl) w hI hb
    rcases hv with ⟨rfl, -⟩ | ⟨s, rfl, hg, -⟩
    · exact ⟨.none, w', by simp only [queryVoltageP]; rw [bind_ok h]; rfl, hI'⟩
    · obtain ⟨b, hd⟩ := voltageDecode_good (th.getD P.vThreshold) (hg.2.1 rfl) w'
      exact ⟨_, w', by simp only [queryVoltageP]; rw [bind_ok h]; exact hd, hI'⟩)

theorem queryCurrent_total : Total I (queryCurrentP P D).run :=
  total_guarded _ _ rfl (fun w hI hb => by
    obtain ⟨v, w', h, hI', -, hv⟩ := query_open S "QC".toList "QC".toList (by rfl) w hI hb
    rcases hv with ⟨rfl, -⟩ | ⟨s, rfl, hg, -⟩
    · exact ⟨_, w', by simp only [queryCurrentP]; rw [bind_ok h]; rfl, hI'⟩
    · obtain ⟨za, zb, hd⟩ := currentDecode_good (hg.2.1 rfl) w'
      exact ⟨_, w', by simp only [queryCurrentP]; rw [bind_ok h]; exact hd, hI'⟩)

theorem query_total (q : Str) (hnb : strip q ≠ []) : Total I (queryP P D (some q)).run :=
  total_guarded _ _ rfl (fun w hI hb => by
    obtain ⟨name, hn, -⟩ := cmdName_ok_of_ne hnb
    obtain ⟨v, w', h, hI', -, -⟩ := S.qry q name w hn hI hb
    exact ⟨v, w', h, hI'⟩)

end

/-- the arguments for which the statement claims "no exception": non-blank request strings, int32
values for the 4-byte writer -/
def Call.InDomain : Call → Prop
  | .command (some s) => strip s ≠ []
  | .query (some s) => strip s ≠ []
  | .var_write_int32 v _ => -2147483648 ≤ v ∧ v < 2147483648
  | _ => True

/-- **generic theorem**: sound primitives ⇒ every request method returns and keeps the invariant -/
theorem total_of_sound {P : Params} {D : Device σ} {I : World σ → Prop} (S : Sound P D I) (c : Call)
    (hr : c.method.isRequest = true) (hd : c.InDomain) : Total I (run P D c) := by
  unfold run
  cases c <;> first | (simp [Call.method, Method.isRequest, Method.isHelper] at hr; done) | skip
  case reboot => exact reboot_total S
  case bootload => exact bootload_total S
  case query_nickname => exact queryNickname_total S
  case write_nickname n => exact writeNickname_total S n
  case command cmd =>
    cases cmd with
    | none => exact total_guarded _ _ rfl (fun w hI _ => ⟨_, w, rfl, hI⟩)
    | some s => exact command_total S s hd
  case query q =>
    cases q with
    | none => exact total_guarded _ _ rfl (fun w hI _ => ⟨_, w, rfl, hI⟩)
    | some s => exact query_total S s hd
  case query_statusbyte => exact queryStatusByte_total S
  case var_write v i => exact varWrite_total S v i
  case var_read i => exact varRead_total S i
  case var_write_int32 v i => exact varWriteInt32_total S v i hd
  case var_read_int32 i => exact varReadInt32_total S i
  case timed_pause t => exact timedPause_total S t
  case xy_move dx dy dur => exact cmdP_total S _ (strip_ne_of_prefix _ _ (by decide))
  case abs_move r a b => exact cmdP_total S _ (absMoveText_ne r a b)
  case motors_disable => exact cmdP_total S _ (by decide)
  case motors_enable a b => exact motorsEnable_total S a b
  case motors_query_enabled => exact motorsQueryEnabled_total S
  case query_steps => exact querySteps_total S
  case clear_steps => exact cmdP_total S _ (by decide)
  case clear_accumulators => exact cmdP_total S _ (by decide)
  case pen_lower d p => exact cmdP_total S _ (penText_ne 0 d p)
  case pen_raise d p => exact cmdP_total S _ (penText_ne 1 d p)
  case dio_b_config a b c => exact dioBConfig_total S a b c
  case dio_b_set a b => exact cmdP_total S _ (strip_ne_of_prefix _ _ (by decide))
  case dio_b_read p => exact dioBRead_total S p
  case pen_pos_down v => exact cmdP_total S _ (strip_ne_of_prefix _ _ (by decide))
  case pen_pos_up v => exact cmdP_total S _ (strip_ne_of_prefix _ _ (by decide))
  case pen_rate_down v => exact cmdP_total S _ (strip_ne_of_prefix _ _ (by decide))
  case pen_rate_up v => exact cmdP_total S _ (strip_ne_of_prefix _ _ (by decide))
  case servo_timeout m s => exact cmdP_total S _ (servoText_ne m s)
  case query_voltage t => exact queryVoltage_total S t
  case query_current => exact queryCurrent_total S

end Ebb3
end Plotink
