import Plotink.Proofs.C09Geom

/-! List/loop lemmas for C09: `points_in_tolerance` as a quantified statement, the two loops of
`supersample` (result spec and fuel). -/
namespace Plotink
namespace C09

/-! ### lists of the shape `a :: (mid ++ [b])` -/

theorem interior_cons_snoc {β : Type} (a b : β) (mid : List β) : interior (a :: (mid ++ [b])) = mid := by
  simp [interior]

theorem getLast?_shape {β : Type} (a b : β) (mid : List β) : (a :: (mid ++ [b])).getLast? = some b := by
  rw [← List.cons_append, List.getLast?_append]; simp

theorem shape_of_len {β : Type} (l : List β) (h : 2 ≤ l.length) :
    ∃ a mid b, l = a :: (mid ++ [b]) := by
  match l, h with
  | a :: t, h =>
    have ht : t ≠ [] := by intro h0; subst h0; simp at h
    exact ⟨a, t.dropLast, t.getLast ht, by rw [List.dropLast_append_getLast ht]⟩

theorem maxList_lt_iff (l : List Rat) (hl : l ≠ []) (c : Rat) : maxList l < c ↔ ∀ x ∈ l, x < c := by
  induction l with
  | nil => exact absurd rfl hl
  | cons x xs ih =>
    cases xs with
    | nil => simp [maxList]
    | cons y ys =>
      have ih' := ih (by simp)
      rw [maxList]
      split_ifs with h
      · constructor
        · intro hx z hz
          rcases List.mem_cons.mp hz with rfl | hz
          · exact hx
          · exact (ih'.mp (lt_of_le_of_lt h hx)) z hz
        · intro hall; exact hall x (List.mem_cons_self ..)
      · push Not at h
        constructor
        · intro hm z hz
          rcases List.mem_cons.mp hz with rfl | hz
          · exact lt_trans h hm
          · exact ih'.mp hm z hz
        · intro hall; exact ih'.mpr (fun z hz => hall z (List.mem_cons_of_mem _ hz))

theorem pointsInTol_shape (a b : Pt) (mid : List Pt) (hm : mid ≠ []) (tol : Rat) :
    pointsInTol (a :: (mid ++ [b])) tol = some (mid.all (ptOk a b (tol * tol))) := by
  have hlen : ¬ (a :: (mid ++ [b])).length < 3 := by
    cases mid with
    | nil => exact absurd rfl hm
    | cons x xs => simp
  unfold pointsInTol
  rw [if_neg hlen, interior_cons_snoc, getLast?_shape]
  simp

theorem maxDistSq_shape (a b : Pt) (mid : List Pt) (hm : mid ≠ []) :
    maxDistSq (a :: (mid ++ [b])) = some (maxList (mid.map (distSq a b))) := by
  have hlen : ¬ (a :: (mid ++ [b])).length < 3 := by
    cases mid with
    | nil => exact absurd rfl hm
    | cons x xs => simp
  unfold maxDistSq
  rw [if_neg hlen, interior_cons_snoc, getLast?_shape]
  simp

theorem all_ptOk_iff (a b : Pt) (mid : List Pt) (tolSq : Rat) :
    mid.all (ptOk a b tolSq) = true ↔ ∀ p ∈ mid, distSq a b p < tolSq := by
  simp [List.all_eq_true, ptOk_iff]

theorem pointsInTol_none_iff (pts : List Pt) (tol : Rat) : pointsInTol pts tol = none ↔ pts.length < 3 := by
  unfold pointsInTol
  split_ifs with h
  · simp [h]
  · cases pts with
    | nil => simp at h
    | cons x xs =>
      simp only [List.head?_cons]
      have : (x :: xs).getLast? = some ((x :: xs).getLast (by simp)) := List.getLast?_eq_getLast_of_ne_nil (by simp)
      rw [this]; simp at h ⊢; omega

/-! ### `Reduced` -/
section
variable {α : Type} (xy : α → Pt)

theorem Reduced.refl (tolSq : Rat) : ∀ l : List α, Reduced xy tolSq l l
  | [] => .nil
  | [a] => .single a
  | a :: b :: t => by
    have := Reduced.step (xy := xy) (tolSq := tolSq) a [] b t (b :: t) (by simp) (Reduced.refl tolSq (b :: t))
    simpa using this

theorem Reduced.head {tolSq : Rat} {b : α} {rest r : List α} (h : Reduced xy tolSq (b :: rest) r) :
    ∃ r', r = b :: r' := by
  cases h with
  | single => exact ⟨[], rfl⟩
  | step a run b' rest' r' hc hr => exact ⟨r', rfl⟩

theorem Reduced.sublist {tolSq : Rat} {v r : List α} (h : Reduced xy tolSq v r) : r.Sublist v := by
  induction h with
  | nil => exact List.Sublist.slnil
  | single a => exact List.Sublist.refl _
  | step a run b rest r hc hr ih =>
    exact List.Sublist.cons_cons a (ih.trans (List.sublist_append_right run (b :: rest)))

theorem Reduced.head? {tolSq : Rat} {v r : List α} (h : Reduced xy tolSq v r) : r.head? = v.head? := by
  cases h <;> rfl

theorem Reduced.getLast? {tolSq : Rat} {v r : List α} (h : Reduced xy tolSq v r) : r.getLast? = v.getLast? := by
  induction h with
  | nil => rfl
  | single a => rfl
  | step a run b rest r hc hr ih =>
    obtain ⟨r', rfl⟩ := hr.head
    rw [List.getLast?_cons_cons, ih]
    have : a :: (run ++ b :: rest) = (a :: run) ++ (b :: rest) := by simp
    rw [this, List.getLast?_append]
    simp [List.getLast?_eq_getLast_of_ne_nil (l := b :: rest) (by simp)]

/-! ### decomposition of a list at `start` and `e` -/

theorem decomp (v : List α) (s e : Nat) (h1 : s + 2 ≤ e) (h2 : e ≤ v.length) :
    ∃ pre a run b rest, v = pre ++ a :: (run ++ b :: rest) ∧ pre.length = s ∧ run.length = e - s - 2 := by
  have hs : s < v.length := by omega
  have he : e - 1 < v.length := by omega
  refine ⟨v.take s, v[s], (v.take (e - 1)).drop (s + 1), v[e - 1], v.drop e, ?_, ?_, ?_⟩
  · have h3 : v = v.take (e - 1) ++ v[e - 1] :: v.drop e := by
      have : v.drop (e - 1) = v[e - 1] :: v.drop (e - 1 + 1) := List.drop_eq_getElem_cons he
      rw [show e - 1 + 1 = e by omega] at this
      rw [← this, List.take_append_drop]
    have hs' : s < (v.take (e - 1)).length := by simp; omega
    have h4 : v.take (e - 1) = (v.take (e - 1)).take s ++ (v.take (e - 1))[s] :: (v.take (e - 1)).drop (s + 1) := by
      have : (v.take (e - 1)).drop s = (v.take (e - 1))[s] :: (v.take (e - 1)).drop (s + 1) :=
        List.drop_eq_getElem_cons hs'
      rw [← this, List.take_append_drop]
    have h5 : (v.take (e - 1)).take s = v.take s := by
      rw [List.take_take]; congr 1; omega
    have h6 : (v.take (e - 1))[s] = v[s] := by simp
    rw [h5, h6] at h4
    conv_lhs => rw [h3, h4]
    simp
  · simp; omega
  · simp; omega

theorem take_decomp {pre run rest : List α} {a b : α} {s : Nat} (hs : pre.length = s) :
    (pre ++ a :: (run ++ b :: rest)).take (s + 1) = pre ++ [a] := by
  have : pre ++ a :: (run ++ b :: rest) = (pre ++ [a]) ++ (run ++ b :: rest) := by simp
  rw [this]; exact List.take_left' (by simp [hs])

theorem drop_decomp_s {pre l : List α} {s : Nat} (hs : pre.length = s) :
    (pre ++ l).drop s = l := List.drop_left' hs

theorem drop_decomp_e {pre run rest : List α} {a b : α} {s e : Nat} (hs : pre.length = s)
    (hr : run.length = e - s - 2) (h1 : s + 2 ≤ e) :
    (pre ++ a :: (run ++ b :: rest)).drop (e - 1) = b :: rest := by
  have : pre ++ a :: (run ++ b :: rest) = (pre ++ a :: run) ++ (b :: rest) := by simp
  rw [this]; exact List.drop_left' (by simp [hs, hr]; omega)

theorem slice_decomp {pre run rest : List α} {a b : α} {s e : Nat} (hs : pre.length = s)
    (hr : run.length = e - s - 2) (h1 : s + 2 ≤ e) :
    slice (pre ++ a :: (run ++ b :: rest)) s e = a :: (run ++ [b]) := by
  unfold slice
  have : pre ++ a :: (run ++ b :: rest) = (pre ++ a :: (run ++ [b])) ++ rest := by simp
  rw [this, List.take_left' (by simp [hs, hr]; omega)]
  exact List.drop_left' hs

/-! ### inner loop -/

theorem slice_length (v : List α) (i j : Nat) : (slice v i j).length = min j v.length - i := by
  simp [slice]

theorem extend_spec (v : List α) (tol : Rat) (start : Nat) :
    ∀ (fuel e e' : Nat), extend xy v tol start fuel e = some e' → e ≤ v.length →
      e ≤ e' ∧ e' ≤ v.length ∧ (e < e' → pointsInTol ((slice v start e').map xy) tol = some true) := by
  intro fuel
  induction fuel with
  | zero => intro e e' h; simp [extend] at h
  | succ n ih =>
    intro e e' h hle
    rw [extend] at h
    split at h
    · exact absurd h (by simp)
    · rename_i ok hok
      split_ifs at h with hc
      · simp only [Bool.and_eq_true, decide_eq_true_eq] at hc
        obtain ⟨hok', hlt⟩ := hc
        obtain ⟨h1, h2, h3⟩ := ih (e + 1) e' h (by omega)
        refine ⟨by omega, h2, fun _ => ?_⟩
        by_cases heq : e + 1 = e'
        · subst heq; rw [hok, hok']
        · exact h3 (by omega)
      · simp only [Option.some.injEq] at h
        subst h
        exact ⟨le_refl _, hle, fun hh => absurd hh (lt_irrefl _)⟩

theorem extend_total (v : List α) (tol : Rat) (start : Nat) (hs : start + 2 < v.length) :
    ∀ (fuel e : Nat), start + 2 ≤ e → e ≤ v.length → v.length < fuel + e →
      ∃ e', extend xy v tol start fuel e = some e' := by
  intro fuel
  induction fuel with
  | zero => intro e _ h2 h3; omega
  | succ n ih =>
    intro e h1 h2 h3
    rw [extend]
    have hlen : ¬ ((slice v start (e + 1)).map xy).length < 3 := by
      rw [List.length_map, slice_length]; omega
    cases hp : pointsInTol ((slice v start (e + 1)).map xy) tol with
    | none => exact absurd ((pointsInTol_none_iff _ _).mp hp) hlen
    | some ok =>
      simp only
      split_ifs with hc
      · simp only [Bool.and_eq_true, decide_eq_true_eq] at hc
        exact ih (e + 1) (by omega) (by omega) (by omega)
      · exact ⟨e, rfl⟩

/-! ### outer loop -/

theorem outer_spec (tol : Rat) :
    ∀ (fuel : Nat) (v : List α) (start : Nat) (r : List α), outer xy tol fuel v start = some r →
      r.take (start + 1) = v.take (start + 1) ∧ Reduced xy (tol * tol) (v.drop start) (r.drop start) := by
  intro fuel
  induction fuel with
  | zero => intro v start r h; simp [outer] at h
  | succ n ih =>
    intro v start r h
    rw [outer] at h
    split_ifs at h with hlt
    · split at h
      · exact absurd h (by simp)
      · rename_i e he
        obtain ⟨h1, h2, h3⟩ := extend_spec xy v tol start _ _ _ he (by omega)
        obtain ⟨pre, a, run, b, rest, hv, hpre, hrun⟩ := decomp v start e h1 h2
        obtain ⟨ih1, ih2⟩ := ih _ _ _ h
        rw [hv, take_decomp hpre, drop_decomp_e hpre hrun h1] at ih1 ih2
        rw [hv, take_decomp hpre, drop_decomp_s hpre]
        -- ih1 : r.take (start+2) = (pre ++ [a] ++ b :: rest).take (start+2)
        have hdrop : ((pre ++ [a]) ++ b :: rest).drop (start + 1) = b :: rest :=
          List.drop_left' (by simp [hpre])
        rw [hdrop] at ih2
        have htake : r.take (start + 1) = pre ++ [a] := by
          have : r.take (start + 1) = (r.take (start + 1 + 1)).take (start + 1) := by
            rw [List.take_take]; congr 1; omega
          rw [this, ih1, List.take_take, show min (start + 1) (start + 1 + 1) = start + 1 by omega]
          exact List.take_left' (by simp [hpre])
        refine ⟨htake, ?_⟩
        have hr : r = (pre ++ [a]) ++ r.drop (start + 1) := by
          conv_lhs => rw [← List.take_append_drop (start + 1) r, htake]
        have hrd : r.drop start = a :: r.drop (start + 1) := by
          conv_lhs => rw [hr]
          rw [List.append_assoc]
          exact List.drop_left' hpre
        rw [hrd]
        refine Reduced.step a run b rest _ ?_ ih2
        by_cases hrn : run = []
        · subst hrn; simp
        · have hlt' : start + 2 < e := by
            have : run.length ≠ 0 := fun h0 => hrn (List.length_eq_zero_iff.mp h0)
            omega
          have hp := h3 hlt'
          rw [hv, slice_decomp hpre hrun h1] at hp
          simp only [List.map_cons, List.map_append, List.map_nil] at hp
          rw [pointsInTol_shape _ _ _ (by simpa using hrn)] at hp
          have hall := (all_ptOk_iff _ _ _ _).mp (Option.some.inj hp)
          intro p hp'
          exact hall (xy p) (List.mem_map_of_mem hp')
    · simp only [Option.some.injEq] at h
      subst h
      exact ⟨rfl, Reduced.refl xy _ _⟩

theorem outer_total (tol : Rat) :
    ∀ (fuel : Nat) (v : List α) (start : Nat), start < v.length → v.length ≤ fuel + start →
      ∃ r, outer xy tol fuel v start = some r := by
  intro fuel
  induction fuel with
  | zero => intro v start h1 h2; omega
  | succ n ih =>
    intro v start h1 h2
    rw [outer]
    split_ifs with hlt
    · obtain ⟨e, he⟩ := extend_total xy v tol start hlt v.length (start + 2) (le_refl _) (by omega) (by omega)
      rw [he]
      obtain ⟨h3, h4, _⟩ := extend_spec xy v tol start _ _ _ he (by omega)
      apply ih
      · simp; omega
      · simp; omega
    · exact ⟨v, rfl⟩

/-- Index reading of `Reduced`: the survivors are the vertices of `v` at a strictly increasing list of
indices starting at `0` and ending at `len-1`, and every index `k` that is not a survivor lies strictly
between two *consecutive* surviving indices `i < k < j` with `v[k]` at squared distance `< tolSq` from the
segment `v[i] v[j]`. -/
theorem Reduced.index {tolSq : Rat} {v r : List α} (h : Reduced xy tolSq v r) :
    ∃ idx : List Nat, idx.Pairwise (· < ·) ∧ r.map some = idx.map (fun i => v[i]?) ∧
      (v ≠ [] → idx.head? = some 0 ∧ idx.getLast? = some (v.length - 1)) ∧
      ∀ k p, v[k]? = some p → k ∉ idx →
        ∃ i j l1 l2 a b, idx = l1 ++ i :: j :: l2 ∧ i < k ∧ k < j ∧ v[i]? = some a ∧ v[j]? = some b ∧
          distSq (xy a) (xy b) (xy p) < tolSq := by
  induction h with
  | nil => exact ⟨[], by simp, by simp, by simp, by simp⟩
  | single a =>
    refine ⟨[0], by simp, by simp, by simp, ?_⟩
    intro k p hk hn
    cases k with
    | zero => simp at hn
    | succ k => simp at hk
  | step a run b rest r hclose hr ih =>
    obtain ⟨idx', hpw, hmap, hends, hdel⟩ := ih
    obtain ⟨hh, hl⟩ := hends (by simp)
    obtain ⟨idx'', rfl⟩ : ∃ t, idx' = 0 :: t := by
      cases idx' with
      | nil => simp at hh
      | cons x t => simp at hh; exact ⟨t, by rw [hh]⟩
    let s := run.length + 1
    have hv : ∀ i, (a :: (run ++ b :: rest))[i + s]? = (b :: rest)[i]? := by
      intro i
      have : a :: (run ++ b :: rest) = (a :: run) ++ (b :: rest) := by simp
      rw [this, List.getElem?_append_right (by simp [s])]
      congr 1; simp [s]
    refine ⟨0 :: (0 :: idx'').map (· + s), ?_, ?_, ?_, ?_⟩
    · rw [List.pairwise_cons]
      refine ⟨?_, ?_⟩
      · intro x hx
        obtain ⟨y, _, rfl⟩ := List.mem_map.mp hx
        simp [s]
      · exact List.Pairwise.map _ (fun x y hxy => by simpa using hxy) hpw
    · simp only [List.map_cons, List.map_map]
      rw [hmap]
      simp only [List.map_cons, List.getElem?_cons_zero, List.cons.injEq, true_and]
      refine ⟨?_, ?_⟩
      · have := hv 0; simp only [Nat.zero_add] at this; simp [this]
      · apply List.map_congr_left
        intro i _
        simp only [Function.comp]
        exact (hv i).symm
    · intro _
      refine ⟨rfl, ?_⟩
      have e : (0 :: (0 :: idx'').map (· + s)).getLast? = ((0 :: idx'').map (· + s)).getLast? := by
        rw [List.map_cons, List.getLast?_cons_cons]
      rw [e, List.getLast?_map, hl]
      simp [s]; omega
    · intro k p hk hn
      simp only [List.map_cons, List.mem_cons, List.mem_map, not_or] at hn
      obtain ⟨hk0, hks, hrest⟩ := hn
      by_cases hlt : k < s
      · -- inside the first run
        refine ⟨0, 0 + s, [], idx''.map (· + s), a, b, by simp, by omega, by omega, by simp, ?_, ?_⟩
        · have := hv 0; simp only [Nat.zero_add] at this ⊢; simp [this]
        · apply hclose
          have hk' : k - 1 < run.length := by simp [s] at hlt; omega
          have : (a :: (run ++ b :: rest))[k]? = run[k - 1]? := by
            obtain ⟨k', rfl⟩ : ∃ k', k = k' + 1 := ⟨k - 1, by omega⟩
            simp only [List.getElem?_cons_succ, Nat.add_sub_cancel]
            rw [List.getElem?_append_left (by simpa using hk')]
          rw [this] at hk
          exact List.mem_of_getElem? hk
      · obtain ⟨k', rfl⟩ : ∃ k', k = k' + s := ⟨k - s, by omega⟩
        rw [hv] at hk
        have hn' : k' ∉ (0 :: idx'') := by
          intro hmem
          rcases List.mem_cons.mp hmem with rfl | hmem
          · exact hks (by simp)
          · exact hrest ⟨k', hmem, rfl⟩
        obtain ⟨i, j, l1, l2, a', b', hidx, hik, hkj, hi, hj, hd⟩ := hdel k' p hk hn'
        refine ⟨i + s, j + s, 0 :: l1.map (· + s), l2.map (· + s), a', b', ?_, by omega, by omega, ?_, ?_, hd⟩
        · rw [hidx]; simp
        · rw [hv]; exact hi
        · rw [hv]; exact hj

end
end C09
end Plotink
