import Plotink.Ieee
import Plotink.Proofs.Contract
import Plotink.Proofs.ContractIeee
import Mathlib.Tactic.Linarith
import Mathlib.Tactic.Ring
import Mathlib.Tactic.NormNum
import Mathlib.Tactic.Positivity
import Mathlib.Tactic.Push
import Mathlib.Tactic.FieldSimp
import Mathlib.Tactic.SplitIfs
import Mathlib.Data.Rat.Floor
import Mathlib.Data.Nat.Sqrt
import Mathlib.Data.Nat.Prime.Basic
import Mathlib.Algebra.Order.Floor.Ring

/-! # `Rounding.ieee.mpSqrt = sqrtBits` meets the square-root contract

`sqrtBits p q` scales `q` by `4^k` (`k ≥ p + 4`, and large enough that the scaled value is at least
`4^(p+4)`), takes the integer square root `t` of the scaled value, and rounds to `p` bits either the exact
root `t / 2^k` (when `t² = q·4^k`) or the *stand-in* `(2t+1) / 2^(k+1)`, the midpoint of the grid cell
`(t/2^k, (t+1)/2^k)` that contains the irrational-or-off-grid root.

Main results (all for `Rounding.ieee.mpSqrt = sqrtBits`, which holds by `rfl`):
* `sqrtBits_exact`        — `sqrt_exact` of the contract (every `p`);
* `sqrtBits_sq_err`       — `sqrt_sq` of the contract, *as stated in `Contract.lean`*, for every `p` (the
                            degenerate `p = 0` needs its own argument, `sq_err_cell_zero`);
* `contractSqrt_ieee`, `contract_ieee : Contract Rounding.ieee`;
* `sqrtBits_sq_dyadic`    — on squares of dyadic rationals `sqrtBits p (y*y) = roundBits p y`;
* `rmag_cell`             — the `p`-bit rounding is constant on every open cell of a fine enough grid;
* `sqrtBits_mono` (`p ≥ 1`), `sqrtBits_ge_of_sq_le`, `sqrtBits_le_of_le_sq` (bracket by representables whose
  squares bracket the argument — "correct rounding" without a real square root);
* `sqrtBits_rel_bracket` (`p ≥ 1`) — `x·(1 - 33/32·2^-p)² ≤ s² ≤ x·(1 + 67/64·2^-p)²`. -/

namespace Plotink

/-- the scaling exponent chosen by `sqrtBits` -/
def sqrtK (p : Nat) (q : Rat) : Nat :=
  p + 4 + Nat.log2 q.den + (if q < 1 then Nat.log2 q.den - Nat.log2 q.num.natAbs + 2 else 0)

/-- integer square root of the scaled argument -/
def sqrtT (k : Nat) (q : Rat) : Nat := Nat.sqrt (q * (4 : Rat) ^ k).floor.toNat

/-- the value that is finally rounded: the exact root if it lies on the `2^-k` grid, else the cell midpoint -/
def standin (k : Nat) (q : Rat) : Rat :=
  if ((sqrtT k q : Rat) * (sqrtT k q : Rat) = q * (4 : Rat) ^ k) then (sqrtT k q : Rat) / (2 : Rat) ^ k
  else (2 * (sqrtT k q : Rat) + 1) / (2 : Rat) ^ (k + 1)

theorem sqrtBits_nonpos (p : Nat) (q : Rat) (hq : q ≤ 0) : sqrtBits p q = 0 := by
  unfold sqrtBits; simp [hq]

theorem sqrtBits_pos (p : Nat) (q : Rat) (hq : 0 < q) :
    sqrtBits p q = roundBits p (standin (sqrtK p q) q) := by
  unfold sqrtBits
  simp only [not_le.mpr hq, if_false]
  rfl

/-- `t = ⌊√(q·4^k)⌋`: `t² ≤ q·4^k < (t+1)²` -/
theorem sqrtT_spec (k : Nat) (q : Rat) (hq : 0 < q) :
    (sqrtT k q : Rat) * (sqrtT k q : Rat) ≤ q * (4 : Rat) ^ k ∧
    q * (4 : Rat) ^ k < ((sqrtT k q : Rat) + 1) * ((sqrtT k q : Rat) + 1) := by
  set x := q * (4 : Rat) ^ k with hx
  have hx0 : 0 < x := by positivity
  have hf0 : 0 ≤ x.floor := by
    have : ((0 : Int) : Rat) ≤ x := by exact_mod_cast hx0.le
    exact Rat.le_floor_iff.mpr this
  set n := x.floor.toNat with hn
  have hnf : (n : Int) = x.floor := Int.toNat_of_nonneg hf0
  have hnq : ((n : Nat) : Rat) = ((x.floor : Int) : Rat) := by
    have : (((n : Nat) : Int) : Rat) = ((x.floor : Int) : Rat) := by rw [hnf]
    exact_mod_cast this
  have h1 : (n : Rat) ≤ x := by rw [hnq]; exact Rat.floor_le x
  have h2 : x < (n : Rat) + 1 := by
    rw [hnq]; have := Rat.lt_floor_add_one x; push_cast at this; exact this
  unfold sqrtT
  rw [← hx, ← hn]
  have s1 : Nat.sqrt n * Nat.sqrt n ≤ n := Nat.sqrt_le n
  have s2 : n < Nat.succ (Nat.sqrt n) * Nat.succ (Nat.sqrt n) := Nat.lt_succ_sqrt n
  have s1q : (Nat.sqrt n : Rat) * (Nat.sqrt n : Rat) ≤ (n : Rat) := by exact_mod_cast s1
  have s2q : (n : Rat) + 1 ≤ ((Nat.sqrt n : Rat) + 1) * ((Nat.sqrt n : Rat) + 1) := by
    have : n + 1 ≤ (Nat.sqrt n + 1) * (Nat.sqrt n + 1) := s2
    exact_mod_cast this
  exact ⟨le_trans s1q h1, lt_of_lt_of_le h2 s2q⟩

/-- description of the stand-in in grid units `h = 2^-k`, `T = t·h`: `T² ≤ q < (T+h)²` and either the root is
on the grid (`standin = T`, `T² = q`) or strictly inside the cell (`standin = T + h/2`, `T² < q`). -/
theorem standin_spec (k : Nat) (q : Rat) (hq : 0 < q) :
    let T : Rat := (sqrtT k q : Rat) / (2 : Rat) ^ k
    let h : Rat := 1 / (2 : Rat) ^ k
    T * T ≤ q ∧ q < (T + h) * (T + h) ∧
      ((standin k q = T ∧ T * T = q) ∨ (standin k q = T + h / 2 ∧ T * T < q)) := by
  intro T h
  obtain ⟨h1, h2⟩ := sqrtT_spec k q hq
  have hp : (0 : Rat) < (2 : Rat) ^ k := by positivity
  have h4 : (4 : Rat) ^ k = (2 : Rat) ^ k * (2 : Rat) ^ k := by
    rw [← mul_pow]; norm_num
  have eT : T * T = (sqrtT k q : Rat) * (sqrtT k q : Rat) / (4 : Rat) ^ k := by
    simp only [T]; rw [h4]; field_simp
  have eU : (T + h) * (T + h) = ((sqrtT k q : Rat) + 1) * ((sqrtT k q : Rat) + 1) / (4 : Rat) ^ k := by
    simp only [T, h]; rw [h4]; field_simp
  have p4 : (0 : Rat) < (4 : Rat) ^ k := by positivity
  have a1 : T * T ≤ q := by rw [eT, div_le_iff₀ p4]; exact h1
  have a2 : q < (T + h) * (T + h) := by rw [eU, lt_div_iff₀ p4]; exact h2
  refine ⟨a1, a2, ?_⟩
  unfold standin
  split
  · rename_i heq
    left
    refine ⟨rfl, ?_⟩
    rw [eT, heq]; field_simp
  · rename_i hne
    right
    constructor
    · simp only [T, h]; rw [pow_succ]; field_simp
    · rcases lt_or_eq_of_le a1 with hlt | heq
      · exact hlt
      · exfalso; apply hne
        rw [eT, div_eq_iff p4.ne'] at heq
        exact heq

private theorem rat_eq_natAbs_div_den (q : Rat) (hq : 0 < q) : q = (q.num.natAbs : Rat) / (q.den : Rat) := by
  have hnum : 0 < q.num := Rat.num_pos.mpr hq
  have h2 : ((q.num.natAbs : Nat) : Rat) = (q.num : Rat) := by
    rw [Nat.cast_natAbs, abs_of_pos hnum]
  rw [h2]; exact (Rat.num_div_den q).symm

/-- the scaled argument is at least `4^(p+4)` -/
theorem sqrtK_scaled_ge (p : Nat) (q : Rat) (hq : 0 < q) :
    (4 : Rat) ^ (p + 4) ≤ q * (4 : Rat) ^ (sqrtK p q) := by
  have hnum : 0 < q.num := Rat.num_pos.mpr hq
  have hn0 : q.num.natAbs ≠ 0 := by omega
  have hd0 : q.den ≠ 0 := q.den_nz
  have key : (1 : Rat) ≤ q * (4 : Rat) ^ (Nat.log2 q.den + (if q < 1 then Nat.log2 q.den - Nat.log2 q.num.natAbs + 2 else 0)) := by
    split
    · -- q < 1
      set n := q.num.natAbs
      set d := q.den
      set c := Nat.log2 d - Nat.log2 n
      have h1 : 2 ^ Nat.log2 n ≤ n := Nat.log2_self_le hn0
      have h2 : d < 2 ^ (Nat.log2 d + 1) := Nat.lt_log2_self
      have h3 : Nat.log2 d + 1 ≤ Nat.log2 n + (2 * (Nat.log2 d + (c + 2))) := by omega
      have h4 : d ≤ n * 4 ^ (Nat.log2 d + (c + 2)) := by
        have e4 : (4 : Nat) ^ (Nat.log2 d + (c + 2)) = 2 ^ (2 * (Nat.log2 d + (c + 2))) := by
          rw [pow_mul]; norm_num
        calc d ≤ 2 ^ (Nat.log2 d + 1) := h2.le
          _ ≤ 2 ^ (Nat.log2 n + (2 * (Nat.log2 d + (c + 2)))) := Nat.pow_le_pow_right (by norm_num) h3
          _ = 2 ^ Nat.log2 n * 2 ^ (2 * (Nat.log2 d + (c + 2))) := by rw [pow_add]
          _ ≤ n * 2 ^ (2 * (Nat.log2 d + (c + 2))) := Nat.mul_le_mul_right _ h1
          _ = n * 4 ^ (Nat.log2 d + (c + 2)) := by rw [e4]
      have h4q : (d : Rat) ≤ (n : Rat) * (4 : Rat) ^ (Nat.log2 d + (c + 2)) := by exact_mod_cast h4
      have hdpos : (0 : Rat) < d := by exact_mod_cast Nat.pos_of_ne_zero hd0
      conv_rhs => rw [rat_eq_natAbs_div_den q hq]
      rw [div_mul_eq_mul_div, le_div_iff₀ hdpos, one_mul]
      exact h4q
    · rename_i h
      have h1 : 1 ≤ q := not_lt.mp h
      have : (1 : Rat) ≤ (4 : Rat) ^ (Nat.log2 q.den + 0) := one_le_pow₀ (by norm_num)
      calc (1 : Rat) = 1 * 1 := by ring
        _ ≤ q * (4 : Rat) ^ (Nat.log2 q.den + 0) := mul_le_mul h1 this (by norm_num) hq.le
  have e : q * (4 : Rat) ^ (sqrtK p q) = (4 : Rat) ^ (p + 4) *
      (q * (4 : Rat) ^ (Nat.log2 q.den + (if q < 1 then Nat.log2 q.den - Nat.log2 q.num.natAbs + 2 else 0))) := by
    unfold sqrtK
    rw [show p + 4 + Nat.log2 q.den + (if q < 1 then Nat.log2 q.den - Nat.log2 q.num.natAbs + 2 else 0)
      = (p + 4) + (Nat.log2 q.den + (if q < 1 then Nat.log2 q.den - Nat.log2 q.num.natAbs + 2 else 0)) by ring]
    rw [pow_add]; ring
  rw [e]
  have : (0 : Rat) < (4 : Rat) ^ (p + 4) := by positivity
  nlinarith

theorem sqrtK_ge (p : Nat) (q : Rat) : p + 4 ≤ sqrtK p q := by unfold sqrtK; omega

/-- so its integer square root has at least `p + 5` bits -/
theorem sqrtT_ge (p : Nat) (q : Rat) (hq : 0 < q) : 2 ^ (p + 4) ≤ sqrtT (sqrtK p q) q := by
  obtain ⟨_, h2⟩ := sqrtT_spec (sqrtK p q) q hq
  have h1 := sqrtK_scaled_ge p q hq
  have e : (4 : Rat) ^ (p + 4) = (2 : Rat) ^ (p + 4) * (2 : Rat) ^ (p + 4) := by rw [← mul_pow]; norm_num
  rw [e] at h1
  have hlt : (2 : Rat) ^ (p + 4) * (2 : Rat) ^ (p + 4) <
      ((sqrtT (sqrtK p q) q : Rat) + 1) * ((sqrtT (sqrtK p q) q : Rat) + 1) := lt_of_le_of_lt h1 h2
  have hpos : (0 : Rat) ≤ (sqrtT (sqrtK p q) q : Rat) + 1 := by positivity
  have hP : (0 : Rat) < (2 : Rat) ^ (p + 4) := by positivity
  have : (2 : Rat) ^ (p + 4) < (sqrtT (sqrtK p q) q : Rat) + 1 := by
    by_contra hc; push Not at hc
    have := mul_le_mul hc hc hpos hP.le
    linarith
  have hn : 2 ^ (p + 4) < sqrtT (sqrtK p q) q + 1 := by exact_mod_cast this
  omega

/-- a positive dyadic rational has a power of two as denominator -/
private theorem dyadic_den (y : Rat) (j n : Nat) (h : y * (2 : Rat) ^ j = n) : ∃ a, a ≤ j ∧ y.den = 2 ^ a := by
  have hp : (2 : Rat) ^ j ≠ 0 := by positivity
  have e : y = Rat.divInt (n : Int) ((2 : Int) ^ j) := by
    rw [Rat.divInt_eq_div]; push_cast
    rw [eq_div_iff hp]; exact h
  have hd := Rat.den_dvd (n : Int) ((2 : Int) ^ j)
  rw [← e] at hd
  have hd' : y.den ∣ 2 ^ j := by
    have : ((y.den : Nat) : Int) ∣ (((2 : Nat) ^ j : Nat) : Int) := by push_cast; exact hd
    exact Int.natCast_dvd_natCast.mp this
  obtain ⟨a, ha, hda⟩ := (Nat.dvd_prime_pow Nat.prime_two).mp hd'
  exact ⟨a, ha, hda⟩

/-- on squares of positive dyadic rationals `sqrtBits` is `roundBits` of the root -/
theorem sqrtBits_sq_dyadic (p : Nat) (y : Rat) (hy : 0 < y) (j n : Nat) (h : y * (2 : Rat) ^ j = n) :
    sqrtBits p (y * y) = roundBits p y := by
  have hq : 0 < y * y := by positivity
  rw [sqrtBits_pos p _ hq]
  congr 1
  obtain ⟨a, _, hda⟩ := dyadic_den y j n h
  set k := sqrtK p (y * y) with hk
  have hka : a ≤ k := by
    have hden : (y * y).den = 2 ^ (2 * a) := by
      rw [Rat.mul_self_den, hda, ← pow_add]; congr 1; ring
    have : Nat.log2 (y * y).den = 2 * a := by rw [hden, Nat.log2_two_pow]
    rw [hk]; unfold sqrtK; rw [this]; omega
  -- y * 2^k is a natural number N
  have hnum : 0 < y.num := Rat.num_pos.mpr hy
  set N : Nat := y.num.toNat * 2 ^ (k - a) with hN
  have hyN : y * (2 : Rat) ^ k = (N : Rat) := by
    have e1 : y = (y.num : Rat) / ((2 : Rat) ^ a) := by
      conv_lhs => rw [← Rat.num_div_den y]
      rw [hda]; push_cast; rfl
    have e2 : ((y.num.toNat : Nat) : Rat) = (y.num : Rat) := by
      have : ((y.num.toNat : Nat) : Int) = y.num := Int.toNat_of_nonneg hnum.le
      exact_mod_cast congrArg (fun z : Int => (z : Rat)) this
    have e3 : (2 : Rat) ^ k = (2 : Rat) ^ a * (2 : Rat) ^ (k - a) := by
      rw [← pow_add]; congr 1; omega
    rw [hN]; push_cast; rw [e2, e3]
    conv_lhs => rw [e1]
    field_simp
  have h4 : (4 : Rat) ^ k = (2 : Rat) ^ k * (2 : Rat) ^ k := by rw [← mul_pow]; norm_num
  have hx : y * y * (4 : Rat) ^ k = ((N * N : Nat) : Rat) := by
    push_cast; rw [← hyN, h4]; ring
  have hT : sqrtT k (y * y) = N := by
    unfold sqrtT
    have hx' : y * y * (4 : Rat) ^ k = (((N * N : Nat) : Int) : Rat) := by rw [hx]; norm_cast
    rw [hx', Rat.floor_intCast, Int.toNat_natCast, Nat.sqrt_eq]
  unfold standin
  rw [hT, hx]
  have : ((N : Rat) * (N : Rat) = ((N * N : Nat) : Rat)) := by push_cast; ring
  rw [if_pos this]
  have hp : (2 : Rat) ^ k ≠ 0 := by positivity
  rw [← hyN]; field_simp

/-- exactness on squares of representable values -/
theorem sqrtBits_exact (p : Nat) (y : Rat) (hy : 0 ≤ y) (hr : Rep p y) : sqrtBits p (y * y) = y := by
  rcases lt_or_eq_of_le hy with hpos | rfl
  · obtain ⟨m, e, hye, hm⟩ := hr
    have hmpos : 0 < m := by
      by_contra hc; push Not at hc
      have : (m : Rat) ≤ 0 := by exact_mod_cast hc
      have hp : (0 : Rat) < (2 : Rat) ^ e := by positivity
      have : y ≤ 0 := by rw [hye]; exact mul_nonpos_of_nonpos_of_nonneg this hp.le
      linarith
    -- y * 2^j is natural for j = (-e).toNat
    have hdy : y * (2 : Rat) ^ ((-e).toNat) = ((m.toNat * 2 ^ (e.toNat) : Nat) : Rat) := by
      have e2 : ((m.toNat : Nat) : Rat) = (m : Rat) := by
        have : ((m.toNat : Nat) : Int) = m := Int.toNat_of_nonneg hmpos.le
        exact_mod_cast congrArg (fun z : Int => (z : Rat)) this
      push_cast; rw [e2, hye, ← zpow_natCast, ← zpow_natCast, mul_assoc, ← zpow_add₀ (by norm_num)]
      congr 2
      omega
    rw [sqrtBits_sq_dyadic p y hpos _ _ hdy]
    exact roundBits_exact p y ⟨m, e, hye, hm⟩
  · simp [sqrtBits]

/-- powers of two lie on every integer grid that reaches 1: nothing of the form `2^j` is strictly inside
`(t, t+1)` for a natural `t ≥ 1` -/
private theorem grid_pow (j : Int) (t : Nat) (ht : 1 ≤ t) (r : Rat) (h1 : (t : Rat) < r) (h2 : r < (t : Rat) + 1) :
    ((2 : Rat) ^ j ≤ r → (2 : Rat) ^ j ≤ t) ∧ (r < (2 : Rat) ^ j → (t : Rat) + 1 ≤ (2 : Rat) ^ j) := by
  have ht1 : (1 : Rat) ≤ t := by exact_mod_cast ht
  rcases le_or_gt 0 j with hj | hj
  · obtain ⟨n, rfl⟩ : ∃ n : Nat, j = n := ⟨j.toNat, (Int.toNat_of_nonneg hj).symm⟩
    rw [zpow_natCast]
    have e : (2 : Rat) ^ n = ((2 ^ n : Nat) : Rat) := by push_cast; rfl
    rw [e]
    constructor
    · intro h
      have : ((2 ^ n : Nat) : Rat) < (t : Rat) + 1 := lt_of_le_of_lt h h2
      have : 2 ^ n < t + 1 := by exact_mod_cast this
      have : 2 ^ n ≤ t := by omega
      exact_mod_cast this
    · intro h
      have : (t : Rat) < ((2 ^ n : Nat) : Rat) := lt_trans h1 h
      have : t < 2 ^ n := by exact_mod_cast this
      have : t + 1 ≤ 2 ^ n := by omega
      exact_mod_cast this
  · have hlt : (2 : Rat) ^ j < 1 := by
      have := zpow_lt_zpow_right₀ (by norm_num : (1 : Rat) < 2) hj
      simpa using this
    constructor
    · intro _; linarith
    · intro h; linarith

/-- the magnitude rounding never exceeds the next power of two -/
theorem rmag_le_pow (p : Nat) (a : Rat) (ha : 0 < a) : rmag p a ≤ (2 : Rat) ^ (ilog2 a + 1) := by
  have ux := lt_pow_ilog2 a ha
  unfold rmag
  simp only [pow2_eq_zpow]
  set L := ilog2 a
  set e := L - ((p : Int) - 1) with he
  have pe : (0 : Rat) < (2 : Rat) ^ e := by positivity
  have hq : a / (2 : Rat) ^ e ≤ (((2 : Int) ^ p : Int) : Rat) := by
    rw [div_le_iff₀ pe]
    have : (((2 : Int) ^ p : Int) : Rat) * (2 : Rat) ^ e = (2 : Rat) ^ (L + 1) := by
      push_cast
      rw [← zpow_natCast, ← zpow_add₀ (by norm_num)]; congr 1; omega
    rw [this]; exact ux.le
  have hm : Py.roundHE (a / (2 : Rat) ^ e) ≤ (2 : Int) ^ p := by
    have := roundHE_mono hq; rwa [roundHE_int] at this
  have hmq : ((Py.roundHE (a / (2 : Rat) ^ e) : Int) : Rat) ≤ (2 : Rat) ^ p := by exact_mod_cast hm
  have : (2 : Rat) ^ (L + 1) = (2 : Rat) ^ p * (2 : Rat) ^ e := by
    rw [← zpow_natCast, ← zpow_add₀ (by norm_num)]; congr 1; omega
  rw [this]; exact mul_le_mul_of_nonneg_right hmq pe.le

/-- what is rounded: a positive `σ` that either squares to `q` or is the midpoint of a cell `(T, T+h)` of a grid
at least `2^(p+4)` times finer than `T`, whose end points' squares bracket `q` -/
theorem standin_bracket (p : Nat) (q : Rat) (hq : 0 < q) :
    0 < standin (sqrtK p q) q ∧
    (standin (sqrtK p q) q * standin (sqrtK p q) q = q ∨
      ∃ (t k : Nat), 2 ^ (p + 4) ≤ t ∧
        ((t : Rat) / 2 ^ k) * ((t : Rat) / 2 ^ k) < q ∧ q < (((t : Rat) + 1) / 2 ^ k) * (((t : Rat) + 1) / 2 ^ k) ∧
        standin (sqrtK p q) q = ((t : Rat) + 1 / 2) / 2 ^ k) := by
  obtain ⟨a1, a2, h⟩ := standin_spec (sqrtK p q) q hq
  have ht := sqrtT_ge p q hq
  set k := sqrtK p q
  set t := sqrtT k q
  have hp : (0 : Rat) < (2 : Rat) ^ k := by positivity
  have ht0 : (0 : Rat) < t := by
    have : 0 < t := lt_of_lt_of_le (by positivity) ht
    exact_mod_cast this
  rcases h with ⟨hs, he⟩ | ⟨hs, hl⟩
  · refine ⟨by rw [hs]; positivity, Or.inl ?_⟩
    rw [hs]; exact he
  · have e : (t : Rat) / 2 ^ k + 1 / 2 ^ k / 2 = ((t : Rat) + 1 / 2) / 2 ^ k := by field_simp
    refine ⟨by rw [hs]; positivity, Or.inr ⟨t, k, ht, hl, ?_, by rw [hs, e]⟩⟩
    have : (t : Rat) / 2 ^ k + 1 / 2 ^ k = ((t : Rat) + 1) / 2 ^ k := by field_simp
    rw [← this]; exact a2

theorem sqrtBits_nonneg (p : Nat) (x : Rat) : 0 ≤ sqrtBits p x := by
  rcases le_or_gt x 0 with h | h
  · rw [sqrtBits_nonpos p x h]
  · obtain ⟨hs, _⟩ := standin_bracket p x h
    rw [sqrtBits_pos p x h, roundBits_pos p _ hs]
    exact rmag_nonneg p _ hs

/-- exact-root case of the error bound (any `p`) -/
private theorem sq_err_exact (ε σ s q : Rat) (he0 : 0 ≤ ε) (he1 : ε ≤ 1) (hσ : 0 < σ) (hs0 : 0 ≤ s)
    (herr : |s - σ| ≤ σ * ε) (hq : σ * σ = q) : |s ^ 2 - q| ≤ 3 * q * ε := by
  obtain ⟨l, u⟩ := abs_le.mp herr
  have hqpos : 0 < q := by rw [← hq]; positivity
  rw [abs_le]
  constructor
  · -- s ≥ σ(1-ε) ≥ 0
    have h1 : σ * (1 - ε) ≤ s := by linarith
    have h0 : 0 ≤ σ * (1 - ε) := mul_nonneg hσ.le (by linarith)
    have := pow_le_pow_left₀ h0 h1 2
    have e : (σ * (1 - ε)) ^ 2 = q * (1 - ε) ^ 2 := by rw [← hq]; ring
    rw [e] at this
    nlinarith [mul_nonneg hqpos.le (sq_nonneg ε), mul_nonneg hqpos.le he0]
  · have h1 : s ≤ σ * (1 + ε) := by linarith
    have := pow_le_pow_left₀ hs0 h1 2
    have e : (σ * (1 + ε)) ^ 2 = q * (1 + ε) ^ 2 := by rw [← hq]; ring
    rw [e] at this
    have : ε ^ 2 ≤ ε := by nlinarith
    nlinarith [mul_nonneg hqpos.le he0]

/-- stand-in case of the error bound (`p ≥ 1`, i.e. `ε ≤ 1/2`): the grid is `16/ε` times finer than `T` -/
private theorem sq_err_cell (ε T h s q : Rat) (he0 : 0 < ε) (he1 : ε ≤ 1 / 2) (hT : 0 < T) (hh : 0 < h)
    (hfine : 16 * h ≤ T * ε) (hs0 : 0 ≤ s)
    (herr : |s - (T + h / 2)| ≤ (T + h / 2) * ε) (hl : T * T < q) (hu : q < (T + h) * (T + h)) :
    |s ^ 2 - q| ≤ 3 * q * ε := by
  obtain ⟨l, u⟩ := abs_le.mp herr
  have hqpos : 0 < q := lt_trans (by positivity) hl
  have hee : ε ^ 2 ≤ ε / 2 := by nlinarith
  rw [abs_le]
  constructor
  · -- lower: s ≥ (T+h)(1-ε/32)(1-ε)
    by_cases h3 : 1 - 3 * ε ≤ 0
    · have : 0 ≤ s ^ 2 := sq_nonneg s
      nlinarith
    · push Not at h3
      set U := T + h with hU
      have hUpos : 0 < U := by positivity
      have hσ : U * (1 - ε / 32) ≤ T + h / 2 := by
        have : h / 2 ≤ U * (ε / 32) := by nlinarith
        nlinarith
      have h1 : U * (1 - ε / 32) * (1 - ε) ≤ s := by
        have : (T + h / 2) * (1 - ε) ≤ s := by linarith
        have h' : U * (1 - ε / 32) * (1 - ε) ≤ (T + h / 2) * (1 - ε) :=
          mul_le_mul_of_nonneg_right hσ (by linarith)
        linarith
      have hd : 1 - 33 / 32 * ε ≤ (1 - ε / 32) * (1 - ε) := by nlinarith [sq_nonneg ε]
      have hd0 : 0 ≤ 1 - 33 / 32 * ε := by linarith
      have h2 : U * (1 - 33 / 32 * ε) ≤ s := by
        have : U * (1 - 33 / 32 * ε) ≤ U * ((1 - ε / 32) * (1 - ε)) := mul_le_mul_of_nonneg_left hd hUpos.le
        linarith
      have h0 : 0 ≤ U * (1 - 33 / 32 * ε) := mul_nonneg hUpos.le hd0
      have hsq := pow_le_pow_left₀ h0 h2 2
      have e : (U * (1 - 33 / 32 * ε)) ^ 2 = (U * U) * (1 - 33 / 32 * ε) ^ 2 := by ring
      rw [e] at hsq
      have hc : 1 - 3 * ε ≤ (1 - 33 / 32 * ε) ^ 2 := by nlinarith [sq_nonneg ε]
      have hUU : q * (1 - 3 * ε) ≤ (U * U) * (1 - 33 / 32 * ε) ^ 2 := by
        calc q * (1 - 3 * ε) ≤ (U * U) * (1 - 3 * ε) := mul_le_mul_of_nonneg_right hu.le h3.le
          _ ≤ (U * U) * (1 - 33 / 32 * ε) ^ 2 := mul_le_mul_of_nonneg_left hc (by positivity)
      linarith
  · -- upper: s ≤ T(1+ε/32)(1+ε)
    have hσ : T + h / 2 ≤ T * (1 + ε / 32) := by nlinarith
    have h1 : s ≤ T * (1 + ε / 32) * (1 + ε) := by
      have : s ≤ (T + h / 2) * (1 + ε) := by linarith
      have h' : (T + h / 2) * (1 + ε) ≤ T * (1 + ε / 32) * (1 + ε) :=
        mul_le_mul_of_nonneg_right hσ (by linarith)
      linarith
    have hc : (1 + ε / 32) * (1 + ε) ≤ 1 + 67 / 64 * ε := by nlinarith
    have h2 : s ≤ T * (1 + 67 / 64 * ε) := by
      have : T * ((1 + ε / 32) * (1 + ε)) ≤ T * (1 + 67 / 64 * ε) := mul_le_mul_of_nonneg_left hc hT.le
      linarith
    have hsq := pow_le_pow_left₀ hs0 h2 2
    have e : (T * (1 + 67 / 64 * ε)) ^ 2 = (T * T) * (1 + 67 / 64 * ε) ^ 2 := by ring
    rw [e] at hsq
    have hc2 : (1 + 67 / 64 * ε) ^ 2 ≤ 1 + 3 * ε := by nlinarith
    have : (T * T) * (1 + 67 / 64 * ε) ^ 2 ≤ q * (1 + 3 * ε) := by
      calc (T * T) * (1 + 67 / 64 * ε) ^ 2 ≤ (T * T) * (1 + 3 * ε) := mul_le_mul_of_nonneg_left hc2 (by positivity)
        _ ≤ q * (1 + 3 * ε) := mul_le_mul_of_nonneg_right hl.le (by linarith)
    linarith

/-- stand-in case at `p = 0` (not covered by the relative-error argument: `roundBits 0` has relative error up
to 1): the result is at most `2^(L+1)` with `2^L ≤ σ`, and `2^L` lies on the grid, hence `2^L ≤ T < √q`. -/
private theorem sq_err_cell_zero (t k : Nat) (ht : 1 ≤ t) (q : Rat)
    (hl : ((t : Rat) / 2 ^ k) * ((t : Rat) / 2 ^ k) < q) :
    |(roundBits 0 (((t : Rat) + 1 / 2) / 2 ^ k)) ^ 2 - q| ≤ 3 * q := by
  have hp : (0 : Rat) < (2 : Rat) ^ k := by positivity
  have ht0 : (0 : Rat) < t := by exact_mod_cast ht
  set σ := ((t : Rat) + 1 / 2) / 2 ^ k with hσ
  have hσpos : 0 < σ := by positivity
  have hqpos : 0 < q := lt_trans (by positivity) hl
  rw [roundBits_pos 0 σ hσpos]
  have h0 := rmag_nonneg 0 σ hσpos
  have hle := rmag_le_pow 0 σ hσpos
  have hL := pow_ilog2_le σ hσpos
  set L := ilog2 σ
  -- 2^(L+k) ≤ t + 1/2, hence ≤ t
  have hg : (2 : Rat) ^ (L + (k : Int)) ≤ (t : Rat) + 1 / 2 := by
    rw [zpow_add₀ (by norm_num), zpow_natCast]
    have := mul_le_mul_of_nonneg_right hL hp.le
    rw [hσ, div_mul_cancel₀ _ hp.ne'] at this
    exact this
  have hgt := (grid_pow (L + (k : Int)) t ht ((t : Rat) + 1 / 2) (by linarith) (by linarith)).1 hg
  have hT : (2 : Rat) ^ L ≤ (t : Rat) / 2 ^ k := by
    rw [le_div_iff₀ hp]
    rw [zpow_add₀ (by norm_num), zpow_natCast] at hgt
    exact hgt
  have hLpos : (0 : Rat) < (2 : Rat) ^ L := by positivity
  have h4 : (2 : Rat) ^ L * (2 : Rat) ^ L < q :=
    lt_of_le_of_lt (mul_le_mul hT hT hLpos.le (by positivity)) hl
  have e2 : (2 : Rat) ^ (L + 1) = 2 * (2 : Rat) ^ L := by rw [zpow_add₀ (by norm_num), zpow_one]; ring
  rw [e2] at hle
  have hsq := pow_le_pow_left₀ h0 hle 2
  rw [abs_le]
  constructor
  · have : 0 ≤ (rmag 0 σ) ^ 2 := sq_nonneg _
    linarith
  · nlinarith

/-- **sqrt_sq** for the concrete instance: non-negative, and the square is within relative `3·2^-p` of the
argument, for every `p` (including the degenerate `p = 0`). -/
theorem sqrtBits_sq_err (p : Nat) (x : Rat) (hx : 0 ≤ x) :
    0 ≤ sqrtBits p x ∧ |(sqrtBits p x) ^ 2 - x| ≤ 3 * x / 2 ^ p := by
  refine ⟨sqrtBits_nonneg p x, ?_⟩
  rcases lt_or_eq_of_le hx with hpos | rfl
  · have hs0 := sqrtBits_nonneg p x
    obtain ⟨hσ, hcase⟩ := standin_bracket p x hpos
    rw [sqrtBits_pos p x hpos] at hs0 ⊢
    set σ := standin (sqrtK p x) x
    have herr := roundBits_err p σ
    rw [abs_of_pos hσ] at herr
    have hP : (0 : Rat) < (2 : Rat) ^ p := by positivity
    have hε0 : (0 : Rat) < 1 / 2 ^ p := by positivity
    have hε1 : (1 : Rat) / 2 ^ p ≤ 1 := by
      rw [div_le_one hP]; exact one_le_pow₀ (by norm_num)
    have herr' : |roundBits p σ - σ| ≤ σ * (1 / 2 ^ p) := by
      rw [mul_one_div]; exact herr
    have goal_eq : 3 * x / 2 ^ p = 3 * x * (1 / 2 ^ p) := by ring
    rw [goal_eq]
    rcases hcase with hex | ⟨t, k, ht, hl, hu, hst⟩
    · exact sq_err_exact _ σ _ x hε0.le hε1 hσ hs0 herr' hex
    · have ht1 : 1 ≤ t := le_trans Nat.one_le_two_pow ht
      rcases Nat.eq_zero_or_pos p with rfl | hp1
      · rw [hst]; simp only [pow_zero, div_one, mul_one]
        exact sq_err_cell_zero t k ht1 x hl
      · have hk : (0 : Rat) < (2 : Rat) ^ k := by positivity
        have ht0 : (0 : Rat) < t := by exact_mod_cast ht1
        have hε2 : (1 : Rat) / 2 ^ p ≤ 1 / 2 := by
          rw [div_le_div_iff₀ hP (by norm_num)]
          have : (2 : Rat) ^ 1 ≤ (2 : Rat) ^ p := pow_le_pow_right₀ (by norm_num) hp1
          linarith
        have hσe : σ = (t : Rat) / 2 ^ k + (1 / 2 ^ k) / 2 := by rw [hst]; field_simp
        have hfine : 16 * (1 / (2 : Rat) ^ k) ≤ (t : Rat) / 2 ^ k * (1 / 2 ^ p) := by
          have htq : ((2 : Rat) ^ (p + 4)) ≤ (t : Rat) := by exact_mod_cast ht
          rw [pow_add] at htq
          rw [div_mul_div_comm, mul_one_div, div_le_div_iff₀ hk (by positivity)]
          nlinarith
        rw [hσe] at herr' hs0 ⊢
        have hu' : x < ((t : Rat) / 2 ^ k + 1 / 2 ^ k) * ((t : Rat) / 2 ^ k + 1 / 2 ^ k) := by
          have : (t : Rat) / 2 ^ k + 1 / 2 ^ k = ((t : Rat) + 1) / 2 ^ k := by field_simp
          rw [this]; exact hu
        exact sq_err_cell _ _ _ _ x hε0 hε2 (by positivity) (by positivity) hfine hs0 herr' hl hu'
  · simp [sqrtBits]

/-- the nearest integer is unique when strictly closer than one half -/
theorem roundHE_unique (q : Rat) (n : Int) (h : |q - (n : Rat)| < 1 / 2) : Py.roundHE q = n := by
  have e := abs_le.mp (roundHE_err q)
  have h' := abs_lt.mp h
  have h1 : ((Py.roundHE q : Int) : Rat) - (n : Rat) < 1 := by linarith [e.2, h'.1]
  have h2 : -1 < ((Py.roundHE q : Int) : Rat) - (n : Rat) := by linarith [e.1, h'.2]
  have h1' : Py.roundHE q - n < 1 := by exact_mod_cast h1
  have h2' : -1 < Py.roundHE q - n := by exact_mod_cast h2
  omega

/-- `roundHE (r / 2^j)` (`j ≥ 1`) does not depend on where `r` lies strictly between two consecutive integers -/
theorem roundHE_cell (t : Nat) (j : Nat) (ra rb : Rat)
    (ha1 : (t : Rat) < ra) (ha2 : ra < (t : Rat) + 1) (hb1 : (t : Rat) < rb) (hb2 : rb < (t : Rat) + 1) :
    Py.roundHE (ra / (2 : Rat) ^ (j + 1)) = Py.roundHE (rb / (2 : Rat) ^ (j + 1)) := by
  set n := Py.roundHE (ra / (2 : Rat) ^ (j + 1)) with hn
  symm
  apply roundHE_unique
  have e := abs_le.mp (roundHE_err (ra / (2 : Rat) ^ (j + 1)))
  rw [← hn] at e
  have hM : (0 : Rat) < (2 : Rat) ^ j := by positivity
  have h2 : (2 : Rat) ^ (j + 1) = 2 * (2 : Rat) ^ j := by rw [pow_succ]; ring
  have hP : (0 : Rat) < (2 : Rat) ^ (j + 1) := by positivity
  -- integer bounds (2n-1)·2^j ≤ ra ≤ (2n+1)·2^j
  have lo : (((2 * n - 1) * 2 ^ j : Int) : Rat) ≤ ra := by
    have : (n : Rat) - 1 / 2 ≤ ra / (2 : Rat) ^ (j + 1) := by linarith [e.1]
    rw [le_div_iff₀ hP, h2] at this
    push_cast; linarith
  have hi : ra ≤ (((2 * n + 1) * 2 ^ j : Int) : Rat) := by
    have : ra / (2 : Rat) ^ (j + 1) ≤ (n : Rat) + 1 / 2 := by linarith [e.2]
    rw [div_le_iff₀ hP, h2] at this
    push_cast; linarith
  have lo' : (2 * n - 1) * 2 ^ j ≤ (t : Int) := by
    have : (((2 * n - 1) * 2 ^ j : Int) : Rat) < ((t : Int) : Rat) + 1 := by push_cast at lo ⊢; linarith
    have : (2 * n - 1) * 2 ^ j < (t : Int) + 1 := by exact_mod_cast this
    omega
  have hi' : (t : Int) + 1 ≤ (2 * n + 1) * 2 ^ j := by
    have : ((t : Int) : Rat) < (((2 * n + 1) * 2 ^ j : Int) : Rat) := by push_cast at hi ⊢; linarith
    have : (t : Int) < (2 * n + 1) * 2 ^ j := by exact_mod_cast this
    omega
  have loq : (2 * (n : Rat) - 1) * (2 : Rat) ^ j ≤ (t : Rat) := by exact_mod_cast lo'
  have hiq : (t : Rat) + 1 ≤ (2 * (n : Rat) + 1) * (2 : Rat) ^ j := by exact_mod_cast hi'
  rw [abs_lt]
  constructor
  · have : (n : Rat) - 1 / 2 < rb / (2 : Rat) ^ (j + 1) := by
      rw [lt_div_iff₀ hP, h2]; nlinarith
    linarith
  · have : rb / (2 : Rat) ^ (j + 1) < (n : Rat) + 1 / 2 := by
      rw [div_lt_iff₀ hP, h2]; nlinarith
    linarith

/-- **cell lemma**: the `p`-bit magnitude rounding is constant on every open cell `(t/2^k, (t+1)/2^k)` of a grid
on which the cell's lower end has more than `p` bits (`t ≥ 2^p`): no rounding breakpoint lies inside it. -/
theorem rmag_cell (p t k : Nat) (ht : 2 ^ p ≤ t) (a b : Rat)
    (ha1 : (t : Rat) / 2 ^ k < a) (ha2 : a < ((t : Rat) + 1) / 2 ^ k)
    (hb1 : (t : Rat) / 2 ^ k < b) (hb2 : b < ((t : Rat) + 1) / 2 ^ k) : rmag p a = rmag p b := by
  have ht1 : 1 ≤ t := le_trans Nat.one_le_two_pow ht
  have hk : (0 : Rat) < (2 : Rat) ^ k := by positivity
  have ht0 : (0 : Rat) < t := by exact_mod_cast ht1
  have ha : 0 < a := lt_trans (by positivity) ha1
  have hb : 0 < b := lt_trans (by positivity) hb1
  -- grid coordinates
  have ra1 : (t : Rat) < a * 2 ^ k := by rwa [div_lt_iff₀ hk] at ha1
  have ra2 : a * 2 ^ k < (t : Rat) + 1 := by rwa [lt_div_iff₀ hk] at ha2
  have rb1 : (t : Rat) < b * 2 ^ k := by rwa [div_lt_iff₀ hk] at hb1
  have rb2 : b * 2 ^ k < (t : Rat) + 1 := by rwa [lt_div_iff₀ hk] at hb2
  -- same binade
  have binade : ∀ c : Rat, 0 < c → (t : Rat) < c * 2 ^ k → c * 2 ^ k < (t : Rat) + 1 →
      (2 : Rat) ^ (ilog2 c + (k : Int)) ≤ t ∧ (t : Rat) + 1 ≤ (2 : Rat) ^ (ilog2 c + 1 + (k : Int)) := by
    intro c hc c1 c2
    have l := pow_ilog2_le c hc
    have u := lt_pow_ilog2 c hc
    have g1 := grid_pow (ilog2 c + (k : Int)) t ht1 (c * 2 ^ k) c1 c2
    have g2 := grid_pow (ilog2 c + 1 + (k : Int)) t ht1 (c * 2 ^ k) c1 c2
    constructor
    · apply g1.1
      rw [zpow_add₀ (by norm_num), zpow_natCast]
      exact mul_le_mul_of_nonneg_right l hk.le
    · apply g2.2
      rw [zpow_add₀ (by norm_num), zpow_natCast]
      exact mul_lt_mul_of_pos_right u hk
  obtain ⟨la, ua⟩ := binade a ha ra1 ra2
  obtain ⟨lb, ub⟩ := binade b hb rb1 rb2
  have two : (1 : Rat) < 2 := by norm_num
  have hL : ilog2 a = ilog2 b := by
    have h1 : (2 : Rat) ^ (ilog2 a + (k : Int)) < (2 : Rat) ^ (ilog2 b + 1 + (k : Int)) := by linarith
    have h2 : (2 : Rat) ^ (ilog2 b + (k : Int)) < (2 : Rat) ^ (ilog2 a + 1 + (k : Int)) := by linarith
    have h1' := (zpow_lt_zpow_iff_right₀ two).mp h1
    have h2' := (zpow_lt_zpow_iff_right₀ two).mp h2
    omega
  -- the exponent of the rounding grid, relative to the 2^-k grid, is at least 1
  have hpk : (p : Int) < ilog2 b + 1 + (k : Int) := by
    have : (2 : Rat) ^ (p : Int) < (2 : Rat) ^ (ilog2 b + 1 + (k : Int)) := by
      rw [zpow_natCast]
      have : (2 : Rat) ^ p ≤ (t : Rat) := by exact_mod_cast ht
      linarith
    exact (zpow_lt_zpow_iff_right₀ two).mp this
  unfold rmag
  rw [hL]
  simp only [pow2_eq_zpow]
  set e := ilog2 b - ((p : Int) - 1) with he
  obtain ⟨j, hj⟩ : ∃ j : Nat, e + (k : Int) = (j : Int) + 1 := ⟨(e + (k : Int) - 1).toNat, by omega⟩
  have conv : ∀ c : Rat, c / (2 : Rat) ^ e = (c * 2 ^ k) / (2 : Rat) ^ (j + 1) := by
    intro c
    have : (2 : Rat) ^ (j + 1) = (2 : Rat) ^ e * (2 : Rat) ^ k := by
      rw [← zpow_natCast, ← zpow_natCast, ← zpow_add₀ (by norm_num)]; congr 1; push_cast; omega
    rw [this]
    have pe : (2 : Rat) ^ e ≠ 0 := by positivity
    field_simp
  rw [conv a, conv b, roundHE_cell t j (a * 2 ^ k) (b * 2 ^ k) ra1 ra2 rb1 rb2]

private theorem lt_of_mul_self_lt' {a b : Rat} (hb : 0 ≤ b) (h : a * a < b * b) : a < b := by
  by_contra hc; push Not at hc
  have := mul_le_mul hc hc hb (le_trans hb hc)
  linarith

private theorem le_of_mul_self_le' {a b : Rat} (hb : 0 ≤ b) (h : a * a ≤ b * b) : a ≤ b := by
  by_contra hc; push Not at hc
  have := mul_lt_mul'' hc hc hb hb
  linarith

private theorem mid_mem_cell (t k : Nat) : (t : Rat) / 2 ^ k < ((t : Rat) + 1 / 2) / 2 ^ k ∧
    ((t : Rat) + 1 / 2) / 2 ^ k < ((t : Rat) + 1) / 2 ^ k := by
  have hk : (0 : Rat) < (2 : Rat) ^ k := by positivity
  constructor <;> (apply div_lt_div_of_pos_right _ hk; linarith)

/-- **monotonicity** of the concrete square root (`p ≥ 1`) -/
theorem sqrtBits_mono (p : Nat) (hp : 1 ≤ p) (x y : Rat) (hxy : x ≤ y) : sqrtBits p x ≤ sqrtBits p y := by
  rcases le_or_gt x 0 with hx | hx
  · rw [sqrtBits_nonpos p x hx]; exact sqrtBits_nonneg p y
  have hy : 0 < y := lt_of_lt_of_le hx hxy
  obtain ⟨hσx, cx⟩ := standin_bracket p x hx
  obtain ⟨hσy, cy⟩ := standin_bracket p y hy
  rw [sqrtBits_pos p x hx, sqrtBits_pos p y hy, roundBits_pos p _ hσx, roundBits_pos p _ hσy]
  set σx := standin (sqrtK p x) x
  set σy := standin (sqrtK p y) y
  have big : ∀ t : Nat, 2 ^ (p + 4) ≤ t → 2 ^ p ≤ t := fun t h =>
    le_trans (Nat.pow_le_pow_right (by norm_num) (by omega)) h
  rcases cx with ex | ⟨tx, kx, htx, lx, ux, sx⟩ <;> rcases cy with ey | ⟨ty, ky, hty, ly, uy, sy⟩
  · -- both exact
    apply rmag_mono p hp _ _ hσx
    apply le_of_mul_self_le' hσy.le
    rw [ex, ey]; exact hxy
  · -- x exact, y in a cell
    have hUy : (0 : Rat) ≤ ((ty : Rat) + 1) / 2 ^ ky := by positivity
    have h1 : σx < ((ty : Rat) + 1) / 2 ^ ky := by
      apply lt_of_mul_self_lt' hUy
      rw [ex]; exact lt_of_le_of_lt hxy uy
    obtain ⟨m1, m2⟩ := mid_mem_cell ty ky
    by_cases hc : σx ≤ (ty : Rat) / 2 ^ ky
    · apply rmag_mono p hp _ _ hσx
      rw [sy]; linarith
    · push Not at hc
      rw [sy]
      exact le_of_eq (rmag_cell p ty ky (big ty hty) _ _ hc h1 m1 m2)
  · -- x in a cell, y exact
    have h1 : (tx : Rat) / 2 ^ kx < σy := by
      apply lt_of_mul_self_lt' hσy.le
      rw [ey]; exact lt_of_lt_of_le lx hxy
    obtain ⟨m1, m2⟩ := mid_mem_cell tx kx
    by_cases hc : ((tx : Rat) + 1) / 2 ^ kx ≤ σy
    · apply rmag_mono p hp _ _ hσx
      rw [sx]; linarith
    · push Not at hc
      rw [sx]
      exact le_of_eq (rmag_cell p tx kx (big tx htx) _ _ m1 m2 h1 hc)
  · -- both in cells
    have hUy : (0 : Rat) ≤ ((ty : Rat) + 1) / 2 ^ ky := by positivity
    have h1 : (tx : Rat) / 2 ^ kx < ((ty : Rat) + 1) / 2 ^ ky := by
      apply lt_of_mul_self_lt' hUy
      exact lt_trans lx (lt_of_le_of_lt hxy uy)
    obtain ⟨mx1, mx2⟩ := mid_mem_cell tx kx
    obtain ⟨my1, my2⟩ := mid_mem_cell ty ky
    by_cases hc : ((tx : Rat) + 1) / 2 ^ kx ≤ (ty : Rat) / 2 ^ ky
    · apply rmag_mono p hp _ _ hσx
      rw [sx, sy]; linarith
    · push Not at hc
      -- the cells overlap: a common point
      set lo := max ((tx : Rat) / 2 ^ kx) ((ty : Rat) / 2 ^ ky) with hlo
      set hi := min (((tx : Rat) + 1) / 2 ^ kx) (((ty : Rat) + 1) / 2 ^ ky) with hhi
      have hlohi : lo < hi := by
        rw [hlo, hhi, max_lt_iff, lt_min_iff, lt_min_iff]
        exact ⟨⟨lt_trans mx1 mx2, h1⟩, ⟨hc, lt_trans my1 my2⟩⟩
      set c := (lo + hi) / 2 with hcdef
      have c1 : lo < c := by rw [hcdef]; linarith
      have c2 : c < hi := by rw [hcdef]; linarith
      have cx1 : (tx : Rat) / 2 ^ kx < c := lt_of_le_of_lt (le_max_left _ _) c1
      have cy1 : (ty : Rat) / 2 ^ ky < c := lt_of_le_of_lt (le_max_right _ _) c1
      have cx2 : c < ((tx : Rat) + 1) / 2 ^ kx := lt_of_lt_of_le c2 (min_le_left _ _)
      have cy2 : c < ((ty : Rat) + 1) / 2 ^ ky := lt_of_lt_of_le c2 (min_le_right _ _)
      rw [sx, sy, rmag_cell p tx kx (big tx htx) _ c mx1 mx2 cx1 cx2,
        rmag_cell p ty ky (big ty hty) _ c my1 my2 cy1 cy2]

/-- bracket without a real square root: a representable `g ≥ 0` whose square is below `x` is below the computed
root, and one whose square is above `x` is above it. (So the computed root is the `p`-bit rounding of the true
root: it lies between the two neighbouring representables whose squares bracket `x`.) -/
theorem sqrtBits_ge_of_sq_le (p : Nat) (hp : 1 ≤ p) (g x : Rat) (hg : 0 ≤ g) (hr : Rep p g) (h : g * g ≤ x) :
    g ≤ sqrtBits p x := by
  rw [← sqrtBits_exact p g hg hr]; exact sqrtBits_mono p hp _ _ h

theorem sqrtBits_le_of_le_sq (p : Nat) (hp : 1 ≤ p) (g x : Rat) (hg : 0 ≤ g) (hr : Rep p g) (h : x ≤ g * g) :
    sqrtBits p x ≤ g := by
  rw [← sqrtBits_exact p g hg hr]; exact sqrtBits_mono p hp _ _ h

/-- abstract form of the relative bracket: `s` within relative `ε` of `σ`, `σ` either the exact root or the
midpoint of a cell `16/ε` times finer than its lower end whose end points' squares bracket `q` -/
private theorem sq_bracket (ε σ s q : Rat) (he0 : 0 < ε) (he1 : ε ≤ 1 / 2) (hσ : 0 < σ) (hs0 : 0 ≤ s)
    (herr : |s - σ| ≤ σ * ε)
    (hcase : σ * σ = q ∨ ∃ T h : Rat, 0 < T ∧ 0 < h ∧ 16 * h ≤ T * ε ∧ σ = T + h / 2 ∧ T * T < q ∧
      q < (T + h) * (T + h)) :
    q * (1 - 33 / 32 * ε) ^ 2 ≤ s ^ 2 ∧ s ^ 2 ≤ q * (1 + 67 / 64 * ε) ^ 2 := by
  obtain ⟨l, u⟩ := abs_le.mp herr
  have hd0 : 0 ≤ 1 - 33 / 32 * ε := by linarith
  rcases hcase with hq | ⟨T, h, hT, hh, hfine, hσe, hl, hu⟩
  · have hqpos : 0 < q := by rw [← hq]; positivity
    constructor
    · have h1 : σ * (1 - 33 / 32 * ε) ≤ s := by nlinarith
      have := pow_le_pow_left₀ (mul_nonneg hσ.le hd0) h1 2
      have e : (σ * (1 - 33 / 32 * ε)) ^ 2 = q * (1 - 33 / 32 * ε) ^ 2 := by rw [← hq]; ring
      rwa [e] at this
    · have h1 : s ≤ σ * (1 + 67 / 64 * ε) := by nlinarith
      have := pow_le_pow_left₀ hs0 h1 2
      have e : (σ * (1 + 67 / 64 * ε)) ^ 2 = q * (1 + 67 / 64 * ε) ^ 2 := by rw [← hq]; ring
      rwa [e] at this
  · rw [hσe] at l u
    have hqpos : 0 < q := lt_trans (by positivity) hl
    constructor
    · set U := T + h with hU
      have hUpos : 0 < U := by positivity
      have hσ' : U * (1 - ε / 32) ≤ T + h / 2 := by
        have : h / 2 ≤ U * (ε / 32) := by nlinarith
        nlinarith
      have h1 : U * (1 - ε / 32) * (1 - ε) ≤ s := by
        have : (T + h / 2) * (1 - ε) ≤ s := by linarith
        have h' : U * (1 - ε / 32) * (1 - ε) ≤ (T + h / 2) * (1 - ε) :=
          mul_le_mul_of_nonneg_right hσ' (by linarith)
        linarith
      have hd : 1 - 33 / 32 * ε ≤ (1 - ε / 32) * (1 - ε) := by nlinarith [sq_nonneg ε]
      have h2 : U * (1 - 33 / 32 * ε) ≤ s := by
        have : U * (1 - 33 / 32 * ε) ≤ U * ((1 - ε / 32) * (1 - ε)) := mul_le_mul_of_nonneg_left hd hUpos.le
        linarith
      have hsq := pow_le_pow_left₀ (mul_nonneg hUpos.le hd0) h2 2
      have e : (U * (1 - 33 / 32 * ε)) ^ 2 = (U * U) * (1 - 33 / 32 * ε) ^ 2 := by ring
      rw [e] at hsq
      exact le_trans (mul_le_mul_of_nonneg_right hu.le (sq_nonneg _)) hsq
    · have hee : ε ^ 2 ≤ ε / 2 := by nlinarith
      have hσ' : T + h / 2 ≤ T * (1 + ε / 32) := by nlinarith
      have h1 : s ≤ T * (1 + ε / 32) * (1 + ε) := by
        have : s ≤ (T + h / 2) * (1 + ε) := by linarith
        have h' : (T + h / 2) * (1 + ε) ≤ T * (1 + ε / 32) * (1 + ε) :=
          mul_le_mul_of_nonneg_right hσ' (by linarith)
        linarith
      have hc : (1 + ε / 32) * (1 + ε) ≤ 1 + 67 / 64 * ε := by nlinarith
      have h2 : s ≤ T * (1 + 67 / 64 * ε) := by
        have : T * ((1 + ε / 32) * (1 + ε)) ≤ T * (1 + 67 / 64 * ε) := mul_le_mul_of_nonneg_left hc hT.le
        linarith
      have hsq := pow_le_pow_left₀ hs0 h2 2
      have e : (T * (1 + 67 / 64 * ε)) ^ 2 = (T * T) * (1 + 67 / 64 * ε) ^ 2 := by ring
      rw [e] at hsq
      exact le_trans hsq (mul_le_mul_of_nonneg_right hl.le (sq_nonneg _))

/-- **relative bracket** (`p ≥ 1`, `ε = 2^-p`): the computed root `s` satisfies
`√x·(1 - 33/32·ε) ≤ s ≤ √x·(1 + 67/64·ε)`, stated on squares (both factors are non-negative) -/
theorem sqrtBits_rel_bracket (p : Nat) (hp : 1 ≤ p) (x : Rat) (hx : 0 ≤ x) :
    x * (1 - 33 / 32 * (1 / 2 ^ p)) ^ 2 ≤ (sqrtBits p x) ^ 2 ∧
    (sqrtBits p x) ^ 2 ≤ x * (1 + 67 / 64 * (1 / 2 ^ p)) ^ 2 := by
  rcases lt_or_eq_of_le hx with hpos | rfl
  · have hs0 := sqrtBits_nonneg p x
    obtain ⟨hσ, hcase⟩ := standin_bracket p x hpos
    rw [sqrtBits_pos p x hpos] at hs0 ⊢
    set σ := standin (sqrtK p x) x
    have herr := roundBits_err p σ
    rw [abs_of_pos hσ] at herr
    have hP : (0 : Rat) < (2 : Rat) ^ p := by positivity
    have hε0 : (0 : Rat) < 1 / 2 ^ p := by positivity
    have hε2 : (1 : Rat) / 2 ^ p ≤ 1 / 2 := by
      rw [div_le_div_iff₀ hP (by norm_num)]
      have : (2 : Rat) ^ 1 ≤ (2 : Rat) ^ p := pow_le_pow_right₀ (by norm_num) hp
      linarith
    have herr' : |roundBits p σ - σ| ≤ σ * (1 / 2 ^ p) := by rw [mul_one_div]; exact herr
    apply sq_bracket _ σ _ x hε0 hε2 hσ hs0 herr'
    rcases hcase with hex | ⟨t, k, ht, hl, hu, hst⟩
    · exact Or.inl hex
    · right
      have ht1 : 1 ≤ t := le_trans Nat.one_le_two_pow ht
      have hk : (0 : Rat) < (2 : Rat) ^ k := by positivity
      have ht0 : (0 : Rat) < t := by exact_mod_cast ht1
      refine ⟨(t : Rat) / 2 ^ k, 1 / 2 ^ k, by positivity, by positivity, ?_, ?_, hl, ?_⟩
      · have htq : ((2 : Rat) ^ (p + 4)) ≤ (t : Rat) := by exact_mod_cast ht
        rw [pow_add] at htq
        rw [div_mul_div_comm, mul_one_div, div_le_div_iff₀ hk (by positivity)]
        nlinarith
      · rw [hst]; field_simp
      · have : (t : Rat) / 2 ^ k + 1 / 2 ^ k = ((t : Rat) + 1) / 2 ^ k := by field_simp
        rw [this]; exact hu
  · simp [sqrtBits]

/-- the concrete square root meets both square-root fields of the contract, exactly as stated in
`Contract.lean` (for every `p`, no side condition needed) -/
theorem contractSqrt_ieee : ContractSqrt Rounding.ieee where
  sqrt_sq := fun p x hx => sqrtBits_sq_err p x hx
  sqrt_exact := fun p y hy hr => sqrtBits_exact p y hy hr

/-- **the full contract of DESIGN §5b holds for the arithmetic the driver executes** -/
theorem contract_ieee : Contract Rounding.ieee where
  toContractBasic := contractBasic_ieee
  toContractSqrt := contractSqrt_ieee

end Plotink
