import Plotink.Proofs.C06GenEbb3Calls
import Plotink.Proofs.C06GenEbb3Methods
import Plotink.Proofs.Ebb3GenRun
/-! # C06 over the regenerated code, part 7: the remaining EBB3 methods

Through the master bridge `Ebb3Gen.gen_bridge` (regenerated method ~ `Ebb3.run srcParams scriptDev`) and the
model-level `sends_*` lemmas of `C06GenEbb3Calls`: the query methods and the direct writes for every script of the
domain; the methods that transmit several requests under the acknowledging-script hypothesis `AckFor`. -/
namespace Plotink
namespace C06Gen
open PyObj Gen Ebb3Gen
set_option linter.unusedVariables false

/-- the EBB3 call serving each of the 15 requests not covered by `ebb3Gen` -/
def callNew : C06.Req → Option Ebb3.Call
  | .timedPause n => some (.timed_pause n)
  | .enable r1 r2 => some (.motors_enable r1 r2)
  | .pbConfig p s d => some (.dio_b_config p s d)
  | .pbRead p => some (.dio_b_read p)
  | .varRead i => some (.var_read i)
  | .varWriteInt32 v i => some (.var_write_int32 v i)
  | .varReadInt32 i => some (.var_read_int32 i)
  | .querySteps => some .query_steps
  | .queryVoltage => some (.query_voltage Option.none)
  | .queryCurrent => some .query_current
  | .queryMotorsQE => some .motors_query_enabled
  | .queryNickname => some .query_nickname
  | .queryStatus => some .query_statusbyte
  | .reboot => some .reboot
  | .bootload => some .bootload
  | _ => Option.none

/-- **the acknowledging-script hypothesis**, per request: for the methods that transmit several requests, the script
answers each documented request in turn with a line that begins with its name and carries no `Err:`, after at most
`retry` blank reads, on a write that does not fault (`Ebb3.Acked`); the `QL` payloads are integers, the `QE` payload
reports the board state `bd`.  Nothing is asked for the methods that transmit one request. -/
def AckFor (bd : C06.Board) (r : C06.Req) (sc : Ebb3.Script) : Prop :=
  match r with
  | .timedPause n => Ebb3.Acked Ebb3.srcParams ((C06.docPause n).map (fun d => Ebb3.Xch.cmd (textChars "SM" [d, 0, 0]))) sc
  | .pbConfig p s d => Ebb3.Acked Ebb3.srcParams [.cmd (textChars "PO,B" [p, s]), .cmd (textChars "PD,B" [p, d])] sc
  | .varWriteInt32 v i =>
      Ebb3.Acked Ebb3.srcParams ((C06.documented ⟨0, 0⟩ (.varWriteInt32 v i)).map (fun c => Ebb3.Xch.cmd (textChars c.name c.args))) sc
  | .varReadInt32 i =>
      Ebb3.Acked Ebb3.srcParams ((C06.documented ⟨0, 0⟩ (.varReadInt32 i)).map (fun c => Ebb3.Xch.qry (textChars c.name c.args) IntPayload)) sc
  | .enable r1 r2 => Ebb3.Acked Ebb3.srcParams ((C06.documented bd (.enable r1 r2)).map (xchOf bd)) sc
  | _ => True

theorem outWorld3_eq (o : Out EBB3_Obj) : outWorld3 o = Ebb3Gen.outWorld o := by cases o <;> rfl

theorem ready_abs (w : World EBB3_Obj) (he : w.obj.err = .none) (hc : connected w = true) : Ebb3.Ready (absWorld w) := by
  refine ⟨hc, ?_⟩
  show absOpt w.obj.err = Option.none
  rw [he]; rfl

/-- from the model's write log to the regenerated method's write log -/
theorem wrote3_of_sends (fuel : Nat) (c : Ebb3.Call) (hcov : Covered fuel c) (w : World EBB3_Obj) (hg : Good w) (hp : Pre c w)
    (cs : List C06.Cmd)
    (hs : Ebb3.Sends (Ebb3.run Ebb3.srcParams Ebb3.scriptDev c) (absWorld w) (cs.map (fun c => c.wire.toList))) :
    Wrote3 (genRun fuel c w) w (some cs) := by
  obtain ⟨w', h1, h2, _⟩ := sim_world (gen_bridge fuel c hcov w hg hp)
  refine ⟨w', by rw [outWorld3_eq]; exact h1, ?_⟩
  have : (absWorld w').out = (absWorld w).out ++ cs.map (fun c => c.wire.toList) := by rw [h2]; exact hs
  exact this

/-- **Each of the 15 remaining EBB3 methods transmits exactly the documented request(s).** -/
theorem ebb3New_emit (fuel : Nat) (bd : C06.Board) (w : World EBB3_Obj) (hg : Good w) (he : w.obj.err = .none)
    (hc : connected w = true) (r : C06.Req) (c : Ebb3.Call) (hcall : callNew r = some c) (hf : fuelNeed c ≤ fuel)
    (hp : Pre c w) (hsup : C06.ebb3Supports r) (hack : AckFor bd r (absWorld w).dev) :
    Wrote3 (genRun fuel c w) w (some (C06.documented bd r)) := by
  have hr := ready_abs w he hc
  cases r <;> simp only [callNew, Option.some.injEq, reduceCtorEq] at hcall <;> subst hcall
  case timedPause n =>
    refine wrote3_of_sends fuel (.timed_pause n) ⟨rfl, trivial, hf⟩ w hg hp _ ?_
    simpa [C06.documented, List.map_map, Function.comp_def] using sends_timed_pause n _ hr hack
  case enable r1 r2 =>
    exact wrote3_of_sends fuel (.motors_enable r1 r2) ⟨rfl, trivial, hf⟩ w hg hp _ (sends_motors_enable _ bd r1 r2 _ hr hack)
  case pbConfig p s d =>
    refine wrote3_of_sends fuel (.dio_b_config p s d) ⟨rfl, trivial, hf⟩ w hg hp _ ?_
    simpa [C06.documented] using sends_dio_b_config _ p s d _ hr hack
  case pbRead p =>
    refine wrote3_of_sends fuel (.dio_b_read p) ⟨rfl, trivial, hf⟩ w hg hp _ ?_
    simpa [C06.documented] using sends_dio_b_read _ p _ hr
  case varRead i =>
    refine wrote3_of_sends fuel (.var_read i) ⟨rfl, trivial, hf⟩ w hg hp _ ?_
    simpa [C06.documented] using sends_var_read _ i _ hr
  case varWriteInt32 v i =>
    refine wrote3_of_sends fuel (.var_write_int32 v i) ⟨rfl, trivial, hf⟩ w hg hp _ ?_
    have := sends_var_write_int32 _ v i hsup _ hr hack
    simpa [C06.documented] using this
  case varReadInt32 i =>
    refine wrote3_of_sends fuel (.var_read_int32 i) ⟨rfl, trivial, hf⟩ w hg hp _ ?_
    have := sends_var_read_int32 _ i _ hr hack
    simpa [C06.documented] using this
  case querySteps =>
    refine wrote3_of_sends fuel .query_steps ⟨rfl, trivial, hf⟩ w hg hp _ ?_
    simpa [C06.documented] using sends_query_steps _ _ hr
  case queryVoltage =>
    refine wrote3_of_sends fuel (.query_voltage Option.none) ⟨rfl, trivial, hf⟩ w hg hp _ ?_
    simpa [C06.documented] using sends_query_voltage _ Option.none _ hr
  case queryCurrent =>
    refine wrote3_of_sends fuel .query_current ⟨rfl, trivial, hf⟩ w hg hp _ ?_
    simpa [C06.documented] using sends_query_current _ _ hr
  case queryMotorsQE =>
    refine wrote3_of_sends fuel .motors_query_enabled ⟨rfl, trivial, hf⟩ w hg hp _ ?_
    simpa [C06.documented] using sends_motors_query_enabled _ _ hr
  case queryNickname =>
    refine wrote3_of_sends fuel .query_nickname ⟨rfl, trivial, hf⟩ w hg hp _ ?_
    simpa [C06.documented] using sends_query_nickname _ _ hr
  case queryStatus =>
    refine wrote3_of_sends fuel .query_statusbyte ⟨rfl, trivial, hf⟩ w hg hp _ ?_
    simpa [C06.documented] using sends_query_statusbyte _ _ hr
  case reboot =>
    refine wrote3_of_sends fuel .reboot ⟨rfl, trivial, hf⟩ w hg hp _ ?_
    simpa [C06.documented] using sends_reboot _ _ hr
  case bootload =>
    refine wrote3_of_sends fuel .bootload ⟨rfl, trivial, hf⟩ w hg hp _ ?_
    simpa [C06.documented] using sends_bootload _ _ hr

/-- … and nothing without a port (or with a recorded error: C04) -/
theorem ebb3New_noport (fuel : Nat) (w : World EBB3_Obj) (hg : Good w) (hb : (absSt w.obj).blocked = true)
    (r : C06.Req) (c : Ebb3.Call) (hcall : callNew r = some c) (hf : fuelNeed c ≤ fuel) :
    Wrote3 (genRun fuel c w) w (some []) := by
  have hreq : c.method.isRequest = true := by
    cases r <;> simp only [callNew, Option.some.injEq, reduceCtorEq] at hcall <;> subst hcall <;> rfl
  have hins : inS c.method = true := by
    cases r <;> simp only [callNew, Option.some.injEq, reduceCtorEq] at hcall <;> subst hcall <;> rfl
  have hasc : ArgsAscii c := by
    cases r <;> simp only [callNew, Option.some.injEq, reduceCtorEq] at hcall <;> subst hcall <;> trivial
  have hpre : Pre c w := by
    cases r <;> simp only [callNew, Option.some.injEq, reduceCtorEq] at hcall <;> subst hcall <;>
      first | trivial | (intro h; rw [hb] at h; cases h)
  obtain ⟨w', h1, h2, _⟩ := sim_world (gen_bridge fuel c ⟨hins, hasc, hf⟩ w hg hpre)
  refine ⟨w', by rw [outWorld3_eq]; exact h1, ?_⟩
  have hrun := Ebb3.run_blocked Ebb3.srcParams Ebb3.scriptDev c hreq (absWorld w) hb
  have : (absWorld w').out = (absWorld w).out := by rw [h2, hrun]
  have e : w'.port.log = w.port.log := this
  simp [e]

/-- the regenerated EBB3 method serving `r`: all 29 requests the layer serves -/
def ebb3GenFull (fuel : Nat) (w : World EBB3_Obj) (r : C06.Req) : Option (Out EBB3_Obj) :=
  match ebb3Gen fuel w r with
  | some o => some o
  | Option.none => (callNew r).map (fun c => genRun fuel c w)

/-- fuel and side conditions of the call serving `r` -/
def Ebb3Side (fuel : Nat) (w : World EBB3_Obj) (r : C06.Req) : Prop :=
  26 ≤ fuel ∧ ∀ c, callNew r = some c → fuelNeed c ≤ fuel ∧ Pre c w

theorem ebb3GenFull_isSome (fuel : Nat) (w : World EBB3_Obj) (b : C06.Board) (r : C06.Req) (h : (C06.ebb3Emit true b r).isSome) :
    (ebb3GenFull fuel w r).isSome := by
  cases r <;> simp [C06.ebb3Emit, C06.ebb3EmitWith] at h <;> simp [ebb3GenFull, ebb3Gen, callNew]

end C06Gen
end Plotink
