import Plotink.Proofs.C13Near

/-! C13: the invariant is preserved by `remove` (and by every removal sequence). -/
namespace Plotink
namespace C13

/-- `cells[c]` (empty outside the table) -/
def getC (cells : List (List Nat)) (c : Nat) : List Nat := cells.getD c []

theorem cellAt_eq (g : Grid) (c : Nat) : cellAt g c = getC g.cells c := rfl

theorem getC_set {cells : List (List Nat)} {c : Nat} (v : List Nat) (c' : Nat) (hc : c < cells.length) :
    getC (cells.set c v) c' = if c = c' then v else getC cells c' := by
  unfold getC
  simp only [List.getD_eq_getElem?_getD, List.getElem?_set, hc, if_true]
  split <;> simp

theorem getC_modify {cells : List (List Nat)} {c : Nat} (f : List Nat → List Nat) (c' : Nat)
    (hc : c < cells.length) :
    getC (cells.modify c f) c' = if c = c' then f (getC cells c') else getC cells c' := by
  unfold getC
  simp only [List.getD_eq_getElem?_getD, List.getElem?_modify]
  by_cases h : c = c'
  · subst h
    simp [List.getElem?_eq_getElem hc]
  · simp only [h, if_false]
    cases cells[c']? <;> simp

theorem getElem?_of_mem_getC {cells : List (List Nat)} {c id : Nat} (h : id ∈ getC cells c) :
    c < cells.length ∧ cells[c]? = some (getC cells c) := by
  unfold getC at h ⊢
  rw [List.getD_eq_getElem?_getD] at h ⊢
  cases hc : cells[c]? with
  | none => rw [hc] at h; simp at h
  | some v =>
    refine ⟨?_, by simp⟩
    by_contra hlt
    rw [List.getElem?_eq_none (by omega)] at hc
    cases hc

/-- the cells hold exactly the identifiers in `S`, each once, in the cell its lookup entry names -/
structure CellsOK (cells : List (List Nat)) (lookup : List Nat) (S : Nat → Prop) : Prop where
  mem_iff : ∀ c id, id ∈ getC cells c ↔ (S id ∧ lookup[id]? = some c)
  nodup : ∀ c, (getC cells c).Nodup

theorem CellsOK.congr {cells lookup} {S S' : Nat → Prop} (h : CellsOK cells lookup S)
    (hS : ∀ id, S id ↔ S' id) : CellsOK cells lookup S' :=
  ⟨fun c id => by rw [h.mem_iff, hS], h.nodup⟩

/-- `self.grid[self.lookup[x]].remove(x)` on a consistent table -/
theorem cellsOK_removeId {cells lookup} {S : Nat → Prop} (h : CellsOK cells lookup S) {x c : Nat}
    (hx : S x) (hl : lookup[x]? = some c) :
    ∃ cells', removeId cells lookup x = some cells' ∧ cells'.length = cells.length ∧
      CellsOK cells' lookup (fun id => S id ∧ id ≠ x) := by
  have hmem : x ∈ getC cells c := (h.mem_iff c x).mpr ⟨hx, hl⟩
  obtain ⟨hc, hget⟩ := getElem?_of_mem_getC hmem
  refine ⟨cells.set c ((getC cells c).erase x), ?_, by simp, ?_, ?_⟩
  · simp [removeId, hl, hget, hmem]
  · intro c' id
    rw [getC_set _ _ hc]
    by_cases hcc : c = c'
    · subst hcc
      simp only [if_true]
      rw [(h.nodup c).mem_erase_iff, h.mem_iff]
      constructor
      · rintro ⟨hne, hs, hlk⟩; exact ⟨⟨hs, hne⟩, hlk⟩
      · rintro ⟨⟨hs, hne⟩, hlk⟩; exact ⟨hne, hs, hlk⟩
    · simp only [hcc, if_false]
      rw [h.mem_iff]
      constructor
      · rintro ⟨hs, hlk⟩
        refine ⟨⟨hs, ?_⟩, hlk⟩
        rintro rfl
        rw [hl] at hlk
        exact hcc (Option.some.inj hlk)
      · rintro ⟨⟨hs, _⟩, hlk⟩; exact ⟨hs, hlk⟩
  · intro c'
    rw [getC_set _ _ hc]
    split
    · exact (h.nodup c).erase x
    · exact h.nodup c'

/-- `self.grid[cx].append(x); self.lookup[x] = cx` on a consistent table -/
theorem cellsOK_add {cells lookup} {S : Nat → Prop} (h : CellsOK cells lookup S) {x cx : Nat}
    (hx : ¬ S x) (hxl : x < lookup.length) (hc : cx < cells.length) :
    CellsOK (cells.modify cx (· ++ [x])) (lookup.set x cx) (fun id => S id ∨ id = x) := by
  constructor
  · intro c id
    rw [getC_modify _ _ hc, List.getElem?_set]
    by_cases hid : x = id
    · subst hid
      simp only [hxl, if_true]
      by_cases hcc : cx = c
      · subst hcc; simp
      · simp only [hcc, if_false, h.mem_iff]
        constructor
        · rintro ⟨hs, _⟩; exact absurd hs hx
        · rintro ⟨_, hlk⟩; exact absurd (Option.some.inj hlk) hcc
    · simp only [hid, if_false]
      have hid' : id ≠ x := fun e => hid e.symm
      by_cases hcc : cx = c
      · subst hcc
        simp only [if_true, List.mem_append, List.mem_singleton, h.mem_iff, hid', or_false]
      · simp only [hcc, if_false, h.mem_iff, hid', or_false]
  · intro c
    rw [getC_modify _ _ hc]
    split
    · rename_i hcc
      subst hcc
      apply List.nodup_append.mpr
      refine ⟨h.nodup cx, by simp, ?_⟩
      intro a ha b hb
      simp at hb
      subst hb
      rintro rfl
      exact hx ((h.mem_iff cx a).mp ha).1
    · exact h.nodup c

/-- `Inv` only depends on which paths are live -/
theorem Inv.congr {g : Grid} {live live' : List Nat} (h : Inv g live) (hl : ∀ k, k ∈ live ↔ k ∈ live') :
    Inv g live' where
  bins_pos := h.bins_pos
  bx_pos := h.bx_pos
  by_pos := h.by_pos
  nverts := h.nverts
  ncells := h.ncells
  live_lt := fun k hk => h.live_lt k ((hl k).mpr hk)
  mem_iff := fun c id => by rw [h.mem_iff, hl]
  nodup := h.nodup
  lookup_eq := h.lookup_eq

theorem Inv.cellsOK {g : Grid} {live : List Nat} (h : Inv g live) :
    CellsOK g.cells g.lookup (fun id => ValidId g id ∧ pathOf g.n id ∈ live) :=
  ⟨fun c id => by rw [← cellAt_eq, h.mem_iff, and_assoc], fun c => h.nodup c⟩

/-- `remove_path(p)` for a path that is still present succeeds and re-establishes the invariant
for the remaining paths; nothing but the cells changes -/
theorem inv_remove {g : Grid} {live : List Nat} (h : Inv g live) {p : Nat} (hp : p ∈ live) :
    ∃ g', remove g p = some g' ∧ Inv g' (live.filter (· ≠ p)) ∧
      g'.toGeo = g.toGeo ∧ g'.rev = g.rev ∧ g'.n = g.n ∧ g'.verts = g.verts := by
  have hpn : p < g.n := h.live_lt p hp
  have hv1 : ValidId g p := Or.inl hpn
  have hp1 : pathOf g.n p = p := by simp [pathOf, hpn]
  obtain ⟨cells1, hr1, hlen1, hok1⟩ :=
    cellsOK_removeId h.cellsOK (x := p) ⟨hv1, by rw [hp1]; exact hp⟩ (h.lookup_eq p hv1)
  -- the set of identifiers that must remain
  have hfinal : ∀ id, (ValidId g id ∧ pathOf g.n id ∈ live.filter (· ≠ p)) ↔
      ((ValidId g id ∧ pathOf g.n id ∈ live) ∧ id ≠ p) ∧ (g.rev = true → id ≠ p + g.n) := by
    intro id
    simp only [List.mem_filter, decide_eq_true_eq, ne_eq]
    unfold pathOf ValidId
    constructor
    · rintro ⟨hv, hl, hne⟩
      refine ⟨⟨⟨hv, hl⟩, ?_⟩, ?_⟩
      · rintro rfl; simp [hpn] at hne
      · rintro _ rfl
        have : ¬ (p + g.n < g.n) := by omega
        simp [this] at hne
    · rintro ⟨⟨⟨hv, hl⟩, hne1⟩, hne2⟩
      refine ⟨hv, hl, ?_⟩
      by_cases hlt : id < g.n
      · simpa [hlt] using hne1
      · simp only [hlt, if_false]
        rcases hv with hv | ⟨hrev, h1, _⟩
        · exact absurd hv hlt
        · have := hne2 hrev
          omega
  cases hrev : g.rev with
  | false =>
    refine ⟨{ g with cells := cells1 }, ?_, ?_, rfl, hrev, rfl, rfl⟩
    · simp [remove, hpn, hr1, hrev]
    · have hok : CellsOK cells1 g.lookup (fun id => ValidId g id ∧ pathOf g.n id ∈ live.filter (· ≠ p)) :=
        hok1.congr (fun id => by rw [hfinal id]; simp [hrev])
      exact {
        bins_pos := h.bins_pos, bx_pos := h.bx_pos, by_pos := h.by_pos, nverts := h.nverts
        ncells := by show cells1.length = _; rw [hlen1]; exact h.ncells
        live_lt := fun k hk => h.live_lt k (List.mem_filter.mp hk).1
        mem_iff := fun c id => by
          show id ∈ getC cells1 c ↔ _
          rw [hok.mem_iff]; exact and_assoc
        nodup := fun c => hok.nodup c
        lookup_eq := h.lookup_eq }
  | true =>
    have hv2 : ValidId g (p + g.n) := Or.inr ⟨hrev, by omega, by omega⟩
    have hp2 : pathOf g.n (p + g.n) = p := by
      have : ¬ (p + g.n < g.n) := by omega
      simp [pathOf, this]
    obtain ⟨cells2, hr2, hlen2, hok2⟩ :=
      cellsOK_removeId hok1 (x := p + g.n) ⟨⟨hv2, by rw [hp2]; exact hp⟩, by omega⟩ (h.lookup_eq _ hv2)
    refine ⟨{ g with cells := cells2 }, ?_, ?_, rfl, hrev, rfl, rfl⟩
    · simp [remove, hpn, hr1, hrev, hr2]
    · have hok : CellsOK cells2 g.lookup (fun id => ValidId g id ∧ pathOf g.n id ∈ live.filter (· ≠ p)) :=
        hok2.congr (fun id => by rw [hfinal id]; simp [hrev])
      exact {
        bins_pos := h.bins_pos, bx_pos := h.bx_pos, by_pos := h.by_pos, nverts := h.nverts
        ncells := by show cells2.length = _; rw [hlen2, hlen1]; exact h.ncells
        live_lt := fun k hk => h.live_lt k (List.mem_filter.mp hk).1
        mem_iff := fun c id => by
          show id ∈ getC cells2 c ↔ _
          rw [hok.mem_iff]; exact and_assoc
        nodup := fun c => hok.nodup c
        lookup_eq := h.lookup_eq }

/-- every sequence of removals of distinct paths that are present -/
theorem inv_removeAll (ps : List Nat) : ∀ {g : Grid} {live : List Nat}, Inv g live → ps.Nodup →
    (∀ p ∈ ps, p ∈ live) →
    ∃ g', removeAll g ps = some g' ∧ Inv g' (live.filter (fun k => k ∉ ps)) ∧
      g'.toGeo = g.toGeo ∧ g'.rev = g.rev ∧ g'.n = g.n ∧ g'.verts = g.verts := by
  induction ps with
  | nil =>
    intro g live h _ _
    exact ⟨g, rfl, h.congr (fun k => by simp), rfl, rfl, rfl, rfl⟩
  | cons p ps ih =>
    intro g live h hnd hsub
    obtain ⟨hpn, hnd'⟩ := List.nodup_cons.mp hnd
    obtain ⟨g1, hr, hinv1, e1, e2, e3, e4⟩ := inv_remove h (hsub p (by simp))
    have hsub' : ∀ p' ∈ ps, p' ∈ live.filter (· ≠ p) := by
      intro p' hp'
      rw [List.mem_filter]
      refine ⟨hsub p' (by simp [hp']), ?_⟩
      simp only [ne_eq, decide_eq_true_eq]
      rintro rfl
      exact hpn hp'
    obtain ⟨g', hr', hinv', f1, f2, f3, f4⟩ := ih hinv1 hnd' hsub'
    refine ⟨g', by simp [removeAll, hr, hr'], hinv'.congr ?_, f1.trans e1, f2.trans e2, f3.trans e3, f4.trans e4⟩
    intro k
    simp only [List.mem_filter, List.mem_cons, decide_eq_true_eq, ne_eq, not_or]
    constructor
    · rintro ⟨⟨a, b⟩, c⟩; exact ⟨a, b, c⟩
    · rintro ⟨a, b, c⟩; exact ⟨⟨a, b⟩, c⟩

end C13
end Plotink
