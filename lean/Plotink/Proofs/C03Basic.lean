import Plotink.Model.C03
import Mathlib.Tactic.Linarith
import Mathlib.Tactic.Ring
import Mathlib.Tactic.NormNum
/-! # C03 — layer 1 and 2: the firmware recurrence in closed form, steps taken, first tick -/
namespace Plotink
namespace C03
open Fw

theorem lt_fst (accel : Int) (k : Nat) (s : Int × Int) : (lt accel k s).1 = s.1 + k * accel := by
  induction k with
  | zero => simp [lt]
  | succ k ih => simp only [lt, ih]; push_cast; ring

theorem lt_snd_succ (accel : Int) (k : Nat) (s : Int × Int) :
    (lt accel (k + 1) s).2 = (lt accel k s).2 + (lt accel (k + 1) s).1 := by
  simp [lt]

/-- rate added at tick `k` -/
theorem ltRate_eq (rate accel : Int) (k : Nat) :
    ltRate rate accel k = rate - tdiv accel 2 + k * accel := by
  unfold ltRate; rw [lt_fst]

theorem ltTotal_zero (rate accel a0 : Int) : ltTotal rate accel 0 a0 = a0 := by
  simp [ltTotal, lt]

theorem ltTotal_succ (rate accel a0 : Int) (k : Nat) :
    ltTotal rate accel (k + 1) a0 = ltTotal rate accel k a0 + ltRate rate accel (k + 1) := by
  unfold ltTotal ltRate
  rw [lt_snd_succ, lt_fst, lt_fst]

/-- closed form of the total: `2·tot_T = 2·a0 + k·T + accel·T²` with `k = 2·rate + accel − 2·tdiv accel 2` -/
theorem ltTotal_two (rate accel a0 : Int) (T : Nat) :
    2 * ltTotal rate accel T a0 = 2 * a0 + kk rate accel * T + accel * T * T := by
  induction T with
  | zero => simp [ltTotal_zero]
  | succ T ih =>
    rw [ltTotal_succ, ltRate_eq]; unfold kk at *; push_cast; linarith

theorem ltPos_zero (rate accel a0 : Int) : ltPos rate accel a0 0 = a0 / two31 := by
  simp [ltPos, ltTotal_zero]

theorem ltTaken_succ (rate accel a0 : Int) (k : Nat) :
    ltTaken rate accel a0 (k + 1) = ltTaken rate accel a0 k +
      ((ltPos rate accel a0 (k + 1) - ltPos rate accel a0 k).natAbs : Int) := rfl

theorem ltTaken_zero (rate accel a0 : Int) : ltTaken rate accel a0 0 = 0 := rfl

theorem ltTaken_le_succ (rate accel a0 : Int) (k : Nat) :
    ltTaken rate accel a0 k ≤ ltTaken rate accel a0 (k + 1) := by
  rw [ltTaken_succ]; omega

/-- layer 1: the number of steps taken never decreases -/
theorem ltTaken_mono (rate accel a0 : Int) {s t : Nat} (h : s ≤ t) :
    ltTaken rate accel a0 s ≤ ltTaken rate accel a0 t := by
  induction t with
  | zero => have : s = 0 := by omega
            subst this; exact le_refl _
  | succ t ih =>
    rcases Nat.lt_or_ge s (t + 1) with h1 | h1
    · exact le_trans (ih (by omega)) (ltTaken_le_succ ..)
    · have : s = t + 1 := by omega
      subst this; exact le_refl _

theorem ltTaken_nonneg (rate accel a0 : Int) (t : Nat) : 0 ≤ ltTaken rate accel a0 t := by
  have := ltTaken_mono rate accel a0 (Nat.zero_le t)
  simpa [ltTaken_zero] using this

/-- position moves with the sign of the rate -/
theorem ltPos_succ_ge (rate accel a0 : Int) (k : Nat) (h : 0 ≤ ltRate rate accel (k + 1)) :
    ltPos rate accel a0 k ≤ ltPos rate accel a0 (k + 1) := by
  unfold ltPos; rw [ltTotal_succ]
  apply Int.ediv_le_ediv (by decide) ; omega

theorem ltPos_succ_le (rate accel a0 : Int) (k : Nat) (h : ltRate rate accel (k + 1) ≤ 0) :
    ltPos rate accel a0 (k + 1) ≤ ltPos rate accel a0 k := by
  unfold ltPos; rw [ltTotal_succ]
  apply Int.ediv_le_ediv (by decide) ; omega

/-- layer 2 (monotone piece, upward): while the rates are non-negative the steps taken are the net advance -/
theorem ltTaken_up (rate accel a0 : Int) (s : Nat) :
    ∀ t : Nat, s ≤ t → (∀ k : Nat, s < k → k ≤ t → 0 ≤ ltRate rate accel k) →
      ltTaken rate accel a0 t = ltTaken rate accel a0 s + (ltPos rate accel a0 t - ltPos rate accel a0 s) := by
  intro t
  induction t with
  | zero => intro h _; have : s = 0 := by omega
            subst this; simp
  | succ t ih =>
    intro h hr
    rcases Nat.lt_or_ge s (t + 1) with h1 | h1
    · have := ih (by omega) (fun k hk hk' => hr k hk (by omega))
      have hp := ltPos_succ_ge rate accel a0 t (hr (t + 1) (by omega) (le_refl _))
      rw [ltTaken_succ, this]; omega
    · have : s = t + 1 := by omega
      subst this; simp

/-- layer 2 (monotone piece, downward) -/
theorem ltTaken_down (rate accel a0 : Int) (s : Nat) :
    ∀ t : Nat, s ≤ t → (∀ k : Nat, s < k → k ≤ t → ltRate rate accel k ≤ 0) →
      ltTaken rate accel a0 t = ltTaken rate accel a0 s + (ltPos rate accel a0 s - ltPos rate accel a0 t) := by
  intro t
  induction t with
  | zero => intro h _; have : s = 0 := by omega
            subst this; simp
  | succ t ih =>
    intro h hr
    rcases Nat.lt_or_ge s (t + 1) with h1 | h1
    · have := ih (by omega) (fun k hk hk' => hr k hk (by omega))
      have hp := ltPos_succ_le rate accel a0 t (hr (t + 1) (by omega) (le_refl _))
      rw [ltTaken_succ, this]; omega
    · have : s = t + 1 := by omega
      subst this; simp

/-- with every rate within `±(2^31 − 1)` at most one step is made per tick -/
theorem ltTaken_succ_le_one (rate accel a0 : Int) (k : Nat)
    (h : -(two31 - 1) ≤ ltRate rate accel (k + 1) ∧ ltRate rate accel (k + 1) ≤ two31 - 1) :
    ltTaken rate accel a0 (k + 1) ≤ ltTaken rate accel a0 k + 1 := by
  rw [ltTaken_succ]
  unfold ltPos; rw [ltTotal_succ]
  unfold two31 at *
  omega

/-- `t` is the first tick at which the budget `n` is exhausted -/
def IsFirst (rate accel a0 n : Int) (t : Nat) : Prop :=
  1 ≤ t ∧ n ≤ ltTaken rate accel a0 t ∧ ∀ s : Nat, s < t → ltTaken rate accel a0 s < n

/-- layer 1: first tick ⇔ reached now, not reached one tick earlier -/
theorem isFirst_iff (rate accel a0 n : Int) (t : Nat) :
    IsFirst rate accel a0 n t ↔
      (1 ≤ t ∧ n ≤ ltTaken rate accel a0 t ∧ ltTaken rate accel a0 (t - 1) < n) := by
  unfold IsFirst
  constructor
  · rintro ⟨h1, h2, h3⟩; exact ⟨h1, h2, h3 (t - 1) (by omega)⟩
  · rintro ⟨h1, h2, h3⟩
    refine ⟨h1, h2, fun s hs => ?_⟩
    exact lt_of_le_of_lt (ltTaken_mono rate accel a0 (by omega : s ≤ t - 1)) h3

theorem isFirst_unique (rate accel a0 n : Int) {t t' : Nat}
    (h : IsFirst rate accel a0 n t) (h' : IsFirst rate accel a0 n t') : t = t' := by
  rcases Nat.lt_trichotomy t t' with h1 | h1 | h1
  · have := h'.2.2 t h1; have := h.2.1; omega
  · exact h1
  · have := h.2.2 t' h1; have := h'.2.1; omega

/-- the executable search of the Spec finds exactly the first tick -/
theorem lmFirstTick_eq_some_iff (rate accel a0 n : Int) (hn : 1 ≤ n) (fuel t : Nat) :
    lmFirstTick rate accel a0 n fuel = some t ↔ (IsFirst rate accel a0 n t ∧ t ≤ fuel) := by
  unfold lmFirstTick IsFirst
  rw [List.find?_range'_eq_some]
  simp only [decide_eq_true_eq, ge_iff_le, List.mem_range'_1, Bool.not_eq_eq_eq_not, Bool.not_true,
    decide_eq_false_iff_not, not_le]
  constructor
  · rintro ⟨h1, ⟨h2, h3⟩, h4⟩
    refine ⟨⟨h2, h1, fun s hs => ?_⟩, by omega⟩
    rcases Nat.eq_zero_or_pos s with h0 | h0
    · subst h0; rw [ltTaken_zero]; omega
    · exact h4 s h0 hs
  · rintro ⟨⟨h1, h2, h3⟩, h4⟩
    exact ⟨h2, ⟨h1, by omega⟩, fun j _ hj => h3 j hj⟩

end C03
end Plotink
