import Plotink.Proofs.C16Methods
/-! C16 helper lemmas, part 4: the specification side and the refinement of each operation. -/
namespace Plotink.C16

theorem setBytes_length (vars : List Nat) (n : Nat) (v : Int) : (Spec.setBytes vars n v).length = vars.length := by
  simp [Spec.setBytes]

theorem setBytes_in {vars : List Nat} {n : Nat} (v : Int) (h : n + 3 < vars.length) {k : Nat} (hk : k < 4) :
    (Spec.setBytes vars n v)[n + k]? = some (Spec.beByte v k) := by
  have : k = 0 ∨ k = 1 ∨ k = 2 ∨ k = 3 := by omega
  unfold Spec.setBytes
  rcases this with rfl | rfl | rfl | rfl <;> simp [List.getElem?_set] <;> omega

theorem setBytes_out {vars : List Nat} {n : Nat} (v : Int) {j : Nat} (hj : j < n ∨ n + 4 ≤ j) :
    (Spec.setBytes vars n v)[j]? = vars[j]? := by
  unfold Spec.setBytes
  simp only [List.getElem?_set]
  repeat' split
  all_goals first | rfl | omega

theorem decode_beByte {v : Int} (hv : IsInt32 v) :
    Spec.decode32 (Spec.beByte v 0) (Spec.beByte v 1) (Spec.beByte v 2) (Spec.beByte v 3) = v := by
  unfold Spec.decode32 Spec.beByte
  have := hv.1; have := hv.2
  simp only [Nat.sub_zero, Nat.reduceSub, Int.reducePow, Int.pow_zero, Int.pow_one]
  split <;> omega

theorem mem_setBytes {vars : List Nat} {n : Nat} {v : Int} {x : Nat} (h : x ∈ Spec.setBytes vars n v) :
    x ∈ vars ∨ x ≤ 255 := by
  unfold Spec.setBytes at h
  rcases List.mem_or_eq_of_mem_set h with h | rfl
  · rcases List.mem_or_eq_of_mem_set h with h | rfl
    · rcases List.mem_or_eq_of_mem_set h with h | rfl
      · rcases List.mem_or_eq_of_mem_set h with h | rfl
        · exact Or.inl h
        · exact Or.inr (beByte_le _ _)
      · exact Or.inr (beByte_le _ _)
    · exact Or.inr (beByte_le _ _)
  · exact Or.inr (beByte_le _ _)



theorem noEdge_of_strip_eq {s : Str} (h : strip s = s) : NoEdge s := h ▸ noEdge_strip s

theorem wf_vars {b : Board} (hwf : b.WF) (vars : List Nat) (hl : vars.length = b.vars.length)
    (hb : ∀ x ∈ vars, x ∈ b.vars ∨ x ≤ 255) : ({ b with vars := vars } : Board).WF :=
  ⟨by simp [hl, hwf.len], fun x hx => by
    rcases hb x hx with h | h
    · exact hwf.byte x h
    · show x < 256
      omega, hwf.mode⟩

theorem getD_of_lt {l : List Nat} {n : Nat} (h : n < l.length) : l[n]? = some (l.getD n 0) := by
  simp [List.getD_eq_getElem?_getD, List.getElem?_eq_getElem h]

theorem getD_byte {b : Board} (hwf : b.WF) (n : Nat) : b.vars.getD n 0 ≤ 255 := by
  by_cases h : n < b.vars.length
  · have := hwf.byte (b.vars.getD n 0) (List.mem_of_getElem? (getD_of_lt h))
    omega
  · simp [List.getD_eq_getElem?_getD, List.getElem?_eq_none (by omega : b.vars.length ≤ n)]

theorem runOp_refines (w : World) (hinv : Inv w) (op : Op) (hop : OpOK op) :
    ∃ w', runOp w op = .ok ((Spec.step ⟨w.board, w.py.name⟩ op).1, w') ∧
      (⟨w'.board, w'.py.name⟩ : Spec.Abs) = (Spec.step ⟨w.board, w.py.name⟩ op).2 ∧ Inv w' := by
  obtain ⟨hr, hwf, herr⟩ := hinv
  cases op with
  | varWrite v i =>
    obtain ⟨hv, hi⟩ := hop
    have hl : i.toNat < w.board.vars.length := by rw [hwf.len]; omega
    refine ⟨_, var_write_int hr.1 hr.2 hv hi hl, rfl, hr, ?_, herr⟩
    apply wf_vars hwf _ (by simp)
    intro x hx
    rcases List.mem_or_eq_of_mem_set hx with h | rfl
    · exact Or.inl h
    · right; omega
  | varRead i =>
    have hl : i.toNat < w.board.vars.length := by rw [hwf.len]; have := hop.2; omega
    exact ⟨_, var_read_int hr.1 hr.2 hop (getD_of_lt hl), rfl, hr, hwf, herr⟩
  | writeInt32 v i =>
    obtain ⟨hv, hi⟩ := hop
    obtain ⟨s, hs⟩ := var_write_int32_ok hr.1 hr.2 hwf.len hv hi
    refine ⟨_, hs, rfl, hr, ?_, herr⟩
    exact wf_vars hwf _ (setBytes_length _ _ _) (fun x hx => mem_setBytes hx)
  | readInt32 i =>
    have hl : i.toNat + 3 < w.board.vars.length := by rw [hwf.len]; have := hop.2; omega
    obtain ⟨s, hs⟩ := var_read_int32_ok hr.1 hr.2 hop (getD_of_lt (by omega)) (getD_of_lt (by omega))
      (getD_of_lt (by omega)) (getD_of_lt hl) (getD_byte hwf _) (getD_byte hwf _) (getD_byte hwf _) (getD_byte hwf _)
    exact ⟨_, hs, rfl, hr, hwf, herr⟩
  | motorsEnable r1 r2 =>
    obtain ⟨s, hs⟩ := motors_enable_clamped hr.1 hr.2 hwf.mode r1 r2
    refine ⟨_, hs, rfl, hr, ⟨hwf.len, hwf.byte, ?_⟩, herr⟩
    have c1 := clamp_range r1
    have c2 := clamp_range r2
    have := hwf.mode
    simp only [meBoard]
    split
    · omega
    · split <;> omega
  | motorsQuery =>
    have := mqe_ok hr.1 hr.2 hwf.mode
    refine ⟨⟨w.py, w.board, cQE :: w.sent⟩, ?_, rfl, hr, hwf, herr⟩
    simp only [runOp, this, bind, Except.bind]
    rfl
  | writeNick s =>
    refine ⟨_, write_nickname_ok hr.1 hr.2 hop.1, rfl, hr, ⟨hwf.len, hwf.byte, hwf.mode⟩, hop.2.2⟩
  | queryNick =>
    exact ⟨_, query_nickname_gen hr.1 hr.2 herr, rfl, hr, hwf, herr⟩



theorem runOps_refines (ops : List Op) (w : World) (hinv : Inv w) (hops : ∀ op ∈ ops, OpOK op) :
    ∃ w', runOps w ops = .ok ((Spec.steps ⟨w.board, w.py.name⟩ ops).1, w') ∧
      (⟨w'.board, w'.py.name⟩ : Spec.Abs) = (Spec.steps ⟨w.board, w.py.name⟩ ops).2 ∧ Inv w' := by
  induction ops generalizing w with
  | nil => exact ⟨w, rfl, rfl, hinv⟩
  | cons op rest ih =>
    obtain ⟨w1, h1, e1, i1⟩ := runOp_refines w hinv op (hops op List.mem_cons_self)
    obtain ⟨w2, h2, e2, i2⟩ := ih w1 i1 (fun o ho => hops o (List.mem_cons_of_mem _ ho))
    refine ⟨w2, ?_, ?_, i2⟩
    · simp only [runOps, h1, h2, bind, Except.bind, Spec.steps]
      rw [← e1]
    · simp only [Spec.steps]
      rw [← e1]; exact e2

theorem spec_step_frame (s : Spec.Abs) {op : Op} {n : Nat} (hd : Disjoint n op) {k : Nat} (hk : k < 4) :
    (Spec.step s op).2.board.vars[n + k]? = s.board.vars[n + k]? := by
  cases op with
  | varWrite v j =>
    have : j.toNat ≠ n + k := by have := hd; simp only [Disjoint] at this; omega
    simp [Spec.step, List.getElem?_set_ne this]
  | writeInt32 v j =>
    have : n + k < j.toNat ∨ j.toNat + 4 ≤ n + k := by have := hd; simp only [Disjoint] at this; omega
    simp only [Spec.step]
    exact setBytes_out v this
  | _ => rfl

theorem spec_steps_frame (ops : List Op) (s : Spec.Abs) {n : Nat} (hd : ∀ op ∈ ops, Disjoint n op) {k : Nat}
    (hk : k < 4) : (Spec.steps s ops).2.board.vars[n + k]? = s.board.vars[n + k]? := by
  induction ops generalizing s with
  | nil => rfl
  | cons op rest ih =>
    simp only [Spec.steps]
    rw [ih _ (fun o ho => hd o (List.mem_cons_of_mem _ ho)), spec_step_frame s (hd op List.mem_cons_self) hk]

theorem spec_steps_append (a b : List Op) (s : Spec.Abs) :
    Spec.steps s (a ++ b) =
      ((Spec.steps s a).1 ++ (Spec.steps (Spec.steps s a).2 b).1, (Spec.steps (Spec.steps s a).2 b).2) := by
  induction a generalizing s with
  | nil => simp [Spec.steps]
  | cons op rest ih => simp [Spec.steps, ih]



/-- a concrete ready world (power-on board) for the non-vacuity examples -/
def exampleWorld : World :=
  ⟨⟨true, false, none⟩, ⟨List.replicate 32 0, [], false, false, 1, true⟩, []⟩

theorem exampleWorld_inv : Inv exampleWorld :=
  ⟨⟨rfl, rfl⟩, by decide, by decide⟩

end Plotink.C16
