import Plotink.Proofs.Ebb3GenFrame
import Plotink.Gen.EBB3_find_first
import Plotink.Gen.EBB3_record_error
import Plotink.Gen.EBB3__get_port_name
import Plotink.Gen.EBB3_disconnect
import Plotink.Gen.EBB3_bootload
import Plotink.Gen.EBB3_command
import Plotink.Gen.EBB3_parse_version
import Plotink.Gen.EBB3_min_version
import Plotink.Gen.EBB3_query
import Plotink.Gen.EBB3_query_nickname
import Plotink.Gen.EBB3_connect
import Plotink.Gen.EBB3_query_statusbyte
import Plotink.Gen.EBB3_reboot
import Plotink.Gen.EBB3_var_read
import Plotink.Gen.EBB3_var_read_int32
import Plotink.Gen.EBB3_var_write
import Plotink.Gen.EBB3_var_write_int32
import Plotink.Gen.EBB3_write_nickname
import Plotink.Gen.EBBMotionWrap_abs_move
import Plotink.Gen.EBBMotionWrap_clear_accumulators
import Plotink.Gen.EBBMotionWrap_clear_steps
import Plotink.Gen.EBBMotionWrap_dio_b_config
import Plotink.Gen.EBBMotionWrap_dio_b_read
import Plotink.Gen.EBBMotionWrap_dio_b_set
import Plotink.Gen.EBBMotionWrap_timed_pause
import Plotink.Gen.EBBMotionWrap_xy_move
import Plotink.Gen.EBBMotionWrap_motors_disable
import Plotink.Gen.EBBMotionWrap_motors_query_enabled
import Plotink.Gen.EBBMotionWrap_motors_enable
import Plotink.Gen.EBBMotionWrap_query_steps
import Plotink.Gen.EBBMotionWrap_pen_lower
import Plotink.Gen.EBBMotionWrap_pen_raise
import Plotink.Gen.EBBMotionWrap_pen_pos_down
import Plotink.Gen.EBBMotionWrap_pen_pos_up
import Plotink.Gen.EBBMotionWrap_pen_rate_down
import Plotink.Gen.EBBMotionWrap_pen_rate_up
import Plotink.Gen.EBBMotionWrap_servo_timeout
import Plotink.Gen.EBBMotionWrap_query_voltage
import Plotink.Gen.EBBMotionWrap_query_current

/-! # The frame property (`Ebb3GenFrame`) of every regenerated method of `EBB3` / `EBBMotionWrap`

One lemma per generated method, in call order; each unfolds the method's generated definitions (outermost first) and
walks the term with `fr_auto`, given the lemmas of the methods it calls. -/

namespace Plotink
namespace Ebb3Gen
open PyObj Gen
set_option linter.unusedVariables false

theorem fr_EBB3_find_first (fuel : Nat) : FrM (EBB3_find_first fuel) := by
  unfold EBB3_find_first
  apply FrM.run
  unfold EBB3_find_first_main
  unfold EBB3_find_first_if2
  unfold EBB3_find_first_for2
  unfold EBB3_find_first_fbody2
  unfold EBB3_find_first_if3
  unfold EBB3_find_first_for1
  unfold EBB3_find_first_fbody1
  unfold EBB3_find_first_if1
  unfold EBB3_find_first_handlers1
  unfold EBB3_find_first_try1
  fr_auto []

theorem fr_EBB3_record_error (fuel : Nat) (message : Val) : FrM (EBB3_record_error fuel message) := by
  unfold EBB3_record_error
  apply FrM.run
  unfold EBB3_record_error_main
  unfold EBB3_record_error_if1
  fr_auto []

theorem fr_EBB3__get_port_name (fuel : Nat) (given_name : Val) : FrM (EBB3__get_port_name fuel given_name) := by
  unfold EBB3__get_port_name
  apply FrM.run
  unfold EBB3__get_port_name_main
  unfold EBB3__get_port_name_if1
  unfold EBB3__get_port_name_if3
  unfold EBB3__get_port_name_if2
  fr_auto [fr_EBB3_find_first, fr_EBB3_record_error]

theorem fr_EBB3_disconnect (fuel : Nat) : FrM (EBB3_disconnect fuel) := by
  unfold EBB3_disconnect
  apply FrM.run
  unfold EBB3_disconnect_main
  unfold EBB3_disconnect_if1
  unfold EBB3_disconnect_handlers1
  unfold EBB3_disconnect_try1
  fr_auto []

theorem fr_EBB3_bootload (fuel : Nat) : FrM (EBB3_bootload fuel) := by
  unfold EBB3_bootload
  apply FrM.run
  unfold EBB3_bootload_main
  unfold EBB3_bootload_handlers1
  unfold EBB3_bootload_try1
  unfold EBB3_bootload_if1
  fr_auto [fr_EBB3_disconnect]

theorem fr_EBB3_command (fuel : Nat) (cmd : Val) : FrM (EBB3_command fuel cmd) := by
  unfold EBB3_command
  apply FrM.run
  unfold EBB3_command_main
  unfold EBB3_command_if7
  unfold EBB3_command_handlers1
  unfold EBB3_command_try1
  unfold EBB3_command_if6
  unfold EBB3_command_if4
  unfold EBB3_command_if5
  unfold EBB3_command_loop1
  unfold EBB3_command_body1
  unfold EBB3_command_test1
  unfold EBB3_command_if2
  unfold EBB3_command_if3
  unfold EBB3_command_if1
  fr_auto [fr_EBB3_record_error]

theorem fr_EBB3_parse_version (fuel : Nat) (ebb_version_string : Val) : FrM (EBB3_parse_version fuel ebb_version_string) := by
  unfold EBB3_parse_version
  apply FrM.run
  unfold EBB3_parse_version_main
  unfold EBB3_parse_version_if1
  fr_auto []

theorem fr_EBB3_min_version (fuel : Nat) (version_string : Val) : FrM (EBB3_min_version fuel version_string) := by
  unfold EBB3_min_version
  apply FrM.run
  unfold EBB3_min_version_main
  unfold EBB3_min_version_if1
  unfold EBB3_min_version_handlers1
  unfold EBB3_min_version_try1
  fr_auto []

theorem fr_EBB3_query (fuel : Nat) (qry : Val) : FrM (EBB3_query fuel qry) := by
  unfold EBB3_query
  apply FrM.run
  unfold EBB3_query_main
  unfold EBB3_query_if7
  unfold EBB3_query_if8
  unfold EBB3_query_if5
  unfold EBB3_query_if6
  unfold EBB3_query_handlers1
  unfold EBB3_query_try1
  unfold EBB3_query_if4
  unfold EBB3_query_loop1
  unfold EBB3_query_body1
  unfold EBB3_query_test1
  unfold EBB3_query_if2
  unfold EBB3_query_if3
  unfold EBB3_query_if1
  fr_auto [fr_EBB3_record_error]

theorem fr_EBB3_query_nickname (fuel : Nat) : FrM (EBB3_query_nickname fuel) := by
  unfold EBB3_query_nickname
  apply FrM.run
  unfold EBB3_query_nickname_main
  unfold EBB3_query_nickname_if2
  unfold EBB3_query_nickname_if3
  unfold EBB3_query_nickname_if1
  fr_auto [fr_EBB3_query]

theorem fr_EBB3_connect (fuel : Nat) (given_name : Val) (caller : Val) : FrM (EBB3_connect fuel given_name caller) := by
  unfold EBB3_connect
  apply FrM.run
  unfold EBB3_connect_main
  unfold EBB3_connect_if10
  unfold EBB3_connect_if9
  unfold EBB3_connect_if8
  unfold EBB3_connect_handlers1
  unfold EBB3_connect_try1
  unfold EBB3_connect_if5
  unfold EBB3_connect_if6
  unfold EBB3_connect_if7
  unfold EBB3_connect_if3
  unfold EBB3_connect_if4
  unfold EBB3_connect_if2
  unfold EBB3_connect_if1
  fr_auto [fr_EBB3__get_port_name, fr_EBB3_record_error, fr_EBB3_disconnect, fr_EBB3_parse_version, fr_EBB3_min_version, fr_EBB3_query_nickname]

theorem fr_EBB3_query_statusbyte (fuel : Nat) : FrM (EBB3_query_statusbyte fuel) := by
  unfold EBB3_query_statusbyte
  apply FrM.run
  unfold EBB3_query_statusbyte_main
  unfold EBB3_query_statusbyte_handlers2
  unfold EBB3_query_statusbyte_try2
  unfold EBB3_query_statusbyte_if4
  unfold EBB3_query_statusbyte_handlers1
  unfold EBB3_query_statusbyte_try1
  unfold EBB3_query_statusbyte_if2
  unfold EBB3_query_statusbyte_if3
  unfold EBB3_query_statusbyte_if1
  fr_auto [fr_EBB3_record_error]

theorem fr_EBB3_reboot (fuel : Nat) : FrM (EBB3_reboot fuel) := by
  unfold EBB3_reboot
  apply FrM.run
  unfold EBB3_reboot_main
  unfold EBB3_reboot_handlers1
  unfold EBB3_reboot_try1
  unfold EBB3_reboot_if1
  fr_auto [fr_EBB3_disconnect]

theorem fr_EBB3_var_read (fuel : Nat) (index : Val) : FrM (EBB3_var_read fuel index) := by
  unfold EBB3_var_read
  apply FrM.run
  unfold EBB3_var_read_main
  unfold EBB3_var_read_if2
  unfold EBB3_var_read_if1
  fr_auto [fr_EBB3_query]

theorem fr_EBB3_var_read_int32 (fuel : Nat) (start_index : Val) : FrM (EBB3_var_read_int32 fuel start_index) := by
  unfold EBB3_var_read_int32
  apply FrM.run
  unfold EBB3_var_read_int32_main
  unfold EBB3_var_read_int32_if2
  unfold EBB3_var_read_int32_for1
  unfold EBB3_var_read_int32_fbody1
  unfold EBB3_var_read_int32_if1
  fr_auto [fr_EBB3_var_read]

theorem fr_EBB3_var_write (fuel : Nat) (value : Val) (index : Val) : FrM (EBB3_var_write fuel value index) := by
  unfold EBB3_var_write
  apply FrM.run
  unfold EBB3_var_write_main
  unfold EBB3_var_write_if2
  unfold EBB3_var_write_if1
  fr_auto [fr_EBB3_command]

theorem fr_EBB3_var_write_int32 (fuel : Nat) (value : Val) (start_index : Val) : FrM (EBB3_var_write_int32 fuel value start_index) := by
  unfold EBB3_var_write_int32
  apply FrM.run
  unfold EBB3_var_write_int32_main
  unfold EBB3_var_write_int32_if2
  unfold EBB3_var_write_int32_for1
  unfold EBB3_var_write_int32_fbody1
  unfold EBB3_var_write_int32_if1
  fr_auto [fr_EBB3_var_write]

theorem fr_EBB3_write_nickname (fuel : Nat) (nickname : Val) : FrM (EBB3_write_nickname fuel nickname) := by
  unfold EBB3_write_nickname
  apply FrM.run
  unfold EBB3_write_nickname_main
  unfold EBB3_write_nickname_handlers1
  unfold EBB3_write_nickname_try1
  unfold EBB3_write_nickname_if3
  unfold EBB3_write_nickname_if2
  unfold EBB3_write_nickname_if1
  fr_auto [fr_EBB3_command]

theorem fr_EBBMotionWrap_abs_move (fuel : Nat) (rate : Val) (position1 : Val) (position2 : Val) : FrM (EBBMotionWrap_abs_move fuel rate position1 position2) := by
  unfold EBBMotionWrap_abs_move
  apply FrM.run
  unfold EBBMotionWrap_abs_move_main
  unfold EBBMotionWrap_abs_move_if2
  unfold EBBMotionWrap_abs_move_if1
  fr_auto [fr_EBB3_command]

theorem fr_EBBMotionWrap_clear_accumulators (fuel : Nat) : FrM (EBBMotionWrap_clear_accumulators fuel) := by
  unfold EBBMotionWrap_clear_accumulators
  apply FrM.run
  unfold EBBMotionWrap_clear_accumulators_main
  unfold EBBMotionWrap_clear_accumulators_if1
  fr_auto [fr_EBB3_command]

theorem fr_EBBMotionWrap_clear_steps (fuel : Nat) : FrM (EBBMotionWrap_clear_steps fuel) := by
  unfold EBBMotionWrap_clear_steps
  apply FrM.run
  unfold EBBMotionWrap_clear_steps_main
  unfold EBBMotionWrap_clear_steps_if1
  fr_auto [fr_EBB3_command]

theorem fr_EBBMotionWrap_dio_b_config (fuel : Nat) (pin : Val) (state : Val) (direction : Val) : FrM (EBBMotionWrap_dio_b_config fuel pin state direction) := by
  unfold EBBMotionWrap_dio_b_config
  apply FrM.run
  unfold EBBMotionWrap_dio_b_config_main
  unfold EBBMotionWrap_dio_b_config_if1
  fr_auto [fr_EBB3_command]

theorem fr_EBBMotionWrap_dio_b_read (fuel : Nat) (pin : Val) : FrM (EBBMotionWrap_dio_b_read fuel pin) := by
  unfold EBBMotionWrap_dio_b_read
  apply FrM.run
  unfold EBBMotionWrap_dio_b_read_main
  unfold EBBMotionWrap_dio_b_read_if2
  unfold EBBMotionWrap_dio_b_read_if1
  fr_auto [fr_EBB3_query]

theorem fr_EBBMotionWrap_dio_b_set (fuel : Nat) (pin : Val) (state : Val) : FrM (EBBMotionWrap_dio_b_set fuel pin state) := by
  unfold EBBMotionWrap_dio_b_set
  apply FrM.run
  unfold EBBMotionWrap_dio_b_set_main
  unfold EBBMotionWrap_dio_b_set_if1
  fr_auto [fr_EBB3_command]

theorem fr_EBBMotionWrap_timed_pause (fuel : Nat) (pause_time : Val) : FrM (EBBMotionWrap_timed_pause fuel pause_time) := by
  unfold EBBMotionWrap_timed_pause
  apply FrM.run
  unfold EBBMotionWrap_timed_pause_main
  unfold EBBMotionWrap_timed_pause_loop1
  unfold EBBMotionWrap_timed_pause_body1
  unfold EBBMotionWrap_timed_pause_test1
  unfold EBBMotionWrap_timed_pause_if2
  unfold EBBMotionWrap_timed_pause_if1
  fr_auto [fr_EBB3_command]

theorem fr_EBBMotionWrap_xy_move (fuel : Nat) (delta_x : Val) (delta_y : Val) (duration : Val) : FrM (EBBMotionWrap_xy_move fuel delta_x delta_y duration) := by
  unfold EBBMotionWrap_xy_move
  apply FrM.run
  unfold EBBMotionWrap_xy_move_main
  unfold EBBMotionWrap_xy_move_if1
  fr_auto [fr_EBB3_command]

theorem fr_EBBMotionWrap_motors_disable (fuel : Nat) : FrM (EBBMotionWrap_motors_disable fuel) := by
  unfold EBBMotionWrap_motors_disable
  apply FrM.run
  unfold EBBMotionWrap_motors_disable_main
  unfold EBBMotionWrap_motors_disable_if1
  fr_auto [fr_EBB3_command]

theorem fr_EBBMotionWrap_motors_query_enabled (fuel : Nat) : FrM (EBBMotionWrap_motors_query_enabled fuel) := by
  unfold EBBMotionWrap_motors_query_enabled
  apply FrM.run
  unfold EBBMotionWrap_motors_query_enabled_main
  unfold EBBMotionWrap_motors_query_enabled_if2
  unfold EBBMotionWrap_motors_query_enabled_if1
  fr_auto [fr_EBB3_query]

theorem fr_EBBMotionWrap_motors_enable (fuel : Nat) (resolution_1 : Val) (resolution_2 : Val) : FrM (EBBMotionWrap_motors_enable fuel resolution_1 resolution_2) := by
  unfold EBBMotionWrap_motors_enable
  apply FrM.run
  unfold EBBMotionWrap_motors_enable_main
  unfold EBBMotionWrap_motors_enable_if3
  unfold EBBMotionWrap_motors_enable_if7
  unfold EBBMotionWrap_motors_enable_if6
  unfold EBBMotionWrap_motors_enable_if5
  unfold EBBMotionWrap_motors_enable_if4
  unfold EBBMotionWrap_motors_enable_if2
  unfold EBBMotionWrap_motors_enable_if1
  fr_auto [fr_EBB3_command, fr_EBBMotionWrap_motors_query_enabled]

theorem fr_EBBMotionWrap_query_steps (fuel : Nat) : FrM (EBBMotionWrap_query_steps fuel) := by
  unfold EBBMotionWrap_query_steps
  apply FrM.run
  unfold EBBMotionWrap_query_steps_main
  unfold EBBMotionWrap_query_steps_if2
  unfold EBBMotionWrap_query_steps_if1
  fr_auto [fr_EBB3_query]

theorem fr_EBBMotionWrap_pen_lower (fuel : Nat) (pen_delay : Val) (pin : Val) : FrM (EBBMotionWrap_pen_lower fuel pen_delay pin) := by
  unfold EBBMotionWrap_pen_lower
  apply FrM.run
  unfold EBBMotionWrap_pen_lower_main
  unfold EBBMotionWrap_pen_lower_if2
  unfold EBBMotionWrap_pen_lower_if1
  fr_auto [fr_EBB3_command]

theorem fr_EBBMotionWrap_pen_raise (fuel : Nat) (pen_delay : Val) (pin : Val) : FrM (EBBMotionWrap_pen_raise fuel pen_delay pin) := by
  unfold EBBMotionWrap_pen_raise
  apply FrM.run
  unfold EBBMotionWrap_pen_raise_main
  unfold EBBMotionWrap_pen_raise_if2
  unfold EBBMotionWrap_pen_raise_if1
  fr_auto [fr_EBB3_command]

theorem fr_EBBMotionWrap_pen_pos_down (fuel : Nat) (servo_max : Val) : FrM (EBBMotionWrap_pen_pos_down fuel servo_max) := by
  unfold EBBMotionWrap_pen_pos_down
  apply FrM.run
  unfold EBBMotionWrap_pen_pos_down_main
  unfold EBBMotionWrap_pen_pos_down_if1
  fr_auto [fr_EBB3_command]

theorem fr_EBBMotionWrap_pen_pos_up (fuel : Nat) (servo_min : Val) : FrM (EBBMotionWrap_pen_pos_up fuel servo_min) := by
  unfold EBBMotionWrap_pen_pos_up
  apply FrM.run
  unfold EBBMotionWrap_pen_pos_up_main
  unfold EBBMotionWrap_pen_pos_up_if1
  fr_auto [fr_EBB3_command]

theorem fr_EBBMotionWrap_pen_rate_down (fuel : Nat) (pen_down_rate : Val) : FrM (EBBMotionWrap_pen_rate_down fuel pen_down_rate) := by
  unfold EBBMotionWrap_pen_rate_down
  apply FrM.run
  unfold EBBMotionWrap_pen_rate_down_main
  unfold EBBMotionWrap_pen_rate_down_if1
  fr_auto [fr_EBB3_command]

theorem fr_EBBMotionWrap_pen_rate_up (fuel : Nat) (pen_up_rate : Val) : FrM (EBBMotionWrap_pen_rate_up fuel pen_up_rate) := by
  unfold EBBMotionWrap_pen_rate_up
  apply FrM.run
  unfold EBBMotionWrap_pen_rate_up_main
  unfold EBBMotionWrap_pen_rate_up_if1
  fr_auto [fr_EBB3_command]

theorem fr_EBBMotionWrap_servo_timeout (fuel : Nat) (timeout_ms : Val) (state : Val) : FrM (EBBMotionWrap_servo_timeout fuel timeout_ms state) := by
  unfold EBBMotionWrap_servo_timeout
  apply FrM.run
  unfold EBBMotionWrap_servo_timeout_main
  unfold EBBMotionWrap_servo_timeout_if2
  unfold EBBMotionWrap_servo_timeout_if1
  fr_auto [fr_EBB3_command]

theorem fr_EBBMotionWrap_query_voltage (fuel : Nat) (threshold : Val) : FrM (EBBMotionWrap_query_voltage fuel threshold) := by
  unfold EBBMotionWrap_query_voltage
  apply FrM.run
  unfold EBBMotionWrap_query_voltage_main
  unfold EBBMotionWrap_query_voltage_if5
  unfold EBBMotionWrap_query_voltage_if4
  unfold EBBMotionWrap_query_voltage_if3
  unfold EBBMotionWrap_query_voltage_if2
  unfold EBBMotionWrap_query_voltage_if1
  fr_auto [fr_EBB3_query]

theorem fr_EBBMotionWrap_query_current (fuel : Nat) : FrM (EBBMotionWrap_query_current fuel) := by
  unfold EBBMotionWrap_query_current
  apply FrM.run
  unfold EBBMotionWrap_query_current_main
  unfold EBBMotionWrap_query_current_if3
  unfold EBBMotionWrap_query_current_if2
  unfold EBBMotionWrap_query_current_if1
  fr_auto [fr_EBB3_query]

end Ebb3Gen
end Plotink
