import Plotink.Proofs.C05Replay
set_option linter.unusedSimpArgs false
set_option linter.unusedVariables false
/-!
# The conforming device with a recorder, and the script it produces

`recDev (confDev reply)` is a conforming device that logs what it serves.  `confScript reply k ts` is the closed form
of what a conforming device produces for the texts `ts` (the first being its `k`-th request): for each text, the
empty reads and then the one reply line.  `confRecSound`: the primitives are sound on the recorded conforming device
with an invariant that, besides `ConfInv`, says that the log of served reads *is* `confScript` of the texts written so
far — every line produced has been read, by the exchange that caused it.  Core Lean only.
-/
namespace Plotink
namespace Ebb3
open M

variable (reply : Nat → Str → Nat × Str)

/-- what a conforming device answers to one text, as read outcomes -/
def confSeg (k : Nat) (t : Str) : List ReadEv :=
  List.replicate (reply k t).1 (ReadEv.line []) ++ [ReadEv.line (reply k t).2]

/-- the script a conforming device produces for the texts `ts`, the first being its `k`-th request -/
def confScript : Nat → List Str → List ReadEv
  | _, [] => []
  | k, t :: ts => confSeg reply k t ++ confScript (k + 1) ts

theorem confScript_append : ∀ (k : Nat) (ts : List Str) (t : Str),
    confScript reply k (ts ++ [t]) = confScript reply k ts ++ confSeg reply (k + ts.length) t
  | k, [], t => by simp [confScript]
  | k, a :: ts, t => by
    simp only [List.cons_append, confScript, List.length_cons, confScript_append (k + 1) ts t, List.append_assoc]
    have : k + 1 + ts.length = k + (ts.length + 1) := by omega
    rw [this]

/-- where the recording started -/
structure Base where
  k0 : Nat
  out0 : List Str
  rd0 : List ReadEv
  wr0 : List WriteEv

/-- between calls on the recorded conforming device: no error; while connected, nothing unread, and the log of served
reads is the conforming script of the texts written since the start (all writes succeeded) -/
def ConfInvR (b : Base) (w : World (Rec ConfSt)) : Prop :=
  w.st.err = Option.none ∧
  (w.st.port = true → w.dev.inner.queue = [] ∧ ∃ ts, w.out = b.out0 ++ ts ∧ w.dev.inner.count = b.k0 + ts.length ∧
    w.dev.rd = b.rd0 ++ confScript reply b.k0 ts ∧ w.dev.wr = b.wr0 ++ ts.map (fun _ => WriteEv.ok))

theorem readLoop_confR : ∀ (d n : Nat), d < n → ∀ (l : Str), (strip l).isEmpty = false →
    ∀ (st : St) (k : Nat) (rd : List ReadEv) (wr : List WriteEv) (out : List Str) (nr : Nat),
    readLoop (recDev (confDev reply)) n
        ⟨st, ⟨⟨List.replicate d (ReadEv.line []) ++ [ReadEv.line l], k⟩, rd, wr⟩, out, nr⟩ =
      (.ok (some (strip l)),
        ⟨st, ⟨⟨[], k⟩, rd ++ (List.replicate d (ReadEv.line []) ++ [ReadEv.line l]), wr⟩, out, nr + d + 1⟩)
  | 0, n + 1, _, l, hl, st, k, rd, wr, out, nr => by
    have hr : portRead (recDev (confDev reply)) ⟨st, ⟨⟨[ReadEv.line l], k⟩, rd, wr⟩, out, nr⟩ =
        (.ok (some l), ⟨st, ⟨⟨[], k⟩, rd ++ [ReadEv.line l], wr⟩, out, nr + 1⟩) := rfl
    simp only [List.replicate, List.nil_append]
    rw [readLoop, bind_ok hr]
    simp [hl]
  | d + 1, n + 1, hd, l, hl, st, k, rd, wr, out, nr => by
    have hr : portRead (recDev (confDev reply))
        ⟨st, ⟨⟨List.replicate (d + 1) (ReadEv.line []) ++ [ReadEv.line l], k⟩, rd, wr⟩, out, nr⟩ =
        (.ok (some []), ⟨st, ⟨⟨List.replicate d (ReadEv.line []) ++ [ReadEv.line l], k⟩, rd ++ [ReadEv.line []], wr⟩,
          out, nr + 1⟩) := rfl
    rw [readLoop, bind_ok hr]
    have he : (strip ([] : Str)).isEmpty = true := by decide
    simp only [he, if_true]
    rw [readLoop_confR d n (by omega) l hl st k (rd ++ [ReadEv.line []]) wr out (nr + 1)]
    have : nr + 1 + d + 1 = nr + (d + 1) + 1 := by omega
    rw [this]
    simp [List.replicate_succ, List.append_assoc]

/-- a write to, then the read loop on, the recorded conforming device whose queue is empty -/
theorem exchange_confR (retry : Nat) (req : Str) (st : St) (k : Nat) (rd : List ReadEv) (wr : List WriteEv)
    (out : List Str) (nr : Nat) (name : Str) (hne : name ≠ [])
    (hd : (reply k (req ++ ['\r'])).1 ≤ retry)
    (hp : startsWith name (strip (reply k (req ++ ['\r'])).2) = true) :
    exchange (recDev (confDev reply)) retry req ⟨st, ⟨⟨[], k⟩, rd, wr⟩, out, nr⟩ =
      (.ok (some (strip (reply k (req ++ ['\r'])).2)),
       ⟨st, ⟨⟨[], k + 1⟩, rd ++ confSeg reply k (req ++ ['\r']), wr ++ [WriteEv.ok]⟩, out ++ [req ++ ['\r']],
        nr + (reply k (req ++ ['\r'])).1 + 1⟩) := by
  have hw : portWrite (recDev (confDev reply)) (req ++ ['\r']) ⟨st, ⟨⟨[], k⟩, rd, wr⟩, out, nr⟩ =
      (.ok true, ⟨st, ⟨⟨List.replicate (reply k (req ++ ['\r'])).1 (ReadEv.line []) ++
        [ReadEv.line (reply k (req ++ ['\r'])).2], k + 1⟩, rd, wr ++ [WriteEv.ok]⟩, out ++ [req ++ ['\r']], nr⟩) := by
    simp [portWrite, confDev, recDev]
  unfold exchange
  rw [bind_ok hw]
  simp only [if_true]
  exact readLoop_confR reply _ (retry + 1) (by omega) _ (startsWith_nonempty hne hp) st (k + 1) rd _ _ nr

/-- the invariant after one more exchange -/
theorem confInvR_step (b : Base) (st : St) (hst : st.err = Option.none) (k : Nat) (rd : List ReadEv)
    (wr : List WriteEv) (out : List Str) (nr nr' : Nat) (t : Str)
    (h : ConfInvR reply b ⟨st, ⟨⟨[], k⟩, rd, wr⟩, out, nr⟩) (hp : st.port = true) :
    ConfInvR reply b ⟨st, ⟨⟨[], k + 1⟩, rd ++ confSeg reply k t, wr ++ [WriteEv.ok]⟩, out ++ [t], nr'⟩ := by
  obtain ⟨-, ts, h1, h2, h3, h4⟩ := h.2 hp
  simp only at h1 h2 h3 h4
  refine ⟨hst, fun _ => ⟨rfl, ts ++ [t], ?_, ?_, ?_, ?_⟩⟩
  · simp only [h1, List.append_assoc]
  · simp only [h2, List.length_append, List.length_cons, List.length_nil]; omega
  · simp only [h3, confScript_append, List.append_assoc, h2]
  · simp only [h4, List.map_append, List.map_cons, List.map_nil, List.append_assoc]

theorem confRecSound (P : Params) (hc : Conforming P reply) (b : Base) :
    Sound P (recDev (confDev reply)) (ConfInvR reply b) where
  congr := fun w f hf h => ⟨by rw [(hf w.st).1]; exact h.1, fun hp => h.2 (by rw [← (hf w.st).2]; exact hp)⟩
  cmd := by
    intro text w hnb hI hb
    obtain ⟨st, ⟨⟨queue, k⟩, rd, wr⟩, out, nr⟩ := w
    have hb' := blocked_false_iff.mp hb
    have hq : queue = [] := (hI.2 hb'.1).1
    subst hq
    obtain ⟨name, hn, hne⟩ := cmdName_ok_of_ne hnb
    obtain ⟨hd, -, -, hp, he, -⟩ := hc k (strip text) name (strip_idem text) hn
    have hx := exchange_confR reply P.retryCmd (strip text) st k rd wr out nr name hne hd hp
    have hinv := confInvR_step reply b st hb'.2 k rd wr out nr
      (nr + (reply k (strip text ++ ['\r'])).1 + 1) (strip text ++ ['\r']) hI hb'.1
    obtain ⟨p, e, v, vp, n, c, pn⟩ := st
    have herr : e = Option.none := hb'.2
    subst herr
    refine ⟨_, ?_, hinv, rfl⟩
    unfold commandCore
    simp only [hn]
    rw [bind_ok hx]
    simp [commandJudge, hp, he, bind_apply, errIsNone]
  qry := by
    intro q name w hn hI hb
    obtain ⟨st, ⟨⟨queue, k⟩, rd, wr⟩, out, nr⟩ := w
    have hb' := blocked_false_iff.mp hb
    have hq : queue = [] := (hI.2 hb'.1).1
    subst hq
    have hne := cmdName_ne hn
    obtain ⟨-, hd, -, hp, he, hgood⟩ := hc k (strip q) name (strip_idem q) hn
    have hx := exchange_confR reply P.retryQry (strip q) st k rd wr out nr name hne hd hp
    have hinv := confInvR_step reply b st hb'.2 k rd wr out nr
      (nr + (reply k (strip q ++ ['\r'])).1 + 1) (strip q ++ ['\r']) hI hb'.1
    refine ⟨.str (stripHeader name (strip (reply k (strip q ++ ['\r'])).2)), _, ?_, hinv, rfl,
      Or.inr ⟨_, rfl, ?_, hb'.2⟩⟩
    · unfold queryCore
      simp only [hn]
      rw [bind_ok hx]
      simp [queryJudge, hp, he]
    · by_cases hpn : name ∈ parsedNames
      · obtain ⟨payload, hpay, hg⟩ := hgood name hpn rfl
        rw [hpay, stripHeader_append]
        simpa [dropComma] using hg
      · exact goodPayload_of_not_parsed hpn _
  qg := by
    intro w hI hb
    obtain ⟨st, ⟨⟨queue, k⟩, rd, wr⟩, out, nr⟩ := w
    have hb' := blocked_false_iff.mp hb
    have hq : queue = [] := (hI.2 hb'.1).1
    subst hq
    have hn : cmdName "QG".toList = .ok "QG".toList := by rfl
    obtain ⟨-, -, hd0, hp, he, -⟩ := hc k "QG".toList "QG".toList (by rfl) hn
    have hd := hd0 rfl
    have e : "QG\r".toList = "QG".toList ++ ['\r'] := by rfl
    have hseg : confSeg reply k ("QG".toList ++ ['\r']) = [ReadEv.line (reply k ("QG".toList ++ ['\r'])).2] := by
      unfold confSeg
      rw [hd]
      rfl
    have hinv := confInvR_step reply b st hb'.2 k rd wr out nr (nr + 1) ("QG".toList ++ ['\r']) hI hb'.1
    rw [hseg] at hinv
    have hw : portWrite (recDev (confDev reply)) ("QG".toList ++ ['\r']) ⟨st, ⟨⟨[], k⟩, rd, wr⟩, out, nr⟩ =
        (.ok true, ⟨st, ⟨⟨[ReadEv.line (reply k ("QG".toList ++ ['\r'])).2], k + 1⟩, rd, wr ++ [WriteEv.ok]⟩,
          out ++ ["QG".toList ++ ['\r']], nr⟩) := by
      unfold portWrite confDev recDev
      simp only [hd]
      rfl
    have hr : portRead (recDev (confDev reply))
        ⟨st, ⟨⟨[ReadEv.line (reply k ("QG".toList ++ ['\r'])).2], k + 1⟩, rd, wr ++ [WriteEv.ok]⟩,
          out ++ ["QG".toList ++ ['\r']], nr⟩ =
        (.ok (some (reply k ("QG".toList ++ ['\r'])).2),
          ⟨st, ⟨⟨[], k + 1⟩, rd ++ [ReadEv.line (reply k ("QG".toList ++ ['\r'])).2], wr ++ [WriteEv.ok]⟩,
            out ++ ["QG".toList ++ ['\r']], nr + 1⟩) := rfl
    unfold queryStatusByteBody
    rw [e, bind_ok hw]
    simp only [if_true]
    rw [bind_ok hr]
    simp only
    obtain ⟨v, hv⟩ := qgJudge_accept _ hp he
      (⟨st, ⟨⟨[], k + 1⟩, rd ++ [ReadEv.line (reply k ("QG".toList ++ ['\r'])).2], wr ++ [WriteEv.ok]⟩,
        out ++ ["QG".toList ++ ['\r']], nr + 1⟩ : World (Rec ConfSt))
    exact ⟨v, _, hv, hinv⟩
  raw := by
    intro text w hI hb
    obtain ⟨st, ⟨⟨queue, k⟩, rd, wr⟩, out, nr⟩ := w
    have hb' := blocked_false_iff.mp hb
    refine ⟨.bool true, ⟨{ st with port := false },
      ((recDev (confDev reply)).write ⟨⟨queue, k⟩, rd, wr⟩ text).2, out ++ [text], nr⟩, ?_, ?_⟩
    · simp [rawCloseBody, portWrite, confDev, recDev, bind_apply, disconnectM]
    · exact ⟨hb'.2, fun h => by cases h⟩

/-! ## attribution on the recorded device, and on the script it produces -/

/-- attribution along a history on the recorded conforming device (as `C05_attribution`, with the stronger invariant) -/
theorem attribution_rec (P : Params) (hc : Conforming P reply) (b : Base) : ∀ (cs : List Call),
    (∀ c ∈ cs, c.method.isRequest = true ∧ c.InDomain) → ∀ (w : World (Rec ConfSt)), ConfInvR reply b w →
    ConfInvR reply b (finalWorld P (recDev (confDev reply)) cs w) ∧
    ∀ o ∈ runCalls P (recDev (confDev reply)) cs w, (∃ v, o.res = .ok v) ∧ ConfInvR reply b o.world
  | [], _, w, hw => ⟨hw, fun o ho => by simp [runCalls] at ho⟩
  | c :: cs, hcs, w, hw => by
    obtain ⟨v, w', hrun, hinv⟩ :=
      total_of_sound (confRecSound reply P hc b) c (hcs c (by simp)).1 (hcs c (by simp)).2 w hw
    have ih := attribution_rec P hc b cs (fun c' hc' => hcs c' (by simp [hc'])) w' hinv
    have hw' : (run P (recDev (confDev reply)) c w).2 = w' := by rw [hrun]
    refine ⟨?_, fun o ho => ?_⟩
    · show ConfInvR reply b (finalWorld P _ cs (run P _ c w).2)
      rw [hw']; exact ih.1
    · simp only [runCalls, List.mem_cons] at ho
      rcases ho with rfl | ho
      · exact ⟨⟨v, by simp [runCall, hrun]⟩, by simpa [runCall, hrun] using hinv⟩
      · have : (runCall P (recDev (confDev reply)) c w).world = w' := by simp [runCall, hrun]
        rw [this] at ho
        exact ih.2 o ho

/-- a recorded conforming device that has received `k0` requests and has nothing queued, with empty logs -/
def recStart (st0 : St) (k0 : Nat) (out0 : List Str) (nr0 : Nat) : World (Rec ConfSt) :=
  ⟨st0, ⟨⟨[], k0⟩, [], []⟩, out0, nr0⟩

/-- **the script a conforming device produces for the requests the history `cs` sends**: the outcomes the recorded
conforming device hands out while `cs` runs against it -/
def confTranscript (P : Params) (cs : List Call) (st0 : St) (k0 : Nat) (out0 : List Str) (nr0 : Nat) : Script :=
  ⟨(finalWorld P (recDev (confDev reply)) cs (recStart st0 k0 out0 nr0)).dev.rd,
   (finalWorld P (recDev (confDev reply)) cs (recStart st0 k0 out0 nr0)).dev.wr⟩

/-- **Attribution on scripts.**  Take any history `cs` of in-domain request calls, any error-free start attributes
and any conforming `reply`; let the script be what a conforming device produces for the requests this history sends
(`confTranscript`).  Then on `scriptDev` with that script:
* the history ends with exactly the attributes, texts written and read count of the run against the device, and the
  script is used up: not one outcome is left;
* if the port is still open at the end, the script *is* `confScript reply k0 ts` for the texts `ts` written (its
  writes all succeed) — the closed form;
* after every call: the call returned a value, no error is recorded, and (port open) what the calls so far have consumed
  from the script is exactly `confScript reply k0` of the texts they wrote — each reply was consumed by the request
  that caused it, and no line is left unread between calls: the rest of the script is the answers to the requests not
  yet sent;
* every call pairs with a call of the run against the recorded conforming device with the same result (`Paired`). -/
theorem script_attribution (P : Params) (hc : Conforming P reply) (cs : List Call)
    (hcs : ∀ c ∈ cs, c.method.isRequest = true ∧ c.InDomain) (st0 : St) (h0 : st0.err = Option.none)
    (k0 : Nat) (out0 : List Str) (nr0 : Nat) :
    finalWorld P scriptDev cs ⟨st0, confTranscript reply P cs st0 k0 out0 nr0, out0, nr0⟩
      = mkS (finalWorld P (recDev (confDev reply)) cs (recStart st0 k0 out0 nr0)) [] [] ∧
    ((finalWorld P (recDev (confDev reply)) cs (recStart st0 k0 out0 nr0)).st.port = true →
      ∃ ts, (finalWorld P (recDev (confDev reply)) cs (recStart st0 k0 out0 nr0)).out = out0 ++ ts ∧
        confTranscript reply P cs st0 k0 out0 nr0 = ⟨confScript reply k0 ts, ts.map (fun _ => WriteEv.ok)⟩) ∧
    ∀ o ∈ runCalls P scriptDev cs ⟨st0, confTranscript reply P cs st0 k0 out0 nr0, out0, nr0⟩,
      (∃ v, o.res = .ok v) ∧ o.world.st.err = Option.none ∧
      (o.world.st.port = true → ∃ ts, o.world.out = out0 ++ ts ∧
        confScript reply k0 ts ++ o.world.dev.reads = (confTranscript reply P cs st0 k0 out0 nr0).reads ∧
        ts.map (fun _ => WriteEv.ok) ++ o.world.dev.writes = (confTranscript reply P cs st0 k0 out0 nr0).writes) ∧
      ∃ od ∈ runCalls P (recDev (confDev reply)) cs (recStart st0 k0 out0 nr0),
        Paired (confTranscript reply P cs st0 k0 out0 nr0).reads (confTranscript reply P cs st0 k0 out0 nr0).writes
          o od := by
  have hstart : ConfInvR reply ⟨k0, out0, [], []⟩ (recStart st0 k0 out0 nr0) :=
    ⟨h0, fun _ => ⟨rfl, [], by simp [recStart], by simp [recStart], by simp [recStart, confScript],
      by simp [recStart]⟩⟩
  obtain ⟨hfin, hcalls⟩ := attribution_rec reply P hc ⟨k0, out0, [], []⟩ cs hcs _ hstart
  obtain ⟨dr, dw, h1, h2, h3⟩ := replay_hist P (confDev reply) cs (recStart st0 k0 out0 nr0)
  have hr0 : (recStart st0 k0 out0 nr0).dev.rd = [] := rfl
  have hw0 : (recStart st0 k0 out0 nr0).dev.wr = [] := rfl
  rw [hr0, List.nil_append] at h1
  rw [hw0, List.nil_append] at h2
  have hdr : dr = (confTranscript reply P cs st0 k0 out0 nr0).reads := h1.symm
  have hdw : dw = (confTranscript reply P cs st0 k0 out0 nr0).writes := h2.symm
  obtain ⟨f1, -, f3⟩ := h3 [] []
  have hws : mkS (recStart st0 k0 out0 nr0) (dr ++ []) (dw ++ [])
      = ⟨st0, confTranscript reply P cs st0 k0 out0 nr0, out0, nr0⟩ := by
    simp only [mkS, recStart, List.append_nil, hdr, hdw]
  rw [hws] at f1 f3
  refine ⟨f1, fun hp => ?_, fun o ho => ?_⟩
  · obtain ⟨-, ts, e1, -, e3, e4⟩ := hfin.2 hp
    refine ⟨ts, e1, ?_⟩
    simp only [confTranscript, e3, e4, List.nil_append]
  · obtain ⟨od, hod, hpair⟩ := f3 o ho
    obtain ⟨hok, hinv⟩ := hcalls od hod
    have hpair' := hpair
    obtain ⟨p1, -, -, p4, p5, -, p7, p8⟩ := hpair'
    have hT : (recStart st0 k0 out0 nr0).dev.rd ++ dr ++ [] = (confTranscript reply P cs st0 k0 out0 nr0).reads := by
      simp [recStart, hdr]
    have hTW : (recStart st0 k0 out0 nr0).dev.wr ++ dw ++ [] = (confTranscript reply P cs st0 k0 out0 nr0).writes := by
      simp [recStart, hdw]
    refine ⟨by rw [p1]; exact hok, by rw [p4]; exact hinv.1, fun hp => ?_, od, hod, ?_⟩
    · obtain ⟨-, ts, e1, -, e3, e4⟩ := hinv.2 (by rw [← p4]; exact hp)
      refine ⟨ts, by rw [p5]; exact e1, ?_, ?_⟩
      · rw [← hT, ← p7, e3]; simp
      · rw [← hTW, ← p8, e4]; simp
    · rw [← hT, ← hTW]
      exact hpair

end Ebb3
end Plotink
