import Plotink.Proofs.C13Adj
import Plotink.Proofs.C13Scan

/-! C13: what the two scanned lists of `nearest` contain, under the invariant. -/
namespace Plotink
namespace C13

theorem binClamp_range {bins : Nat} (hb : 0 < bins) (lo size x : Rat) :
    0 ≤ binClamp bins lo size x ∧ binClamp bins lo size x < bins := by
  unfold binClamp binHi
  omega

/-- column / row as natural numbers -/
def colN (G : Geo) (p : Pt) : Nat := (binClamp G.bins G.xmin G.bx p.1).toNat
def rowN (G : Geo) (p : Pt) : Nat := (binClamp G.bins G.ymin G.by_ p.2).toNat

theorem colN_lt {G : Geo} (hb : 0 < G.bins) (p : Pt) : colN G p < G.bins := by
  have := binClamp_range hb G.xmin G.bx p.1
  unfold colN; omega

theorem rowN_lt {G : Geo} (hb : 0 < G.bins) (p : Pt) : rowN G p < G.bins := by
  have := binClamp_range hb G.ymin G.by_ p.2
  unfold rowN; omega

theorem cellIdx_eq {G : Geo} (hb : 0 < G.bins) (p : Pt) : cellIdx G p = colN G p + rowN G p * G.bins := by
  have h1 := binClamp_range hb G.xmin G.bx p.1
  have h2 := binClamp_range hb G.ymin G.by_ p.2
  unfold cellIdx colN rowN
  generalize binClamp G.bins G.xmin G.bx p.1 = a at *
  generalize binClamp G.bins G.ymin G.by_ p.2 = b at *
  obtain ⟨a', rfl⟩ := Int.eq_ofNat_of_zero_le h1.1
  obtain ⟨b', rfl⟩ := Int.eq_ofNat_of_zero_le h2.1
  have : ((a' : Int) + (G.bins : Int) * (b' : Int)) = ((a' + b' * G.bins : Nat) : Int) := by
    rw [Int.mul_comm]; norm_cast
  rw [this]
  exact Int.toNat_natCast _

theorem cellIdx_lt {G : Geo} (hb : 0 < G.bins) (p : Pt) : cellIdx G p < G.bins * G.bins := by
  rw [cellIdx_eq hb]
  exact idx_lt (colN_lt hb p) (rowN_lt hb p)

theorem near_iff {G : Geo} (hb : 0 < G.bins) (q p : Pt) :
    Near (cellOf G q) (cellOf G p) ↔
      colN G p ≤ colN G q + 1 ∧ colN G q ≤ colN G p + 1 ∧ rowN G p ≤ rowN G q + 1 ∧ rowN G q ≤ rowN G p + 1 := by
  have h1 := binClamp_range hb G.xmin G.bx p.1
  have h2 := binClamp_range hb G.ymin G.by_ p.2
  have h3 := binClamp_range hb G.xmin G.bx q.1
  have h4 := binClamp_range hb G.ymin G.by_ q.2
  unfold Near cellOf colN rowN
  simp only []
  omega

theorem idx_inj {bins x y x' y' : Nat} (hx : x < bins) (hx' : x' < bins)
    (h : x + y * bins = x' + y' * bins) : x = x' ∧ y = y' := by
  have hpos : 0 < bins := by omega
  have e1 : (x + y * bins) % bins = x := by rw [Nat.add_mul_mod_self_right, Nat.mod_eq_of_lt hx]
  have e2 : (x' + y' * bins) % bins = x' := by rw [Nat.add_mul_mod_self_right, Nat.mod_eq_of_lt hx']
  have e3 : (x + y * bins) / bins = y := by
    rw [Nat.add_mul_div_right _ _ hpos, Nat.div_eq_of_lt hx, Nat.zero_add]
  have e4 : (x' + y' * bins) / bins = y' := by
    rw [Nat.add_mul_div_right _ _ hpos, Nat.div_eq_of_lt hx', Nat.zero_add]
  rw [h] at e1 e3
  exact ⟨by rw [← e1, e2], by rw [← e3, e4]⟩

/-- the cells scanned first are exactly the cells whose column and row differ by at most one -/
theorem mem_nbCells_iff {g : Grid} (hb : 0 < g.bins) (q p : Pt) :
    cellIdx g.toGeo p ∈ nbCells g q ↔ Near (cellOf g.toGeo q) (cellOf g.toGeo p) := by
  have hqx := colN_lt (G := g.toGeo) hb q
  have hqy := rowN_lt (G := g.toGeo) hb q
  have hpx := colN_lt (G := g.toGeo) hb p
  have hpy := rowN_lt (G := g.toGeo) hb p
  unfold nbCells
  rw [cellIdx_eq hb q, adjacents_getD hqx hqy, mem_adjOf hqx hqy, near_iff hb, cellIdx_eq hb p]
  constructor
  · rintro ⟨x', y', hx', hy', hc, h1, h2, h3, h4⟩
    obtain ⟨rfl, rfl⟩ := idx_inj hpx hx' hc
    exact ⟨h1, h2, h3, h4⟩
  · rintro ⟨h1, h2, h3, h4⟩
    exact ⟨_, _, hpx, hpy, rfl, h1, h2, h3, h4⟩

theorem mem_cellAt_cell {g : Grid} {live : List Nat} (h : Inv g live) {c id : Nat} (hm : id ∈ cellAt g c) :
    c = cellIdx g.toGeo (endPt g id) := by
  obtain ⟨hv, _, hl⟩ := (h.mem_iff c id).mp hm
  have := h.lookup_eq id hv
  rw [hl] at this
  exact Option.some.inj this

/-- identifiers scanned by the first loops = live ends in the neighbourhood -/
theorem mem_nbIds_iff {g : Grid} {live : List Nat} (h : Inv g live) (q : Pt) (id : Nat) :
    id ∈ nbIds g q ↔
      ValidId g id ∧ pathOf g.n id ∈ live ∧ Near (cellOf g.toGeo q) (cellOf g.toGeo (endPt g id)) := by
  unfold nbIds
  rw [List.mem_flatMap]
  constructor
  · rintro ⟨c, hc, hm⟩
    have hce := mem_cellAt_cell h hm
    obtain ⟨hv, hl, _⟩ := (h.mem_iff c id).mp hm
    rw [hce] at hc
    exact ⟨hv, hl, (mem_nbCells_iff h.bins_pos q _).mp hc⟩
  · rintro ⟨hv, hl, hn⟩
    refine ⟨cellIdx g.toGeo (endPt g id), (mem_nbCells_iff h.bins_pos q _).mpr hn, ?_⟩
    exact (h.mem_iff _ id).mpr ⟨hv, hl, h.lookup_eq id hv⟩

/-- identifiers scanned by either pair of loops = all live ends -/
theorem mem_allIds_iff {g : Grid} {live : List Nat} (h : Inv g live) (q : Pt) (id : Nat) :
    id ∈ nbIds g q ++ restIds g q ↔ ValidId g id ∧ pathOf g.n id ∈ live := by
  constructor
  · intro hm
    rcases List.mem_append.mp hm with hm | hm
    · obtain ⟨hv, hl, _⟩ := (mem_nbIds_iff h q id).mp hm
      exact ⟨hv, hl⟩
    · unfold restIds at hm
      obtain ⟨c, _, hm⟩ := List.mem_flatMap.mp hm
      obtain ⟨hv, hl, _⟩ := (h.mem_iff c id).mp hm
      exact ⟨hv, hl⟩
  · rintro ⟨hv, hl⟩
    have hcell : id ∈ cellAt g (cellIdx g.toGeo (endPt g id)) :=
      (h.mem_iff _ id).mpr ⟨hv, hl, h.lookup_eq id hv⟩
    by_cases hc : cellIdx g.toGeo (endPt g id) ∈ nbCells g q
    · exact List.mem_append_left _ (List.mem_flatMap.mpr ⟨_, hc, hcell⟩)
    · refine List.mem_append_right _ (List.mem_flatMap.mpr ⟨cellIdx g.toGeo (endPt g id), ?_, hcell⟩)
      rw [List.mem_filter]
      refine ⟨?_, ?_⟩
      · rw [List.mem_range, adjacents_length]
        exact cellIdx_lt h.bins_pos _
      · simpa using hc

theorem endPoint_some_iff {g : Grid} (hn : g.verts.length = g.n) (id : Nat) (p : Pt) :
    endPoint g.verts g.rev id = some p ↔ ValidId g id ∧ endPt g id = p := by
  unfold endPoint ValidId endPt endPtV
  rw [hn]
  by_cases h1 : id < g.n
  · have h1' : ¬ id ≥ g.n := by omega
    have hlt : id < g.verts.length := by omega
    simp [h1, h1', List.getD_eq_getElem?_getD, List.getElem?_eq_getElem hlt]
  · have h1' : id ≥ g.n := by omega
    cases hr : g.rev with
    | false => simp [h1, h1']
    | true =>
      by_cases h2 : id < 2 * g.n
      · have hlt : id - g.n < g.verts.length := by omega
        simp [h1, h1', h2, List.getD_eq_getElem?_getD, List.getElem?_eq_getElem hlt]
      · have hge : g.verts.length ≤ id - g.n := by omega
        simp [h1, h1', h2, List.getElem?_eq_none hge]

theorem liveEnd_iff {g : Grid} {live : List Nat} (h : Inv g live) (id : Nat) (p : Pt) :
    LiveEnd g.verts g.rev live id p ↔ ValidId g id ∧ pathOf g.n id ∈ live ∧ endPt g id = p := by
  unfold LiveEnd
  rw [endPoint_some_iff h.nverts, h.nverts]
  constructor
  · rintro ⟨⟨a, b⟩, c⟩; exact ⟨a, c, b⟩
  · rintro ⟨a, c, b⟩; exact ⟨⟨a, b⟩, c⟩

end C13
end Plotink
