import Plotink.Model.C20
import Mathlib.Tactic.SplitIfs
/-! Helper lemmas for C20 (xml_escape). -/
namespace Plotink
namespace C20

/-! ### the sequential replacements equal the one-pass map -/

theorem replaceChar_flatMap (c : Char) (r : List Char) (f : Char → List Char) (s : List Char) :
    replaceChar c r (s.flatMap f) = s.flatMap (fun x => replaceChar c r (f x)) := by
  unfold replaceChar
  rw [List.flatMap_assoc]

theorem replaceChar_eq_flatMap (c : Char) (r : List Char) (s : List Char) :
    replaceChar c r s = s.flatMap (fun x => replaceChar c r [x]) := by
  unfold replaceChar
  simp

theorem replaceChar_nil (c : Char) (r : List Char) : replaceChar c r [] = [] := rfl

theorem replaceChar_cons (c : Char) (r : List Char) (x : Char) (s : List Char) :
    replaceChar c r (x :: s) = (if x = c then r else [x]) ++ replaceChar c r s := by
  simp [replaceChar]

theorem replaceChar_cons_ne (c : Char) (r : List Char) (x : Char) (s : List Char) (h : x ≠ c) :
    replaceChar c r (x :: s) = x :: replaceChar c r s := by
  rw [replaceChar_cons, if_neg h]; rfl

theorem replaceChar_cons_eq (c : Char) (r : List Char) (s : List Char) :
    replaceChar c r (c :: s) = r ++ replaceChar c r s := by
  rw [replaceChar_cons, if_pos rfl]

/-- what the five replacements do to a one-character string -/
def seq1 (x : Char) : List Char :=
  replaceChar '\'' eApos (replaceChar '"' eQuot (replaceChar '>' eGt (replaceChar '<' eLt (replaceChar '&' eAmp [x]))))

theorem escape_eq_flatMap_seq1 (s : List Char) : escape s = s.flatMap seq1 := by
  unfold escape
  simp only
  rw [replaceChar_eq_flatMap '&' eAmp s]
  simp only [replaceChar_flatMap]
  rfl

theorem seq1_eq_escChar (x : Char) : seq1 x = escChar x := by
  unfold seq1 escChar
  by_cases h1 : x = '&'
  · subst h1
    simp only [if_true, eAmp, eLt, eGt, eQuot, eApos]
    rw [replaceChar_cons_eq, replaceChar_nil]
    simp only [List.append_nil]
    repeat (first | rw [replaceChar_nil] | rw [replaceChar_cons_ne _ _ _ _ (by decide)])
  by_cases h2 : x = '<'
  · subst h2
    simp only [if_neg h1, if_true, eAmp, eLt, eGt, eQuot, eApos]
    rw [replaceChar_cons_ne _ _ _ _ (by decide), replaceChar_nil, replaceChar_cons_eq, replaceChar_nil]
    simp only [List.append_nil]
    repeat (first | rw [replaceChar_nil] | rw [replaceChar_cons_ne _ _ _ _ (by decide)])
  by_cases h3 : x = '>'
  · subst h3
    simp only [if_neg h1, if_neg h2, if_true, eAmp, eLt, eGt, eQuot, eApos]
    rw [replaceChar_cons_ne _ _ _ _ (by decide), replaceChar_nil,
      replaceChar_cons_ne _ _ _ _ (by decide), replaceChar_nil, replaceChar_cons_eq, replaceChar_nil]
    simp only [List.append_nil]
    repeat (first | rw [replaceChar_nil] | rw [replaceChar_cons_ne _ _ _ _ (by decide)])
  by_cases h4 : x = '"'
  · subst h4
    simp only [if_neg h1, if_neg h2, if_neg h3, if_true, eAmp, eLt, eGt, eQuot, eApos]
    rw [replaceChar_cons_ne _ _ _ _ (by decide), replaceChar_nil,
      replaceChar_cons_ne _ _ _ _ (by decide), replaceChar_nil,
      replaceChar_cons_ne _ _ _ _ (by decide), replaceChar_nil, replaceChar_cons_eq, replaceChar_nil]
    simp only [List.append_nil]
    repeat (first | rw [replaceChar_nil] | rw [replaceChar_cons_ne _ _ _ _ (by decide)])
  by_cases h5 : x = '\''
  · subst h5
    simp only [if_neg h1, if_neg h2, if_neg h3, if_neg h4, if_true, eAmp, eLt, eGt, eQuot, eApos]
    rw [replaceChar_cons_ne _ _ _ _ (by decide), replaceChar_nil,
      replaceChar_cons_ne _ _ _ _ (by decide), replaceChar_nil,
      replaceChar_cons_ne _ _ _ _ (by decide), replaceChar_nil,
      replaceChar_cons_ne _ _ _ _ (by decide), replaceChar_nil, replaceChar_cons_eq, replaceChar_nil]
    simp only [List.append_nil]
  · simp only [if_neg h1, if_neg h2, if_neg h3, if_neg h4, if_neg h5]
    rw [replaceChar_cons_ne _ _ _ _ h1, replaceChar_nil,
      replaceChar_cons_ne _ _ _ _ h2, replaceChar_nil,
      replaceChar_cons_ne _ _ _ _ h3, replaceChar_nil,
      replaceChar_cons_ne _ _ _ _ h4, replaceChar_nil,
      replaceChar_cons_ne _ _ _ _ h5, replaceChar_nil]

theorem escape_eq_escapeMap (s : List Char) : escape s = escapeMap s := by
  rw [escape_eq_flatMap_seq1, escapeMap]
  congr 1
  funext x
  exact seq1_eq_escChar x

theorem escapeMap_nil : escapeMap [] = [] := rfl

theorem escapeMap_cons (c : Char) (s : List Char) : escapeMap (c :: s) = escChar c ++ escapeMap s := by
  simp [escapeMap, List.flatMap_cons]

/-- a character is special when it is one of the five -/
def Special (c : Char) : Prop := c = '&' ∨ c = '<' ∨ c = '>' ∨ c = '"' ∨ c = '\''

theorem escChar_cases (c : Char) :
    (c = '&' ∧ escChar c = eAmp) ∨ (c = '<' ∧ escChar c = eLt) ∨ (c = '>' ∧ escChar c = eGt) ∨
    (c = '"' ∧ escChar c = eQuot) ∨ (c = '\'' ∧ escChar c = eApos) ∨ (¬ Special c ∧ escChar c = [c]) := by
  unfold escChar Special
  by_cases h1 : c = '&'
  · left; exact ⟨h1, by rw [if_pos h1]⟩
  by_cases h2 : c = '<'
  · right; left; exact ⟨h2, by rw [if_neg h1, if_pos h2]⟩
  by_cases h3 : c = '>'
  · right; right; left; exact ⟨h3, by rw [if_neg h1, if_neg h2, if_pos h3]⟩
  by_cases h4 : c = '"'
  · right; right; right; left; exact ⟨h4, by rw [if_neg h1, if_neg h2, if_neg h3, if_pos h4]⟩
  by_cases h5 : c = '\''
  · right; right; right; right; left
    exact ⟨h5, by rw [if_neg h1, if_neg h2, if_neg h3, if_neg h4, if_pos h5]⟩
  · right; right; right; right; right
    refine ⟨?_, by rw [if_neg h1, if_neg h2, if_neg h3, if_neg h4, if_neg h5]⟩
    rintro (h | h | h | h | h) <;> contradiction

/-! ### no special character survives outside an entity -/

/-- the four characters that must not occur at all -/
def Bare (c : Char) : Prop := c = '<' ∨ c = '>' ∨ c = '"' ∨ c = '\''

instance (c : Char) : Decidable (Bare c) := by unfold Bare; infer_instance

theorem escChar_no_bare (c x : Char) (hx : x ∈ escChar c) : ¬ Bare x := by
  rcases escChar_cases c with h | h | h | h | h | h
  all_goals obtain ⟨hc, he⟩ := h
  all_goals rw [he] at hx
  · revert x; unfold eAmp; decide
  · revert x; unfold eLt; decide
  · revert x; unfold eGt; decide
  · revert x; unfold eQuot; decide
  · revert x; unfold eApos; decide
  · simp only [List.mem_singleton] at hx
    subst hx
    intro hb
    apply hc
    unfold Special
    unfold Bare at hb
    exact Or.inr hb

theorem escapeMap_no_bare (s : List Char) (x : Char) (hx : x ∈ escapeMap s) : ¬ Bare x := by
  unfold escapeMap at hx
  rw [List.mem_flatMap] at hx
  obtain ⟨c, _, hc⟩ := hx
  exact escChar_no_bare c x hc

/-- an `&` inside `escChar c` is its first character, and then `escChar c` is an entity -/
theorem escChar_amp_split (c : Char) (pre post : List Char) (h : escChar c = pre ++ '&' :: post) :
    pre = [] ∧ escChar c ∈ entities := by
  have key : ∀ (e : List Char) (t : List Char), e = '&' :: t → '&' ∉ t → e = pre ++ '&' :: post → pre = [] := by
    intro e t he ht hsplit
    cases pre with
    | nil => rfl
    | cons p pre' =>
      exfalso
      rw [he] at hsplit
      simp only [List.cons_append, List.cons.injEq] at hsplit
      apply ht
      rw [hsplit.2]
      simp
  rcases escChar_cases c with h' | h' | h' | h' | h' | h'
  all_goals obtain ⟨hc, he⟩ := h'
  · exact ⟨key _ _ rfl (by decide) (he ▸ h), by rw [he]; simp [entities]⟩
  · exact ⟨key _ _ rfl (by decide) (he ▸ h), by rw [he]; simp [entities]⟩
  · exact ⟨key _ _ rfl (by decide) (he ▸ h), by rw [he]; simp [entities]⟩
  · exact ⟨key _ _ rfl (by decide) (he ▸ h), by rw [he]; simp [entities]⟩
  · exact ⟨key _ _ rfl (by decide) (he ▸ h), by rw [he]; simp [entities]⟩
  · exfalso
    rw [he] at h
    have : '&' ∈ [c] := by rw [h]; simp
    simp only [List.mem_singleton] at this
    exact hc (Or.inl this.symm)

theorem escapeMap_amp (s : List Char) : ∀ (pre post : List Char), escapeMap s = pre ++ '&' :: post →
    ∃ e ∈ entities, e <+: '&' :: post := by
  induction s with
  | nil => intro pre post h; rw [escapeMap_nil] at h; simp at h
  | cons c s ih =>
    intro pre post h
    rw [escapeMap_cons, List.append_eq_append_iff] at h
    rcases h with ⟨a', hpre, hs⟩ | ⟨c', hc, hrest⟩
    · exact ih a' post hs
    · cases c' with
      | nil =>
        simp only [List.nil_append] at hrest
        exact ih [] post (by simpa using hrest.symm)
      | cons x c'' =>
        simp only [List.cons_append, List.cons.injEq] at hrest
        obtain ⟨hx, hpost⟩ := hrest
        subst hx
        obtain ⟨hp, hent⟩ := escChar_amp_split c pre c'' hc
        subst hp
        simp only [List.nil_append] at hc
        refine ⟨escChar c, hent, ?_⟩
        rw [hc, hpost]
        exact ⟨escapeMap s, by simp⟩

/-! ### reading back -/

theorem un_amp (r : List Char) : unescape ('&' :: 'a' :: 'm' :: 'p' :: ';' :: r) = '&' :: unescape r := by rw [unescape]
theorem un_lt (r : List Char) : unescape ('&' :: 'l' :: 't' :: ';' :: r) = '<' :: unescape r := by rw [unescape]
theorem un_gt (r : List Char) : unescape ('&' :: 'g' :: 't' :: ';' :: r) = '>' :: unescape r := by rw [unescape]
theorem un_quot (r : List Char) : unescape ('&' :: 'q' :: 'u' :: 'o' :: 't' :: ';' :: r) = '"' :: unescape r := by rw [unescape]
theorem un_apos (r : List Char) : unescape ('&' :: 'a' :: 'p' :: 'o' :: 's' :: ';' :: r) = '\'' :: unescape r := by rw [unescape]

theorem unescape_plain (c : Char) (r : List Char) (h : c ≠ '&') : unescape (c :: r) = c :: unescape r := by
  rw [unescape.eq_def]
  split
  all_goals (rename_i heq; first | (injection heq with hc hr; first | exact absurd hc h | (subst hc; subst hr; rfl)) | (exact absurd heq (by simp)))

theorem unescape_escapeMap (s : List Char) : unescape (escapeMap s) = s := by
  induction s with
  | nil => rw [escapeMap_nil, unescape]
  | cons c s ih =>
    rw [escapeMap_cons]
    rcases escChar_cases c with h | h | h | h | h | h
    all_goals obtain ⟨hc, he⟩ := h
    all_goals rw [he]
    · subst hc; show unescape ('&' :: 'a' :: 'm' :: 'p' :: ';' :: escapeMap s) = _; rw [un_amp, ih]
    · subst hc; show unescape ('&' :: 'l' :: 't' :: ';' :: escapeMap s) = _; rw [un_lt, ih]
    · subst hc; show unescape ('&' :: 'g' :: 't' :: ';' :: escapeMap s) = _; rw [un_gt, ih]
    · subst hc; show unescape ('&' :: 'q' :: 'u' :: 'o' :: 't' :: ';' :: escapeMap s) = _; rw [un_quot, ih]
    · subst hc; show unescape ('&' :: 'a' :: 'p' :: 'o' :: 's' :: ';' :: escapeMap s) = _; rw [un_apos, ih]
    · have h1 : c ≠ '&' := fun e => hc (Or.inl e)
      rw [List.singleton_append, unescape_plain c _ h1, ih]

theorem pa_amp (p : Place) (r : List Char) : parse p ('&' :: 'a' :: 'm' :: 'p' :: ';' :: r) = (parse p r).map ('&' :: ·) := by rw [parse]
theorem pa_lt (p : Place) (r : List Char) : parse p ('&' :: 'l' :: 't' :: ';' :: r) = (parse p r).map ('<' :: ·) := by rw [parse]
theorem pa_gt (p : Place) (r : List Char) : parse p ('&' :: 'g' :: 't' :: ';' :: r) = (parse p r).map ('>' :: ·) := by rw [parse]
theorem pa_quot (p : Place) (r : List Char) : parse p ('&' :: 'q' :: 'u' :: 'o' :: 't' :: ';' :: r) = (parse p r).map ('"' :: ·) := by rw [parse]
theorem pa_apos (p : Place) (r : List Char) : parse p ('&' :: 'a' :: 'p' :: 'o' :: 's' :: ';' :: r) = (parse p r).map ('\'' :: ·) := by rw [parse]

theorem parse_plain (p : Place) (c : Char) (r : List Char) (h : c ≠ '&') :
    parse p (c :: r) = if breaks p c then none else (parse p r).map (c :: ·) := by
  rw [parse.eq_def]
  split
  all_goals (rename_i heq; first | (injection heq with hc hr; first | exact absurd hc h | (subst hc; subst hr; rfl)) | (exact absurd heq (by simp)))

theorem breaks_of_not_special (p : Place) (c : Char) (h : ¬ Special c) : breaks p c = false := by
  unfold Special at h
  unfold breaks
  have h1 : c ≠ '&' := fun e => h (Or.inl e)
  have h2 : c ≠ '<' := fun e => h (Or.inr (Or.inl e))
  have h4 : c ≠ '"' := fun e => h (Or.inr (Or.inr (Or.inr (Or.inl e))))
  have h5 : c ≠ '\'' := fun e => h (Or.inr (Or.inr (Or.inr (Or.inr e))))
  simp [h1, h2, h4, h5]

theorem parse_escapeMap (p : Place) (s : List Char) : parse p (escapeMap s) = some s := by
  induction s with
  | nil => rw [escapeMap_nil, parse]
  | cons c s ih =>
    rw [escapeMap_cons]
    rcases escChar_cases c with h | h | h | h | h | h
    all_goals obtain ⟨hc, he⟩ := h
    all_goals rw [he]
    · subst hc; show parse p ('&' :: 'a' :: 'm' :: 'p' :: ';' :: escapeMap s) = _; rw [pa_amp, ih]; rfl
    · subst hc; show parse p ('&' :: 'l' :: 't' :: ';' :: escapeMap s) = _; rw [pa_lt, ih]; rfl
    · subst hc; show parse p ('&' :: 'g' :: 't' :: ';' :: escapeMap s) = _; rw [pa_gt, ih]; rfl
    · subst hc; show parse p ('&' :: 'q' :: 'u' :: 'o' :: 't' :: ';' :: escapeMap s) = _; rw [pa_quot, ih]; rfl
    · subst hc; show parse p ('&' :: 'a' :: 'p' :: 'o' :: 's' :: ';' :: escapeMap s) = _; rw [pa_apos, ih]; rfl
    · have h1 : c ≠ '&' := fun e => hc (Or.inl e)
      rw [List.singleton_append, parse_plain p c _ h1, breaks_of_not_special p c hc, ih]
      rfl

end C20
end Plotink
