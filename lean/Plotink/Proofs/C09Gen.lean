import Plotink.Gen.points_in_tolerance
import Plotink.Proofs.PyEnc
import Plotink.Proofs.C09Loop
import Mathlib.Data.List.Forall2

/-! # C09 — bridge: the source-regenerated `points_in_tolerance` = the hand model `C09.pointsInTol`

`Gen.points_in_tolerance_body1` (one pass of the `for point in input_points[1:-1]` loop),
`Gen.points_in_tolerance_loop1` (the loop, by recursion over the item list) and `Gen.points_in_tolerance` are
regenerated from `plotink/plot_utils.py` on every run. For `Rounding.exact`:

* `body_pt` — one pass = `C09.ptOk` (`return False` / `continue`), case by case on the same comparisons;
* `loop_pts` (induction on the item list) and `points_in_tolerance_bridge`.

Numbers are related to rationals by an encoding `K` with `Py.Enc K` (`Proofs/PyEnc.lean`). -/

namespace Plotink
namespace C09
open Py Py.Val
set_option linter.unusedSimpArgs false
set_option linter.unusedSectionVars false
set_option linter.unnecessarySeqFocus false

section body
variable {K : Val → Rat → Prop} (hK : Enc K) (amb : Nat) (s0 s1 : Pt) (tol : Rat)
  (vt s0x s0y s1x s1y sdx sdy : Val)
  (ht : K vt (tol * tol)) (h0x : K s0x s0.1) (h0y : K s0y s0.2) (h1x : K s1x s1.1) (h1y : K s1y s1.2)
  (hdx : K sdx (s1.1 - s0.1)) (hdy : K sdy (s1.2 - s0.2))
  (kont : Val → Val → Val → Val → Val → Val → Val → Val → Loop (Val × Val × Val × Val × Val × Val × Val × Val))
  (p : Pt) (px py : Val) (hpx : K px p.1) (hpy : K py p.2)
  (j1 j2 j3 j4 j5 j6 j7 j8 : Val)
include hK ht h0x h0y h1x h1y hdx hdy hpx hpy

theorem body_pt :
    (ptOk s0 s1 (tol * tol) p = true → ∃ k1 k2 k3 k4 k5 k6 k7 k8,
      Gen.points_in_tolerance_body1 Rounding.exact amb vt s0x s0y s1x s1y sdx sdy kont (.tup [px, py])
        j1 j2 j3 j4 j5 j6 j7 j8 = kont k1 k2 k3 k4 k5 k6 k7 k8) ∧
    (ptOk s0 s1 (tol * tol) p = false →
      Gen.points_in_tolerance_body1 Rounding.exact amb vt s0x s0y s1x s1y sdx sdy kont (.tup [px, py])
        j1 j2 j3 j4 j5 j6 j7 j8 = .ret (.bool_ false)) := by
  have hdxp := hK.sub amb hpx h0x
  have hdyp := hK.sub amb hpy h0y
  have htemp1 := hK.add amb (hK.mul amb hdxp hdx) (hK.mul amb hdyp hdy)
  have hd0 := hK.add amb (hK.mul amb hdxp hdxp) (hK.mul amb hdyp hdyp)
  have hlen := hK.add amb (hK.mul amb hdx hdx) (hK.mul amb hdy hdy)
  have hd1 := hK.add amb (hK.mul amb (hK.sub amb hpx h1x) (hK.sub amb hpx h1x)) (hK.mul amb (hK.sub amb hpy h1y) (hK.sub amb hpy h1y))
  have htemp := hK.sub amb (hK.mul amb hdxp hdy) (hK.mul amb hdx hdyp)
  have c1 := hK.le_int htemp1 0
  have c2 := hK.ge_eq hd0 ht
  have c3 := hK.le_eq hlen htemp1
  have c4 := hK.ge_eq hd1 ht
  have c5 := hK.eq_int hlen 0
  unfold Gen.points_in_tolerance_body1 ptOk
  simp only [Py.unpackN_tup2, Py.getItem_cons_zero, Py.getItem_cons_succ, c1, c2, c3, c4, c5, Int.cast_zero,
    decide_eq_true_eq]
  by_cases a1 : (p.1 - s0.1) * (s1.1 - s0.1) + (p.2 - s0.2) * (s1.2 - s0.2) ≤ 0
  · by_cases a2 : (p.1 - s0.1) * (p.1 - s0.1) + (p.2 - s0.2) * (p.2 - s0.2) ≥ tol * tol
    · refine ⟨fun h => ?_, fun h => ?_⟩ <;> simp only [if_pos a1, if_pos a2] at h ⊢ <;>
        first | exact ⟨_, _, _, _, _, _, _, _, rfl⟩ | rfl | cases h
    · refine ⟨fun h => ?_, fun h => ?_⟩ <;> simp only [if_pos a1, if_neg a2] at h ⊢ <;>
        first | exact ⟨_, _, _, _, _, _, _, _, rfl⟩ | rfl | cases h
  · by_cases a3 : (s1.1 - s0.1) * (s1.1 - s0.1) + (s1.2 - s0.2) * (s1.2 - s0.2) ≤
        (p.1 - s0.1) * (s1.1 - s0.1) + (p.2 - s0.2) * (s1.2 - s0.2)
    · by_cases a4 : (p.1 - s1.1) * (p.1 - s1.1) + (p.2 - s1.2) * (p.2 - s1.2) ≥ tol * tol
      · refine ⟨fun h => ?_, fun h => ?_⟩ <;> simp only [if_neg a1, if_pos a3, if_pos a4] at h ⊢ <;>
        first | exact ⟨_, _, _, _, _, _, _, _, rfl⟩ | rfl | cases h
      · refine ⟨fun h => ?_, fun h => ?_⟩ <;> simp only [if_neg a1, if_pos a3, if_neg a4] at h ⊢ <;>
        first | exact ⟨_, _, _, _, _, _, _, _, rfl⟩ | rfl | cases h
    · by_cases a5 : (s1.1 - s0.1) * (s1.1 - s0.1) + (s1.2 - s0.2) * (s1.2 - s0.2) = 0
      · refine ⟨fun h => ?_, fun h => ?_⟩ <;> simp only [if_neg a1, if_neg a3, if_pos a5] at h ⊢ <;>
        first | exact ⟨_, _, _, _, _, _, _, _, rfl⟩ | rfl | cases h
      · have c6 := hK.ge_eq (hK.div amb (hK.mul amb htemp htemp) hlen a5) ht
        by_cases a6 : ((p.1 - s0.1) * (s1.2 - s0.2) - (s1.1 - s0.1) * (p.2 - s0.2)) *
              ((p.1 - s0.1) * (s1.2 - s0.2) - (s1.1 - s0.1) * (p.2 - s0.2)) /
            ((s1.1 - s0.1) * (s1.1 - s0.1) + (s1.2 - s0.2) * (s1.2 - s0.2)) ≥ tol * tol
        · refine ⟨fun h => ?_, fun h => ?_⟩ <;> simp only [if_neg a1, if_neg a3, if_neg a5, c6, decide_eq_true_eq, if_pos a6] at h ⊢ <;>
        first | exact ⟨_, _, _, _, _, _, _, _, rfl⟩ | rfl | cases h
        · refine ⟨fun h => ?_, fun h => ?_⟩ <;> simp only [if_neg a1, if_neg a3, if_neg a5, c6, decide_eq_true_eq, if_neg a6] at h ⊢ <;>
        first | exact ⟨_, _, _, _, _, _, _, _, rfl⟩ | rfl | cases h
end body

/-! ### sequence operations on a list of at least two items -/

theorem ge_len_3 (l : List Val) : Py.ge (Py.len_ (.tup l)) (.int 3) = decide (3 ≤ l.length) := by
  have : num (Val.int (l.length : Int)) = ((l.length : Int) : Rat) := rfl
  have h3 : num (Val.int 3) = ((3 : Nat) : Rat) := by simp [Py.num]
  simp only [Py.ge, Py.len_, this, h3, Int.cast_natCast, ge_iff_le, Nat.cast_le]

theorem index_last (va vb : Val) (lmid : List Val) :
    Py.index (.tup (va :: (lmid ++ [vb]))) (.int (-1)) = vb := by
  simp [Py.index, Py.kind, Py.toInt]
  intro h; omega

theorem slice_interior (va vb : Val) (lmid : List Val) :
    Py.slice (.tup (va :: (lmid ++ [vb]))) (.int 1) (.int (-1)) = .tup lmid := by
  simp [Py.slice, Py.sliceBound]

def EncPt (K : Val → Rat → Prop) (v : Val) (p : Pt) : Prop := ∃ x y, v = .tup [x, y] ∧ K x p.1 ∧ K y p.2
/-- `v` is a Python list of 2-sequences of numbers encoding `pts` -/
def EncPts (K : Val → Rat → Prop) (v : Val) (pts : List Pt) : Prop :=
  ∃ l, v = .tup l ∧ List.Forall₂ (EncPt K) l pts

def encOptBool : Option Bool → Val
  | some b => .bool_ b
  | none => .err

section loop
variable {K : Val → Rat → Prop} (hK : Enc K) (amb : Nat) (s0 s1 : Pt) (tol : Rat)
  (vt s0x s0y s1x s1y sdx sdy : Val)
  (ht : K vt (tol * tol)) (h0x : K s0x s0.1) (h0y : K s0y s0.2) (h1x : K s1x s1.1) (h1y : K s1y s1.2)
  (hdx : K sdx (s1.1 - s0.1)) (hdy : K sdy (s1.2 - s0.2))
include hK ht h0x h0y h1x h1y hdx hdy

theorem loop_pts (l : List Val) (mid : List Pt) (h : List.Forall₂ (EncPt K) l mid) :
    ∀ j1 j2 j3 j4 j5 j6 j7 j8 : Val,
    (mid.all (ptOk s0 s1 (tol * tol)) = true → ∃ t,
      Gen.points_in_tolerance_loop1 Rounding.exact amb vt s0x s0y s1x s1y sdx sdy l j1 j2 j3 j4 j5 j6 j7 j8 = .done t) ∧
    (mid.all (ptOk s0 s1 (tol * tol)) = false →
      Gen.points_in_tolerance_loop1 Rounding.exact amb vt s0x s0y s1x s1y sdx sdy l j1 j2 j3 j4 j5 j6 j7 j8
        = .ret (.bool_ false)) := by
  induction h with
  | nil =>
    intro j1 j2 j3 j4 j5 j6 j7 j8
    rw [Gen.points_in_tolerance_loop1]
    exact ⟨fun _ => ⟨_, rfl⟩, fun h => by simp at h⟩
  | @cons v p l mid hv _ ih =>
    intro j1 j2 j3 j4 j5 j6 j7 j8
    obtain ⟨px, py, rfl, hpx, hpy⟩ := hv
    rw [Gen.points_in_tolerance_loop1]
    obtain ⟨hok, hbad⟩ := body_pt hK amb s0 s1 tol vt s0x s0y s1x s1y sdx sdy ht h0x h0y h1x h1y hdx hdy
      (Gen.points_in_tolerance_loop1 Rounding.exact amb vt s0x s0y s1x s1y sdx sdy l) p px py hpx hpy
      j1 j2 j3 j4 j5 j6 j7 j8
    rw [List.all_cons]
    cases hp : ptOk s0 s1 (tol * tol) p with
    | false =>
      rw [hbad hp]
      exact ⟨fun h => by simp at h, fun _ => rfl⟩
    | true =>
      obtain ⟨k1, k2, k3, k4, k5, k6, k7, k8, hk⟩ := hok hp
      rw [hk, Bool.true_and]
      exact ih k1 k2 k3 k4 k5 k6 k7 k8

end loop

/-- **bridge**: the regenerated `points_in_tolerance` in exact arithmetic = the hand model `C09.pointsInTol`
(`AssertionError` ↦ `err`), for every encoding of the rationals that exact arithmetic preserves -/
theorem points_in_tolerance_bridge {K : Val → Rat → Prop} (hK : Enc K) (amb : Nat) (pts : List Pt) (tol : Rat)
    (vp vt : Val) (hp : EncPts K vp pts) (ht : K vt tol) :
    Gen.points_in_tolerance Rounding.exact amb vp vt = encOptBool (pointsInTol pts tol) := by
  obtain ⟨l, rfl, hl⟩ := hp
  have hlen := hl.length_eq
  unfold Gen.points_in_tolerance
  simp only [ge_len_3]
  by_cases h3 : 3 ≤ pts.length
  · rw [if_pos (by simpa [hlen] using h3)]
    obtain ⟨a, mid, b, rfl⟩ := shape_of_len pts (by omega)
    have hm : mid ≠ [] := by intro h0; subst h0; simp at h3
    rw [pointsInTol_shape a b mid hm]
    -- split the value list the same way
    obtain ⟨va, l', hva, hl', rfl⟩ := List.forall₂_cons_right_iff.mp hl
    have hmid := List.forall₂_take_append l' mid [b] hl'
    have hlast := List.forall₂_drop_append l' mid [b] hl'
    obtain ⟨vb, l'', hvb, hnil, hdrop⟩ := List.forall₂_cons_right_iff.mp hlast
    rw [List.forall₂_nil_right_iff.mp hnil] at hdrop
    have hsplit : l' = l'.take mid.length ++ [vb] := by
      conv_lhs => rw [← List.take_append_drop mid.length l', hdrop]
    generalize l'.take mid.length = lmid at hmid hsplit
    subst hsplit
    obtain ⟨ax, ay, rfl, hax, hay⟩ := hva
    obtain ⟨bx, by', rfl, hbx, hby⟩ := hvb
    simp only [Py.getItem_cons_zero, Py.getItem_cons_succ, Py.unpackN_tup2, index_last, slice_interior, Py.iter]
    obtain ⟨hok, hbad⟩ := loop_pts hK amb a b tol _ ax ay bx by' _ _ (hK.mul amb ht ht) hax hay hbx hby
      (hK.sub amb hbx hax) (hK.sub amb hby hay) lmid mid hmid .err .err .err .err .err .err .err .err
    cases hall : mid.all (ptOk a b (tol * tol)) with
    | true =>
      obtain ⟨t, ht'⟩ := hok hall
      rw [ht']
      rfl
    | false =>
      rw [hbad hall]
      rfl
  · rw [if_neg (by simpa [hlen] using h3)]
    rw [(pointsInTol_none_iff pts tol).2 (by omega)]
    rfl


/-! ### the all-`float` encoding, as functions -/

/-- `[[x, y], …]`, every coordinate a `float` holding exactly that rational -/
def encPts (pts : List Pt) : Val := .tup (pts.map (fun p => .tup [.flt p.1, .flt p.2]))

theorem encPts_isFlt (pts : List Pt) : EncPts IsFlt (encPts pts) pts := by
  refine ⟨_, rfl, ?_⟩
  induction pts with
  | nil => exact List.Forall₂.nil
  | cons p ps ih => exact List.Forall₂.cons ⟨_, _, rfl, rfl, rfl⟩ ih

theorem EncPts.mono {K K' : Val → Rat → Prop} (hKK : ∀ v q, K v q → K' v q) {v : Val} {pts : List Pt}
    (h : EncPts K v pts) : EncPts K' v pts := by
  obtain ⟨l, e, hl⟩ := h
  refine ⟨l, e, ?_⟩
  clear e
  induction hl with
  | nil => exact List.Forall₂.nil
  | cons hv _ ih =>
    obtain ⟨x, y, e', hx, hy⟩ := hv
    exact List.Forall₂.cons ⟨x, y, e', hKK _ _ hx, hKK _ _ hy⟩ ih

end C09
end Plotink
