import Plotink.Ieee
import Plotink.Proofs.Contract
import Mathlib.Tactic.Linarith
import Mathlib.Tactic.Ring
import Mathlib.Tactic.NormNum
import Mathlib.Tactic.Positivity
import Mathlib.Tactic.Push
import Mathlib.Tactic.FieldSimp
import Mathlib.Tactic.SplitIfs
import Mathlib.Data.Rat.Floor
import Mathlib.Algebra.Order.Floor.Ring

/-! # `Rounding.ieee` meets the exactness contract and the basic contract

The concrete rounding used by the driver (`roundBits p`: round to nearest, ties to even, `p` significant
bits, unbounded exponent) returns every `p`-bit representable value unchanged (`contractExact_ieee`), has
relative error at most `2^-p` and is monotone for `p ≥ 1` (`contractBasic_ieee`). This makes the hypotheses
`ContractExact R` / `ContractBasic R` of the calculator theorems non-vacuous for the very instance the
correspondence run executes. (At `p = 0` the ties-to-even grid is *not* monotone: 0.6 ↦ 1 but 1.0 ↦ 0;
hence the `1 ≤ p` in `mp_mono`.) -/

namespace Plotink

theorem pow2_eq_zpow (e : Int) : pow2 e = (2 : Rat) ^ e := by
  unfold pow2
  split
  · rename_i h
    conv_rhs => rw [← Int.toNat_of_nonneg h]
    rw [zpow_natCast]
  · rename_i h
    have h' : 0 ≤ -e := by omega
    have : e = -((-e).toNat : Int) := by rw [Int.toNat_of_nonneg h']; ring
    conv_rhs => rw [this]
    rw [zpow_neg, zpow_natCast, one_div]

theorem roundHE_int (k : Int) : Py.roundHE (k : Rat) = k := by
  unfold Py.roundHE
  simp only [Rat.floor_intCast, sub_self]
  norm_num

/-- `ilog2` never overshoots: `2^(ilog2 a) ≤ a` for positive `a` -/
theorem pow_ilog2_le (a : Rat) (ha : 0 < a) : (2 : Rat) ^ (ilog2 a) ≤ a := by
  have hnum : 0 < a.num := Rat.num_pos.mpr ha
  have hn0 : a.num.natAbs ≠ 0 := by omega
  have hd0 : a.den ≠ 0 := a.den_nz
  have hA : ((a.num.natAbs : Nat) : Rat) / (a.den : Rat) = a := by
    have h2 : ((a.num.natAbs : Nat) : Rat) = (a.num : Rat) := by
      rw [Nat.cast_natAbs, abs_of_pos hnum]
    rw [h2]; exact Rat.num_div_den a
  unfold ilog2
  simp only [pow2_eq_zpow, hA]
  split
  · assumption
  · split
    · assumption
    · -- a > 2^(l0 - 1) from the two `Nat.log2` bounds
      have h1 : 2 ^ Nat.log2 a.num.natAbs ≤ a.num.natAbs := Nat.log2_self_le hn0
      have h2 : a.den < 2 ^ (Nat.log2 a.den + 1) := Nat.lt_log2_self
      have h1q : (2 : Rat) ^ (Nat.log2 a.num.natAbs) ≤ (a.num.natAbs : Rat) := by exact_mod_cast h1
      have h2q : (a.den : Rat) ≤ (2 : Rat) ^ (Nat.log2 a.den + 1) := by exact_mod_cast h2.le
      have hdpos : (0 : Rat) < a.den := by exact_mod_cast Nat.pos_of_ne_zero hd0
      have e : (2 : Rat) ^ ((Nat.log2 a.num.natAbs : Int) - (Nat.log2 a.den : Int) - 1)
          = (2 : Rat) ^ (Nat.log2 a.num.natAbs) / (2 : Rat) ^ (Nat.log2 a.den + 1) := by
        have : ((Nat.log2 a.num.natAbs : Int) - (Nat.log2 a.den : Int) - 1)
            = ((Nat.log2 a.num.natAbs : Nat) : Int) - ((Nat.log2 a.den + 1 : Nat) : Int) := by push_cast; ring
        rw [this, zpow_sub₀ (by norm_num), zpow_natCast, zpow_natCast]
      rw [e]; conv_rhs => rw [← hA]
      have hpp : (0 : Rat) < (2 : Rat) ^ (Nat.log2 a.den + 1) := by positivity
      rw [div_le_div_iff₀ hpp hdpos]
      calc (2 : Rat) ^ Nat.log2 a.num.natAbs * (a.den : Rat)
          ≤ (a.num.natAbs : Rat) * (a.den : Rat) := mul_le_mul_of_nonneg_right h1q hdpos.le
        _ ≤ (a.num.natAbs : Rat) * (2 : Rat) ^ (Nat.log2 a.den + 1) :=
            mul_le_mul_of_nonneg_left h2q (by positivity)

/-- positive representable values are fixed points of the magnitude rounding -/
theorem roundBits_core (p : Nat) (M : Int) (E : Int) (hM0 : 0 < M) (hM : M < 2 ^ p) :
    let a : Rat := (M : Rat) * (2 : Rat) ^ E
    ((Py.roundHE (a / pow2 (ilog2 a - ((p : Int) - 1))) : Int) : Rat) * pow2 (ilog2 a - ((p : Int) - 1)) = a := by
  intro a
  have ha : 0 < a := by positivity
  have hl := pow_ilog2_le a ha
  set L := ilog2 a with hL
  -- L < p + E
  have hlt : L < (p : Int) + E := by
    have h1 : a < (2 : Rat) ^ ((p : Int) + E) := by
      have : (M : Rat) < (2 : Rat) ^ p := by exact_mod_cast hM
      rw [zpow_add₀ (by norm_num), zpow_natCast]
      exact mul_lt_mul_of_pos_right this (by positivity)
    have h2 : (2 : Rat) ^ L < (2 : Rat) ^ ((p : Int) + E) := lt_of_le_of_lt hl h1
    exact (zpow_lt_zpow_iff_right₀ (by norm_num : (1 : Rat) < 2)).mp h2
  set e := L - ((p : Int) - 1) with he
  have hee : 0 ≤ E - e := by omega
  rw [pow2_eq_zpow]
  have hq : a / (2 : Rat) ^ e = ((M * 2 ^ (E - e).toNat : Int) : Rat) := by
    have : (2 : Rat) ^ E = (2 : Rat) ^ (E - e).toNat * (2 : Rat) ^ e := by
      rw [← zpow_natCast, Int.toNat_of_nonneg hee, ← zpow_add₀ (by norm_num)]; congr 1; ring
    have hpe : (2 : Rat) ^ e ≠ 0 := by positivity
    push_cast
    show (M : Rat) * (2 : Rat) ^ E / (2 : Rat) ^ e = _
    rw [this]; field_simp
  rw [hq, roundHE_int, ← hq]
  have hpe : (2 : Rat) ^ e ≠ 0 := by positivity
  field_simp

theorem roundBits_exact (p : Nat) (x : Rat) (h : Rep p x) : roundBits p x = x := by
  obtain ⟨m, E, rfl, hm⟩ := h
  have hp2 : (0 : Rat) < (2 : Rat) ^ E := by positivity
  unfold roundBits
  rcases lt_trichotomy m 0 with hneg | rfl | hpos
  · have hx : (m : Rat) * (2 : Rat) ^ E < 0 := by
      have : (m : Rat) < 0 := by exact_mod_cast hneg
      exact mul_neg_of_neg_of_pos this hp2
    have hM : -m < 2 ^ p := by rw [abs_of_neg hneg] at hm; exact hm
    have key := roundBits_core p (-m) E (by omega) hM
    simp only [hx.ne, hx, if_true, if_false]
    have e : -((m : Rat) * (2 : Rat) ^ E) = ((-m : Int) : Rat) * (2 : Rat) ^ E := by push_cast; ring
    rw [e]
    simp only at key
    rw [key]; push_cast; ring
  · simp
  · have hx : 0 < (m : Rat) * (2 : Rat) ^ E := by
      have : (0 : Rat) < (m : Rat) := by exact_mod_cast hpos
      positivity
    have hM : m < 2 ^ p := by rw [abs_of_pos hpos] at hm; exact hm
    have key := roundBits_core p m E hpos hM
    have hnlt : ¬ ((m : Rat) * (2 : Rat) ^ E < 0) := not_lt.mpr hx.le
    simp only [hx.ne', hnlt, if_false]
    simpa using key

/-- non-vacuity of the exactness contract for the concrete instance run by the driver -/
theorem contractExact_ieee : ContractExact Rounding.ieee where
  f64_exact := fun x h => roundBits_exact 53 x h
  mp_exact := fun p x h => roundBits_exact p x h

/-! ## error bound and monotonicity: `Rounding.ieee` meets the basic contract -/


theorem roundHE_err (q : Rat) : |((Py.roundHE q : Int) : Rat) - q| ≤ 1 / 2 := by
  unfold Py.roundHE
  have h1 : ((q.floor : Int) : Rat) ≤ q := Rat.floor_le q
  have h2 : q < ((q.floor : Int) : Rat) + 1 := by have := Rat.lt_floor_add_one q; push_cast at this; exact this
  simp only
  rw [abs_le]
  split_ifs <;> push_cast <;> constructor <;> linarith


theorem roundBits_core_err (p : Nat) (a : Rat) (ha : 0 < a) :
    |((Py.roundHE (a / pow2 (ilog2 a - ((p : Int) - 1))) : Int) : Rat) * pow2 (ilog2 a - ((p : Int) - 1)) - a|
      ≤ a / 2 ^ p := by
  have hl := pow_ilog2_le a ha
  set L := ilog2 a with hL
  set e := L - ((p : Int) - 1) with he
  rw [pow2_eq_zpow]
  have hpe : (0 : Rat) < (2 : Rat) ^ e := by positivity
  have herr := roundHE_err (a / (2 : Rat) ^ e)
  set m := Py.roundHE (a / (2 : Rat) ^ e) with hm
  have e1 : (m : Rat) * (2 : Rat) ^ e - a = ((m : Rat) - a / (2 : Rat) ^ e) * (2 : Rat) ^ e := by
    field_simp
  rw [e1, abs_mul, abs_of_pos hpe]
  have e2 : (2 : Rat) ^ e = 2 * ((2 : Rat) ^ L / 2 ^ p) := by
    have : e = L - (p : Int) + 1 := by omega
    rw [this, zpow_add₀ (by norm_num), zpow_sub₀ (by norm_num), zpow_natCast, zpow_one]; ring
  calc |(m : Rat) - a / (2 : Rat) ^ e| * (2 : Rat) ^ e ≤ 1 / 2 * (2 : Rat) ^ e :=
        mul_le_mul_of_nonneg_right herr hpe.le
    _ = (2 : Rat) ^ L / 2 ^ p := by rw [e2]; ring
    _ ≤ a / 2 ^ p := by
        apply div_le_div_of_nonneg_right hl; positivity

theorem roundBits_err (p : Nat) (x : Rat) : |roundBits p x - x| ≤ |x| / 2 ^ p := by
  unfold roundBits
  rcases lt_trichotomy x 0 with hneg | rfl | hpos
  · have key := roundBits_core_err p (-x) (by linarith)
    simp only [hneg.ne, hneg, if_true, if_false]
    rw [abs_of_neg hneg]
    have : ∀ r : Rat, |-r - x| = |r - -x| := fun r => by rw [← abs_neg]; congr 1; ring
    rw [this]; exact key
  · simp
  · have key := roundBits_core_err p x hpos
    have hnlt : ¬ (x < 0) := not_lt.mpr hpos.le
    simp only [hpos.ne', hnlt, if_false]
    rw [abs_of_pos hpos]; exact key


theorem roundHE_mono {x y : Rat} (h : x ≤ y) : Py.roundHE x ≤ Py.roundHE y := by
  by_contra hlt
  push Not at hlt
  have h1 : Py.roundHE y + 1 ≤ Py.roundHE x := hlt
  have h1q : ((Py.roundHE y : Int) : Rat) + 1 ≤ ((Py.roundHE x : Int) : Rat) := by exact_mod_cast h1
  have ex := abs_le.mp (roundHE_err x)
  have ey := abs_le.mp (roundHE_err y)
  have hxy : x = y := le_antisymm h (by linarith [ex.2, ey.1])
  rw [hxy] at hlt
  exact lt_irrefl _ hlt

/-- `ilog2` never undershoots: `a < 2^(ilog2 a + 1)` for positive `a` -/
theorem lt_pow_ilog2 (a : Rat) (ha : 0 < a) : a < (2 : Rat) ^ (ilog2 a + 1) := by
  have hnum : 0 < a.num := Rat.num_pos.mpr ha
  have hn0 : a.num.natAbs ≠ 0 := by omega
  have hd0 : a.den ≠ 0 := a.den_nz
  have hA : ((a.num.natAbs : Nat) : Rat) / (a.den : Rat) = a := by
    have h2 : ((a.num.natAbs : Nat) : Rat) = (a.num : Rat) := by
      rw [Nat.cast_natAbs, abs_of_pos hnum]
    rw [h2]; exact Rat.num_div_den a
  have hup : a < (2 : Rat) ^ ((Nat.log2 a.num.natAbs : Int) - (Nat.log2 a.den : Int) + 1) := by
    have h1 : a.num.natAbs < 2 ^ (Nat.log2 a.num.natAbs + 1) := Nat.lt_log2_self
    have h2 : 2 ^ Nat.log2 a.den ≤ a.den := Nat.log2_self_le hd0
    have h1q : (a.num.natAbs : Rat) < (2 : Rat) ^ (Nat.log2 a.num.natAbs + 1) := by exact_mod_cast h1
    have h2q : (2 : Rat) ^ (Nat.log2 a.den) ≤ (a.den : Rat) := by exact_mod_cast h2
    have hdpos : (0 : Rat) < a.den := by exact_mod_cast Nat.pos_of_ne_zero hd0
    have e : (2 : Rat) ^ ((Nat.log2 a.num.natAbs : Int) - (Nat.log2 a.den : Int) + 1)
        = (2 : Rat) ^ (Nat.log2 a.num.natAbs + 1) / (2 : Rat) ^ (Nat.log2 a.den) := by
      have : ((Nat.log2 a.num.natAbs : Int) - (Nat.log2 a.den : Int) + 1)
          = ((Nat.log2 a.num.natAbs + 1 : Nat) : Int) - ((Nat.log2 a.den : Nat) : Int) := by push_cast; ring
      rw [this, zpow_sub₀ (by norm_num), zpow_natCast, zpow_natCast]
    rw [e]; conv_lhs => rw [← hA]
    have hpp : (0 : Rat) < (2 : Rat) ^ (Nat.log2 a.den) := by positivity
    rw [div_lt_div_iff₀ hdpos hpp]
    calc (a.num.natAbs : Rat) * (2 : Rat) ^ Nat.log2 a.den
        ≤ (a.num.natAbs : Rat) * (a.den : Rat) := mul_le_mul_of_nonneg_left h2q (by positivity)
      _ < (2 : Rat) ^ (Nat.log2 a.num.natAbs + 1) * (a.den : Rat) := mul_lt_mul_of_pos_right h1q hdpos
  unfold ilog2
  simp only [pow2_eq_zpow, hA]
  split
  · have : (2 : Rat) ^ ((Nat.log2 a.num.natAbs : Int) - (Nat.log2 a.den : Int) + 1)
        ≤ (2 : Rat) ^ ((Nat.log2 a.num.natAbs : Int) - (Nat.log2 a.den : Int) + 1 + 1) :=
      zpow_le_zpow_right₀ (by norm_num) (by omega)
    exact lt_of_lt_of_le hup this
  · rename_i h1
    split
    · exact not_le.mp h1
    · rename_i h2
      have : ((Nat.log2 a.num.natAbs : Int) - (Nat.log2 a.den : Int) - 1 + 1)
          = ((Nat.log2 a.num.natAbs : Int) - (Nat.log2 a.den : Int)) := by ring
      rw [this]; exact not_le.mp h2


/-- magnitude rounding of a positive value -/
def rmag (p : Nat) (a : Rat) : Rat :=
  ((Py.roundHE (a / pow2 (ilog2 a - ((p : Int) - 1))) : Int) : Rat) * pow2 (ilog2 a - ((p : Int) - 1))

theorem roundBits_pos (p : Nat) (x : Rat) (hx : 0 < x) : roundBits p x = rmag p x := by
  unfold roundBits rmag
  have hnlt : ¬ (x < 0) := not_lt.mpr hx.le
  simp only [hx.ne', hnlt, if_false]

theorem roundBits_neg (p : Nat) (x : Rat) (hx : x < 0) : roundBits p x = -rmag p (-x) := by
  unfold roundBits rmag
  simp only [hx.ne, hx, if_true, if_false]

theorem rmag_nonneg (p : Nat) (a : Rat) (ha : 0 < a) : 0 ≤ rmag p a := by
  unfold rmag
  rw [pow2_eq_zpow]
  have hpe : (0 : Rat) < (2 : Rat) ^ (ilog2 a - ((p : Int) - 1)) := by positivity
  have h0 : Py.roundHE 0 ≤ Py.roundHE (a / (2 : Rat) ^ (ilog2 a - ((p : Int) - 1))) :=
    roundHE_mono (by positivity)
  have hz : Py.roundHE 0 = 0 := by have := roundHE_int 0; simpa using this
  rw [hz] at h0
  have : (0 : Rat) ≤ ((Py.roundHE (a / (2 : Rat) ^ (ilog2 a - ((p : Int) - 1))) : Int) : Rat) := by exact_mod_cast h0
  positivity

theorem rmag_mono (p : Nat) (hp : 1 ≤ p) (x y : Rat) (hx : 0 < x) (hxy : x ≤ y) : rmag p x ≤ rmag p y := by
  have hy : 0 < y := lt_of_lt_of_le hx hxy
  have lx := pow_ilog2_le x hx
  have ux := lt_pow_ilog2 x hx
  have ly := pow_ilog2_le y hy
  have uy := lt_pow_ilog2 y hy
  have hL : ilog2 x ≤ ilog2 y := by
    have : (2 : Rat) ^ ilog2 x < (2 : Rat) ^ (ilog2 y + 1) := lt_of_le_of_lt lx (lt_of_le_of_lt hxy uy)
    have := (zpow_lt_zpow_iff_right₀ (by norm_num : (1 : Rat) < 2)).mp this
    omega
  unfold rmag
  simp only [pow2_eq_zpow]
  rcases Int.lt_or_eq_of_le hL with hlt | heq
  · -- different binades: rmag x ≤ 2^(Lx+1) ≤ 2^Ly ≤ rmag y
    set Lx := ilog2 x
    set Ly := ilog2 y
    set ex := Lx - ((p : Int) - 1) with hex
    set ey := Ly - ((p : Int) - 1) with hey
    have pex : (0 : Rat) < (2 : Rat) ^ ex := by positivity
    have pey : (0 : Rat) < (2 : Rat) ^ ey := by positivity
    -- upper side
    have hqx : x / (2 : Rat) ^ ex ≤ (((2 : Int) ^ p : Int) : Rat) := by
      rw [div_le_iff₀ pex]
      have : (((2 : Int) ^ p : Int) : Rat) * (2 : Rat) ^ ex = (2 : Rat) ^ (Lx + 1) := by
        push_cast
        rw [← zpow_natCast, ← zpow_add₀ (by norm_num)]; congr 1; omega
      rw [this]; exact ux.le
    have hmx : Py.roundHE (x / (2 : Rat) ^ ex) ≤ (2 : Int) ^ p := by
      have := roundHE_mono hqx; rwa [roundHE_int] at this
    have hmxq : ((Py.roundHE (x / (2 : Rat) ^ ex) : Int) : Rat) ≤ (2 : Rat) ^ p := by exact_mod_cast hmx
    have hA : ((Py.roundHE (x / (2 : Rat) ^ ex) : Int) : Rat) * (2 : Rat) ^ ex ≤ (2 : Rat) ^ (Lx + 1) := by
      have : (2 : Rat) ^ (Lx + 1) = (2 : Rat) ^ p * (2 : Rat) ^ ex := by
        rw [← zpow_natCast, ← zpow_add₀ (by norm_num)]; congr 1; omega
      rw [this]; exact mul_le_mul_of_nonneg_right hmxq pex.le
    -- lower side
    obtain ⟨p', rfl⟩ : ∃ p', p = p' + 1 := ⟨p - 1, by omega⟩
    have hqy : (((2 : Int) ^ p' : Int) : Rat) ≤ y / (2 : Rat) ^ ey := by
      rw [le_div_iff₀ pey]
      have : (((2 : Int) ^ p' : Int) : Rat) * (2 : Rat) ^ ey = (2 : Rat) ^ Ly := by
        push_cast
        rw [← zpow_natCast, ← zpow_add₀ (by norm_num)]; congr 1; push_cast at hey; omega
      rw [this]; exact ly
    have hmy : (2 : Int) ^ p' ≤ Py.roundHE (y / (2 : Rat) ^ ey) := by
      have := roundHE_mono hqy; rwa [roundHE_int] at this
    have hmyq : (2 : Rat) ^ p' ≤ ((Py.roundHE (y / (2 : Rat) ^ ey) : Int) : Rat) := by exact_mod_cast hmy
    have hB : (2 : Rat) ^ Ly ≤ ((Py.roundHE (y / (2 : Rat) ^ ey) : Int) : Rat) * (2 : Rat) ^ ey := by
      have : (2 : Rat) ^ Ly = (2 : Rat) ^ p' * (2 : Rat) ^ ey := by
        rw [← zpow_natCast, ← zpow_add₀ (by norm_num)]; congr 1; push_cast at hey; omega
      rw [this]; exact mul_le_mul_of_nonneg_right hmyq pey.le
    have hC : (2 : Rat) ^ (Lx + 1) ≤ (2 : Rat) ^ Ly := zpow_le_zpow_right₀ (by norm_num) (by omega)
    exact le_trans hA (le_trans hC hB)
  · -- same binade: same grid
    rw [heq]
    have pe : (0 : Rat) < (2 : Rat) ^ (ilog2 y - ((p : Int) - 1)) := by positivity
    have hq : x / (2 : Rat) ^ (ilog2 y - ((p : Int) - 1)) ≤ y / (2 : Rat) ^ (ilog2 y - ((p : Int) - 1)) :=
      div_le_div_of_nonneg_right hxy pe.le
    have hm := roundHE_mono hq
    have hmq : ((Py.roundHE (x / (2 : Rat) ^ (ilog2 y - ((p : Int) - 1))) : Int) : Rat)
        ≤ ((Py.roundHE (y / (2 : Rat) ^ (ilog2 y - ((p : Int) - 1))) : Int) : Rat) := by exact_mod_cast hm
    exact mul_le_mul_of_nonneg_right hmq pe.le

theorem roundBits_mono (p : Nat) (hp : 1 ≤ p) (x y : Rat) (hxy : x ≤ y) : roundBits p x ≤ roundBits p y := by
  have hz : roundBits p 0 = 0 := by simp [roundBits]
  rcases lt_trichotomy x 0 with hx | rfl | hx
  · rcases lt_trichotomy y 0 with hy | rfl | hy
    · rw [roundBits_neg p x hx, roundBits_neg p y hy]
      have := rmag_mono p hp (-y) (-x) (by linarith) (by linarith)
      linarith
    · rw [roundBits_neg p x hx, hz]
      have := rmag_nonneg p (-x) (by linarith); linarith
    · rw [roundBits_neg p x hx, roundBits_pos p y hy]
      have := rmag_nonneg p (-x) (by linarith)
      have := rmag_nonneg p y hy
      linarith
  · rcases lt_or_eq_of_le hxy with hy | rfl
    · rw [hz, roundBits_pos p y hy]; exact rmag_nonneg p y hy
    · exact le_refl _
  · have hy : 0 < y := lt_of_lt_of_le hx hxy
    rw [roundBits_pos p x hx, roundBits_pos p y hy]
    exact rmag_mono p hp x y hx hxy

/-- the concrete rounding instance meets the whole basic contract (exactness, relative error `2^-p`,
monotonicity for `p ≥ 1`) -/
theorem contractBasic_ieee : ContractBasic Rounding.ieee where
  f64_exact := fun x h => roundBits_exact 53 x h
  mp_exact := fun p x h => roundBits_exact p x h
  f64_err := fun x => roundBits_err 53 x
  mp_err := fun p x => roundBits_err p x
  f64_mono := fun x y h => roundBits_mono 53 (by norm_num) x y h
  mp_mono := fun p hp x y h => roundBits_mono p hp x y h

end Plotink
