import Plotink.Model.C11
import Plotink.Proofs.C11Str
/-! `parTokens` on well-formed preserveAspectRatio text: any casing, any non-empty separator runs of
blanks/commas, optional `defer`. -/
namespace Plotink
namespace PyFloat

/-- separator characters of the two attributes: blanks and commas -/
def isSep (c : Char) : Bool := isPySpace c || c == ','
/-- what `.replace(',', ' ').lower()` does to one character -/
def norm (c : Char) : Char := lowerAscii (if c = ',' then ' ' else c)

theorem toNat_ofNat_small (n : Nat) (h : n < 55296) : (Char.ofNat n).toNat = n := by
  have hv : n.isValidChar := Or.inl h
  simp [Char.ofNat, hv, Char.toNat, Char.ofNatAux]

theorem lower_commaToBlank (s : List Char) : lower (commaToBlank s) = s.map norm := by
  simp [lower, commaToBlank, norm, List.map_map, Function.comp_def]

theorem isPySpace_le (c : Char) (h : isPySpace c = true) : c.toNat ≤ 32 := by
  simp only [isPySpace, isCSpace, Bool.or_eq_true, Bool.and_eq_true, beq_iff_eq, decide_eq_true_eq] at h
  omega

theorem lowerAscii_space (c : Char) (h : isPySpace c = true) : lowerAscii c = c := by
  have := isPySpace_le c h
  have h2 : ¬ (65 ≤ c.toNat) := by omega
  simp [lowerAscii, h2]

theorem comma_toNat : (',' : Char).toNat = 44 := by decide
theorem blank_space : isPySpace ' ' = true := by decide

theorem norm_sep (c : Char) (h : isSep c = true) : isPySpace (norm c) = true := by
  simp only [isSep, Bool.or_eq_true, beq_iff_eq] at h
  rcases h with h | h
  · have hc : c ≠ ',' := by
      intro e; subst e; exact absurd h (by decide)
    simp only [norm, hc, if_false]
    rw [lowerAscii_space c h]; exact h
  · subst h; decide

theorem lowerAscii_nonspace (c : Char) (h : isPySpace c = false) : isPySpace (lowerAscii c) = false := by
  unfold lowerAscii
  by_cases hu : (65 ≤ c.toNat && c.toNat ≤ 90) = true
  · rw [if_pos hu]
    simp only [Bool.and_eq_true, decide_eq_true_eq] at hu
    have := toNat_ofNat_small (c.toNat + 32) (by omega)
    simp only [isPySpace, isCSpace, this]
    simp
    omega
  · rw [if_neg hu]; exact h

theorem norm_nonsep (c : Char) (h : isSep c = false) : norm c = lowerAscii c ∧ isPySpace (lowerAscii c) = false := by
  simp only [isSep, Bool.or_eq_false_iff, beq_eq_false_iff_ne] at h
  exact ⟨by simp [norm, h.2], lowerAscii_nonspace c h.1⟩

theorem map_norm_seps (l : List Char) (h : ∀ c ∈ l, isSep c = true) : ∀ c ∈ l.map norm, isPySpace c = true := by
  intro c hc
  rw [List.mem_map] at hc
  obtain ⟨d, hd, rfl⟩ := hc
  exact norm_sep d (h d hd)

theorem map_norm_tok (t : List Char) (h : ∀ c ∈ t, isSep c = false) :
    t.map norm = lower t ∧ ∀ c ∈ lower t, isPySpace c = false := by
  constructor
  · unfold lower
    apply List.map_congr_left
    intro c hc; exact (norm_nonsep c (h c hc)).1
  · intro c hc
    unfold lower at hc
    rw [List.mem_map] at hc
    obtain ⟨d, hd, rfl⟩ := hc
    exact (norm_nonsep d (h d hd)).2

/-- the tokens of `pre ++ strip ++ post`-shaped text do not depend on the surrounding separators:
`strip()` before `split()` is redundant -/
theorem split_norm_strip (s : List Char) :
    pySplit (lower (commaToBlank (pyStrip s))) = pySplit (lower (commaToBlank s)) := by
  obtain ⟨l, r, hl, hr, hs⟩ := stripBy_decomp isPySpace s
  have hl' : ∀ c ∈ l.map norm, isPySpace c = true :=
    map_norm_seps l (fun c hc => by simp [isSep, hl c hc])
  have hr' : ∀ c ∈ r.map norm, isPySpace c = true :=
    map_norm_seps r (fun c hc => by simp [isSep, hr c hc])
  rw [lower_commaToBlank, lower_commaToBlank]
  conv => rhs; rw [hs]
  simp only [pyStrip, pySplit, List.map_append]
  rw [splitGo_spaces _ _ hl']
  -- trailing blanks do not matter
  have key : ∀ (m cur : List Char), splitGo (m ++ r.map norm) cur = splitGo m cur := by
    intro m
    induction m with
    | nil =>
      intro cur
      rw [List.nil_append, splitGo_trailing _ hr']
      simp [splitGo]
    | cons c m ih =>
      intro cur
      simp only [List.cons_append, splitGo, ih]
  rw [key]

end PyFloat

namespace C11
open PyFloat

/-- `a ++ b` for an optional pair of strings -/
def optText : Option (List Char × List Char) → List Char
  | some (a, b) => a ++ b
  | none => []

/-- the text of a preserveAspectRatio attribute: separators, optional (`defer`, separators), the align
word, optional (separators, meetOrSlice word), separators -/
def parText (pre : List Char) (defer : Option (List Char × List Char)) (A : List Char)
    (mos : Option (List Char × List Char)) (post : List Char) : List Char :=
  pre ++ (optText defer ++ (A ++ (optText mos ++ post)))

/-- the meetOrSlice token the code ends up with -/
def mosTok : Option (List Char × List Char) → List Char
  | some (_, M) => lower M
  | none => sMeet

def mosToks : Option (List Char × List Char) → List (List Char)
  | some (_, M) => [lower M]
  | none => []

theorem tail_split (A post : List Char) (mos : Option (List Char × List Char))
    (hpost : ∀ c ∈ post, isSep c = true)
    (hAne : A ≠ []) (hAsep : ∀ c ∈ A, isSep c = false)
    (hmos : ∀ s1 M, mos = some (s1, M) → s1 ≠ [] ∧ (∀ c ∈ s1, isSep c = true) ∧ M ≠ [] ∧
      ∀ c ∈ M, isSep c = false) :
    splitGo ((A ++ (optText mos ++ post)).map norm) [] = lower A :: mosToks mos := by
  have hpost' := map_norm_seps post hpost
  obtain ⟨hAmap, hAns⟩ := map_norm_tok A hAsep
  have hlAne : lower A ≠ [] := by simpa [lower] using hAne
  rw [List.map_append, hAmap]
  rcases mos with _ | ⟨s1, M⟩
  · simp only [optText, mosToks, List.nil_append]
    exact splitGo_tok_end _ _ hlAne hAns hpost'
  · obtain ⟨hs1ne, hs1, hMne, hM⟩ := hmos s1 M rfl
    obtain ⟨hMmap, hMns⟩ := map_norm_tok M hM
    have hlMne : lower M ≠ [] := by simpa [lower] using hMne
    simp only [optText, mosToks, List.map_append, List.append_assoc]
    rw [splitGo_tok_sep _ _ _ hlAne hAns (by simpa using hs1ne) (map_norm_seps s1 hs1), hMmap,
      splitGo_tok_end _ _ hlMne hMns hpost']

theorem parTokens_general (pre post A : List Char) (defer mos : Option (List Char × List Char))
    (hpre : ∀ c ∈ pre, isSep c = true) (hpost : ∀ c ∈ post, isSep c = true)
    (hA : A ≠ [] ∧ (∀ c ∈ A, isSep c = false) ∧ lower A ≠ sDefer)
    (hdefer : ∀ D s0, defer = some (D, s0) → (∀ c ∈ D, isSep c = false) ∧ lower D = sDefer ∧
      s0 ≠ [] ∧ ∀ c ∈ s0, isSep c = true)
    (hmos : ∀ s1 M, mos = some (s1, M) → s1 ≠ [] ∧ (∀ c ∈ s1, isSep c = true) ∧ M ≠ [] ∧
      ∀ c ∈ M, isSep c = false) :
    parTokens (some (parText pre defer A mos post)) = (lower A, mosTok mos) := by
  obtain ⟨hAne, hAsep, hAnd⟩ := hA
  have tail := tail_split A post mos hpost hAne hAsep hmos
  have hpre' := map_norm_seps pre hpre
  unfold parTokens
  simp only
  rw [split_norm_strip, lower_commaToBlank]
  unfold parText pySplit
  rw [List.map_append, splitGo_spaces _ _ hpre']
  rcases defer with _ | ⟨D, s0⟩
  · have e : optText (none : Option (List Char × List Char)) = [] := rfl
    rw [e, List.nil_append, tail]
    rcases mos with _ | ⟨s1, M⟩ <;> simp [hAnd, mosTok, mosToks]
  · obtain ⟨hD, hDl, hs0ne, hs0⟩ := hdefer D s0 rfl
    obtain ⟨hDmap, hDns⟩ := map_norm_tok D hD
    have hDne : lower D ≠ [] := by rw [hDl]; decide
    have e : optText (some (D, s0)) = D ++ s0 := rfl
    rw [e, List.append_assoc, List.map_append, List.map_append, hDmap,
      splitGo_tok_sep _ _ _ hDne hDns (by simpa using hs0ne) (map_norm_seps s0 hs0), tail, hDl]
    rcases mos with _ | ⟨s1, M⟩ <;> simp [mosTok, mosToks]

/-- an attribute made only of separators (or empty) gives the defaults -/
theorem parTokens_blank (s : List Char) (hs : ∀ c ∈ s, isSep c = true) :
    parTokens (some s) = (sXmidYmid, sMeet) := by
  unfold parTokens
  simp only
  rw [split_norm_strip, lower_commaToBlank]
  have := splitGo_trailing (s.map norm) (map_norm_seps s hs) []
  unfold pySplit
  rw [this]
  simp

end C11
end Plotink
