import Plotink.Proofs.C05Frame
import Plotink.Proofs.C04Latch
/-! # What the EBB3 model writes: quiet decoders, acknowledged exchanges

Model-level lemmas about `Model/Ebb3.lean` on a scripted device, used to read the write log of every method off the
master bridge `Ebb3Gen.gen_bridge`.

* `Quiet m`: `m` never writes (decoders, state updates, raising): closed under `bind`.
* `Sends m w l`: running `m` in `w` appends exactly `l` to the write log.
* `Answered n t sc`: the script acknowledges the request text `t` — the write does not fault and the first non-blank
  line among the next `n` reads begins with the request's name and carries no `Err:`; `Acked P xs sc`: it does so for
  the exchanges `xs` one after the other (each consuming its window), and the payload of every query satisfies the
  stated condition.  This is the **acknowledging-script hypothesis** of the methods that transmit several requests. -/
namespace Plotink
namespace Ebb3
open M Spec
set_option linter.unusedVariables false

variable {α β : Type}

/-! ## quiet computations -/

def Quiet (m : M Script α) : Prop := ∀ w, (m w).2.out = w.out

theorem Quiet.pure (a : α) : Quiet (Pure.pure a : M Script α) := fun _ => rfl
theorem Quiet.raise (e : PyExc) : Quiet (M.raise e : M Script α) := fun _ => rfl
theorem Quiet.getSt : Quiet (getSt : M Script St) := fun _ => rfl
theorem Quiet.modifySt (f : St → St) : Quiet (modifySt f : M Script Unit) := fun _ => rfl
theorem Quiet.ofOption (e : PyExc) (o : Option α) : Quiet (ofOption e o : M Script α) := by
  cases o <;> intro w <;> rfl
theorem Quiet.bind {x : M Script α} {f : α → M Script β} (hx : Quiet x) (hf : ∀ a, Quiet (f a)) : Quiet (x >>= f) := by
  intro w
  rw [bind_apply]
  have := hx w
  cases h : x w with
  | mk r w' =>
    rw [h] at this
    cases r with
    | ok a => simp only; rw [hf a w']; exact this
    | error e => exact this
theorem Quiet.ite {c : Prop} [Decidable c] {x y : M Script α} (hx : Quiet x) (hy : Quiet y) :
    Quiet (if c then x else y) := by
  split <;> assumption

/-- running `m` in `w` appends exactly `l` to the write log (whether it returns or raises) -/
def Sends (m : M Script α) (w : World Script) (l : List Str) : Prop := (m w).2.out = w.out ++ l

theorem Sends.bind_quiet {x : M Script α} {f : α → M Script β} {w : World Script} {l : List Str}
    (hx : Sends x w l) (hf : ∀ a, Quiet (f a)) : Sends (x >>= f) w l := by
  unfold Sends at *
  rw [bind_apply]
  cases h : x w with
  | mk r w' =>
    rw [h] at hx
    cases r with
    | ok a => simp only; rw [hf a w']; exact hx
    | error e => exact hx

theorem Sends.of_quiet {m : M Script α} (h : Quiet m) (w : World Script) : Sends m w [] := by
  unfold Sends; rw [h w]; simp

/-- sequencing when the first part returns a known world -/
theorem Sends.bind_ok {x : M Script α} {f : α → M Script β} {w w' : World Script} {a : α} {l₁ l₂ : List Str}
    (hx : x w = (.ok a, w')) (h1 : w'.out = w.out ++ l₁) (h2 : Sends (f a) w' l₂) : Sends (x >>= f) w (l₁ ++ l₂) := by
  unfold Sends at *
  rw [Ebb3.bind_ok hx, h2, h1, List.append_assoc]

/-! ## the decoders are quiet -/

theorem Quiet.boolOfStr (s : Str) : Quiet (boolOfStr s : M Script Val) := by
  unfold Ebb3.boolOfStr; split <;> first | exact Quiet.pure _ | exact Quiet.raise _
theorem Quiet.intOfVal (v : Val) : Quiet (intOfVal v : M Script Val) := by
  unfold Ebb3.intOfVal; split <;> (try split) <;> first | exact Quiet.pure _ | exact Quiet.raise _
theorem Quiet.qeDecode (l : List Str) : Quiet (qeDecode l : M Script Val) := by
  unfold Ebb3.qeDecode
  refine Quiet.bind (Quiet.ofOption _ _) fun a => Quiet.bind (Quiet.ofOption _ _) fun ra => ?_
  split
  · exact Quiet.bind (Quiet.ofOption _ _) fun b => Quiet.bind (Quiet.ofOption _ _) fun rb => Quiet.pure _
  · exact Quiet.raise _
theorem Quiet.int2 (l : List Str) : Quiet (int2 l : M Script Val) := by
  unfold Ebb3.int2
  refine Quiet.bind (Quiet.ofOption _ _) fun a => ?_
  split
  · exact Quiet.bind (Quiet.ofOption _ _) fun b => Quiet.pure _
  · exact Quiet.raise _
theorem Quiet.voltageDecode (th : Int) (p : Str × Option Str) : Quiet (voltageDecode th p : M Script Val) := by
  unfold Ebb3.voltageDecode; split
  · split <;> first | exact Quiet.pure _ | exact Quiet.raise _
  · exact Quiet.pure _
theorem Quiet.currentDecode (p : Str × Option Str) : Quiet (currentDecode p : M Script Val) := by
  unfold Ebb3.currentDecode; split
  · exact Quiet.bind (Quiet.ofOption _ _) fun a => Quiet.bind (Quiet.ofOption _ _) fun b => Quiet.pure _
  · exact Quiet.pure _
theorem Quiet.errIsNone : Quiet (errIsNone : M Script Val) := Quiet.bind Quiet.getSt fun _ => Quiet.pure _

/-! ## one request on a ready object -/

/-- the request's name (`[]` for the empty text) -/
def nameOf (t : Str) : Str := match cmdName t with | .ok n => n | .error _ => []

theorem cmdName_nameOf {t : Str} (h : t ≠ []) : cmdName t = .ok (nameOf t) ∧ nameOf t ≠ [] := by
  obtain ⟨n, hn, hne⟩ := cmdName_ok_of_ne h
  have e : nameOf t = n := by simp only [nameOf, hn]
  rw [e]
  exact ⟨hn, hne⟩

/-- a request text the framing leaves alone: non-empty, without surrounding white space -/
def Plain (t : Str) : Prop := t ≠ [] ∧ strip t = t

/-- `self.command(t)` on a ready object: exactly `t + "\r"` is written, whatever comes back -/
theorem command_sends (P : Params) (t : Str) (ht : Plain t) (w : World Script) (hr : Ready w) :
    ∃ v w', (commandP P scriptDev (some t)).run w = (.ok v, w') ∧ w'.out = w.out ++ [t ++ ['\r']] := by
  obtain ⟨hn, hne⟩ := cmdName_nameOf ht.1
  obtain ⟨st, ⟨reads, ws⟩, out, nr⟩ := w
  have h1 : (commandP P scriptDev (some t)).run ⟨st, ⟨reads, ws⟩, out, nr⟩ = commandCore P scriptDev (strip t) ⟨st, ⟨reads, ws⟩, out, nr⟩ :=
    run_command_ready P scriptDev t _ hr
  rw [h1, ht.2, commandCore_script P t _ hn hne st hr.2 reads ws out nr]
  exact ⟨_, _, rfl, rfl⟩

/-- `self.query(t)` on a ready object: exactly `t + "\r"` is written, whatever comes back -/
theorem query_sends (P : Params) (t : Str) (ht : Plain t) (w : World Script) (hr : Ready w) :
    ∃ v w', (queryP P scriptDev (some t)).run w = (.ok v, w') ∧ w'.out = w.out ++ [t ++ ['\r']] := by
  obtain ⟨hn, hne⟩ := cmdName_nameOf ht.1
  obtain ⟨st, ⟨reads, ws⟩, out, nr⟩ := w
  have h1 : (queryP P scriptDev (some t)).run ⟨st, ⟨reads, ws⟩, out, nr⟩ = queryCore P scriptDev (strip t) ⟨st, ⟨reads, ws⟩, out, nr⟩ :=
    run_query_ready P scriptDev t _ hr
  rw [h1, ht.2, queryCore_script P t _ hn hne st hr.2 reads ws out nr]
  exact ⟨_, _, rfl, rfl⟩

/-! ## acknowledged exchanges -/

/-- the script acknowledges the request `t` within a window of `n` reads -/
def Answered (n : Nat) (t : Str) (sc : Script) : Prop :=
  firstWrite sc = .ok ∧ ∃ resp, firstReply n sc.reads = .text resp ∧ startsWith (nameOf t) resp = true ∧ hasErr resp = false

/-- … and this is the reply -/
def replyText (n : Nat) (sc : Script) : Str := match firstReply n sc.reads with | .text r => r | _ => []

/-- the script after an exchange whose write succeeded -/
def advance (n : Nat) (sc : Script) : Script := ⟨sc.reads.drop (readsUsed n sc.reads), sc.writes.tail⟩

/-- an exchange: a command, or a query whose payload must satisfy `good` -/
inductive Xch where
  | cmd (t : Str)
  | qry (t : Str) (good : Str → Prop)

/-- **the acknowledging-script hypothesis**: each exchange of the list, in order, is answered by a line that begins
with the request's name and carries no `Err:`, after at most `retry` blank reads, on a write that does not fault; the
payload of each query (the reply without name and comma) is `good` -/
def Acked (P : Params) : List Xch → Script → Prop
  | [], _ => True
  | .cmd t :: r, sc => Answered (P.retryCmd + 1) t sc ∧ Acked P r (advance (P.retryCmd + 1) sc)
  | .qry t good :: r, sc =>
      Answered (P.retryQry + 1) t sc ∧ good (stripHeader (nameOf t) (replyText (P.retryQry + 1) sc)) ∧
        Acked P r (advance (P.retryQry + 1) sc)

/-- an acknowledged command: the object stays ready, the script advances past the reply -/
theorem command_acked (P : Params) (t : Str) (ht : Plain t) (w : World Script) (hr : Ready w)
    (ha : Answered (P.retryCmd + 1) t w.dev) :
    ∃ nr, (commandP P scriptDev (some t)).run w =
      (.ok (.bool true), ⟨w.st, advance (P.retryCmd + 1) w.dev, w.out ++ [t ++ ['\r']], nr⟩) := by
  obtain ⟨hn, hne⟩ := cmdName_nameOf ht.1
  obtain ⟨st, ⟨reads, ws⟩, out, nr⟩ := w
  obtain ⟨hw, resp, hrp, hs, he⟩ := ha
  have h1 : (commandP P scriptDev (some t)).run ⟨st, ⟨reads, ws⟩, out, nr⟩ = commandCore P scriptDev (strip t) ⟨st, ⟨reads, ws⟩, out, nr⟩ :=
    run_command_ready P scriptDev t _ hr
  have herr : commandError P t (nameOf t) (firstWrite ⟨reads, ws⟩) reads = Option.none := by
    simp only at hw hrp
    simp [commandError, hw, hrp, hs, he]
  have hst : ({ st with err := Option.none } : St) = st := by
    have := hr.2; simp only at this
    cases st; simp_all
  rw [h1, ht.2, commandCore_script P t _ hn hne st hr.2 reads ws out nr, herr]
  simp only at hw
  refine ⟨nr + readsUsed (P.retryCmd + 1) reads, ?_⟩
  rw [hst, hw]
  rfl

/-- an acknowledged query: the payload is returned, the object stays ready, the script advances -/
theorem query_acked (P : Params) (t : Str) (ht : Plain t) (w : World Script) (hr : Ready w)
    (ha : Answered (P.retryQry + 1) t w.dev) :
    ∃ nr, (queryP P scriptDev (some t)).run w =
      (.ok (.str (stripHeader (nameOf t) (replyText (P.retryQry + 1) w.dev))),
        ⟨w.st, advance (P.retryQry + 1) w.dev, w.out ++ [t ++ ['\r']], nr⟩) := by
  obtain ⟨hn, hne⟩ := cmdName_nameOf ht.1
  obtain ⟨st, ⟨reads, ws⟩, out, nr⟩ := w
  obtain ⟨hw, resp, hrp, hs, he⟩ := ha
  have h1 : (queryP P scriptDev (some t)).run ⟨st, ⟨reads, ws⟩, out, nr⟩ = queryCore P scriptDev (strip t) ⟨st, ⟨reads, ws⟩, out, nr⟩ :=
    run_query_ready P scriptDev t _ hr
  have herr : queryError P t (nameOf t) (firstWrite ⟨reads, ws⟩) reads = Option.none := by
    simp only at hw hrp
    simp [queryError, hw, hrp, hs, he]
  have hval : queryValue P t (nameOf t) (firstWrite ⟨reads, ws⟩) reads = .str (stripHeader (nameOf t) resp) := by
    simp only at hrp
    simp [queryValue, herr, hrp]
  have hst : ({ st with err := Option.none } : St) = st := by
    have := hr.2; simp only at this
    cases st; simp_all
  rw [h1, ht.2, queryCore_script P t _ hn hne st hr.2 reads ws out nr, herr, hval]
  simp only at hw hrp
  refine ⟨nr + readsUsed (P.retryQry + 1) reads, ?_⟩
  rw [hst, hw]
  simp only [usedReads, advance, replyText, hrp]

end Ebb3
end Plotink
