import Plotink.Proofs.C13Build
import Mathlib.Tactic.NormNum

/-! C13: concrete witnesses for the non-vacuity examples in Props/C13.lean. -/
namespace Plotink
namespace C13

/-- two paths starting at (0,0) and (200,0); 3 bins per side; no reversal -/
def wverts : List Path := [((0, 0), (0, 0)), ((200, 0), (0, 0))]

theorem wgeo : geometry wverts 3 false = some ⟨3, -1, -1, 202/3, 2/3⟩ := by
  norm_num [geometry, extent, points, wverts]

theorem near_refl (G : Geo) (p : Pt) : Near (cellOf G p) (cellOf G p) := by
  unfold Near; omega

/-- index of `wverts` after removing path 1, queried far to the right: the only remaining end is
two columns away from the query's (clamped) cell -/
theorem witness_far : ∃ (g : Grid) (live : List Nat) (q : Pt), Inv g live ∧ live ≠ [] ∧
    ∀ id p, LiveEnd g.verts g.rev live id p → ¬ Near (cellOf g.toGeo q) (cellOf g.toGeo p) := by
  have hb : ∃ g0, build wverts 3 false = some g0 ∧ g0.toGeo = ⟨3, -1, -1, 202/3, 2/3⟩ := by
    simp [build, wgeo]
  obtain ⟨g0, hg0, hgeo0⟩ := hb
  obtain ⟨hinv0, e1, e2, e3, _⟩ := inv_build hg0
  have hlen : wverts.length = 2 := rfl
  rw [hlen] at hinv0 e3
  obtain ⟨g, _, hinv, f1, f2, f3, f4⟩ := inv_remove hinv0 (p := 1) (by simp)
  have hlive : ∀ k, k ∈ (List.range 2).filter (· ≠ 1) ↔ k = 0 := by
    intro k; simp only [List.mem_filter, List.mem_range, ne_eq, decide_eq_true_eq]; omega
  refine ⟨g, _, (300, 0), hinv, ?_, ?_⟩
  · intro he
    have := (hlive 0).mpr rfl
    rw [he] at this
    exact absurd this (by simp)
  · intro id p hp
    obtain ⟨hv, hl, hpt⟩ := (liveEnd_iff hinv id p).mp hp
    have hn : g.n = 2 := f3.trans e3
    have hrev : g.rev = false := f2.trans e2
    have hid : id = 0 := by
      rw [hlive] at hl
      unfold ValidId at hv
      rw [hrev, hn] at hv
      unfold pathOf at hl
      rw [hn] at hl
      rcases hv with hv | ⟨hf, _⟩
      · simpa [hv] using hl
      · cases hf
    subst hid
    have hp0 : p = (0, 0) := by
      rw [← hpt]
      unfold endPt endPtV
      rw [f4.trans e1, hn]
      simp [wverts]
    subst hp0
    rw [f1, hgeo0]
    unfold Near cellOf binClamp binHi
    simp only []
    have h1 : (((0 : Rat) - (-1)) / (202 / 3)).floor < 1 := Rat.floor_lt_iff.mpr (by norm_num)
    have h2 : (2 : Int) ≤ (((300 : Rat) - (-1)) / (202 / 3)).floor := Rat.le_floor_iff.mpr (by norm_num)
    omega

/-- any non-empty index queried at one of its live ends -/
theorem witness_near {g : Grid} {live : List Nat} (h : Inv g live) (hne : live ≠ []) :
    ∃ (q : Pt) (id : Nat) (p : Pt), LiveEnd g.verts g.rev live id p ∧
      Near (cellOf g.toGeo q) (cellOf g.toGeo p) ∧ sqDist q p ≤ min g.bx g.by_ * min g.bx g.by_ := by
  cases live with
  | nil => exact absurd rfl hne
  | cons k t =>
    have hk : k < g.n := h.live_lt k (by simp)
    have hl : LiveEnd g.verts g.rev (k :: t) k (endPt g k) :=
      (liveEnd_iff h k _).mpr ⟨Or.inl hk, by simp [pathOf, hk], rfl⟩
    refine ⟨endPt g k, k, endPt g k, hl, near_refl _ _, ?_⟩
    have : sqDist (endPt g k) (endPt g k) = 0 := by simp [sqDist]
    rw [this]
    exact mul_self_nonneg _

end C13
end Plotink
