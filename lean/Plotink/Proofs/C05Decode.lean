import Plotink.Proofs.C05Frame
set_option linter.unusedSimpArgs false
/-!
Well-formed payloads (syntactic) and the fact that the decoders of the methods accept them.
Core Lean only.
-/
namespace Plotink
namespace Ebb3
open M

/-! ### non-blank texts -/

/-- a text with at least one non-whitespace character (exactly the requests that do not raise
`IndexError` in name extraction) -/
def NonBlank (s : Str) : Prop := strip s ≠ []

theorem rstrip_cons_ne {c : Char} {cs : Str} (h : isSpace c = false) : rstrip (c :: cs) ≠ [] := by
  rw [rstrip]
  split <;> simp [h]

theorem nonBlank_cons {c : Char} (rest : Str) (h : isSpace c = false) : NonBlank (c :: rest) := by
  unfold NonBlank strip lstrip
  rw [List.dropWhile_cons]
  simp only [h]
  exact rstrip_cons_ne h

theorem rstrip_id : ∀ (s : Str), (∀ c ∈ s, isSpace c = false) → rstrip s = s
  | [], _ => rfl
  | c :: cs, h => by
    have hc : isSpace c = false := h c (by simp)
    have ih := rstrip_id cs (fun d hd => h d (by simp [hd]))
    rw [rstrip, ih]
    cases cs with
    | nil => simp [hc]
    | cons d ds => rfl

theorem strip_id (s : Str) (h : ∀ c ∈ s, isSpace c = false) : strip s = s := by
  unfold strip lstrip
  cases s with
  | nil => rfl
  | cons c cs =>
    rw [List.dropWhile_cons]
    simp only [h c (by simp)]
    exact rstrip_id _ h

/-! ### numerals -/

def isDigit (c : Char) : Bool := 48 ≤ c.toNat && c.toNat ≤ 57

def digitsVal (ds : Str) (acc : Nat) : Nat := ds.foldl (fun a c => a * 10 + (c.toNat - 48)) acc

/-- one or more decimal digits -/
def decDigits? (ds : Str) : Option Nat :=
  if ds ≠ [] ∧ ds.all isDigit = true then some (digitsVal ds 0) else Option.none

/-- an optional minus sign followed by one or more decimal digits (what the firmware prints) -/
def numeral? : Str → Option Int
  | [] => Option.none
  | c :: cs =>
    if c.toNat = 45 then
      (match decDigits? cs with
       | some n => some (-(Int.ofNat n))
       | Option.none => Option.none)
    else
      (match decDigits? (c :: cs) with
       | some n => some (Int.ofNat n)
       | Option.none => Option.none)

theorem isDigit_not_space {c : Char} (h : isDigit c = true) : isSpace c = false ∧ isSpaceC c = false ∧
    c.toNat ≠ 95 ∧ c.toNat ≠ 45 ∧ c.toNat ≠ 43 ∧ c ≠ ',' := by
  simp only [isDigit, Bool.and_eq_true, decide_eq_true_eq] at h
  refine ⟨?_, ?_, by omega, by omega, by omega, ?_⟩
  · simp [isSpace]; omega
  · simp [isSpaceC]; omega
  · intro hc; subst hc; simp at h

theorem digitVal_digit {c : Char} (h : isDigit c = true) : digitVal 10 c = some (c.toNat - 48) := by
  simp only [isDigit, Bool.and_eq_true, decide_eq_true_eq] at h
  simp only [digitVal, h.1, h.2, and_self, if_true]
  have : c.toNat - 48 < 10 := by omega
  simp [this]

theorem parseDigits_digits : ∀ (ds : Str) (acc : Nat) (st : DigSt),
    ds.all isDigit = true → (ds ≠ [] ∨ st = .digit) →
    parseDigits 10 ds acc st = some (digitsVal ds acc)
  | [], acc, st, _, h => by
    rcases h with h | h
    · exact absurd rfl h
    · subst h; rfl
  | c :: cs, acc, st, hall, _ => by
    simp only [List.all_cons, Bool.and_eq_true] at hall
    have hd := isDigit_not_space hall.1
    simp only [parseDigits, hd.2.2.1, if_false, digitVal_digit hall.1]
    rw [parseDigits_digits cs _ .digit hall.2 (Or.inr rfl)]
    rfl

theorem rstripC_id : ∀ (s : Str), (∀ c ∈ s, isSpaceC c = false) → rstripC s = s
  | [], _ => rfl
  | c :: cs, h => by
    have hc : isSpaceC c = false := h c (by simp)
    have ih := rstripC_id cs (fun d hd => h d (by simp [hd]))
    rw [rstripC, ih]
    cases cs with
    | nil => simp [hc]
    | cons d ds => rfl

theorem decDigits?_some {ds : Str} {n : Nat} (h : decDigits? ds = some n) :
    ds ≠ [] ∧ ds.all isDigit = true ∧ n = digitsVal ds 0 := by
  unfold decDigits? at h
  split at h
  · rename_i hc
    injection h with h
    exact ⟨hc.1, hc.2, h.symm⟩
  · cases h

/-- the characters of a numeral: no whitespace, no comma -/
theorem numeral?_chars {s : Str} {z : Int} (h : numeral? s = some z) :
    s ≠ [] ∧ ∀ c ∈ s, isSpace c = false ∧ isSpaceC c = false ∧ c ≠ ',' := by
  cases s with
  | nil => cases h
  | cons c cs =>
    refine ⟨by simp, ?_⟩
    rw [numeral?] at h
    split at h
    · rename_i hm
      cases hd : decDigits? cs with
      | none => simp [hd] at h
      | some n =>
        have := decDigits?_some hd
        intro d hdm
        simp only [List.mem_cons] at hdm
        rcases hdm with rfl | hdm
        · refine ⟨?_, ?_, ?_⟩
          · simp [isSpace, hm]
          · simp [isSpaceC, hm]
          · intro hc; subst hc; simp at hm
        · have hdd := List.all_eq_true.mp this.2.1 d hdm
          have := isDigit_not_space hdd
          exact ⟨this.1, this.2.1, this.2.2.2.2.2⟩
    · cases hd : decDigits? (c :: cs) with
      | none => simp [hd] at h
      | some n =>
        have := decDigits?_some hd
        intro d hdm
        have hdd := List.all_eq_true.mp this.2.1 d hdm
        have := isDigit_not_space hdd
        exact ⟨this.1, this.2.1, this.2.2.2.2.2⟩

/-- Python's `int()` accepts every numeral, with its value -/
theorem pyInt_numeral {s : Str} {z : Int} (h : numeral? s = some z) : pyInt 10 s = some z := by
  have hch := numeral?_chars h
  cases s with
  | nil => cases h
  | cons c cs =>
    have hdrop : List.dropWhile isSpaceC (c :: cs) = c :: cs := by
      rw [List.dropWhile_cons]; simp [(hch.2 c (by simp)).2.1]
    have hr : rstripC (c :: cs) = c :: cs := rstripC_id _ (fun d hd => (hch.2 d hd).2.1)
    unfold pyInt
    simp only [hdrop, hr]
    rw [numeral?] at h
    by_cases hm : c.toNat = 45
    · simp only [hm, if_true] at h ⊢
      cases hd : decDigits? cs with
      | none => simp [hd] at h
      | some n =>
        have hdd := decDigits?_some hd
        simp only [hd, Option.some.injEq] at h
        have : (10 = 16 ∧ has0x cs = true) = False := by simp
        simp only [this, if_false]
        rw [parseDigits_digits cs 0 .start hdd.2.1 (Or.inl hdd.1)]
        simp only [← hdd.2.2, Option.map_some, if_true, if_false, Bool.false_eq_true]
        exact congrArg some h
    · simp only [hm, if_false] at h ⊢
      cases hd : decDigits? (c :: cs) with
      | none => simp [hd] at h
      | some n =>
        have hdd := decDigits?_some hd
        simp only [hd, Option.some.injEq] at h
        have hc : isDigit c = true := by
          have := hdd.2.1
          simp only [List.all_cons, Bool.and_eq_true] at this
          exact this.1
        have hp : c.toNat ≠ 43 := (isDigit_not_space hc).2.2.2.2.1
        simp only [hp, if_false]
        have : (10 = 16 ∧ has0x (c :: cs) = true) = False := by simp
        simp only [this, if_false]
        rw [parseDigits_digits (c :: cs) 0 .start hdd.2.1 (Or.inl hdd.1)]
        simp only [← hdd.2.2, Option.map_some, if_true, if_false, Bool.false_eq_true]
        exact congrArg some h

/-! ### splitting at the comma -/

theorem splitOn_no_sep (sep : Char) : ∀ (s : Str), sep ∉ s → splitOn sep s = [s]
  | [], _ => rfl
  | c :: cs, h => by
    have hc : c ≠ sep := fun e => h (by simp [e])
    have ih := splitOn_no_sep sep cs (fun m => h (by simp [m]))
    simp [splitOn, hc, ih]

theorem splitOn_append (sep : Char) : ∀ (a b : Str), sep ∉ a →
    splitOn sep (a ++ sep :: b) = a :: splitOn sep b
  | [], b, _ => by simp [splitOn]
  | c :: cs, b, h => by
    have hc : c ≠ sep := fun e => h (by simp [e])
    have ih := splitOn_append sep cs b (fun m => h (by simp [m]))
    simp [splitOn, hc, ih]

theorem split1_append (sep : Char) : ∀ (a b : Str), sep ∉ a → split1 sep (a ++ sep :: b) = (a, some b)
  | [], b, _ => by simp [split1]
  | c :: cs, b, h => by
    have hc : c ≠ sep := fun e => h (by simp [e])
    have ih := split1_append sep cs b (fun m => h (by simp [m]))
    simp [split1, hc, ih]

/-! ### well-formed payloads -/

/-- `a,b` with two numerals whose values satisfy `p` -/
def Good2 (p : Int → Int → Prop) (s : Str) : Prop :=
  ∃ a b za zb, s = a ++ ',' :: b ∧ numeral? a = some za ∧ numeral? b = some zb ∧ p za zb

/-- the payloads the methods decode, per query name (any text for every other name):
`QS`/`QC`: two numerals; `QE`: two numerals from the table {0,1,2,4,8,16}; `PI`: a numeral;
`QL`: a numeral in 0..255 -/
def GoodPayload (name s : Str) : Prop :=
  (name = "QS".toList → Good2 (fun _ _ => True) s) ∧
  (name = "QC".toList → Good2 (fun _ _ => True) s) ∧
  (name = "QE".toList → Good2 (fun a b => (resMap a).isSome = true ∧ (resMap b).isSome = true) s) ∧
  (name = "PI".toList → ∃ z, numeral? s = some z) ∧
  (name = "QL".toList → ∃ z, numeral? s = some z ∧ 0 ≤ z ∧ z < 256)

/-- the queries whose payload some method decodes -/
def parsedNames : List Str := ["QS".toList, "QC".toList, "QE".toList, "PI".toList, "QL".toList]

theorem goodPayload_of_not_parsed {name : Str} (h : name ∉ parsedNames) (s : Str) : GoodPayload name s := by
  simp only [parsedNames, List.mem_cons, List.not_mem_nil, or_false, not_or] at h
  exact ⟨fun e => absurd e h.1, fun e => absurd e h.2.1, fun e => absurd e h.2.2.1,
    fun e => absurd e h.2.2.2.1, fun e => absurd e h.2.2.2.2⟩

theorem good2_facts {p : Int → Int → Prop} {s : Str} (h : Good2 p s) :
    ∃ a b za zb, p za zb ∧ strip s = s ∧ splitOn ',' s = [a, b] ∧ split1 ',' s = (a, some b) ∧
      pyInt 10 a = some za ∧ pyInt 10 b = some zb := by
  obtain ⟨a, b, za, zb, hs, ha, hb, hp⟩ := h
  have hca := numeral?_chars ha
  have hcb := numeral?_chars hb
  have hna : ',' ∉ a := fun m => (hca.2 _ m).2.2 rfl
  have hnb : ',' ∉ b := fun m => (hcb.2 _ m).2.2 rfl
  refine ⟨a, b, za, zb, hp, ?_, ?_, ?_, pyInt_numeral ha, pyInt_numeral hb⟩
  · apply strip_id
    intro c hc
    rw [hs] at hc
    simp only [List.mem_append, List.mem_cons] at hc
    rcases hc with hc | rfl | hc
    · exact (hca.2 c hc).1
    · decide
    · exact (hcb.2 c hc).1
  · rw [hs, splitOn_append ',' a b hna, splitOn_no_sep ',' b hnb]
  · rw [hs, split1_append ',' a b hna]

variable {σ : Type}

theorem int2_good {p : Int → Int → Prop} {s : Str} (h : Good2 p s) (w : World σ) :
    ∃ za zb, int2 (splitOn ',' (strip s)) w = (.ok (.pair (.int za) (.int zb)), w) := by
  obtain ⟨a, b, za, zb, -, hst, hsp, -, ha, hb⟩ := good2_facts h
  refine ⟨za, zb, ?_⟩
  rw [hst, hsp]
  simp [int2, ha, hb, bind_apply]

theorem qeDecode_good {s : Str}
    (h : Good2 (fun a b => (resMap a).isSome = true ∧ (resMap b).isSome = true) s) (w : World σ) :
    ∃ ra rb, qeDecode (splitOn ',' s) w = (.ok (.pair (.int ra) (.int rb)), w) := by
  obtain ⟨a, b, za, zb, hp, -, hsp, -, ha, hb⟩ := good2_facts h
  obtain ⟨ra, hra⟩ := Option.isSome_iff_exists.mp hp.1
  obtain ⟨rb, hrb⟩ := Option.isSome_iff_exists.mp hp.2
  refine ⟨ra, rb, ?_⟩
  rw [hsp]
  simp [qeDecode, ha, hb, hra, hrb, bind_apply]

theorem currentDecode_good {p : Int → Int → Prop} {s : Str} (h : Good2 p s) (w : World σ) :
    ∃ za zb, currentDecode (split1 ',' s) w = (.ok (.pair (.int za) (.int zb)), w) := by
  obtain ⟨a, b, za, zb, -, -, -, hsp, ha, hb⟩ := good2_facts h
  refine ⟨za, zb, ?_⟩
  rw [hsp]
  simp [currentDecode, ha, hb, bind_apply]

theorem voltageDecode_good {p : Int → Int → Prop} {s : Str} (th : Int) (h : Good2 p s) (w : World σ) :
    ∃ b, voltageDecode th (split1 ',' s) w = (.ok (.bool b), w) := by
  obtain ⟨a, b, za, zb, -, -, -, hsp, ha, hb⟩ := good2_facts h
  refine ⟨!(zb < th), ?_⟩
  rw [hsp]
  simp [voltageDecode, hb]

theorem boolOfStr_good {s : Str} {z : Int} (h : numeral? s = some z) (w : World σ) :
    boolOfStr s w = (.ok (.bool (z ≠ 0)), w) := by
  simp [boolOfStr, pyInt_numeral h]

theorem intOfVal_good {s : Str} {z : Int} (h : numeral? s = some z) (w : World σ) :
    intOfVal (.str s) w = (.ok (.int z), w) := by
  simp [intOfVal, pyInt_numeral h]

end Ebb3
end Plotink
