import Plotink.Proofs.C13Gen
import Plotink.Proofs.C13Adj
import Plotink.Proofs.C13Build

/-! # C13 — the regenerated constructor: `Gen.grid_Index_find_adjacents` and `Gen.grid_Index_init` are the model's `adjacents` / `build`

Both are regenerated from `plotink/spatial_grid.py` (`lean/Plotink/Gen/grid_Index.lean`).  Exact arithmetic.

* `find_adjacents_bridge` — the two nested `range(bins_per_side)` loops with their up-to-eight guarded `append`s build exactly
  `C13.adjacents bins` (`fa_body2`: one cell, 16 guard cases; `rowFold`/`allFold`: the loops as folds over the table;
  `allFold_eq_adjacents`), every other field is left alone;
* `init_body1`/`init_loop1` — the extent loop over `math.inf`/`-math.inf` sentinels is the fold `extP`, which is the model's
  `extent` (`foldl_extP`, `foldl_extPath`);
* `binHi_bridge`, `place` — `min(math.floor((v - lo) / size), max_bin)` is `binHi`; one `self.grid[gi].append(id);
  self.lookup[id] = gi` is `List.modify`/`List.set` at `cellIdxHi`;
* `init_body2`/`init_loop2` — the `enumerate(vertices)` loop is the model's `buildLoop` (every index is in range because every
  indexed vertex lies inside the extent: `geometry_spec`, `binHi_eq_clamp`, `cellIdx_lt`);
* `initTail`/`init_unfold` — the text of the generated `__init__` split (checked by `rfl`) into its header and the part
  after the extent loop, so that the latter can be evaluated for an arbitrary instance; `initTail_eq`; `comp_const` — the
  `[0 for …]`/`[[] for …]` comprehensions;
* `init_bridge` — `build verts bins rev = some g → Gen.grid_Index_init … = encGrid g`. -/

namespace Plotink
namespace C13
open Py Py.Val
set_option linter.unusedSimpArgs false
set_option linter.unusedVariables false

/-- an instance whose `adjacents` field holds `A` (all other fields arbitrary) -/
def instA (f1 : Val) (A : List (List Nat)) (f3 f4 f5 f6 f7 f8 f9 f10 : Val) (bins : Nat) : Val :=
  .tup [.str "Index", f1, encCells A, f3, f4, f5, f6, f7, f8, f9, f10, .int (bins : Int)]

section
variable (f1 f3 f4 f5 f6 f7 f8 f9 f10 : Val) (bins : Nat)

theorem instA_get2 (A : List (List Nat)) : Py.getItem (instA f1 A f3 f4 f5 f6 f7 f8 f9 f10 bins) 2 = encCells A := rfl
theorem instA_get11 (A : List (List Nat)) : Py.getItem (instA f1 A f3 f4 f5 f6 f7 f8 f9 f10 bins) 11 = .int (bins : Int) := rfl
theorem instA_set2 (A B : List (List Nat)) :
    Py.setField (instA f1 A f3 f4 f5 f6 f7 f8 f9 f10 bins) 2 (encCells B) = instA f1 B f3 f4 f5 f6 f7 f8 f9 f10 bins := rfl

theorem list_append_nats (l : List Nat) (v : Nat) : Py.list_append (encNats l) (encNat v) = encNats (l ++ [v]) := by
  simp [Py.list_append, encNats]

/-- `self.adjacents[i].append(v)` -/
theorem append_entry (A : List (List Nat)) (i v : Nat) (cur : List Nat) (h : A[i]? = some cur) :
    Py.setField (instA f1 A f3 f4 f5 f6 f7 f8 f9 f10 bins) 2
      (Py.setItem (Py.getItem (instA f1 A f3 f4 f5 f6 f7 f8 f9 f10 bins) 2) (encNat i)
        (Py.list_append (Py.index (Py.getItem (instA f1 A f3 f4 f5 f6 f7 f8 f9 f10 bins) 2) (encNat i)) (encNat v)))
      = instA f1 (A.set i (cur ++ [v])) f3 f4 f5 f6 f7 f8 f9 f10 bins := by
  have hi : i < A.length := by
    by_contra hc; rw [List.getElem?_eq_none (by omega)] at h; cases h
  rw [instA_get2, encCells, encNat, index_list encNats A i cur h, list_append_nats, setItem_list encNats A i _ hi]
  rfl

/-- a guarded `if c: self.adjacents[i].append(v)` on an instance whose entry `i` is `cur` -/
theorem cond_append (A : List (List Nat)) (i : Nat) (hi : i < A.length) (cur : List Nat) (c : Bool) (vv : Val) (vn : Nat)
    (hv : c = true → vv = encNat vn) :
    (if c = true then
        Py.setField (instA f1 (A.set i cur) f3 f4 f5 f6 f7 f8 f9 f10 bins) 2
          (Py.setItem (Py.getItem (instA f1 (A.set i cur) f3 f4 f5 f6 f7 f8 f9 f10 bins) 2) (encNat i)
            (Py.list_append (Py.index (Py.getItem (instA f1 (A.set i cur) f3 f4 f5 f6 f7 f8 f9 f10 bins) 2) (encNat i)) vv))
      else instA f1 (A.set i cur) f3 f4 f5 f6 f7 f8 f9 f10 bins)
      = instA f1 (A.set i (if c = true then cur ++ [vn] else cur)) f3 f4 f5 f6 f7 f8 f9 f10 bins := by
  cases c with
  | false => simp only [Bool.false_eq_true, if_false]
  | true =>
    simp only [if_true]
    rw [hv rfl, append_entry f1 f3 f4 f5 f6 f7 f8 f9 f10 bins (A.set i cur) i vn cur (by simp [hi]), List.set_set]
end


section
variable (f1 f3 f4 f5 f6 f7 f8 f9 f10 : Val) (bins : Nat)
abbrev KA2 := Val → Val → Val → Loop (Val × Val × Val)

theorem append_set (A : List (List Nat)) (i : Nat) (hi : i < A.length) (cur : List Nat) (v : Nat) :
    Py.setField (instA f1 (A.set i cur) f3 f4 f5 f6 f7 f8 f9 f10 bins) 2
      (Py.setItem (Py.getItem (instA f1 (A.set i cur) f3 f4 f5 f6 f7 f8 f9 f10 bins) 2) (encNat i)
        (Py.list_append (Py.index (Py.getItem (instA f1 (A.set i cur) f3 f4 f5 f6 f7 f8 f9 f10 bins) 2) (encNat i)) (encNat v)))
      = instA f1 (A.set i (cur ++ [v])) f3 f4 f5 f6 f7 f8 f9 f10 bins := by
  rw [append_entry f1 f3 f4 f5 f6 f7 f8 f9 f10 bins (A.set i cur) i v cur (by simp [hi]), List.set_set]

theorem gtE_nat0 (y : Nat) : Py.gtE (encNat y) (.int 0) = decide (y > 0) := by
  simp [encNat, Py.gtE, Py.infSign, Py.gt, Py.num]
theorem ltE_maxbin (y bins : Nat) (hb : 0 < bins) : Py.ltE (encNat y) (.int ((bins : Int) - 1)) = decide (y < bins - 1) := by
  simp only [encNat, Py.ltE, Py.infSign, Py.lt, Py.num, and_self, if_true]
  congr 1
  apply propext
  constructor
  · intro h
    have : ((y : Int) : Rat) < (((bins : Int) - 1 : Int) : Rat) := by exact_mod_cast h
    have h' : (y : Int) < (bins : Int) - 1 := by exact_mod_cast this
    omega
  · intro h
    have h' : (y : Int) < (bins : Int) - 1 := by omega
    exact_mod_cast h'

theorem fa_body2 (amb : Nat) (k : KA2) (A : List (List Nat)) (x y : Nat) (hx : x < bins) (hy : y < bins)
    (hA : A[x + y * bins]? = some [x + y * bins]) (jx ji : Val) :
    Gen.grid_Index_find_adjacents_body2 Rounding.exact amb (.int ((bins : Int) - 1)) (encNat y) k (encNat x) jx ji
      (instA f1 A f3 f4 f5 f6 f7 f8 f9 f10 bins) =
    k (encNat x) (encNat (x + y * bins)) (instA f1 (A.set (x + y * bins) (adjOf bins x y)) f3 f4 f5 f6 f7 f8 f9 f10 bins) := by
  have hi : x + y * bins < A.length := by
    by_contra hc; rw [List.getElem?_eq_none (by omega)] at hA; exact absurd hA (by simp)
  have hb : 0 < bins := by omega
  have hidx : Py.add Rounding.exact amb (encNat x) (Py.mul Rounding.exact amb (encNat y) (.int (bins : Int))) = encNat (x + y * bins) := by
    show Val.int ((x : Int) + (y : Int) * (bins : Int)) = Val.int _
    congr 1
  have hA0 : A = A.set (x + y * bins) [x + y * bins] := by
    apply List.ext_getElem?
    intro n
    by_cases hn : n = x + y * bins
    · subst hn; rw [List.getElem?_set_self hi]; exact hA
    · rw [List.getElem?_set_ne (Ne.symm hn)]
  have hyb : 0 < y → bins ≤ y * bins := fun h => Nat.le_mul_of_pos_left bins h
  generalize hI : x + y * bins = i at *
  -- the appended values as naturals
  have v1 : 0 < x → Py.sub Rounding.exact amb (encNat i) (.int 1) = encNat (i - 1) := by
    intro h; show Val.int ((i : Int) - 1) = Val.int _; congr 1; omega
  have v2 : 0 < x → 0 < y → Py.sub Rounding.exact amb (Py.sub Rounding.exact amb (encNat i) (.int (bins : Int))) (.int 1) = encNat (i - bins - 1) := by
    intro h h'; have := hyb h'; show Val.int ((i : Int) - bins - 1) = Val.int _; congr 1; omega
  have v3 : 0 < x → Py.sub Rounding.exact amb (Py.add Rounding.exact amb (encNat i) (.int (bins : Int))) (.int 1) = encNat (i + bins - 1) := by
    intro h; show Val.int ((i : Int) + bins - 1) = Val.int _; congr 1; omega
  have v4 : Py.add Rounding.exact amb (encNat i) (.int 1) = encNat (i + 1) := rfl
  have v5 : 0 < y → Py.add Rounding.exact amb (Py.sub Rounding.exact amb (encNat i) (.int (bins : Int))) (.int 1) = encNat (i - bins + 1) := by
    intro h'; have := hyb h'; show Val.int ((i : Int) - bins + 1) = Val.int _; congr 1; omega
  have v6 : Py.add Rounding.exact amb (Py.add Rounding.exact amb (encNat i) (.int (bins : Int))) (.int 1) = encNat (i + bins + 1) := rfl
  have v7 : 0 < y → Py.sub Rounding.exact amb (encNat i) (.int (bins : Int)) = encNat (i - bins) := by
    intro h'; have := hyb h'; show Val.int ((i : Int) - bins) = Val.int _; congr 1; omega
  have v8 : Py.add Rounding.exact amb (encNat i) (.int (bins : Int)) = encNat (i + bins) := rfl
  have w2 : 0 < x → 0 < y → Py.sub Rounding.exact amb (encNat (i - bins)) (.int 1) = encNat (i - bins - 1) := by
    intro h h'; have := hyb h'; show Val.int (((i - bins : Nat) : Int) - 1) = Val.int _; congr 1; omega
  have w3 : 0 < x → Py.sub Rounding.exact amb (encNat (i + bins)) (.int 1) = encNat (i + bins - 1) := by
    intro h; show Val.int (((i + bins : Nat) : Int) - 1) = Val.int _; congr 1; omega
  have w5 : Py.add Rounding.exact amb (encNat (i - bins)) (.int 1) = encNat (i - bins + 1) := rfl
  have w6 : Py.add Rounding.exact amb (encNat (i + bins)) (.int 1) = encNat (i + bins + 1) := rfl
  unfold Gen.grid_Index_find_adjacents_body2
  simp only [instA_get11, hidx, gtE_nat0, ltE_maxbin _ _ hb]
  rw [hA0]
  unfold adjOf
  simp only [hI]
  by_cases c1 : 0 < x <;> by_cases c2 : x < bins - 1 <;> by_cases c3 : 0 < y <;> by_cases c4 : y < bins - 1 <;>
    simp only [c1, c2, c3, c4, gt_iff_lt, decide_true, decide_false, if_true, if_false, Bool.false_eq_true, instA_get11,
      v1, v4, v7, v8, w2, w3, w5, w6, forall_const, append_set f1 f3 f4 f5 f6 f7 f8 f9 f10 bins A i hi, List.set_set,
      List.append_assoc, List.cons_append, List.nil_append, List.append_nil]

/-- the row update: the entries `x + y * bins` for `x` in `xs` are replaced by their adjacency lists -/
def rowFold (bins y : Nat) (xs : List Nat) (A : List (List Nat)) : List (List Nat) :=
  xs.foldl (fun A x => A.set (x + y * bins) (adjOf bins x y)) A

theorem rowFold_length (bins y : Nat) (xs : List Nat) (A : List (List Nat)) : (rowFold bins y xs A).length = A.length := by
  unfold rowFold
  induction xs generalizing A with
  | nil => rfl
  | cons x xs ih => rw [List.foldl_cons, ih, List.length_set]

theorem fa_loop2 (amb : Nat) (y : Nat) (hy : y < bins) : ∀ (xs : List Nat) (A : List (List Nat)), xs.Nodup →
    (∀ x ∈ xs, x < bins ∧ A[x + y * bins]? = some [x + y * bins]) → ∀ (jx ji : Val),
    ∃ k0 k1, Gen.grid_Index_find_adjacents_loop2 Rounding.exact amb (.int ((bins : Int) - 1)) (encNat y) (xs.map encNat) jx ji
      (instA f1 A f3 f4 f5 f6 f7 f8 f9 f10 bins) = .done (k0, k1, instA f1 (rowFold bins y xs A) f3 f4 f5 f6 f7 f8 f9 f10 bins) := by
  intro xs
  induction xs with
  | nil => intro A _ _ jx ji; exact ⟨_, _, rfl⟩
  | cons x xs ih =>
    intro A hnd h jx ji
    obtain ⟨hx, hA⟩ := h x (by simp)
    rw [List.map_cons, Gen.grid_Index_find_adjacents_loop2,
      fa_body2 f1 f3 f4 f5 f6 f7 f8 f9 f10 bins amb _ A x y hx hy hA]
    have hnd' := (List.nodup_cons.mp hnd)
    refine ih _ hnd'.2 (fun x' hx' => ?_) _ _
    obtain ⟨hx'b, hA'⟩ := h x' (by simp [hx'])
    refine ⟨hx'b, ?_⟩
    have hne : x + y * bins ≠ x' + y * bins := by
      intro e; have : x = x' := by omega
      subst this; exact hnd'.1 hx'
    rw [List.getElem?_set_ne hne]; exact hA'
end


/-! ### what the two nested loops compute -/

theorem rowFold_other (bins y : Nat) (xs : List Nat) (A : List (List Nat)) (n : Nat)
    (h : ∀ x ∈ xs, x + y * bins ≠ n) : (rowFold bins y xs A)[n]? = A[n]? := by
  unfold rowFold
  induction xs generalizing A with
  | nil => rfl
  | cons x xs ih =>
    rw [List.foldl_cons, ih _ (fun x' hx' => h x' (by simp [hx'])), List.getElem?_set_ne (h x (by simp))]

theorem rowFold_mem (bins y : Nat) (xs : List Nat) (A : List (List Nat)) (hnd : xs.Nodup) (x : Nat) (hx : x ∈ xs)
    (hlt : x + y * bins < A.length) : (rowFold bins y xs A)[x + y * bins]? = some (adjOf bins x y) := by
  induction xs generalizing A with
  | nil => simp at hx
  | cons x0 xs ih =>
    have hnd' := List.nodup_cons.mp hnd
    show (rowFold bins y xs (A.set (x0 + y * bins) (adjOf bins x0 y)))[x + y * bins]? = _
    rcases List.mem_cons.mp hx with rfl | hx'
    · have hoth : ∀ x' ∈ xs, x' + y * bins ≠ x + y * bins := by
        intro x' hx' e
        have : x' = x := by omega
        subst this
        exact hnd'.1 hx'
      rw [rowFold_other _ _ _ _ _ hoth, List.getElem?_set_self hlt]
    · exact ih _ hnd'.2 hx' (by rw [List.length_set]; exact hlt)

def allFold (bins : Nat) (ys : List Nat) (A : List (List Nat)) : List (List Nat) :=
  ys.foldl (fun A y => rowFold bins y (List.range bins) A) A

theorem allFold_length (bins : Nat) (ys : List Nat) (A : List (List Nat)) : (allFold bins ys A).length = A.length := by
  unfold allFold
  induction ys generalizing A with
  | nil => rfl
  | cons y ys ih => rw [List.foldl_cons, ih, rowFold_length]

theorem idx_ne {bins x y x' y' : Nat} (hx : x < bins) (hx' : x' < bins) (hy : y ≠ y') : x + y * bins ≠ x' + y' * bins := by
  intro e
  have h1 : (x + y * bins) / bins = y := by
    rw [Nat.add_mul_div_right _ _ (by omega), Nat.div_eq_of_lt hx, Nat.zero_add]
  have h2 : (x' + y' * bins) / bins = y' := by
    rw [Nat.add_mul_div_right _ _ (by omega), Nat.div_eq_of_lt hx', Nat.zero_add]
  rw [e] at h1
  exact hy (h1.symm.trans h2)

theorem allFold_other (bins : Nat) (ys : List Nat) (A : List (List Nat)) (x y : Nat) (hx : x < bins) (hy : y ∉ ys) :
    (allFold bins ys A)[x + y * bins]? = A[x + y * bins]? := by
  unfold allFold
  induction ys generalizing A with
  | nil => rfl
  | cons y0 ys ih =>
    rw [List.foldl_cons, ih _ (fun h => hy (by simp [h])),
      rowFold_other _ _ _ _ _ (fun x' hx' => idx_ne (List.mem_range.mp hx') hx (fun e => hy (by simp [e])))]

theorem allFold_mem (bins : Nat) (ys : List Nat) (A : List (List Nat)) (hnd : ys.Nodup) (x y : Nat) (hx : x < bins)
    (hy : y ∈ ys) (hlt : x + y * bins < A.length) : (allFold bins ys A)[x + y * bins]? = some (adjOf bins x y) := by
  induction ys generalizing A with
  | nil => simp at hy
  | cons y0 ys ih =>
    have hnd' := List.nodup_cons.mp hnd
    show (allFold bins ys (rowFold bins y0 (List.range bins) A))[x + y * bins]? = _
    rcases List.mem_cons.mp hy with rfl | hy'
    · rw [allFold_other _ _ _ _ _ hx hnd'.1, rowFold_mem _ _ _ _ List.nodup_range x (List.mem_range.mpr hx) hlt]
    · exact ih _ hnd'.2 hy' (by rw [rowFold_length]; exact hlt)

/-- the two nested loops of `find_adjacents`, started from `[[a] for a in range(bins*bins)]`, build the model's table -/
theorem allFold_eq_adjacents (bins : Nat) :
    allFold bins (List.range bins) ((List.range (bins * bins)).map (fun a => [a])) = adjacents bins := by
  apply List.ext_getElem?
  intro n
  by_cases hn : n < bins * bins
  · have hb : 0 < bins := by
      rcases Nat.eq_zero_or_pos bins with h | h
      · subst h; simp at hn
      · exact h
    have hx : n % bins < bins := Nat.mod_lt _ hb
    have hy : n / bins < bins := Nat.div_lt_of_lt_mul hn
    have hdecomp : n = n % bins + n / bins * bins := by
      have := Nat.mod_add_div n bins; rw [Nat.mul_comm] at this; omega
    rw [hdecomp, allFold_mem bins _ _ List.nodup_range _ _ hx (List.mem_range.mpr hy) (by simp; omega)]
    rw [← hdecomp]
    simp [adjacents, hn]
  · rw [List.getElem?_eq_none (by rw [allFold_length]; simp; omega),
      List.getElem?_eq_none (by rw [adjacents_length]; omega)]


section
variable (f1 f3 f4 f5 f6 f7 f8 f9 f10 : Val) (bins : Nat)
abbrev KA1 := Val → Val → Val → Val → Loop (Val × Val × Val × Val)

theorem fa_loop1 (amb : Nat) : ∀ (ys : List Nat) (A : List (List Nat)), ys.Nodup →
    (∀ y ∈ ys, y < bins ∧ ∀ x, x < bins → A[x + y * bins]? = some [x + y * bins]) → ∀ (jy jx ji : Val),
    ∃ k0 k1 k2, Gen.grid_Index_find_adjacents_loop1 Rounding.exact amb (.int ((bins : Int) - 1)) (ys.map encNat) jy jx ji
      (instA f1 A f3 f4 f5 f6 f7 f8 f9 f10 bins) = .done (k0, k1, k2, instA f1 (allFold bins ys A) f3 f4 f5 f6 f7 f8 f9 f10 bins) := by
  intro ys
  induction ys with
  | nil => intro A _ _ jy jx ji; exact ⟨_, _, _, rfl⟩
  | cons y ys ih =>
    intro A hnd h jy jx ji
    obtain ⟨hy, hA⟩ := h y (by simp)
    have hnd' := List.nodup_cons.mp hnd
    rw [List.map_cons, Gen.grid_Index_find_adjacents_loop1]
    unfold Gen.grid_Index_find_adjacents_body1
    have hit : Py.iter (Py.range_ [Py.getItem (instA f1 A f3 f4 f5 f6 f7 f8 f9 f10 bins) 11]) = some ((List.range bins).map encNat) := by
      rw [instA_get11, range_len]; rfl
    simp only [hit]
    obtain ⟨k0, k1, hl⟩ := fa_loop2 f1 f3 f4 f5 f6 f7 f8 f9 f10 bins amb y hy (List.range bins) A List.nodup_range
      (fun x hx => ⟨List.mem_range.mp hx, hA x (List.mem_range.mp hx)⟩) jx ji
    rw [hl]
    refine ih _ hnd'.2 (fun y' hy' => ?_) _ _ _
    obtain ⟨hy'b, hA'⟩ := h y' (by simp [hy'])
    refine ⟨hy'b, fun x hx => ?_⟩
    rw [rowFold_other _ _ _ _ _ (fun x0 hx0 => idx_ne (List.mem_range.mp hx0) hx (fun e => hnd'.1 (by rw [e]; exact hy')))]
    exact hA' x hx

theorem comp_singletons (N : Nat) :
    Py.comp (encNats (List.range N)) (fun it => some (Val.tup [it])) = encCells ((List.range N).map (fun a => [a])) := by
  simp only [Py.comp, encNats, Py.iter, encCells, List.map_map]
  congr 1
  induction (List.range N) with
  | nil => rfl
  | cons a l ih => simp only [List.map_cons, List.filterMap_cons, ih]; rfl

/-- **bridge** (`find_adjacents`): sets `self.adjacents` to the model's adjacency table, nothing else changes -/
theorem find_adjacents_bridge (amb : Nat) (A : List (List Nat)) :
    Gen.grid_Index_find_adjacents Rounding.exact amb (instA f1 A f3 f4 f5 f6 f7 f8 f9 f10 bins)
      = .tup [.none_, instA f1 (adjacents bins) f3 f4 f5 f6 f7 f8 f9 f10 bins] := by
  unfold Gen.grid_Index_find_adjacents
  have hmul : Py.mul Rounding.exact amb (.int (bins : Int)) (.int (bins : Int)) = .int ((bins * bins : Nat) : Int) := by
    show Val.int ((bins : Int) * bins) = _
    congr 1
  simp only [instA_get11, hmul, range_len, comp_singletons, instA_set2]
  have hsub : Py.sub Rounding.exact amb (.int (bins : Int)) (.int 1) = .int ((bins : Int) - 1) := rfl
  have hit : Py.iter (encNats (List.range bins)) = some ((List.range bins).map encNat) := rfl
  rw [hsub, hit]
  simp only
  obtain ⟨k0, k1, k2, hl⟩ := fa_loop1 f1 f3 f4 f5 f6 f7 f8 f9 f10 bins amb (List.range bins)
    ((List.range (bins * bins)).map (fun a => [a])) List.nodup_range
    (fun y hy => ⟨List.mem_range.mp hy, fun x hx => by
      have := idx_lt hx (List.mem_range.mp hy)
      simp [this]⟩) .err .err .err
  rw [hl, allFold_eq_adjacents]
end


/-! ### `__init__` -/

/-- the eleven attributes of an instance under construction -/
structure Flds where
  f1 : Val
  f2 : Val
  f3 : Val
  f4 : Val
  f5 : Val
  f6 : Val
  f7 : Val
  f8 : Val
  f9 : Val
  f10 : Val
  f11 : Val

def encF (F : Flds) : Val := .tup [.str "Index", F.f1, F.f2, F.f3, F.f4, F.f5, F.f6, F.f7, F.f8, F.f9, F.f10, F.f11]

section flds
variable (F : Flds) (v : Val)
theorem gF1 : Py.getItem (encF F) 1 = F.f1 := rfl
theorem gF3 : Py.getItem (encF F) 3 = F.f3 := rfl
theorem gF4 : Py.getItem (encF F) 4 = F.f4 := rfl
theorem gF7 : Py.getItem (encF F) 7 = F.f7 := rfl
theorem gF8 : Py.getItem (encF F) 8 = F.f8 := rfl
theorem gF9 : Py.getItem (encF F) 9 = F.f9 := rfl
theorem gF10 : Py.getItem (encF F) 10 = F.f10 := rfl
theorem gF11 : Py.getItem (encF F) 11 = F.f11 := rfl
theorem sF1 : Py.setField (encF F) 1 v = encF { F with f1 := v } := rfl
theorem sF3 : Py.setField (encF F) 3 v = encF { F with f3 := v } := rfl
theorem sF4 : Py.setField (encF F) 4 v = encF { F with f4 := v } := rfl
theorem sF5 : Py.setField (encF F) 5 v = encF { F with f5 := v } := rfl
theorem sF6 : Py.setField (encF F) 6 v = encF { F with f6 := v } := rfl
theorem sF7 : Py.setField (encF F) 7 v = encF { F with f7 := v } := rfl
theorem sF8 : Py.setField (encF F) 8 v = encF { F with f8 := v } := rfl
theorem sF9 : Py.setField (encF F) 9 v = encF { F with f9 := v } := rfl
theorem sF10 : Py.setField (encF F) 10 v = encF { F with f10 := v } := rfl
theorem sF11 : Py.setField (encF F) 11 v = encF { F with f11 := v } := rfl
end flds

/-- the running extent `(xmin, xmax, ymin, ymax)`; `none` = `(inf, -inf, inf, -inf)` -/
def extP : Option (Rat × Rat × Rat × Rat) → Pt → Option (Rat × Rat × Rat × Rat)
  | none, p => some (p.1, p.1, p.2, p.2)
  | some (x0, x1, y0, y1), p => some (min x0 p.1, max x1 p.1, min y0 p.2, max y1 p.2)

/-- the four running values as Python values: `self.xmin`, `xmax`, `self.ymin`, `ymax` -/
def extV : Option (Rat × Rat × Rat × Rat) → Val × Val × Val × Val
  | none => (Py.posInf, Py.negInf, Py.posInf, Py.negInf)
  | some (x0, x1, y0, y1) => (.flt x0, .flt x1, .flt y0, .flt y1)

theorem minE_ext (a : Val) (x : Rat) (h : a = Py.posInf ∨ ∃ q, a = .flt q) :
    Py.minE [a, .flt x] = (match a with | .flt q => .flt (min q x) | _ => .flt x) := by
  rcases h with rfl | ⟨q, rfl⟩
  · simp [Py.minE, Py.ltE, Py.infSign, Py.posInf]
  · simp only [Py.minE, List.foldl]
    show (if decide (x < q) = true then Val.flt x else Val.flt q) = Val.flt (min q x)
    by_cases hh : x < q
    · simp only [hh, decide_true, if_true]; rw [min_eq_right (le_of_lt hh)]
    · simp only [hh, decide_false, Bool.false_eq_true, if_false]; rw [min_eq_left (not_lt.mp hh)]
theorem maxE_ext (a : Val) (x : Rat) (h : a = Py.negInf ∨ ∃ q, a = .flt q) :
    Py.maxE [a, .flt x] = (match a with | .flt q => .flt (max q x) | _ => .flt x) := by
  rcases h with rfl | ⟨q, rfl⟩
  · simp [Py.maxE, Py.gtE, Py.infSign, Py.negInf]
  · simp only [Py.maxE, List.foldl]
    show (if decide (x > q) = true then Val.flt x else Val.flt q) = Val.flt (max q x)
    by_cases hh : x > q
    · simp only [hh, decide_true, if_true]; rw [max_eq_right (le_of_lt hh)]
    · simp only [hh, decide_false, Bool.false_eq_true, if_false]; rw [max_eq_left (not_lt.mp hh)]

/-- one vertex enters the running extent -/
theorem ext_point (F : Flds) (st : Option (Rat × Rat × Rat × Rat)) (xm ym : Val) (p : Pt)
    (h9 : F.f9 = (extV st).1) (hxm : xm = (extV st).2.1) (h10 : F.f10 = (extV st).2.2.1) (hym : ym = (extV st).2.2.2) :
    Py.minE [F.f9, .flt p.1] = (extV (extP st p)).1 ∧ Py.maxE [xm, .flt p.1] = (extV (extP st p)).2.1 ∧
    Py.minE [F.f10, .flt p.2] = (extV (extP st p)).2.2.1 ∧ Py.maxE [ym, .flt p.2] = (extV (extP st p)).2.2.2 := by
  rcases st with _ | ⟨x0, x1, y0, y1⟩
  · subst hxm hym; rw [h9, h10]
    simp only [extV, extP]
    refine ⟨?_, ?_, ?_, ?_⟩
    · rw [minE_ext _ _ (Or.inl rfl)]; rfl
    · rw [maxE_ext _ _ (Or.inl rfl)]; rfl
    · rw [minE_ext _ _ (Or.inl rfl)]; rfl
    · rw [maxE_ext _ _ (Or.inl rfl)]; rfl
  · subst hxm hym; rw [h9, h10]
    simp only [extV, extP]
    refine ⟨?_, ?_, ?_, ?_⟩
    · rw [minE_ext _ _ (Or.inr ⟨_, rfl⟩)]
    · rw [maxE_ext _ _ (Or.inr ⟨_, rfl⟩)]
    · rw [minE_ext _ _ (Or.inr ⟨_, rfl⟩)]
    · rw [maxE_ext _ _ (Or.inr ⟨_, rfl⟩)]


abbrev KB1 := Val → Val → Val → Val → Val → Val → Val → Loop (Val × Val × Val × Val × Val × Val × Val)

/-- the extent state after one path -/
def extPath (rev : Bool) (st : Option (Rat × Rat × Rat × Rat)) (p : Path) : Option (Rat × Rat × Rat × Rat) :=
  if rev then extP (extP st p.1) p.2 else extP st p.1

/-- `F` with `xmin`, `ymin` taken from the extent state -/
def withExt (F : Flds) (st : Option (Rat × Rat × Rat × Rat)) : Flds :=
  { F with f9 := (extV st).1, f10 := (extV st).2.2.1 }

theorem init_body1 (amb : Nat) (rev : Bool) (k : KB1) (p : Path) (j0 j1 j2 j3 : Val) (F : Flds)
    (st : Option (Rat × Rat × Rat × Rat)) :
    Gen.grid_Index_init_body1 Rounding.exact amb (.bool_ rev) k (encPath p) j0 j1 j2 j3 (encF (withExt F st)) (extV st).2.1 (extV st).2.2.2 =
    k (.flt p.1.1) (.flt p.1.2) (.flt p.2.1) (.flt p.2.2) (encF (withExt F (extPath rev st p)))
      (extV (extPath rev st p)).2.1 (extV (extPath rev st p)).2.2.2 := by
  unfold Gen.grid_Index_init_body1 encPath encPt
  simp only [Py.unpackN_tup2, Py.getItem_cons_zero, Py.getItem_cons_succ, gF9, gF10, sF9, sF10, Py.truthy]
  obtain ⟨a1, a2, a3, a4⟩ := ext_point (withExt F st) st (extV st).2.1 (extV st).2.2.2 p.1 rfl rfl rfl rfl
  simp only [withExt] at a1 a3 ⊢
  rw [a1, a2, a3, a4]
  cases rev with
  | false => simp only [Bool.false_eq_true, if_false, extPath]
  | true =>
    simp only [if_true, extPath]
    obtain ⟨b1, b2, b3, b4⟩ := ext_point (withExt F (extP st p.1)) (extP st p.1) (extV (extP st p.1)).2.1
      (extV (extP st p.1)).2.2.2 p.2 rfl rfl rfl rfl
    simp only [withExt] at b1 b3
    rw [b1, b2, b3, b4]

theorem init_loop1 (amb : Nat) (rev : Bool) (F : Flds) : ∀ (verts : List Path) (j0 j1 j2 j3 : Val)
    (st : Option (Rat × Rat × Rat × Rat)),
    ∃ k0 k1 k2 k3, Gen.grid_Index_init_loop1 Rounding.exact amb (.bool_ rev) (verts.map encPath) j0 j1 j2 j3
      (encF (withExt F st)) (extV st).2.1 (extV st).2.2.2 =
      .done (k0, k1, k2, k3, encF (withExt F (verts.foldl (extPath rev) st)), (extV (verts.foldl (extPath rev) st)).2.1,
        (extV (verts.foldl (extPath rev) st)).2.2.2) := by
  intro verts
  induction verts with
  | nil => intro j0 j1 j2 j3 st; exact ⟨_, _, _, _, rfl⟩
  | cons p ps ih =>
    intro j0 j1 j2 j3 st
    rw [List.map_cons, Gen.grid_Index_init_loop1, init_body1]
    exact ih _ _ _ _ _

/-- the running extent over all indexed vertices is the model's `extent` -/
theorem foldl_extP (ps : List Pt) : ps.foldl extP none = extent ps := by
  cases ps with
  | nil => rfl
  | cons p ps =>
    simp only [List.foldl_cons, extP, extent]
    have key : ∀ (ps : List Pt) (x0 x1 y0 y1 : Rat), ps.foldl extP (some (x0, x1, y0, y1)) =
        some (ps.foldl (fun a q => min a q.1) x0, ps.foldl (fun a q => max a q.1) x1,
              ps.foldl (fun a q => min a q.2) y0, ps.foldl (fun a q => max a q.2) y1) := by
      intro ps
      induction ps with
      | nil => intro x0 x1 y0 y1; rfl
      | cons q qs ih => intro x0 x1 y0 y1; simp only [List.foldl_cons, extP, ih]
    exact key ps _ _ _ _

theorem foldl_extPath (rev : Bool) (verts : List Path) (st : Option (Rat × Rat × Rat × Rat)) :
    verts.foldl (extPath rev) st = (points verts rev).foldl extP st := by
  induction verts generalizing st with
  | nil => rfl
  | cons p ps ih =>
    simp only [List.foldl_cons, points, List.flatMap_cons, List.foldl_append]
    rw [ih]
    cases rev <;> rfl


/-- `min(math.floor((v - lo) / size), max_bin)` -/
theorem binHi_bridge (amb : Nat) (bins : Nat) (lo size x : Rat) (hs : size ≠ 0) :
    Py.minE [Py.math_floor (Py.truediv Rounding.exact amb (Py.sub Rounding.exact amb (.flt x) (.flt lo)) (.flt size)),
      .int ((bins : Int) - 1)] = .int (binHi bins lo size x) := by
  have hdiv : Py.truediv Rounding.exact amb (Py.sub Rounding.exact amb (.flt x) (.flt lo)) (.flt size) = .flt ((x - lo) / size) := by
    simp [Py.truediv, Py.sub, Py.num, Py.join, Py.kind, Py.pack, Rounding.exact, hs]
  rw [hdiv]
  show Py.minE [.int ((x - lo) / size).floor, .int ((bins : Int) - 1)] = _
  simp only [Py.minE, List.foldl, ltE_int]
  unfold binHi
  by_cases h1 : (bins : Int) - 1 < ((x - lo) / size).floor
  · simp only [h1, decide_true, if_true]; rw [min_eq_right (le_of_lt h1)]
  · simp only [h1, decide_false, Bool.false_eq_true, if_false]; rw [min_eq_left (not_lt.mp h1)]

theorem modify_append (cells : List (List Nat)) (gi id : Nat) (h : gi < cells.length) :
    cells.modify gi (· ++ [id]) = cells.set gi (cells[gi] ++ [id]) := by
  apply List.ext_getElem?
  intro n
  rw [List.getElem?_modify]
  by_cases hn : gi = n
  · subst hn; simp [h]
  · simp [hn, List.getElem?_set_ne hn]

/-- `self.grid[gi].append(id); self.lookup[id] = gi` for the cell of the vertex `pt` -/
theorem place (amb : Nat) (G : Geo) (F : Flds) (cells : List (List Nat)) (lookup : List Nat) (pt : Pt) (id : Nat)
    (h1 : F.f1 = encCells cells) (h3 : F.f3 = encNats lookup) (h7 : F.f7 = .flt G.bx) (h8 : F.f8 = .flt G.by_)
    (h9 : F.f9 = .flt G.xmin) (h10 : F.f10 = .flt G.ymin) (h11 : F.f11 = .int (G.bins : Int))
    (hbx : G.bx ≠ 0) (hby : G.by_ ≠ 0)
    (h0 : 0 ≤ binHi G.bins G.xmin G.bx pt.1 + (G.bins : Int) * binHi G.bins G.ymin G.by_ pt.2)
    (hgi : cellIdxHi G pt < cells.length) (hid : id < lookup.length) :
    let xb := Py.minE [Py.math_floor (Py.truediv Rounding.exact amb (Py.sub Rounding.exact amb (.flt pt.1) (Py.getItem (encF F) 9)) (Py.getItem (encF F) 7)), .int ((G.bins : Int) - 1)]
    let yb := Py.minE [Py.math_floor (Py.truediv Rounding.exact amb (Py.sub Rounding.exact amb (.flt pt.2) (Py.getItem (encF F) 10)) (Py.getItem (encF F) 8)), .int ((G.bins : Int) - 1)]
    let gi := Py.add Rounding.exact amb xb (Py.mul Rounding.exact amb (Py.getItem (encF F) 11) yb)
    let s1 := Py.setField (encF F) 1 (Py.setItem (Py.getItem (encF F) 1) gi (Py.list_append (Py.index (Py.getItem (encF F) 1) gi) (encNat id)))
    gi = encNat (cellIdxHi G pt) ∧
    Py.setField s1 3 (Py.setItem (Py.getItem s1 3) (encNat id) gi) =
      encF { F with f1 := encCells (cells.modify (cellIdxHi G pt) (· ++ [id])), f3 := encNats (lookup.set id (cellIdxHi G pt)) } := by
  intro xb yb gi s1
  have hxb : xb = .int (binHi G.bins G.xmin G.bx pt.1) := by
    show Py.minE [Py.math_floor (Py.truediv _ _ (Py.sub _ _ _ (Py.getItem (encF F) 9)) (Py.getItem (encF F) 7)), _] = _
    rw [gF9, gF7, h9, h7, binHi_bridge amb G.bins _ _ _ hbx]
  have hyb : yb = .int (binHi G.bins G.ymin G.by_ pt.2) := by
    show Py.minE [Py.math_floor (Py.truediv _ _ (Py.sub _ _ _ (Py.getItem (encF F) 10)) (Py.getItem (encF F) 8)), _] = _
    rw [gF10, gF8, h10, h8, binHi_bridge amb G.bins _ _ _ hby]
  have hgiv : gi = encNat (cellIdxHi G pt) := by
    show Py.add _ _ xb (Py.mul _ _ (Py.getItem (encF F) 11) yb) = _
    rw [hxb, hyb, gF11, h11]
    show Val.int (binHi G.bins G.xmin G.bx pt.1 + (G.bins : Int) * binHi G.bins G.ymin G.by_ pt.2) = Val.int _
    congr 1
    unfold cellIdxHi
    rw [Int.toNat_of_nonneg h0]
  refine ⟨hgiv, ?_⟩
  have hs1 : s1 = encF { F with f1 := encCells (cells.modify (cellIdxHi G pt) (· ++ [id])) } := by
    show Py.setField (encF F) 1 (Py.setItem (Py.getItem (encF F) 1) gi (Py.list_append (Py.index (Py.getItem (encF F) 1) gi) (encNat id))) = _
    have hc : cells[cellIdxHi G pt]? = some (cells[cellIdxHi G pt]'hgi) := List.getElem?_eq_getElem hgi
    rw [hgiv, gF1, h1, encCells, encNat, index_list encNats cells _ _ hc,
      list_append_nats, setItem_list encNats cells _ _ hgi, sF1, modify_append _ _ _ hgi]
    rfl
  rw [hs1, gF3, hgiv]
  show Py.setField _ 3 (Py.setItem F.f3 (encNat id) (encNat (cellIdxHi G pt))) = _
  rw [h3, encNats, encNat, setItem_list encNat lookup id _ hid, sF3]
  rfl


/-- a vertex that may be placed: its cell exists and needs no lower clamp -/
def PtOK (G : Geo) (ncells : Nat) (pt : Pt) : Prop :=
  0 ≤ binHi G.bins G.xmin G.bx pt.1 + (G.bins : Int) * binHi G.bins G.ymin G.by_ pt.2 ∧ cellIdxHi G pt < ncells

/-- one step of the model's `buildLoop` -/
def buildStep (G : Geo) (rev : Bool) (n : Nat) (p : Path) (i : Nat) (st : List (List Nat) × List Nat) : List (List Nat) × List Nat :=
  let c1 := st.1.modify (cellIdxHi G p.1) (· ++ [i])
  let l1 := st.2.set i (cellIdxHi G p.1)
  if rev then (c1.modify (cellIdxHi G p.2) (· ++ [n + i]), l1.set (n + i) (cellIdxHi G p.2)) else (c1, l1)

theorem buildLoop_cons (G : Geo) (rev : Bool) (n : Nat) (p : Path) (ps : List Path) (i : Nat) (st : List (List Nat) × List Nat) :
    buildLoop G rev n (p :: ps) i st = buildLoop G rev n ps (i + 1) (buildStep G rev n p i st) := by
  obtain ⟨cells, lookup⟩ := st
  unfold buildStep
  rw [buildLoop]
  cases rev <;> rfl

abbrev KB2 := Val → Val → Val → Val → Val → Val → Val → Val → Val →
  Loop (Val × Val × Val × Val × Val × Val × Val × Val × Val)

theorem init_body2 (amb : Nat) (G : Geo) (rev : Bool) (n : Nat) (k : KB2) (F : Flds) (cells : List (List Nat)) (lookup : List Nat)
    (p : Path) (i : Nat) (j0 j1 j2 j3 j4 j5 j6 j7 : Val)
    (h1 : F.f1 = encCells cells) (h3 : F.f3 = encNats lookup) (h4 : F.f4 = .int (n : Int)) (h7 : F.f7 = .flt G.bx)
    (h8 : F.f8 = .flt G.by_) (h9 : F.f9 = .flt G.xmin) (h10 : F.f10 = .flt G.ymin) (h11 : F.f11 = .int (G.bins : Int))
    (hbx : G.bx ≠ 0) (hby : G.by_ ≠ 0) (hp1 : PtOK G cells.length p.1) (hp2 : rev = true → PtOK G cells.length p.2)
    (hi : i < lookup.length) (hi2 : rev = true → n + i < lookup.length) :
    ∃ k5 k6 k7, Gen.grid_Index_init_body2 Rounding.exact amb (.bool_ rev) (.int ((G.bins : Int) - 1)) k (.tup [encNat i, encPath p])
        j0 j1 j2 j3 j4 j5 j6 j7 (encF F) =
      k (encNat i) (.flt p.1.1) (.flt p.1.2) (.flt p.2.1) (.flt p.2.2) k5 k6 k7
        (encF { F with f1 := encCells (buildStep G rev n p i (cells, lookup)).1, f3 := encNats (buildStep G rev n p i (cells, lookup)).2 }) := by
  unfold Gen.grid_Index_init_body2 encPath encPt
  simp only [Py.unpackN_tup2, Py.getItem_cons_zero, Py.getItem_cons_succ]
  obtain ⟨e1, e2⟩ := place amb G F cells lookup p.1 i h1 h3 h7 h8 h9 h10 h11 hbx hby hp1.1 hp1.2 hi
  rw [e2]
  cases rev with
  | false =>
    simp only [Py.truthy, Bool.false_eq_true, if_false, buildStep]
    exact ⟨_, _, _, rfl⟩
  | true =>
    simp only [Py.truthy, if_true, buildStep]
    have hp2' := hp2 rfl
    have hlen : (cells.modify (cellIdxHi G p.1) (· ++ [i])).length = cells.length := List.length_modify _ _ _
    obtain ⟨e3, e4⟩ := place amb G { F with f1 := encCells (cells.modify (cellIdxHi G p.1) (· ++ [i])), f3 := encNats (lookup.set i (cellIdxHi G p.1)) }
      (cells.modify (cellIdxHi G p.1) (· ++ [i])) (lookup.set i (cellIdxHi G p.1)) p.2 (n + i) rfl rfl h7 h8 h9 h10 h11 hbx hby
      hp2'.1 (by rw [hlen]; exact hp2'.2) (by rw [List.length_set]; exact hi2 rfl)
    have hadd : Py.add Rounding.exact amb (Py.getItem (encF { F with f1 := encCells (cells.modify (cellIdxHi G p.1) (· ++ [i])), f3 := encNats (lookup.set i (cellIdxHi G p.1)) }) 4) (encNat i) = encNat (n + i) := by
      rw [gF4]; show Py.add _ _ F.f4 _ = _; rw [h4]; rfl
    have hg4 : ∀ (X : Flds) (v : Val), Py.getItem (Py.setField (encF X) 1 v) 4 = Py.getItem (encF X) 4 := by
      intro X v; rw [sF1, gF4, gF4]
    rw [hg4, hadd, e4]
    exact ⟨_, _, _, rfl⟩


def encItems : List Path → Nat → List Val
  | [], _ => []
  | p :: ps, i => .tup [encNat i, encPath p] :: encItems ps (i + 1)

theorem enumerate_paths (ps : List Path) (i : Nat) :
    ((ps.map encPath).zipIdx i).map (fun p => Val.tup [.int p.2, p.1]) = encItems ps i := by
  induction ps generalizing i with
  | nil => rfl
  | cons p ps ih => simp only [List.map_cons, List.zipIdx_cons, encItems, ih]; rfl

theorem buildStep_len (G : Geo) (rev : Bool) (n : Nat) (p : Path) (i : Nat) (st : List (List Nat) × List Nat) :
    (buildStep G rev n p i st).1.length = st.1.length ∧ (buildStep G rev n p i st).2.length = st.2.length := by
  unfold buildStep
  cases rev <;> simp

theorem init_loop2 (amb : Nat) (G : Geo) (rev : Bool) (n NC L : Nat) (hbx : G.bx ≠ 0) (hby : G.by_ ≠ 0)
    (hL : L = if rev then 2 * n else n) :
    ∀ (ps : List Path) (i : Nat) (F : Flds) (cells : List (List Nat)) (lookup : List Nat) (j0 j1 j2 j3 j4 j5 j6 j7 : Val),
    F.f1 = encCells cells → F.f3 = encNats lookup → F.f4 = .int (n : Int) → F.f7 = .flt G.bx →
    F.f8 = .flt G.by_ → F.f9 = .flt G.xmin → F.f10 = .flt G.ymin → F.f11 = .int (G.bins : Int) →
    cells.length = NC → lookup.length = L →
    (∀ p ∈ ps, PtOK G NC p.1 ∧ (rev = true → PtOK G NC p.2)) → i + ps.length ≤ n →
    ∃ a0 a1 a2 a3 a4 a5 a6 a7, Gen.grid_Index_init_loop2 Rounding.exact amb (.bool_ rev) (.int ((G.bins : Int) - 1)) (encItems ps i)
        j0 j1 j2 j3 j4 j5 j6 j7 (encF F) =
      .done (a0, a1, a2, a3, a4, a5, a6, a7,
        encF { F with f1 := encCells (buildLoop G rev n ps i (cells, lookup)).1, f3 := encNats (buildLoop G rev n ps i (cells, lookup)).2 }) := by
  intro ps
  induction ps with
  | nil =>
    intro i F cells lookup j0 j1 j2 j3 j4 j5 j6 j7 h1 h3 _ _ _ _ _ _ _ _ _ _
    refine ⟨j0, j1, j2, j3, j4, j5, j6, j7, ?_⟩
    rw [encItems, Gen.grid_Index_init_loop2, buildLoop, ← h1, ← h3]
  | cons p ps ih =>
    intro i F cells lookup j0 j1 j2 j3 j4 j5 j6 j7 h1 h3 h4 h7 h8 h9 h10 h11 hc hl hok hn
    rw [encItems, Gen.grid_Index_init_loop2, buildLoop_cons]
    have hlen : i + ps.length + 1 ≤ n := by simpa [Nat.add_assoc] using hn
    have hi : i < lookup.length := by rw [hl, hL]; cases rev <;> simp <;> omega
    have hi2 : rev = true → n + i < lookup.length := by intro hr; rw [hl, hL, hr]; simp; omega
    have hp := hok p (List.mem_cons_self)
    obtain ⟨k5, k6, k7, e⟩ := init_body2 amb G rev n
      (Gen.grid_Index_init_loop2 Rounding.exact amb (.bool_ rev) (.int ((G.bins : Int) - 1)) (encItems ps (i + 1)))
      F cells lookup p i j0 j1 j2 j3 j4 j5 j6 j7 h1 h3 h4 h7 h8 h9 h10 h11 hbx hby (hc ▸ hp.1) (fun hr => hc ▸ hp.2 hr) hi hi2
    rw [e]
    obtain ⟨l1, l2⟩ := buildStep_len G rev n p i (cells, lookup)
    obtain ⟨a0, a1, a2, a3, a4, a5, a6, a7, e2⟩ := ih (i + 1)
      { F with f1 := encCells (buildStep G rev n p i (cells, lookup)).1, f3 := encNats (buildStep G rev n p i (cells, lookup)).2 }
      (buildStep G rev n p i (cells, lookup)).1 (buildStep G rev n p i (cells, lookup)).2
      (encNat i) (.flt p.1.1) (.flt p.1.2) (.flt p.2.1) (.flt p.2.2) k5 k6 k7 rfl rfl h4 h7 h8 h9 h10 h11
      (l1.trans hc) (l2.trans hl) (fun q hq => hok q (List.mem_cons_of_mem _ hq)) (by omega)
    exact ⟨a0, a1, a2, a3, a4, a5, a6, a7, e2⟩

theorem comp_const (k : Nat) (v : Val) (f : Val → Option Val) (hf : ∀ x, f x = some v) :
    Py.comp (Py.range_ [.int (k : Int)]) f = .tup (List.replicate k v) := by
  rw [range_len]
  simp only [Py.comp, encNats, Py.iter]
  congr 1
  have : ∀ l : List Nat, (l.map encNat).filterMap f = List.replicate l.length v := by
    intro l
    induction l with
    | nil => rfl
    | cons a l ih => rw [List.map_cons, List.filterMap_cons, hf, List.length_cons, List.replicate_succ, ih]
  rw [this, List.length_range]

theorem geometry_eq {verts : List Path} {bins : Nat} {rev : Bool} {G : Geo} (h : geometry verts bins rev = some G) :
    ∃ x0 x1 y0 y1, extent (points verts rev) = some (x0, x1, y0, y1) ∧
      G = ⟨bins, x0 - (x1 - x0 + y1 - y0) / 200, y0 - (x1 - x0 + y1 - y0) / 200,
        ((x1 + (x1 - x0 + y1 - y0) / 200) - (x0 - (x1 - x0 + y1 - y0) / 200)) / bins,
        ((y1 + (x1 - x0 + y1 - y0) / 200) - (y0 - (x1 - x0 + y1 - y0) / 200)) / bins⟩ := by
  unfold geometry at h
  by_cases hb : bins = 0
  · simp [hb] at h
  · simp only [hb, if_false] at h
    cases he : extent (points verts rev) with
    | none => simp [he] at h
    | some e =>
      obtain ⟨x0, x1, y0, y1⟩ := e
      simp only [he] at h
      split at h
      · cases h
      · exact ⟨x0, x1, y0, y1, rfl, (Option.some.inj h).symm⟩


/-- the part of the generated `__init__` after the extent loop, copied verbatim from `Gen/grid_Index.lean`
(`init_bridge` checks by `rfl` that it is that text) -/
def initTail (R : Rounding) (prec : Nat) (vertices bins_per_side reverse max_bin x_1 y_1 x_2 y_2 self xmax ymax : Val) : Val :=
  let shim := (Py.truediv R prec (Py.sub R prec (Py.add R prec (Py.sub R prec xmax (Py.getItem self 9)) ymax) (Py.getItem self 10)) (Py.Val.int 200))
  let self := (Py.setField self 9 (Py.sub R prec (Py.getItem self 9) shim))
  let self := (Py.setField self 10 (Py.sub R prec (Py.getItem self 10) shim))
  let xmax := (Py.add R prec xmax shim)
  let ymax := (Py.add R prec ymax shim)
  let self := (Py.setField self 7 (Py.truediv R prec (Py.sub R prec xmax (Py.getItem self 9)) bins_per_side))
  let self := (Py.setField self 8 (Py.truediv R prec (Py.sub R prec ymax (Py.getItem self 10)) bins_per_side))
  let self :=
    if (Py.truthy reverse) then
      let self := (Py.setField self 3 (Py.comp (Py.range_ [(Py.mul R prec (Py.Val.int 2) (Py.getItem self 4))]) (fun it6_ => let temp_var := it6_; some (Py.Val.int 0))))
      self
    else
      let self := (Py.setField self 3 (Py.comp (Py.range_ [(Py.getItem self 4)]) (fun it7_ => let temp_var := it7_; some (Py.Val.int 0))))
      self
  let self := (Py.setField self 1 (Py.comp (Py.range_ [(Py.mul R prec (Py.getItem self 11) (Py.getItem self 11))]) (fun it8_ => let index_i := it8_; some (Py.Val.tup []))))
  let index_i := Py.Val.err
  let x_bin := Py.Val.err
  let y_bin := Py.Val.err
  let grid_index := Py.Val.err
  match Py.iter (Py.enumerate_ vertices) with
  | none => Py.Val.err
  | some its_ =>
    match Gen.grid_Index_init_loop2 R prec reverse max_bin its_ index_i x_1 y_1 x_2 y_2 x_bin y_bin grid_index self with
    | Py.Loop.ret v_ => v_
    | Py.Loop.fuelOut => Py.Val.err
    | Py.Loop.done (index_i, x_1, y_1, x_2, y_2, x_bin, y_bin, grid_index, self) =>
      self

theorem truediv_flt_int (amb : Nat) (a : Rat) (k : Int) (hk : k ≠ 0) :
    Py.truediv Rounding.exact amb (.flt a) (.int k) = .flt (a / (k : Rat)) := by
  have hk' : (k : Rat) ≠ 0 := by exact_mod_cast hk
  simp [Py.truediv, Py.num, Py.join, Py.kind, Py.pack, Rounding.exact, hk, hk']

theorem initTail_eq (amb : Nat) (G : Geo) (verts : List Path) (bins : Nat) (rev : Bool) (F : Flds) (x0 x1 y0 y1 : Rat)
    (j1 j2 j3 j4 : Val)
    (hGeq : G = ⟨bins, x0 - (x1 - x0 + y1 - y0) / 200, y0 - (x1 - x0 + y1 - y0) / 200,
        ((x1 + (x1 - x0 + y1 - y0) / 200) - (x0 - (x1 - x0 + y1 - y0) / 200)) / bins,
        ((y1 + (x1 - x0 + y1 - y0) / 200) - (y0 - (x1 - x0 + y1 - y0) / 200)) / bins⟩)
    (h4 : F.f4 = .int (verts.length : Int)) (h9 : F.f9 = .flt x0) (h10 : F.f10 = .flt y0) (h11 : F.f11 = .int (bins : Int))
    (hbpos : 0 < bins) (hbx : 0 < G.bx) (hby : 0 < G.by_)
    (hpts : ∀ pt ∈ points verts rev, G.xmin ≤ pt.1 ∧ G.ymin ≤ pt.2) :
    initTail Rounding.exact amb (encPaths verts) (.int (bins : Int)) (.bool_ rev) (.int ((bins : Int) - 1)) j1 j2 j3 j4
      (encF F) (.flt x1) (.flt y1) =
    encF { F with
      f1 := encCells (buildLoop G rev verts.length verts 0 (List.replicate (bins * bins) [], List.replicate (if rev then 2 * verts.length else verts.length) 0)).1,
      f3 := encNats (buildLoop G rev verts.length verts 0 (List.replicate (bins * bins) [], List.replicate (if rev then 2 * verts.length else verts.length) 0)).2,
      f7 := .flt G.bx, f8 := .flt G.by_, f9 := .flt G.xmin, f10 := .flt G.ymin } := by
  unfold initTail
  have hb0 : (bins : Int) ≠ 0 := by exact_mod_cast (Nat.pos_iff_ne_zero.mp hbpos)
  have hex : ∀ q : Rat, Rounding.exact.f64 q = q := fun _ => rfl
  have hm2 : Py.mul Rounding.exact amb (.int 2) (.int (verts.length : Int)) = .int ((2 * verts.length : Nat) : Int) := by
    show Val.int (2 * (verts.length : Int)) = _
    congr 1
  have hmb : Py.mul Rounding.exact amb (.int (bins : Int)) (.int (bins : Int)) = .int ((bins * bins : Nat) : Int) := by
    show Val.int ((bins : Int) * bins) = _
    congr 1
  have hen : Py.iter (Py.enumerate_ (encPaths verts)) = some (encItems verts 0) := by
    show some _ = _
    rw [enumerate_paths]
  simp only [gF9, gF10, gF4, gF11, sF9, sF10, sF7, sF8, h9, h10, h4, h11, sub_flt_flt, add_flt_flt,
    truediv_flt_int amb _ 200 (by decide), truediv_flt_int amb _ (bins : Int) hb0, hex, hm2, hen,
    comp_const _ (.int 0) _ (fun _ => rfl)]
  have hG7 : G.bx = ((x1 + (x1 - x0 + y1 - y0) / 200) - (x0 - (x1 - x0 + y1 - y0) / 200)) / bins := by rw [hGeq]
  have hG8 : G.by_ = ((y1 + (x1 - x0 + y1 - y0) / 200) - (y0 - (x1 - x0 + y1 - y0) / 200)) / bins := by rw [hGeq]
  have hG9 : G.xmin = x0 - (x1 - x0 + y1 - y0) / 200 := by rw [hGeq]
  have hG10 : G.ymin = y0 - (x1 - x0 + y1 - y0) / 200 := by rw [hGeq]
  have hGb : G.bins = bins := by rw [hGeq]
  have c200 : ((200 : Int) : Rat) = 200 := by norm_num
  have cb : (((bins : Nat) : Int) : Rat) = (bins : Rat) := by norm_cast
  rw [c200, cb, ← hG7, ← hG8, ← hG9, ← hG10]
  have hif : ∀ X : Flds, (if Py.truthy (.bool_ rev) = true then Py.setField (encF X) 3 (.tup (List.replicate (2 * verts.length) (.int 0)))
      else Py.setField (encF X) 3 (.tup (List.replicate verts.length (.int 0)))) =
      encF { X with f3 := encNats (List.replicate (if rev then 2 * verts.length else verts.length) 0) } := by
    intro X
    cases rev <;> simp [Py.truthy, sF3, encNats, encNat, List.map_replicate]
  rw [hif]
  simp only [gF11, hmb, comp_const _ (.tup []) _ (fun _ => rfl), sF1]
  have hc0 : Val.tup (List.replicate (bins * bins) (Val.tup [])) = encCells (List.replicate (bins * bins) []) := by
    simp [encCells, encNats, List.map_replicate]
  rw [hc0]
  obtain ⟨a0, a1, a2, a3, a4, a5, a6, a7, e⟩ := init_loop2 amb G rev verts.length (bins * bins)
    (if rev then 2 * verts.length else verts.length) (ne_of_gt hbx) (ne_of_gt hby) rfl verts 0
    { f1 := encCells (List.replicate (bins * bins) []), f2 := F.f2,
      f3 := encNats (List.replicate (if rev then 2 * verts.length else verts.length) 0), f4 := .int (verts.length : Int),
      f5 := F.f5, f6 := F.f6, f7 := .flt G.bx, f8 := .flt G.by_, f9 := .flt G.xmin, f10 := .flt G.ymin, f11 := .int (bins : Int) }
    (List.replicate (bins * bins) []) (List.replicate (if rev then 2 * verts.length else verts.length) 0)
    .err j1 j2 j3 j4 .err .err .err rfl rfl rfl rfl rfl rfl rfl (by rw [hGb]) (List.length_replicate ..) (List.length_replicate ..)
    (by
      intro p hp
      have hb : 0 < G.bins := by rw [hGb]; exact hbpos
      have key : ∀ pt ∈ points verts rev, PtOK G (bins * bins) pt := by
        intro pt hpt
        obtain ⟨hx, hy⟩ := hpts pt hpt
        have e1 := binHi_eq_clamp (lo := G.xmin) (size := G.bx) hb hbx hx
        have e2 := binHi_eq_clamp (lo := G.ymin) (size := G.by_) hb hby hy
        refine ⟨?_, ?_⟩
        · rw [e1, e2]
          have r1 := (binClamp_range hb G.xmin G.bx pt.1).1
          have r2 := (binClamp_range hb G.ymin G.by_ pt.2).1
          have : (0 : Int) ≤ (G.bins : Int) * binClamp G.bins G.ymin G.by_ pt.2 := mul_nonneg (Int.natCast_nonneg _) r2
          omega
        · rw [cellIdxHi_eq hb hbx hby hx hy, ← hGb]; exact cellIdx_lt hb pt
      refine ⟨key _ ?_, fun hr => key _ ?_⟩
      · unfold points; rw [List.mem_flatMap]; exact ⟨p, hp, by cases rev <;> simp⟩
      · unfold points; rw [List.mem_flatMap]; exact ⟨p, hp, by rw [hr]; simp⟩)
    (by simp)
  rw [hGb] at e
  rw [e]

/-- the generated `__init__` is its header (verbatim) followed by `initTail` -/
theorem init_unfold (R : Rounding) (ambient : Nat) (vertices bins_per_side reverse : Val) :
    Gen.grid_Index_init R ambient vertices bins_per_side reverse = (
    let prec := ambient
    let self := (Py.Val.tup [(Py.Val.str "Index"), (Py.Val.tup []), (Py.Val.tup []), (Py.Val.tup []), (Py.Val.int 0), Py.Val.none_, (Py.Val.bool_ false), (Py.Val.flt (1 : Rat)), (Py.Val.flt (1 : Rat)), (Py.Val.flt (-1 : Rat)), (Py.Val.flt (-1 : Rat)), (Py.Val.int 3)])
    let self := (Py.setField self 5 vertices)
    let self := (Py.setField self 6 reverse)
    let self := (Py.setField self 11 bins_per_side)
    let self := (Py.setField self 4 (Py.len_ vertices))
    let max_bin := (Py.sub R prec bins_per_side (Py.Val.int 1))
    let self := (Py.getItem (Gen.grid_Index_find_adjacents R prec self) 1)
    let tmp1_ := Py.unpackN (Py.Val.tup [Py.posInf, Py.posInf]) 2
    let self := (Py.setField self 9 (Py.getItem tmp1_ 0))
    let self := (Py.setField self 10 (Py.getItem tmp1_ 1))
    let tmp2_ := Py.unpackN (Py.Val.tup [Py.negInf, Py.negInf]) 2
    let xmax := (Py.getItem tmp2_ 0)
    let ymax := (Py.getItem tmp2_ 1)
    let x_1 := Py.Val.err
    let y_1 := Py.Val.err
    let x_2 := Py.Val.err
    let y_2 := Py.Val.err
    match Py.iter vertices with
    | none => Py.Val.err
    | some its_ =>
      match Gen.grid_Index_init_loop1 R prec reverse its_ x_1 y_1 x_2 y_2 self xmax ymax with
      | Py.Loop.ret v_ => v_
      | Py.Loop.fuelOut => Py.Val.err
      | Py.Loop.done (x_1, y_1, x_2, y_2, self, xmax, ymax) =>
        initTail R prec vertices bins_per_side reverse max_bin x_1 y_1 x_2 y_2 self xmax ymax) := rfl

theorem init_bridge (amb : Nat) (verts : List Path) (bins : Nat) (rev : Bool) (g : Grid)
    (h : build verts bins rev = some g) :
    Gen.grid_Index_init Rounding.exact amb (encPaths verts) (.int (bins : Int)) (.bool_ rev) = encGrid g := by
  unfold build at h
  cases hG : geometry verts bins rev with
  | none => simp [hG] at h
  | some G =>
    simp only [hG] at h
    obtain ⟨hbins, hbpos, hbx, hby, hpts⟩ := geometry_spec hG
    obtain ⟨x0, x1, y0, y1, hext, hGeq⟩ := geometry_eq hG
    have hg := (Option.some.inj h).symm
    rw [init_unfold]
    have hlen : Py.len_ (encPaths verts) = .int (verts.length : Int) := by simp [encPaths, Py.len_]
    have hiter : Py.iter (encPaths verts) = some (verts.map encPath) := rfl
    have hsub : Py.sub Rounding.exact amb (.int (bins : Int)) (.int 1) = .int ((bins : Int) - 1) := rfl
    rw [show (Val.tup [Val.str "Index", Val.tup [], Val.tup [], Val.tup [], Val.int 0, Val.none_, Val.bool_ false,
      Val.flt (1 : Rat), Val.flt (1 : Rat), Val.flt (-1 : Rat), Val.flt (-1 : Rat), Val.int 3]) =
      encF ⟨.tup [], .tup [], .tup [], .int 0, .none_, .bool_ false, .flt 1, .flt 1, .flt (-1), .flt (-1), .int 3⟩ from rfl]
    have hfa : ∀ X : Flds, X.f2 = .tup [] → X.f11 = .int (bins : Int) →
        Gen.grid_Index_find_adjacents Rounding.exact amb (encF X) = .tup [.none_, encF { X with f2 := encCells (adjacents bins) }] := by
      intro X h2 h11
      have := find_adjacents_bridge X.f1 X.f3 X.f4 X.f5 X.f6 X.f7 X.f8 X.f9 X.f10 bins amb []
      unfold instA at this
      rw [show encF X = Val.tup [.str "Index", X.f1, encCells [], X.f3, X.f4, X.f5, X.f6, X.f7, X.f8, X.f9, X.f10, .int (bins : Int)] from by
        unfold encF; rw [h2, h11]; rfl]
      rw [this]; unfold encF; rw [h11]
    simp only [sF5, sF6, sF11, sF4, hlen, hiter, hsub]
    rw [hfa _ rfl rfl]
    simp only [Py.unpackN_tup2, Py.getItem_cons_zero, Py.getItem_cons_succ, sF9, sF10]
    obtain ⟨k0, k1, k2, k3, hl1⟩ := init_loop1 amb rev
      { f1 := .tup [], f2 := encCells (adjacents bins), f3 := .tup [], f4 := .int (verts.length : Int), f5 := encPaths verts,
        f6 := .bool_ rev, f7 := .flt 1, f8 := .flt 1, f9 := Py.posInf, f10 := Py.posInf, f11 := .int (bins : Int) }
      verts .err .err .err .err none
    rw [foldl_extPath, foldl_extP, hext] at hl1
    simp only [extV, withExt] at hl1
    rw [hl1]
    simp only
    rw [initTail_eq amb G verts bins rev _ x0 x1 y0 y1 _ _ _ _ hGeq rfl rfl rfl rfl hbpos hbx hby hpts, hg]
    unfold encGrid encF
    simp only [hbins]

end C13
end Plotink
