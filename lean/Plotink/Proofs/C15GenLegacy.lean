import Plotink.Proofs.C15GenIo
import Plotink.Gen.ebb_serial_reboot
import Plotink.Gen.ebb_serial_write_nickname
import Plotink.Gen.ebb_serial_query_nickname
import Plotink.Gen.ebb_motion_servo_timeout
import Plotink.Gen.ebb_motion_queryVoltage
/-! # C15 (regenerated code) — the legacy gates

* `queryVersion_gen`, `min_version_gen`: the regenerated `ebb_serial.queryVersion` / `min_version` against
  `C15.lquery` / `C15.lminVersion` on the same script — through `C07_gen_bridge` (regenerated `ebb_serial.query` =
  `C07.query`) and `lquery_rel` (`C07.query` ~ `C15.lquery`); the parsing agreement is discharged for texts without a
  leading `v` (`NoV`, `NoVScript`).  This removes the two abstractions of `LegacyGen.min_version_bridge`.
* `reboot_gen`, `write_nickname_gen`, `servo_timeout_gen`, `query_nickname_gen`, `queryVoltage_gen`: each regenerated
  gated feature ends (never out of fuel) having attempted the version query, or the version query and then its own
  command — the latter only when the board's reply passes the gate that stands in the regenerated code (`GenGate`).
* a small toolkit for statements that do no I/O (`PureS`, `pure_tac`). -/
namespace Plotink.C15Gen
open PyObj Gen
set_option linter.unusedSimpArgs false
set_option linter.unusedVariables false

theorem lit_vQuery : C15.vQuery = ['V', '\r'] := by decide
theorem ascii_vQuery : PyIO.isAscii ['V', '\r'] = true := by decide

/-- the script hypotheses that persist from call to call: faults are serial I/O exceptions, lines are ASCII -/
structure PortOk (p : PyIO.Port) : Prop where
  io : C07Gen.IoScript p
  ascii : C07.allAscii p.reads = true

/-- a call of the regenerated `ebb_serial.query` from the object layer, on a port and an ASCII text -/
theorem ioQuery_gen (fuel : Nat) (hf : 101 ≤ fuel) (c : List Char) (hc : PyIO.isAscii c = true) (vb : Val)
    (w : World NoObj) (hp : PortOk w.port) (P : C15.Params) (hP : GenParams P) (hn : SameName P c)
    (io : C15.Io) (hrel : Rel w.port io) :
    ∃ s p', (ioCall3 (ebb_serial_query fuel) (ok .port) (ok (.str c)) (ok vb) : Eff NoObj) w
        = (.ok (.str s), { w with port := p' }) ∧
      (C15.lquery P io c).2 = .ok s ∧ Rel p' (C15.lquery P io c).1 ∧ PortOk p' ∧ p'.log = w.port.log ++ [c] := by
  obtain ⟨s, e1, e2, r⟩ := lquery_rel P hP c hc hn w.port io hp.ascii hrel
  have hb := (C07_gen_bridge fuel hf c (toIO vb) w.port hp.io).1
  have ha := (C07.query_text C07.std c w.port rfl hc hp.ascii).2
  have hl := C07.query_log C07.std c w.port hc
  have hs := (query_sub C07.std c w.port).ioScript hp.io
  rcases hq : C07.query C07.std c w.port with ⟨res, p'⟩
  rw [hq] at e1 r hb ha hl hs
  simp only at e1 r ha hl hs
  subst e1
  refine ⟨s, p', ?_, e2, r, ⟨hs, ha⟩, hl⟩
  simp only [ioCall3, bind_ok]
  show ofIOOut w (ebb_serial_query fuel PyIO.Val.port (PyIO.Val.str c) (toIO vb) w.port) = _
  rw [hb]
  rfl

/-- the regenerated `queryVersion` -/
theorem queryVersion_gen (fuel : Nat) (hf : 101 ≤ fuel) (w : World NoObj) (hp : PortOk w.port)
    (P : C15.Params) (hP : GenParams P) (hn : SameName P C15.vQuery) (io : C15.Io) (hrel : Rel w.port io) :
    ∃ s p', ebb_serial_queryVersion fuel .port w = .val (.str s) { w with port := p' } ∧
      C15.lquery P io C15.vQuery = ((C15.lquery P io C15.vQuery).1, .ok s) ∧
      Rel p' (C15.lquery P io C15.vQuery).1 ∧ PortOk p' ∧ p'.log = w.port.log ++ [C15.vQuery] := by
  rw [lit_vQuery] at hn ⊢
  obtain ⟨s, p', e, e2, r, hp', hl⟩ := ioQuery_gen fuel hf _ ascii_vQuery (.bool true) w hp P hP hn io hrel
  refine ⟨s, p', ?_, ?_, r, hp', hl⟩
  · unfold ebb_serial_queryVersion ebb_serial_queryVersion_main
    simp only [PyObj.run, return_, e]
  · rw [← e2]


/-- the version texts a device sends have no leading `v` (the property's alphabet; the runtime's `parse` rejects one,
`packaging` accepts it) -/
instance (t : List Char) : Decidable (NoV t) := by unfold NoV; infer_instance

def NoVScript (rs : List C15.Rd) : Prop := ∀ l t, C15.Rd.line l ∈ rs → C15.versionText l = some t → NoV t

theorem lminVersion_fst (P : C15.Params) (io : C15.Io) (thr : List Char) :
    (C15.lminVersion P io thr).1 = (C15.lquery P io C15.vQuery).1 := by
  unfold C15.lminVersion
  rcases C15.lquery P io C15.vQuery with ⟨io1, r⟩
  cases r with
  | error e => rfl
  | ok reply =>
    simp only
    cases C15.versionText reply with
    | none => rfl
    | some t =>
      simp only
      cases C15.parseVersion t <;> cases C15.parseVersion thr <;> rfl

/-- **the legacy gate, regenerated code against the model, no abstraction left**: on every script whose faults are
serial I/O exceptions and whose lines are ASCII, the regenerated `min_version(port, thr)` returns what
`C15.lminVersion` returns on the same script, having attempted exactly the version query. -/
theorem min_version_gen (fuel : Nat) (hf : 101 ≤ fuel) (thr : List Char) (hthr : NoV thr)
    (w : World NoObj) (hp : PortOk w.port) (P : C15.Params) (hP : GenParams P) (hn : SameName P C15.vQuery)
    (io : C15.Io) (hrel : Rel w.port io) (hnov : NoVScript io.reads) :
    ∃ p', ebb_serial_min_version fuel .port (.str thr) w
        = LegacyGen.encGate { w with port := p' } (C15.lminVersion P io thr).2 ∧
      Rel p' (C15.lminVersion P io thr).1 ∧ PortOk p' ∧ p'.log = w.port.log ++ [C15.vQuery] := by
  obtain ⟨s, p', e, em, r, hp', hl⟩ := queryVersion_gen fuel hf w hp P hP hn io hrel
  refine ⟨p', ?_, by rw [lminVersion_fst]; exact r, hp', hl⟩
  apply LegacyGen.min_version_bridge fuel thr s w _ e P io _ em
  · intro t ht
    apply parseRelease_agree
    by_cases hs : s = []
    · subst hs; rw [C15.versionText_nil] at ht; cases ht
    · have hrep := C15.lquery_reports P io C15.vQuery s (by rw [em]) hs
      obtain ⟨pre, post, hreads, _, _⟩ := hrep
      exact hnov s t (by rw [hreads]; simp) ht
  · exact parseRelease_agree thr hthr


/-- a call of the regenerated `ebb_serial.command` from the object layer, on a port and an ASCII text -/
theorem ioCommand_gen (fuel : Nat) (hf : 101 ≤ fuel) (c : List Char) (hc : PyIO.isAscii c = true) (vb : Val)
    (w : World NoObj) (hp : PortOk w.port) :
    ∃ p', (ioCall3 (ebb_serial_command fuel) (ok .port) (ok (.str c)) (ok vb) : Eff NoObj) w
        = (.ok .none, { w with port := p' }) ∧ PortOk p' ∧ p'.log = w.port.log ++ [c] := by
  have hb := (C07_gen_bridge fuel hf c (toIO vb) w.port hp.io).2
  obtain ⟨e1, ha⟩ := C07.command_ok C07.std c w.port hc hp.ascii
  have hl := C07.command_log C07.std c w.port hc
  have hs := (command_sub C07.std c w.port).ioScript hp.io
  rcases hq : C07.command C07.std c w.port with ⟨res, p'⟩
  rw [hq] at e1 hb ha hl hs
  simp only at e1 ha hl hs
  subst e1
  refine ⟨p', ?_, ⟨hs, ha⟩, hl⟩
  simp only [ioCall3, bind_ok]
  show ofIOOut w (ebb_serial_command fuel PyIO.Val.port (PyIO.Val.str c) (toIO vb) w.port) = _
  rw [hb]
  rfl

/-- the three ways the gate call `min_version(port, thr)` can end inside a gated feature -/
theorem gate_step (fuel : Nat) (hf : 101 ≤ fuel) (thr : List Char) (hthr : NoV thr)
    (w : World NoObj) (hp : PortOk w.port) (P : C15.Params) (hP : GenParams P) (hn : SameName P C15.vQuery)
    (hnov : NoVScript (absIo w.port).reads) :
    ∃ p1, PortOk p1 ∧ p1.log = w.port.log ++ [C15.vQuery] ∧
      (((mcall2 (ebb_serial_min_version fuel) (ok .port) (ok (.str thr)) : Eff NoObj) w
            = (.ok (.bool true), { w with port := p1 }) ∧ C15.GateOk (absIo w.port) thr) ∨
       (∃ v, (mcall2 (ebb_serial_min_version fuel) (ok .port) (ok (.str thr)) : Eff NoObj) w
            = (.ok v, { w with port := p1 }) ∧ truthy v = false) ∨
       (∃ c, (mcall2 (ebb_serial_min_version fuel) (ok .port) (ok (.str thr)) : Eff NoObj) w
            = (.exc c, { w with port := p1 }))) := by
  obtain ⟨p1, e, _, hp1, hl⟩ := min_version_gen fuel hf thr hthr w hp P hP hn (absIo w.port) (rel_absIo _) hnov
  refine ⟨p1, hp1, hl, ?_⟩
  rw [mcall2_ok_apply, e]
  cases hr : (C15.lminVersion P (absIo w.port) thr).2 with
  | error ex =>
    right; right
    cases ex <;> exact ⟨_, rfl⟩
  | ok vs =>
    cases vs with
    | none => right; left; exact ⟨.none, rfl, rfl⟩
    | some b =>
      cases b
      · right; left; exact ⟨.bool false, rfl, rfl⟩
      · left
        exact ⟨rfl, (C15.lminVersion_truthy P (absIo w.port) thr (some true) hr rfl).1⟩

/-- what reached the port during a gated legacy feature (attempted writes, in order): the version query, or the
version query followed by the feature's command — the latter only if the board's version reply (the first
non-silent read outcome) parses to at least the gate `thr` -/
def GenGate (p p' : PyIO.Port) (thr cmd : List Char) : Prop :=
  p'.log = p.log ++ [C15.vQuery] ∨ (p'.log = p.log ++ [C15.vQuery, cmd] ∧ C15.GateOk (absIo p) thr)

def outPort {ω : Type} : Out ω → Option PyIO.Port
  | .val _ w => some w.port
  | .exc _ w => some w.port
  | .fuelOut => Option.none

theorem guard_port {σ : Type} (get : σ → Val) (A B : Stmt NoObj σ) (fuel : Nat) (env : σ) (w : World NoObj)
    (h : get env = .port) :
    ifte (fun fuel env => app1 op_is_not_none (ok (get env))) A B fuel env w = A fuel env w := by
  simp only [ifte, h, app1_ok, op_is_not_none, isNone, ofP_ok, ok_apply, truthy_bool, Bool.not_false, ↓reduceIte]

theorem ascii_RB : PyIO.isAscii ['R', 'B', '\r'] = true := by decide

theorem reboot_gen (fuel : Nat) (hf : 101 ≤ fuel) (w : World NoObj) (hp : PortOk w.port)
    (P : C15.Params) (hP : GenParams P) (hn : SameName P C15.vQuery) (hnov : NoVScript (absIo w.port).reads) :
    ∃ p', outPort (ebb_serial_reboot fuel .port w) = some p' ∧
      GenGate w.port p' ['2', '.', '5', '.', '5'] ['R', 'B', '\r'] := by
  obtain ⟨p1, hp1, hl1, hcases⟩ := gate_step fuel hf ['2', '.', '5', '.', '5'] (by decide) w hp P hP hn hnov
  unfold ebb_serial_reboot ebb_serial_reboot_main ebb_serial_reboot_if1
  simp only [PyObj.run, ifte, app1_ok, op_is_not_none, isNone, ofP_ok, ok_apply, truthy_bool, Bool.not_false, ↓reduceIte,
    block_cons2, block_one]
  rcases hcases with ⟨e, hg⟩ | ⟨v, e, hv⟩ | ⟨c, e⟩
  · rw [seq_norm (assign_of e)]
    unfold ebb_serial_reboot_if2 ebb_serial_reboot_try1
    simp only [ifte, load_bool, ok_apply, truthy_bool, ↓reduceIte, tryExcept]
    obtain ⟨p2, e2, hp2, hl2⟩ := ioCommand_gen fuel hf _ ascii_RB (.bool true) { w with port := p1 } hp1
    rw [expr_of e2]
    exact ⟨p2, rfl, Or.inr ⟨by rw [hl2]; simp [hl1], hg⟩⟩
  · rw [seq_norm (assign_of e)]
    unfold ebb_serial_reboot_if2
    have hld : (load v : Eff NoObj) { w with port := p1 } = (.ok v, { w with port := p1 }) ∨
        (load v : Eff NoObj) { w with port := p1 } = (.exc .unboundLocalError, { w with port := p1 }) := by
      cases v <;> first | exact Or.inl rfl | exact Or.inr rfl
    rcases hld with h | h
    · simp only [ifte, h, hv, Bool.false_eq_true, ↓reduceIte, pass]
      exact ⟨p1, rfl, Or.inl hl1⟩
    · simp only [ifte, h]
      exact ⟨p1, rfl, Or.inl hl1⟩
  · rw [seq_exc (assign_exc e)]
    exact ⟨p1, rfl, Or.inl hl1⟩


theorem load_falsy (v : Val) (hv : truthy v = false) (w : World NoObj) :
    (load v : Eff NoObj) w = (.ok v, w) ∨ (load v : Eff NoObj) w = (.exc .unboundLocalError, w) := by
  cases v <;> first | exact Or.inl rfl | exact Or.inr rfl

theorem isAscii_append (a b : List Char) (ha : PyIO.isAscii a = true) (hb : PyIO.isAscii b = true) :
    PyIO.isAscii (a ++ b) = true := by
  unfold PyIO.isAscii at *
  simp only [List.all_append, ha, hb, Bool.and_self]

theorem write_nickname_gen (fuel : Nat) (hf : 101 ≤ fuel) (nick : List Char) (hnick : PyIO.isAscii nick = true)
    (w : World NoObj) (hp : PortOk w.port)
    (P : C15.Params) (hP : GenParams P) (hn : SameName P C15.vQuery) (hnov : NoVScript (absIo w.port).reads) :
    ∃ p', outPort (ebb_serial_write_nickname fuel .port (.str nick) w) = some p' ∧
      GenGate w.port p' ['2', '.', '5', '.', '5'] (['S', 'T', ','] ++ nick ++ ['\r']) := by
  obtain ⟨p1, hp1, hl1, hcases⟩ := gate_step fuel hf ['2', '.', '5', '.', '5'] (by decide) w hp P hP hn hnov
  have hguard : ∀ (A B : Stmt NoObj ebb_serial_write_nickname_Env) (env : ebb_serial_write_nickname_Env)
      (v : World NoObj), env.port_name = .port →
      ifte (fun fuel env => app1 op_is_not_none (ok env.port_name)) A B fuel env v = A fuel env v := by
    intro A B env v h
    simp only [ifte, h, app1_ok, op_is_not_none, isNone, ofP_ok, ok_apply, truthy_bool, Bool.not_false, ↓reduceIte]
  unfold ebb_serial_write_nickname ebb_serial_write_nickname_main ebb_serial_write_nickname_if1
  simp only [PyObj.run, block_cons2, block_one]
  rw [seq, hguard _ _ _ _ rfl]
  rcases hcases with ⟨e, hg⟩ | ⟨v, e, hv⟩ | ⟨c, e⟩
  · rw [seq_norm (assign_of e)]
    unfold ebb_serial_write_nickname_if2 ebb_serial_write_nickname_try1
    simp only [ifte, load_bool, ok_apply, truthy_bool, ↓reduceIte, tryExcept, block_cons2, block_one]
    have hcmd : PyIO.isAscii (['S', 'T', ','] ++ nick ++ ['\r']) = true :=
      isAscii_append _ _ (isAscii_append _ _ (by decide) hnick) (by decide)
    obtain ⟨p2, e2, hp2, hl2⟩ := ioCommand_gen fuel hf _ hcmd (.bool true) { w with port := p1 } hp1
    rw [seq_norm (env' := ⟨.port, .str nick, .bool true, .str (['S', 'T', ','] ++ nick ++ ['\r'])⟩)
      (w' := { w with port := p1 }) (by
        simp only [assign, app2_ok, op_add, ofP_ok, ok_apply])]
    rw [seq_norm (expr_of (by simpa only [load_str] using e2))]
    simp only [return_, ok_apply]
    exact ⟨p2, rfl, Or.inr ⟨by rw [hl2]; simp [hl1], hg⟩⟩
  · rw [seq_norm (assign_of e)]
    unfold ebb_serial_write_nickname_if2
    rcases load_falsy v hv { w with port := p1 } with h | h
    · simp only [ifte, h, hv, Bool.false_eq_true, ↓reduceIte, pass, return_, ok_apply]
      exact ⟨p1, rfl, Or.inl hl1⟩
    · simp only [ifte, h]
      exact ⟨p1, rfl, Or.inl hl1⟩
  · rw [seq_exc (assign_exc e)]
    exact ⟨p1, rfl, Or.inl hl1⟩


theorem lit_SR : "SR,".toList = ['S', 'R', ','] := by decide

def encOptInt : Option Int → Val
  | some z => .int z
  | Option.none => .none

theorem srCmd_ascii (t : Int) (st : Option Int) : PyIO.isAscii (C15.srCmd t st) = true := by
  cases st with
  | none =>
    simp only [C15.srCmd, lit_SR]
    exact isAscii_append _ _ (isAscii_append _ _ (by decide) (LegacyGen.isAscii_showInt t)) (by decide)
  | some s =>
    simp only [C15.srCmd, lit_SR]
    exact isAscii_append _ _ (isAscii_append _ _ (isAscii_append _ _ (isAscii_append _ _ (by decide)
      (LegacyGen.isAscii_showInt t)) (by decide)) (LegacyGen.isAscii_showInt s)) (by decide)

theorem servo_timeout_gen (fuel : Nat) (hf : 101 ≤ fuel) (t : Int) (st : Option Int) (vb : Val)
    (w : World NoObj) (hp : PortOk w.port)
    (P : C15.Params) (hP : GenParams P) (hn : SameName P C15.vQuery) (hnov : NoVScript (absIo w.port).reads) :
    ∃ p', outPort (ebb_motion_servo_timeout fuel .port (.int t) (encOptInt st) vb w) = some p' ∧
      GenGate w.port p' ['2', '.', '6', '.', '0'] (C15.srCmd t st) := by
  obtain ⟨p1, hp1, hl1, hcases⟩ := gate_step fuel hf ['2', '.', '6', '.', '0'] (by decide) w hp P hP hn hnov
  have hguard : ∀ (A B : Stmt NoObj ebb_motion_servo_timeout_Env) (env : ebb_motion_servo_timeout_Env)
      (v : World NoObj), env.port_name = .port →
      ifte (fun fuel env => app1 op_is_not_none (ok env.port_name)) A B fuel env v = A fuel env v := by
    intro A B env v h
    simp only [ifte, h, app1_ok, op_is_not_none, isNone, ofP_ok, ok_apply, truthy_bool, Bool.not_false, ↓reduceIte]
  unfold ebb_motion_servo_timeout ebb_motion_servo_timeout_main ebb_motion_servo_timeout_if1
  simp only [PyObj.run]
  rw [hguard _ _ _ _ rfl]
  simp only [block_cons2, block_one]
  unfold ebb_motion_servo_timeout_if2
  rcases hcases with ⟨e, hg⟩ | ⟨v, e, hv⟩ | ⟨c, e⟩
  · have hif2 : ∀ env : ebb_motion_servo_timeout_Env, env.port_name = .port →
        ifte (fun fuel env => not_ (mcall2 (ebb_serial_min_version fuel) (ok env.port_name)
            (ok (Val.str ['2', '.', '6', '.', '0'])))) (return_ (fun fuel env => ok Val.none)) pass fuel env w
          = .norm env { w with port := p1 } := by
      intro env h
      simp only [ifte, not_, h, PyObj.bind, e, ok_apply, truthy_bool, Bool.not_true, Bool.false_eq_true, ↓reduceIte, pass]
    rw [seq_norm (hif2 _ rfl)]
    have hif3 : ebb_motion_servo_timeout_if3 fuel ⟨.port, .int t, encOptInt st, vb, .unbound⟩ { w with port := p1 }
        = .norm ⟨.port, .int t, encOptInt st, vb, .str (C15.srCmd t st)⟩ { w with port := p1 } := by
      unfold ebb_motion_servo_timeout_if3
      cases st with
      | none =>
        simp only [encOptInt, ifte, app1_ok, op_is_none, isNone, ofP_ok, ok_apply, truthy_bool, ↓reduceIte, assign,
          format_, evalList_cons_ok, evalList_nil, renderFmt, List.getElem?_cons_zero, Option.map_some, strOf,
          C15.srCmd, lit_SR, C15.fmtInt, Ebb3.showInt, List.append_nil, List.cons_append, List.nil_append,
          List.append_assoc]
      | some s =>
        simp only [encOptInt, ifte, app1_ok, op_is_none, isNone, ofP_ok, ok_apply, truthy_bool, Bool.false_eq_true,
          ↓reduceIte, assign,
          format_, evalList_cons_ok, evalList_nil, renderFmt, List.getElem?_cons_zero, List.getElem?_cons_succ,
          Option.map_some, strOf,
          C15.srCmd, lit_SR, C15.fmtInt, Ebb3.showInt, List.append_nil, List.cons_append, List.nil_append,
          List.append_assoc]
    rw [seq_norm hif3]
    obtain ⟨p2, e2, hp2, hl2⟩ := ioCommand_gen fuel hf _ (srCmd_ascii t st) vb { w with port := p1 } hp1
    rw [expr_of (by simpa only [load_str] using e2)]
    exact ⟨p2, rfl, Or.inr ⟨by rw [hl2]; simp [hl1], hg⟩⟩
  · have hif2 : ∀ env : ebb_motion_servo_timeout_Env, env.port_name = .port →
        ifte (fun fuel env => not_ (mcall2 (ebb_serial_min_version fuel) (ok env.port_name)
            (ok (Val.str ['2', '.', '6', '.', '0'])))) (return_ (fun fuel env => ok Val.none)) pass fuel env w
          = .ret .none { w with port := p1 } := by
      intro env h
      simp only [ifte, not_, h, PyObj.bind, e, ok_apply, truthy_bool, hv, Bool.not_false, ↓reduceIte, return_]
    rw [seq_ret (hif2 _ rfl)]
    exact ⟨p1, rfl, Or.inl hl1⟩
  · have hif2 : ∀ env : ebb_motion_servo_timeout_Env, env.port_name = .port →
        ifte (fun fuel env => not_ (mcall2 (ebb_serial_min_version fuel) (ok env.port_name)
            (ok (Val.str ['2', '.', '6', '.', '0'])))) (return_ (fun fuel env => ok Val.none)) pass fuel env w
          = .exc c env { w with port := p1 } := by
      intro env h
      simp only [ifte, not_, h, PyObj.bind, e]
    rw [seq_exc (hif2 _ rfl)]
    exact ⟨p1, rfl, Or.inl hl1⟩


/-! ### statements that do no I/O: they end (never out of fuel) in the world they started in -/

section pure
variable {ω σ : Type}

def flowW : Flow ω σ → Option (World ω)
  | .norm _ w => some w
  | .ret _ w => some w
  | .exc _ _ w => some w
  | .brk _ w => some w
  | .cont _ w => some w
  | .fuelOut => Option.none

def PureE (e : Eff ω) : Prop := ∀ w, ∃ r, e w = (r, w) ∧ r ≠ Res.fuelOut
def PureX (e : Expr ω σ) : Prop := ∀ fuel env, PureE (e fuel env)
def PureS (s : Stmt ω σ) : Prop := ∀ fuel env w, flowW (s fuel env w) = some w

theorem pureE_ok (v : Val) : PureE (ok v : Eff ω) := fun w => ⟨.ok v, rfl, by simp⟩
theorem pureE_raise (c : PyIO.ExcClass) : PureE (raise c : Eff ω) := fun w => ⟨.exc c, rfl, by simp⟩
theorem pureE_ofP (p : P) : PureE (ofP p : Eff ω) := by
  cases p with
  | ok v => exact pureE_ok v
  | error c => exact pureE_raise c
theorem pureE_load (v : Val) : PureE (load v : Eff ω) := by
  cases v <;> first | exact pureE_raise _ | exact pureE_ok _
theorem pureE_bind {m : Eff ω} {f : Val → Eff ω} (hm : PureE m) (hf : ∀ v, PureE (f v)) : PureE (PyObj.bind m f) := by
  intro w
  obtain ⟨r, e, hr⟩ := hm w
  cases r with
  | ok v =>
    obtain ⟨r2, e2, hr2⟩ := hf v w
    exact ⟨r2, by simp only [PyObj.bind, e, e2], hr2⟩
  | exc c => exact ⟨.exc c, by simp only [PyObj.bind, e], by simp⟩
  | fuelOut => exact absurd rfl hr
theorem pureE_app1 (f : Val → P) {a : Eff ω} (ha : PureE a) : PureE (app1 f a) :=
  pureE_bind ha (fun _ => pureE_ofP _)
theorem pureE_app2 (f : Val → Val → P) {a b : Eff ω} (ha : PureE a) (hb : PureE b) : PureE (app2 f a b) :=
  pureE_bind ha (fun _ => pureE_bind hb (fun _ => pureE_ofP _))

theorem pureS_pass : PureS (pass : Stmt ω σ) := fun _ _ _ => rfl
theorem pureS_assign (set : σ → Val → σ) {e : Expr ω σ} (he : PureX e) : PureS (assign set e) := by
  intro fuel env w
  obtain ⟨r, h, hr⟩ := he fuel env w
  cases r with
  | ok v => simp only [assign, h, flowW]
  | exc c => simp only [assign, h, flowW]
  | fuelOut => exact absurd rfl hr
theorem pureS_return {e : Expr ω σ} (he : PureX e) : PureS (return_ e) := by
  intro fuel env w
  obtain ⟨r, h, hr⟩ := he fuel env w
  cases r with
  | ok v => simp only [return_, h, flowW]
  | exc c => simp only [return_, h, flowW]
  | fuelOut => exact absurd rfl hr
theorem pureS_ifte {c : Expr ω σ} {a b : Stmt ω σ} (hc : PureX c) (ha : PureS a) (hb : PureS b) :
    PureS (ifte c a b) := by
  intro fuel env w
  obtain ⟨r, h, hr⟩ := hc fuel env w
  cases r with
  | ok v =>
    simp only [ifte, h]
    split
    · exact ha fuel env w
    · exact hb fuel env w
  | exc c => simp only [ifte, h, flowW]
  | fuelOut => exact absurd rfl hr
theorem pureS_seq {a b : Stmt ω σ} (ha : PureS a) (hb : PureS b) : PureS (seq a b) := by
  intro fuel env w
  have h := ha fuel env w
  unfold seq
  cases hr : a fuel env w with
  | norm env' w' =>
    rw [hr] at h
    simp only [flowW, Option.some.injEq] at h
    subst h
    exact hb fuel env' w'
  | ret v w' => rw [hr] at h; exact h
  | exc c env' w' => rw [hr] at h; exact h
  | brk env' w' => rw [hr] at h; exact h
  | cont env' w' => rw [hr] at h; exact h
  | fuelOut => rw [hr] at h; exact h

theorem run_flowW {body : Stmt ω σ} {fuel : Nat} {env : σ} {w w' : World ω}
    (h : flowW (body fuel env w) = some w') : outPort (PyObj.run body fuel env w) = some w'.port := by
  unfold PyObj.run
  cases hr : body fuel env w <;> rw [hr] at h <;> simp only [flowW, Option.some.injEq, reduceCtorEq] at h <;>
    (try subst h) <;> rfl

/-- a statement, then pure ones: the port is where the first statement left it -/
theorem seq_flowW {a b : Stmt ω σ} {fuel : Nat} {env : σ} {w w' : World ω}
    (ha : flowW (a fuel env w) = some w') (hb : PureS b) : flowW (seq a b fuel env w) = some w' := by
  unfold seq
  cases hr : a fuel env w with
  | norm env' w'' =>
    rw [hr] at ha
    simp only [flowW, Option.some.injEq] at ha
    subst ha
    exact hb fuel env' w''
  | ret v w'' => rw [hr] at ha; exact ha
  | exc c env' w'' => rw [hr] at ha; exact ha
  | brk env' w'' => rw [hr] at ha; exact ha
  | cont env' w'' => rw [hr] at ha; exact ha
  | fuelOut => rw [hr] at ha; exact ha

end pure


/-- closes `PureS s` / `PureX e` / `PureE e` goals for code built from the pure combinators -/
macro "pure_tac" : tactic => `(tactic|
  repeat (first
    | exact pureS_pass
    | apply pureS_seq
    | apply pureS_ifte
    | apply pureS_return
    | apply pureS_assign
    | (intro _ _)
    | exact pureE_ok _
    | exact pureE_load _
    | apply pureE_app1
    | apply pureE_app2))

theorem ascii_QT : PyIO.isAscii ['Q', 'T', '\r'] = true := by decide
theorem ascii_QC : PyIO.isAscii ['Q', 'C', '\r'] = true := by decide

theorem qn_if4_pure : PureS ebb_serial_query_nickname_if4 := by unfold ebb_serial_query_nickname_if4; pure_tac
theorem qn_if3_pure : PureS ebb_serial_query_nickname_if3 := by
  unfold ebb_serial_query_nickname_if3
  simp only [block_cons2, block_one]
  apply pureS_ifte
  · pure_tac
  · exact pureS_seq qn_if4_pure (by pure_tac)
  · pure_tac
theorem qn_if5_pure : PureS ebb_serial_query_nickname_if5 := by unfold ebb_serial_query_nickname_if5; pure_tac
theorem qn_if7_pure : PureS ebb_serial_query_nickname_if7 := by unfold ebb_serial_query_nickname_if7; pure_tac
theorem qn_if6_pure : PureS ebb_serial_query_nickname_if6 := by
  unfold ebb_serial_query_nickname_if6
  apply pureS_ifte
  · pure_tac
  · exact qn_if7_pure
  · pure_tac


theorem sameName_of (P : C15.Params) (hP : P.noOk = C15.Params.std.noOk) (c : List Char)
    (h : C15.Params.std.noOk.contains (C15.lower (C15.strip ((C15.splitOn ',' c).headD [])))
        = C07.std.noOK.contains (C07.reqName c)) : SameName P c := by
  unfold SameName; rw [hP]; exact h

theorem query_nickname_gen (fuel : Nat) (hf : 101 ≤ fuel) (vb : Val)
    (w : World NoObj) (hp : PortOk w.port)
    (P : C15.Params) (hP : GenParams P) (hn : SameName P C15.vQuery) (hnq : SameName P ['Q', 'T', '\r'])
    (hnov : NoVScript (absIo w.port).reads) :
    ∃ p', outPort (ebb_serial_query_nickname fuel .port vb w) = some p' ∧
      GenGate w.port p' ['2', '.', '5', '.', '5'] ['Q', 'T', '\r'] := by
  obtain ⟨p1, hp1, hl1, hcases⟩ := gate_step fuel hf ['2', '.', '5', '.', '5'] (by decide) w hp P hP hn hnov
  have hguard : ∀ (A B : Stmt NoObj ebb_serial_query_nickname_Env) (env : ebb_serial_query_nickname_Env)
      (v : World NoObj), env.port_name = .port →
      ifte (fun fuel env => app1 op_is_not_none (ok env.port_name)) A B fuel env v = A fuel env v := by
    intro A B env v h
    simp only [ifte, h, app1_ok, op_is_not_none, isNone, ofP_ok, ok_apply, truthy_bool, Bool.not_false, ↓reduceIte]
  unfold ebb_serial_query_nickname ebb_serial_query_nickname_main ebb_serial_query_nickname_if1
  simp only [block_cons2, block_one]
  suffices h : ∃ w', flowW (seq (ifte (fun fuel env => app1 op_is_not_none (ok env.port_name))
      (seq (assign (fun env v => { env with version_status := v }) (fun fuel env =>
          mcall2 (ebb_serial_min_version fuel) (ok env.port_name) (ok (Val.str ['2', '.', '5', '.', '5']))))
        (seq ebb_serial_query_nickname_if2 ebb_serial_query_nickname_if6)) pass)
      (return_ (fun fuel env => ok Val.none)) fuel
      { port_name := .port, verbose := vb, version_status := .unbound, raw_string := .unbound } w) = some w' ∧
      GenGate w.port w'.port ['2', '.', '5', '.', '5'] ['Q', 'T', '\r'] by
    obtain ⟨w', h1, h2⟩ := h
    exact ⟨w'.port, run_flowW h1, h2⟩
  have hret : PureS (return_ (fun fuel (env : ebb_serial_query_nickname_Env) => (ok Val.none : Eff NoObj))) := by
    pure_tac
  rcases hcases with ⟨e, hg⟩ | ⟨v, e, hv⟩ | ⟨c, e⟩
  · obtain ⟨s, p2, e2, _, _, hp2, hl2⟩ := ioQuery_gen fuel hf _ ascii_QT (.bool true) { w with port := p1 } hp1 P hP hnq
      (absIo p1) (rel_absIo _)
    refine ⟨{ w with port := p2 }, seq_flowW ?_ hret, Or.inr ⟨by rw [hl2]; simp [hl1], hg⟩⟩
    rw [hguard _ _ _ _ rfl, seq_norm (assign_of e)]
    refine seq_flowW ?_ qn_if6_pure
    unfold ebb_serial_query_nickname_if2
    simp only [ifte, load_bool, ok_apply, truthy_bool, ↓reduceIte, block_cons2, block_one]
    rw [seq_norm (assign_of e2)]
    exact pureS_seq qn_if3_pure (pureS_seq qn_if5_pure (by pure_tac)) _ _ _
  · refine ⟨{ w with port := p1 }, seq_flowW ?_ hret, Or.inl hl1⟩
    rw [hguard _ _ _ _ rfl, seq_norm (assign_of e)]
    refine seq_flowW ?_ qn_if6_pure
    unfold ebb_serial_query_nickname_if2
    rcases load_falsy v hv { w with port := p1 } with h | h
    · simp only [ifte, h, hv, Bool.false_eq_true, ↓reduceIte, pass, flowW]
    · simp only [ifte, h, flowW]
  · refine ⟨{ w with port := p1 }, seq_flowW ?_ hret, Or.inl hl1⟩
    rw [hguard _ _ _ _ rfl, seq_exc (assign_exc e)]
    rfl

theorem qv_if3_pure : PureS ebb_motion_queryVoltage_if3 := by unfold ebb_motion_queryVoltage_if3; pure_tac
theorem qv_if4_pure : PureS ebb_motion_queryVoltage_if4 := by unfold ebb_motion_queryVoltage_if4; pure_tac

theorem queryVoltage_gen (fuel : Nat) (hf : 101 ≤ fuel) (vb : Val)
    (w : World NoObj) (hp : PortOk w.port)
    (P : C15.Params) (hP : GenParams P) (hn : SameName P C15.vQuery) (hnq : SameName P ['Q', 'C', '\r'])
    (hnov : NoVScript (absIo w.port).reads) :
    ∃ p', outPort (ebb_motion_queryVoltage fuel .port vb w) = some p' ∧
      GenGate w.port p' ['2', '.', '2', '.', '3'] ['Q', 'C', '\r'] := by
  obtain ⟨p1, hp1, hl1, hcases⟩ := gate_step fuel hf ['2', '.', '2', '.', '3'] (by decide) w hp P hP hn hnov
  have hguard : ∀ (A B : Stmt NoObj ebb_motion_queryVoltage_Env) (env : ebb_motion_queryVoltage_Env)
      (v : World NoObj), env.port_name = .port →
      ifte (fun fuel env => app1 op_is_not_none (ok env.port_name)) A B fuel env v = A fuel env v := by
    intro A B env v h
    simp only [ifte, h, app1_ok, op_is_not_none, isNone, ofP_ok, ok_apply, truthy_bool, Bool.not_false, ↓reduceIte]
  unfold ebb_motion_queryVoltage ebb_motion_queryVoltage_main ebb_motion_queryVoltage_if1
  simp only [block_cons2, block_one]
  have hret : PureS (return_ (fun fuel (env : ebb_motion_queryVoltage_Env) => (ok (Val.bool true) : Eff NoObj))) := by
    pure_tac
  suffices h : ∃ w', flowW (ifte (fun fuel env => app1 op_is_not_none (ok env.port_name))
      (seq ebb_motion_queryVoltage_if2
        (seq (assign (fun env v => { env with raw_string := v }) (fun fuel env =>
            ioCall3 (ebb_serial_query fuel) (ok env.port_name) (ok (Val.str ['Q', 'C', '\r'])) (ok env.verbose)))
          (seq (assign (fun env v => { env with split_string := v }) (fun fuel env =>
              app1 (meth_split1_char ',') (load env.raw_string)))
            (seq (assign (fun env v => { env with split_len := v }) (fun fuel env =>
                app1 op_len (load env.split_string)))
              (seq ebb_motion_queryVoltage_if3 ebb_motion_queryVoltage_if4))))) pass fuel
      { port_name := .port, verbose := vb, raw_string := .unbound, split_string := .unbound, split_len := .unbound,
        voltage_value := .unbound } w) = some w' ∧
      GenGate w.port w'.port ['2', '.', '2', '.', '3'] ['Q', 'C', '\r'] by
    obtain ⟨w', h1, h2⟩ := h
    exact ⟨w'.port, run_flowW (seq_flowW h1 hret), h2⟩
  rw [hguard _ _ _ _ rfl]
  unfold ebb_motion_queryVoltage_if2
  rcases hcases with ⟨e, hg⟩ | ⟨v, e, hv⟩ | ⟨c, e⟩
  · have hif2 : ∀ env : ebb_motion_queryVoltage_Env, env.port_name = .port →
        ifte (fun fuel env => not_ (mcall2 (ebb_serial_min_version fuel) (ok env.port_name)
            (ok (Val.str ['2', '.', '2', '.', '3'])))) (return_ (fun fuel env => ok (Val.bool true))) pass fuel env w
          = .norm env { w with port := p1 } := by
      intro env h
      simp only [ifte, not_, h, PyObj.bind, e, ok_apply, truthy_bool, Bool.not_true, Bool.false_eq_true, ↓reduceIte, pass]
    rw [seq_norm (hif2 _ rfl)]
    obtain ⟨s, p2, e2, _, _, hp2, hl2⟩ := ioQuery_gen fuel hf _ ascii_QC vb { w with port := p1 } hp1 P hP hnq
      (absIo p1) (rel_absIo _)
    refine ⟨{ w with port := p2 }, ?_, Or.inr ⟨by rw [hl2]; simp [hl1], hg⟩⟩
    rw [seq_norm (assign_of e2)]
    exact pureS_seq (by pure_tac) (pureS_seq (by pure_tac) (pureS_seq qv_if3_pure qv_if4_pure)) _ _ _
  · have hif2 : ∀ env : ebb_motion_queryVoltage_Env, env.port_name = .port →
        ifte (fun fuel env => not_ (mcall2 (ebb_serial_min_version fuel) (ok env.port_name)
            (ok (Val.str ['2', '.', '2', '.', '3'])))) (return_ (fun fuel env => ok (Val.bool true))) pass fuel env w
          = .ret (.bool true) { w with port := p1 } := by
      intro env h
      simp only [ifte, not_, h, PyObj.bind, e, ok_apply, truthy_bool, hv, Bool.not_false, ↓reduceIte, return_]
    rw [seq_ret (hif2 _ rfl)]
    exact ⟨{ w with port := p1 }, rfl, Or.inl hl1⟩
  · have hif2 : ∀ env : ebb_motion_queryVoltage_Env, env.port_name = .port →
        ifte (fun fuel env => not_ (mcall2 (ebb_serial_min_version fuel) (ok env.port_name)
            (ok (Val.str ['2', '.', '2', '.', '3'])))) (return_ (fun fuel env => ok (Val.bool true))) pass fuel env w
          = .exc c env { w with port := p1 } := by
      intro env h
      simp only [ifte, not_, h, PyObj.bind, e]
    rw [seq_exc (hif2 _ rfl)]
    exact ⟨{ w with port := p1 }, rfl, Or.inl hl1⟩

end Plotink.C15Gen
