import Plotink.Proofs.C05Methods
set_option linter.unusedSimpArgs false
set_option linter.unusedVariables false
/-!
"A recorded error is reported by the failure value": for every request method, any device, any
arguments and any start state — if the call returns a value and an error is recorded afterwards,
the value is one of `False`, `None`, `(None, None)`.  Core Lean only.
-/
namespace Plotink
namespace Ebb3
open M

variable {σ : Type} {α β : Type}

/-- the documented failure values -/
def IsFailure (v : Val) : Prop := v = .bool false ∨ v = .none ∨ v = .pair .none .none

theorem bind_inv {x : M σ α} {f : α → M σ β} {w w' : World σ} {b : β}
    (h : (x >>= f) w = (.ok b, w')) : ∃ a w1, x w = (.ok a, w1) ∧ f a w1 = (.ok b, w') := by
  rw [bind_apply] at h
  rcases hx : x w with ⟨r, w1⟩
  rw [hx] at h
  cases r with
  | ok a => exact ⟨a, w1, rfl, h⟩
  | error e => simp at h

/-- computations that never change the world (decoders) -/
def Inert (x : M σ α) : Prop := ∀ w, (x w).2 = w

theorem Inert.pure (a : α) : Inert (Pure.pure a : M σ α) := fun _ => rfl
theorem Inert.raise (e : PyExc) : Inert (M.raise e : M σ α) := fun _ => rfl
theorem Inert.ofOption (e : PyExc) (o : Option α) : Inert (ofOption e o : M σ α) := by
  cases o <;> exact fun _ => rfl
theorem Inert.bind {x : M σ α} {f : α → M σ β} (hx : Inert x) (hf : ∀ a, Inert (f a)) : Inert (x >>= f) := by
  intro w
  rw [bind_apply]
  have := hx w
  rcases hxw : x w with ⟨r, w1⟩
  rw [hxw] at this
  simp only at this
  subst this
  cases r with
  | ok a => exact hf a w1
  | error e => rfl

macro "inert_step" : tactic => `(tactic| first
  | exact Inert.pure _ | exact Inert.raise _ | exact Inert.ofOption _ _
  | refine Inert.bind ?_ (fun _ => ?_) | split)

theorem Inert.int2 (l : List Str) : Inert (int2 l : M σ Val) := by unfold Ebb3.int2; repeat inert_step
theorem Inert.qeDecode (l : List Str) : Inert (qeDecode l : M σ Val) := by unfold Ebb3.qeDecode; repeat inert_step
theorem Inert.currentDecode (p : Str × Option Str) : Inert (currentDecode p : M σ Val) := by
  unfold Ebb3.currentDecode; repeat inert_step
theorem Inert.voltageDecode (th : Int) (p : Str × Option Str) : Inert (voltageDecode th p : M σ Val) := by
  unfold Ebb3.voltageDecode; repeat inert_step
theorem Inert.boolOfStr (s : Str) : Inert (boolOfStr s : M σ Val) := by unfold Ebb3.boolOfStr; repeat inert_step
theorem Inert.intOfVal (v : Val) : Inert (intOfVal v : M σ Val) := by unfold Ebb3.intOfVal; repeat inert_step

theorem Inert.world {x : M σ α} (h : Inert x) {w w' : World σ} {r : Except PyExc α} (hx : x w = (r, w')) : w' = w := by
  have := h w; rw [hx] at this; exact this

/-! ### the primitives -/

theorem portWrite_st (D : Device σ) (t : Str) (w : World σ) :
    ∃ b w', portWrite D t w = (.ok b, w') ∧ w'.st = w.st := ⟨_, _, rfl, rfl⟩

theorem portRead_st (D : Device σ) (w : World σ) :
    ∃ r w', portRead D w = (.ok r, w') ∧ w'.st = w.st := ⟨_, _, rfl, rfl⟩

theorem readLoop_st (D : Device σ) : ∀ (n : Nat) (w : World σ),
    ∃ r w', readLoop D n w = (.ok r, w') ∧ w'.st = w.st
  | 0, w => ⟨_, w, rfl, rfl⟩
  | n + 1, w => by
    obtain ⟨r, w1, h1, hs1⟩ := portRead_st D w
    rw [readLoop, bind_ok h1]
    cases r with
    | none => exact ⟨_, w1, rfl, hs1⟩
    | some l =>
      by_cases he : (strip l).isEmpty = true
      · simp only [he, if_true]
        obtain ⟨r2, w2, h2, hs2⟩ := readLoop_st D n w1
        exact ⟨r2, w2, h2, hs2.trans hs1⟩
      · simp only [he]
        exact ⟨_, w1, rfl, hs1⟩

theorem exchange_st (D : Device σ) (n : Nat) (t : Str) (w : World σ) :
    ∃ r w', exchange D n t w = (.ok r, w') ∧ w'.st = w.st := by
  obtain ⟨b, w1, h1, hs1⟩ := portWrite_st D (t ++ ['\r']) w
  unfold exchange
  rw [bind_ok h1]
  cases b with
  | false => exact ⟨_, w1, rfl, hs1⟩
  | true =>
    obtain ⟨r2, w2, h2, hs2⟩ := readLoop_st D (n + 1) w1
    exact ⟨r2, w2, by simpa using h2, hs2.trans hs1⟩

/-- `command` returns `False`, or `True` with no error recorded -/
theorem command_res (P : Params) (D : Device σ) (c : Option Str) {w w' : World σ} {v : Val}
    (h : (commandP P D c).run w = (.ok v, w')) :
    v = .bool false ∨ (v = .bool true ∧ w'.st.err = Option.none) := by
  by_cases hb : w.st.blocked = true
  · rw [Prog.run_blocked _ _ rfl w hb] at h
    injection h with h1 _; injection h1 with h1
    exact Or.inl h1.symm
  · rw [Prog.run_open _ _ rfl w (by simpa using hb)] at h
    cases c with
    | none => injection h with h1 _; injection h1 with h1; exact Or.inl h1.symm
    | some c0 =>
      change commandCore P D (strip c0) w = _ at h
      unfold commandCore at h
      cases hn : cmdName (strip c0) with
      | error e => simp only [hn] at h; cases h
      | ok name =>
        simp only [hn] at h
        obtain ⟨r, w1, -, h⟩ := bind_inv h
        obtain ⟨u, w2, -, h⟩ := bind_inv h
        injection h with h1 h2
        injection h1 with h1
        subst h2
        cases he : w2.st.err with
        | none => right; simp [← h1, he]
        | some e => left; simp [← h1, he]

theorem queryJudge_res (q name resp : Str) {w w' : World σ} {v : Val}
    (h : queryJudge q name resp w = (.ok v, w')) : v = .none ∨ (∃ s, v = .str s ∧ w' = w) := by
  unfold queryJudge at h
  split at h
  · obtain ⟨u, w1, -, h⟩ := bind_inv h
    injection h with h1 _; injection h1 with h1
    exact Or.inl h1.symm
  · injection h with h1 h2; injection h1 with h1
    exact Or.inr ⟨_, h1.symm, h2.symm⟩

/-- `query` returns `None`, or a string with no error recorded -/
theorem query_res (P : Params) (D : Device σ) (q : Option Str) {w w' : World σ} {v : Val}
    (h : (queryP P D q).run w = (.ok v, w')) :
    v = .none ∨ (∃ s, v = .str s ∧ w'.st.err = Option.none) := by
  by_cases hb : w.st.blocked = true
  · rw [Prog.run_blocked _ _ rfl w hb] at h
    injection h with h1 _; injection h1 with h1
    exact Or.inl h1.symm
  · have hb' : w.st.blocked = false := by simpa using hb
    have herr := (blocked_false_iff.mp hb').2
    rw [Prog.run_open _ _ rfl w hb'] at h
    cases q with
    | none => injection h with h1 _; injection h1 with h1; exact Or.inl h1.symm
    | some q0 =>
      change queryCore P D (strip q0) w = _ at h
      unfold queryCore at h
      cases hn : cmdName (strip q0) with
      | error e => simp only [hn] at h; cases h
      | ok name =>
        simp only [hn] at h
        obtain ⟨r, w1, hx, h⟩ := bind_inv h
        obtain ⟨r', w1', hx', hs⟩ := exchange_st D P.retryQry (strip q0) w
        rw [hx'] at hx
        injection hx with hx1 hx2
        subst hx2
        have herr1 : w1'.st.err = Option.none := by rw [hs]; exact herr
        have hj : ∀ resp, queryJudge (strip q0) name resp w1' = (.ok v, w') →
            v = .none ∨ (∃ s, v = .str s ∧ w'.st.err = Option.none) := by
          intro resp hq
          rcases queryJudge_res _ _ _ hq with h0 | ⟨s, hs, hw⟩
          · exact Or.inl h0
          · exact Or.inr ⟨s, hs, by rw [hw]; exact herr1⟩
        cases r with
        | some resp => exact hj _ h
        | none =>
          simp only at h
          by_cases hi : P.ignoreQry.contains (lower name) = true
          · simp only [hi, if_true] at h
            exact hj _ h
          · simp only [hi] at h
            obtain ⟨u, w2, -, h⟩ := bind_inv h
            injection h with h1 _; injection h1 with h1
            exact Or.inl h1.symm

theorem recordError_ok (m : Str) (w : World σ) : ∃ w', (recordError m : M σ Unit) w = (.ok (), w') := ⟨_, rfl⟩

/-- `query_statusbyte` returns `None`, or an integer with the state untouched -/
theorem qgJudge_res (resp : Str) {w w' : World σ} {v : Val} (h : qgJudge resp w = (.ok v, w')) :
    v = .none ∨ w' = w := by
  unfold qgJudge at h
  split at h
  · obtain ⟨u, w1, -, h⟩ := bind_inv h
    injection h with h1 _; injection h1 with h1; exact Or.inl h1.symm
  · split at h
    · obtain ⟨u, w1, -, h⟩ := bind_inv h
      injection h with h1 _; injection h1 with h1; exact Or.inl h1.symm
    · cases h3 : pyInt 16 (List.drop 3 resp) with
      | some z => simp only [h3] at h; injection h with _ h2; exact Or.inr h2.symm
      | none => simp only [h3] at h; injection h with h1 _; injection h1 with h1; exact Or.inl h1.symm

theorem qgUsbFail_res {w w' : World σ} {v : Val} (h : (qgUsbFail : M σ Val) w = (.ok v, w')) : v = .none := by
  injection h with h1 _; injection h1 with h1; exact h1.symm

theorem queryStatusByte_res (D : Device σ) {w w' : World σ} {v : Val}
    (h : (queryStatusByteP D).run w = (.ok v, w')) : v = .none ∨ w'.st.err = Option.none := by
  by_cases hb : w.st.blocked = true
  · rw [Prog.run_blocked _ _ rfl w hb] at h
    injection h with h1 _; injection h1 with h1
    exact Or.inl h1.symm
  · have hb' : w.st.blocked = false := by simpa using hb
    have herr := (blocked_false_iff.mp hb').2
    rw [Prog.run_open _ _ rfl w hb'] at h
    change queryStatusByteBody D w = _ at h
    unfold queryStatusByteBody at h
    obtain ⟨b, w1, hx, h⟩ := bind_inv h
    obtain ⟨b', w1', hx', hs⟩ := portWrite_st D "QG\r".toList w
    rw [hx'] at hx; injection hx with _ hx2; subst hx2
    cases b with
    | true =>
      simp only [if_true] at h
      obtain ⟨r, w2, hy, h⟩ := bind_inv h
      obtain ⟨r', w2', hy', hs2⟩ := portRead_st D w1'
      rw [hy'] at hy; injection hy with _ hy2; subst hy2
      cases r with
      | none => exact Or.inl (qgUsbFail_res h)
      | some l =>
        rcases qgJudge_res _ h with h0 | h0
        · exact Or.inl h0
        · right; rw [h0, hs2, hs]; exact herr
    | false => exact Or.inl (qgUsbFail_res h)


/-! ### the methods -/

/-- a value returned together with a recorded error is a failure value -/
def FailRep (x : M σ Val) : Prop :=
  ∀ w v w', x w = (.ok v, w') → w'.st.err.isSome = true → IsFailure v

theorem failRep_guarded (p : Prog σ) (fv : Val) (hg : p.guard = some fv) (hfv : IsFailure fv)
    (hbody : ∀ w, w.st.blocked = false → ∀ v w', p.body w = (.ok v, w') → w'.st.err.isSome = true → IsFailure v) :
    FailRep p.run := by
  intro w v w' h he
  by_cases hb : w.st.blocked = true
  · rw [Prog.run_blocked p fv hg w hb] at h
    injection h with h1 _; injection h1 with h1
    rw [← h1]; exact hfv
  · have hb' : w.st.blocked = false := by simpa using hb
    rw [Prog.run_open p fv hg w hb'] at h
    exact hbody w hb' v w' h he

/-- computations that can only return `None` -/
def RetNone (x : M σ Val) : Prop := ∀ w v w', x w = (.ok v, w') → v = .none

theorem RetNone.pure : RetNone (Pure.pure Val.none : M σ Val) := by
  intro w v w' h; injection h with h1 _; injection h1 with h1; exact h1.symm
theorem RetNone.raise (e : PyExc) : RetNone (M.raise e : M σ Val) := by
  intro w v w' h; cases h
theorem RetNone.bind {x : M σ α} {f : α → M σ Val} (hf : ∀ a, RetNone (f a)) : RetNone (x >>= f) := by
  intro w v w' h
  obtain ⟨a, w1, -, h⟩ := bind_inv h
  exact hf a w1 v w' h

theorem RetNone.failRep {x : M σ Val} (h : RetNone x) : FailRep x :=
  fun w v w' hx _ => Or.inr (Or.inl (h w v w' hx))

macro "retnone_step" : tactic => `(tactic| first
  | exact RetNone.pure | exact RetNone.raise _ | refine RetNone.bind (fun _ => ?_) | split)

theorem failRep_of_body_retNone (p : Prog σ) (hg : p.guard = some .none) (hb : RetNone p.body) : FailRep p.run :=
  failRep_guarded p .none hg (Or.inr (Or.inl rfl)) (fun w _ v w' h _ => Or.inr (Or.inl (hb w v w' h)))

theorem cmdP_failRep (P : Params) (D : Device σ) (t : Str) : FailRep (cmdP P D t).run :=
  failRep_of_body_retNone _ rfl (by unfold cmdP; repeat retnone_step)

theorem isSome_of_none {o : Option Str} (h : o = Option.none) (h' : o.isSome = true) : False := by
  subst h; cases h'

theorem command_failRep (P : Params) (D : Device σ) (c : Option Str) : FailRep (commandP P D c).run := by
  intro w v w' h he
  rcases command_res P D c h with h0 | ⟨-, h1⟩
  · exact Or.inl h0
  · exact (isSome_of_none h1 he).elim

theorem query_failRep (P : Params) (D : Device σ) (q : Option Str) : FailRep (queryP P D q).run := by
  intro w v w' h he
  rcases query_res P D q h with h0 | ⟨s, -, h1⟩
  · exact Or.inr (Or.inl h0)
  · exact (isSome_of_none h1 he).elim

theorem queryStatusByte_failRep (D : Device σ) : FailRep (queryStatusByteP D).run := by
  intro w v w' h he
  rcases queryStatusByte_res D h with h0 | h1
  · exact Or.inr (Or.inl h0)
  · exact (isSome_of_none h1 he).elim

theorem rawClose_err (D : Device σ) (t : Str) {w w' : World σ} {r : Except PyExc Val}
    (h : rawCloseBody D t w = (r, w')) : w'.st.err = w.st.err := by
  unfold rawCloseBody at h
  obtain ⟨b, w1, h1, hs⟩ := portWrite_st D t w
  rw [bind_ok h1] at h
  cases b with
  | true => simp only [if_true] at h; injection h with _ h2; rw [← h2]; simp [disconnectM, hs]
  | false => injection h with _ h2; rw [← h2, hs]

theorem rawClose_failRep (D : Device σ) (t : Str) :
    FailRep (⟨some (.bool false), rawCloseBody D t⟩ : Prog σ).run :=
  failRep_guarded _ _ rfl (Or.inl rfl) (fun w hb v w' h he => by
    have := rawClose_err D t h
    exact (isSome_of_none (this.trans (blocked_false_iff.mp hb).2) he).elim)

theorem queryNickname_failRep (P : Params) (D : Device σ) : FailRep (queryNicknameP P D).run :=
  failRep_of_body_retNone _ rfl (by unfold queryNicknameP; repeat retnone_step)

theorem writeNickname_failRep (P : Params) (D : Device σ) (n : Option Str) : FailRep (writeNicknameP P D n).run :=
  failRep_guarded _ _ rfl (Or.inl rfl) (fun w hb v w' h he => by
    cases n with
    | none => injection h with h1 _; injection h1 with h1; exact Or.inl h1.symm
    | some n0 =>
      change ((commandP P D (some ("ST,".toList ++ strip n0))).run >>= _) w = _ at h
      obtain ⟨r, w1, hc, h⟩ := bind_inv h
      rcases command_res P D _ hc with h0 | ⟨h1, herr⟩
      · subst h0
        injection h with h1 _; injection h1 with h1; exact Or.inl h1.symm
      · subst h1
        obtain ⟨u, w2, hs, h⟩ := bind_inv h
        injection h with _ h2
        have : w2.st.err = w1.st.err := by
          injection hs with _ hs2; rw [← hs2]
        rw [← h2, this] at he
        exact (isSome_of_none herr he).elim)

theorem errIsNone_failRep {w w' : World σ} {v : Val} (h : (errIsNone : M σ Val) w = (.ok v, w'))
    (he : w'.st.err.isSome = true) : IsFailure v := by
  injection h with h1 h2
  injection h1 with h1
  subst h2
  cases hw : w.st.err with
  | none => rw [hw] at he; cases he
  | some e => left; rw [← h1, hw]; rfl

theorem varWrite_failRep (P : Params) (D : Device σ) (a b : Int) : FailRep (varWriteP P D a b).run :=
  failRep_guarded _ _ rfl (Or.inl rfl) (fun w hb v w' h he => by
    change ((commandP P D _).run >>= fun _ => errIsNone) w = _ at h
    obtain ⟨r, w1, -, h⟩ := bind_inv h
    exact errIsNone_failRep h he)

theorem varRead_failRep (P : Params) (D : Device σ) (i : Int) : FailRep (varReadP P D i).run :=
  failRep_guarded _ _ rfl (Or.inr (Or.inl rfl)) (fun w hb v w' h he => by
    change ((queryP P D _).run >>= fun v => getSt >>= fun st => if st.err.isSome = true then pure Val.none else intOfVal v) w = _ at h
    obtain ⟨r, w1, -, h⟩ := bind_inv h
    obtain ⟨st, w2, hg, h⟩ := bind_inv h
    injection hg with hg1 hg2; injection hg1 with hg1; subst hg2; subst hg1
    by_cases hs : w1.st.err.isSome = true
    · simp only [hs, if_true] at h
      injection h with h1 _; injection h1 with h1; exact Or.inr (Or.inl h1.symm)
    · simp only [hs] at h
      have := (Inert.intOfVal r).world h
      rw [this] at he
      exact absurd he hs)

theorem varWriteInt32_failRep (P : Params) (D : Device σ) (a b : Int) : FailRep (varWriteInt32P P D a b).run :=
  failRep_guarded _ _ rfl (Or.inl rfl) (fun w hb v w' h he => by
    change (match toBytes4 a with
      | .error e => raise e
      | .ok (b3, b2, b1, b0) => (varWriteP P D b3 b).run >>= fun _ => (varWriteP P D b2 (b + 1)).run >>= fun _ =>
          (varWriteP P D b1 (b + 2)).run >>= fun _ => (varWriteP P D b0 (b + 3)).run >>= fun _ => errIsNone) w = _ at h
    cases hb4 : toBytes4 a with
    | error e => simp only [hb4] at h; cases h
    | ok q =>
      obtain ⟨b3, b2, b1, b0⟩ := q
      simp only [hb4] at h
      obtain ⟨_, w1, -, h⟩ := bind_inv h
      obtain ⟨_, w2, -, h⟩ := bind_inv h
      obtain ⟨_, w3, -, h⟩ := bind_inv h
      obtain ⟨_, w4, -, h⟩ := bind_inv h
      exact errIsNone_failRep h he)

theorem varReadInt32_failRep (P : Params) (D : Device σ) (i : Int) : FailRep (varReadInt32P P D i).run :=
  failRep_guarded _ _ rfl (Or.inl rfl) (fun w hb v w' h he => by
    change ((varReadP P D i).run >>= fun a => (varReadP P D (i + 1)).run >>= fun b =>
      (varReadP P D (i + 2)).run >>= fun c => (varReadP P D (i + 3)).run >>= fun d => getSt >>= fun st =>
        if st.err.isSome = true then pure Val.none
        else match fromBytes4 a b c d with
          | .ok z => pure (.int z)
          | .error e => raise e) w = _ at h
    obtain ⟨a, w1, -, h⟩ := bind_inv h
    obtain ⟨b, w2, -, h⟩ := bind_inv h
    obtain ⟨c, w3, -, h⟩ := bind_inv h
    obtain ⟨d, w4, -, h⟩ := bind_inv h
    obtain ⟨st, w5, hg, h⟩ := bind_inv h
    injection hg with hg1 hg2; injection hg1 with hg1; subst hg2; subst hg1
    by_cases hs : w4.st.err.isSome = true
    · simp only [hs, if_true] at h
      injection h with h1 _; injection h1 with h1; exact Or.inr (Or.inl h1.symm)
    · simp only [hs] at h
      cases hf : fromBytes4 a b c d with
      | error e => simp only [hf] at h; cases h
      | ok z =>
        simp only [hf] at h
        injection h with _ h2
        rw [← h2] at he
        exact absurd he hs)

/-- shape shared by the decoding methods: `query`, then an inert decoder on the text -/
theorem decode_failRep (P : Params) (D : Device σ) (q : Str) (dec : Str → M σ Val) (fv : Val)
    (hfv : IsFailure fv) (hdec : ∀ s, Inert (dec s)) {w w' : World σ} {v : Val}
    (h : ((queryP P D (some q)).run >>= fun r => match r with | .str s => dec s | _ => pure fv) w = (.ok v, w'))
    (he : w'.st.err.isSome = true) : IsFailure v := by
  obtain ⟨r, w1, hq, h⟩ := bind_inv h
  rcases query_res P D _ hq with h0 | ⟨s, hs, herr⟩
  · subst h0
    injection h with h1 _; injection h1 with h1; rw [← h1]; exact hfv
  · subst hs
    have := (hdec s).world h
    rw [this] at he
    exact (isSome_of_none herr he).elim

theorem motorsQueryEnabled_failRep (P : Params) (D : Device σ) : FailRep (motorsQueryEnabledP P D).run :=
  failRep_guarded _ _ rfl (Or.inr (Or.inl rfl)) (fun w hb v w' h he =>
    decode_failRep P D _ (fun s => qeDecode (splitOn ',' s)) .none (Or.inr (Or.inl rfl))
      (fun s => Inert.qeDecode _) h he)

theorem dioBRead_failRep (P : Params) (D : Device σ) (pin : Int) : FailRep (dioBReadP P D pin).run :=
  failRep_guarded _ _ rfl (Or.inr (Or.inl rfl)) (fun w hb v w' h he =>
    decode_failRep P D _ boolOfStr .none (Or.inr (Or.inl rfl)) (fun s => Inert.boolOfStr _) h he)

theorem queryVoltage_failRep (P : Params) (D : Device σ) (th : Option Int) : FailRep (queryVoltageP P D th).run :=
  failRep_guarded _ _ rfl (Or.inr (Or.inl rfl)) (fun w hb v w' h he =>
    decode_failRep P D _ (fun s => voltageDecode (th.getD P.vThreshold) (split1 ',' s)) .none (Or.inr (Or.inl rfl))
      (fun s => Inert.voltageDecode _ _) h he)

theorem queryCurrent_failRep (P : Params) (D : Device σ) : FailRep (queryCurrentP P D).run :=
  failRep_guarded _ _ rfl (Or.inr (Or.inr rfl)) (fun w hb v w' h he =>
    decode_failRep P D _ (fun s => currentDecode (split1 ',' s)) (.pair .none .none) (Or.inr (Or.inr rfl))
      (fun s => Inert.currentDecode _) h he)

theorem querySteps_failRep (P : Params) (D : Device σ) : FailRep (queryStepsP P D).run :=
  failRep_guarded _ _ rfl (Or.inr (Or.inl rfl)) (fun w hb v w' h he => by
    change ((queryP P D (some "QS".toList)).run >>= fun r => getSt >>= fun st =>
      if errTruthy st = true then pure Val.none
      else match r with
        | .str s => int2 (splitOn ',' (strip s))
        | _ => raise .attributeError) w = _ at h
    obtain ⟨r, w1, hq, h⟩ := bind_inv h
    obtain ⟨st, w2, hg, h⟩ := bind_inv h
    injection hg with hg1 hg2; injection hg1 with hg1; subst hg2; subst hg1
    by_cases ht : errTruthy w1.st = true
    · simp only [ht, if_true] at h
      injection h with h1 _; injection h1 with h1; exact Or.inr (Or.inl h1.symm)
    · simp only [ht] at h
      rcases query_res P D _ hq with h0 | ⟨s, hs, herr⟩
      · subst h0; cases h
      · subst hs
        have := (Inert.int2 (splitOn ',' (strip s))).world h
        rw [this] at he
        exact (isSome_of_none herr he).elim)

theorem runCmds_retUnit (P : Params) (D : Device σ) (l : List Str) (k : M σ Val) (hk : RetNone k) :
    RetNone (runCmds P D l >>= fun _ => k) := RetNone.bind (fun _ => hk)

/-- **every request method reports a recorded error by its failure value** -/
theorem run_failRep (P : Params) (D : Device σ) (c : Call) (hr : c.method.isRequest = true) :
    FailRep (run P D c) := by
  unfold run
  cases c <;> first | (simp [Call.method, Method.isRequest, Method.isHelper] at hr; done) | skip
  case reboot => exact rawClose_failRep D _
  case bootload => exact rawClose_failRep D _
  case query_nickname => exact queryNickname_failRep P D
  case write_nickname n => exact writeNickname_failRep P D n
  case command c => exact command_failRep P D c
  case query q => exact query_failRep P D q
  case query_statusbyte => exact queryStatusByte_failRep D
  case var_write a b => exact varWrite_failRep P D a b
  case var_read i => exact varRead_failRep P D i
  case var_write_int32 a b => exact varWriteInt32_failRep P D a b
  case var_read_int32 i => exact varReadInt32_failRep P D i
  case timed_pause t =>
    exact failRep_of_body_retNone (timedPauseP P D t) rfl (by unfold timedPauseP; repeat retnone_step)
  case xy_move a b c => exact cmdP_failRep P D _
  case abs_move r a b => exact cmdP_failRep P D _
  case motors_disable => exact cmdP_failRep P D _
  case motors_enable a b =>
    exact failRep_of_body_retNone _ rfl (by
      show RetNone (motorsEnableCore P D (clampRes a) (clampRes b))
      unfold motorsEnableCore; repeat retnone_step)
  case motors_query_enabled => exact motorsQueryEnabled_failRep P D
  case query_steps => exact querySteps_failRep P D
  case clear_steps => exact cmdP_failRep P D _
  case clear_accumulators => exact cmdP_failRep P D _
  case pen_lower d p => exact cmdP_failRep P D _
  case pen_raise d p => exact cmdP_failRep P D _
  case dio_b_config a b c =>
    exact failRep_of_body_retNone (dioBConfigP P D a b c) rfl (by unfold dioBConfigP; repeat retnone_step)
  case dio_b_set a b => exact cmdP_failRep P D _
  case dio_b_read p => exact dioBRead_failRep P D p
  case pen_pos_down v => exact cmdP_failRep P D _
  case pen_pos_up v => exact cmdP_failRep P D _
  case pen_rate_down v => exact cmdP_failRep P D _
  case pen_rate_up v => exact cmdP_failRep P D _
  case servo_timeout m s => exact cmdP_failRep P D _
  case query_voltage t => exact queryVoltage_failRep P D t
  case query_current => exact queryCurrent_failRep P D

end Ebb3
end Plotink
