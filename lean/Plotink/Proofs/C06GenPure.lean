import Plotink.Proofs.PyIOLemmas
/-! # Statements that do no I/O leave the world alone

The helpers that *query* the board post-process the reply (`split`, `int`, comparisons, `try … except`).  For "what was
transmitted" only the fact matters that this part touches neither the port nor the fuel: `PureE` / `PureX` / `PureS` are
closed under the combinators of `PyObj`, so the tail of a generated helper is discharged combinator by combinator. -/
namespace Plotink
namespace C06Gen
open PyObj
set_option linter.unusedVariables false
section
variable {ω σ : Type}

/-- the world a statement leaves (`none`: out of fuel) -/
def flowWorld : Flow ω σ → Option (World ω)
  | .norm _ w => some w
  | .ret _ w => some w
  | .exc _ _ w => some w
  | .brk _ w => some w
  | .cont _ w => some w
  | .fuelOut => Option.none

/-- an expression that neither touches the world nor runs out of fuel -/
def PureE (e : Eff ω) : Prop := ∀ w, (∃ v, e w = (.ok v, w)) ∨ (∃ c, e w = (.exc c, w))
def PureX (e : Expr ω σ) : Prop := ∀ fuel env, PureE (e fuel env)
/-- a statement that leaves the world as it found it, however it ends -/
def PureS (s : Stmt ω σ) : Prop := ∀ fuel env w, flowWorld (s fuel env w) = some w

theorem pureE_ok (v : Val) : PureE (ok v : Eff ω) := fun w => Or.inl ⟨v, rfl⟩
theorem pureE_raise (c : PyIO.ExcClass) : PureE (raise c : Eff ω) := fun w => Or.inr ⟨c, rfl⟩
theorem pureE_ofP (p : P) : PureE (ofP p : Eff ω) := by
  cases p with
  | ok v => exact pureE_ok v
  | error c => exact pureE_raise c
theorem pureE_load (v : Val) : PureE (load v : Eff ω) := by
  cases v <;> first | exact pureE_ok _ | exact pureE_raise _
theorem pureE_bind {m : Eff ω} {f : Val → Eff ω} (hm : PureE m) (hf : ∀ v, PureE (f v)) : PureE (PyObj.bind m f) := by
  intro w
  rcases hm w with ⟨v, h⟩ | ⟨c, h⟩
  · simp only [PyObj.bind, h]; exact hf v w
  · simp only [PyObj.bind, h]; exact Or.inr ⟨c, rfl⟩
theorem pureE_app1 (f : Val → P) {a : Eff ω} (ha : PureE a) : PureE (app1 f a) :=
  pureE_bind ha fun _ => pureE_ofP _
theorem pureE_app2 (f : Val → Val → P) {a b : Eff ω} (ha : PureE a) (hb : PureE b) : PureE (app2 f a b) :=
  pureE_bind ha fun _ => pureE_bind hb fun _ => pureE_ofP _
theorem pureE_app3 (f : Val → Val → Val → P) {a b c : Eff ω} (ha : PureE a) (hb : PureE b) (hc : PureE c) :
    PureE (app3 f a b c) :=
  pureE_bind ha fun _ => pureE_bind hb fun _ => pureE_bind hc fun _ => pureE_ofP _
theorem pureE_and {a b : Eff ω} (ha : PureE a) (hb : PureE b) : PureE (and_ a b) :=
  pureE_bind ha fun x => by by_cases h : truthy x = true <;> simp only [h, ↓reduceIte] <;> first | exact hb | exact pureE_ok _
theorem pureE_or {a b : Eff ω} (ha : PureE a) (hb : PureE b) : PureE (or_ a b) :=
  pureE_bind ha fun x => by by_cases h : truthy x = true <;> simp only [h, ↓reduceIte] <;> first | exact hb | exact pureE_ok _
theorem pureE_not {a : Eff ω} (ha : PureE a) : PureE (not_ a) := pureE_bind ha fun _ => pureE_ok _
theorem pureE_evalList : ∀ (l : List (Eff ω)) (k : List Val → Eff ω), (∀ e ∈ l, PureE e) → (∀ xs, PureE (k xs)) →
    PureE (evalList l k)
  | [], k, _, hk => hk []
  | a :: r, k, hl, hk =>
    pureE_bind (hl a (List.mem_cons_self)) fun x =>
      pureE_evalList r _ (fun e he => hl e (List.mem_cons_of_mem _ he)) fun xs => hk (x :: xs)
theorem pureE_mkTuple (l : List (Eff ω)) (hl : ∀ e ∈ l, PureE e) : PureE (mkTuple l) :=
  pureE_evalList l _ hl fun _ => pureE_ok _
theorem pureE_mkList (l : List (Eff ω)) (hl : ∀ e ∈ l, PureE e) : PureE (mkList l) :=
  pureE_evalList l _ hl fun _ => pureE_ok _

theorem flowWorld_of_pureE {e : Eff ω} (he : PureE e) (w : World ω) (k : Res × World ω → Flow ω σ)
    (hok : ∀ v, flowWorld (k (.ok v, w)) = some w) (hexc : ∀ c, flowWorld (k (.exc c, w)) = some w) :
    flowWorld (k (e w)) = some w := by
  rcases he w with ⟨v, h⟩ | ⟨c, h⟩
  · rw [h]; exact hok v
  · rw [h]; exact hexc c

theorem pureS_pass : PureS (pass : Stmt ω σ) := fun _ _ _ => rfl
theorem pureS_assign (set : σ → Val → σ) {e : Expr ω σ} (he : PureX e) : PureS (assign set e) := by
  intro fuel env w
  rcases he fuel env w with ⟨v, h⟩ | ⟨c, h⟩ <;> simp only [assign, h, flowWorld]
theorem pureS_expr {e : Expr ω σ} (he : PureX e) : PureS (expr e) := by
  intro fuel env w
  rcases he fuel env w with ⟨v, h⟩ | ⟨c, h⟩ <;> simp only [expr, h, flowWorld]
theorem pureS_return {e : Expr ω σ} (he : PureX e) : PureS (return_ e) := by
  intro fuel env w
  rcases he fuel env w with ⟨v, h⟩ | ⟨c, h⟩ <;> simp only [return_, h, flowWorld]
theorem pureS_ifte {c : Expr ω σ} {a b : Stmt ω σ} (hc : PureX c) (ha : PureS a) (hb : PureS b) : PureS (ifte c a b) := by
  intro fuel env w
  rcases hc fuel env w with ⟨v, h⟩ | ⟨e, h⟩
  · simp only [ifte, h]
    split
    · exact ha fuel env w
    · exact hb fuel env w
  · simp only [ifte, h, flowWorld]

/-- sequencing: what the first statement leaves is what a pure second statement leaves -/
theorem flowWorld_seq {a b : Stmt ω σ} (hb : PureS b) (fuel : Nat) (env : σ) (w w1 : World ω)
    (ha : flowWorld (a fuel env w) = some w1) : flowWorld (seq a b fuel env w) = some w1 := by
  unfold seq
  cases h : a fuel env w with
  | norm env' w' =>
    rw [h] at ha
    simp only [flowWorld, Option.some.injEq] at ha
    subst ha
    exact hb fuel env' w'
  | ret v w' => rw [h] at ha; exact ha
  | exc c env' w' => rw [h] at ha; exact ha
  | brk env' w' => rw [h] at ha; exact ha
  | cont env' w' => rw [h] at ha; exact ha
  | fuelOut => rw [h] at ha; exact ha

theorem pureS_seq {a b : Stmt ω σ} (ha : PureS a) (hb : PureS b) : PureS (seq a b) :=
  fun fuel env w => flowWorld_seq hb fuel env w w (ha fuel env w)

theorem pureS_block : ∀ (l : List (Stmt ω σ)), (∀ s ∈ l, PureS s) → PureS (block l)
  | [], _ => pureS_pass
  | [a], h => h a (List.mem_cons_self)
  | a :: b :: r, h =>
    pureS_seq (h a (List.mem_cons_self)) (pureS_block (b :: r) fun s hs => h s (List.mem_cons_of_mem _ hs))

theorem pureS_runHandler (h : Handler ω σ) (e : PyIO.ExcClass) (hb : PureS h.body) : PureS (runHandler h e) := by
  intro fuel env w
  unfold runHandler
  cases hbind : h.bind with
  | none => exact hb fuel env w
  | some set =>
    simp only
    have := hb fuel (set env (.exc e)) w
    cases hf : h.body fuel (set env (.exc e)) w <;> rw [hf] at this <;> exact this

theorem pureS_dispatch : ∀ (hs : List (Handler ω σ)) (e : PyIO.ExcClass), (∀ h ∈ hs, PureS h.body) → PureS (dispatch hs e)
  | [], e, _ => fun _ _ _ => rfl
  | h :: r, e, hh => by
    intro fuel env w
    unfold dispatch
    split
    · exact pureS_runHandler h e (hh h (List.mem_cons_self)) fuel env w
    · exact pureS_dispatch r e (fun x hx => hh x (List.mem_cons_of_mem _ hx)) fuel env w

/-- `try: body except …`: if the body leaves `w1`, so does the whole statement when the handlers are pure -/
theorem flowWorld_try {body : Stmt ω σ} {hs : List (Handler ω σ)} (hh : ∀ h ∈ hs, PureS h.body) (fuel : Nat) (env : σ)
    (w w1 : World ω) (hb : flowWorld (body fuel env w) = some w1) : flowWorld (tryExcept body hs fuel env w) = some w1 := by
  unfold tryExcept
  cases h : body fuel env w with
  | exc c env' w' =>
    rw [h] at hb
    simp only [flowWorld, Option.some.injEq] at hb
    subst hb
    exact pureS_dispatch hs c hh fuel env' w'
  | norm env' w' => rw [h] at hb; exact hb
  | ret v w' => rw [h] at hb; exact hb
  | brk env' w' => rw [h] at hb; exact hb
  | cont env' w' => rw [h] at hb; exact hb
  | fuelOut => rw [h] at hb; exact hb

theorem pureS_try {body : Stmt ω σ} {hs : List (Handler ω σ)} (hb : PureS body) (hh : ∀ h ∈ hs, PureS h.body) :
    PureS (tryExcept body hs) :=
  fun fuel env w => flowWorld_try hh fuel env w w (hb fuel env w)

/-- `if c: a else: b` with a pure test: the world is what the chosen branch leaves -/
theorem flowWorld_ifte_true {c : Expr ω σ} {a b : Stmt ω σ} {fuel : Nat} {env : σ} {w : World ω} {v : Val}
    (hc : c fuel env w = (.ok v, w)) (hv : truthy v = true) : ifte c a b fuel env w = a fuel env w := by
  simp only [ifte, hc, hv, ↓reduceIte]

end
end C06Gen
end Plotink
