import Plotink.Proofs.C13Gen
import Plotink.Proofs.C13GenInit
import Plotink.Model.C13
import Plotink.Proofs.C13Near
import Plotink.Proofs.C13Geo
import Plotink.Proofs.C13Build
import Plotink.Proofs.C13Witness

/-! # C13 — grid index: `nearest()` returns a live path end that no neighbouring end beats

`C13.build / nearest / remove` (Model/C13.lean) mirror `spatial_grid.Index.__init__ / nearest /
remove_path`; the correspondence with the real class is checked by execution (harness/c13.py).
`Inv g live` is the state invariant (every end of a live path occurs exactly once, in cell
`lookup[id]`, which is the clamped cell of that end; nothing else is in the cells).

Spec vocabulary (independent of cells/lookup/adjacency): `endPoint verts rev id` (the end that an
identifier names), `LiveEnd verts rev live id p`, `cellOf G p` (clamped column and row), `Near`
(same cell or one of the eight neighbours), `sqDist` (squared distance, as the code compares). -/

namespace Plotink
open C13

/-! ## core: the query, from the invariant -/

/-- `nearest` returns `None` exactly when no path remains. -/
theorem C13_none_iff {g : Grid} {live : List Nat} (h : Inv g live) (q : Pt) :
    nearest g q = none ↔ live = [] := by
  have key : nbIds g q ++ restIds g q = [] ↔ live = [] := by
    constructor
    · intro he
      cases live with
      | nil => rfl
      | cons k t =>
        exfalso
        have hk : k < g.n := h.live_lt k (by simp)
        have : k ∈ nbIds g q ++ restIds g q :=
          (mem_allIds_iff h q k).mpr ⟨Or.inl hk, by simp [pathOf, hk]⟩
        rw [he] at this
        exact absurd this (by simp)
    · intro he
      apply List.eq_nil_iff_forall_not_mem.mpr
      intro id hid
      have := ((mem_allIds_iff h q id).mp hid).2
      rw [he] at this
      exact absurd this (by simp)
  rcases nearest_cases g q with ⟨r, hr, hm, _⟩ | ⟨hn, he⟩ | ⟨r, hr, hm, _⟩
  · have hne : nbIds g q ++ restIds g q ≠ [] := by
      intro he
      have : r ∈ nbIds g q ++ restIds g q := List.mem_append_left _ hm
      rw [he] at this
      exact absurd this (by simp)
    rw [hr]
    constructor
    · intro hc; exact absurd hc (by simp)
    · intro hl; exact absurd (key.mpr hl) hne
  · rw [hn]
    exact ⟨fun _ => key.mp he, fun _ => rfl⟩
  · have hne : nbIds g q ++ restIds g q ≠ [] := by
      intro he
      rw [he] at hm
      exact absurd hm (by simp)
    rw [hr]
    constructor
    · intro hc; exact absurd hc (by simp)
    · intro hl; exact absurd (key.mpr hl) hne

/-- non-vacuity: an index built by `build` and reduced by `remove`, with a path still live -/
example : ∃ (g : Grid) (live : List Nat), Inv g live ∧ live ≠ [] := by
  obtain ⟨g, live, _, h, hne, _⟩ := witness_far
  exact ⟨g, live, h, hne⟩

/-- The result names an end of a path that has not been removed: a start (`r < n`, path `r`), or an
end (`n ≤ r < 2n`, path `r - n`) only when reversal is enabled. -/
theorem C13_live {g : Grid} {live : List Nat} (h : Inv g live) (q : Pt) {r : Nat}
    (hr : nearest g q = some r) :
    (∃ p, LiveEnd g.verts g.rev live r p) ∧
    ((r < g.n ∧ r ∈ live) ∨ (g.rev = true ∧ g.n ≤ r ∧ r < 2 * g.n ∧ r - g.n ∈ live)) := by
  have hm : r ∈ nbIds g q ++ restIds g q := by
    rcases nearest_cases g q with ⟨r', hr', hm, _⟩ | ⟨hn, _⟩ | ⟨r', hr', hm, _⟩
    · rw [hr] at hr'; cases hr'; exact List.mem_append_left _ hm
    · rw [hr] at hn; cases hn
    · rw [hr] at hr'; cases hr'; exact hm
  obtain ⟨hv, hl⟩ := (mem_allIds_iff h q r).mp hm
  refine ⟨⟨endPt g r, (liveEnd_iff h r _).mpr ⟨hv, hl, rfl⟩⟩, ?_⟩
  rcases hv with hv | ⟨hrev, h1, h2⟩
  · left; exact ⟨hv, by simpa [pathOf, hv] using hl⟩
  · right
    have : ¬ r < g.n := by omega
    exact ⟨hrev, h1, h2, by simpa [pathOf, this] using hl⟩

/-- non-vacuity: a query that returns an identifier -/
example : ∃ (g : Grid) (live : List Nat) (q : Pt) (r : Nat), Inv g live ∧ nearest g q = some r := by
  obtain ⟨g, live, q, h, hne, _⟩ := witness_far
  cases hn : nearest g q with
  | none => exact absurd ((C13_none_iff h q).mp hn) hne
  | some r => exact ⟨g, live, q, r, h, hn⟩

/-- The result is at least as close to the query as every remaining end in the query's grid cell
and its eight neighbours (squared distances, as the code compares).  This covers the index-0
fall-through: when the best neighbourhood end has identifier 0 the code goes on to scan the other
cells *with the running best*, so whatever it returns is still no farther than every neighbour. -/
theorem C13_local {g : Grid} {live : List Nat} (h : Inv g live) (q : Pt) {r : Nat} {pr : Pt}
    (hr : nearest g q = some r) (hpr : endPoint g.verts g.rev r = some pr)
    {id : Nat} {p : Pt} (hp : LiveEnd g.verts g.rev live id p)
    (hnear : Near (cellOf g.toGeo q) (cellOf g.toGeo p)) :
    sqDist q pr ≤ sqDist q p := by
  obtain ⟨hv, hl, rfl⟩ := (liveEnd_iff h id p).mp hp
  obtain ⟨_, rfl⟩ := (endPoint_some_iff h.nverts r pr).mp hpr
  have hid : id ∈ nbIds g q := (mem_nbIds_iff h q id).mpr ⟨hv, hl, hnear⟩
  rcases nearest_cases g q with ⟨r', hr', _, hmin⟩ | ⟨hn, _⟩ | ⟨r', hr', _, hmin⟩
  · rw [hr] at hr'; cases hr'; exact hmin id hid
  · rw [hr] at hn; cases hn
  · rw [hr] at hr'; cases hr'; exact hmin id (List.mem_append_left _ hid)

/-- non-vacuity: a query with a live end in its own cell -/
example : ∃ (g : Grid) (live : List Nat) (q : Pt) (r : Nat) (pr : Pt) (id : Nat) (p : Pt), Inv g live ∧
    nearest g q = some r ∧ endPoint g.verts g.rev r = some pr ∧ LiveEnd g.verts g.rev live id p ∧
    Near (cellOf g.toGeo q) (cellOf g.toGeo p) := by
  obtain ⟨g, live, _, h, hne, _⟩ := witness_far
  obtain ⟨q, id, p, hp, hn, _⟩ := witness_near h hne
  cases hq : nearest g q with
  | none => exact absurd ((C13_none_iff h q).mp hq) hne
  | some r =>
    obtain ⟨⟨pr, hpr⟩, _⟩ := C13_live h q hq
    exact ⟨g, live, q, r, pr, id, p, h, hq, hpr.1, hp, hn⟩

/-- When no remaining end lies in the query's cell or its eight neighbours, the result is a
globally closest remaining end. -/
theorem C13_global_when_empty {g : Grid} {live : List Nat} (h : Inv g live) (q : Pt) {r : Nat} {pr : Pt}
    (hr : nearest g q = some r) (hpr : endPoint g.verts g.rev r = some pr)
    (hempty : ∀ id p, LiveEnd g.verts g.rev live id p → ¬ Near (cellOf g.toGeo q) (cellOf g.toGeo p))
    {id : Nat} {p : Pt} (hp : LiveEnd g.verts g.rev live id p) :
    sqDist q pr ≤ sqDist q p := by
  obtain ⟨hv, hl, rfl⟩ := (liveEnd_iff h id p).mp hp
  obtain ⟨_, rfl⟩ := (endPoint_some_iff h.nverts r pr).mp hpr
  have hall : id ∈ nbIds g q ++ restIds g q := (mem_allIds_iff h q id).mpr ⟨hv, hl⟩
  rcases nearest_cases g q with ⟨r', _, hm, _⟩ | ⟨hn, _⟩ | ⟨r', hr', _, hmin⟩
  · exfalso
    obtain ⟨hv', hl', hn'⟩ := (mem_nbIds_iff h q r').mp hm
    exact hempty r' _ ((liveEnd_iff h r' _).mpr ⟨hv', hl', rfl⟩) hn'
  · rw [hr] at hn; cases hn
  · rw [hr] at hr'; cases hr'; exact hmin id hall

/-- non-vacuity: the index of (0,0)→·, (200,0)→· with 3 bins after removing path 1, queried at
(300,0): the remaining end is two columns away from the query's cell, and a result is returned -/
example : ∃ (g : Grid) (live : List Nat) (q : Pt) (r : Nat) (pr : Pt), Inv g live ∧
    nearest g q = some r ∧ endPoint g.verts g.rev r = some pr ∧
    (∀ id p, LiveEnd g.verts g.rev live id p → ¬ Near (cellOf g.toGeo q) (cellOf g.toGeo p)) := by
  obtain ⟨g, live, q, h, hne, hemp⟩ := witness_far
  cases hq : nearest g q with
  | none => exact absurd ((C13_none_iff h q).mp hq) hne
  | some r =>
    obtain ⟨⟨pr, hpr⟩, _⟩ := C13_live h q hq
    exact ⟨g, live, q, r, pr, h, hq, hpr.1, hemp⟩

/-! ## complete: true nearest -/

/-- Exact arithmetic: when some remaining end lies within one cell width (the smaller of the two
bin sizes) of the query, the result is a globally closest remaining end.  (The statement asks this
for in-grid queries; it holds for every query, because clamping never separates two bins.) -/
theorem C13_true_nearest {g : Grid} {live : List Nat} (h : Inv g live) (q : Pt) {r : Nat} {pr : Pt}
    (hr : nearest g q = some r) (hpr : endPoint g.verts g.rev r = some pr)
    (hclose : ∃ id p, LiveEnd g.verts g.rev live id p ∧ sqDist q p ≤ min g.bx g.by_ * min g.bx g.by_)
    {id : Nat} {p : Pt} (hp : LiveEnd g.verts g.rev live id p) :
    sqDist q pr ≤ sqDist q p := by
  obtain ⟨e, pe, hpe, hde⟩ := hclose
  have hne : Near (cellOf g.toGeo q) (cellOf g.toGeo pe) := near_of_close h.bx_pos h.by_pos hde
  have hre : sqDist q pr ≤ sqDist q pe := C13_local h q hr hpr hpe hne
  by_cases hcmp : sqDist q pr ≤ sqDist q p
  · exact hcmp
  · have hlt : sqDist q p < sqDist q pr := not_le.mp hcmp
    have hnp : Near (cellOf g.toGeo q) (cellOf g.toGeo p) :=
      near_of_close h.bx_pos h.by_pos (le_trans (le_of_lt hlt) (le_trans hre hde))
    exact C13_local h q hr hpr hp hnp

/-- non-vacuity: a query with a live end within one cell width -/
example : ∃ (g : Grid) (live : List Nat) (q : Pt) (r : Nat) (pr : Pt), Inv g live ∧
    nearest g q = some r ∧ endPoint g.verts g.rev r = some pr ∧
    ∃ id p, LiveEnd g.verts g.rev live id p ∧ sqDist q p ≤ min g.bx g.by_ * min g.bx g.by_ := by
  obtain ⟨g, live, _, h, hne, _⟩ := witness_far
  obtain ⟨q, id, p, hp, _, hd⟩ := witness_near h hne
  cases hq : nearest g q with
  | none => exact absurd ((C13_none_iff h q).mp hq) hne
  | some r =>
    obtain ⟨⟨pr, hpr⟩, _⟩ := C13_live h q hq
    exact ⟨g, live, q, r, pr, h, hq, hpr.1, id, p, hp, hd⟩


/-! ## complete: the invariant is established by `__init__` and preserved by `remove_path` -/

/-- "Paths with non-zero extent" (two indexed vertices differ; the ends count only when reversal
is enabled) and `bins ≥ 1`: the constructor does not raise. -/
theorem C13_build_total {verts : List Path} {bins : Nat} {rev : Bool} (hb : 0 < bins)
    (hext : ∃ a ∈ points verts rev, ∃ b ∈ points verts rev, a ≠ b) :
    ∃ g, build verts bins rev = some g :=
  build_total hb hext

/-- non-vacuity: one path from (0,0) to (1,1) with reversal enabled has non-zero extent -/
example : (0 : Nat) < 2 ∧ ∃ a ∈ points [((0, 0), (1, 1))] true, ∃ b ∈ points [((0, 0), (1, 1))] true, a ≠ b := by
  refine ⟨by omega, (0, 0), by simp [points], (1, 1), by simp [points], by simp⟩

/-- The domain boundary: with zero extent (all indexed vertices coincide, or there is no path) the
constructor raises (`ZeroDivisionError`), so "non-zero extent" is exactly the domain of the class. -/
theorem C13_build_none_of_zero_extent {verts : List Path} {bins : Nat} {rev : Bool}
    (hz : ∀ a ∈ points verts rev, ∀ b ∈ points verts rev, a = b) : build verts bins rev = none :=
  build_none_of_zero_extent hz

/-- non-vacuity: one path, reversal disabled — only the start is indexed -/
example : ∀ a ∈ points [((0, 0), (1, 1))] false, ∀ b ∈ points [((0, 0), (1, 1))] false, a = b := by
  simp [points]

/-- `__init__` establishes the invariant with every path live. -/
theorem C13_inv_build {verts : List Path} {bins : Nat} {rev : Bool} {g : Grid}
    (h : build verts bins rev = some g) :
    Inv g (List.range verts.length) ∧ g.verts = verts ∧ g.rev = rev ∧ g.n = verts.length ∧ g.bins = bins :=
  inv_build h

/-- non-vacuity: `build` succeeds on that input -/
example : ∃ g, build [((0, 0), (1, 1))] 2 true = some g :=
  C13_build_total (by omega) ⟨(0, 0), by simp [points], (1, 1), by simp [points], by simp⟩

/-- `remove_path(p)` for a path that is still present does not raise, re-establishes the invariant
for the remaining paths (both ends of `p` are gone when reversal is enabled), and changes nothing
but the cells. -/
theorem C13_inv_remove {g : Grid} {live : List Nat} (h : Inv g live) {p : Nat} (hp : p ∈ live) :
    ∃ g', remove g p = some g' ∧ Inv g' (live.filter (· ≠ p)) ∧
      g'.toGeo = g.toGeo ∧ g'.rev = g.rev ∧ g'.n = g.n ∧ g'.verts = g.verts :=
  inv_remove h hp

/-- non-vacuity: a live path in a consistent index -/
example : ∃ (g : Grid) (live : List Nat) (p : Nat), Inv g live ∧ p ∈ live := by
  obtain ⟨g, live, _, h, hne, _⟩ := witness_far
  cases live with
  | nil => exact absurd rfl hne
  | cons k t => exact ⟨g, k :: t, k, h, by simp⟩

/-- Every sequence of removals of distinct paths that are present (induction over the sequence). -/
theorem C13_inv_history {g : Grid} {live : List Nat} (h : Inv g live) (ps : List Nat) (hnd : ps.Nodup)
    (hsub : ∀ p ∈ ps, p ∈ live) :
    ∃ g', removeAll g ps = some g' ∧ Inv g' (live.filter (fun k => k ∉ ps)) ∧
      g'.toGeo = g.toGeo ∧ g'.rev = g.rev ∧ g'.n = g.n ∧ g'.verts = g.verts :=
  inv_removeAll ps h hnd hsub

/-- non-vacuity: removing both paths of a two-path index, in either order -/
example : ∃ (g : Grid) (live : List Nat) (ps : List Nat), Inv g live ∧ ps.Nodup ∧ ps ≠ [] ∧ ∀ p ∈ ps, p ∈ live := by
  obtain ⟨g, hg⟩ := C13_build_total (verts := [((0, 0), (1, 1)), ((1, 0), (0, 1))]) (bins := 2) (rev := false)
    (by omega) ⟨(0, 0), by simp [points], (1, 0), by simp [points], by simp⟩
  exact ⟨g, _, [1, 0], (C13_inv_build hg).1, by simp, by simp, by simp⟩

/-- `find_adjacents`: the list of cell `(x, y)` (index `x + y·bins`) has no duplicates and consists
of exactly the in-grid cells `(x', y')` with `|x - x'| ≤ 1` and `|y - y'| ≤ 1`. -/
theorem C13_adjacents_spec {bins x y : Nat} (hx : x < bins) (hy : y < bins) :
    (adjacents bins).length = bins * bins ∧
    ((adjacents bins).getD (x + y * bins) []).Nodup ∧
    ∀ c, c ∈ (adjacents bins).getD (x + y * bins) [] ↔
      ∃ x' y', x' < bins ∧ y' < bins ∧ c = x' + y' * bins ∧
        x' ≤ x + 1 ∧ x ≤ x' + 1 ∧ y' ≤ y + 1 ∧ y ≤ y' + 1 := by
  rw [adjacents_getD hx hy]
  exact ⟨adjacents_length bins, nodup_adjOf hx hy, mem_adjOf hx hy⟩

/-- non-vacuity: the centre cell of a 3×3 grid -/
example : (1 : Nat) < 3 ∧ (1 : Nat) < 3 := by omega


/-! ## the property, end to end -/

/-- For every set of paths with non-zero extent, every `bins ≥ 1`, both reversal settings and every
sequence `ps` of removals of distinct paths: construction and the removals succeed, and every query
on the resulting index satisfies the five clauses of the property, stated about the original
vertex list (`live` = the paths not in `ps`). -/
theorem C13_history {verts : List Path} {bins : Nat} {rev : Bool} (hb : 0 < bins)
    (hext : ∃ a ∈ points verts rev, ∃ b ∈ points verts rev, a ≠ b)
    (ps : List Nat) (hnd : ps.Nodup) (hlt : ∀ p ∈ ps, p < verts.length) :
    ∃ g0 g, build verts bins rev = some g0 ∧ removeAll g0 ps = some g ∧
      g.toGeo = g0.toGeo ∧ g.bins = bins ∧
      ∀ live, live = (List.range verts.length).filter (fun k => k ∉ ps) → ∀ q : Pt,
        (nearest g q = none ↔ live = []) ∧
        ∀ r, nearest g q = some r →
          ∃ pr, LiveEnd verts rev live r pr ∧
            ∀ id p, LiveEnd verts rev live id p →
              (Near (cellOf g.toGeo q) (cellOf g.toGeo p) → sqDist q pr ≤ sqDist q p) ∧
              ((∀ id' p', LiveEnd verts rev live id' p' → ¬ Near (cellOf g.toGeo q) (cellOf g.toGeo p')) →
                sqDist q pr ≤ sqDist q p) ∧
              ((∃ id' p', LiveEnd verts rev live id' p' ∧ sqDist q p' ≤ min g.bx g.by_ * min g.bx g.by_) →
                sqDist q pr ≤ sqDist q p) := by
  obtain ⟨g0, hg0⟩ := build_total hb hext
  obtain ⟨hinv0, e1, e2, e3, e4⟩ := inv_build hg0
  obtain ⟨g, hg, hinv, f1, f2, f3, f4⟩ :=
    inv_removeAll ps hinv0 hnd (fun p hp => List.mem_range.mpr (hlt p hp))
  refine ⟨g0, g, hg0, hg, f1, by rw [show g.bins = g.toGeo.bins from rfl, f1]; exact e4, ?_⟩
  rintro live rfl q
  have hv : g.verts = verts := f4.trans e1
  have hr : g.rev = rev := f2.trans e2
  refine ⟨C13_none_iff hinv q, ?_⟩
  intro r hrq
  obtain ⟨⟨pr, hpr⟩, _⟩ := C13_live hinv q hrq
  rw [hv, hr] at hpr
  refine ⟨pr, hpr, ?_⟩
  intro id p hp
  have hpr' : endPoint g.verts g.rev r = some pr := by rw [hv, hr]; exact hpr.1
  have hp' : LiveEnd g.verts g.rev ((List.range verts.length).filter (fun k => k ∉ ps)) id p := by
    rw [hv, hr]; exact hp
  refine ⟨fun hn => C13_local hinv q hrq hpr' hp' hn, ?_, ?_⟩
  · intro hempty
    refine C13_global_when_empty hinv q hrq hpr' ?_ hp'
    intro id' p' h'
    rw [hv, hr] at h'
    exact hempty id' p' h'
  · rintro ⟨id', p', h', hd⟩
    refine C13_true_nearest hinv q hrq hpr' ⟨id', p', ?_, hd⟩ hp'
    rw [hv, hr]; exact h'

/-- non-vacuity: two crossing paths, reversal enabled, removal order 1 then 0 -/
example : (0 : Nat) < 4 ∧
    (∃ a ∈ points [((0, 0), (1, 1)), ((1, 0), (0, 1))] true, ∃ b ∈ points [((0, 0), (1, 1)), ((1, 0), (0, 1))] true, a ≠ b) ∧
    [1, 0].Nodup ∧ ∀ p ∈ [1, 0], p < [((0, 0), (1, 1)), ((1, 0), (0, 1))].length := by
  refine ⟨by omega, ⟨(0, 0), by simp [points], (1, 1), by simp [points], by simp⟩, by simp, by simp⟩

/-! ## The same statements about the SOURCE-REGENERATED methods

`Gen.grid_Index_init` / `_find_adjacents` / `_nearest` / `_remove_path` are regenerated from `plotink/spatial_grid.py` on
every run (`lean/Plotink/Gen/grid_Index.lean`).  Exact arithmetic (`Rounding.exact`); an `Index` instance in state `g` is
the field tuple `C13.encGrid g`, a query point `C13.encPt q`, the vertex list `C13.encPaths verts`; `nearest` returns `None`
(`.none_`) or an identifier (`.int r`).  The per-method statements are for every state that satisfies the invariant
`Inv g live` — which the regenerated `__init__` establishes (`C13_gen_build` with `C13_inv_build`) and the regenerated
`remove_path` preserves (`C13_gen_remove`); `C13_gen_history` is the property end to end about the regenerated class alone.
Proofs: `Proofs/C13Gen.lean`, `Proofs/C13GenInit.lean`. -/

/-- **bridge** (`find_adjacents`): on an instance with `bins_per_side = bins` it returns `None` and sets `self.adjacents` to
the model's table (whose content is `C13_adjacents_spec`); no other field changes -/
theorem C13_gen_find_adjacents (amb : Nat) (f1 f3 f4 f5 f6 f7 f8 f9 f10 : Py.Val) (bins : Nat) (A : List (List Nat)) :
    Gen.grid_Index_find_adjacents Rounding.exact amb (instA f1 A f3 f4 f5 f6 f7 f8 f9 f10 bins) =
      .tup [.none_, instA f1 (adjacents bins) f3 f4 f5 f6 f7 f8 f9 f10 bins] :=
  find_adjacents_bridge f1 f3 f4 f5 f6 f7 f8 f9 f10 bins amb A

/-- **bridge** (`__init__`): whenever the model's construction succeeds (`C13_build_total`: `bins ≥ 1` and non-zero extent),
the regenerated constructor returns exactly that state — grid, adjacents, lookup, path_count, vertices, reverse, bin
sizes, xmin, ymin, bins_per_side -/
theorem C13_gen_build (amb : Nat) {verts : List Path} {bins : Nat} {rev : Bool} {g : Grid}
    (h : build verts bins rev = some g) :
    Gen.grid_Index_init Rounding.exact amb (encPaths verts) (.int (bins : Int)) (.bool_ rev) = encGrid g :=
  init_bridge amb verts bins rev g h

/-- the regenerated constructor establishes the invariant -/
theorem C13_gen_inv_build (amb : Nat) {verts : List Path} {bins : Nat} {rev : Bool} (hb : 0 < bins)
    (hext : ∃ a ∈ points verts rev, ∃ b ∈ points verts rev, a ≠ b) :
    ∃ g, Gen.grid_Index_init Rounding.exact amb (encPaths verts) (.int (bins : Int)) (.bool_ rev) = encGrid g ∧
      Inv g (List.range verts.length) ∧ g.verts = verts ∧ g.rev = rev ∧ g.n = verts.length ∧ g.bins = bins := by
  obtain ⟨g, hg⟩ := C13_build_total (rev := rev) hb hext
  exact ⟨g, init_bridge amb verts bins rev g hg, C13_inv_build hg⟩

/-- **bridge** (`nearest`) -/
theorem C13_gen_nearest (amb : Nat) {g : Grid} {live : List Nat} (h : Inv g live) (q : Pt) :
    Gen.grid_Index_nearest Rounding.exact amb (encGrid g) (encPt q) = encOptNat (nearest g q) :=
  nearest_bridge amb g live h q

/-- **bridge** (`remove_path`) for a path that is still present: returns `None` and the updated instance, whose state
again satisfies the invariant -/
theorem C13_gen_remove (amb : Nat) {g : Grid} {live : List Nat} (h : Inv g live) {p : Nat} (hp : p ∈ live) :
    ∃ g', Gen.grid_Index_remove_path Rounding.exact amb (encGrid g) (encNat p) = .tup [.none_, encGrid g'] ∧
      Inv g' (live.filter (· ≠ p)) ∧ g'.toGeo = g.toGeo ∧ g'.rev = g.rev ∧ g'.n = g.n ∧ g'.verts = g.verts := by
  obtain ⟨g', hr, hi, rest⟩ := C13_inv_remove h hp
  exact ⟨g', remove_bridge amb g g' p hr, hi, rest⟩

/-- every sequence of removals of distinct present paths, threaded through the regenerated method -/
theorem C13_gen_inv_history (amb : Nat) {g : Grid} {live : List Nat} (h : Inv g live) (ps : List Nat) (hnd : ps.Nodup)
    (hsub : ∀ p ∈ ps, p ∈ live) :
    ∃ g', genRemoveAll amb (encGrid g) ps = encGrid g' ∧ Inv g' (live.filter (fun k => k ∉ ps)) ∧
      g'.toGeo = g.toGeo ∧ g'.rev = g.rev ∧ g'.n = g.n ∧ g'.verts = g.verts := by
  obtain ⟨g', hr, hi, rest⟩ := C13_inv_history h ps hnd hsub
  exact ⟨g', removeAll_bridge amb ps g g' hr, hi, rest⟩

/-- `C13_none_iff`: the regenerated `nearest` returns `None` exactly when no path remains -/
theorem C13_gen_none_iff (amb : Nat) {g : Grid} {live : List Nat} (h : Inv g live) (q : Pt) :
    Gen.grid_Index_nearest Rounding.exact amb (encGrid g) (encPt q) = .none_ ↔ live = [] := by
  rw [C13_gen_nearest amb h q, encOptNat_eq_none, C13_none_iff h q]

/-- `C13_live`: an identifier it returns names an end of a path that has not been removed -/
theorem C13_gen_live (amb : Nat) {g : Grid} {live : List Nat} (h : Inv g live) (q : Pt) {r : Nat}
    (hr : Gen.grid_Index_nearest Rounding.exact amb (encGrid g) (encPt q) = .int (r : Int)) :
    (∃ p, LiveEnd g.verts g.rev live r p) ∧
    ((r < g.n ∧ r ∈ live) ∨ (g.rev = true ∧ g.n ≤ r ∧ r < 2 * g.n ∧ r - g.n ∈ live)) := by
  rw [C13_gen_nearest amb h q] at hr
  exact C13_live h q (encOptNat_eq_int hr)

/-- `C13_local`: no live end in the query's cell or one of its eight neighbours is strictly closer -/
theorem C13_gen_local (amb : Nat) {g : Grid} {live : List Nat} (h : Inv g live) (q : Pt) {r : Nat} {pr : Pt}
    (hr : Gen.grid_Index_nearest Rounding.exact amb (encGrid g) (encPt q) = .int (r : Int))
    (hpr : endPoint g.verts g.rev r = some pr) {id : Nat} {p : Pt} (hp : LiveEnd g.verts g.rev live id p)
    (hnear : Near (cellOf g.toGeo q) (cellOf g.toGeo p)) : sqDist q pr ≤ sqDist q p := by
  rw [C13_gen_nearest amb h q] at hr
  exact C13_local h q (encOptNat_eq_int hr) hpr hp hnear

/-- `C13_global_when_empty`: when no live end lies in those cells the result is a globally closest live end -/
theorem C13_gen_global_when_empty (amb : Nat) {g : Grid} {live : List Nat} (h : Inv g live) (q : Pt) {r : Nat} {pr : Pt}
    (hr : Gen.grid_Index_nearest Rounding.exact amb (encGrid g) (encPt q) = .int (r : Int))
    (hpr : endPoint g.verts g.rev r = some pr)
    (hempty : ∀ id p, LiveEnd g.verts g.rev live id p → ¬ Near (cellOf g.toGeo q) (cellOf g.toGeo p))
    {id : Nat} {p : Pt} (hp : LiveEnd g.verts g.rev live id p) : sqDist q pr ≤ sqDist q p := by
  rw [C13_gen_nearest amb h q] at hr
  exact C13_global_when_empty h q (encOptNat_eq_int hr) hpr hempty hp

/-- `C13_true_nearest`: when some live end is within one cell width of the query, the result is a globally closest one -/
theorem C13_gen_true_nearest (amb : Nat) {g : Grid} {live : List Nat} (h : Inv g live) (q : Pt) {r : Nat} {pr : Pt}
    (hr : Gen.grid_Index_nearest Rounding.exact amb (encGrid g) (encPt q) = .int (r : Int))
    (hpr : endPoint g.verts g.rev r = some pr)
    (hclose : ∃ id p, LiveEnd g.verts g.rev live id p ∧ sqDist q p ≤ min g.bx g.by_ * min g.bx g.by_)
    {id : Nat} {p : Pt} (hp : LiveEnd g.verts g.rev live id p) : sqDist q pr ≤ sqDist q p := by
  rw [C13_gen_nearest amb h q] at hr
  exact C13_true_nearest h q (encOptNat_eq_int hr) hpr hclose hp

/-- **the property end to end, about the regenerated class alone**: construct with the regenerated `__init__`, remove the
distinct paths `ps` with the regenerated `remove_path`; every answer of the regenerated `nearest` on the resulting
instance satisfies the five clauses of the property, stated about the original vertex list -/
theorem C13_gen_history (amb : Nat) {verts : List Path} {bins : Nat} {rev : Bool} (hb : 0 < bins)
    (hext : ∃ a ∈ points verts rev, ∃ b ∈ points verts rev, a ≠ b)
    (ps : List Nat) (hnd : ps.Nodup) (hlt : ∀ p ∈ ps, p < verts.length) :
    ∃ g, genRemoveAll amb (Gen.grid_Index_init Rounding.exact amb (encPaths verts) (.int (bins : Int)) (.bool_ rev)) ps = encGrid g ∧
      g.bins = bins ∧
      ∀ live, live = (List.range verts.length).filter (fun k => k ∉ ps) → ∀ q : Pt,
        (Gen.grid_Index_nearest Rounding.exact amb (encGrid g) (encPt q) = .none_ ↔ live = []) ∧
        ∀ r : Nat, Gen.grid_Index_nearest Rounding.exact amb (encGrid g) (encPt q) = .int (r : Int) →
          ∃ pr, LiveEnd verts rev live r pr ∧
            ∀ id p, LiveEnd verts rev live id p →
              (Near (cellOf g.toGeo q) (cellOf g.toGeo p) → sqDist q pr ≤ sqDist q p) ∧
              ((∀ id' p', LiveEnd verts rev live id' p' → ¬ Near (cellOf g.toGeo q) (cellOf g.toGeo p')) →
                sqDist q pr ≤ sqDist q p) ∧
              ((∃ id' p', LiveEnd verts rev live id' p' ∧ sqDist q p' ≤ min g.bx g.by_ * min g.bx g.by_) →
                sqDist q pr ≤ sqDist q p) := by
  obtain ⟨g0, g, hg0, hg, _, hbins, hall⟩ := C13_history (rev := rev) hb hext ps hnd hlt
  obtain ⟨hinv0, _⟩ := C13_inv_build hg0
  obtain ⟨g', hg', hinv, _⟩ := C13_inv_history hinv0 ps hnd (fun p hp => List.mem_range.mpr (hlt p hp))
  have hgg : g' = g := Option.some.inj (hg'.symm.trans hg)
  subst hgg
  refine ⟨g', ?_, hbins, ?_⟩
  · rw [init_bridge amb verts bins rev g0 hg0]; exact removeAll_bridge amb ps g0 g' hg
  · intro live hlive q
    obtain ⟨h1, h2⟩ := hall live hlive q
    subst hlive
    rw [C13_gen_nearest amb hinv q]
    exact ⟨by rw [encOptNat_eq_none]; exact h1, fun r hr => h2 r (encOptNat_eq_int hr)⟩

/-- non-vacuity: a consistent index state with a live path exists (so the regenerated `nearest` returns an identifier) -/
example (amb : Nat) : ∃ (g : Grid) (live : List Nat) (q : Pt) (r : Nat), Inv g live ∧
    Gen.grid_Index_nearest Rounding.exact amb (encGrid g) (encPt q) = .int (r : Int) := by
  obtain ⟨g, live, q, h, hne, _⟩ := witness_far
  cases hn : nearest g q with
  | none => exact absurd ((C13_none_iff h q).mp hn) hne
  | some r => exact ⟨g, live, q, r, h, by rw [C13_gen_nearest amb h q, hn]; rfl⟩

end Plotink
