import Plotink.Proofs.C20Xml
import Plotink.Proofs.C20Hms
import Plotink.Proofs.C20Gen
/-! # C20 — text helpers (`plotink/text_utils.py`)

Strings are `List Char`.  `C20.escape` is the model of `xml_escape` (five sequential one-character
replacements in the source order), `C20.formatHms f64 q ms` the model of `format_hms` over the exact
rational value `q` of its argument (`f64` = binary64 rounding of the division by `1000.0`; every theorem
holds for any `f64`).  "Read back by a standard XML parser" is `C20.unescape` (lenient decoding) and
`C20.parse place` (strict: fails on a raw `<`, the raw delimiter quote, or an `&` that is not one of the five
predefined entities) for the three places element content / `"`-attribute / `'`-attribute.  The parser's
white-space normalisation of CR (content) and TAB/LF/CR (attribute values) is *not* in the model: see
finding F9 (`xml-whitespace-normalisation`), reproduced by the harness on every run. -/

namespace Plotink
open C20

/-- the five sequential replacements equal the one-pass character map (`&` first: the `&` of an inserted
entity is never escaped again, and no inserted entity contains a later target) -/
theorem C20_escape_eq_map (s : List Char) : escape s = s.flatMap escChar :=
  escape_eq_escapeMap s

/-- the escaped form contains none of `< > " '`, and every `&` in it begins one of the five entities -/
theorem C20_no_special (s : List Char) :
    (∀ c ∈ escape s, c ≠ '<' ∧ c ≠ '>' ∧ c ≠ '"' ∧ c ≠ '\'') ∧
    (∀ pre post, escape s = pre ++ '&' :: post → ∃ e ∈ entities, e <+: '&' :: post) := by
  rw [escape_eq_escapeMap]
  refine ⟨fun c hc => ?_, escapeMap_amp s⟩
  have h := escapeMap_no_bare s c hc
  unfold Bare at h
  refine ⟨fun e => h (Or.inl e), fun e => h (Or.inr (Or.inl e)), fun e => h (Or.inr (Or.inr (Or.inl e))),
    fun e => h (Or.inr (Or.inr (Or.inr e)))⟩

/-- non-vacuity: an `&` does occur in an escaped text -/
example : ∃ s pre post, escape s = pre ++ '&' :: post :=
  ⟨['&'], [], ['a', 'm', 'p', ';'], by rw [escape_eq_escapeMap]; simp [escapeMap, escChar, eAmp]⟩

/-- decoding the five entities gives back the original text, for every string (pre-escaped text such as
`&amp;`, entity-like fragments and mixed quotes are instances) -/
theorem C20_roundtrip (s : List Char) : unescape (escape s) = s := by
  rw [escape_eq_escapeMap]; exact unescape_escapeMap s

/-- the strict parser accepts the escaped text in element content, in a `"`-attribute and in a
`'`-attribute, and reads the original text -/
theorem C20_roundtrip_strict (p : Place) (s : List Char) : parse p (escape s) = some s := by
  rw [escape_eq_escapeMap]; exact parse_escapeMap p s

/-- instance: already escaped text is escaped again, not passed through -/
theorem C20_preescaped : escape ['&', 'a', 'm', 'p', ';'] = ['&', 'a', 'm', 'p', ';', 'a', 'm', 'p', ';'] := by
  rw [escape_eq_escapeMap]
  simp [escapeMap, escChar, eAmp]

/-- under 10 s (on the unrounded value): the text is the number `n = roundHE (1000 q)` of milliseconds
(within half a millisecond of `q`) printed as `n / 1000`, a point and exactly three digits, then `" Seconds"`;
reading the text back gives `n` -/
theorem C20_short (f64 : Rat → Rat) (q : Rat) (h0 : 0 ≤ q) (h10 : q < 10) :
    ∃ n : Nat, (n : Int) = Py.roundHE (1000 * q) ∧ n ≤ 10000 ∧ |(n : Rat) / 1000 - q| ≤ 1 / 2000 ∧
      formatHms f64 q false =
        natDigits (n / 1000) ++ '.' :: digitChar (n / 100 % 10) :: digitChar (n / 10 % 10) :: digitChar (n % 10) :: sSeconds ∧
      decodeMilli (formatHms f64 q false) = n := by
  have hlo : (0 : Int) ≤ Py.roundHE (1000 * q) := le_roundHE_of_le 0 _ (by push_cast; linarith)
  have hhi : Py.roundHE (1000 * q) ≤ 10000 := roundHE_le_of_le 10000 _ (by push_cast; linarith)
  refine ⟨(Py.roundHE (1000 * q)).toNat, Int.toNat_of_nonneg hlo, by omega, ?_, ?_⟩
  · have he := roundHE_abs_err (1000 * q)
    have hc : (((Py.roundHE (1000 * q)).toNat : Nat) : Rat) = ((Py.roundHE (1000 * q) : Int) : Rat) := by
      exact_mod_cast Int.toNat_of_nonneg hlo
    rw [hc]
    rw [abs_le] at he ⊢
    constructor <;> linarith [he.1, he.2]
  · generalize hn : (Py.roundHE (1000 * q)).toNat = n
    have hr : Py.roundHE (1000 * q) = (n : Int) := by rw [← hn]; exact (Int.toNat_of_nonneg hlo).symm
    have htext : formatHms f64 q false =
        natDigits (n / 1000) ++ '.' :: digitChar (n / 100 % 10) :: digitChar (n / 10 % 10) :: digitChar (n % 10) :: sSeconds := by
      rw [formatHms_seconds, if_pos h10, hr, fixed3_natCast]
      simp
    refine ⟨htext, ?_⟩
    rw [htext, decodeMilli_fixed _ _ _ _ (by omega) (by omega) (by omega)]
    omega

example : ∃ q : Rat, 0 ≤ q ∧ q < 10 := ⟨1, by norm_num, by norm_num⟩

/-- 10 s and longer (on the unrounded value): with `r = roundHE q` — a nearest integer, `|r - q| ≤ 1/2` — the
text is `ss Seconds` when `r < 60`, `m:ss (Minutes, seconds)` when `60 ≤ r < 3600`, else
`h:mm:ss (Hours, minutes, seconds)`; the fields `mm = r / 60 % 60` and `ss = r % 60` are below 60 and printed
with exactly two digits (`two`); and the explicit decoder reads `r` back from the text -/
theorem C20_long (f64 : Rat → Rat) (q : Rat) (hq : 10 ≤ q) :
    ∃ r : Nat, (r : Int) = Py.roundHE q ∧ 10 ≤ r ∧ |(r : Rat) - q| ≤ 1 / 2 ∧
      (∀ z : Int, |(r : Rat) - q| ≤ |(z : Rat) - q|) ∧
      (r < 60 → formatHms f64 q false = two r ++ sSeconds) ∧
      (60 ≤ r → r < 3600 →
        formatHms f64 q false = natDigits (r / 60) ++ ':' :: two (r % 60) ++ sMinSec) ∧
      (3600 ≤ r →
        formatHms f64 q false = natDigits (r / 3600) ++ ':' :: two (r / 60 % 60) ++ ':' :: two (r % 60) ++ sHrMinSec) ∧
      r / 60 % 60 < 60 ∧ r % 60 < 60 ∧
      decode (formatHms f64 q false) = r := by
  have hlo : (10 : Int) ≤ Py.roundHE q := le_roundHE_of_le 10 q (by push_cast; exact hq)
  have hnn : (0 : Int) ≤ Py.roundHE q := by omega
  generalize hn : (Py.roundHE q).toNat = r
  have hr : Py.roundHE q = (r : Int) := by rw [← hn]; exact (Int.toNat_of_nonneg hnn).symm
  have hc : ((r : Nat) : Rat) = ((Py.roundHE q : Int) : Rat) := by rw [hr]; simp
  have hbase : formatHms f64 q false =
      if (r : Int) < 60 then pad2 (r : Int) ++ sSeconds
      else if (r : Int) < 3600 then intDigits ((r : Int) / 60) ++ ':' :: pad2 ((r : Int) % 60) ++ sMinSec
      else intDigits ((r : Int) / 60 / 60) ++ ':' :: pad2 ((r : Int) / 60 % 60) ++ ':' :: pad2 ((r : Int) % 60) ++ sHrMinSec := by
    rw [formatHms_seconds, if_neg (not_lt.mpr hq), hr]
  have e1 : (r : Int) / 60 = ((r / 60 : Nat) : Int) := by omega
  have e2 : (r : Int) % 60 = ((r % 60 : Nat) : Int) := by omega
  have e3 : (r : Int) / 60 / 60 = ((r / 3600 : Nat) : Int) := by omega
  have e4 : (r : Int) / 60 % 60 = ((r / 60 % 60 : Nat) : Int) := by omega
  have f1 : r < 60 → formatHms f64 q false = two r ++ sSeconds := by
    intro h
    rw [hbase, if_pos (by omega), pad2_natCast r (by omega)]
  have f2 : 60 ≤ r → r < 3600 →
      formatHms f64 q false = natDigits (r / 60) ++ ':' :: two (r % 60) ++ sMinSec := by
    intro h h'
    rw [hbase, if_neg (by omega), if_pos (by omega), e1, e2, intDigits_natCast, pad2_natCast _ (by omega)]
  have f3 : 3600 ≤ r →
      formatHms f64 q false = natDigits (r / 3600) ++ ':' :: two (r / 60 % 60) ++ ':' :: two (r % 60) ++ sHrMinSec := by
    intro h
    rw [hbase, if_neg (by omega), if_neg (by omega), e2, e3, e4, intDigits_natCast,
      pad2_natCast _ (by omega), pad2_natCast _ (by omega)]
  refine ⟨r, hr.symm, by omega, ?_, ?_, f1, f2, f3, by omega, by omega, ?_⟩
  · rw [hc]; exact roundHE_abs_err q
  · intro z; rw [hc]; exact roundHE_nearest q z
  · by_cases h : r < 60
    · rw [f1 h, sSeconds_eq, decode_ss r (by omega)]
    · by_cases h' : r < 3600
      · obtain ⟨t, ht⟩ := sMinSec_head
        rw [f2 (by omega) h', ht]
        simp only [List.append_assoc, List.cons_append]
        rw [decode_mss _ _ (by omega)]
        omega
      · obtain ⟨t, ht⟩ := sHrMinSec_head
        rw [f3 (by omega), ht]
        simp only [List.append_assoc, List.cons_append]
        rw [decode_hmmss _ _ _ (by omega) (by omega)]
        omega

example : ∃ q : Rat, 10 ≤ q := ⟨10, le_refl _⟩

/-- two long durations print the same text only if they round to the same number of seconds -/
theorem C20_long_injective (f64 : Rat → Rat) (q q' : Rat) (hq : 10 ≤ q) (hq' : 10 ≤ q')
    (h : formatHms f64 q false = formatHms f64 q' false) : Py.roundHE q = Py.roundHE q' := by
  obtain ⟨r, hr, -, -, -, -, -, -, -, -, hd⟩ := C20_long f64 q hq
  obtain ⟨r', hr', -, -, -, -, -, -, -, -, hd'⟩ := C20_long f64 q' hq'
  rw [h, hd'] at hd
  rw [← hr, ← hr', hd]

example : ∃ q q' : Rat, 10 ≤ q ∧ 10 ≤ q' ∧ formatHms id q false = formatHms id q' false :=
  ⟨10, 10, le_refl _, le_refl _, rfl⟩

/-- carry at 59.5 s: rounds (half to even) to 60 and is printed in the minutes form -/
theorem C20_carry_minute (f64 : Rat → Rat) :
    formatHms f64 (119 / 2) false = "1:00 (Minutes, seconds)".toList := by
  have hr : Py.roundHE (119 / 2) = 60 := by
    have := roundHE_half 59
    norm_num at this
    exact this
  rw [formatHms_seconds, if_neg (by norm_num), hr]
  simp [intDigits, pad2, natDigits, digitChar]
  rfl

/-- carry at 3599.5 s: rounds to 3600 and is printed in the hours form -/
theorem C20_carry_hour (f64 : Rat → Rat) :
    formatHms f64 (7199 / 2) false = "1:00:00 (Hours, minutes, seconds)".toList := by
  have hr : Py.roundHE (7199 / 2) = 3600 := by
    have := roundHE_half 3599
    norm_num at this
    exact this
  rw [formatHms_seconds, if_neg (by norm_num), hr]
  simp [intDigits, pad2, natDigits, digitChar]
  rfl

/-- the precision switch: exactly 10 s is already printed in whole seconds -/
theorem C20_switch_ten (f64 : Rat → Rat) : formatHms f64 10 false = "10 Seconds".toList := by
  have hr : Py.roundHE 10 = 10 := by
    have := roundHE_intCast 10
    norm_num at this
    exact this
  rw [formatHms_seconds, if_neg (by norm_num), hr]
  simp [intDigits, pad2, natDigits, digitChar]
  rfl

/-- a millisecond input gives the same text as the equivalent seconds, i.e. the binary64 quotient
`ms / 1000.0` that the function computes -/
theorem C20_ms (f64 : Rat → Rat) (ms : Rat) :
    formatHms f64 ms true = formatHms f64 (f64 (ms / 1000)) false :=
  formatHms_ms f64 ms

/-! ## The same statements about the SOURCE-REGENERATED code

`Gen.xml_escape` / `Gen.format_hms` are regenerated from `plotink/text_utils.py` by the translator on every run
(`lean/Plotink/Gen/xml_escape.lean`, `format_hms.lean`).  A Python `str` is `Py.Val.str s` with `s : String`; the
models above are over the code-point list `s.toList`.  Numbers are Python `int`s or `float`s (`Py.IsNum v q`: `v` is
`.flt q` or an `.int` equal to `q`).  Proofs: `Proofs/C20Gen.lean`. -/

/-- **bridge** `Gen.xml_escape = C20.escape`, for every string and every rounding mode (there is no arithmetic) -/
theorem C20_gen_bridge_xml (R : Rounding) (amb : Nat) (s : String) :
    Gen.xml_escape R amb (.str s) = .str (String.ofList (escape s.toList)) :=
  xml_escape_bridge R amb s

/-- `C20_no_special` for the regenerated code -/
theorem C20_gen_no_special (R : Rounding) (amb : Nat) (s : String) :
    ∃ t : String, Gen.xml_escape R amb (.str s) = .str t ∧
      (∀ c ∈ t.toList, c ≠ '<' ∧ c ≠ '>' ∧ c ≠ '"' ∧ c ≠ '\'') ∧
      (∀ pre post, t.toList = pre ++ '&' :: post → ∃ e ∈ entities, e <+: '&' :: post) := by
  refine ⟨_, xml_escape_bridge R amb s, ?_⟩
  rw [String.toList_ofList]
  exact C20_no_special s.toList

/-- `C20_roundtrip` / `C20_roundtrip_strict` for the regenerated code: the lenient decoder and the strict parser
(element content, `"`-attribute, `'`-attribute) read the original text back from what `xml_escape` returns -/
theorem C20_gen_roundtrip (R : Rounding) (amb : Nat) (s : String) :
    ∃ t : String, Gen.xml_escape R amb (.str s) = .str t ∧
      unescape t.toList = s.toList ∧ ∀ p : Place, parse p t.toList = some s.toList := by
  refine ⟨_, xml_escape_bridge R amb s, ?_⟩
  rw [String.toList_ofList]
  exact ⟨C20_roundtrip s.toList, fun p => C20_roundtrip_strict p s.toList⟩

/-- **bridge** `Gen.format_hms = C20.formatHms R.f64`, for every rounding mode `R` (the one float operation,
`duration / 1000.0`, is `R.f64` of the exact quotient), over the exact value `q` of the `int`/`float` argument.
Hypothesis: the duration that is formatted is not a negative number that rounds to zero thousandths (CPython then
prints `-0.000`; the model has no negative zero) — true for every `q ≥ 0` in seconds. -/
theorem C20_gen_bridge_hms (R : Rounding) (amb : Nat) (v : Py.Val) (q : Rat) (hv : Py.IsNum v q) (ms : Bool)
    (hs : 0 ≤ (if ms then R.f64 (q / 1000) else q) ∨
      Py.roundHE (1000 * (if ms then R.f64 (q / 1000) else q)) ≠ 0) :
    Gen.format_hms R amb v (.bool_ ms) = .str (String.ofList (formatHms R.f64 q ms)) :=
  format_hms_bridge R amb v q hv ms hs

/-- `C20_short` for the regenerated code (seconds, `0 ≤ q < 10`) -/
theorem C20_gen_short (R : Rounding) (amb : Nat) (v : Py.Val) (q : Rat) (hv : Py.IsNum v q) (h0 : 0 ≤ q) (h10 : q < 10) :
    ∃ n : Nat, (n : Int) = Py.roundHE (1000 * q) ∧ n ≤ 10000 ∧ |(n : Rat) / 1000 - q| ≤ 1 / 2000 ∧
      Gen.format_hms R amb v (.bool_ false) = .str (String.ofList
        (natDigits (n / 1000) ++ '.' :: digitChar (n / 100 % 10) :: digitChar (n / 10 % 10) :: digitChar (n % 10) :: sSeconds)) := by
  obtain ⟨n, hn, hle, herr, htext, _⟩ := C20_short R.f64 q h0 h10
  refine ⟨n, hn, hle, herr, ?_⟩
  rw [C20_gen_bridge_hms R amb v q hv false (Or.inl (by simpa using h0)), htext]

/-- `C20_long` for the regenerated code (seconds, `q ≥ 10`): the three forms, chosen by the rounded value -/
theorem C20_gen_long (R : Rounding) (amb : Nat) (v : Py.Val) (q : Rat) (hv : Py.IsNum v q) (hq : 10 ≤ q) :
    ∃ r : Nat, (r : Int) = Py.roundHE q ∧ 10 ≤ r ∧ |(r : Rat) - q| ≤ 1 / 2 ∧
      (r < 60 → Gen.format_hms R amb v (.bool_ false) = .str (String.ofList (two r ++ sSeconds))) ∧
      (60 ≤ r → r < 3600 → Gen.format_hms R amb v (.bool_ false) =
        .str (String.ofList (natDigits (r / 60) ++ ':' :: two (r % 60) ++ sMinSec))) ∧
      (3600 ≤ r → Gen.format_hms R amb v (.bool_ false) =
        .str (String.ofList (natDigits (r / 3600) ++ ':' :: two (r / 60 % 60) ++ ':' :: two (r % 60) ++ sHrMinSec))) := by
  obtain ⟨r, hr, h10, herr, _, f1, f2, f3, _⟩ := C20_long R.f64 q hq
  have hb := C20_gen_bridge_hms R amb v q hv false (Or.inl (by simp only [Bool.false_eq_true, if_false]; linarith))
  exact ⟨r, hr, h10, herr, fun h => by rw [hb, f1 h], fun h h' => by rw [hb, f2 h h'], fun h => by rw [hb, f3 h]⟩

/-- `C20_ms` for the regenerated code: a millisecond input prints what the quotient `R.f64 (ms/1000)` prints in seconds -/
theorem C20_gen_ms (R : Rounding) (amb : Nat) (v : Py.Val) (q : Rat) (hv : Py.IsNum v q) :
    Gen.format_hms R amb v (.bool_ true) = Gen.format_hms R amb (.flt (R.f64 (q / 1000))) (.bool_ false) :=
  format_hms_ms R amb v q hv

/-- non-vacuity: an `int` and a `float` argument meet the hypotheses; the regenerated code prints 59.5 s as `1:00 …` -/
example : Py.IsNum (.int 75) 75 ∧ Py.IsNum (.flt (119 / 2)) (119 / 2) ∧ (10 : Rat) ≤ 119 / 2 :=
  ⟨Or.inr ⟨75, rfl, by norm_num⟩, Or.inl rfl, by norm_num⟩
example (R : Rounding) : Gen.format_hms R 53 (.flt (119 / 2)) (.bool_ false)
    = .str (String.ofList "1:00 (Minutes, seconds)".toList) := by
  rw [C20_gen_bridge_hms R 53 _ (119 / 2) (Or.inl rfl) false (Or.inl (by norm_num)), C20_carry_minute]

end Plotink
