import Plotink.Proofs.C11Gen
import Plotink.Proofs.C11Core
import Plotink.Proofs.C11Parse

/-! # C11 — viewBox scaling follows the SVG preserveAspectRatio rules

About `C11.vbScale`, the hand-written model of `plot_utils.vb_scale` (tied to the source by the
correspondence run of `harness/c11.py`).  A point maps as `x ↦ (x + o_x) * s_x`, `y ↦ (y + o_y) * s_y`;
`parseVB vb = .ok x y w h` says the viewBox attribute holds (at least) four numerals with these values,
`parTokens par = (a, m)` that the code reads the align word `a` and the meetOrSlice word `m` from the
preserveAspectRatio attribute (`C11_parse` says when). -/

namespace Plotink
open C11 PyFloat

/-- `none`: each axis is stretched to fill; the viewBox rectangle lands exactly on the page rectangle -/
theorem C11_none (vb par : Option (List Char)) (mos : List Char) (x y w h W H : Rat)
    (hvb : parseVB vb = .ok x y w h) (hpar : parTokens par = (sNone, mos))
    (hw : 0 < w) (hh : 0 < h) (hW : 0 < W) (hH : 0 < H) :
    ∃ t, vbScale vb par W H = .xf t ∧ t.sx = W / w ∧ t.sy = H / h ∧
      (x + t.ox) * t.sx = 0 ∧ (x + w + t.ox) * t.sx = W ∧
      (y + t.oy) * t.sy = 0 ∧ (y + h + t.oy) * t.sy = H := by
  refine ⟨⟨W / w, H / h, -x, -y⟩, ?_, rfl, rfl, ?_, ?_, ?_, ?_⟩
  · unfold vbScale
    rw [hvb]
    simp only [not_le.mpr hw, not_le.mpr hh, not_le.mpr hW, not_le.mpr hH, or_self, if_false, hpar, core_none]
  all_goals simp only
  all_goals (have := hw.ne'; have := hh.ne'; field_simp)
  all_goals ring

example : ∃ t, vbScale (some ['0',' ','-','2','.','5',',','1','e','1',' ','4']) (some ['N','o','n','e']) 20 2 = .xf t ∧
    t.sx = 20 / 10 ∧ t.sy = 2 / 4 := by
  obtain ⟨t, h, a, b, _⟩ := C11_none (some ['0',' ','-','2','.','5',',','1','e','1',' ','4']) (some ['N','o','n','e'])
    sMeet 0 (-5/2) 10 4 20 2 (by decide +kernel) (by decide) (by norm_num) (by norm_num) (by norm_num) (by norm_num)
  exact ⟨t, h, a, b⟩

/-- the value `vb_scale` returns for a valid viewBox, positive sizes and one of the nine alignments -/
theorem C11_valid (vb par : Option (List Char)) (a m : List Char) (x y w h W H : Rat)
    (hvb : parseVB vb = .ok x y w h) (hpar : parTokens par = (a, m))
    (hw : 0 < w) (hh : 0 < h) (hW : 0 < W) (hH : 0 < H) :
    vbScale vb par W H = .xf (vbCore a m x y w h W H) := by
  unfold vbScale
  rw [hvb]
  simp only [not_le.mpr hw, not_le.mpr hh, not_le.mpr hW, not_le.mpr hH, or_self, if_false, hpar]

/-- any of the nine alignments: the scale is uniform, equal to the smaller axis ratio for `meet` and to
the larger one for `slice` (at equal aspect ratios both coincide) -/
theorem C11_uniform (vb par : Option (List Char)) (ax ay : Pos) (m : MOS) (x y w h W H : Rat)
    (hvb : parseVB vb = .ok x y w h) (hpar : parTokens par = (alignName ax ay, mosName m))
    (hw : 0 < w) (hh : 0 < h) (hW : 0 < W) (hH : 0 < H) :
    ∃ t, vbScale vb par W H = .xf t ∧ t.sx = t.sy ∧
      t.sx = fitScale m (W / w) (H / h) := by
  obtain ⟨a, b, _⟩ := core_uniform ax ay m x y w h W H hw hh hW hH
  exact ⟨_, C11_valid vb par _ _ x y w h W H hvb hpar hw hh hW hH, a, b⟩

/-- … and on each axis the named position of the viewBox (min edge, centre, max edge) is mapped onto
the same-named position of the page -/
theorem C11_align (vb par : Option (List Char)) (ax ay : Pos) (m : MOS) (x y w h W H : Rat)
    (hvb : parseVB vb = .ok x y w h) (hpar : parTokens par = (alignName ax ay, mosName m))
    (hw : 0 < w) (hh : 0 < h) (hW : 0 < W) (hH : 0 < H) :
    ∃ t, vbScale vb par W H = .xf t ∧
      (vbPt ax x w + t.ox) * t.sx = pagePt ax W ∧ (vbPt ay y h + t.oy) * t.sy = pagePt ay H := by
  obtain ⟨_, _, c⟩ := core_uniform ax ay m x y w h W H hw hh hW hH
  exact ⟨_, C11_valid vb par _ _ x y w h W H hvb hpar hw hh hW hH, c.1, c.2⟩

example : ∃ t, vbScale (some ['0',' ','-','2','.','5',',','1','e','1',' ','4'])
    (some [' ','d','E','f','e','r',',',' ','x','M','i','n','Y','M','a','x',' ',',','S','L','I','C','E']) 20 2 = .xf t ∧
    t.sx = max (20 / 10 : Rat) (2 / 4) ∧ (-5/2 + 4 + t.oy) * t.sy = 2 := by
  have hvb : parseVB (some ['0',' ','-','2','.','5',',','1','e','1',' ','4']) = .ok 0 (-5/2) 10 4 := by decide +kernel
  have hpar : parTokens (some [' ','d','E','f','e','r',',',' ','x','M','i','n','Y','M','a','x',' ',',','S','L','I','C','E'])
      = (alignName .min .max, mosName .slice) := by decide
  obtain ⟨t, h, _, b⟩ := C11_uniform _ _ .min .max .slice 0 (-5/2) 10 4 20 2 hvb hpar
    (by norm_num) (by norm_num) (by norm_num) (by norm_num)
  obtain ⟨t', h', _, c⟩ := C11_align _ _ .min .max .slice 0 (-5/2) 10 4 20 2 hvb hpar
    (by norm_num) (by norm_num) (by norm_num) (by norm_num)
  rw [h] at h'
  cases h'
  exact ⟨t, h, b, c⟩

/-- missing viewBox, fewer than four tokens, a token among the first four that `float()` rejects,
non-positive viewBox width/height or non-positive document width/height: the identity transform -/
theorem C11_identity (vb par : Option (List Char)) (W H : Rat) :
    (vb = none → vbScale vb par W H = .xf identity) ∧
    (∀ v, vb = some v → (pySplit (commaToBlank (pyStrip v))).length < 4 → vbScale vb par W H = .xf identity) ∧
    (∀ v t0 t1 t2 t3 rest, vb = some v → pySplit (commaToBlank (pyStrip v)) = t0 :: t1 :: t2 :: t3 :: rest →
      (parseFloat t0 = none ∨ parseFloat t1 = none ∨ parseFloat t2 = none ∨ parseFloat t3 = none) →
      vbScale vb par W H = .xf identity) ∧
    (∀ x y w h, parseVB vb = .ok x y w h → (w ≤ 0 ∨ h ≤ 0 ∨ W ≤ 0 ∨ H ≤ 0) → vbScale vb par W H = .xf identity) := by
  refine ⟨?_, ?_, ?_, ?_⟩
  · rintro rfl; rfl
  · rintro v rfl hlen
    have : parseVB (some v) = .short := by
      unfold parseVB
      simp only
      split
      · rename_i heq; rw [heq] at hlen; simp at hlen; omega
      · rfl
    unfold vbScale; rw [this]
  · rintro v t0 t1 t2 t3 rest rfl hs hbad
    have : parseVB (some v) = .bad := by
      unfold parseVB
      simp only [hs]
      rcases hbad with h | h | h | h <;> rw [h] <;> (split <;> simp_all)
    unfold vbScale; rw [this]
  · intro x y w h hvb hle
    unfold vbScale; rw [hvb]
    simp only
    by_cases h1 : w ≤ 0 ∨ h ≤ 0
    · rw [if_pos h1]
    · rw [if_neg h1]
      have h2 : W ≤ 0 ∨ H ≤ 0 := by tauto
      rw [if_pos h2]

/-- the ten keywords of the `align` parameter -/
inductive AlignKw where
  | none
  | xy (ax ay : Pos)

def AlignKw.name : AlignKw → List Char
  | .none => sNone
  | .xy ax ay => alignName ax ay

/-- Reading the preserveAspectRatio attribute.  For each of the ten align keywords `a`, written in any
casing (`lower A = a.name`), optionally preceded by `defer` (any casing) and optionally followed by
`meet`/`slice` (any casing; absent means `meet`), with arbitrary non-empty runs of blanks and commas
between the words and arbitrary ones around them, the code obtains exactly that pair. -/
theorem C11_parse (a : AlignKw) (k : MOS) (pre post A : List Char) (defer mos : Option (List Char × List Char))
    (hpre : ∀ c ∈ pre, isSep c = true) (hpost : ∀ c ∈ post, isSep c = true)
    (hA : lower A = a.name)
    (hdefer : ∀ D s0, defer = some (D, s0) → lower D = sDefer ∧ s0 ≠ [] ∧ ∀ c ∈ s0, isSep c = true)
    (hmos : ∀ s1 M, mos = some (s1, M) → s1 ≠ [] ∧ (∀ c ∈ s1, isSep c = true) ∧ lower M = mosName k)
    (habs : mos = none → k = .meet) :
    parTokens (some (parText pre defer A mos post)) = (a.name, mosName k) := by
  -- words whose lower-casing consists of lower-case letters contain no separators
  have letters : ∀ (t n : List Char), lower t = n → (n.all (fun d => 97 ≤ d.toNat && d.toNat ≤ 122) = true) →
      ∀ c ∈ t, isSep c = false := by
    intro t n ht hn c hc
    have hmem : lowerAscii c ∈ n := by rw [← ht]; exact List.mem_map_of_mem hc
    have hl := List.all_eq_true.mp hn _ hmem
    simp only [Bool.and_eq_true, decide_eq_true_eq] at hl
    cases hsep : isSep c with
    | false => rfl
    | true =>
      exfalso
      simp only [isSep, Bool.or_eq_true, beq_iff_eq] at hsep
      rcases hsep with h | h
      · rw [lowerAscii_space c h] at hl
        have := isPySpace_le c h
        omega
      · subst h
        have e : lowerAscii ',' = ',' := by decide
        rw [e, comma_toNat] at hl
        omega
  have nonempty : ∀ (t n : List Char), lower t = n → n ≠ [] → t ≠ [] := by
    intro t n ht hn e; subst e; exact hn (by simpa [lower] using ht.symm)
  have hname : a.name.all (fun d => 97 ≤ d.toNat && d.toNat ≤ 122) = true ∧ a.name ≠ [] ∧ a.name ≠ sDefer := by
    cases a with
    | none => decide
    | xy ax ay => cases ax <;> cases ay <;> decide
  have hmosname : (mosName k).all (fun d => 97 ≤ d.toNat && d.toNat ≤ 122) = true ∧ mosName k ≠ [] := by
    cases k <;> decide
  have hgen := parTokens_general pre post A defer mos hpre hpost
    ⟨nonempty A _ hA hname.2.1, letters A _ hA hname.1, by rw [hA]; exact hname.2.2⟩
    (fun D s0 e => by
      obtain ⟨h1, h2, h3⟩ := hdefer D s0 e
      exact ⟨letters D _ h1 (by decide), h1, h2, h3⟩)
    (fun s1 M e => by
      obtain ⟨h1, h2, h3⟩ := hmos s1 M e
      exact ⟨h1, h2, nonempty M _ h3 hmosname.2, letters M _ h3 hmosname.1⟩)
  rw [hgen, hA]
  rcases mos with _ | ⟨s1, M⟩
  · rw [habs rfl]; rfl
  · simp only [mosTok]
    rw [(hmos s1 M rfl).2.2]

example : parTokens (some (parText [' '] (some (['d','E','f','e','r'], [',',' '])) ['x','M','i','n','Y','M','a','x']
    (some ([' ',','], ['S','L','I','C','E'])) ['\n'])) = (alignName .min .max, sSlice) :=
  C11_parse (.xy .min .max) .slice _ _ _ _ _ (by decide) (by decide) (by decide)
    (fun D s0 e => by cases e; decide) (fun s1 M e => by cases e; decide) (fun e => by cases e)

/-- absent attribute, or one holding only blanks/commas (in particular the empty string): `xMidYMid meet` -/
theorem C11_parse_default :
    parTokens none = (alignName .mid .mid, mosName .meet) ∧
    ∀ s, (∀ c ∈ s, isSep c = true) → parTokens (some s) = (alignName .mid .mid, mosName .meet) :=
  ⟨rfl, fun s hs => parTokens_blank s hs⟩

/-! ## The same statements about the SOURCE-REGENERATED code

`Gen.vb_scale` is regenerated from `plotink/plot_utils.py` by the translator on every run
(`lean/Plotink/Gen/vb_scale.lean`).  The attribute texts are `Option String` (`C11.encOS`: `None` or a `str`), the
document size is a Python `int` or `float` (`Py.IsNum`), arithmetic is exact (`Rounding.exact`).  `C11.EncXf r t`: the
value `r` is a 4-tuple of `int`s/`float`s holding the transform `t`; `C11.xfVal t`: the tuple of four `float`s.
Hypothesis `parseVB … ≠ nonfinite`: none of the four viewBox numbers is an `inf`/`nan` numeral.
Proofs: `Proofs/C11Gen.lean`. -/

/-- **bridge** `Gen.vb_scale = C11.vbScale` -/
theorem C11_gen_bridge (amb : Nat) (vb par : Option String) (Wv Hv : Py.Val) (W H : Rat)
    (hW : Py.IsNum Wv W) (hH : Py.IsNum Hv H) (hfin : parseVB (vb.map String.toList) ≠ .nonfinite) :
    ∃ t, vbScale (vb.map String.toList) (par.map String.toList) W H = .xf t ∧
      EncXf (Gen.vb_scale Rounding.exact amb (encOS vb) (encOS par) Wv Hv) t :=
  vb_scale_bridge amb vb par Wv Hv W H hW hH hfin

/-- `C11_valid` for the regenerated code: the four floats of `vbCore` -/
theorem C11_gen_valid (amb : Nat) (s : String) (par : Option String) (a m : List Char) (Wv Hv : Py.Val)
    (x y w h W H : Rat) (hW : Py.IsNum Wv W) (hH : Py.IsNum Hv H)
    (hvb : parseVB (some s.toList) = .ok x y w h) (hpar : parTokens (par.map String.toList) = (a, m))
    (hw : 0 < w) (hh : 0 < h) (hW0 : 0 < W) (hH0 : 0 < H) :
    Gen.vb_scale Rounding.exact amb (.str s) (encOS par) Wv Hv = xfVal (vbCore a m x y w h W H) := by
  rw [vb_scale_valid amb s par Wv Hv x y w h W H hW hH hvb hw hh hW0 hH0, hpar]

/-- `C11_none` for the regenerated code: `none` stretches the viewBox onto the page -/
theorem C11_gen_none (amb : Nat) (s : String) (par : Option String) (mos : List Char) (Wv Hv : Py.Val)
    (x y w h W H : Rat) (hW : Py.IsNum Wv W) (hH : Py.IsNum Hv H)
    (hvb : parseVB (some s.toList) = .ok x y w h) (hpar : parTokens (par.map String.toList) = (sNone, mos))
    (hw : 0 < w) (hh : 0 < h) (hW0 : 0 < W) (hH0 : 0 < H) :
    ∃ t, Gen.vb_scale Rounding.exact amb (.str s) (encOS par) Wv Hv = xfVal t ∧ t.sx = W / w ∧ t.sy = H / h ∧
      (x + t.ox) * t.sx = 0 ∧ (x + w + t.ox) * t.sx = W ∧ (y + t.oy) * t.sy = 0 ∧ (y + h + t.oy) * t.sy = H := by
  obtain ⟨t, ht, rest⟩ := C11_none (some s.toList) (par.map String.toList) mos x y w h W H hvb hpar hw hh hW0 hH0
  rw [C11_valid (some s.toList) (par.map String.toList) sNone mos x y w h W H hvb hpar hw hh hW0 hH0] at ht
  cases ht
  exact ⟨_, C11_gen_valid amb s par sNone mos Wv Hv x y w h W H hW hH hvb hpar hw hh hW0 hH0, rest⟩

/-- `C11_uniform` and `C11_align` for the regenerated code: one of the nine alignments — uniform scale, the smaller
axis ratio for `meet` and the larger for `slice`, and the named viewBox position lands on the named page position -/
theorem C11_gen_uniform_align (amb : Nat) (s : String) (par : Option String) (ax ay : Pos) (m : MOS) (Wv Hv : Py.Val)
    (x y w h W H : Rat) (hW : Py.IsNum Wv W) (hH : Py.IsNum Hv H)
    (hvb : parseVB (some s.toList) = .ok x y w h)
    (hpar : parTokens (par.map String.toList) = (alignName ax ay, mosName m))
    (hw : 0 < w) (hh : 0 < h) (hW0 : 0 < W) (hH0 : 0 < H) :
    ∃ t, Gen.vb_scale Rounding.exact amb (.str s) (encOS par) Wv Hv = xfVal t ∧ t.sx = t.sy ∧
      t.sx = fitScale m (W / w) (H / h) ∧
      (vbPt ax x w + t.ox) * t.sx = pagePt ax W ∧ (vbPt ay y h + t.oy) * t.sy = pagePt ay H := by
  obtain ⟨a, b, c⟩ := core_uniform ax ay m x y w h W H hw hh hW0 hH0
  exact ⟨_, C11_gen_valid amb s par _ _ Wv Hv x y w h W H hW hH hvb hpar hw hh hW0 hH0, a, b, c.1, c.2⟩

/-- `C11_identity` for the regenerated code.  Missing attribute, fewer than four tokens, a rejected token: `(1, 1, 0, 0)`
for every rounding mode; non-positive sizes: the identity transform in exact arithmetic -/
theorem C11_gen_identity (R : Rounding) (amb : Nat) (parv Wv Hv : Py.Val) :
    Gen.vb_scale R amb .none_ parv Wv Hv = identityVal ∧
    (∀ s : String, (pySplit (commaToBlank (pyStrip s.toList))).length < 4 →
      Gen.vb_scale R amb (.str s) parv Wv Hv = identityVal) ∧
    (∀ (s : String) t0 t1 t2 t3 rest, pySplit (commaToBlank (pyStrip s.toList)) = t0 :: t1 :: t2 :: t3 :: rest →
      (parseFloat t0 = none ∨ parseFloat t1 = none ∨ parseFloat t2 = none ∨ parseFloat t3 = none) →
      Gen.vb_scale R amb (.str s) parv Wv Hv = identityVal) ∧
    (∀ (s : String) (par : Option String) (W H x y w h : Rat), Py.IsNum Wv W → Py.IsNum Hv H →
      parseVB (some s.toList) = .ok x y w h → (w ≤ 0 ∨ h ≤ 0 ∨ W ≤ 0 ∨ H ≤ 0) →
      EncXf (Gen.vb_scale Rounding.exact amb (.str s) (encOS par) Wv Hv) identity) := by
  refine ⟨vb_none R amb parv Wv Hv, fun s h => vb_short R amb s parv Wv Hv h, ?_, ?_⟩
  · intro s t0 t1 t2 t3 rest hs hbad
    refine vb_err R amb s parv Wv Hv t0 t1 t2 t3 rest hs ?_
    rcases hbad with h | h | h | h
    · exact Or.inl (by rw [h]; rfl)
    · exact Or.inr (Or.inl (by rw [h]; rfl))
    · exact Or.inr (Or.inr (Or.inl (by rw [h]; rfl)))
    · exact Or.inr (Or.inr (Or.inr (by rw [h]; rfl)))
  · intro s par W H x y w h hW hH hvb hle
    obtain ⟨t, ht, henc⟩ := vb_scale_bridge amb (some s) par Wv Hv W H hW hH
      (by simp only [Option.map_some]; rw [hvb]; exact fun e => by cases e)
    have hid := (C11_identity (some s.toList) (par.map String.toList) W H).2.2.2 x y w h hvb hle
    simp only [Option.map_some] at ht
    rw [hid] at ht
    cases ht
    exact henc

/-- non-vacuity: a concrete viewBox / preserveAspectRatio pair meets the hypotheses of `C11_gen_uniform_align` -/
example : parseVB (some ("0 -2.5,1e1 4" : String).toList) = .ok 0 (-5/2) 10 4 ∧
    parTokens ((some " dEfer, xMinYMax ,SLICE" : Option String).map String.toList) = (alignName .min .max, mosName .slice) ∧
    Py.IsNum (.int 20) 20 ∧ Py.IsNum (.flt 2) 2 :=
  ⟨by decide +kernel, by decide +kernel, Or.inr ⟨20, rfl, by norm_num⟩, Or.inl rfl⟩

end Plotink
