import Plotink.Proofs.X02Gen

/-! # X02 — supplementary: opening a port in the legacy layer (`ebb_serial.testPort`, `openPort`, `open_named_port`)

Not one of the twenty listed properties and not registered in MANIFEST.json.  The three functions are regenerated from
plotink/ebb_serial.py on every run by the I/O translator; every theorem here is about the regenerated code, for every
read/write script of the device (`w.port`), every outcome of `serial.Serial(...)` (`w.ext.openOk`) and every enumerated
port list (`w.ext.comports`).  `X02.testPortSpec` is the statement-level specification: two `v` probes, the port is
handed out only after a reply that begins `EBB`, a `serial.SerialException` (or subclass) anywhere yields `None`. -/

namespace Plotink
open PyObj Gen LegacyGen X02

/-- **`testPort` = its specification** for every port name, script and open outcome -/
theorem X02_testPort_spec (fuel : Nat) (n : List Char) (w : World NoObj) :
    ebb_serial_testPort fuel (.str n) w = testPortSpec (.str n) w :=
  testPort_eq fuel n w

/-- `testPort(None)` does nothing -/
theorem X02_testPort_none (fuel : Nat) (w : World NoObj) : ebb_serial_testPort fuel .none w = .val .none w := rfl

/-- **the port object is handed out only to a board that identified itself**: if `testPort` returns the port then the
port opened and the reply to the first probe — or, after a first reply that did not, to the second probe — begins
with `EBB` -/
theorem X02_testPort_only_EBB (fuel : Nat) (n : List Char) (w w' : World NoObj)
    (h : ebb_serial_testPort fuel (.str n) w = .val .port w') :
    w.ext.openOk = true ∧
    ((∃ v1, probe w = (.ok v1, w') ∧ isEBB v1 = true) ∨
     (∃ v1 w1 v2, probe w = (.ok v1, w1) ∧ isEBB v1 = false ∧ probe w1 = (.ok v2, w') ∧ isEBB v2 = true)) := by
  rw [testPort_eq] at h
  exact spec_port _ w w' h

/-- **three outcomes only**: the port, `None`, or an exception that is *not* a `serial.SerialException` (those are
swallowed and give `None`); the function never runs out of fuel -/
theorem X02_testPort_outcomes (fuel : Nat) (n : List Char) (w : World NoObj) :
    (∃ w', ebb_serial_testPort fuel (.str n) w = .val .port w') ∨
    (∃ w', ebb_serial_testPort fuel (.str n) w = .val .none w') ∨
    (∃ c w', ebb_serial_testPort fuel (.str n) w = .exc c w' ∧ PyIO.catches [.serialException] c = false) := by
  rw [testPort_eq]
  exact spec_forms _ w

/-- **nothing but version probes is written**: at most two `v\r`, whatever the device does -/
theorem X02_testPort_writes (fuel : Nat) (n : List Char) (w : World NoObj) :
    ∃ w' k, X02.outWorld (ebb_serial_testPort fuel (.str n) w) = some w' ∧ k ≤ 2 ∧
      w'.port.log = w.port.log ++ List.replicate k vProbe := by
  rw [testPort_eq]
  exact spec_log _ w

/-- a port that cannot be opened is reported as `None` with nothing written -/
theorem X02_testPort_closed (fuel : Nat) (n : List Char) (w : World NoObj) (h : w.ext.openOk = false) :
    ebb_serial_testPort fuel (.str n) w = .val .none w := by
  rw [testPort_eq]
  simp [testPortSpec, h]

/-- **`openPort()` is `testPort` of the first discovered board** (`C19.Legacy.findFirst`, the model `C19_gen_first` is
about): no board enumerated → `None` without touching any port -/
theorem X02_openPort (fuel : Nat) (ports : List C19.Port) (w : World NoObj)
    (hc : w.ext.comports = .ok (.list (ports.map encPort))) :
    ebb_serial_openPort fuel w = testPortSpec (encOptStr (C19.Legacy.findFirst ports)) w ∧
    (C19.Legacy.findFirst ports = none → ebb_serial_openPort fuel w = .val .none w) := by
  refine ⟨openPort_eq fuel ports w hc, fun h => ?_⟩
  rw [openPort_eq fuel ports w hc, h]
  rfl

/-- **`open_named_port(name)` is `testPort` of the legacy lookup** (`C19.Legacy.findNamed`) -/
theorem X02_open_named_port (fuel : Nat) (key : Option C19.Str) (ports : List C19.Port) (w : World NoObj)
    (hc : w.ext.comports = .ok (.list (ports.map encPort))) :
    ebb_serial_open_named_port fuel (encOptStr key) w = testPortSpec (encOptStr (C19.Legacy.findNamed key ports)) w ∧
    (C19.Legacy.findNamed key ports = none → ebb_serial_open_named_port fuel (encOptStr key) w = .val .none w) := by
  refine ⟨open_named_port_eq fuel key ports w hc, fun h => ?_⟩
  rw [open_named_port_eq fuel key ports w hc, h]
  rfl

/-- non-vacuity: a board answering the first probe with its version line gets its port; a foreign device does not -/
example :
    ebb_serial_testPort 5 (.str ['p']) ⟨⟨⟩, ⟨[.line "EBBv13_and_above EB Firmware Version 2.8.1\r\n".toList], [], [], 0⟩, {}⟩
      = .val .port ⟨⟨⟩, ⟨[], [], [vProbe], 1⟩, {}⟩ := by
  rw [testPort_eq]; rfl
example :
    ebb_serial_testPort 5 (.str ['p']) ⟨⟨⟩, ⟨[.line "Marlin 1.0\r\n".toList, .empty], [], [], 0⟩, {}⟩
      = .val .none ⟨⟨⟩, ⟨[], [], [vProbe, vProbe], 2⟩, {}⟩ := by
  rw [testPort_eq]; rfl

end Plotink
