import Plotink.Proofs.C14Gen
import Plotink.Proofs.C14
import Mathlib.Tactic.NormNum

/-! # C14 — R-tree intersection query equals brute force

Model: `Plotink/Model/C14.lean` (`build`, `query` mirror `rtree.Index.__init__` / `intersection`).
The theorems hold for **every** centre function (the code's binary64 running mean is one instance) and
for every strictness assignment `s` of the eight quadrant comparisons that passes the decidable
coverage test `coversB s` (all-non-strict does; the all-strict partition of the unrepaired code does
not).  The harness reads `s` off the current source on every run.  -/

namespace Plotink
open C14

/-- **Main theorem.**  For every centre function, every covering strictness assignment, every list of
id-tagged boxes with `min ≤ max` on both axes and every query box: an id is reported exactly when one
of its boxes passes the closed-interval test against the query (touching counts). -/
theorem C14_query (s : Strict) (hs : coversB s = true) (center : List IBox → Rat × Rat)
    (bs : List IBox) (hv : ∀ b ∈ bs, b.2.Valid) (q : Box) (i : Nat) :
    i ∈ query q (build s center bs) ↔ ∃ b, (i, b) ∈ bs ∧ overlaps q b = true :=
  ⟨query_sound s center q bs i, fun ⟨b, hb, ho⟩ => query_complete s hs center q bs hv i b hb ho⟩

example : coversB Strict.none = true := by decide
example : ∀ b ∈ [((7 : Nat), (⟨0, 0, 1, 0⟩ : Box))], b.2.Valid := by
  intro b hb; simp at hb; subst hb; constructor <;> norm_num

/-- the same, against the executable brute-force specification and in geometric terms: the reported ids
are exactly those of `bruteForce`, and for a query box with `min ≤ max` exactly those having a box that
shares at least one point with the query rectangle -/
theorem C14_brute_force (s : Strict) (hs : coversB s = true) (center : List IBox → Rat × Rat)
    (bs : List IBox) (hv : ∀ b ∈ bs, b.2.Valid) (q : Box) (i : Nat) :
    (i ∈ query q (build s center bs) ↔ i ∈ bruteForce q bs) ∧
    (q.Valid → (i ∈ query q (build s center bs) ↔
      ∃ b, (i, b) ∈ bs ∧ ∃ x y : Rat, (b.x1 ≤ x ∧ x ≤ b.x2 ∧ b.y1 ≤ y ∧ y ≤ b.y2) ∧
                                       (q.x1 ≤ x ∧ x ≤ q.x2 ∧ q.y1 ≤ y ∧ y ≤ q.y2))) := by
  refine ⟨by rw [C14_query s hs center bs hv q i, mem_bruteForce], fun hq => ?_⟩
  rw [C14_query s hs center bs hv q i]
  constructor
  · rintro ⟨b, hb, ho⟩
    exact ⟨b, hb, (overlaps_iff_shares_point q b hq (hv _ hb)).mp ho⟩
  · rintro ⟨b, hb, hp⟩
    exact ⟨b, hb, (overlaps_iff_shares_point q b hq (hv _ hb)).mpr hp⟩

/-- "nothing extra" needs no hypothesis at all: it holds for every strictness assignment (also the
unrepaired strict one) and for arbitrary boxes -/
theorem C14_nothing_extra (s : Strict) (center : List IBox → Rat × Rat) (bs : List IBox) (q : Box) (i : Nat)
    (h : i ∈ query q (build s center bs)) : ∃ b, (i, b) ∈ bs ∧ overlaps q b = true :=
  query_sound s center q bs i h

/-- **Construction terminates**: `build` is a total function (accepted by Lean with the proof that the
four quadrant lists are strictly shorter whenever the node is not a leaf), and the recursion depth is at
most the number of boxes. -/
theorem C14_terminates (s : Strict) (center : List IBox → Rat × Rat) (bs : List IBox) :
    (build s center bs).depth ≤ bs.length :=
  depth_le s center bs

/-- the repaired partition (all eight comparisons non-strict) covers; so does every assignment in which
only one side of each split line is strict -/
theorem C14_nonstrict_covers :
    coversB Strict.none = true ∧
    coversB ⟨true, true, false, true, true, false, false, false⟩ = true := by decide

/-- the unrepaired partition (all comparisons strict) does not cover, and the model exhibits the
lost box of DESIGN §9 F8 with the code's own (exact) mean centre: the horizontal stroke `(2,0)-(3,0)`
overlaps the query `(1,-1)-(3,0)` but is not reported. -/
theorem C14_strict_counterexample :
    coversB Strict.all = false ∧
    overlaps ⟨1, -1, 3, 0⟩ ⟨2, 0, 3, 0⟩ = true ∧
    (0 : Nat) ∉ query ⟨1, -1, 3, 0⟩ (build Strict.all (meanCenter id) [(0, ⟨2, 0, 3, 0⟩)]) := by
  refine ⟨by decide, by simp [overlaps]; norm_num, ?_⟩
  have hc : meanCenter id [((0 : Nat), (⟨2, 0, 3, 0⟩ : Box))] = (5 / 2, 0) := by
    simp [meanCenter]; norm_num
  rw [build]
  simp only [hc, List.filter, quad, lo, hi, Strict.all]
  norm_num [extent, extentHit, query]

/-! ## The same statements about the SOURCE-REGENERATED class

`Gen.rtree_Index_init` / `Gen.rtree_Index_intersection` are regenerated from `plotink/rtree.py` on every run
(`lean/Plotink/Gen/rtree_Index.lean`).  Exact arithmetic (`Rounding.exact`); boxes are `(id, (x1, y1, x2, y2))` with
`float` coordinates (`C14.encIBoxes`, `C14.encBox`); an instance is the field tuple `C14.encTree`; the returned `set`
is a duplicate-free list of ids (`C14.encSet`).  Both functions recurse on `fuel`.  Proofs: `Proofs/C14Gen.lean`. -/

/-- **bridge** (construction): `Index(bboxes)`, regenerated, builds the model's tree with the code's own running
mean as the centre and its eight non-strict quadrant comparisons, for every fuel above the number of boxes -/
theorem C14_gen_build (amb : Nat) (bs : List IBox) (fuel : Nat) (hf : bs.length < fuel) :
    Gen.rtree_Index_init Rounding.exact amb fuel (encIBoxes bs)
      = .val (encTree (extent bs) (build Strict.none (meanCenter id) bs)) :=
  init_bridge amb bs.length bs fuel rfl hf

/-- **bridge** (query): `intersection`, regenerated, on an encoded tree returns the id set of the model's `query`,
for every fuel above the depth of the tree -/
theorem C14_gen_intersection (amb : Nat) (q : Box) (t : Tree) (own : Option Box) (fuel : Nat) (hf : t.depth < fuel) :
    ∃ l : List Nat, Gen.rtree_Index_intersection Rounding.exact amb fuel (encTree own t) (encBox q) = .val (encSet l) ∧
      l.Nodup ∧ ∀ i, i ∈ l ↔ i ∈ query q t :=
  ⟨qset q t, intersection_bridge amb q t own fuel hf, nodup_qset q t, mem_qset q t⟩

/-- `C14_query` / `C14_brute_force` for the regenerated class: build the index from any list of id-tagged boxes with
`min ≤ max`, ask any query box — with any fuel above the number of boxes both calls return, and the returned set
contains an id exactly when one of its boxes passes the closed-interval test (= the brute-force answer) -/
theorem C14_gen_query (amb : Nat) (bs : List IBox) (hv : ∀ b ∈ bs, b.2.Valid) (q : Box) (fuel : Nat)
    (hf : bs.length < fuel) :
    ∃ (t : Py.Val) (l : List Nat), Gen.rtree_Index_init Rounding.exact amb fuel (encIBoxes bs) = .val t ∧
      Gen.rtree_Index_intersection Rounding.exact amb fuel t (encBox q) = .val (encSet l) ∧ l.Nodup ∧
      (∀ i, i ∈ l ↔ ∃ b, (i, b) ∈ bs ∧ overlaps q b = true) ∧ (∀ i, i ∈ l ↔ i ∈ bruteForce q bs) := by
  have hd := C14_terminates Strict.none (meanCenter id) bs
  obtain ⟨l, hl, hnd, hm⟩ := C14_gen_intersection amb q (build Strict.none (meanCenter id) bs) (extent bs) fuel (by omega)
  refine ⟨_, l, C14_gen_build amb bs fuel hf, hl, hnd, fun i => ?_, fun i => ?_⟩
  · rw [hm, C14_query Strict.none (by decide) (meanCenter id) bs hv q i]
  · rw [hm, (C14_brute_force Strict.none (by decide) (meanCenter id) bs hv q i).1]

/-- `C14_terminates` for the regenerated constructor: no `fuelOut` from `bs.length + 1` units of fuel on -/
theorem C14_gen_terminates (amb : Nat) (bs : List IBox) :
    ∃ t, ∀ fuel, bs.length < fuel → Gen.rtree_Index_init Rounding.exact amb fuel (encIBoxes bs) = .val t :=
  ⟨_, fun fuel hf => C14_gen_build amb bs fuel hf⟩

/-- non-vacuity: a concrete valid box list; the regenerated class reports the horizontal stroke of finding F8 -/
example : ∀ b ∈ [((0 : Nat), (⟨2, 0, 3, 0⟩ : Box))], b.2.Valid := by
  intro b hb; simp at hb; subst hb; constructor <;> norm_num
example : ∃ t l, Gen.rtree_Index_init Rounding.exact 53 2 (encIBoxes [(0, ⟨2, 0, 3, 0⟩)]) = .val t ∧
    Gen.rtree_Index_intersection Rounding.exact 53 2 t (encBox ⟨1, -1, 3, 0⟩) = .val (encSet l) ∧ 0 ∈ l := by
  obtain ⟨t, l, h1, h2, _, hm, _⟩ := C14_gen_query 53 [(0, ⟨2, 0, 3, 0⟩)]
    (by intro b hb; simp at hb; subst hb; constructor <;> norm_num) ⟨1, -1, 3, 0⟩ 2 (by decide)
  exact ⟨t, l, h1, h2, (hm 0).2 ⟨⟨2, 0, 3, 0⟩, by simp, by simp [overlaps]; norm_num⟩⟩

end Plotink
