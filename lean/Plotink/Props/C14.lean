import Plotink.Proofs.C14
import Mathlib.Tactic.NormNum

/-! # C14 — R-tree intersection query equals brute force

Model: `Plotink/Model/C14.lean` (`build`, `query` mirror `rtree.Index.__init__` / `intersection`).
The theorems hold for **every** centre function (the code's binary64 running mean is one instance) and
for every strictness assignment `s` of the eight quadrant comparisons that passes the decidable
coverage test `coversB s` (all-non-strict does; the all-strict partition of the unrepaired code does
not).  The harness reads `s` off the current source on every run.  -/

namespace Plotink
open C14

/-- **Main theorem.**  For every centre function, every covering strictness assignment, every list of
id-tagged boxes with `min ≤ max` on both axes and every query box: an id is reported exactly when one
of its boxes passes the closed-interval test against the query (touching counts). -/
theorem C14_query (s : Strict) (hs : coversB s = true) (center : List IBox → Rat × Rat)
    (bs : List IBox) (hv : ∀ b ∈ bs, b.2.Valid) (q : Box) (i : Nat) :
    i ∈ query q (build s center bs) ↔ ∃ b, (i, b) ∈ bs ∧ overlaps q b = true :=
  ⟨query_sound s center q bs i, fun ⟨b, hb, ho⟩ => query_complete s hs center q bs hv i b hb ho⟩

example : coversB Strict.none = true := by decide
example : ∀ b ∈ [((7 : Nat), (⟨0, 0, 1, 0⟩ : Box))], b.2.Valid := by
  intro b hb; simp at hb; subst hb; constructor <;> norm_num

/-- the same, against the executable brute-force specification and in geometric terms: the reported ids
are exactly those of `bruteForce`, and for a query box with `min ≤ max` exactly those having a box that
shares at least one point with the query rectangle -/
theorem C14_brute_force (s : Strict) (hs : coversB s = true) (center : List IBox → Rat × Rat)
    (bs : List IBox) (hv : ∀ b ∈ bs, b.2.Valid) (q : Box) (i : Nat) :
    (i ∈ query q (build s center bs) ↔ i ∈ bruteForce q bs) ∧
    (q.Valid → (i ∈ query q (build s center bs) ↔
      ∃ b, (i, b) ∈ bs ∧ ∃ x y : Rat, (b.x1 ≤ x ∧ x ≤ b.x2 ∧ b.y1 ≤ y ∧ y ≤ b.y2) ∧
                                       (q.x1 ≤ x ∧ x ≤ q.x2 ∧ q.y1 ≤ y ∧ y ≤ q.y2))) := by
  refine ⟨by rw [C14_query s hs center bs hv q i, mem_bruteForce], fun hq => ?_⟩
  rw [C14_query s hs center bs hv q i]
  constructor
  · rintro ⟨b, hb, ho⟩
    exact ⟨b, hb, (overlaps_iff_shares_point q b hq (hv _ hb)).mp ho⟩
  · rintro ⟨b, hb, hp⟩
    exact ⟨b, hb, (overlaps_iff_shares_point q b hq (hv _ hb)).mpr hp⟩

/-- "nothing extra" needs no hypothesis at all: it holds for every strictness assignment (also the
unrepaired strict one) and for arbitrary boxes -/
theorem C14_nothing_extra (s : Strict) (center : List IBox → Rat × Rat) (bs : List IBox) (q : Box) (i : Nat)
    (h : i ∈ query q (build s center bs)) : ∃ b, (i, b) ∈ bs ∧ overlaps q b = true :=
  query_sound s center q bs i h

/-- **Construction terminates**: `build` is a total function (accepted by Lean with the proof that the
four quadrant lists are strictly shorter whenever the node is not a leaf), and the recursion depth is at
most the number of boxes. -/
theorem C14_terminates (s : Strict) (center : List IBox → Rat × Rat) (bs : List IBox) :
    (build s center bs).depth ≤ bs.length :=
  depth_le s center bs

/-- the repaired partition (all eight comparisons non-strict) covers; so does every assignment in which
only one side of each split line is strict -/
theorem C14_nonstrict_covers :
    coversB Strict.none = true ∧
    coversB ⟨true, true, false, true, true, false, false, false⟩ = true := by decide

/-- the unrepaired partition (all comparisons strict) does not cover, and the model exhibits the
lost box of DESIGN §9 F8 with the code's own (exact) mean centre: the horizontal stroke `(2,0)-(3,0)`
overlaps the query `(1,-1)-(3,0)` but is not reported. -/
theorem C14_strict_counterexample :
    coversB Strict.all = false ∧
    overlaps ⟨1, -1, 3, 0⟩ ⟨2, 0, 3, 0⟩ = true ∧
    (0 : Nat) ∉ query ⟨1, -1, 3, 0⟩ (build Strict.all (meanCenter id) [(0, ⟨2, 0, 3, 0⟩)]) := by
  refine ⟨by decide, by simp [overlaps]; norm_num, ?_⟩
  have hc : meanCenter id [((0 : Nat), (⟨2, 0, 3, 0⟩ : Box))] = (5 / 2, 0) := by
    simp [meanCenter]; norm_num
  rw [build]
  simp only [hc, List.filter, quad, lo, hi, Strict.all]
  norm_num [extent, extentHit, query]

end Plotink
