import Plotink.Proofs.C05Frame
import Plotink.Proofs.C05Script
import Plotink.Proofs.C05Conf
import Plotink.Proofs.C05FailRep
import Plotink.Model.Ebb3Params
import Plotink.Proofs.Ebb3GenLift
import Plotink.Proofs.Ebb3GenAttr

/-! # C05 — EBB3 command/query framing and fault handling

Same model as C04 (`Plotink/Model/Ebb3.lean`).  The port is a `Script`: `w.dev.reads` are the
outcomes of the successive `readline` calls (raw ASCII line, `[]` = timeout, or `raise`),
`w.dev.writes` those of the successive `write` calls; exhausted lists mean silence / ok.
`Spec.firstReply`, `Spec.readsUsed`, `Spec.accepted`, `Spec.commandError`, `Spec.queryError`,
`Spec.queryValue` are the specification (list combinators over the outcome lists); the theorems
say that the statement-by-statement model of `command` / `query` computes them.
`name` is always the name the code extracts: `cmdName (strip req) = .ok name`. -/

namespace Plotink
open Ebb3 Ebb3.Spec

/-- **Name extraction**, all strings: one letter; one letter followed by a comma; otherwise the
first two characters; the empty string raises `IndexError`. -/
theorem C05_name (c d : Char) (rest : Str) :
    cmdName [c] = .ok [c] ∧
    cmdName (c :: ',' :: rest) = .ok [c] ∧
    (d ≠ ',' → cmdName (c :: d :: rest) = .ok [c, d]) ∧
    cmdName [] = .error .indexError ∧
    (∀ t : Str, t ≠ [] → ∃ name, cmdName t = .ok name ∧ name ≠ []) := by
  refine ⟨rfl, by simp [cmdName], fun h => by simp [cmdName, h], rfl, fun t ht => cmdName_ok_of_ne ht⟩

/-- **The window.** Meaning of `readsUsed` / `firstReply` for `n = 1 + retry` reads: either there
is a first non-blank outcome at position `j < n`, everything before it is blank, exactly `j + 1`
reads are used and it is the reply; or the first `n` outcomes (an exhausted script counting as
silence) are blank, `n` reads are used and the result is a timeout.  In all cases at most `n`. -/
theorem C05_window (n : Nat) (reads : List ReadEv) :
    readsUsed n reads ≤ n ∧
    ((∃ j ev, j < n ∧ reads[j]? = some ev ∧ isBlank ev = false ∧ (∀ e ∈ reads.take j, isBlank e = true) ∧
        readsUsed n reads = j + 1 ∧ firstReply n reads = replyOfEv ev)
     ∨ ((∀ e ∈ reads.take n, isBlank e = true) ∧ readsUsed n reads = n ∧ firstReply n reads = .timeout)) :=
  ⟨readsUsed_le n reads, window_cases n reads⟩

/-- **Framing.** On a connected, error-free object `command(req)` and `query(req)` hand exactly one
text to `write`: the trimmed request followed by one carriage return.  If that write succeeds they
call `readline` exactly `readsUsed (1 + retry)` times (at most `1 + retry`; see `C05_window`) and
leave the rest of the script untouched; if it raises they read nothing. -/
theorem C05_frame (P : Params) (req name : Str) (hn : cmdName (strip req) = .ok name) (hne : name ≠ [])
    (w : World Script) (hw : Ready w) :
    let oc := runCall P scriptDev (.command (some req)) w
    let oq := runCall P scriptDev (.query (some req)) w
    let wo := firstWrite w.dev
    (oc.written = [strip req ++ ['\r']] ∧
     oc.reads = usedReads (P.retryCmd + 1) wo w.dev.reads ∧ oc.reads ≤ P.retryCmd + 1 ∧
     oc.world.dev = ⟨w.dev.reads.drop oc.reads, w.dev.writes.tail⟩) ∧
    (oq.written = [strip req ++ ['\r']] ∧
     oq.reads = usedReads (P.retryQry + 1) wo w.dev.reads ∧ oq.reads ≤ P.retryQry + 1 ∧
     oq.world.dev = ⟨w.dev.reads.drop oq.reads, w.dev.writes.tail⟩) := by
  obtain ⟨st, ⟨reads, ws⟩, out, nr⟩ := w
  have he : st.err = Option.none := hw.2
  have hle : ∀ n wo, usedReads n wo reads ≤ n := by
    intro n wo
    cases wo
    · exact readsUsed_le n reads
    · simp [usedReads]
  refine ⟨?_, ?_⟩
  · simp only [runCall, run_command_ready P scriptDev req _ hw,
      commandCore_script P (strip req) name hn hne st he reads ws out nr]
    simp [hle]
  · simp only [runCall, run_query_ready P scriptDev req _ hw,
      queryCore_script P (strip req) name hn hne st he reads ws out nr]
    simp [hle]

example : ∃ (req name : Str) (w : World Script), cmdName (strip req) = .ok name ∧ name ≠ [] ∧ Ready w :=
  ⟨" QS\n".toList, "QS".toList, ⟨{ St.init with port := true }, ⟨[], []⟩, [], 0⟩, by rfl, by decide,
    ⟨rfl, rfl⟩⟩

/-- **Success iff.** `command` returns `True` exactly when no error is recorded, and that happens
exactly when the write succeeded and the reply (first non-blank line among the first
`1 + retry` reads) begins with the name and contains no `Err:` — or, for the names in `ignoreCmd`
(`rb`, `r`, `bl`), when the write or a read raised (the I/O error is deliberately ignored: known
finding F10).  Otherwise the recorded error is the message `Spec.commandError` builds and `False`
is returned.  `query` returns a string exactly when the write succeeded and the reply is accepted
(no exception for any name); otherwise it returns `None` with `Spec.queryError` recorded.
Nothing else of the object changes. -/
theorem C05_success_iff (P : Params) (req name : Str) (hn : cmdName (strip req) = .ok name) (hne : name ≠ [])
    (w : World Script) (hw : Ready w) :
    let oc := runCall P scriptDev (.command (some req)) w
    let oq := runCall P scriptDev (.query (some req)) w
    let wo := firstWrite w.dev
    let ce := commandError P (strip req) name wo w.dev.reads
    let qe := queryError P (strip req) name wo w.dev.reads
    let ioFault := wo = .raise ∨ firstReply (P.retryCmd + 1) w.dev.reads = .ioError
    (oc.res = .ok (.bool ce.isNone) ∧ oc.world.st = { w.st with err := ce } ∧
     (ce = Option.none ↔ (wo = .ok ∧ accepted name (firstReply (P.retryCmd + 1) w.dev.reads) = true) ∨
                  (ioFault ∧ lower name ∈ P.ignoreCmd))) ∧
    (oq.res = .ok (queryValue P (strip req) name wo w.dev.reads) ∧ oq.world.st = { w.st with err := qe } ∧
     (qe = Option.none ↔ wo = .ok ∧ accepted name (firstReply (P.retryQry + 1) w.dev.reads) = true) ∧
     (qe = Option.none ↔ ∃ s, queryValue P (strip req) name wo w.dev.reads = .str s)) := by
  obtain ⟨st, ⟨reads, ws⟩, out, nr⟩ := w
  have he : st.err = Option.none := hw.2
  refine ⟨⟨?_, ?_, ?_⟩, ⟨?_, ?_, ?_, ?_⟩⟩
  · simp only [runCall, run_command_ready P scriptDev req _ hw,
      commandCore_script P (strip req) name hn hne st he reads ws out nr]
  · simp only [runCall, run_command_ready P scriptDev req _ hw,
      commandCore_script P (strip req) name hn hne st he reads ws out nr]
  · simp only [commandError]
    cases firstWrite ⟨reads, ws⟩ with
    | raise => by_cases hi : lower name ∈ P.ignoreCmd <;> simp [hi]
    | ok =>
      cases firstReply (P.retryCmd + 1) reads with
      | ioError => by_cases hi : lower name ∈ P.ignoreCmd <;> simp [hi, accepted]
      | timeout => simp [accepted]
      | text t =>
        by_cases hp : startsWith name t = true <;> by_cases hx : hasErr t = true <;> simp [hp, hx, accepted]
  · simp only [runCall, run_query_ready P scriptDev req _ hw,
      queryCore_script P (strip req) name hn hne st he reads ws out nr]
  · simp only [runCall, run_query_ready P scriptDev req _ hw,
      queryCore_script P (strip req) name hn hne st he reads ws out nr]
  · simp only [queryError]
    cases firstWrite ⟨reads, ws⟩ with
    | raise => by_cases hi : lower name ∈ P.ignoreQry <;> simp [hi]
    | ok =>
      cases firstReply (P.retryQry + 1) reads with
      | ioError => by_cases hi : lower name ∈ P.ignoreQry <;> simp [hi, accepted]
      | timeout => simp [accepted]
      | text t =>
        by_cases hp : startsWith name t = true <;> by_cases hx : hasErr t = true <;> simp [hp, hx, accepted]
  · simp only [queryValue, queryError]
    cases firstWrite ⟨reads, ws⟩ with
    | raise => by_cases hi : lower name ∈ P.ignoreQry <;> simp [hi]
    | ok =>
      cases firstReply (P.retryQry + 1) reads with
      | ioError => by_cases hi : lower name ∈ P.ignoreQry <;> simp [hi]
      | timeout => simp
      | text t =>
        by_cases hp : startsWith name t = true <;> by_cases hx : hasErr t = true <;> simp [hp, hx]

/-- **Query value.** A successful query returns the reply with the name and one separating comma
(if present) removed. -/
theorem C05_query_value (P : Params) (req name : Str) (hn : cmdName (strip req) = .ok name) (hne : name ≠ [])
    (w : World Script) (hw : Ready w)
    (hok : queryError P (strip req) name (firstWrite w.dev) w.dev.reads = Option.none) :
    ∃ rest, firstReply (P.retryQry + 1) w.dev.reads = .text (name ++ rest) ∧
      (runCall P scriptDev (.query (some req)) w).res =
        .ok (.str (dropComma rest)) := by
  have h := (C05_success_iff P req name hn hne w hw).2
  obtain ⟨hres, -, hiff, -⟩ := h
  have hacc := hiff.mp hok
  rw [hres]
  cases hr : firstReply (P.retryQry + 1) w.dev.reads with
  | ioError => simp [hr, accepted] at hacc
  | timeout => simp [hr, accepted] at hacc
  | text t =>
    simp only [hr, accepted, Bool.and_eq_true] at hacc
    obtain ⟨rest, ht⟩ := startsWith_split hacc.2.1
    refine ⟨rest, by rw [ht], ?_⟩
    simp only [queryValue, hok, hr]
    rw [ht, stripHeader_append]

example : queryError srcParams "QS".toList "QS".toList .ok [.empty, .line "QS,1,2\r\n".toList] = Option.none := by
  decide

/-- **No request method raises.** For every request method, every argument inside the domain
(`Call.InDomain`: non-blank request strings, int32 values for the 4-byte writer), every object
state, and every script whose read outcomes are drawn from the fault alphabet of the statement
(`AdmScript`: raised exceptions, empty/blank lines, lines with `Err:`, lines that begin with none of
the decoded query names — wrong-name lines and replies to other requests —, and correct replies
`name,payload` to the decoded queries QS/QC/QE/PI/QL; any write outcomes): the call returns a value
(`.ok v`: the model represents `None.split`, `int('x')`, index and key errors as `.error`), and
the rest of the script is still in the alphabet — so the same holds for every further call. -/
theorem C05_no_raise (P : Params) (c : Call) (hr : c.method.isRequest = true) (hd : c.InDomain)
    (w : World Script) (h : AdmScript w) :
    ∃ v w', run P scriptDev c w = (.ok v, w') ∧ AdmScript w' :=
  total_of_sound (scriptSound P) c hr hd w h

/-- the same along any history of in-domain request calls: no call raises -/
theorem C05_no_raise_history (P : Params) (cs : List Call)
    (hcs : ∀ c ∈ cs, c.method.isRequest = true ∧ c.InDomain) (w : World Script) (h : AdmScript w) :
    ∀ o ∈ runCalls P scriptDev cs w, ∃ v, o.res = .ok v := by
  induction cs generalizing w with
  | nil => intro o ho; simp [runCalls] at ho
  | cons c cs ih =>
    intro o ho
    obtain ⟨v, w', hrun, hadm⟩ := C05_no_raise P c (hcs c (by simp)).1 (hcs c (by simp)).2 w h
    simp only [runCalls, List.mem_cons] at ho
    rcases ho with rfl | ho
    · exact ⟨v, by simp [runCall, hrun]⟩
    · have hw : (runCall P scriptDev c w).world = w' := by simp [runCall, hrun]
      rw [hw] at ho
      exact ih (fun c' hc' => hcs c' (by simp [hc'])) w' hadm o ho

example : AdmScript ⟨St.init, ⟨[.raise, .empty, .line "ZZ,1\r\n".toList], []⟩, [], 0⟩ := by
  intro ev hev
  simp only [List.mem_cons, List.not_mem_nil, or_false] at hev
  rcases hev with rfl | rfl | rfl
  · trivial
  · intro name hn hp
    simp only [parsedNames, List.mem_cons, List.not_mem_nil, or_false] at hn
    rcases hn with rfl | rfl | rfl | rfl | rfl <;> exact absurd hp (by decide)
  · intro name hn hp
    simp only [parsedNames, List.mem_cons, List.not_mem_nil, or_false] at hn
    rcases hn with rfl | rfl | rfl | rfl | rfl <;> exact absurd hp (by decide)

/-- **A recorded error is reported by the failure value.** For every request method, any device,
any arguments and any start state: if the call returns a value and an error is recorded
afterwards, the value is `False`, `None` or `(None, None)`.  (Together with `C04_blocked` this is
"the failure is recorded as the object's error and reported by the failure return value".) -/
theorem C05_fail_reported {σ : Type} (P : Params) (D : Device σ) (c : Call) (hr : c.method.isRequest = true)
    (w : World σ) (v : Val) (w' : World σ) (h : run P D c w = (.ok v, w'))
    (he : w'.st.err.isSome = true) :
    v = .bool false ∨ v = .none ∨ v = .pair .none .none :=
  run_failRep P D c hr w v w' h he

example : ∃ v w', run srcParams scriptDev (.query_voltage Option.none)
    ⟨{ St.init with port := true }, ⟨[.line "ZZ\n".toList], []⟩, [], 0⟩ = (.ok v, w') ∧ w'.st.err.isSome = true :=
  ⟨_, _, rfl, by decide⟩

/-- **Attribution.** Against any conforming device (`Conforming P reply`: every trimmed request is
answered, after at most `retry` empty reads — none for `QG`, which is read once —, by exactly one
line that begins with the request's name, has no `Err:` and, for the decoded queries, a well-formed
payload), starting with no error and nothing unread: after *every* call of *every* history of
in-domain request calls, the call has returned a value, no error is recorded, and (while the port
is open) the device has no unread line — each reply was consumed by the request that caused it. -/
theorem C05_attribution (P : Params) (reply : Nat → Str → Nat × Str) (hc : Conforming P reply)
    (cs : List Call) (hcs : ∀ c ∈ cs, c.method.isRequest = true ∧ c.InDomain)
    (w : World ConfSt) (hw : ConfInv w) :
    ∀ o ∈ runCalls P (confDev reply) cs w,
      (∃ v, o.res = .ok v) ∧ o.world.st.err = Option.none ∧ (o.world.st.port = true → o.world.dev.queue = []) := by
  induction cs generalizing w with
  | nil => intro o ho; simp [runCalls] at ho
  | cons c cs ih =>
    intro o ho
    obtain ⟨v, w', hrun, hinv⟩ :=
      total_of_sound (confSound reply P hc) c (hcs c (by simp)).1 (hcs c (by simp)).2 w hw
    simp only [runCalls, List.mem_cons] at ho
    rcases ho with rfl | ho
    · exact ⟨⟨v, by simp [runCall, hrun]⟩, by simpa [runCall, hrun] using hinv.1,
        by simpa [runCall, hrun] using hinv.2⟩
    · have hw' : (runCall P (confDev reply) c w).world = w' := by simp [runCall, hrun]
      rw [hw'] at ho
      exact ih (fun c' hc' => hcs c' (by simp [hc'])) w' hinv o ho

/-- conforming devices exist (for every parameter set): `demoReply` answers at once with `name,1`
or `name,1,1` -/
theorem C05_conforming_exists (P : Params) : Conforming P demoReply := demo_conforming P

example : ConfInv ⟨{ St.init with port := true }, ⟨[], 0⟩, [], 0⟩ := ⟨rfl, fun _ => rfl⟩

/-! ## The same theorems about the *regenerated* code  (see the note in `Props/C04.lean`)

`Gen.EBB3_command` / `Gen.EBB3_query` and the other methods of the bridged set **S** (`Ebb3Gen.inS`: 36 of the 38
public methods — every request method, `record_error`, `disconnect`, `parse_version`, `min_version`), run by
`Ebb3Gen.genRun`; `Ebb3Gen.Good w` is the domain; `Ebb3Gen.absWorld w` is what the model sees of a world of the
regenerated code (attributes, script without exception classes, bytes written, read count). -/

open Ebb3Gen in
/-- **Framing (regenerated code).** On a connected, error-free object the regenerated `command(req)` and `query(req)`
return, hand exactly one text to `write` — the trimmed request followed by one carriage return —, and call `readline`
exactly `usedReads (1 + retry)` times (at most `1 + retry`; nothing if the write raised), leaving the rest of the
script untouched. -/
theorem C05_gen_frame (fuel : Nat) (hf : 26 ≤ fuel) (req name : Str) (hasc : PyIO.isAscii req = true)
    (hn : cmdName (strip req) = .ok name) (hne : name ≠ []) (w : PyObj.World Gen.EBB3_Obj) (hg : Good w)
    (hp : w.obj.port = .port) (he : w.obj.err = .none) :
    let aw := absWorld w
    let uc := usedReads (srcParams.retryCmd + 1) (firstWrite aw.dev) aw.dev.reads
    let uq := usedReads (srcParams.retryQry + 1) (firstWrite aw.dev) aw.dev.reads
    (∃ v w', Gen.EBB3_command fuel (.str req) w = .val v w' ∧
      w'.port.log = w.port.log ++ [strip req ++ ['\r']] ∧ w'.port.nread = w.port.nread + uc ∧
      uc ≤ srcParams.retryCmd + 1 ∧ (absWorld w').dev = ⟨aw.dev.reads.drop uc, aw.dev.writes.tail⟩) ∧
    (∃ v w', Gen.EBB3_query fuel (.str req) w = .val v w' ∧
      w'.port.log = w.port.log ++ [strip req ++ ['\r']] ∧ w'.port.nread = w.port.nread + uq ∧
      uq ≤ srcParams.retryQry + 1 ∧ (absWorld w').dev = ⟨aw.dev.reads.drop uq, aw.dev.writes.tail⟩) := by
  intro aw uc uq
  obtain ⟨w1, h1, h2, -⟩ := command_gen_exact fuel hf req name hasc hn hne w hg hp he
  obtain ⟨w2, h3, h4, -⟩ := query_gen_exact fuel hf req name hasc hn hne w hg hp he
  exact ⟨⟨_, w1, h1, congrArg (·.out) h2, congrArg (·.nreads) h2, usedReads_le _ _ _, congrArg (·.dev) h2⟩,
    ⟨_, w2, h3, congrArg (·.out) h4, congrArg (·.nreads) h4, usedReads_le _ _ _, congrArg (·.dev) h4⟩⟩

open Ebb3Gen in
/-- **Success iff (regenerated code).** The regenerated `command` returns `True` exactly when no error is recorded,
which is when `Spec.commandError … = none` (see `C05_success_iff` for what that means: write ok and an accepted
reply — or an ignored I/O fault for `rb`/`r`/`bl`); otherwise `err` becomes that message and `False` is returned.
The regenerated `query` returns `Spec.queryValue` (a string exactly when `Spec.queryError … = none`) and records
`Spec.queryError`. -/
theorem C05_gen_success_iff (fuel : Nat) (hf : 26 ≤ fuel) (req name : Str) (hasc : PyIO.isAscii req = true)
    (hn : cmdName (strip req) = .ok name) (hne : name ≠ []) (w : PyObj.World Gen.EBB3_Obj) (hg : Good w)
    (hp : w.obj.port = .port) (he : w.obj.err = .none) :
    let aw := absWorld w
    let ce := commandError srcParams (strip req) name (firstWrite aw.dev) aw.dev.reads
    let qe := queryError srcParams (strip req) name (firstWrite aw.dev) aw.dev.reads
    (∃ w', Gen.EBB3_command fuel (.str req) w = .val (.bool ce.isNone) w' ∧
      w'.obj.err = encReq ce ∧
      (ce = Option.none ↔ (firstWrite aw.dev = .ok ∧ accepted name (firstReply (srcParams.retryCmd + 1) aw.dev.reads) = true) ∨
        ((firstWrite aw.dev = .raise ∨ firstReply (srcParams.retryCmd + 1) aw.dev.reads = .ioError) ∧
          lower name ∈ srcParams.ignoreCmd))) ∧
    (∃ w', Gen.EBB3_query fuel (.str req) w =
        .val (encVal (queryValue srcParams (strip req) name (firstWrite aw.dev) aw.dev.reads)) w' ∧
      w'.obj.err = encReq qe ∧
      (qe = Option.none ↔ firstWrite aw.dev = .ok ∧ accepted name (firstReply (srcParams.retryQry + 1) aw.dev.reads) = true) ∧
      (qe = Option.none ↔ ∃ s, queryValue srcParams (strip req) name (firstWrite aw.dev) aw.dev.reads = .str s)) := by
  intro aw ce qe
  obtain ⟨w1, h1, h2, hg1⟩ := command_gen_exact fuel hf req name hasc hn hne w hg hp he
  obtain ⟨w2, h3, h4, hg2⟩ := query_gen_exact fuel hf req name hasc hn hne w hg hp he
  have hm := C05_success_iff srcParams req name hn hne (absWorld w) (ready_of_attrs w hp he)
  exact ⟨⟨w1, h1, err_of_absSt hg1.obj (congrArg (·.st) h2), hm.1.2.2⟩,
    ⟨w2, h3, err_of_absSt hg2.obj (congrArg (·.st) h4), hm.2.2.2.1, hm.2.2.2.2⟩⟩

open Ebb3Gen in
/-- **Query value (regenerated code).** A successful regenerated `query` returns the reply with the name and one
separating comma removed. -/
theorem C05_gen_query_value (fuel : Nat) (hf : 26 ≤ fuel) (req name : Str) (hasc : PyIO.isAscii req = true)
    (hn : cmdName (strip req) = .ok name) (hne : name ≠ []) (w : PyObj.World Gen.EBB3_Obj) (hg : Good w)
    (hp : w.obj.port = .port) (he : w.obj.err = .none)
    (hok : queryError srcParams (strip req) name (firstWrite (absWorld w).dev) (absWorld w).dev.reads = Option.none) :
    ∃ rest w', firstReply (srcParams.retryQry + 1) (absWorld w).dev.reads = .text (name ++ rest) ∧
      Gen.EBB3_query fuel (.str req) w = .val (.str (dropComma rest)) w' := by
  obtain ⟨w2, h3, -, -⟩ := query_gen_exact fuel hf req name hasc hn hne w hg hp he
  obtain ⟨rest, hr, hv⟩ := C05_query_value srcParams req name hn hne (absWorld w) (ready_of_attrs w hp he) hok
  have hm := (C05_success_iff srcParams req name hn hne (absWorld w) (ready_of_attrs w hp he)).2.1
  rw [hm] at hv
  injection hv with hv
  refine ⟨rest, w2, hr, ?_⟩
  rw [h3, hv]
  rfl

open Ebb3Gen in
/-- **No request method of S raises (regenerated code).** For every call of a request method of S with in-domain
arguments, every `Good` world whose script (as the model sees it) is drawn from the fault alphabet (`AdmScript`): the
regenerated method returns a value — no exception, no fuel exhaustion —, and the world it leaves is `Good` with a
script still in the alphabet. -/
theorem C05_gen_no_raise (fuel : Nat) (c : Call) (hc : Covered fuel c) (hr : c.method.isRequest = true) (hd : c.InDomain)
    (w : PyObj.World Gen.EBB3_Obj) (hg : Good w) (hp : Pre c w) (ha : AdmScript (absWorld w)) :
    ∃ v w', genRun fuel c w = .val v w' ∧ Good w' ∧ AdmScript (absWorld w') := by
  obtain ⟨v, aw', hrun, hadm⟩ := C05_no_raise srcParams c hr hd (absWorld w) ha
  have hs := gen_bridge fuel c hc w hg hp
  rw [hrun] at hs
  obtain ⟨w', h1, h2, h3⟩ := sim_val hs
  exact ⟨_, w', h1, h3, by rw [h2]; exact hadm⟩

open Ebb3Gen in
/-- the same along any history over ALL public methods (`connect`, `find_first`, the helpers and `disconnect`
included; request calls with in-domain arguments), started in a `Good` world with a script from the fault alphabet
whose inputs satisfy the static side conditions `Env` (see `C04_gen_history`): the history runs to its end — no call
runs out of fuel —, and every *request* call returns a value, wherever it stands in the history.  (`connect` itself
may raise by design: a fault of its last exchange, `InvalidVersion`, `TypeError`; it still leaves a world of the domain,
so the request calls after it are covered.) -/
theorem C05_gen_no_raise_history (fuel : Nat) : ∀ (cs : List Call) (w : PyObj.World Gen.EBB3_Obj),
    (∀ c ∈ cs, Covered fuel c ∧ (c.method.isRequest = true → c.InDomain)) → Good w → (∀ c ∈ cs, Env c w) →
    AdmScript (absWorld w) →
    (genCalls fuel cs w).length = cs.length ∧
      ∀ co ∈ List.zip cs (genCalls fuel cs w), co.1.method.isRequest = true → ∃ v w', co.2 = .val v w'
  | [], _, _, _, _, _ => ⟨rfl, fun co hco => by simp [genCalls] at hco⟩
  | c :: cs, w, hc, hg, hp, ha => by
    obtain ⟨hc1, hd1⟩ := hc c List.mem_cons_self
    have hpre := (hp c List.mem_cons_self).pre
    obtain ⟨w1, h1, -, hg1⟩ := sim_world (gen_bridge fuel c hc1 w hg hpre)
    have hfr : Fr w w1 := fr_of_outWorld (genRun_fr fuel c w) h1
    have ih := C05_gen_no_raise_history fuel cs w1 (fun c' hc' => hc c' (List.mem_cons_of_mem _ hc')) hg1
      (fun c' hc' => (hp c' (List.mem_cons_of_mem _ hc')).fr hfr) (admScript_of_fr hfr ha)
    simp only [genCalls, h1, List.length_cons, List.zip_cons_cons, List.mem_cons]
    refine ⟨by rw [ih.1], fun co hco hr => ?_⟩
    rcases hco with rfl | hco
    · obtain ⟨v, w', h2, -, -⟩ := C05_gen_no_raise fuel c hc1 hr (hd1 hr) w hg hpre ha
      exact ⟨v, w', h2⟩
    · exact ih.2 co hco hr

open Ebb3Gen in
/-- **A recorded error is reported by the failure value (regenerated code).** If a regenerated request method of
S returns a value and an error is recorded afterwards, the value is `False`, `None` or `(None, None)`. -/
theorem C05_gen_fail_reported (fuel : Nat) (c : Call) (hc : Covered fuel c) (hr : c.method.isRequest = true)
    (w : PyObj.World Gen.EBB3_Obj) (hg : Good w) (hp : Pre c w) (v : PyObj.Val) (w' : PyObj.World Gen.EBB3_Obj)
    (h : genRun fuel c w = .val v w') (e : Str) (he : w'.obj.err = .str e) :
    v = .bool false ∨ v = .none ∨ v = .tuple [.none, .none] := by
  have hs := gen_bridge fuel c hc w hg hp
  rw [h] at hs
  rcases hm : run srcParams scriptDev c (absWorld w) with ⟨res, aw'⟩
  rw [hm] at hs
  cases res with
  | error ex => exact hs.elim
  | ok v' =>
    obtain ⟨h1, h2, -⟩ := hs
    have herr : aw'.st.err.isSome = true := by
      rw [← h2]; simp [absWorld, absSt, he, absOpt]
    have := run_failRep srcParams scriptDev c hr (absWorld w) v' aw' hm herr
    rw [h1]
    exact encVal_failure this

/-- the constants of the statement, as read from the current source: 25 extra reads in both
primitives; I/O errors ignored only for `rb`, `r`, `bl` -/
theorem C05_params :
    srcParams.retryCmd = 25 ∧ srcParams.retryQry = 25 ∧
    srcParams.ignoreCmd = ["rb".toList, "r".toList, "bl".toList] ∧
    srcParams.ignoreQry = ["rb".toList, "r".toList, "bl".toList] := by
  decide

/-! ## Attribution on scripts, and for the regenerated code

`C05_attribution` is about a device that *reacts* to what it is sent (`confDev reply`).  The ports of the regenerated
code are scripts, fixed in advance.  `confTranscript reply P cs st0 k0 out0 nr0` is the script a conforming device
produces for the requests the history `cs` actually sends: the read and write outcomes that `confDev reply`, fitted
with a recorder (`recDev`), hands out while `cs` runs against it.  `C05Replay.replay_run` (a relational walk over all
38 method bodies: a run against any recorded device is replayed, outcome by outcome, by `scriptDev` on the recorded
script) and `C05ConfRec.confRecSound` (the recorded log *is* `confScript reply k0` of the texts written so far whenever
the port is open) give attribution on scripts; `gen_calls_sim` carries it to the regenerated methods. -/

/-- **Attribution on scripts.**  Any history `cs` of in-domain request calls, any error-free start attributes, any
conforming `reply`, run on `scriptDev` with the script a conforming device produces for the requests this history
sends (`confTranscript`; the device has received `k0` requests before and has nothing queued):
* at the end the script is used up — not one read or write outcome is left;
* after every call: the call returned a value, no error is recorded, and while the port is open what the calls so far
  have consumed from the script is exactly `confScript reply k0 ts` for the texts `ts` they wrote — each reply was
  consumed by the request that caused it and no line is left unread between calls (the rest of the script is the
  answers to requests not sent yet);
* every call behaves exactly like a call of the same history against `confDev reply`: same result, same texts
  written, same number of reads, same attributes afterwards;
* if the port is still open at the end, the whole script is the closed form `confScript reply k0 ts` for the texts
  `ts` the history wrote, with one successful write outcome per text. -/
theorem C05_script_attribution (P : Params) (reply : Nat → Str → Nat × Str) (hc : Conforming P reply)
    (cs : List Call) (hcs : ∀ c ∈ cs, c.method.isRequest = true ∧ c.InDomain)
    (st0 : St) (h0 : st0.err = Option.none) (k0 : Nat) (out0 : List Str) (nr0 : Nat) :
    (finalWorld P scriptDev cs ⟨st0, confTranscript reply P cs st0 k0 out0 nr0, out0, nr0⟩).dev = ⟨[], []⟩ ∧
    (∀ o ∈ runCalls P scriptDev cs ⟨st0, confTranscript reply P cs st0 k0 out0 nr0, out0, nr0⟩,
      (∃ v, o.res = .ok v) ∧ o.world.st.err = Option.none ∧
      (o.world.st.port = true → ∃ ts, o.world.out = out0 ++ ts ∧
        confScript reply k0 ts ++ o.world.dev.reads = (confTranscript reply P cs st0 k0 out0 nr0).reads) ∧
      ∃ oc ∈ runCalls P (confDev reply) cs ⟨st0, ⟨[], k0⟩, out0, nr0⟩,
        o.res = oc.res ∧ o.written = oc.written ∧ o.reads = oc.reads ∧ o.world.st = oc.world.st) ∧
    ((finalWorld P (confDev reply) cs ⟨st0, ⟨[], k0⟩, out0, nr0⟩).st.port = true →
      ∃ ts, (finalWorld P (confDev reply) cs ⟨st0, ⟨[], k0⟩, out0, nr0⟩).out = out0 ++ ts ∧
        confTranscript reply P cs st0 k0 out0 nr0 = ⟨confScript reply k0 ts, ts.map (fun _ => WriteEv.ok)⟩) := by
  obtain ⟨h1, h2, h3⟩ := script_attribution reply P hc cs hcs st0 h0 k0 out0 nr0
  obtain ⟨g1, g2⟩ := proj_hist P (confDev reply) cs (recStart st0 k0 out0 nr0)
  have hproj : projW (recStart st0 k0 out0 nr0) = ⟨st0, ⟨[], k0⟩, out0, nr0⟩ := rfl
  rw [hproj] at g1 g2
  refine ⟨by rw [h1]; rfl, fun o ho => ?_, fun hp => ?_⟩
  · obtain ⟨a1, a2, a3, od, hod, hpair⟩ := h3 o ho
    obtain ⟨oc, hoc, c1, c2, c3, c4⟩ := g2 od hod
    refine ⟨a1, a2, fun hp => ?_, oc, hoc, ?_, ?_, ?_, ?_⟩
    · obtain ⟨ts, e1, e2, -⟩ := a3 hp
      exact ⟨ts, e1, e2⟩
    · rw [hpair.1, c1]
    · rw [hpair.2.1, c2]
    · rw [hpair.2.2.1, c3]
    · rw [hpair.2.2.2.1, c4]; rfl
  · rw [g1] at hp ⊢
    obtain ⟨ts, e1, e2⟩ := h2 hp
    exact ⟨ts, e1, e2⟩

open Ebb3Gen in
/-- **Attribution (regenerated code).**  Take any history `cs` of in-domain request calls (all 35 request methods of
`EBB3` / `EBBMotionWrap`), a conforming `reply` with respect to the constants read from the source, and a world of
the regenerated code with well-formed attributes and no error whose port plays the script a conforming device produces
for the requests this history sends (`confTranscript … (absSt w.obj) k0 w.port.log w.port.nread`, ASCII lines; the
model's raise outcome — which does not occur in it — would be a `SerialException`).  Then, on the regenerated methods:
* the history runs to its end (no call runs out of fuel) and every call returns a value — no exception;
* after every call no error is recorded, and while the port is open what has been consumed from the script so far is
  exactly `confScript reply k0 ts` for the texts `ts` the calls so far handed to `write`: each reply was consumed by the
  request that caused it, and no line is left unread between calls;
* at the end the script is used up: no read outcome and no write outcome is left. -/
theorem C05_gen_attribution (fuel : Nat) (reply : Nat → Str → Nat × Str) (hc : Conforming srcParams reply)
    (cs : List Call) (hcs : ∀ c ∈ cs, Covered fuel c ∧ c.method.isRequest = true ∧ c.InDomain)
    (w : PyObj.World Gen.EBB3_Obj) (ho : ObjOk w.obj) (he : w.obj.err = .none) (k0 : Nat)
    (ha : AsciiScript (confTranscript reply srcParams cs (absSt w.obj) k0 w.port.log w.port.nread))
    (hr : w.port.reads = (confTranscript reply srcParams cs (absSt w.obj) k0 w.port.log w.port.nread).reads.map encRd)
    (hw : w.port.writes = (confTranscript reply srcParams cs (absSt w.obj) k0 w.port.log w.port.nread).writes.map encWr) :
    (genCalls fuel cs w).length = cs.length ∧
    (∀ o ∈ genCalls fuel cs w, ∃ v w', o = .val v w' ∧ w'.obj.err = .none ∧
      (w'.obj.port = .port → ∃ ts, w'.port.log = w.port.log ++ ts ∧
        confScript reply k0 ts ++ (absWorld w').dev.reads = (absWorld w).dev.reads)) ∧
    ∃ wF, genFinal fuel cs w = some wF ∧ wF.port.reads = [] ∧ wF.port.writes = [] ∧ wF.obj.err = .none := by
  have hg : Good w := good_of_script w ho _ ha hr hw
  have habs := absWorld_of_script w _ hr hw
  have hst0 : (absSt w.obj).err = Option.none := by simp [absSt, he, absOpt]
  have hcov : ∀ c ∈ cs, Covered fuel c := fun c hc' => (hcs c hc').1
  have henv : ∀ c ∈ cs, Env c w := by
    intro c hc'
    have hreq := (hcs c hc').2.1
    cases c <;> first | trivial | exact rebootW_of_script w _ hw | (simp [Call.method, Method.isRequest] at hreq)
  have hpre := histPre_of_env fuel cs w henv
  obtain ⟨m1, m2, -⟩ := C05_script_attribution srcParams reply hc cs (fun c hc' => (hcs c hc').2)
    (absSt w.obj) hst0 k0 w.port.log w.port.nread
  rw [← habs] at m1 m2
  obtain ⟨hlen, hmem⟩ := callsSim_mem (gen_calls_sim fuel cs w hcov hg hpre)
  refine ⟨by rw [hlen, runCalls_length], fun o ho' => ?_, ?_⟩
  · obtain ⟨m, hm, hsim⟩ := hmem o ho'
    obtain ⟨⟨v, hv⟩, herr, hcons, -⟩ := m2 m hm
    rw [hv] at hsim
    obtain ⟨w', e1, e2, hg'⟩ := sim_val hsim
    refine ⟨_, w', e1, ?_, fun hp => ?_⟩
    · have h1 : (absWorld w').st.err = Option.none := by rw [e2]; exact herr
      exact absOpt_none hg'.obj.err h1
    · have hpt : m.world.st.port = true := by rw [← e2]; exact port_of_absSt _ hp
      obtain ⟨ts, t1, t2⟩ := hcons hpt
      refine ⟨ts, ?_, ?_⟩
      · have h2 : (absWorld w').out = m.world.out := by rw [e2]
        exact h2.trans t1
      · rw [e2, t2, habs]
  · obtain ⟨wF, f1, f2, hgF⟩ := gen_final_sim fuel cs w hcov hg hpre
    have hdev : (absWorld wF).dev = ⟨[], []⟩ := by rw [f2]; exact m1
    have hr0 : wF.port.reads.map absRd = [] := congrArg (fun x => x.reads) hdev
    have hw0 : wF.port.writes.map absWr = [] := congrArg (fun x => x.writes) hdev
    refine ⟨wF, f1, List.map_eq_nil_iff.mp hr0, List.map_eq_nil_iff.mp hw0, ?_⟩
    have hfin := (script_attribution reply srcParams hc cs (fun c hc' => (hcs c hc').2) (absSt w.obj) hst0 k0
      w.port.log w.port.nread).1
    rw [← habs, ← f2] at hfin
    have herrF : (absWorld wF).st.err = Option.none := by
      rw [hfin]
      exact (attribution_rec reply srcParams hc ⟨k0, w.port.log, [], []⟩ cs (fun c hc' => (hcs c hc').2) _
        ⟨hst0, fun _ => ⟨rfl, [], by simp [recStart], by simp [recStart], by simp [recStart, confScript],
          by simp [recStart]⟩⟩).1.1
    exact absOpt_none hgF.obj.err herrF

open Ebb3Gen in
/-- the hypotheses of `C05_gen_attribution` are satisfiable: a three-call history against `demoReply` -/
example : ∃ (w : PyObj.World Gen.EBB3_Obj) (cs : List Call), cs.length = 3 ∧
    (∀ c ∈ cs, Covered 26 c ∧ c.method.isRequest = true ∧ c.InDomain) ∧ ObjOk w.obj ∧ w.obj.err = .none ∧
    AsciiScript (confTranscript demoReply srcParams cs (absSt w.obj) 0 w.port.log w.port.nread) ∧
    w.port.reads = (confTranscript demoReply srcParams cs (absSt w.obj) 0 w.port.log w.port.nread).reads.map encRd ∧
    w.port.writes = (confTranscript demoReply srcParams cs (absSt w.obj) 0 w.port.log w.port.nread).writes.map encWr := by
  refine ⟨⟨{ Gen.EBB3_Obj.init with port := .port },
    ⟨[.line "QG,1,1".toList, .line "CS,1,1".toList, .line "QS,1,1".toList], [.ok, .ok, .ok], [], 0⟩, {}⟩,
    [.query_statusbyte, .clear_steps, .query_steps], rfl, ?_,
    ⟨Or.inl rfl, trivial, trivial, Or.inl rfl, trivial, trivial, trivial⟩, rfl, ?_, ?_, ?_⟩
  · intro c hc
    simp only [List.mem_cons, List.mem_nil_iff, or_false] at hc
    rcases hc with rfl | rfl | rfl <;> exact ⟨⟨rfl, trivial, Nat.le_refl _⟩, rfl, trivial⟩
  · have h : absSt ({ Gen.EBB3_Obj.init with port := .port } : Gen.EBB3_Obj) = { St.init with port := true } := rfl
    show AsciiScript (confTranscript demoReply srcParams _ (absSt _) 0 [] 0)
    rw [h, demoTranscript]
    intro s hs
    simp only [List.mem_cons, List.mem_nil_iff, or_false, ReadEv.line.injEq] at hs
    rcases hs with rfl | rfl | rfl <;> decide
  · have h : absSt ({ Gen.EBB3_Obj.init with port := .port } : Gen.EBB3_Obj) = { St.init with port := true } := rfl
    show _ = (confTranscript demoReply srcParams _ (absSt _) 0 [] 0).reads.map encRd
    rw [h, demoTranscript]
    rfl
  · have h : absSt ({ Gen.EBB3_Obj.init with port := .port } : Gen.EBB3_Obj) = { St.init with port := true } := rfl
    show _ = (confTranscript demoReply srcParams _ (absSt _) 0 [] 0).writes.map encWr
    rw [h, demoTranscript]
    rfl

end Plotink
