import Plotink.Proofs.C15Connect
import Plotink.Proofs.C15Legacy
import Plotink.Proofs.C15GenTop

/-! # C15 — firmware version gating uses numeric version order and blocks unsupported boards

Model: `Plotink/Model/C15.lean` (hand-written, tied to `ebb3_serial.py`, `ebb_serial.py`, `ebb_motion.py` by the
correspondence run of `harness/c15.py`).  `vle` is the Spec order (numeric, component by component, a missing
component counting as 0); `versionGe` is what the code computes (`packaging`'s key comparison: trailing
zeros removed, then tuple comparison) and is the single definition called by both layers
(`minVersion3` for `EBB3.min_version`, `lminVersion` for `ebb_serial.min_version`). -/

namespace Plotink
open C15

/-- The version order is a total preorder, antisymmetric up to trailing zeros, characterised by the first
differing component; on triples it is the lexicographic order of the three numbers; and the comparison the
code performs (`versionGe`, both layers) computes exactly this order. -/
theorem C15_order :
    (∀ a, vle a a = true) ∧
    (∀ a b, vle a b = true ∨ vle b a = true) ∧
    (∀ a b c, vle a b = true → vle b c = true → vle a c = true) ∧
    (∀ a b, vle a b = true → vle b a = true → ∀ i, a.getD i 0 = b.getD i 0) ∧
    (∀ a b, vle a b = false ↔ ∃ i, (∀ j, j < i → a.getD j 0 = b.getD j 0) ∧ b.getD i 0 < a.getD i 0) ∧
    (∀ a b c x y z : Nat, vle [a, b, c] [x, y, z] = true ↔ a < x ∨ (a = x ∧ (b < y ∨ (b = y ∧ c ≤ z)))) ∧
    (∀ a b, versionGe a b = vle b a) :=
  ⟨vle_refl, vle_total, fun _ _ _ => vle_trans, fun _ _ => vle_antisymm, vle_false_iff, vle_triple,
    versionGe_eq_vle⟩

/-- Rendering a release as dot-separated decimals and parsing it back is the identity, for every non-empty
list of naturals (any number of digits) — in particular for all triples `a.b.c`. -/
theorem C15_roundtrip (l : List Nat) (hl : l ≠ []) : parseVersion (render l) = some l :=
  parseVersion_render l hl

example : parseVersion (render [2, 10, 0]) = some [2, 10, 0] := C15_roundtrip _ (by simp)

/-- Comparing two rendered triples with the code's comparison is the lexicographic comparison of the numbers. -/
theorem C15_triples (a b c x y z : Nat) :
    (∃ v g, parseVersion (render [a, b, c]) = some v ∧ parseVersion (render [x, y, z]) = some g ∧
      (versionGe v g = true ↔ x < a ∨ (x = a ∧ (y < b ∨ (y = b ∧ z ≤ c))))) := by
  refine ⟨[a, b, c], [x, y, z], C15_roundtrip _ (by simp), C15_roundtrip _ (by simp), ?_⟩
  rw [versionGe_eq_vle]
  exact vle_triple x y z a b c

/-- 2.10.0 is newer than 2.9.9 (and not the other way round) under the comparison the code uses. -/
example : versionGe [2, 10, 0] [2, 9, 9] = true ∧ versionGe [2, 9, 9] [2, 10, 0] = false := by decide

/-- Both layers decide "at least `thr`" by the same function of the same two texts: for a reply whose version
text parses to `v` and a threshold that parses to `g`, `EBB3.min_version` returns `vle g v` and
`ebb_serial.min_version` returns `vle g v`. -/
theorem C15_layers (P : Params) (st : St) (io : Io) (thr : Str) (v g : List Nat)
    (hg : parseVersion thr = some g) :
    (st.vparsed = some v → minVersion3 st thr = .ok (vle g v)) ∧
    (∀ io1 reply, lquery P io vQuery = (io1, .ok reply) → versionOf reply = some v →
      (lminVersion P io thr).2 = .ok (some (vle g v))) := by
  constructor
  · intro hv
    simp [minVersion3, hg, hv, versionGe_eq_vle]
  · intro io1 reply hq hv
    unfold versionOf at hv
    cases hvt : versionText reply with
    | none => simp [hvt] at hv
    | some t =>
      simp only [hvt, Option.bind_some] at hv
      simp [lminVersion, hq, hvt, hv, hg, versionGe_eq_vle]

example : minVersion3 { St.fresh with vparsed := some [2, 10, 0] } "2.9.9".toList = .ok true := by decide

/-- `connect` on a disconnected object that has no stale version returns `True` only if the device identified
itself as an EBB within the two probes and the version in that reply parsed to at least the minimum. -/
theorem C15_connect_true (P : Params) (st : St) (given found caller : Option Str) (io : Io)
    (hp : st.port = false) (hv : st.vparsed = none)
    (hres : (connect P st given found caller io).res = .ok true) :
    ∃ s v m, Identifies io s ∧ versionOf s = some v ∧ parseVersion P.minVersion = some m ∧ vle m v = true := by
  obtain ⟨s, m, hs, hm, h | ⟨_, v, hv', _⟩⟩ := connect_true_general P st given found caller io hp hres
  · obtain ⟨v, h1, h2⟩ := h
    exact ⟨s, v, m, hs, h1, hm, h2⟩
  · rw [hv] at hv'; simp at hv'

/-- non-vacuity: a conforming 3.0.2 board is accepted with no error; what is sent after the identification
is the syntax-mode command and the nickname query. -/
example :
    let io : Io := ⟨[], [.line "EBBv13_and_above EB Firmware Version 3.0.2\r\n".toList, .line "CU\r\n".toList,
      .line "QT,Bob\r\n".toList], [], []⟩
    let out := connect Params.std St.fresh none (some "/dev/ttyACM0".toList) none io
    out.res = .ok true ∧ out.st.err = none ∧ out.st.name = some "Bob".toList ∧
      out.io.written = ["v\r".toList, "CU,10,1\r".toList, "QT\r".toList] := by decide

/-- the general form (any previous state of a disconnected object): the accepted version is the one in the
identifying reply, or — only when that reply has no `Firmware Version ` text — a stale one -/
theorem C15_connect_true_general (P : Params) (st : St) (given found caller : Option Str) (io : Io)
    (hp : st.port = false) (hres : (connect P st given found caller io).res = .ok true) :
    ∃ s m, Identifies io s ∧ parseVersion P.minVersion = some m ∧
      ((∃ v, versionOf s = some v ∧ vle m v = true) ∨
       (versionText s = none ∧ ∃ v, st.vparsed = some v ∧ vle m v = true)) :=
  connect_true_general P st given found caller io hp hres

/-- For every rejection scenario of the statement (port cannot be opened; a `SerialException` during the
probes; silence or a non-EBB device on both probes; an EBB whose version is below the minimum) — and when no
port was located — `connect` returns `False`, an error is recorded, the object is blocked for every later
request, and what reached the device is at most two `v\r` probes (none at all when the port did not open). -/
theorem C15_connect_false (P : Params) (st : St) (given found caller : Option Str) (io : Io) (m : List Nat)
    (hp : st.port = false) (hm : parseVersion P.minVersion = some m)
    (hrej : found = none ∨ Rejected m io) :
    let out := connect P st given found caller io
    out.res = .ok false ∧ out.st.err ≠ none ∧ blocked out.st = true ∧
    (∃ k, k ≤ 2 ∧ out.io.written = io.written ++ List.replicate k vProbe ∧
      (found = none ∨ openAt io 0 = false → k = 0)) ∧
    (∀ io', requestWhenBlocked out.st io' = some (out.st, io')) := by
  intro out
  obtain ⟨h1, h2, h3, h4⟩ := connect_false P st given found caller io m hp hm hrej
  refine ⟨h1, h2, h3, h4, fun io' => ?_⟩
  unfold requestWhenBlocked
  rw [if_pos h3]

/-- non-vacuity: firmware 2.10.0 is an instance of `oldFirmware` against the extracted minimum 3.0.2 -/
example : Rejected [3, 0, 2]
    ⟨[], [.line "EBBv13_and_above EB Firmware Version 2.10.0\r\n".toList], [], []⟩ :=
  .oldFirmware "EBBv13_and_above EB Firmware Version 2.10.0".toList [2, 10, 0] (by decide) (by decide) (by decide)

example : Rejected [3, 0, 2] ⟨[], [.empty, .line "Marlin 1.0\r\n".toList], [], []⟩ :=
  .notEbb (by decide) (by decide)

example : Rejected [3, 0, 2] ⟨[false], [], [], []⟩ := .openFail (by decide)

/-- on a fresh script the written bytes are a prefix of `["v\r","v\r"]` -/
theorem C15_connect_false_prefix (P : Params) (st : St) (given found caller : Option Str) (io : Io) (m : List Nat)
    (hp : st.port = false) (hm : parseVersion P.minVersion = some m)
    (hrej : found = none ∨ Rejected m io) (hw : io.written = []) :
    (connect P st given found caller io).io.written <+: [vProbe, vProbe] := by
  obtain ⟨_, _, _, ⟨k, hk, hwr, _⟩, _⟩ := C15_connect_false P st given found caller io m hp hm hrej
  rw [hwr, hw, List.nil_append]
  have : k = 0 ∨ k = 1 ∨ k = 2 := by omega
  rcases this with rfl | rfl | rfl
  · exact ⟨[vProbe, vProbe], rfl⟩
  · exact ⟨[vProbe], rfl⟩
  · exact ⟨[], rfl⟩

example : (connect Params.std St.fresh none (some "p".toList) none
    ⟨[], [.empty, .line "Marlin 1.0\r\n".toList], [], []⟩).io.written = [vProbe, vProbe] := by decide

/-- The scenario split is exhaustive: every script is one of the rejection scenarios, or identifies an EBB whose
reply carries a version at least the minimum, or identifies an EBB whose reply has no release-only version text
(the class the property leaves out). -/
theorem C15_scenarios (m : List Nat) (io : Io) :
    Rejected m io ∨ ∃ s, Identifies io s ∧ (versionOf s = none ∨ ∃ v, versionOf s = some v ∧ vle m v = true) :=
  scenarios_exhaustive m io

/-- Each gated legacy feature puts on the wire nothing, the version query `V\r`, or `V\r` followed by its own
command; the command is there only when the board's version reply (the first non-silent read outcome) parses
to a version at least the feature's gate.  Holds for every script, every retry limit, every no-OK list, and
whether or not the retry loop of `ebb_serial.query` decodes (DESIGN §9 F5). -/
theorem C15_gates (P : Params) (io : Io) :
    (∀ verbose, GateShape io (lqueryNickname P io verbose).1 P.gateNickQuery "QT\r".toList) ∧
    (∀ nick, GateShape io (lwriteNickname P io nick).1 P.gateNickWrite ("ST,".toList ++ nick ++ ['\r'])) ∧
    GateShape io (lreboot P io).1 P.gateReboot "RB\r".toList ∧
    GateShape io (lqueryVoltage P io).1 P.gateVoltage "QC\r".toList ∧
    (∀ t s, GateShape io (lservoTimeout P io t s).1 P.gateServo (srCmd t s)) :=
  ⟨gate_queryNickname P io, gate_writeNickname P io, gate_reboot P io, gate_queryVoltage P io,
    gate_servoTimeout P io⟩

/-- non-vacuity: firmware 2.6.0 gets the `SR` command, 2.5.10 does not -/
example :
    (lservoTimeout Params.std ⟨[], [.line "EBBv13_and_above EB Firmware Version 2.6.0\r\n".toList], [], []⟩
      60000 none).1.written = ["V\r".toList, "SR,60000\r".toList] ∧
    (lservoTimeout Params.std ⟨[], [.line "EBBv13_and_above EB Firmware Version 2.5.10\r\n".toList], [], []⟩
      60000 none).1.written = ["V\r".toList] := by decide

/-- The literals of the pinned source, as parsed by the model's own parser (the harness compares
`Params.std` with the literals it re-reads from the source on every run). -/
theorem C15_params :
    parseVersion Params.std.minVersion = some [3, 0, 2] ∧
    parseVersion Params.std.gateNickQuery = some [2, 5, 5] ∧
    parseVersion Params.std.gateNickWrite = some [2, 5, 5] ∧
    parseVersion Params.std.gateReboot = some [2, 5, 5] ∧
    parseVersion Params.std.gateVoltage = some [2, 2, 3] ∧
    parseVersion Params.std.gateServo = some [2, 6, 0] := by decide


/-! ## The same properties about the code REGENERATED from the source on every run

`Gen.ebb_serial_min_version`, `Gen.ebb_serial_reboot`, …, `Gen.EBB3_connect` are produced by `translator/pyio2lean.py`
from `plotink/ebb_serial.py`, `ebb_motion.py`, `ebb3_serial.py`; the version literals below are the ones standing in
that code (a changed literal, comparison or statement order changes the generated definition and these proofs stop
checking).  Scripts: faults are serial I/O exceptions, lines are ASCII (`PortOk`); version texts have no leading `v`
(`NoV`: the runtime's `parse` rejects one).  `fuel ≥ 101` covers the retry loops. -/

open C15Gen PyObj Gen in
/-- **Both layers, regenerated**: on a board whose version reply carries the release `v`, the regenerated legacy
`min_version(port, thr)` and the regenerated `EBB3.parse_version(reply)` followed by `EBB3.min_version(thr)` both return
`vle g v` (the Spec order of `C15_order`) for a threshold text that parses to `g`. -/
theorem C15_gen_layers (fuel : Nat) (hf : 101 ≤ fuel) (thr : List Char) (g v : List Nat) (hthr : NoV thr)
    (hg : parseVersion thr = some g) :
    (∀ (w : World NoObj) (reply : List Char), PortOk w.port → NoVScript (absIo w.port).reads →
      (lquery genParams (absIo w.port) vQuery).2 = .ok reply → versionOf reply = some v →
      ∃ p', ebb_serial_min_version fuel .port (.str thr) w = .val (.bool (vle g v)) { w with port := p' }) ∧
    (∀ (st : St) (p : PyIO.Port) (ext : Ext) (reply t : List Char), versionText reply = some t → NoV t →
      parseVersion t = some v →
      ∃ st1, EBB3_parse_version fuel (.str reply) ⟨encSt st, p, ext⟩ = .val .none ⟨encSt st1, p, ext⟩ ∧
        EBB3_min_version fuel (.str thr) ⟨encSt st1, p, ext⟩ = .val (.bool (vle g v)) ⟨encSt st1, p, ext⟩) :=
  layers_gen fuel hf thr g v hthr hg

open C15Gen PyObj Gen in
/-- **Numeric order, regenerated, on all triples**: with the reply's version text `a.b.c` and the threshold text
`x.y.z` (decimal renderings of arbitrary naturals), the regenerated `EBB3` layer answers "at least" exactly when
`(x, y, z) ≤ (a, b, c)` lexicographically — and so does the regenerated legacy layer (`C15_gen_layers`). -/
theorem C15_gen_order (fuel : Nat) (hf : 101 ≤ fuel) (a b c x y z : Nat)
    (st : St) (p : PyIO.Port) (ext : Ext) (reply : List Char) (hr : versionText reply = some (render [a, b, c])) :
    ∃ st1 r, EBB3_parse_version fuel (.str reply) ⟨encSt st, p, ext⟩ = .val .none ⟨encSt st1, p, ext⟩ ∧
      EBB3_min_version fuel (.str (render [x, y, z])) ⟨encSt st1, p, ext⟩ = .val (.bool r) ⟨encSt st1, p, ext⟩ ∧
      (r = true ↔ x < a ∨ (x = a ∧ (y < b ∨ (y = b ∧ z ≤ c)))) := by
  obtain ⟨st1, h1, h2⟩ := (layers_gen fuel hf (render [x, y, z]) [x, y, z] [a, b, c] (noV_render _ (by simp))
    (C15_roundtrip _ (by simp))).2 st p ext reply _ hr (noV_render _ (by simp)) (C15_roundtrip _ (by simp))
  exact ⟨st1, _, h1, h2, vle_triple x y z a b c⟩

open C15Gen PyObj Gen in
/-- **The gates, regenerated.**  Each regenerated gated feature, called on a port, ends (value or escaping exception,
never out of fuel) having attempted the version query `V\r`, or `V\r` and then its own command — the command only
when the board's version reply (the first non-silent read outcome) parses to at least the gate that stands in the
regenerated code: 2.5.5 (nickname query / write, reboot), 2.2.3 (voltage), 2.6.0 (servo timeout). -/
theorem C15_gen_gates (fuel : Nat) (hf : 101 ≤ fuel) (w : World NoObj) (hp : PortOk w.port)
    (hnov : NoVScript (absIo w.port).reads) :
    (∀ vb, ∃ p', outPort (ebb_serial_query_nickname fuel .port vb w) = some p' ∧
      GenGate w.port p' ['2', '.', '5', '.', '5'] ['Q', 'T', '\r']) ∧
    (∀ nick, PyIO.isAscii nick = true → ∃ p', outPort (ebb_serial_write_nickname fuel .port (.str nick) w) = some p' ∧
      GenGate w.port p' ['2', '.', '5', '.', '5'] (['S', 'T', ','] ++ nick ++ ['\r'])) ∧
    (∃ p', outPort (ebb_serial_reboot fuel .port w) = some p' ∧
      GenGate w.port p' ['2', '.', '5', '.', '5'] ['R', 'B', '\r']) ∧
    (∀ vb, ∃ p', outPort (ebb_motion_queryVoltage fuel .port vb w) = some p' ∧
      GenGate w.port p' ['2', '.', '2', '.', '3'] ['Q', 'C', '\r']) ∧
    (∀ t s vb, ∃ p', outPort (ebb_motion_servo_timeout fuel .port (.int t) (encOptInt s) vb w) = some p' ∧
      GenGate w.port p' ['2', '.', '6', '.', '0'] (srCmd t s)) :=
  ⟨fun vb => query_nickname_gen fuel hf vb w hp genParams genParams_ok sameName_V sameName_QT hnov,
   fun nick hn => write_nickname_gen fuel hf nick hn w hp genParams genParams_ok sameName_V hnov,
   reboot_gen fuel hf w hp genParams genParams_ok sameName_V hnov,
   fun vb => queryVoltage_gen fuel hf vb w hp genParams genParams_ok sameName_V sameName_QC hnov,
   fun t s vb => servo_timeout_gen fuel hf t s vb w hp genParams genParams_ok sameName_V hnov⟩

open C15Gen PyObj Gen in
/-- non-vacuity of the script hypotheses of the regenerated-code theorems: a prompt 2.6.0 board -/
example : let p : PyIO.Port := ⟨[.line "EBBv13_and_above EB Firmware Version 2.6.0\r\n".toList, .line "OK\r\n".toList], [], [], 0⟩
    PortOk p ∧ NoVScript (absIo p).reads := by
  intro p
  refine ⟨⟨⟨?_, ?_⟩, by decide⟩, ?_⟩
  · intro c hc; simp [p] at hc
  · intro c hc; simp [p] at hc
  · intro l t hl ht
    simp only [p, absIo, List.map, absRd, List.mem_cons, Rd.line.injEq, List.not_mem_nil, or_false] at hl
    rcases hl with rfl | rfl
    · have : versionText "EBBv13_and_above EB Firmware Version 2.6.0\r\n".toList = some "2.6.0".toList := by decide
      rw [this] at ht; cases ht; decide
    · have : versionText "OK\r\n".toList = none := by decide
      rw [this] at ht; cases ht

open C15Gen PyObj Gen in
/-- **`connect` returns `True` only for an identified, supported board — regenerated code.**  On a disconnected
object with no stale version, whatever `_get_port_name` located: if the regenerated `EBB3.connect` returns `True`
then a reply within the two probes contained `EBB` and its version parsed to at least 3.0.2 (the literal in the
regenerated code). -/
theorem C15_gen_connect_true (fuel : Nat) (st : St) (hp : st.port = false) (hvp : st.vparsed = none)
    (given found caller : Option (List Char)) (p : PyIO.Port) (ext : Ext) (hok : PortOk p)
    (hloc : EBB3__get_port_name fuel (optStr given) ⟨encSt st, p, ext⟩
      = .val .none ⟨encSt (locSt st given found), p, ext⟩)
    (w' : World EBB3_Obj)
    (hres : EBB3_connect fuel (optStr given) (optStr caller) ⟨encSt st, p, ext⟩ = .val (.bool true) w') :
    ∃ s v, Identifies (ioOf ext p) s ∧ versionOf s = some v ∧ vle [3, 0, 2] v = true :=
  connect_true_gen fuel st hp hvp given found caller p ext hok hloc w' hres

open C15Gen PyObj Gen in
/-- **Every rejection scenario is refused — regenerated code.**  No port located, the port cannot be opened, a serial
I/O exception during the probes, no `EBB` in either reply, or an EBB older than 3.0.2: the regenerated `connect`
returns `False`, the object ends in exactly the state of the model's `connect` (an error is recorded, every later
request is blocked), and at most two `v\r` probes were attempted (none when the port did not open). -/
theorem C15_gen_connect_false (fuel : Nat) (st : St) (hp : st.port = false)
    (given found caller : Option (List Char)) (p : PyIO.Port) (ext : Ext) (hok : PortOk p)
    (hloc : EBB3__get_port_name fuel (optStr given) ⟨encSt st, p, ext⟩
      = .val .none ⟨encSt (locSt st given found), p, ext⟩)
    (hrej : found = none ∨ Rejected [3, 0, 2] (ioOf ext p))
    (hnov : ∀ s t, Identifies (ioOf ext p) s → versionText s = some t → NoV t) :
    ∃ p' k, EBB3_connect fuel (optStr given) (optStr caller) ⟨encSt st, p, ext⟩
        = .val (.bool false) ⟨encSt (connect genParams st given found caller (ioOf ext p)).st, p', ext⟩ ∧
      (connect genParams st given found caller (ioOf ext p)).st.err ≠ none ∧
      blocked (connect genParams st given found caller (ioOf ext p)).st = true ∧
      k ≤ 2 ∧ p'.log = p.log ++ List.replicate k vProbe ∧ (found = none ∨ ext.openOk = false → k = 0) :=
  connect_false_gen fuel st hp given found caller p ext hok hloc hrej hnov

open C15Gen PyObj Gen in
/-- on a fresh port log, what the regenerated `connect` attempted to write to a refused device is a prefix of
`["v\r", "v\r"]` -/
theorem C15_gen_connect_false_prefix (fuel : Nat) (st : St) (hp : st.port = false)
    (given found caller : Option (List Char)) (p : PyIO.Port) (ext : Ext) (hok : PortOk p) (hlog : p.log = [])
    (hloc : EBB3__get_port_name fuel (optStr given) ⟨encSt st, p, ext⟩
      = .val .none ⟨encSt (locSt st given found), p, ext⟩)
    (hrej : found = none ∨ Rejected [3, 0, 2] (ioOf ext p))
    (hnov : ∀ s t, Identifies (ioOf ext p) s → versionText s = some t → NoV t) :
    ∃ w', EBB3_connect fuel (optStr given) (optStr caller) ⟨encSt st, p, ext⟩ = .val (.bool false) w' ∧
      w'.port.log <+: [vProbe, vProbe] := by
  obtain ⟨p', k, e, _, _, hk, hl, _⟩ := connect_false_gen fuel st hp given found caller p ext hok hloc hrej hnov
  refine ⟨_, e, ?_⟩
  simp only [hl, hlog, List.nil_append]
  have : k = 0 ∨ k = 1 ∨ k = 2 := by omega
  rcases this with rfl | rfl | rfl
  · exact ⟨[vProbe, vProbe], rfl⟩
  · exact ⟨[vProbe], rfl⟩
  · exact ⟨[], rfl⟩

open C15Gen PyObj Gen in
/-- non-vacuity of the location hypothesis: for a given name, `_get_port_name` of the regenerated code does what
`locSt` says (`find_named(...)` is the input `ext.findNamed`) -/
theorem C15_gen_located (fuel : Nat) (g : List Char) (found : Option (List Char)) (st : St)
    (p : PyIO.Port) (ext : Ext) (hext : ext.findNamed = optStr found) :
    EBB3__get_port_name fuel (optStr (some g)) ⟨encSt st, p, ext⟩
      = .val .none ⟨encSt (locSt st (some g) found), p, ext⟩ :=
  get_port_name_named fuel g found st p ext hext

end Plotink
