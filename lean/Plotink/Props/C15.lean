import Plotink.Proofs.C15Connect
import Plotink.Proofs.C15Legacy

/-! # C15 — firmware version gating uses numeric version order and blocks unsupported boards

Model: `Plotink/Model/C15.lean` (hand-written, tied to `ebb3_serial.py`, `ebb_serial.py`, `ebb_motion.py` by the
correspondence run of `harness/c15.py`).  `vle` is the Spec order (numeric, component by component, a missing
component counting as 0); `versionGe` is what the code computes (`packaging`'s key comparison: trailing
zeros removed, then tuple comparison) and is the single definition called by both layers
(`minVersion3` for `EBB3.min_version`, `lminVersion` for `ebb_serial.min_version`). -/

namespace Plotink
open C15

/-- The version order is a total preorder, antisymmetric up to trailing zeros, characterised by the first
differing component; on triples it is the lexicographic order of the three numbers; and the comparison the
code performs (`versionGe`, both layers) computes exactly this order. -/
theorem C15_order :
    (∀ a, vle a a = true) ∧
    (∀ a b, vle a b = true ∨ vle b a = true) ∧
    (∀ a b c, vle a b = true → vle b c = true → vle a c = true) ∧
    (∀ a b, vle a b = true → vle b a = true → ∀ i, a.getD i 0 = b.getD i 0) ∧
    (∀ a b, vle a b = false ↔ ∃ i, (∀ j, j < i → a.getD j 0 = b.getD j 0) ∧ b.getD i 0 < a.getD i 0) ∧
    (∀ a b c x y z : Nat, vle [a, b, c] [x, y, z] = true ↔ a < x ∨ (a = x ∧ (b < y ∨ (b = y ∧ c ≤ z)))) ∧
    (∀ a b, versionGe a b = vle b a) :=
  ⟨vle_refl, vle_total, fun _ _ _ => vle_trans, fun _ _ => vle_antisymm, vle_false_iff, vle_triple,
    versionGe_eq_vle⟩

/-- Rendering a release as dot-separated decimals and parsing it back is the identity, for every non-empty
list of naturals (any number of digits) — in particular for all triples `a.b.c`. -/
theorem C15_roundtrip (l : List Nat) (hl : l ≠ []) : parseVersion (render l) = some l :=
  parseVersion_render l hl

example : parseVersion (render [2, 10, 0]) = some [2, 10, 0] := C15_roundtrip _ (by simp)

/-- Comparing two rendered triples with the code's comparison is the lexicographic comparison of the numbers. -/
theorem C15_triples (a b c x y z : Nat) :
    (∃ v g, parseVersion (render [a, b, c]) = some v ∧ parseVersion (render [x, y, z]) = some g ∧
      (versionGe v g = true ↔ x < a ∨ (x = a ∧ (y < b ∨ (y = b ∧ z ≤ c))))) := by
  refine ⟨[a, b, c], [x, y, z], C15_roundtrip _ (by simp), C15_roundtrip _ (by simp), ?_⟩
  rw [versionGe_eq_vle]
  exact vle_triple x y z a b c

/-- 2.10.0 is newer than 2.9.9 (and not the other way round) under the comparison the code uses. -/
example : versionGe [2, 10, 0] [2, 9, 9] = true ∧ versionGe [2, 9, 9] [2, 10, 0] = false := by decide

/-- Both layers decide "at least `thr`" by the same function of the same two texts: for a reply whose version
text parses to `v` and a threshold that parses to `g`, `EBB3.min_version` returns `vle g v` and
`ebb_serial.min_version` returns `vle g v`. -/
theorem C15_layers (P : Params) (st : St) (io : Io) (thr : Str) (v g : List Nat)
    (hg : parseVersion thr = some g) :
    (st.vparsed = some v → minVersion3 st thr = .ok (vle g v)) ∧
    (∀ io1 reply, lquery P io vQuery = (io1, .ok reply) → versionOf reply = some v →
      (lminVersion P io thr).2 = .ok (some (vle g v))) := by
  constructor
  · intro hv
    simp [minVersion3, hg, hv, versionGe_eq_vle]
  · intro io1 reply hq hv
    unfold versionOf at hv
    cases hvt : versionText reply with
    | none => simp [hvt] at hv
    | some t =>
      simp only [hvt, Option.bind_some] at hv
      simp [lminVersion, hq, hvt, hv, hg, versionGe_eq_vle]

example : minVersion3 { St.fresh with vparsed := some [2, 10, 0] } "2.9.9".toList = .ok true := by decide

/-- `connect` on a disconnected object that has no stale version returns `True` only if the device identified
itself as an EBB within the two probes and the version in that reply parsed to at least the minimum. -/
theorem C15_connect_true (P : Params) (st : St) (given found caller : Option Str) (io : Io)
    (hp : st.port = false) (hv : st.vparsed = none)
    (hres : (connect P st given found caller io).res = .ok true) :
    ∃ s v m, Identifies io s ∧ versionOf s = some v ∧ parseVersion P.minVersion = some m ∧ vle m v = true := by
  obtain ⟨s, m, hs, hm, h | ⟨_, v, hv', _⟩⟩ := connect_true_general P st given found caller io hp hres
  · obtain ⟨v, h1, h2⟩ := h
    exact ⟨s, v, m, hs, h1, hm, h2⟩
  · rw [hv] at hv'; simp at hv'

/-- non-vacuity: a conforming 3.0.2 board is accepted with no error; what is sent after the identification
is the syntax-mode command and the nickname query. -/
example :
    let io : Io := ⟨[], [.line "EBBv13_and_above EB Firmware Version 3.0.2\r\n".toList, .line "CU\r\n".toList,
      .line "QT,Bob\r\n".toList], [], []⟩
    let out := connect Params.std St.fresh none (some "/dev/ttyACM0".toList) none io
    out.res = .ok true ∧ out.st.err = none ∧ out.st.name = some "Bob".toList ∧
      out.io.written = ["v\r".toList, "CU,10,1\r".toList, "QT\r".toList] := by decide

/-- the general form (any previous state of a disconnected object): the accepted version is the one in the
identifying reply, or — only when that reply has no `Firmware Version ` text — a stale one -/
theorem C15_connect_true_general (P : Params) (st : St) (given found caller : Option Str) (io : Io)
    (hp : st.port = false) (hres : (connect P st given found caller io).res = .ok true) :
    ∃ s m, Identifies io s ∧ parseVersion P.minVersion = some m ∧
      ((∃ v, versionOf s = some v ∧ vle m v = true) ∨
       (versionText s = none ∧ ∃ v, st.vparsed = some v ∧ vle m v = true)) :=
  connect_true_general P st given found caller io hp hres

/-- For every rejection scenario of the statement (port cannot be opened; a `SerialException` during the
probes; silence or a non-EBB device on both probes; an EBB whose version is below the minimum) — and when no
port was located — `connect` returns `False`, an error is recorded, the object is blocked for every later
request, and what reached the device is at most two `v\r` probes (none at all when the port did not open). -/
theorem C15_connect_false (P : Params) (st : St) (given found caller : Option Str) (io : Io) (m : List Nat)
    (hp : st.port = false) (hm : parseVersion P.minVersion = some m)
    (hrej : found = none ∨ Rejected m io) :
    let out := connect P st given found caller io
    out.res = .ok false ∧ out.st.err ≠ none ∧ blocked out.st = true ∧
    (∃ k, k ≤ 2 ∧ out.io.written = io.written ++ List.replicate k vProbe ∧
      (found = none ∨ openAt io 0 = false → k = 0)) ∧
    (∀ io', requestWhenBlocked out.st io' = some (out.st, io')) := by
  intro out
  obtain ⟨h1, h2, h3, h4⟩ := connect_false P st given found caller io m hp hm hrej
  refine ⟨h1, h2, h3, h4, fun io' => ?_⟩
  unfold requestWhenBlocked
  rw [if_pos h3]

/-- non-vacuity: firmware 2.10.0 is an instance of `oldFirmware` against the extracted minimum 3.0.2 -/
example : Rejected [3, 0, 2]
    ⟨[], [.line "EBBv13_and_above EB Firmware Version 2.10.0\r\n".toList], [], []⟩ :=
  .oldFirmware "EBBv13_and_above EB Firmware Version 2.10.0".toList [2, 10, 0] (by decide) (by decide) (by decide)

example : Rejected [3, 0, 2] ⟨[], [.empty, .line "Marlin 1.0\r\n".toList], [], []⟩ :=
  .notEbb (by decide) (by decide)

example : Rejected [3, 0, 2] ⟨[false], [], [], []⟩ := .openFail (by decide)

/-- on a fresh script the written bytes are a prefix of `["v\r","v\r"]` -/
theorem C15_connect_false_prefix (P : Params) (st : St) (given found caller : Option Str) (io : Io) (m : List Nat)
    (hp : st.port = false) (hm : parseVersion P.minVersion = some m)
    (hrej : found = none ∨ Rejected m io) (hw : io.written = []) :
    (connect P st given found caller io).io.written <+: [vProbe, vProbe] := by
  obtain ⟨_, _, _, ⟨k, hk, hwr, _⟩, _⟩ := C15_connect_false P st given found caller io m hp hm hrej
  rw [hwr, hw, List.nil_append]
  have : k = 0 ∨ k = 1 ∨ k = 2 := by omega
  rcases this with rfl | rfl | rfl
  · exact ⟨[vProbe, vProbe], rfl⟩
  · exact ⟨[vProbe], rfl⟩
  · exact ⟨[], rfl⟩

example : (connect Params.std St.fresh none (some "p".toList) none
    ⟨[], [.empty, .line "Marlin 1.0\r\n".toList], [], []⟩).io.written = [vProbe, vProbe] := by decide

/-- The scenario split is exhaustive: every script is one of the rejection scenarios, or identifies an EBB whose
reply carries a version at least the minimum, or identifies an EBB whose reply has no release-only version text
(the class the property leaves out). -/
theorem C15_scenarios (m : List Nat) (io : Io) :
    Rejected m io ∨ ∃ s, Identifies io s ∧ (versionOf s = none ∨ ∃ v, versionOf s = some v ∧ vle m v = true) :=
  scenarios_exhaustive m io

/-- Each gated legacy feature puts on the wire nothing, the version query `V\r`, or `V\r` followed by its own
command; the command is there only when the board's version reply (the first non-silent read outcome) parses
to a version at least the feature's gate.  Holds for every script, every retry limit, every no-OK list, and
whether or not the retry loop of `ebb_serial.query` decodes (DESIGN §9 F5). -/
theorem C15_gates (P : Params) (io : Io) :
    (∀ verbose, GateShape io (lqueryNickname P io verbose).1 P.gateNickQuery "QT\r".toList) ∧
    (∀ nick, GateShape io (lwriteNickname P io nick).1 P.gateNickWrite ("ST,".toList ++ nick ++ ['\r'])) ∧
    GateShape io (lreboot P io).1 P.gateReboot "RB\r".toList ∧
    GateShape io (lqueryVoltage P io).1 P.gateVoltage "QC\r".toList ∧
    (∀ t s, GateShape io (lservoTimeout P io t s).1 P.gateServo (srCmd t s)) :=
  ⟨gate_queryNickname P io, gate_writeNickname P io, gate_reboot P io, gate_queryVoltage P io,
    gate_servoTimeout P io⟩

/-- non-vacuity: firmware 2.6.0 gets the `SR` command, 2.5.10 does not -/
example :
    (lservoTimeout Params.std ⟨[], [.line "EBBv13_and_above EB Firmware Version 2.6.0\r\n".toList], [], []⟩
      60000 none).1.written = ["V\r".toList, "SR,60000\r".toList] ∧
    (lservoTimeout Params.std ⟨[], [.line "EBBv13_and_above EB Firmware Version 2.5.10\r\n".toList], [], []⟩
      60000 none).1.written = ["V\r".toList] := by decide

/-- The literals of the pinned source, as parsed by the model's own parser (the harness compares
`Params.std` with the literals it re-reads from the source on every run). -/
theorem C15_params :
    parseVersion Params.std.minVersion = some [3, 0, 2] ∧
    parseVersion Params.std.gateNickQuery = some [2, 5, 5] ∧
    parseVersion Params.std.gateNickWrite = some [2, 5, 5] ∧
    parseVersion Params.std.gateReboot = some [2, 5, 5] ∧
    parseVersion Params.std.gateVoltage = some [2, 2, 3] ∧
    parseVersion Params.std.gateServo = some [2, 6, 0] := by decide

end Plotink
