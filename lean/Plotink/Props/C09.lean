import Plotink.Proofs.C09Loop
import Plotink.Proofs.C09Gen
import Plotink.Proofs.C09GenSS

/-! # C09 — vertex reduction keeps the path within tolerance of the original

Models: `C09.pointsInTol`, `C09.maxDistSq`, `C09.supersample` (`Model/C09.lean`, mirroring
`plot_utils.points_in_tolerance`, `max_dist_from_n_points` (squared), `supersample`).  Vertices are
values of an arbitrary type `α` with coordinates `xy : α → Pt`: equal coordinates do not make two
vertices the same object; "the same vertex objects, in order" is `List.Sublist`. -/

namespace Plotink
open C09

/-- The three-region formula (before the start / past the end / perpendicular) is the minimum over
`t ∈ [0,1]` of the squared distance from `p` to the point of parameter `t` of the segment: a lower
bound for every `t`, attained at some `t`. Holds for a zero-length segment too. -/
theorem C09_distSq_is_min (a b p : Pt) :
    (∀ t : Rat, 0 ≤ t → t ≤ 1 → distSq a b p ≤ atSq a b p t) ∧
    (∃ t : Rat, 0 ≤ t ∧ t ≤ 1 ∧ atSq a b p t = distSq a b p) :=
  ⟨fun t h0 h1 => distSq_le_atSq a b p t h0 h1, distSq_attained a b p⟩

/-- With at least 3 points neither function asserts, and the fast predicate is true exactly when every
interior point is at squared distance `< tol²` from the segment first–last, i.e. exactly when the
reference maximum (squared) is `< tol²`; for `tol ≥ 0` that is "maximum distance `< tol`" (`d` is the
non-negative root of the squared maximum — what `max_dist_from_n_points` returns). -/
theorem C09_pred_iff (pts : List Pt) (tol : Rat) (h : 3 ≤ pts.length) :
    ∃ ok m a b, pointsInTol pts tol = some ok ∧ maxDistSq pts = some m ∧
      pts.head? = some a ∧ pts.getLast? = some b ∧
      (ok = true ↔ ∀ p ∈ interior pts, distSq a b p < tol * tol) ∧
      (ok = true ↔ m < tol * tol) ∧
      (0 ≤ tol → ∀ d : Rat, 0 ≤ d → d * d = m → (ok = true ↔ d < tol)) := by
  obtain ⟨a, mid, b, rfl⟩ := shape_of_len pts (by omega)
  have hm : mid ≠ [] := by
    intro h0; subst h0; simp at h
  have hiff : (mid.all (ptOk a b (tol * tol)) = true ↔ maxList (mid.map (distSq a b)) < tol * tol) := by
    rw [all_ptOk_iff, maxList_lt_iff _ (by simpa using hm)]
    constructor
    · intro hall x hx
      obtain ⟨p, hp, rfl⟩ := List.mem_map.mp hx
      exact hall p hp
    · intro hall p hp
      exact hall _ (List.mem_map_of_mem hp)
  refine ⟨_, _, a, b, pointsInTol_shape a b mid hm tol, maxDistSq_shape a b mid hm, rfl,
    getLast?_shape a b mid, ?_, hiff, ?_⟩
  · rw [interior_cons_snoc]; exact all_ptOk_iff a b mid _
  · intro ht d hd hdm
    rw [hiff, ← hdm]
    constructor
    · intro hlt
      by_contra hge; push Not at hge
      nlinarith [mul_le_mul hge hge ht hd]
    · intro hlt; nlinarith [mul_lt_mul'' hlt hlt hd hd]

/-- Fewer than 3 points: both functions fail their `assert len(input_points) >= 3`. -/
theorem C09_pred_short (pts : List Pt) (tol : Rat) (h : pts.length < 3) :
    pointsInTol pts tol = none ∧ maxDistSq pts = none := by
  simp [pointsInTol, maxDistSq, h]

section
variable {α : Type} (xy : α → Pt)

/-- Lists of at most two vertices and non-positive tolerances are left unchanged. -/
theorem C09_noop (v : List α) (tol : Rat) (h : v.length ≤ 2 ∨ tol ≤ 0) :
    supersample xy v tol = some v := by
  unfold supersample
  rcases h with h | h
  · rw [if_pos h]
  · split_ifs <;> rfl

/-- Fuel `len(vertices)` suffices for both loops and `points_in_tolerance` is never called with fewer
than three points: the model never returns `none`. -/
theorem C09_fuel (v : List α) (tol : Rat) : ∃ r, supersample xy v tol = some r := by
  unfold supersample
  split_ifs with h1 h2
  · exact ⟨v, rfl⟩
  · exact ⟨v, rfl⟩
  · exact outer_total xy tol v.length v 0 (by omega) (by omega)

/-- Every deleted vertex lies in a run strictly between two survivors `a`, `b` and is closer than
`tol` (squared distance `< tol²`) to the segment `a b`; nothing else is deleted (`C09.Reduced`). -/
theorem C09_deleted_close (v r : List α) (tol : Rat) (h : supersample xy v tol = some r) :
    Reduced xy (tol * tol) v r := by
  unfold supersample at h
  split_ifs at h with h1 h2
  · cases h; exact Reduced.refl xy _ _
  · cases h; exact Reduced.refl xy _ _
  · have := (outer_spec xy tol _ _ _ _ h).2
    simpa using this

/-- The same, read with indices: the survivors are the vertices at a strictly increasing index list
`idx` from `0` to `len-1`; every index `k` not in `idx` (a deleted vertex) lies strictly between two
*consecutive* surviving indices `i < k < j`, and `v[k]` is at squared distance `< tol²` from the
segment `v[i] v[j]`. -/
theorem C09_deleted_close_index (v r : List α) (tol : Rat) (h : supersample xy v tol = some r) :
    ∃ idx : List Nat, idx.Pairwise (· < ·) ∧ r.map some = idx.map (fun i => v[i]?) ∧
      (v ≠ [] → idx.head? = some 0 ∧ idx.getLast? = some (v.length - 1)) ∧
      ∀ k p, v[k]? = some p → k ∉ idx →
        ∃ i j l1 l2 a b, idx = l1 ++ i :: j :: l2 ∧ i < k ∧ k < j ∧ v[i]? = some a ∧ v[j]? = some b ∧
          distSq (xy a) (xy b) (xy p) < tol * tol :=
  (C09_deleted_close xy v r tol h).index

/-- The result is an in-order subsequence of the same vertex objects that keeps the first and the
last vertex. -/
theorem C09_sublist (v r : List α) (tol : Rat) (h : supersample xy v tol = some r) :
    r.Sublist v ∧ r.head? = v.head? ∧ r.getLast? = v.getLast? :=
  have hr := C09_deleted_close xy v r tol h
  ⟨hr.sublist, hr.head?, hr.getLast?⟩

end

/-- non-vacuity: the hypotheses are satisfiable and the model computes something non-trivial -/
example : supersample (fun p : Pt => p) [(0,0), (1,0), (2,0), (3,5)] 1 = some [(0,0), (2,0), (3,5)] := by
  decide +kernel

/-! ## The same statements about the SOURCE-REGENERATED code

`Gen.points_in_tolerance` is regenerated from `plotink/plot_utils.py` by the translator on every run
(`lean/Plotink/Gen/points_in_tolerance.lean`; the `for` loop is a recursion over the item list, so no fuel). The
theorems below are about that definition in exact arithmetic (`Rounding.exact`). Coordinates and tolerance are Python
`int`s or `float`s in any mixture (`Py.IsNum v q`); `C09.EncPts Py.IsNum v pts` says that `v` is a list of 2-item
lists of such numbers. Proofs: `Proofs/C09Gen.lean` (one generated loop pass = `C09.ptOk`, induction on the list). -/

/-- **bridge** `Gen.points_in_tolerance = C09.pointsInTol` (`AssertionError` ↦ `err`), `int`/`float` mixtures -/
theorem C09_gen_bridge (amb : Nat) (pts : List Pt) (tol : Rat) (vp vt : Py.Val)
    (hp : EncPts Py.IsNum vp pts) (ht : Py.IsNum vt tol) :
    Gen.points_in_tolerance Rounding.exact amb vp vt = encOptBool (pointsInTol pts tol) :=
  points_in_tolerance_bridge Py.enc_isNum amb pts tol vp vt hp ht

/-- the bridge for the all-`float` encoding, as an equation between functions of the rationals -/
theorem C09_gen_bridge_flt (amb : Nat) (pts : List Pt) (tol : Rat) :
    Gen.points_in_tolerance Rounding.exact amb (encPts pts) (.flt tol) = encOptBool (pointsInTol pts tol) :=
  points_in_tolerance_bridge Py.enc_isFlt amb pts tol _ _ (encPts_isFlt pts) rfl

/-- `C09_pred_iff` for the regenerated code: with at least 3 points it returns a boolean, true exactly when every
interior point is at squared distance `< tol²` from the segment first–last, i.e. exactly when the reference maximum
(squared) is `< tol²`; for `tol ≥ 0`, "maximum distance `< tol`". -/
theorem C09_gen_pred_iff (amb : Nat) (pts : List Pt) (tol : Rat) (vp vt : Py.Val)
    (hp : EncPts Py.IsNum vp pts) (ht : Py.IsNum vt tol) (h : 3 ≤ pts.length) :
    ∃ ok m a b, Gen.points_in_tolerance Rounding.exact amb vp vt = .bool_ ok ∧ maxDistSq pts = some m ∧
      pts.head? = some a ∧ pts.getLast? = some b ∧
      (ok = true ↔ ∀ p ∈ interior pts, distSq a b p < tol * tol) ∧
      (ok = true ↔ m < tol * tol) ∧
      (0 ≤ tol → ∀ d : Rat, 0 ≤ d → d * d = m → (ok = true ↔ d < tol)) := by
  obtain ⟨ok, m, a, b, hpit, hmax, hh, hl, h1, h2, h3⟩ := C09_pred_iff pts tol h
  refine ⟨ok, m, a, b, ?_, hmax, hh, hl, h1, h2, h3⟩
  rw [C09_gen_bridge amb pts tol vp vt hp ht, hpit]
  rfl

/-- fewer than 3 points: the regenerated code fails its `assert` (`err`) -/
theorem C09_gen_pred_short (amb : Nat) (pts : List Pt) (tol : Rat) (vp vt : Py.Val)
    (hp : EncPts Py.IsNum vp pts) (ht : Py.IsNum vt tol) (h : pts.length < 3) :
    Gen.points_in_tolerance Rounding.exact amb vp vt = .err := by
  rw [C09_gen_bridge amb pts tol vp vt hp ht, (C09_pred_short pts tol h).1]
  rfl

/-- non-vacuity: a concrete list with `int` and `float` coordinates meets the hypotheses -/
example : EncPts Py.IsNum (.tup [.tup [.int 0, .int 0], .tup [.flt (1/2), .int 1], .tup [.int 2, .flt 0]])
      [(0, 0), (1/2, 1), (2, 0)] ∧ Py.IsNum (.int 2) 2 ∧ 3 ≤ [((0:Rat), (0:Rat)), (1/2, 1), (2, 0)].length :=
  ⟨⟨_, rfl, List.Forall₂.cons ⟨_, _, rfl, Or.inr ⟨0, rfl, by norm_num⟩, Or.inr ⟨0, rfl, by norm_num⟩⟩
      (List.Forall₂.cons ⟨_, _, rfl, Or.inl rfl, Or.inr ⟨1, rfl, by norm_num⟩⟩
        (List.Forall₂.cons ⟨_, _, rfl, Or.inr ⟨2, rfl, by norm_num⟩, Or.inl rfl⟩ List.Forall₂.nil))⟩,
    Or.inr ⟨2, rfl, by norm_num⟩, by decide⟩

/-! ## The regenerated `supersample`

`Gen.supersample` (`lean/Plotink/Gen/supersample.lean`) is regenerated from `plotink/plot_utils.py` on every run:
both `while` loops run on fuel (the outer loop uses one unit per pass and hands the remaining fuel to the inner
loop), the in-place slice deletion becomes rebinding, and the function returns `(None, vertices)` so the mutated
list is visible; `Py.Out.fuelOut` = fuel exhausted.  The theorems are about that definition in exact arithmetic.
Vertices are values of any type `α` with coordinates `xy : α → Pt` and a Python representation `enc : α → Py.Val`
as 2-item lists of `int`s/`float`s (`EncPt Py.IsNum (enc a) (xy a)`): distinct vertices may have equal coordinates.
The harness' driver passes fuel `2*len+5`; `len` is enough.  Proofs: `Proofs/C09GenSS.lean` (one generated pass of
each loop against one step of `C09.extend` / `C09.outer`, induction on fuel; fuel independence of the model). -/

section
variable {α : Type} (xy : α → Pt) (enc : α → Py.Val) (henc : ∀ a, EncPt Py.IsNum (enc a) (xy a))
  (amb : Nat) (tol : Rat) (vt : Py.Val) (ht : Py.IsNum vt tol)
include henc ht

/-- **bridge** `Gen.supersample = C09.supersample`: for every fuel `≥ len(vertices)` the regenerated code returns
`(None, the hand model's result)`, vertex by vertex the same encoded objects. -/
theorem C09_gen_ss_bridge (v : List α) (fuel : Nat) (hf : v.length ≤ fuel) :
    Gen.supersample Rounding.exact amb fuel (.tup (v.map enc)) vt = encOut enc (supersample xy v tol) :=
  supersample_bridge xy enc Py.enc_isNum henc amb tol vt ht v fuel hf

/-- fuel `len(vertices)` (a fortiori the `2*len+5` the driver passes) suffices and no `AssertionError` occurs:
the regenerated code returns `(None, list)` -/
theorem C09_gen_fuel (v : List α) (fuel : Nat) (hf : v.length ≤ fuel) :
    ∃ r : List α, Gen.supersample Rounding.exact amb fuel (.tup (v.map enc)) vt = .val (.tup [.none_, .tup (r.map enc)]) := by
  obtain ⟨r, hr⟩ := C09_fuel xy v tol
  exact ⟨r, by rw [C09_gen_ss_bridge xy enc henc amb tol vt ht v fuel hf, hr]; rfl⟩

/-- at most two vertices or a non-positive tolerance: the list comes back unchanged (whatever the fuel) -/
theorem C09_gen_noop (v : List α) (fuel : Nat) (h : v.length ≤ 2 ∨ tol ≤ 0) :
    Gen.supersample Rounding.exact amb fuel (.tup (v.map enc)) vt = .val (.tup [.none_, .tup (v.map enc)]) :=
  supersample_gen_noop xy enc Py.enc_isNum henc amb tol vt ht v fuel h

/-- every vertex deleted by the regenerated code lies in a run strictly between two survivors and is closer than
the tolerance to the segment joining them (`C09.Reduced`, and its index reading) -/
theorem C09_gen_deleted_close (v : List α) (fuel : Nat) (hf : v.length ≤ fuel) :
    ∃ r : List α, Gen.supersample Rounding.exact amb fuel (.tup (v.map enc)) vt = .val (.tup [.none_, .tup (r.map enc)]) ∧
      Reduced xy (tol * tol) v r ∧
      ∃ idx : List Nat, idx.Pairwise (· < ·) ∧ r.map some = idx.map (fun i => v[i]?) ∧
        (v ≠ [] → idx.head? = some 0 ∧ idx.getLast? = some (v.length - 1)) ∧
        ∀ k p, v[k]? = some p → k ∉ idx →
          ∃ i j l1 l2 a b, idx = l1 ++ i :: j :: l2 ∧ i < k ∧ k < j ∧ v[i]? = some a ∧ v[j]? = some b ∧
            distSq (xy a) (xy b) (xy p) < tol * tol := by
  obtain ⟨r, hr⟩ := C09_fuel xy v tol
  refine ⟨r, by rw [C09_gen_ss_bridge xy enc henc amb tol vt ht v fuel hf, hr]; rfl,
    C09_deleted_close xy v r tol hr, C09_deleted_close_index xy v r tol hr⟩

/-- the regenerated code returns an in-order sublist of the same vertices that keeps the first and the last -/
theorem C09_gen_sublist (v : List α) (fuel : Nat) (hf : v.length ≤ fuel) :
    ∃ r : List α, Gen.supersample Rounding.exact amb fuel (.tup (v.map enc)) vt = .val (.tup [.none_, .tup (r.map enc)]) ∧
      r.Sublist v ∧ r.head? = v.head? ∧ r.getLast? = v.getLast? := by
  obtain ⟨r, hr⟩ := C09_fuel xy v tol
  exact ⟨r, by rw [C09_gen_ss_bridge xy enc henc amb tol vt ht v fuel hf, hr]; rfl, C09_sublist xy v r tol hr⟩

end

/-- the bridge for the all-`float` encoding with the fuel the driver passes, as an equation between functions of
the rationals: `Gen.supersample (2*len+5) [[x, y], …] tol = (None, C09.supersample …)` -/
theorem C09_gen_ss_bridge_flt (amb : Nat) (v : List Pt) (tol : Rat) :
    Gen.supersample Rounding.exact amb (2 * v.length + 5) (encPts v) (.flt tol) =
      encOut encPt (supersample (fun p => p) v tol) := by
  rw [encPts_eq_map]
  exact supersample_bridge (fun p => p) encPt Py.enc_isFlt encPt_isFlt amb tol _ rfl v _ (by omega)

/-- non-vacuity: the hypotheses are met by concrete data, and the generated code really deletes a vertex -/
example : Gen.supersample Rounding.exact 53 13 (encPts [(0,0), (1,0), (2,0), (3,5)]) (.flt 1) =
    .val (.tup [.none_, encPts [(0,0), (2,0), (3,5)]]) := by
  have h := C09_gen_ss_bridge_flt 53 [(0,0), (1,0), (2,0), (3,5)] 1
  have hm : supersample (fun p : Pt => p) [(0,0), (1,0), (2,0), (3,5)] 1 = some [(0,0), (2,0), (3,5)] := by
    decide +kernel
  rw [hm] at h
  exact h

end Plotink
