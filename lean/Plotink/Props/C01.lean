import Plotink.Proofs.C01
import Plotink.Proofs.ContractIeee

/-! # C01 — timed-move prediction equals the firmware step-accumulator recurrence

The theorems are stated about the *generated* definitions `Gen.move_dist_lt`, `Gen.moveDistLM`,
`Gen.moveDistLMA` (regenerated from `plotink/ebb_calc.py` / `ebb_motion.py` on every run) against the
independent firmware recurrence of `Model/Firmware.lean` (`Fw.lt`, `Fw.ltSpec`, `Fw.ltClear`).

`R : Rounding` is the arithmetic the Python code runs on (binary64 `/`, mpmath at `prec` bits); the only
thing assumed about it is `ContractExact R`: a value representable with `p` significant bits is returned
unchanged by rounding to `p` bits (`Proofs/Contract.lean`; proved instances: `Rounding.exact` and the
round-to-nearest-even `Rounding.ieee` that the driver runs, `Proofs/ContractIeee.lean`).
`ambient` is the mpmath precision left behind by the caller. It is universally quantified and does not
occur on the right-hand sides: the generated code sets `prec := Py.dpsToPrec 30` itself (the
`mpmath.mp.dps = 30` statement) — deleting that statement makes `Gen.move_dist_lt` use `ambient` and
`C01_main` stops checking. -/

namespace Plotink
open Py Py.Val

/-- the accumulator argument: `"clear"` or an integer -/
def accArg : Option Int → Val
  | none => .str "clear"
  | some a => .int a

/-- Domain of the main theorem.

The property's domain is "every per-tick rate `|r_k| ≤ 2^31 - 1` for `k = 1..T`, `T` up to `2^32`,
start accumulator in `[0, 2^31)`". The proof only needs the *magnitude envelope* below, which the
per-tick condition implies: two consecutive ticks differ by `accel`, so `|accel| ≤ 2·(2^31-1)`, and
`rate = r_1 - accel + trunc(accel/2)` then gives `|rate| < 2^32` (`C01_envelope`, for `T ≥ 2`; for a
one-tick move the per-tick condition bounds only `rate + accel - trunc(accel/2)`, and `|accel| ≤ 2^32` is
the range of the command's signed 32-bit acceleration field — `C01_envelope_one`). So the theorem
covers strictly more than the property asks (`C01_main_ticks` is the statement with the per-tick
hypothesis). -/
structure ValidLT (rate accel T : Int) (acc : Option Int) : Prop where
  hT1 : 1 ≤ T
  hT : T ≤ 2 ^ 32
  hr : |rate| ≤ 2 ^ 32
  ha : |accel| ≤ 2 ^ 32
  hacc : ∀ a, acc = some a → 0 ≤ a ∧ a < 2 ^ 31

/-- closed forms of the recurrence: the rate at tick `k` is an arithmetic progression from the lowered
start rate, and twice the accumulated total is a quadratic in `T`. -/
theorem C01_closed (rate accel : Int) (T : Nat) (a0 : Int) :
    Fw.ltRate rate accel T = rate - Fw.tdiv accel 2 + T * accel ∧
    2 * Fw.ltTotal rate accel T a0 = 2 * a0 + 2 * T * (rate - Fw.tdiv accel 2) + accel * T * (T + 1) ∧
    Fw.ltTotal rate accel (T + 1) a0 = Fw.ltTotal rate accel T a0 + Fw.ltRate rate accel (T + 1) :=
  ⟨ltRate_closed rate accel T, ltTotal_closed rate accel T a0, ltTotal_succ rate accel T a0⟩

/-- the clear rule. `Fw.ltClear` looks at ticks 1 and 2 only; that is enough: every longer look-ahead
gives the same answer, and the answer is `2^31 - 1` exactly when the first non-zero per-tick rate of the
(unbounded) recurrence is negative, `0` otherwise (first non-zero rate positive, or no motion at all). -/
theorem C01_clear_iff (rate accel : Int) :
    (∀ fuel, 2 ≤ fuel →
      Fw.firstMotionBackward (Fw.ltRate rate accel) 1 fuel = Fw.firstMotionBackward (Fw.ltRate rate accel) 1 2) ∧
    (Fw.ltClear rate accel = 2 ^ 31 - 1 ↔
      ∃ k, 1 ≤ k ∧ Fw.ltRate rate accel k < 0 ∧ ∀ j, 1 ≤ j → j < k → Fw.ltRate rate accel j = 0) ∧
    (Fw.ltClear rate accel = 0 ↔
      ¬ ∃ k, 1 ≤ k ∧ Fw.ltRate rate accel k < 0 ∧ ∀ j, 1 ≤ j → j < k → Fw.ltRate rate accel j = 0) := by
  have key := firstMotionBackward_two_iff rate accel
  unfold BackwardFirst at key
  refine ⟨fun fuel hf => firstMotionBackward_fuel rate accel fuel hf, ?_, ?_⟩
  · rw [← key]; unfold Fw.ltClear Fw.two31
    by_cases h : Fw.firstMotionBackward (Fw.ltRate rate accel) 1 2 = true
    · simp [h]
    · simp [h]
  · rw [← key]; unfold Fw.ltClear Fw.two31
    by_cases h : Fw.firstMotionBackward (Fw.ltRate rate accel) 1 2 = true
    · simp [h]
    · simp [h]

/-- the per-tick range condition of the property implies the magnitude envelope of `ValidLT` (`T ≥ 2`) -/
theorem C01_envelope (rate accel : Int) (T : Nat) (hT : 2 ≤ T)
    (hticks : ∀ k, 1 ≤ k → k ≤ T → |Fw.ltRate rate accel k| ≤ 2 ^ 31 - 1) :
    |rate| ≤ 2 ^ 32 ∧ |accel| ≤ 2 ^ 32 := by
  have h1 := hticks 1 (le_refl _) (by omega)
  have h2 := hticks 2 (by omega) hT
  rw [ltRate_closed, abs_le] at h1 h2
  push_cast at h1 h2
  unfold Fw.tdiv at h1 h2
  constructor <;> rw [abs_le] <;> split at h1 <;> split at h2 <;> constructor <;> omega

/-- one-tick moves: the envelope follows from the tick-1 rate and the acceleration field's range -/
theorem C01_envelope_one (rate accel : Int) (ha : |accel| ≤ 2 ^ 32)
    (h1 : |Fw.ltRate rate accel 1| ≤ 2 ^ 31 - 1) : |rate| ≤ 2 ^ 32 := by
  rw [ltRate_closed, abs_le] at h1
  rw [abs_le] at ha
  push_cast at h1
  unfold Fw.tdiv at h1
  rw [abs_le]; split at h1 <;> constructor <;> omega

/-- **Main theorem.** On the valid domain, for every arithmetic meeting the exactness contract and every
ambient precision, the generated `move_dist_lt` returns exactly the firmware recurrence's
`(floor(total / 2^31), total mod 2^31)`, the total started from the given accumulator or, for `"clear"`,
from `Fw.ltClear`. -/
theorem C01_main {R : Rounding} {rate accel T : Int} {acc : Option Int}
    (hR : ContractExact R) (hv : ValidLT rate accel T acc) (ambient : Nat) :
    Gen.move_dist_lt R ambient (.int rate) (.int accel) (.int T) (accArg acc) =
      .tup [.int (Fw.ltSpec rate accel T.toNat acc).1, .int (Fw.ltSpec rate accel T.toNat acc).2] := by
  obtain ⟨hT1, hT, hr, ha, hacc⟩ := hv
  cases acc with
  | none =>
    simp only [accArg, Fw.ltSpec, Fw.two31]
    rw [move_dist_lt_clear hR ambient rate accel T ha, ← codeClear_eq_ltClear]
    exact move_dist_lt_core hR ambient rate accel T _ hT1 hT hr ha (codeClear_range rate accel)
  | some a =>
    simp only [accArg, Fw.ltSpec, Fw.two31]
    exact move_dist_lt_core hR ambient rate accel T a hT1 hT hr ha (hacc a rfl)

/-- the main theorem with the property's own domain predicate (per-tick rates in the signed 31-bit
range) in place of the magnitude envelope -/
theorem C01_main_ticks {R : Rounding} {rate accel T : Int} {acc : Option Int}
    (hR : ContractExact R) (hT1 : 1 ≤ T) (hT : T ≤ 2 ^ 32)
    (hacc : ∀ a, acc = some a → 0 ≤ a ∧ a < 2 ^ 31)
    (hticks : ∀ k : Nat, 1 ≤ k → (k : Int) ≤ T → |Fw.ltRate rate accel k| ≤ 2 ^ 31 - 1)
    (hone : T = 1 → |accel| ≤ 2 ^ 32) (ambient : Nat) :
    Gen.move_dist_lt R ambient (.int rate) (.int accel) (.int T) (accArg acc) =
      .tup [.int (Fw.ltSpec rate accel T.toNat acc).1, .int (Fw.ltSpec rate accel T.toNat acc).2] := by
  apply C01_main hR _ ambient
  by_cases h1 : T = 1
  · have ha := hone h1
    exact ⟨hT1, hT, C01_envelope_one rate accel ha (hticks 1 (le_refl _) (by omega)), ha, hacc⟩
  · obtain ⟨hr, ha⟩ := C01_envelope rate accel T.toNat (by omega) (fun k hk1 hk2 => hticks k hk1 (by omega))
    exact ⟨hT1, hT, hr, ha, hacc⟩

/-- position is the floor of the total over `2^31` and the remainder lies in `[0, 2^31)`: the Spec's pair
is the unique `(pos, rem)` with `total = pos·2^31 + rem`, `0 ≤ rem < 2^31` — and so is what the generated
code returns on the valid domain. -/
theorem C01_range {R : Rounding} {rate accel T : Int} {acc : Option Int}
    (hR : ContractExact R) (hv : ValidLT rate accel T acc) (ambient : Nat) :
    ∃ pos rem, Gen.move_dist_lt R ambient (.int rate) (.int accel) (.int T) (accArg acc) = .tup [.int pos, .int rem] ∧
      0 ≤ rem ∧ rem < 2 ^ 31 ∧
      pos * 2 ^ 31 + rem =
        Fw.ltTotal rate accel T.toNat (match acc with | some a => a | none => Fw.ltClear rate accel) := by
  have hm := C01_main hR hv ambient
  cases acc <;> exact ⟨_, _, hm, by simp only [Fw.ltSpec, Fw.two31]; omega,
    by simp only [Fw.ltSpec, Fw.two31]; omega, by simp only [Fw.ltSpec, Fw.two31]; omega⟩

/-- `moveDistLMA` is `move_dist_lt` (for all arguments whatsoever, any arithmetic, any ambient precision) -/
theorem C01_alias_lma (R : Rounding) (ambient : Nat) (rate accel time accum : Val) :
    Gen.moveDistLMA R ambient rate accel time accum = Gen.move_dist_lt R ambient rate accel time accum := rfl

/-- `moveDistLM` is the first component of `move_dist_lt` called with accumulator `0` (all arguments) … -/
theorem C01_alias_lm (R : Rounding) (ambient : Nat) (rate accel time : Val) :
    ∃ pos rem, Gen.move_dist_lt R ambient rate accel time (.int 0) = .tup [pos, rem] ∧
      Gen.moveDistLM R ambient rate accel time = pos := by
  unfold Gen.moveDistLM Gen.move_dist_lt
  by_cases h : Py.eq (Py.int_ time) (.int 0) = true
  · simp only [h, ↓reduceIte]; exact ⟨_, _, rfl, rfl⟩
  · simp only [h, Bool.false_eq_true, ↓reduceIte]; exact ⟨_, _, rfl, rfl⟩

/-- … hence, on the valid domain, the firmware recurrence's step position from a zero accumulator -/
theorem C01_alias_lm_spec {R : Rounding} {rate accel T : Int}
    (hR : ContractExact R) (hv : ValidLT rate accel T (some 0)) (ambient : Nat) :
    Gen.moveDistLM R ambient (.int rate) (.int accel) (.int T) = .int (Fw.ltSpec rate accel T.toNat (some 0)).1 := by
  obtain ⟨pos, rem, h1, h2⟩ := C01_alias_lm R ambient (.int rate) (.int accel) (.int T)
  have h3 := C01_main hR hv ambient
  simp only [accArg] at h3
  rw [h3] at h1
  rw [h2]
  injection h1 with h1
  injection h1 with h1 _
  exact h1.symm

/-- `time = 0` returns `(0, 0)` (outside the property's domain `T ≥ 1`; recorded for completeness) -/
theorem C01_zero (R : Rounding) (ambient : Nat) (rate accel : Int) (acc : Val) :
    Gen.move_dist_lt R ambient (.int rate) (.int accel) (.int 0) acc = .tup [.int 0, .int 0] :=
  move_dist_lt_zero R ambient rate accel acc

/-! ## non-vacuity -/

/-- the contract is satisfiable: by ideal arithmetic, and by the concrete round-to-nearest-even arithmetic
(`p` significant bits, unbounded exponent) that the correspondence run executes against CPython/mpmath … -/
example : ContractExact Rounding.exact ∧ ContractExact Rounding.ieee := ⟨contractExact_exact, contractExact_ieee⟩

set_option maxRecDepth 20000 in
/-- … the pinned test tuple `(8589934, 17353403, 85, "clear") ↦ (29, 1142286978)` is in the domain, its
per-tick rates are in range, and the recurrence gives the pinned answer … -/
example : ValidLT 8589934 17353403 85 none ∧ Fw.ltSpec 8589934 17353403 85 none = (29, 1142286978) := by
  refine ⟨⟨by norm_num, by norm_num, by norm_num, by norm_num, fun a h => by cases h⟩, by decide⟩

set_option maxRecDepth 20000 in
/-- … so the generated code returns it under every admissible arithmetic and ambient precision -/
example {R : Rounding} (hR : ContractExact R) (ambient : Nat) :
    Gen.move_dist_lt R ambient (.int 8589934) (.int 17353403) (.int 85) (.str "clear")
      = .tup [.int 29, .int 1142286978] := by
  have hv : ValidLT 8589934 17353403 85 none :=
    ⟨by norm_num, by norm_num, by norm_num, by norm_num, fun a h => by cases h⟩
  have h := C01_main hR hv ambient
  have e : Fw.ltSpec 8589934 17353403 (85 : Int).toNat none = (29, 1142286978) := by decide
  rw [e] at h
  exact h

/-- a backward start: first tick rate `-1` clears to `2^31 - 1` -/
example : Fw.ltClear (-1) 0 = 2147483647 ∧ Fw.ltClear 0 0 = 0 ∧ Fw.ltClear 1 (-2) = 2147483647 := by decide

/-- **argument type of the start accumulator, regenerated code**: an explicit start accumulator given as a float is the
integer `int()` makes of it (truncation toward zero; the same integer for an integral float) — it is never mistaken for
`"clear"`.  By computation on the regenerated definition (`rfl`). -/
theorem C01_gen_acc_float (R : Rounding) (amb : Nat) (rate accel T : Py.Val) (q : Rat) :
    Gen.move_dist_lt R amb rate accel T (.flt q) = Gen.move_dist_lt R amb rate accel T (.int (Py.intOfRat q)) := by rfl

end Plotink
