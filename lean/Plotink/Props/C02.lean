import Plotink.Proofs.C02Dist
import Plotink.Proofs.ContractBridge

/-! # C02 — Jerk (T3) move prediction equals the third-order firmware recurrence

Theorems are stated about the *generated* definitions `Gen.move_dist_t3` and `Gen.rate_t3`
(regenerated from `plotink/ebb_calc.py` on every run), for an arbitrary rounding `R` meeting the
round-to-nearest contract `T3.Contract` (binary64 and mpmath at any precision; `Rounding.exact` is an
instance) and an arbitrary ambient mpmath precision `amb`, against the firmware recurrence
`Fw.t3` / `Fw.t3Spec` (`Model/Firmware.lean`).

Domain: `T3.ValidT3 rate accel jerk T` — spelled out by `C02_valid_iff` below — is the
firmware-valid domain of the property statement. No additional magnitude hypothesis is needed:
`C02_envelope` shows that firmware validity implies the envelope (`|jerk|·T² ≤ 2^50`, `|accel|·T ≤ 2^50`, …)
under which every binary64 intermediate of `rate_t3` is exactly representable and the 103-bit
error of `move_dist_t3` stays below `2^-15`. -/

namespace Plotink
open Py Py.Val Fw T3

/-- how the accumulator argument is passed: `"clear"` or an integer -/
def accArgT3 : Option Int → Val
  | none => .str "clear"
  | some a => .int a

/-- the meaning of the domain predicate: a 32-bit tick count `T ≥ 1`, every per-tick rate within
the signed 32-bit range `[−2^31, 2^31−1]` (so an end rate of exactly `−2^31` is in the domain) and every
per-tick acceleration within `±2^31` -/
theorem C02_valid_iff (rate accel jerk T : Int) :
    ValidT3 rate accel jerk T ↔
      (1 ≤ T ∧ T ≤ 2 ^ 32 ∧
       (∀ k : Nat, 1 ≤ k → (k : Int) ≤ T →
          -2 ^ 31 ≤ t3Rate rate accel jerk k ∧ t3Rate rate accel jerk k ≤ 2 ^ 31 - 1) ∧
       (∀ k : Nat, (k : Int) ≤ T → |t3Accel rate accel jerk k| ≤ 2 ^ 31)) :=
  ⟨fun ⟨a, b, c, d⟩ => ⟨a, b, c, d⟩, fun ⟨a, b, c, d⟩ => ⟨a, b, c, d⟩⟩

/-- closed form of the per-tick rate: `2·r_k = 2·r_0 + 2·k·accel + jerk·k·(k−1)` with
`r_0 = rate − trunc(accel/2) + trunc(jerk/6)` -/
theorem C02_rate_closed (rate accel jerk : Int) (k : Nat) :
    2 * t3Rate rate accel jerk k
      = 2 * (rate - tdiv accel 2 + tdiv jerk 6) + 2 * k * accel + jerk * k * (k - 1) :=
  rate_closed rate accel jerk k

/-- closed form of the accumulator: `6·tot_T = 6·a0 + 6·T·r_0 + 3·accel·T·(T+1) + jerk·(T−1)·T·(T+1)` -/
theorem C02_total_closed (rate accel jerk a0 : Int) (T : Nat) :
    6 * t3Total rate accel jerk T a0
      = 6 * a0 + 6 * T * (rate - tdiv accel 2 + tdiv jerk 6) + 3 * accel * T * (T + 1)
        + jerk * (T - 1) * T * (T + 1) :=
  total_closed rate accel jerk a0 T

/-- the code's three-level test (rate at tick 1, then `accel + jerk`, then `jerk`) decides the sequence
predicate "the first non-zero rate among the first ticks is negative", and looking at three ticks is
enough: any larger horizon gives the same verdict -/
theorem C02_clear_iff (rate accel jerk : Int) :
    t3Clear rate accel jerk
      = (if rate - tdiv accel 2 + tdiv jerk 6 + accel < 0 then 2147483647
         else if rate - tdiv accel 2 + tdiv jerk 6 + accel = 0 then
           (if accel + jerk < 0 then 2147483647
            else if accel + jerk = 0 then (if jerk < 0 then 2147483647 else 0) else 0)
         else 0) ∧
    ∀ m : Nat, firstMotionBackward (t3Rate rate accel jerk) 1 (3 + m)
      = firstMotionBackward (t3Rate rate accel jerk) 1 3 :=
  ⟨clear_eq rate accel jerk, clear_fuel rate accel jerk⟩

/-- firmware validity implies the magnitude envelope used by the numeric bridges (discrete Markov
inequality for the rate parabola) -/
theorem C02_envelope (rate accel jerk T : Int) (hv : ValidT3 rate accel jerk T) :
    |rate| ≤ 2 ^ 40 ∧ |accel| ≤ 2 ^ 40 ∧ |jerk| ≤ 2 ^ 40 ∧ |accel| * T ≤ 2 ^ 50 ∧ |jerk| * T * T ≤ 2 ^ 50 := by
  obtain ⟨_, _, a, b, c, d, e⟩ := envelope_of_valid hv
  exact ⟨a, b, c, d, e⟩

/-- `rate_t3` returns the firmware rate at tick `T` -/
theorem C02_rate {R : Rounding} (hR : T3.Contract R) (amb : Nat) (T rate accel jerk : Int)
    (hv : ValidT3 rate accel jerk T) :
    Gen.rate_t3 R amb (.int T) (.int rate) (.int accel) (.int jerk)
      = .int (t3Rate rate accel jerk T.toNat) :=
  rate_main hR amb T rate accel jerk (envelope_of_valid hv)

/-- `move_dist_t3` returns position and remainder of the firmware recurrence, for an explicit start
accumulator in `[0, 2^31)` or `"clear"`, whatever the ambient mpmath precision -/
theorem C02_dist {R : Rounding} (hR : T3.Contract R) (amb : Nat) (T rate accel jerk : Int) (acc : Option Int)
    (hv : ValidT3 rate accel jerk T) (hacc : ∀ a, acc = some a → 0 ≤ a ∧ a < 2 ^ 31) :
    Gen.move_dist_t3 R amb (.int T) (.int rate) (.int accel) (.int jerk) (accArgT3 acc)
      = .tup [.int (t3Spec rate accel jerk T.toNat acc).1, .int (t3Spec rate accel jerk T.toNat acc).2] := by
  have hE := envelope_of_valid hv
  cases acc with
  | none =>
    simp only [accArgT3, t3Spec, two31]
    rw [dist_clear hR amb T rate accel jerk hE.ha hE.hj, clear_eq]
    exact dist_core hR amb T rate accel jerk _ hE (by
      have := codeClear_range rate accel jerk
      constructor <;> [exact this.1; (have := this.2; norm_num; linarith)])
  | some a =>
    simp only [accArgT3, t3Spec, two31]
    exact dist_core hR amb T rate accel jerk a hE (hacc a rfl)

/-- the remainder is in `[0, 2^31)` and position·2^31 + remainder is the recurrence total -/
theorem C02_range (rate accel jerk : Int) (T : Nat) (acc : Option Int) :
    0 ≤ (t3Spec rate accel jerk T acc).2 ∧ (t3Spec rate accel jerk T acc).2 < 2 ^ 31 := by
  simp only [t3Spec, two31]
  constructor
  · exact Int.emod_nonneg _ (by norm_num)
  · exact Int.emod_lt_of_pos _ (by norm_num)

/-- with zero jerk the T3 recurrence is the timed-move (LT) recurrence, and so is the prediction:
`move_dist_t3(T, rate, accel, 0, acc)` returns the LT Spec `Fw.ltSpec` (which C01 proves
`move_dist_lt(rate, accel, T, acc)` returns) -/
theorem C02_jerk0 {R : Rounding} (hR : T3.Contract R) (amb : Nat) (T rate accel : Int) (acc : Option Int)
    (hv : ValidT3 rate accel 0 T) (hacc : ∀ a, acc = some a → 0 ≤ a ∧ a < 2 ^ 31) :
    t3Spec rate accel 0 T.toNat acc = ltSpec rate accel T.toNat acc ∧
    Gen.move_dist_t3 R amb (.int T) (.int rate) (.int accel) (.int 0) (accArgT3 acc)
      = .tup [.int (ltSpec rate accel T.toNat acc).1, .int (ltSpec rate accel T.toNat acc).2] := by
  refine ⟨t3Spec_zero_jerk rate accel T.toNat acc, ?_⟩
  rw [C02_dist hR amb T rate accel 0 acc hv hacc, t3Spec_zero_jerk]

/-- non-vacuity: the contract has an instance, and a small move with non-zero jerk is firmware-valid -/
example : T3.Contract Rounding.exact := contract_exact
example : ValidT3 100 (-7) 5 3 := by
  refine ⟨by norm_num, by norm_num, ?_, ?_⟩
  · intro k h1 h2
    have : k = 1 ∨ k = 2 ∨ k = 3 := by omega
    rcases this with rfl | rfl | rfl <;> decide
  · intro k h2
    have : k = 0 ∨ k = 1 ∨ k = 2 ∨ k = 3 := by omega
    rcases this with rfl | rfl | rfl | rfl <;> decide
example : t3Spec 1073741824 0 0 2 none = (1, 0) := by decide
/-- the domain is the asymmetric signed range: a move ending exactly at rate `−2^31` is valid -/
example : ValidT3 (-2147483613) (-10) 0 4 ∧ t3Rate (-2147483613) (-10) 0 4 = -2147483648 := by
  refine ⟨⟨by norm_num, by norm_num, ?_, ?_⟩, by decide⟩
  · intro k h1 h2
    have : k = 1 ∨ k = 2 ∨ k = 3 ∨ k = 4 := by omega
    rcases this with rfl | rfl | rfl | rfl <;> decide
  · intro k h2
    have : k = 0 ∨ k = 1 ∨ k = 2 ∨ k = 3 ∨ k = 4 := by omega
    rcases this with rfl | rfl | rfl | rfl | rfl <;> decide

/-- non-vacuity of the rounding hypothesis for the arithmetic that is actually modelled and executed:
the concrete IEEE/mpmath round-to-nearest instance `Rounding.ieee` (run by the driver and compared with
CPython/mpmath on every check) satisfies the contract assumed above -/
theorem C02_contract_ieee : T3.Contract Rounding.ieee := T3.contract_ieee

/-- **argument type of the start accumulator, regenerated code**: a float start accumulator is the integer `int()` makes
of it, never `"clear"` (`rfl` on the regenerated definition). -/
theorem C02_gen_acc_float (R : Rounding) (amb : Nat) (T rate accel jerk : Py.Val) (q : Rat) :
    Gen.move_dist_t3 R amb T rate accel jerk (.flt q) = Gen.move_dist_t3 R amb T rate accel jerk (.int (Py.intOfRat q)) := by rfl

end Plotink
