import Plotink.Proofs.C04Latch
import Plotink.Model.Ebb3Params
import Plotink.Proofs.Ebb3GenLift

/-! # C04 — the EBB3 connection object latches its first error and then transmits nothing

Model: `Plotink/Model/Ebb3.lean` (every public method of `EBB3` / `EBBMotionWrap`; a port is any
`Device σ`, in particular a `Script` = arbitrary read/write outcome lists, so "a fault of any kind
at any read or write of any call" is `∀ dev`).  `World` = object attributes + device state + log of
every text handed to `port.write` + number of `readline` calls; `run P D c w` = result (value or
escaped exception) and world after the call `c`.  All theorems hold for every parameter set `P`
(retry limits etc.) and every device `D`. -/

namespace Plotink
open Ebb3

/-- The table is complete and every one of the 32 request methods starts with the guard
`if (self.port is None) or (self.err is not None): return <failure value>` (checked by evaluation
of the finite table; `prog_guard` ties each call's program to its table entry). -/
theorem C04_table :
    Method.all.length = 38 ∧ (Method.all.filter Method.isRequest).length = 32 ∧ Method.all.Nodup ∧
    (∀ m, m ∈ Method.all) ∧
    (∀ m ∈ Method.all, m.isRequest = true → (guardOf m).isSome = true) ∧
    (∀ m ∈ Method.all, m.isRequest = true →
      blockedVal m = .bool false ∨ blockedVal m = .none ∨ blockedVal m = .pair .none .none) := by
  refine ⟨by decide, by decide, by decide, Method.mem_all, by decide, by decide⟩

/-- **Blocked.** With an error recorded, or with no port, every request method (command, query,
motion, pen, I/O, variable, reboot, bootloader; all arguments) returns its failure value, hands
nothing to `write`, calls `readline` zero times and leaves object and device exactly as they were. -/
theorem C04_blocked {σ : Type} (P : Params) (D : Device σ) (c : Call) (hc : c.method.isRequest = true)
    (w : World σ) (h : w.st.port = false ∨ w.st.err.isSome = true) :
    run P D c w = (.ok (blockedVal c.method), w) ∧
    runCall P D c w = ⟨.ok (blockedVal c.method), [], 0, w⟩ := by
  have hb : w.st.blocked = true := by
    rcases h with h | h <;> simp [St.blocked, h]
  have h1 := run_blocked P D c hc w hb
  refine ⟨h1, ?_⟩
  simp [runCall, h1]

example : ∃ (c : Call) (w : World Script), c.method.isRequest = true ∧ w.st.port = true ∧
    w.st.err.isSome = true :=
  ⟨.xy_move 1 2 3, ⟨{ St.init with port := true, err := some ['e'] }, ⟨[], []⟩, [], 0⟩, rfl, rfl, rfl⟩

/-- **First error wins.** No public method — `connect`, `disconnect`, `record_error` and the other
helpers included, whether it returns or raises — replaces a recorded message. -/
theorem C04_first_wins {σ : Type} (P : Params) (D : Device σ) (c : Call) (w : World σ) (e : Str)
    (h : w.st.err = some e) : (run P D c w).2.st.err = some e :=
  run_keepsErr P D c w e h

example : (run srcParams scriptDev (.record_error ['b'])
    ⟨{ St.init with err := some ['a'] }, ⟨[], []⟩, [], 0⟩).2.st.err = some ['a'] := by decide

/-- the helpers and `disconnect` never touch the port -/
theorem C04_helpers_no_io {σ : Type} (P : Params) (D : Device σ) (c : Call)
    (hc : c.method.isHelper = true ∨ c.method = .disconnect) (w : World σ) :
    (runCall P D c w).written = [] ∧ (runCall P D c w).reads = 0 ∧ (run P D c w).2.dev = w.dev := by
  have h := run_noIO P D c hc w
  simp [runCall, h.1, h.2.1, h.2.2]

/-- **Histories.** For every list of calls `pre ++ post`, every device and every start state: if
an error `e` is recorded after `pre` (however it came about: device error reply, unexpected reply,
timeout, USB exception, unsupported firmware, `record_error`), then
* the error at the end of the whole history is still `e`, and so is the error after every call of
  `post`;
* every call of `post` other than `connect` hands nothing to `write`; every request call of `post`
  moreover reads nothing and returns its failure value. -/
theorem C04_history {σ : Type} (P : Params) (D : Device σ) (pre post : List Call) (w : World σ) (e : Str)
    (h : (finalWorld P D pre w).st.err = some e) :
    (finalWorld P D (pre ++ post) w).st.err = some e ∧
    ∀ co ∈ List.zip post (runCalls P D post (finalWorld P D pre w)),
      co.2.world.st.err = some e ∧
      (co.1.method ≠ .connect → co.2.written = []) ∧
      (co.1.method.isRequest = true → co.2.res = .ok (blockedVal co.1.method) ∧ co.2.reads = 0) := by
  refine ⟨by rw [finalWorld_append]; exact finalWorld_err P D post _ e h, ?_⟩
  generalize finalWorld P D pre w = w0 at h
  induction post generalizing w0 with
  | nil => intro co hco; simp [runCalls] at hco
  | cons c cs ih =>
    intro co hco
    simp only [runCalls, List.zip_cons_cons, List.mem_cons] at hco
    have hkeep : (run P D c w0).2.st.err = some e := C04_first_wins P D c w0 e h
    rcases hco with rfl | hco
    · refine ⟨hkeep, ?_, ?_⟩
      · intro hne
        by_cases hr : c.method.isRequest = true
        · simp [(C04_blocked P D c hr w0 (Or.inr (by simp [h]))).2]
        · have hh : c.method.isHelper = true ∨ c.method = .disconnect := by
            revert hr hne
            cases c.method <;> simp [Method.isRequest, Method.isHelper]
          exact (C04_helpers_no_io P D c hh w0).1
      · intro hr
        simp [(C04_blocked P D c hr w0 (Or.inr (by simp [h]))).2]
    · exact ih _ hkeep co hco

example : ∃ (pre : List Call) (w : World Script) (e : Str),
    (finalWorld srcParams scriptDev pre w).st.err = some e :=
  ⟨[.record_error ['x']], ⟨St.init, ⟨[], []⟩, [], 0⟩, ['x'], by decide⟩

/-- **Not connected.** In every history, a request call that starts while the object has no port
writes nothing, reads nothing and returns its failure value (position-wise form of `C04_blocked`;
`connect` is the only way `port` becomes set again). -/
theorem C04_unconnected {σ : Type} (P : Params) (D : Device σ) (pre : List Call) (c : Call) (w : World σ)
    (hc : c.method.isRequest = true) (h : (finalWorld P D pre w).st.port = false) :
    runCall P D c (finalWorld P D pre w) = ⟨.ok (blockedVal c.method), [], 0, finalWorld P D pre w⟩ :=
  (C04_blocked P D c hc _ (Or.inl h)).2

example : (finalWorld srcParams scriptDev [.disconnect]
    ⟨{ St.init with port := true }, ⟨[], []⟩, [], 0⟩).st.port = false := by decide

/-! ## The same theorems about the *regenerated* code

`Gen.EBB3_<m>` / `Gen.EBBMotionWrap_<m>` are regenerated from `ebb3_serial.py` / `ebb3_motion.py` on every run by
`translator/pyio2lean.py`; `Ebb3Gen.genRun fuel c w` calls the regenerated method of the call `c` on the world `w`
(attributes as Python values, the port as a script with exception classes).  `Ebb3Gen.Covered fuel c`: the method of
`c` is in the bridged set **S** (`Ebb3Gen.inS`: 36 of the 38 public methods — all 32 request methods, `record_error`,
`disconnect`, `parse_version`, `min_version`; not yet `find_first` and `connect`), request / nickname texts
are ASCII, and `fuel` covers the loops.  `Ebb3Gen.Good w` is the domain (attribute types, faults of serial-I/O
classes, ASCII lines).  Each theorem follows from its hand-model counterpart through `Ebb3Gen.gen_bridge`. -/

open Ebb3Gen in
/-- **Blocked (regenerated code).** With no port or with an error recorded, every regenerated request method of S
returns its failure value; attributes, script, bytes written and read count (everything `absWorld` sees) are
unchanged. -/
theorem C04_gen_blocked (fuel : Nat) (c : Call) (hc : Covered fuel c) (hr : c.method.isRequest = true)
    (w : PyObj.World Gen.EBB3_Obj) (hg : Good w) (hb : w.obj.port = .none ∨ ∃ e, w.obj.err = .str e) :
    ∃ w', genRun fuel c w = .val (encVal (blockedVal c.method)) w' ∧ absWorld w' = absWorld w ∧
      w'.port.log = w.port.log ∧ w'.port.nread = w.port.nread ∧ w'.obj.err = w.obj.err := by
  have hbl := blocked_of_attrs w hb
  have hp : Pre c w := by
    cases c <;> simp only [Pre] <;>
      first | trivial | (intro h; rw [hbl] at h; cases h) | (simp [Call.method, Method.isRequest] at hr)
  have hsim := gen_bridge fuel c hc w hg hp
  rw [run_blocked srcParams scriptDev c hr (absWorld w) hbl] at hsim
  obtain ⟨w', h1, h2, hg'⟩ := sim_val hsim
  refine ⟨w', h1, h2, congrArg (·.out) h2, congrArg (·.nreads) h2, ?_⟩
  have he : absOpt w'.obj.err = absOpt w.obj.err := congrArg (·.st.err) h2
  have h1' := hg'.obj.err
  have h2' := hg.obj.err
  revert he h1' h2'
  cases w'.obj.err <;> cases w.obj.err <;> simp [absOpt, IsOptStr]

open Ebb3Gen in
/-- **First error wins (regenerated code).** No regenerated method of S — whether it returns or raises — replaces
a recorded message. -/
theorem C04_gen_first_wins (fuel : Nat) (c : Call) (hc : Covered fuel c) (w : PyObj.World Gen.EBB3_Obj) (hg : Good w)
    (hp : Pre c w) (e : Str) (he : w.obj.err = .str e) :
    ∃ w', outWorld (genRun fuel c w) = some w' ∧ w'.obj.err = .str e := by
  obtain ⟨w', h1, h2, hg'⟩ := sim_world (gen_bridge fuel c hc w hg hp)
  refine ⟨w', h1, ?_⟩
  have hk := run_keepsErr srcParams scriptDev c (absWorld w) e (by simp [absWorld, absSt, he, absOpt])
  rw [← h2] at hk
  exact absOpt_str hk

open Ebb3Gen in
/-- **Histories (regenerated code), over ALL public methods — `connect` and `find_first` included.** For every history
`pre ++ post` of calls of the regenerated methods, started in a world of the domain whose inputs satisfy the static
side conditions `Env` (the environment arguments of each `connect` / `find_first` call are what the world's `ext`
holds — port search through C19's `findFirst` of the `comports()` input, open outcome `ext.openOk` —, scripts with
`SerialException` faults only when the history contains `connect`, no `RuntimeError` write fault when it contains
`reboot` / `bootload`): if an error `e` is recorded after `pre`, then after the whole history the error is still `e`
(hence, applying this to every prefix of `post`, after every call of `post`); and if `post` contains no `connect`,
not one byte more has been handed to `write`, not one more `readline` was made and the scripts are untouched.
Applied to `pre ++ p1` and `[c]` for a split `post = p1 ++ c :: p2`, the second part says that every call of `post`
other than `connect` does no I/O at all, whatever surrounds it.  With `C04_gen_blocked`: every request call of `post`
returned its failure value. -/
example : ∃ (w : PyObj.World Gen.EBB3_Obj) (c : Call), Ebb3Gen.Good w ∧ Ebb3Gen.Covered 26 c ∧ c.method.isRequest = true ∧
    (∃ e, w.obj.err = .str e) :=
  ⟨⟨{ Gen.EBB3_Obj.init with port := .port, err := .str ['e'] }, ⟨[], [], [], 0⟩, {}⟩, .xy_move 1 2 3,
    ⟨⟨Or.inl rfl, trivial, trivial, Or.inl rfl, trivial, trivial, trivial⟩, (fun _ h => nomatch h), (fun _ h => nomatch h),
      (fun _ h => nomatch h)⟩,
    ⟨rfl, trivial, Nat.le_refl _⟩, rfl, ⟨_, rfl⟩⟩

/-- the side conditions are satisfiable for a history that connects: an empty `comports()` list, nothing found -/
example : ∃ (w : PyObj.World Gen.EBB3_Obj) (c : Call), Ebb3Gen.Good w ∧ Ebb3Gen.Covered 26 c ∧ c.method = .connect ∧
    Ebb3Gen.Env c w :=
  ⟨⟨Gen.EBB3_Obj.init, ⟨[], [], [], 0⟩, {}⟩, .connect none none none true,
    ⟨⟨Or.inr rfl, trivial, trivial, Or.inl rfl, trivial, trivial, trivial⟩, (fun _ h => nomatch h), (fun _ h => nomatch h),
      (fun _ h => nomatch h)⟩,
    ⟨rfl, trivial, Nat.le_refl _⟩, rfl, ⟨⟨[], rfl, rfl⟩, rfl, (fun _ h => nomatch h), (fun _ h => nomatch h)⟩⟩

open Ebb3Gen in
theorem C04_gen_history (fuel : Nat) (pre post : List Call) (w : PyObj.World Gen.EBB3_Obj)
    (hc : ∀ c ∈ pre ++ post, Covered fuel c) (hg : Good w) (hp : ∀ c ∈ pre ++ post, Env c w)
    (w1 : PyObj.World Gen.EBB3_Obj) (h1 : genFinal fuel pre w = some w1) (e : Str) (he : w1.obj.err = .str e) :
    ∃ w2, genFinal fuel (pre ++ post) w = some w2 ∧ w2.obj.err = .str e ∧
      ((∀ c ∈ post, c.method ≠ .connect) →
        w2.port.log = w1.port.log ∧ w2.port.nread = w1.port.nread ∧ (absWorld w2).dev = (absWorld w1).dev) := by
  have hp' := histPre_of_env fuel (pre ++ post) w hp
  obtain ⟨w2, h2, h3, hg2⟩ := gen_final_sim fuel (pre ++ post) w hc hg hp'
  obtain ⟨w1', h1', h1abs, -, -⟩ := gen_prefix_sim fuel pre post w hc hg hp'
  rw [h1] at h1'
  injection h1' with h1'
  subst h1'
  have hm : (finalWorld srcParams scriptDev pre (absWorld w)).st.err = some e := by
    rw [← h1abs]; simp [absWorld, absSt, he, absOpt]
  refine ⟨w2, h2, ?_, fun hnc => ?_⟩
  · have hk := finalWorld_err srcParams scriptDev post _ e hm
    rw [← finalWorld_append, ← h3] at hk
    exact absOpt_str hk
  · have hq := finalWorld_quiet srcParams scriptDev post _ e hm hnc
    rw [← finalWorld_append, ← h3, ← h1abs] at hq
    exact ⟨hq.1, hq.2.1, hq.2.2.1⟩


end Plotink
