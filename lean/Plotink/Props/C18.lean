import Plotink.Gen.checkLimits
import Plotink.Gen.checkLimitsTol
import Plotink.Gen.point_in_bounds
import Plotink.Gen.constrainLimits
import Plotink.Proofs.PyLemmas
import Mathlib.Tactic.Linarith

/-! # C18 — travel-limit helpers

Theorems are stated about the *generated* definitions `Gen.checkLimits`, `Gen.checkLimitsTol`,
`Gen.constrainLimits`, `Gen.point_in_bounds` (regenerated from plotink/plot_utils.py on every run).
Arguments are numeric Python values (`int` or `float`, any mixture); comparisons are Python's exact
mixed comparisons.  -/

namespace Plotink
open Py Py.Val

/-- a Python `int` or `float` -/
def Numeric : Val → Prop
  | .int _ => True
  | .flt _ => True
  | _ => False

/-- `checkLimits`: returns the value itself inside the closed range, else the nearer bound, and
flags exactly the values outside the range. -/
theorem C18_checkLimits (R : Rounding) (amb : Nat) (v l u : Val)
    (hlu : num l ≤ num u) :
    (num l ≤ num v ∧ num v ≤ num u → Gen.checkLimits R amb v l u = .tup [v, .bool_ false]) ∧
    (num u < num v → Gen.checkLimits R amb v l u = .tup [u, .bool_ true]) ∧
    (num v < num l → Gen.checkLimits R amb v l u = .tup [l, .bool_ true]) := by
  unfold Gen.checkLimits
  simp only [Py.gt, Py.lt, gt_iff_lt]
  refine ⟨fun ⟨h1, h2⟩ => ?_, fun h => ?_, fun h => ?_⟩
  · have a : ¬ (num u < num v) := not_lt.mpr h2
    have b : ¬ (num v < num l) := not_lt.mpr h1
    simp [a, b]
  · simp [h]
  · have a : ¬ (num u < num v) := by intro h'; linarith
    simp [a, h]

/-- the result of `checkLimits` is always inside the range -/
theorem C18_checkLimits_inside (R : Rounding) (amb : Nat) (v l u : Val) (hlu : num l ≤ num u) :
    ∃ r f, Gen.checkLimits R amb v l u = .tup [r, .bool_ f] ∧ num l ≤ num r ∧ num r ≤ num u ∧
      (f = true ↔ (num v < num l ∨ num u < num v)) := by
  obtain ⟨h1, h2, h3⟩ := C18_checkLimits R amb v l u hlu
  by_cases a : num u < num v
  · exact ⟨u, true, h2 a, hlu, le_refl _, by simp [a]⟩
  · by_cases b : num v < num l
    · exact ⟨l, true, h3 b, le_refl _, hlu, by simp [b]⟩
    · have a' := not_lt.mp a
      have b' := not_lt.mp b
      exact ⟨v, false, h1 ⟨b', a'⟩, b', a', by simp [a, b]⟩

/-- `checkLimitsTol`: same clamp; the flag is raised exactly when the value is beyond the *computed*
band `upper + tol` / `lower - tol` (whatever rounding the addition used). -/
theorem C18_checkLimitsTol (R : Rounding) (amb : Nat) (v l u t : Val) (hlu : num l ≤ num u) :
    ∃ r f, Gen.checkLimitsTol R amb v l u t = .tup [r, .bool_ f] ∧
      (num l ≤ num v ∧ num v ≤ num u → r = v ∧ f = false) ∧
      (num u < num v → r = u ∧ (f = true ↔ num (Py.add R amb u t) < num v)) ∧
      (num v < num l → r = l ∧ (f = true ↔ num v < num (Py.sub R amb l t))) ∧
      num l ≤ num r ∧ num r ≤ num u := by
  unfold Gen.checkLimitsTol
  simp only [Py.gt, Py.lt, gt_iff_lt]
  by_cases a : num u < num v
  · by_cases c : num (Py.add R amb u t) < num v
    · refine ⟨u, true, by simp [a, c], fun h => absurd h.2 (not_le.mpr a), fun _ => ⟨rfl, by simp [c]⟩,
        fun h => absurd h (by intro h'; linarith), hlu, le_refl _⟩
    · refine ⟨u, false, by simp [a, c], fun h => absurd h.2 (not_le.mpr a), fun _ => ⟨rfl, by simp [c]⟩,
        fun h => absurd h (by intro h'; linarith), hlu, le_refl _⟩
  · by_cases b : num v < num l
    · by_cases c : num v < num (Py.sub R amb l t)
      · refine ⟨l, true, by simp [a, b, c], fun h => absurd h.1 (not_le.mpr b), fun h => absurd h a,
          fun _ => ⟨rfl, by simp [c]⟩, le_refl _, hlu⟩
      · refine ⟨l, false, by simp [a, b, c], fun h => absurd h.1 (not_le.mpr b), fun h => absurd h a,
          fun _ => ⟨rfl, by simp [c]⟩, le_refl _, hlu⟩
    · refine ⟨v, false, by simp [a, b], fun _ => ⟨rfl, rfl⟩, fun h => absurd h a, fun h => absurd h b,
        not_lt.mp b, not_lt.mp a⟩

/-- with ideal arithmetic and a non-negative tolerance, `checkLimitsTol` flags exactly the values
outside the range by more than the tolerance -/
theorem C18_checkLimitsTol_exact (amb : Nat) (v l u t : Val)
    (_hv : Numeric v) (hl : Numeric l) (hu : Numeric u) (ht : Numeric t)
    (hlu : num l ≤ num u) (ht0 : 0 ≤ num t) :
    ∃ r f, Gen.checkLimitsTol Rounding.exact amb v l u t = .tup [r, .bool_ f] ∧
      (f = true ↔ (num u + num t < num v ∨ num v < num l - num t)) := by
  have hadd : num (Py.add Rounding.exact amb u t) = num u + num t := by
    cases u <;> cases t <;> simp_all [Numeric, Py.add, Py.pack, Py.join, Py.kind, Py.num, Py.toInt, Rounding.exact]
  have hsub : num (Py.sub Rounding.exact amb l t) = num l - num t := by
    cases l <;> cases t <;> simp_all [Numeric, Py.sub, Py.pack, Py.join, Py.kind, Py.num, Py.toInt, Rounding.exact]
  obtain ⟨r, f, he, h1, h2, h3, _, _⟩ := C18_checkLimitsTol Rounding.exact amb v l u t hlu
  refine ⟨r, f, he, ?_⟩
  by_cases a : num u < num v
  · obtain ⟨_, hf⟩ := h2 a
    rw [hf, hadd]
    constructor
    · intro h; exact Or.inl h
    · rintro (h | h)
      · exact h
      · linarith
  · by_cases b : num v < num l
    · obtain ⟨_, hf⟩ := h3 b
      rw [hf, hsub]
      constructor
      · intro h; exact Or.inr h
      · rintro (h | h)
        · linarith
        · exact h
    · obtain ⟨_, hf⟩ := h1 ⟨not_lt.mp b, not_lt.mp a⟩
      subst hf
      constructor
      · intro h; cases h
      · rintro (h | h) <;> linarith

/-- `constrainLimits` returns one of its three arguments: the value inside the closed range, the
nearer bound otherwise (numerically; for a degenerate range the two bounds are the same number) -/
theorem C18_constrainLimits (R : Rounding) (amb : Nat) (v l u : Val) (hlu : num l ≤ num u) :
    (Gen.constrainLimits R amb v l u = v ∨ Gen.constrainLimits R amb v l u = l ∨
      Gen.constrainLimits R amb v l u = u) ∧
    (num l ≤ num v ∧ num v ≤ num u → num (Gen.constrainLimits R amb v l u) = num v) ∧
    (num u < num v → num (Gen.constrainLimits R amb v l u) = num u) ∧
    (num v < num l → num (Gen.constrainLimits R amb v l u) = num l) ∧
    num l ≤ num (Gen.constrainLimits R amb v l u) ∧ num (Gen.constrainLimits R amb v l u) ≤ num u := by
  unfold Gen.constrainLimits
  simp only [Py.max_, Py.min_, List.foldl, Py.gt, Py.lt, gt_iff_lt]
  by_cases a : num v < num u <;> by_cases b : num l < num v <;> by_cases c : num l < num u <;>
    simp only [a, b, c, decide_true, decide_false, Bool.false_eq_true, if_true, if_false] <;>
    refine ⟨by simp, fun h1 => ?_, fun h2 => ?_, fun h3 => ?_, ?_, ?_⟩ <;>
    first
      | trivial
      | rfl
      | exact le_antisymm (by linarith [h1.1, h1.2]) (by linarith [h1.1, h1.2])
      | exact le_antisymm (by linarith) (by linarith)
      | linarith

/-- 2-D test = the tolerant checker on each coordinate, for **every** rounding of the tolerance band — since the repair
F14 (`point_in_bounds` tests the bound itself before the band, as `checkLimitsTol` does) no hypothesis on the band is
needed any more: before it, the statement required the computed band to contain the range, which fails for an integer
bound above `2^53` with a float tolerance. -/
theorem C18_point_in_bounds (R : Rounding) (amb : Nat) (x y x0 y0 x1 y1 t : Val)
    (hx : num x0 ≤ num x1) (hy : num y0 ≤ num y1) :
    ∃ rx fx ry fy, Gen.checkLimitsTol R amb x x0 x1 t = .tup [rx, .bool_ fx] ∧
      Gen.checkLimitsTol R amb y y0 y1 t = .tup [ry, .bool_ fy] ∧
      Gen.point_in_bounds R amb (.tup [x, y]) (.tup [.tup [x0, y0], .tup [x1, y1]]) t
        = .bool_ (!fx && !fy) := by
  unfold Gen.point_in_bounds Gen.checkLimitsTol
  simp only [Py.unpackN_tup2, Py.getItem_cons_zero, Py.getItem_cons_succ, Py.gt, Py.lt, gt_iff_lt]
  by_cases a1 : num x1 < num x <;> by_cases a2 : num (add R amb x1 t) < num x <;>
  by_cases a3 : num x < num x0 <;> by_cases a4 : num x < num (sub R amb x0 t) <;>
  by_cases b1 : num y1 < num y <;> by_cases b2 : num (add R amb y1 t) < num y <;>
  by_cases b3 : num y < num y0 <;> by_cases b4 : num y < num (sub R amb y0 t) <;>
  first
    | (exfalso; linarith)
    | (simp only [a1, a2, a3, a4, b1, b2, b3, b4, decide_true, decide_false, Bool.false_eq_true, if_true, if_false,
         Bool.and_true, Bool.and_false, Bool.true_and, Bool.false_and]
       exact ⟨_, _, _, _, rfl, rfl, rfl⟩)

/-- non-vacuity and the F14 witness: a point exactly on an integer bound above `2^53`, float tolerance `1e-9` (here as
any rounding): in bounds -/
example (R : Rounding) : Gen.point_in_bounds R 53 (.tup [.int (2 ^ 53 + 1), .int 0])
    (.tup [.tup [.int 0, .int 0], .tup [.int (2 ^ 53 + 1), .int 1]]) (.flt (1 / 10 ^ 9)) = .bool_ true := by
  unfold Gen.point_in_bounds
  simp only [Py.unpackN_tup2, Py.getItem_cons_zero, Py.getItem_cons_succ, Py.gt, Py.lt, Py.num]
  norm_num


end Plotink
