import Plotink.Proofs.C16GenConv
import Plotink.Proofs.C16Spec
import Plotink.Proofs.C16GenBridge
/-! # C16 — board-state round trips through the EBB3 layer are faithful

`World` = the `EBB3` object's relevant fields + the board (`Model/C16.lean`); the methods are the statement-by-statement
models of `var_write_int32`, `var_read_int32`, `write_nickname`, `query_nickname`, `motors_enable`,
`motors_query_enabled` over a conforming link to the documented board `boardStep`.
`Ready w` = connected, no recorded error; `Board.WF` = 32 slots of 0..255, mode 1..5;
`Inv w` = `Ready w` ∧ `w.board.WF` ∧ the stored name does not contain `Err:` (it may have edge blanks);
`OpOK` = arguments inside the property's quantifier (int32 × slot 0..28, byte × slot 0..31, any integer resolutions,
`NickOK` nicknames). All definitions are in `Model/C16.lean`. -/
namespace Plotink
open C16

/-- **int32 round trip.** Every signed 32-bit value written at any slot 0..28 of any well-formed board: the write
succeeds, the four slots hold the big-endian two's-complement bytes (each 0..255), every other slot, the name and the
motor state are unchanged, and reading it back returns the value. -/
theorem C16_int32 (w : World) (hr : Ready w) (hwf : w.board.WF) (v i : Int) (hv : IsInt32 v) (hi : 0 ≤ i ∧ i ≤ 28) :
    ∃ w1 w2,
      var_write_int32 w v i = .ok (.bool true, w1) ∧
      (∀ k, k < 4 → w1.board.vars[i.toNat + k]? = some (Spec.beByte v k) ∧ Spec.beByte v k ≤ 255) ∧
      (∀ j, (j < i.toNat ∨ i.toNat + 4 ≤ j) → w1.board.vars[j]? = w.board.vars[j]?) ∧
      w1.board.name = w.board.name ∧ w1.board.m1 = w.board.m1 ∧ w1.board.m2 = w.board.m2 ∧
      w1.board.mode = w.board.mode ∧ w1.py = w.py ∧
      var_read_int32 w1 i = .ok (.int v, w2) ∧ w2.board = w1.board ∧ w2.py = w1.py := by
  obtain ⟨s1, h1⟩ := var_write_int32_ok hr.1 hr.2 hwf.len hv hi
  have hlen : i.toNat + 3 < w.board.vars.length := by rw [hwf.len]; omega
  have hb : ∀ k, k < 4 → (Spec.setBytes w.board.vars i.toNat v)[i.toNat + k]? = some (Spec.beByte v k) :=
    fun k hk => setBytes_in v hlen hk
  obtain ⟨s2, h2⟩ := var_read_int32_ok (w := ⟨w.py, { w.board with vars := Spec.setBytes w.board.vars i.toNat v }, s1⟩)
    hr.1 hr.2 hi (hb 0 (by omega)) (hb 1 (by omega)) (hb 2 (by omega)) (hb 3 (by omega))
    (beByte_le _ _) (beByte_le _ _) (beByte_le _ _) (beByte_le _ _)
  rw [decode_beByte hv] at h2
  exact ⟨_, _, h1, fun k hk => ⟨hb k hk, beByte_le _ _⟩, fun j hj => setBytes_out v hj, rfl, rfl, rfl, rfl, rfl,
    h2, rfl, rfl⟩

example :=
  C16_int32 exampleWorld exampleWorld_inv.1 exampleWorld_inv.2.1 (-2) 5 (by unfold IsInt32; omega) (by omega)

/-- **int32 round trip under interleaving.** After the write, any sequence of in-domain operations that do not write
the four slots (single-slot writes and int32 writes elsewhere, any reads, motor requests, nickname operations) leaves
the value readable: the final read returns `v` and the four slots still hold its bytes. -/
theorem C16_int32_frame (w : World) (hinv : Inv w) (v i : Int) (hv : IsInt32 v) (hi : 0 ≤ i ∧ i ≤ 28)
    (ops : List Op) (hops : ∀ op ∈ ops, OpOK op ∧ Disjoint i.toNat op) :
    ∃ vals w',
      runOps w (.writeInt32 v i :: ops ++ [.readInt32 i]) = .ok (vals, w') ∧
      vals.head? = some (.bool true) ∧ vals.getLast? = some (.int v) ∧
      (∀ k, k < 4 → w'.board.vars[i.toNat + k]? = some (Spec.beByte v k)) ∧ Inv w' := by
  have hall : ∀ op ∈ (Op.writeInt32 v i :: ops ++ [Op.readInt32 i]), OpOK op := by
    intro op hop
    simp only [List.cons_append, List.mem_cons, List.mem_append, List.not_mem_nil, or_false] at hop
    rcases hop with rfl | hop | rfl
    · exact ⟨hv, hi⟩
    · exact (hops op hop).1
    · exact hi
  obtain ⟨w', h1, e1, i1⟩ := runOps_refines _ w hinv hall
  -- the specification run
  let s0 : Spec.Abs := ⟨w.board, w.py.name⟩
  let s1 : Spec.Abs := (Spec.step s0 (.writeInt32 v i)).2
  let s2 : Spec.Abs := (Spec.steps s1 ops).2
  have hlen : i.toNat + 3 < w.board.vars.length := by rw [hinv.2.1.len]; omega
  have hs1 : ∀ k, k < 4 → s1.board.vars[i.toNat + k]? = some (Spec.beByte v k) :=
    fun k hk => setBytes_in v hlen hk
  have hs2 : ∀ k, k < 4 → s2.board.vars[i.toNat + k]? = some (Spec.beByte v k) := by
    intro k hk
    rw [← hs1 k hk]
    exact spec_steps_frame ops s1 (fun o ho => (hops o ho).2) hk
  have hsteps : Spec.steps s0 (.writeInt32 v i :: ops ++ [.readInt32 i]) =
      (.bool true :: ((Spec.steps s1 ops).1 ++ [.int v]), s2) := by
    have hread : Spec.step s2 (.readInt32 i) = (.int v, s2) := by
      simp only [Spec.step, List.getD_eq_getElem?_getD]
      have h0 := hs2 0 (by omega)
      rw [Nat.add_zero] at h0
      rw [h0, hs2 1 (by omega), hs2 2 (by omega), hs2 3 (by omega)]
      simp [decode_beByte hv]
    show Spec.steps s0 (.writeInt32 v i :: (ops ++ [.readInt32 i])) = _
    simp only [Spec.steps]
    rw [spec_steps_append]
    simp only [Spec.steps]
    show (Val.bool true :: ((Spec.steps s1 ops).1 ++ [(Spec.step s2 (.readInt32 i)).1]), (Spec.step s2 (.readInt32 i)).2) = _
    rw [hread]
  rw [hsteps] at h1 e1
  refine ⟨_, w', h1, rfl, ?_, ?_, i1⟩
  · have : Val.bool true :: ((Spec.steps s1 ops).1 ++ [Val.int v]) = (Val.bool true :: (Spec.steps s1 ops).1) ++ [Val.int v] := by
      simp
    show (Val.bool true :: ((Spec.steps s1 ops).1 ++ [Val.int v])).getLast? = some (Val.int v)
    rw [this]; exact List.getLast?_concat ..
  · intro k hk
    have : w'.board = s2.board := congrArg Spec.Abs.board e1
    rw [this]; exact hs2 k hk

example :=
  C16_int32_frame exampleWorld exampleWorld_inv (-2147483648) 28 (by unfold IsInt32; omega) (by omega)
    [.varWrite 255 27, .writeInt32 7 0, .motorsEnable 0 3, .writeNick ['a']] (by
    intro op hop
    simp only [List.mem_cons, List.not_mem_nil, or_false] at hop
    rcases hop with rfl | rfl | rfl | rfl
    · exact ⟨⟨by omega, by omega⟩, by simp [Disjoint]⟩
    · exact ⟨⟨by unfold IsInt32; omega, by omega⟩, by simp [Disjoint]⟩
    · exact ⟨trivial, trivial⟩
    · exact ⟨⟨by decide, by decide, by decide⟩, trivial⟩)

/-- **nickname round trip.** For a nickname inside `NickOK` (a condition on the TRIMMED name `strip s` only: ≤ 16
characters, printable ASCII, no `Err:` — the raw argument may have any amount of leading/trailing whitespace)
the write succeeds, the board stores the trimmed name, nothing else on the board changes, and a following
`query_nickname` sets `self.name` to the trimmed name whatever `self.name` was before the query. -/
theorem C16_nick (w : World) (hr : Ready w) (s : Str) (hs : NickOK s) :
    ∃ w1,
      write_nickname w s = .ok (.bool true, w1) ∧
      w1.board.name = strip s ∧ w1.py.name = some (strip s) ∧ w1.py.err = false ∧
      w1.board.vars = w.board.vars ∧ w1.board.m1 = w.board.m1 ∧ w1.board.m2 = w.board.m2 ∧
      w1.board.mode = w.board.mode ∧
      ∀ nm : Option Str, ∃ w2,
        query_nickname ⟨{ w1.py with name := nm }, w1.board, w1.sent⟩ = .ok (.none, w2) ∧
        w2.py.name = some (strip s) ∧ w2.py.err = false ∧ w2.board = w1.board := by
  refine ⟨_, write_nickname_ok hr.1 hr.2 hs.1, rfl, rfl, hr.2, rfl, rfl, rfl, rfl, ?_⟩
  intro nm
  refine ⟨_, query_nickname_ok (w := ⟨_, _, _⟩) hr.1 hr.2 (noEdge_strip s) hs.2.2, rfl, hr.2, rfl⟩

example :=
  C16_nick exampleWorld exampleWorld_inv.1 [' ', 'A', 'x', ' ', '1', '\n'] ⟨by decide, by decide, by decide⟩

/-- raw length 18 > 16 is inside `NickOK`: only the trimmed name (16 characters here) is constrained -/
example :=
  C16_nick exampleWorld exampleWorld_inv.1
    [' ', ' ', 'A', 'B', 'C', 'D', 'E', 'F', 'G', 'H', 'I', 'J', 'K', 'L', 'M', 'N', 'O', 'P']
    ⟨by decide, by decide, by decide⟩

/-- **motor enables.** From every prior board state (any enables, any mode 1..5) and for all integers `r1 r2`:
motor 1 is enabled iff `clamp r1 ≠ 0`, motor 2 iff `clamp r2 ≠ 0`; the global mode is the requested non-zero resolution
(motor 1's when given, else motor 2's — also when only motor 2 is enabled), unchanged when both are off; variables and
name are untouched; and `motors_query_enabled` reports exactly that. -/
theorem C16_motors (w : World) (hr : Ready w) (hm : 1 ≤ w.board.mode ∧ w.board.mode ≤ 5) (r1 r2 : Int) :
    ∃ w1 w2,
      motors_enable w r1 r2 = .ok (.none, w1) ∧
      (w1.board.m1 = true ↔ Spec.clamp r1 ≠ 0) ∧ (w1.board.m2 = true ↔ Spec.clamp r2 ≠ 0) ∧
      (Spec.clamp r1 ≠ 0 → (w1.board.mode : Int) = Spec.clamp r1) ∧
      (Spec.clamp r1 = 0 → Spec.clamp r2 ≠ 0 → (w1.board.mode : Int) = Spec.clamp r2) ∧
      (Spec.clamp r1 = 0 → Spec.clamp r2 = 0 → w1.board.mode = w.board.mode) ∧
      w1.board.vars = w.board.vars ∧ w1.board.name = w.board.name ∧ w1.py = w.py ∧
      motors_query_enabled w1 = .ok (some ((if Spec.clamp r1 ≠ 0 then (w1.board.mode : Int) else 0),
        (if Spec.clamp r2 ≠ 0 then (w1.board.mode : Int) else 0)), w2) ∧
      w2.board = w1.board ∧ w2.py = w1.py := by
  obtain ⟨s1, h1⟩ := motors_enable_clamped hr.1 hr.2 hm r1 r2
  have c1 := clamp_range r1
  have c2 := clamp_range r2
  have hmode : 1 ≤ (meBoard w.board (Spec.clamp r1) (Spec.clamp r2)).mode ∧
      (meBoard w.board (Spec.clamp r1) (Spec.clamp r2)).mode ≤ 5 := by
    simp only [meBoard]
    split
    · omega
    · split <;> omega
  have h2 := mqe_ok (w := ⟨w.py, meBoard w.board (Spec.clamp r1) (Spec.clamp r2), s1⟩) hr.1 hr.2 hmode
  refine ⟨_, ⟨w.py, meBoard w.board (Spec.clamp r1) (Spec.clamp r2), cQE :: s1⟩, h1, ?_, ?_, ?_, ?_, ?_, rfl, rfl, rfl, ?_, rfl, rfl⟩
  · simp [meBoard]
  · simp [meBoard]
  · intro h; simp only [meBoard, ne_eq, h, not_false_eq_true, if_true]; omega
  · intro h h'; simp only [meBoard, ne_eq, h, h', not_true_eq_false, not_false_eq_true, if_true, if_false]; omega
  · intro h h'; simp [meBoard, h, h']
  · rw [h2]
    simp [meBoard]

example :=
  C16_motors exampleWorld exampleWorld_inv.1 (by decide) 0 9

/-- **arbitrary sequences.** Any sequence of in-domain operations, from any world satisfying `Inv`: no exception, no
recorded error, the returned values and the final board / `self.name` are those of the specification `Spec.steps`
(the abstract semantics written from the property statement), and `Inv` holds again. -/
theorem C16_sequences (w : World) (hinv : Inv w) (ops : List Op) (hops : ∀ op ∈ ops, OpOK op) :
    ∃ w', runOps w ops = .ok ((Spec.steps ⟨w.board, w.py.name⟩ ops).1, w') ∧
      (⟨w'.board, w'.py.name⟩ : Spec.Abs) = (Spec.steps ⟨w.board, w.py.name⟩ ops).2 ∧ Inv w' :=
  runOps_refines ops w hinv hops

example :=
  C16_sequences exampleWorld exampleWorld_inv [.motorsEnable 7 (-1), .motorsQuery, .queryNick] (by
    intro op hop
    simp only [List.mem_cons, List.not_mem_nil, or_false] at hop
    rcases hop with rfl | rfl | rfl <;> trivial)



section Regenerated
open PyObj Gen

/-! ## The same properties about the REGENERATED methods

`Gen.EBB3_var_write_int32`, `Gen.EBB3_var_read_int32`, `Gen.EBB3_var_write`, `Gen.EBB3_var_read`,
`Gen.EBB3_write_nickname`, `Gen.EBB3_query_nickname`, `Gen.EBBMotionWrap_motors_enable`,
`Gen.EBBMotionWrap_motors_query_enabled` are regenerated from `plotink/ebb3_serial.py` / `ebb3_motion.py` on every run
(`translator/pyio2lean.py`, runtime `PyObj.lean`). They talk to a port SCRIPT; the script-producing device is defined
from the trusted board: `boardReads b reqs` = the reply lines of `boardRecv` to the request lines `reqs` in order,
`boardAfter b reqs` = the board after them (`Proofs/C16GenBridge.lean`). Every theorem below says: on the script the board
produces for `reqs`, the regenerated method writes exactly `reqs` (each with its CR — so the script *is* the board's
answer to what the code wrote), consumes exactly those replies (`tl` is left), returns the required value and leaves the
object as required; the board-state claims are about `boardAfter b reqs`. `ReadyObj obj` = `port` is a port object and
`err is None`; all writes succeed (`writes = []`). Fuel ≥ 1 suffices (no retry is needed on a conforming link). -/

/-- **int32 round trip, regenerated code.** -/
theorem C16_gen_int32 (b : Board) (hwf : b.WF) (obj : EBB3_Obj) (hobj : ReadyObj obj) (v i : Int) (hv : IsInt32 v)
    (hi : 0 ≤ i ∧ i ≤ 28) :
    ∃ reqsW reqsR,
      (∀ (fuel : Nat) (ext : Ext) (tl : List PyIO.Rd) (log : List (List Char)) (n : Nat),
        EBB3_var_write_int32 (fuel + 1) (.int v) (.int i) ⟨obj, ⟨boardReads b reqsW ++ tl, [], log, n⟩, ext⟩ =
          .val (.bool true) ⟨obj, ⟨tl, [], log ++ reqsW.map (· ++ ['\r']), n + reqsW.length⟩, ext⟩) ∧
      (∀ k, k < 4 → (boardAfter b reqsW).vars[i.toNat + k]? = some (Spec.beByte v k) ∧ Spec.beByte v k ≤ 255) ∧
      (∀ j, (j < i.toNat ∨ i.toNat + 4 ≤ j) → (boardAfter b reqsW).vars[j]? = b.vars[j]?) ∧
      (boardAfter b reqsW).name = b.name ∧ (boardAfter b reqsW).m1 = b.m1 ∧ (boardAfter b reqsW).m2 = b.m2 ∧
      (boardAfter b reqsW).mode = b.mode ∧
      (∀ (fuel : Nat) (ext : Ext) (tl : List PyIO.Rd) (log : List (List Char)) (n : Nat),
        EBB3_var_read_int32 (fuel + 1) (.int i) ⟨obj, ⟨boardReads (boardAfter b reqsW) reqsR ++ tl, [], log, n⟩, ext⟩ =
          .val (.int v) ⟨obj, ⟨tl, [], log ++ reqsR.map (· ++ ['\r']), n + reqsR.length⟩, ext⟩) ∧
      boardAfter (boardAfter b reqsW) reqsR = boardAfter b reqsW := by
  obtain ⟨k, rfl⟩ := Int.eq_ofNat_of_zero_le hi.1
  have hk : k ≤ 28 := by omega
  have hr : Ready (readyWorld b none) := ⟨rfl, rfl⟩
  -- the write
  obtain ⟨reqsW, vW, pyW, hmW, _, hgW⟩ :=
    gen_op_bridge (readyWorld b none) hr hwf (.writeInt32 v k) ⟨hv, hi⟩ trivial obj hobj
  have htr := var_write_int32_trace (w := readyWorld b none) rfl rfl hwf.len hv hk
  have e1 := hmW
  simp only [runOp] at e1
  rw [htr] at e1
  injection e1 with e1
  injection e1 with ev ew
  injection ew with _ eb _
  subst ev
  have hb1 : boardAfter b reqsW = { b with vars := Spec.setBytes b.vars k v } := eb.symm
  have hwf1 : ({ b with vars := Spec.setBytes b.vars k v } : Board).WF :=
    wf_vars hwf _ (setBytes_length _ _ _) (fun x hx => mem_setBytes hx)
  have hlen : k + 3 < b.vars.length := by rw [hwf.len]; omega
  have hbytes : ∀ j, j < 4 → (Spec.setBytes b.vars k v)[k + j]? = some (Spec.beByte v j) :=
    fun j hj => setBytes_in v hlen hj
  -- the read
  have hr1 : Ready (readyWorld { b with vars := Spec.setBytes b.vars k v } none) := ⟨rfl, rfl⟩
  obtain ⟨reqsR, vR, pyR, hmR, _, hgR⟩ :=
    gen_op_bridge (readyWorld { b with vars := Spec.setBytes b.vars k v } none) hr1 hwf1 (.readInt32 k) hi trivial obj hobj
  have htr2 := var_read_int32_trace (w := readyWorld { b with vars := Spec.setBytes b.vars k v } none) rfl rfl hk
    (hbytes 0 (by omega)) (hbytes 1 (by omega)) (hbytes 2 (by omega)) (hbytes 3 (by omega))
    (beByte_le _ _) (beByte_le _ _) (beByte_le _ _) (beByte_le _ _)
  rw [decode_beByte hv] at htr2
  have e2 := hmR
  simp only [runOp] at e2
  rw [htr2] at e2
  injection e2 with e2
  injection e2 with ev2 ew2
  injection ew2 with _ eb2 _
  subst ev2
  refine ⟨reqsW, reqsR, ?_, ?_, ?_, ?_, ?_, ?_, ?_, ?_, ?_⟩
  · intro fuel ext tl log n; exact hgW fuel ext tl log n
  · intro j hj; rw [hb1]; exact ⟨by simpa using hbytes j hj, beByte_le _ _⟩
  · intro j hj; rw [hb1]; simpa using setBytes_out v hj
  · rw [hb1]
  · rw [hb1]
  · rw [hb1]
  · rw [hb1]
  · intro fuel ext tl log n; rw [hb1]; exact hgR fuel ext tl log n
  · rw [hb1]; exact eb2.symm


/-- **nickname round trip, regenerated code** (the read-back is shown for any ready object `obj2`, whatever its `name`). -/
theorem C16_gen_nick (b : Board) (obj : EBB3_Obj) (hobj : ReadyObj obj) (s : C16.Str) (hs : NickOK s) :
    ∃ reqs,
      (∀ (fuel : Nat) (ext : Ext) (tl : List PyIO.Rd) (log : List (List Char)) (n : Nat),
        EBB3_write_nickname (fuel + 1) (.str s) ⟨obj, ⟨boardReads b reqs ++ tl, [], log, n⟩, ext⟩ =
          .val (.bool true) ⟨{ obj with name := .str (strip s) },
            ⟨tl, [], log ++ reqs.map (· ++ ['\r']), n + reqs.length⟩, ext⟩) ∧
      (boardAfter b reqs).name = strip s ∧ (boardAfter b reqs).vars = b.vars ∧ (boardAfter b reqs).m1 = b.m1 ∧
      (boardAfter b reqs).m2 = b.m2 ∧ (boardAfter b reqs).mode = b.mode ∧
      ∀ (obj2 : EBB3_Obj), ReadyObj obj2 →
        ∀ (fuel : Nat) (ext : Ext) (tl : List PyIO.Rd) (log : List (List Char)) (n : Nat),
          EBB3_query_nickname (fuel + 1) ⟨obj2, ⟨boardReads (boardAfter b reqs) [cQT] ++ tl, [], log, n⟩, ext⟩ =
            .val .none ⟨{ obj2 with name := .str (strip s) }, ⟨tl, [], log ++ [cQT ++ ['\r']], n + 1⟩, ext⟩ ∧
          boardAfter (boardAfter b reqs) [cQT] = boardAfter b reqs := by
  have hrecv := recv_ST b (nk := strip s) hs.1
  refine ⟨[cST ++ ',' :: strip s], ?_, ?_, ?_, ?_, ?_, ?_, ?_⟩
  · intro fuel ext tl log n
    simp only [boardReads, hrecv, List.cons_append, List.nil_append]
    exact gen_write_nickname fuel obj ext tl log n hobj s hs
  · simp only [boardAfter, hrecv]
  · simp only [boardAfter, hrecv]
  · simp only [boardAfter, hrecv]
  · simp only [boardAfter, hrecv]
  · simp only [boardAfter, hrecv]
  · intro obj2 hobj2 fuel ext tl log n
    have hb1 : boardAfter b [cST ++ ',' :: strip s] = { b with name := strip s } := by simp only [boardAfter, hrecv]
    rw [hb1]
    have hq := recv_QT { b with name := strip s }
    refine ⟨?_, by simp [boardAfter, hq]⟩
    simp only [boardReads, hq, List.cons_append, List.nil_append]
    have := gen_query_nickname fuel obj2 ext tl log n hobj2 (strip s) (isAscii_of_printable hs.2.1) hs.2.2
    rw [strip_strip] at this
    exact this

/-- **motor enables, regenerated code**: for every prior well-formed board and all integers `r1 r2`. -/
theorem C16_gen_motors (b : Board) (hwf : b.WF) (obj : EBB3_Obj) (hobj : ReadyObj obj) (r1 r2 : Int) :
    ∃ reqs,
      (∀ (fuel : Nat) (ext : Ext) (tl : List PyIO.Rd) (log : List (List Char)) (n : Nat),
        EBBMotionWrap_motors_enable (fuel + 1) (.int r1) (.int r2) ⟨obj, ⟨boardReads b reqs ++ tl, [], log, n⟩, ext⟩ =
          .val .none ⟨obj, ⟨tl, [], log ++ reqs.map (· ++ ['\r']), n + reqs.length⟩, ext⟩) ∧
      ((boardAfter b reqs).m1 = true ↔ Spec.clamp r1 ≠ 0) ∧ ((boardAfter b reqs).m2 = true ↔ Spec.clamp r2 ≠ 0) ∧
      (Spec.clamp r1 ≠ 0 → ((boardAfter b reqs).mode : Int) = Spec.clamp r1) ∧
      (Spec.clamp r1 = 0 → Spec.clamp r2 ≠ 0 → ((boardAfter b reqs).mode : Int) = Spec.clamp r2) ∧
      (Spec.clamp r1 = 0 → Spec.clamp r2 = 0 → (boardAfter b reqs).mode = b.mode) ∧
      (boardAfter b reqs).vars = b.vars ∧ (boardAfter b reqs).name = b.name ∧
      (∀ (fuel : Nat) (ext : Ext) (tl : List PyIO.Rd) (log : List (List Char)) (n : Nat),
        EBBMotionWrap_motors_query_enabled (fuel + 1)
            ⟨obj, ⟨boardReads (boardAfter b reqs) [cQE] ++ tl, [], log, n⟩, ext⟩ =
          .val (.tuple [.int (if Spec.clamp r1 ≠ 0 then ((boardAfter b reqs).mode : Int) else 0),
                        .int (if Spec.clamp r2 ≠ 0 then ((boardAfter b reqs).mode : Int) else 0)])
            ⟨obj, ⟨tl, [], log ++ [cQE ++ ['\r']], n + 1⟩, ext⟩) ∧
      boardAfter (boardAfter b reqs) [cQE] = boardAfter b reqs := by
  have hr : Ready (readyWorld b none) := ⟨rfl, rfl⟩
  obtain ⟨w1, w2, hw, hm1, hm2, hmode1, hmode2, hmode0, hvars, hname, hpy, _, _, _⟩ :=
    C16_motors (readyWorld b none) hr hwf.mode r1 r2
  obtain ⟨reqs, v, py', hm, _, hg⟩ :=
    gen_op_bridge (readyWorld b none) hr hwf (.motorsEnable r1 r2) trivial trivial obj hobj
  have e1 := hm
  simp only [runOp] at e1
  rw [hw] at e1
  injection e1 with e1
  injection e1 with ev ew
  subst ev
  have hb1 : boardAfter b reqs = w1.board := by rw [ew]
  -- mode of the new board is 1..5
  have c1 := clamp_range r1
  have c2 := clamp_range r2
  have hmr : 1 ≤ w1.board.mode ∧ w1.board.mode ≤ 5 := by
    have := hwf.mode
    by_cases z1 : Spec.clamp r1 = 0
    · by_cases z2 : Spec.clamp r2 = 0
      · have h := hmode0 z1 z2
        simp only [] at h
        omega
      · have := hmode2 z1 z2; omega
    · have := hmode1 z1; omega
  have hq := recv_QE w1.board
  refine ⟨reqs, ?_, ?_, ?_, ?_, ?_, ?_, ?_, ?_, ?_, ?_⟩
  · intro fuel ext tl log n; exact hg fuel ext tl log n
  · rw [hb1]; exact hm1
  · rw [hb1]; exact hm2
  · rw [hb1]; exact hmode1
  · rw [hb1]; exact hmode2
  · rw [hb1]; exact hmode0
  · rw [hb1]; exact hvars
  · rw [hb1]; exact hname
  · intro fuel ext tl log n
    rw [hb1]
    simp only [boardReads, hq, List.cons_append, List.nil_append]
    have := gen_motors_query_enabled fuel obj ext tl log n hobj _ _ _ _ (resMap_qe hmr w1.board.m1) (resMap_qe hmr w1.board.m2)
    rw [this]
    have d1 : w1.board.m1 = decide (Spec.clamp r1 ≠ 0) := by
      cases h : w1.board.m1 <;> simp [h] at hm1 ⊢ <;> exact hm1
    have d2 : w1.board.m2 = decide (Spec.clamp r2 ≠ 0) := by
      cases h : w1.board.m2 <;> simp [h] at hm2 ⊢ <;> exact hm2
    simp [d1, d2]
  · rw [hb1]; simp [boardAfter, hq]


/-- **arbitrary sequences, regenerated code.** A history of in-domain operations on the regenerated methods returns the
values of `Spec.steps`, drives the board to the state of `Spec.steps`, keeps `self.name` as `Spec.steps` says, never raises
and never runs out of fuel (`genRunOps … = some …`). -/
theorem C16_gen_sequences (b : Board) (nm : Option C16.Str) (hwf : b.WF) (herr : isInfix sErr b.name = false)
    (hasc : PyIO.isAscii b.name = true) (ops : List Op) (hops : ∀ op ∈ ops, OpOK op)
    (obj : EBB3_Obj) (hobj : ReadyObj obj) (hname : obj.name = encName nm) :
    ∃ reqs obj',
      (∀ (fuel : Nat) (ext : Ext) (tl : List PyIO.Rd) (log : List (List Char)) (n : Nat),
        genRunOps (fuel + 1) ops ⟨obj, ⟨boardReads b reqs ++ tl, [], log, n⟩, ext⟩ =
          some ((Spec.steps ⟨b, nm⟩ ops).1.map encVal,
            ⟨obj', ⟨tl, [], log ++ reqs.map (· ++ ['\r']), n + reqs.length⟩, ext⟩)) ∧
      boardAfter b reqs = (Spec.steps ⟨b, nm⟩ ops).2.board ∧
      obj'.name = encName (Spec.steps ⟨b, nm⟩ ops).2.pyName ∧ ReadyObj obj' ∧
      (boardAfter b reqs).WF ∧ isInfix sErr (boardAfter b reqs).name = false ∧
      PyIO.isAscii (boardAfter b reqs).name = true := by
  have hinv : InvG (readyWorld b nm) := ⟨⟨⟨rfl, rfl⟩, hwf, herr⟩, hasc⟩
  obtain ⟨reqs, vals, py', obj', hm, ⟨hr', hn'⟩, hinv', hg⟩ := gen_ops_bridge ops (readyWorld b nm) hinv hops obj hobj hname
  obtain ⟨w', hs, es, _⟩ := C16_sequences (readyWorld b nm) hinv.1 ops hops
  rw [hm] at hs
  injection hs with hs
  injection hs with ev ew
  subst ev
  have hb : boardAfter b reqs = (Spec.steps ⟨b, nm⟩ ops).2.board := by
    rw [← ew] at es; exact congrArg Spec.Abs.board es
  have hp : py'.name = (Spec.steps ⟨b, nm⟩ ops).2.pyName := by
    rw [← ew] at es; exact congrArg Spec.Abs.pyName es
  exact ⟨reqs, obj', hg, hb, by rw [hn', hp], hr', hinv'.1.2.1, hinv'.1.2.2, hinv'.2⟩

/-- **int32 round trip under interleaving, regenerated code.** -/
theorem C16_gen_int32_frame (b : Board) (nm : Option C16.Str) (hwf : b.WF) (herr : isInfix sErr b.name = false)
    (hasc : PyIO.isAscii b.name = true) (v i : Int) (hv : IsInt32 v) (hi : 0 ≤ i ∧ i ≤ 28)
    (ops : List Op) (hops : ∀ op ∈ ops, OpOK op ∧ Disjoint i.toNat op)
    (obj : EBB3_Obj) (hobj : ReadyObj obj) (hname : obj.name = encName nm) :
    ∃ reqs vals obj',
      (∀ (fuel : Nat) (ext : Ext) (tl : List PyIO.Rd) (log : List (List Char)) (n : Nat),
        genRunOps (fuel + 1) (.writeInt32 v i :: ops ++ [.readInt32 i]) ⟨obj, ⟨boardReads b reqs ++ tl, [], log, n⟩, ext⟩ =
          some (vals, ⟨obj', ⟨tl, [], log ++ reqs.map (· ++ ['\r']), n + reqs.length⟩, ext⟩)) ∧
      vals.head? = some (.bool true) ∧ vals.getLast? = some (.int v) ∧
      (∀ k, k < 4 → (boardAfter b reqs).vars[i.toNat + k]? = some (Spec.beByte v k)) := by
  have hinv : Inv (readyWorld b nm) := ⟨⟨rfl, rfl⟩, hwf, herr⟩
  have hall : ∀ op ∈ (Op.writeInt32 v i :: ops ++ [Op.readInt32 i]), OpOK op := by
    intro op hop
    simp only [List.cons_append, List.mem_cons, List.mem_append, List.not_mem_nil, or_false] at hop
    rcases hop with rfl | hop | rfl
    · exact ⟨hv, hi⟩
    · exact (hops op hop).1
    · exact hi
  obtain ⟨reqs, obj', hg, hb, _, _, _⟩ := C16_gen_sequences b nm hwf herr hasc _ hall obj hobj hname
  obtain ⟨mvals, w', hrun, hhead, hlast, hslots, _⟩ := C16_int32_frame (readyWorld b nm) hinv v i hv hi ops hops
  obtain ⟨w'', hs, es, _⟩ := C16_sequences (readyWorld b nm) hinv _ hall
  rw [hrun] at hs
  injection hs with hs
  injection hs with ev ew
  subst ew
  refine ⟨reqs, mvals.map encVal, obj', ?_, ?_, ?_, ?_⟩
  · intro fuel ext tl log n; rw [ev]; exact hg fuel ext tl log n
  · cases mvals with
    | nil => simp at hhead
    | cons a t => simp at hhead; subst hhead; rfl
  · rw [List.getLast?_map, hlast]; rfl
  · intro k hk
    rw [hb, ← congrArg Spec.Abs.board es]
    exact hslots k hk

/-- the single-call bridge as an obligation of the property (see `C16.gen_op_bridge`) -/
theorem C16_gen_bridge (w : C16.World) (hr : Ready w) (hwf : w.board.WF) (op : Op) (hop : OpOK op) (hnm : NameReq w op)
    (obj : EBB3_Obj) (hready : ReadyObj obj) :
    ∃ reqs v py',
      runOp w op = .ok (v, ⟨py', boardAfter w.board reqs, reqs.reverse ++ w.sent⟩) ∧
      (obj.name = encName w.py.name → (objAfter obj w.board op).name = encName py'.name) ∧
      ∀ (fuel : Nat) (ext : Ext) (tl : List PyIO.Rd) (log : List (List Char)) (n : Nat),
        genOp (fuel + 1) op ⟨obj, ⟨boardReads w.board reqs ++ tl, [], log, n⟩, ext⟩ =
          .val (encVal v) ⟨objAfter obj w.board op, ⟨tl, [], log ++ reqs.map (· ++ ['\r']), n + reqs.length⟩, ext⟩ :=
  gen_op_bridge w hr hwf op hop hnm obj hready


example := C16_gen_int32 exampleWorld.board exampleWorld_inv.2.1 exampleObj exampleObj_ready (-2) 5
  (by unfold IsInt32; omega) (by omega)
example := C16_gen_motors exampleWorld.board exampleWorld_inv.2.1 exampleObj exampleObj_ready 0 9
example := C16_gen_nick exampleWorld.board exampleObj exampleObj_ready
  [' ', ' ', 'A', 'B', 'C', 'D', 'E', 'F', 'G', 'H', 'I', 'J', 'K', 'L', 'M', 'N', 'O', 'P'] ⟨by decide, by decide, by decide⟩
example := C16_gen_sequences exampleWorld.board none exampleWorld_inv.2.1 (by decide) (by decide)
  [.motorsEnable 7 (-1), .motorsQuery, .queryNick] (by
    intro op hop
    simp only [List.mem_cons, List.not_mem_nil, or_false] at hop
    rcases hop with rfl | rfl | rfl <;> trivial) exampleObj exampleObj_ready rfl

end Regenerated

open PyObj Gen in
/-- **request types, regenerated code**: `motors_enable` sees a request only through `int(r)`. Every pair of requests that
`int()` converts — bools, decimal numeral strings, ints — behaves exactly like the pair of integers it stands for (same
value, same bytes written, same reads consumed, same object), so `C16_gen_motors` covers them with `r := int(request)`.
(Seeded change C16_m14 dropped the conversion: equivalent on ints, different on `True`; this theorem is what then stops
checking.) -/
theorem C16_gen_motors_requests (fuel : Nat) (v1 v2 : PyObj.Val) (r1 r2 : Int)
    (h1 : PyObj.b_int v1 = .ok (.int r1)) (h2 : PyObj.b_int v2 = .ok (.int r2)) (w : PyObj.World EBB3_Obj) :
    EBBMotionWrap_motors_enable fuel v1 v2 w = EBBMotionWrap_motors_enable fuel (.int r1) (.int r2) w :=
  C16Conv.motors_enable_conv fuel v1 v2 r1 r2 h1 h2 w

/-- non-vacuity: `True` stands for 1, the numeral `'3'` for 3 -/
example : PyObj.b_int (.bool true) = .ok (.int 1) ∧ PyObj.b_int (.str ['3']) = .ok (.int 3) := by
  constructor <;> rfl

end Plotink
