import Plotink.Proofs.C16Spec
/-! # C16 — board-state round trips through the EBB3 layer are faithful

`World` = the `EBB3` object's relevant fields + the board (`Model/C16.lean`); the methods are the statement-by-statement
models of `var_write_int32`, `var_read_int32`, `write_nickname`, `query_nickname`, `motors_enable`,
`motors_query_enabled` over a conforming link to the documented board `boardStep`.
`Ready w` = connected, no recorded error; `Board.WF` = 32 slots of 0..255, mode 1..5;
`Inv w` = `Ready w` ∧ `w.board.WF` ∧ the stored name does not contain `Err:` (it may have edge blanks);
`OpOK` = arguments inside the property's quantifier (int32 × slot 0..28, byte × slot 0..31, any integer resolutions,
`NickOK` nicknames). All definitions are in `Model/C16.lean`. -/
namespace Plotink
open C16

/-- **int32 round trip.** Every signed 32-bit value written at any slot 0..28 of any well-formed board: the write
succeeds, the four slots hold the big-endian two's-complement bytes (each 0..255), every other slot, the name and the
motor state are unchanged, and reading it back returns the value. -/
theorem C16_int32 (w : World) (hr : Ready w) (hwf : w.board.WF) (v i : Int) (hv : IsInt32 v) (hi : 0 ≤ i ∧ i ≤ 28) :
    ∃ w1 w2,
      var_write_int32 w v i = .ok (.bool true, w1) ∧
      (∀ k, k < 4 → w1.board.vars[i.toNat + k]? = some (Spec.beByte v k) ∧ Spec.beByte v k ≤ 255) ∧
      (∀ j, (j < i.toNat ∨ i.toNat + 4 ≤ j) → w1.board.vars[j]? = w.board.vars[j]?) ∧
      w1.board.name = w.board.name ∧ w1.board.m1 = w.board.m1 ∧ w1.board.m2 = w.board.m2 ∧
      w1.board.mode = w.board.mode ∧ w1.py = w.py ∧
      var_read_int32 w1 i = .ok (.int v, w2) ∧ w2.board = w1.board ∧ w2.py = w1.py := by
  obtain ⟨s1, h1⟩ := var_write_int32_ok hr.1 hr.2 hwf.len hv hi
  have hlen : i.toNat + 3 < w.board.vars.length := by rw [hwf.len]; omega
  have hb : ∀ k, k < 4 → (Spec.setBytes w.board.vars i.toNat v)[i.toNat + k]? = some (Spec.beByte v k) :=
    fun k hk => setBytes_in v hlen hk
  obtain ⟨s2, h2⟩ := var_read_int32_ok (w := ⟨w.py, { w.board with vars := Spec.setBytes w.board.vars i.toNat v }, s1⟩)
    hr.1 hr.2 hi (hb 0 (by omega)) (hb 1 (by omega)) (hb 2 (by omega)) (hb 3 (by omega))
    (beByte_le _ _) (beByte_le _ _) (beByte_le _ _) (beByte_le _ _)
  rw [decode_beByte hv] at h2
  exact ⟨_, _, h1, fun k hk => ⟨hb k hk, beByte_le _ _⟩, fun j hj => setBytes_out v hj, rfl, rfl, rfl, rfl, rfl,
    h2, rfl, rfl⟩

example :=
  C16_int32 exampleWorld exampleWorld_inv.1 exampleWorld_inv.2.1 (-2) 5 (by unfold IsInt32; omega) (by omega)

/-- **int32 round trip under interleaving.** After the write, any sequence of in-domain operations that do not write
the four slots (single-slot writes and int32 writes elsewhere, any reads, motor requests, nickname operations) leaves
the value readable: the final read returns `v` and the four slots still hold its bytes. -/
theorem C16_int32_frame (w : World) (hinv : Inv w) (v i : Int) (hv : IsInt32 v) (hi : 0 ≤ i ∧ i ≤ 28)
    (ops : List Op) (hops : ∀ op ∈ ops, OpOK op ∧ Disjoint i.toNat op) :
    ∃ vals w',
      runOps w (.writeInt32 v i :: ops ++ [.readInt32 i]) = .ok (vals, w') ∧
      vals.head? = some (.bool true) ∧ vals.getLast? = some (.int v) ∧
      (∀ k, k < 4 → w'.board.vars[i.toNat + k]? = some (Spec.beByte v k)) ∧ Inv w' := by
  have hall : ∀ op ∈ (Op.writeInt32 v i :: ops ++ [Op.readInt32 i]), OpOK op := by
    intro op hop
    simp only [List.cons_append, List.mem_cons, List.mem_append, List.not_mem_nil, or_false] at hop
    rcases hop with rfl | hop | rfl
    · exact ⟨hv, hi⟩
    · exact (hops op hop).1
    · exact hi
  obtain ⟨w', h1, e1, i1⟩ := runOps_refines _ w hinv hall
  -- the specification run
  let s0 : Spec.Abs := ⟨w.board, w.py.name⟩
  let s1 : Spec.Abs := (Spec.step s0 (.writeInt32 v i)).2
  let s2 : Spec.Abs := (Spec.steps s1 ops).2
  have hlen : i.toNat + 3 < w.board.vars.length := by rw [hinv.2.1.len]; omega
  have hs1 : ∀ k, k < 4 → s1.board.vars[i.toNat + k]? = some (Spec.beByte v k) :=
    fun k hk => setBytes_in v hlen hk
  have hs2 : ∀ k, k < 4 → s2.board.vars[i.toNat + k]? = some (Spec.beByte v k) := by
    intro k hk
    rw [← hs1 k hk]
    exact spec_steps_frame ops s1 (fun o ho => (hops o ho).2) hk
  have hsteps : Spec.steps s0 (.writeInt32 v i :: ops ++ [.readInt32 i]) =
      (.bool true :: ((Spec.steps s1 ops).1 ++ [.int v]), s2) := by
    have hread : Spec.step s2 (.readInt32 i) = (.int v, s2) := by
      simp only [Spec.step, List.getD_eq_getElem?_getD]
      have h0 := hs2 0 (by omega)
      rw [Nat.add_zero] at h0
      rw [h0, hs2 1 (by omega), hs2 2 (by omega), hs2 3 (by omega)]
      simp [decode_beByte hv]
    show Spec.steps s0 (.writeInt32 v i :: (ops ++ [.readInt32 i])) = _
    simp only [Spec.steps]
    rw [spec_steps_append]
    simp only [Spec.steps]
    show (Val.bool true :: ((Spec.steps s1 ops).1 ++ [(Spec.step s2 (.readInt32 i)).1]), (Spec.step s2 (.readInt32 i)).2) = _
    rw [hread]
  rw [hsteps] at h1 e1
  refine ⟨_, w', h1, rfl, ?_, ?_, i1⟩
  · have : Val.bool true :: ((Spec.steps s1 ops).1 ++ [Val.int v]) = (Val.bool true :: (Spec.steps s1 ops).1) ++ [Val.int v] := by
      simp
    show (Val.bool true :: ((Spec.steps s1 ops).1 ++ [Val.int v])).getLast? = some (Val.int v)
    rw [this]; exact List.getLast?_concat ..
  · intro k hk
    have : w'.board = s2.board := congrArg Spec.Abs.board e1
    rw [this]; exact hs2 k hk

example :=
  C16_int32_frame exampleWorld exampleWorld_inv (-2147483648) 28 (by unfold IsInt32; omega) (by omega)
    [.varWrite 255 27, .writeInt32 7 0, .motorsEnable 0 3, .writeNick ['a']] (by
    intro op hop
    simp only [List.mem_cons, List.not_mem_nil, or_false] at hop
    rcases hop with rfl | rfl | rfl | rfl
    · exact ⟨⟨by omega, by omega⟩, by simp [Disjoint]⟩
    · exact ⟨⟨by unfold IsInt32; omega, by omega⟩, by simp [Disjoint]⟩
    · exact ⟨trivial, trivial⟩
    · exact ⟨⟨by decide, by decide, by decide⟩, trivial⟩)

/-- **nickname round trip.** For a nickname inside `NickOK` (a condition on the TRIMMED name `strip s` only: ≤ 16
characters, printable ASCII, no `Err:` — the raw argument may have any amount of leading/trailing whitespace)
the write succeeds, the board stores the trimmed name, nothing else on the board changes, and a following
`query_nickname` sets `self.name` to the trimmed name whatever `self.name` was before the query. -/
theorem C16_nick (w : World) (hr : Ready w) (s : Str) (hs : NickOK s) :
    ∃ w1,
      write_nickname w s = .ok (.bool true, w1) ∧
      w1.board.name = strip s ∧ w1.py.name = some (strip s) ∧ w1.py.err = false ∧
      w1.board.vars = w.board.vars ∧ w1.board.m1 = w.board.m1 ∧ w1.board.m2 = w.board.m2 ∧
      w1.board.mode = w.board.mode ∧
      ∀ nm : Option Str, ∃ w2,
        query_nickname ⟨{ w1.py with name := nm }, w1.board, w1.sent⟩ = .ok (.none, w2) ∧
        w2.py.name = some (strip s) ∧ w2.py.err = false ∧ w2.board = w1.board := by
  refine ⟨_, write_nickname_ok hr.1 hr.2 hs.1, rfl, rfl, hr.2, rfl, rfl, rfl, rfl, ?_⟩
  intro nm
  refine ⟨_, query_nickname_ok (w := ⟨_, _, _⟩) hr.1 hr.2 (noEdge_strip s) hs.2.2, rfl, hr.2, rfl⟩

example :=
  C16_nick exampleWorld exampleWorld_inv.1 [' ', 'A', 'x', ' ', '1', '\n'] ⟨by decide, by decide, by decide⟩

/-- raw length 18 > 16 is inside `NickOK`: only the trimmed name (16 characters here) is constrained -/
example :=
  C16_nick exampleWorld exampleWorld_inv.1
    [' ', ' ', 'A', 'B', 'C', 'D', 'E', 'F', 'G', 'H', 'I', 'J', 'K', 'L', 'M', 'N', 'O', 'P']
    ⟨by decide, by decide, by decide⟩

/-- **motor enables.** From every prior board state (any enables, any mode 1..5) and for all integers `r1 r2`:
motor 1 is enabled iff `clamp r1 ≠ 0`, motor 2 iff `clamp r2 ≠ 0`; the global mode is the requested non-zero resolution
(motor 1's when given, else motor 2's — also when only motor 2 is enabled), unchanged when both are off; variables and
name are untouched; and `motors_query_enabled` reports exactly that. -/
theorem C16_motors (w : World) (hr : Ready w) (hm : 1 ≤ w.board.mode ∧ w.board.mode ≤ 5) (r1 r2 : Int) :
    ∃ w1 w2,
      motors_enable w r1 r2 = .ok (.none, w1) ∧
      (w1.board.m1 = true ↔ Spec.clamp r1 ≠ 0) ∧ (w1.board.m2 = true ↔ Spec.clamp r2 ≠ 0) ∧
      (Spec.clamp r1 ≠ 0 → (w1.board.mode : Int) = Spec.clamp r1) ∧
      (Spec.clamp r1 = 0 → Spec.clamp r2 ≠ 0 → (w1.board.mode : Int) = Spec.clamp r2) ∧
      (Spec.clamp r1 = 0 → Spec.clamp r2 = 0 → w1.board.mode = w.board.mode) ∧
      w1.board.vars = w.board.vars ∧ w1.board.name = w.board.name ∧ w1.py = w.py ∧
      motors_query_enabled w1 = .ok (some ((if Spec.clamp r1 ≠ 0 then (w1.board.mode : Int) else 0),
        (if Spec.clamp r2 ≠ 0 then (w1.board.mode : Int) else 0)), w2) ∧
      w2.board = w1.board ∧ w2.py = w1.py := by
  obtain ⟨s1, h1⟩ := motors_enable_clamped hr.1 hr.2 hm r1 r2
  have c1 := clamp_range r1
  have c2 := clamp_range r2
  have hmode : 1 ≤ (meBoard w.board (Spec.clamp r1) (Spec.clamp r2)).mode ∧
      (meBoard w.board (Spec.clamp r1) (Spec.clamp r2)).mode ≤ 5 := by
    simp only [meBoard]
    split
    · omega
    · split <;> omega
  have h2 := mqe_ok (w := ⟨w.py, meBoard w.board (Spec.clamp r1) (Spec.clamp r2), s1⟩) hr.1 hr.2 hmode
  refine ⟨_, ⟨w.py, meBoard w.board (Spec.clamp r1) (Spec.clamp r2), cQE :: s1⟩, h1, ?_, ?_, ?_, ?_, ?_, rfl, rfl, rfl, ?_, rfl, rfl⟩
  · simp [meBoard]
  · simp [meBoard]
  · intro h; simp only [meBoard, ne_eq, h, not_false_eq_true, if_true]; omega
  · intro h h'; simp only [meBoard, ne_eq, h, h', not_true_eq_false, not_false_eq_true, if_true, if_false]; omega
  · intro h h'; simp [meBoard, h, h']
  · rw [h2]
    simp [meBoard]

example :=
  C16_motors exampleWorld exampleWorld_inv.1 (by decide) 0 9

/-- **arbitrary sequences.** Any sequence of in-domain operations, from any world satisfying `Inv`: no exception, no
recorded error, the returned values and the final board / `self.name` are those of the specification `Spec.steps`
(the abstract semantics written from the property statement), and `Inv` holds again. -/
theorem C16_sequences (w : World) (hinv : Inv w) (ops : List Op) (hops : ∀ op ∈ ops, OpOK op) :
    ∃ w', runOps w ops = .ok ((Spec.steps ⟨w.board, w.py.name⟩ ops).1, w') ∧
      (⟨w'.board, w'.py.name⟩ : Spec.Abs) = (Spec.steps ⟨w.board, w.py.name⟩ ops).2 ∧ Inv w' :=
  runOps_refines ops w hinv hops

example :=
  C16_sequences exampleWorld exampleWorld_inv [.motorsEnable 7 (-1), .motorsQuery, .queryNick] (by
    intro op hop
    simp only [List.mem_cons, List.not_mem_nil, or_false] at hop
    rcases hop with rfl | rfl | rfl <;> trivial)

end Plotink
