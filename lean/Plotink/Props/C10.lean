import Plotink.Proofs.C10Term
import Plotink.Proofs.C10Gen

/-! # C10 — Bezier subdivision refines the same curve until every piece is flat

Model: `C10.subdivideCubicPath fuel sp flat` (`Model/C10.lean`, mirroring `plot_utils.subdivideCubicPath`
with `bezmisc.beziersplitatt` and the C09 predicate `points_in_tolerance`).  Spec: Bernstein evaluation
`bez`, restriction by blossoming `restrict`, `DyadicRefinement`, `RefinesPath`, `FlatPiece`. -/

namespace Plotink
open C10 C09

/-- de Casteljau split at `t` (`bezmisc.beziersplitatt`): the two halves are the same curve on
`[0,t]` and `[t,1]`; in particular at the literal one half. -/
theorem C10_split_is_restriction (c : Cubic) (t s : Rat) :
    bez (splitAt c t).1 s = bez c (t * s) ∧ bez (splitAt c t).2 s = bez c (t + (1 - t) * s) :=
  splitAt_restriction c t s

/-- The Spec's `restrict c a b` (defined by blossoming, independently of the split) *is* the curve
`c` on `[a,b]` reparametrised to `[0,1]`; its end points lie on `c` at `a` and `b`; and one
`beziersplitatt(·, 0.5)` of it gives the restrictions to the two halves of `[a,b]`. -/
theorem C10_restrict_is_curve (c : Cubic) (a b : Rat) :
    (∀ s : Rat, bez (restrict c a b) s = bez c (a + s * (b - a))) ∧
    (restrict c a b).p0 = bez c a ∧ (restrict c a b).p3 = bez c b ∧
    splitAt (restrict c a b) half = (restrict c a ((a + b) / 2), restrict c ((a + b) / 2) b) :=
  ⟨fun s => bez_restrict c a b s, restrict_p0 c a b, restrict_p3 c a b, splitAt_half_restrict c a b⟩

/-- On termination both inner control points of every piece are closer than `flat` to the chord
(the C09 distance, squared, `< flat²`). -/
theorem C10_flat (fuel : Nat) (sp r : List Node) (flat : Rat)
    (h : subdivideCubicPath fuel sp flat = some r) : ∀ c ∈ pieces r, FlatPiece c flat := by
  rw [subdivideCubicPath_eq] at h
  cases sp with
  | nil =>
    simp only at h
    split_ifs at h
    cases h
    intro c hc; simp [pieces] at hc
  | cons a rest => exact refine_flat flat fuel a rest r h

/-- On termination the new node list traces the same curve: its piece list is the old one with each
piece replaced by restrictions of that piece to dyadic intervals tiling `[0,1]` (so original nodes
survive in order, and every inserted node is a point of the original piece at a dyadic parameter);
the first node keeps its incoming handle and point, the last node its point and outgoing handle. -/
theorem C10_refines (fuel : Nat) (sp r : List Node) (flat : Rat)
    (h : subdivideCubicPath fuel sp flat = some r) :
    RefinesPath (pieces sp) (pieces r) ∧
    r.head?.map (fun n => (n.hin, n.p)) = sp.head?.map (fun n => (n.hin, n.p)) ∧
    r.getLast?.map (fun n => (n.p, n.hout)) = sp.getLast?.map (fun n => (n.p, n.hout)) := by
  rw [subdivideCubicPath_eq] at h
  cases sp with
  | nil =>
    simp only at h
    split_ifs at h
    cases h
    exact ⟨RefinesPath.nil, rfl, rfl⟩
  | cons a rest =>
    simp only at h
    obtain ⟨h1, h2⟩ := refine_tree flat fuel a rest r h
    obtain ⟨hh, t, rfl⟩ := refine_head flat fuel a rest r h
    exact ⟨h1.path, rfl, h2⟩

/-- What a `DyadicRefinement` says about nodes: the chunk replacing piece `c` starts at `c.p0`, ends at
`c.p3` (original nodes survive, in order), and every leaf starts and ends on the original curve. -/
theorem C10_refinement_nodes (c : Cubic) (l : List Cubic) (h : DyadicRefinement c l) :
    l.head?.map Cubic.p0 = some c.p0 ∧ l.getLast?.map Cubic.p3 = some c.p3 ∧
    ∀ x ∈ l, ∃ t0 t1 : Rat, 0 ≤ t0 ∧ t0 < t1 ∧ t1 ≤ 1 ∧ x.p0 = bez c t0 ∧ x.p3 = bez c t1 := by
  obtain ⟨ivs, hd, ht, rfl⟩ := h
  obtain ⟨e1, e2⟩ := Tiles.ends ivs 0 1 ht
  refine ⟨?_, ?_, ?_⟩
  · cases ivs with
    | nil => simp at e1
    | cons iv t =>
      simp only [List.head?_cons, Option.map_some, Option.some.injEq] at e1
      simp [e1, restrict_p0, bez_zero]
  · rw [List.getLast?_map]
    cases hl : ivs.getLast? with
    | none => rw [hl] at e2; simp at e2
    | some iv =>
      rw [hl] at e2
      simp only [Option.map_some, Option.some.injEq] at e2
      simp [e2, restrict_p3, bez_one]
  · intro x hx
    obtain ⟨iv, hiv, rfl⟩ := List.mem_map.mp hx
    obtain ⟨k, j, hj, h1, h2⟩ := hd iv hiv
    have hp : (0 : Rat) < 2 ^ k := by positivity
    refine ⟨iv.1, iv.2, ?_, ?_, ?_, restrict_p0 _ _ _, restrict_p3 _ _ _⟩
    · rw [h1]; positivity
    · rw [h1, h2]; exact div_lt_div_of_pos_right (by linarith) hp
    · rw [h2, div_le_one hp]
      have : (j : Rat) + 1 ≤ 2 ^ k := by exact_mod_cast hj
      exact this

/-- Termination: for positive flatness some fuel suffices (the squared edges of the control polygon
shrink by 4 at every split; a piece with all edges shorter than `flat` is flat), and the result does
not depend on the fuel. -/
theorem C10_terminates (sp : List Node) (flat : Rat) (hflat : 0 < flat) :
    (∃ fuel r, subdivideCubicPath fuel sp flat = some r) ∧
    (∀ f1 f2 r1 r2, subdivideCubicPath f1 sp flat = some r1 → subdivideCubicPath f2 sp flat = some r2 → r1 = r2) := by
  constructor
  · cases sp with
    | nil => exact ⟨1, [], by rw [subdivideCubicPath_eq]; simp⟩
    | cons a rest =>
      obtain ⟨fuel, r, hr⟩ := refine_total flat hflat rest a
      exact ⟨fuel, r, by rw [subdivideCubicPath_eq]; exact hr⟩
  · intro f1 f2 r1 r2 h1 h2
    rw [subdivideCubicPath_eq] at h1 h2
    cases sp with
    | nil =>
      simp only at h1 h2
      split_ifs at h1; split_ifs at h2
      cases h1; cases h2; rfl
    | cons a rest =>
      simp only at h1 h2
      have a1 := refine_mono_le flat f1 (max f1 f2) (le_max_left _ _) a rest r1 h1
      have a2 := refine_mono_le flat f2 (max f1 f2) (le_max_right _ _) a rest r2 h2
      rw [a1] at a2; exact Option.some.inj a2

/-- non-vacuity of the hypothesis `subdivideCubicPath fuel sp flat = some r` of `C10_flat` / `C10_refines`:
by `C10_terminates` it is satisfiable for *every* node list and positive flatness; concretely: -/
example : subdivideCubicPath 2 [⟨(0,0),(0,0),(1,0)⟩, ⟨(2,0),(3,0),(3,0)⟩] 1
    = some [⟨(0,0),(0,0),(1,0)⟩, ⟨(2,0),(3,0),(3,0)⟩] := by
  decide +kernel

example (sp : List Node) : ∃ fuel r, subdivideCubicPath fuel sp 1 = some r :=
  (C10_terminates sp 1 (by norm_num)).1

/-! ## The same statements about the SOURCE-REGENERATED code

`Gen.subdivideCubicPath` is regenerated from `plotink/plot_utils.py` on every run, its dependency
`Gen.beziersplitatt` (with `Gen.tpoint`) from the installed `ink_extensions/bezmisc.py` (hash in `Gen/report.json`),
`Gen.points_in_tolerance` from `plot_utils.py`.  Exact arithmetic (`Rounding.exact`); a node list is
`C10.encNodes sp` (lists `[hin, p, hout]` of `[x, y]` floats); the in-place rewrite of `s_p` is returned as
`(None, new s_p)`; the two `while True` loops run on `fuel`.  Proofs: `Proofs/C10Gen.lean`. -/

/-- `beziersplitatt`, regenerated from the installed dependency: de Casteljau, the model's `splitAt` -/
theorem C10_gen_split (amb : Nat) (c : Cubic) (t : Rat) :
    Gen.beziersplitatt Rounding.exact amb (encCubic c) (.flt t) =
      .tup [encCubic (splitAt c t).1, encCubic (splitAt c t).2] :=
  split_bridge amb c t

/-- **bridge** `Gen.subdivideCubicPath = C10.subdivideCubicPath`: whatever the model returns with fuel `n`, the
regenerated code returns for every fuel above `n` -/
theorem C10_gen_bridge (amb n fuel : Nat) (sp r : List Node) (flat : Rat) (hf : n < fuel)
    (h : subdivideCubicPath n sp flat = some r) :
    Gen.subdivideCubicPath Rounding.exact amb fuel (encNodes sp) (.flt flat) (.int 1) = .val (.tup [.none_, encNodes r]) :=
  subdivide_bridge amb n fuel sp r flat hf h

/-- `C10_terminates` for the regenerated code: for positive flatness there is a fuel from which on the regenerated
function returns — the same node list `r` for every such fuel (no `fuelOut`, no exception) -/
theorem C10_gen_terminates (amb : Nat) (sp : List Node) (flat : Rat) (hflat : 0 < flat) :
    ∃ (fuel0 : Nat) (r : List Node), ∀ fuel, fuel0 ≤ fuel →
      Gen.subdivideCubicPath Rounding.exact amb fuel (encNodes sp) (.flt flat) (.int 1) = .val (.tup [.none_, encNodes r]) := by
  obtain ⟨n, r, h⟩ := (C10_terminates sp flat hflat).1
  exact ⟨n + 1, r, fun fuel hf => subdivide_bridge amb n fuel sp r flat (by omega) h⟩

/-- `C10_flat` for the regenerated code: the node list it returns (for every sufficient fuel) has only flat pieces -/
theorem C10_gen_flat (amb : Nat) (sp : List Node) (flat : Rat) (hflat : 0 < flat) :
    ∃ (fuel0 : Nat) (r : List Node), (∀ fuel, fuel0 ≤ fuel →
      Gen.subdivideCubicPath Rounding.exact amb fuel (encNodes sp) (.flt flat) (.int 1) = .val (.tup [.none_, encNodes r])) ∧
      ∀ c ∈ pieces r, FlatPiece c flat := by
  obtain ⟨n, r, h⟩ := (C10_terminates sp flat hflat).1
  exact ⟨n + 1, r, fun fuel hf => subdivide_bridge amb n fuel sp r flat (by omega) h, C10_flat n sp r flat h⟩

/-- `C10_refines` for the regenerated code: the returned node list traces the same curve — every original piece
replaced by its restrictions to dyadic intervals tiling `[0,1]`; outer handles and end nodes intact -/
theorem C10_gen_refines (amb : Nat) (sp : List Node) (flat : Rat) (hflat : 0 < flat) :
    ∃ (fuel0 : Nat) (r : List Node), (∀ fuel, fuel0 ≤ fuel →
      Gen.subdivideCubicPath Rounding.exact amb fuel (encNodes sp) (.flt flat) (.int 1) = .val (.tup [.none_, encNodes r])) ∧
      RefinesPath (pieces sp) (pieces r) ∧
      r.head?.map (fun n => (n.hin, n.p)) = sp.head?.map (fun n => (n.hin, n.p)) ∧
      r.getLast?.map (fun n => (n.p, n.hout)) = sp.getLast?.map (fun n => (n.p, n.hout)) := by
  obtain ⟨n, r, h⟩ := (C10_terminates sp flat hflat).1
  exact ⟨n + 1, r, fun fuel hf => subdivide_bridge amb n fuel sp r flat (by omega) h, C10_refines n sp r flat h⟩

/-- non-vacuity / instance: an already flat two-node path comes back unchanged from the regenerated code -/
example : Gen.subdivideCubicPath Rounding.exact 53 3 (encNodes [⟨(0,0),(0,0),(1,0)⟩, ⟨(2,0),(3,0),(3,0)⟩]) (.flt 1) (.int 1)
    = .val (.tup [.none_, encNodes [⟨(0,0),(0,0),(1,0)⟩, ⟨(2,0),(3,0),(3,0)⟩]]) :=
  C10_gen_bridge 53 2 3 _ _ 1 (by decide) (by decide +kernel)

end Plotink
