import Plotink.Proofs.C06

/-! # C06 — motion / configuration helpers emit exactly the documented EBB command text

`C06.legacyEmit` / `C06.ebb3Emit` model the text written by the helpers of `ebb_motion.py` and of
`ebb3_motion.py` + `ebb3_serial.py` against a board that acknowledges everything (`Model/C06.lean`, tied
to the sources by the differential run of `harness/c06.py`); `C06.documented` is the command reference.
`legacyEmit port fwOk r = none` / `ebb3Emit port board r = none`: the layer has no helper for `r`.
All theorems are for **all** integer arguments (zero and negative included) and all optional-argument
patterns. -/

namespace Plotink
open C06

/-- Legacy layer: every helper writes exactly the documented command(s) — preceded, for the two helpers
that are gated on a firmware version (`servo_timeout`, `queryVoltage`), by the version query `V`. -/
theorem C06_legacy_documented (b : Board) (r : Req) (l : List Cmd)
    (h : legacyEmit true true r = some l) : l = legacyGate r ++ documented b r := by
  cases r with
  | absMove rate p1 p2 =>
    cases p1 <;> cases p2 <;>
      simp [legacyEmit, legacyEmitWith, documented, legacyGate, present] at h ⊢ <;> exact h.symm
  | lowLevel r1 s1 a1 r2 s2 a2 clear =>
    simp only [legacyEmit, legacyEmitWith, if_true, Option.some.injEq] at h
    subst h
    simp only [documented, legacyGate, List.nil_append]
    by_cases hc : (r1 = 0 ∧ a1 = 0 ∨ s1 = 0) ∧ (r2 = 0 ∧ a2 = 0 ∨ s2 = 0)
    · have hn := (lm_cond_iff r1 s1 a1 r2 s2 a2).mp hc
      simp [hc, hn]
    · have hn : axisCanMove r1 s1 a1 ∨ axisCanMove r2 s2 a2 :=
        Classical.byContradiction (fun hnn => hc ((lm_cond_iff r1 s1 a1 r2 s2 a2).mpr hnn))
      cases clear <;> simp [hc, hn, present]
  | timedPause n =>
    simp only [legacyEmit, legacyEmitWith, if_true, Option.some.injEq] at h
    subst h
    simp only [documented, legacyGate, List.nil_append, pauseChunk]
    rw [legacyPauseLoop_eq_doc _ _ (Nat.le_refl _)]
  | penDown delay pin =>
    cases pin <;> simp [legacyEmit, legacyEmitWith, documented, legacyGate, present] at h ⊢ <;> exact h.symm
  | penUp delay pin =>
    cases pin <;> simp [legacyEmit, legacyEmitWith, documented, legacyGate, present] at h ⊢ <;> exact h.symm
  | enable r1 r2 =>
    simp [legacyEmit, legacyEmitWith] at h
    obtain ⟨rfl, rfl⟩ := h
    simp [documented, legacyGate, clampRes_eq]
  | pbConfig pin state dir =>
    simp [legacyEmit, legacyEmitWith] at h
    obtain ⟨rfl, rfl⟩ := h
    simp [documented, legacyGate]
  | servoTimeout ms state =>
    cases state <;>
      simp [legacyEmit, legacyEmitWith, documented, legacyGate, versionQuery] at h ⊢ <;> exact h.symm
  | _ =>
    simp [legacyEmit, legacyEmitWith, documented, legacyGate, versionQuery] at h ⊢ <;> exact h.symm

example : legacyEmit true true (.absMove 1000 (some 0) (some 500)) = some [⟨"HM", [1000, 0, 500]⟩] := by decide

/-- When the board's firmware does not pass the gate, a gated legacy helper sends the version query and
nothing else; ungated helpers do not depend on the firmware version. -/
theorem C06_legacy_gate (r : Req) :
    (legacyGate r ≠ [] → legacyEmit true false r = some (legacyGate r)) ∧
    (legacyGate r = [] → legacyEmit true false r = legacyEmit true true r) := by
  cases r <;> simp [legacyGate, legacyEmit, legacyEmitWith, versionQuery]

example : legacyGate (.servoTimeout 5 none) ≠ [] := by decide
example : legacyGate (.xyMove 1 2 3) = [] := by decide

/-- EBB3 layer (core): every method hands exactly the documented command(s) to `command`/`query`. -/
theorem C06_ebb3_documented (b : Board) (r : Req) (l : List Cmd)
    (h : ebb3Emit true b r = some l) : l = documented b r := by
  cases r with
  | absMove rate p1 p2 =>
    cases p1 <;> cases p2 <;> simp [ebb3Emit, ebb3EmitWith, documented] at h ⊢ <;> exact h.symm
  | timedPause n =>
    simp only [ebb3Emit, ebb3EmitWith, if_true, Option.some.injEq] at h
    subst h
    simp only [documented, pauseChunk]
    rw [ebb3PauseLoop_eq_legacy, legacyPauseLoop_eq_doc _ _ (Nat.le_refl _)]
  | penDown delay pin =>
    cases pin <;> simp [ebb3Emit, ebb3EmitWith, documented, present] at h ⊢ <;> exact h.symm
  | penUp delay pin =>
    cases pin <;> simp [ebb3Emit, ebb3EmitWith, documented, present] at h ⊢ <;> exact h.symm
  | enable r1 r2 =>
    simp only [ebb3Emit, ebb3EmitWith, if_true, Option.some.injEq] at h
    subst h
    exact ebb3Enable_eq_doc b r1 r2
  | servoTimeout ms state =>
    cases state <;> simp [ebb3Emit, ebb3EmitWith, documented] at h ⊢ <;> exact h.symm
  | varWriteInt32 v i =>
    simp only [ebb3Emit, ebb3EmitWith, if_true] at h
    exact varWriteInt32_eq_doc b v i l h
  | varReadInt32 i =>
    simp [ebb3Emit, ebb3EmitWith, documented, List.range, List.range.loop] at h ⊢
    exact h.symm
  | _ =>
    simp [ebb3Emit, ebb3EmitWith, documented] at h ⊢ <;> exact h.symm

example : ebb3Emit true ⟨0, 0⟩ (.enable 0 9) =
    some [⟨"CU", [50, 0]⟩, ⟨"QE", []⟩, ⟨"EM", [5, 5]⟩, ⟨"EM", [0, 5]⟩] := by decide

/-- The two layers emit the same text for the same request (the legacy layer's version-gate query aside). -/
theorem C06_layers_agree (b : Board) (r : Req) (l₁ l₂ : List Cmd)
    (h₁ : legacyEmit true true r = some l₁) (h₂ : ebb3Emit true b r = some l₂) :
    l₁ = legacyGate r ++ l₂ := by
  rw [C06_legacy_documented b r l₁ h₁, C06_ebb3_documented b r l₂ h₂]

example : legacyEmit true true (.timedPause 1501) = some [⟨"SM", [750, 0, 0]⟩, ⟨"SM", [750, 0, 0]⟩, ⟨"SM", [1, 0, 0]⟩]
    ∧ ebb3Emit true ⟨0, 0⟩ (.timedPause 1501) = some [⟨"SM", [750, 0, 0]⟩, ⟨"SM", [750, 0, 0]⟩, ⟨"SM", [1, 0, 0]⟩] := by
  decide

/-- Which requests each layer serves. -/
theorem C06_supports (port fwOk : Bool) (b : Board) (r : Req) :
    ((legacyEmit port fwOk r).isSome ↔ legacySupports r) ∧
    ((ebb3Emit true b r).isSome ↔ ebb3Supports r) := by
  constructor
  · cases r <;> simp [legacyEmit, legacyEmitWith, legacySupports]
  · cases r <;> simp [ebb3Emit, ebb3EmitWith, ebb3Supports, toBytes4, int32InRange]

/-- XY moves send the duration, then the axis-1 (Y) delta, then the axis-2 (X) delta — byte for byte. -/
theorem C06_order (b : Board) (dx dy dur : Int) :
    (legacyEmit true true (.xyMove dx dy dur)).map wires =
      some ["SM," ++ Int.repr dur ++ "," ++ Int.repr dy ++ "," ++ Int.repr dx ++ "\r"] ∧
    (ebb3Emit true b (.xyMove dx dy dur)).map wires =
      some ["SM," ++ Int.repr dur ++ "," ++ Int.repr dy ++ "," ++ Int.repr dx ++ "\r"] := by
  have e : ("SM," : String) = "SM" ++ "," := by decide
  constructor <;>
    (simp [legacyEmit, legacyEmitWith, ebb3Emit, ebb3EmitWith, wires, Cmd.wire, Cmd.text, argsText,
      String.append_assoc]
     rw [e, String.append_assoc])

/-- Motor resolutions: every `EM` command either layer sends for an enable request carries arguments in
0..5, and the request ends with `EM,clamp r1,clamp r2`. -/
theorem C06_clamp (b : Board) (r1 r2 : Int) (l : List Cmd)
    (h : ebb3Emit true b (.enable r1 r2) = some l ∨ legacyEmit true true (.enable r1 r2) = some l) :
    (∀ c ∈ l, c.name = "EM" → ∀ a ∈ c.args, 0 ≤ a ∧ a ≤ 5) ∧
    l.getLast? = some ⟨"EM", [clampDoc r1, clampDoc r2]⟩ ∧
    (clampDoc r1 = if r1 < 0 then 0 else if 5 < r1 then 5 else r1) := by
  have hl : l = documented b (.enable r1 r2) := by
    rcases h with h | h
    · exact C06_ebb3_documented b _ l h
    · have := C06_legacy_documented b _ l h
      simpa [legacyGate] using this
  subst hl
  exact ⟨docEnable_em_range b r1 r2, docEnable_last b r1 r2, rfl⟩

example : ebb3Emit true ⟨3, 3⟩ (.enable (-4) 77) = some [⟨"CU", [50, 0]⟩, ⟨"QE", []⟩, ⟨"EM", [5, 5]⟩, ⟨"EM", [0, 5]⟩] := by
  decide

/-- Timed pause: both layers emit zero-moves `SM,d,0,0` whose durations `d` each lie in 1..750 and sum to
`n` when `n ≥ 1`, and emit nothing when `n ≤ 0`. -/
theorem C06_pause (b : Board) (n : Int) :
    ∃ ds : List Int,
      legacyEmit true true (.timedPause n) = some (ds.map (fun d => ⟨"SM", [d, 0, 0]⟩)) ∧
      ebb3Emit true b (.timedPause n) = some (ds.map (fun d => ⟨"SM", [d, 0, 0]⟩)) ∧
      (n ≤ 0 → ds = []) ∧
      (1 ≤ n → (∀ d ∈ ds, 1 ≤ d ∧ d ≤ 750) ∧ ds.sum = n) := by
  refine ⟨legacyPauseLoop pauseChunk n.toNat n, ?_, ?_, ?_, ?_⟩
  · simp [legacyEmit, legacyEmitWith]
  · simp [ebb3Emit, ebb3EmitWith, ebb3PauseLoop_eq_legacy]
  · intro h
    exact legacyPauseLoop_nonpos _ _ _ h
  · intro h
    obtain ⟨h1, h2⟩ := legacyPauseLoop_spec pauseChunk (by decide) n.toNat n (Nat.le_refl _)
    refine ⟨fun d hd => ?_, ?_⟩
    · have := h1 d hd
      simpa [pauseChunk] using this
    · rw [h2]
      have : ¬ n ≤ 0 := by omega
      simp [this]

/-- The chunking loops are correct for any chunk size ≥ 1 (the source's 750 is compared with the model's
`pauseChunk` on every run). -/
theorem C06_pause_any_chunk (chunk : Int) (hc : 1 ≤ chunk) (n : Int) :
    ebb3PauseLoop chunk n.toNat n = legacyPauseLoop chunk n.toNat n ∧
    (∀ d ∈ legacyPauseLoop chunk n.toNat n, 1 ≤ d ∧ d ≤ chunk) ∧
    (legacyPauseLoop chunk n.toNat n).sum = (if n ≤ 0 then 0 else n) :=
  ⟨ebb3PauseLoop_eq_legacy chunk _ _, legacyPauseLoop_spec chunk hc _ _ (Nat.le_refl _)⟩

example : (1 : Int) ≤ 750 := by decide

/-- A low-level move is suppressed exactly when neither axis can move. -/
theorem C06_suppress (r1 s1 a1 r2 s2 a2 : Int) (clear : Option Int) :
    (legacyEmit true true (.lowLevel r1 s1 a1 r2 s2 a2 clear) = some [] ↔
      ((r1 = 0 ∧ a1 = 0) ∨ s1 = 0) ∧ ((r2 = 0 ∧ a2 = 0) ∨ s2 = 0)) ∧
    (((r1 = 0 ∧ a1 = 0) ∨ s1 = 0) ∧ ((r2 = 0 ∧ a2 = 0) ∨ s2 = 0) ↔
      ¬ (axisCanMove r1 s1 a1 ∨ axisCanMove r2 s2 a2)) := by
  refine ⟨?_, lm_cond_iff r1 s1 a1 r2 s2 a2⟩
  by_cases hc : (r1 = 0 ∧ a1 = 0 ∨ s1 = 0) ∧ (r2 = 0 ∧ a2 = 0 ∨ s2 = 0)
  · simp [legacyEmit, legacyEmitWith, hc]
  · cases clear <;> simp [legacyEmit, legacyEmitWith, hc, present]

/-- With no port, nothing is sent (either layer, any request, any firmware). -/
theorem C06_noport (fwOk : Bool) (b : Board) (r : Req) (l : List Cmd) :
    (legacyEmit false fwOk r = some l → l = []) ∧ (ebb3Emit false b r = some l → l = []) := by
  constructor
  · intro h
    cases r <;> simp [legacyEmit, legacyEmitWith] at h <;>
      first | exact h | exact h.2 | exact h.symm | exact h.2.symm
  · intro h
    cases r <;> simp [ebb3Emit, ebb3EmitWith] at h <;> first | exact h | exact h.symm

/-- Every supplied argument is recoverable from the transmitted text: two request lines with the same
command name and the same bytes carry the same argument list (integer rendering is injective and a
numeral never contains the separator). -/
theorem C06_args_recoverable (c₁ c₂ : Cmd) (hn : c₁.name = c₂.name) (h : c₁.wire = c₂.wire) :
    c₁.args = c₂.args :=
  Cmd.wire_inj_args hn h

example : (⟨"SM", [1, -2, 3]⟩ : Cmd).name = (⟨"SM", [1, -2, 3]⟩ : Cmd).name := rfl

/-- …in particular an XY move's three arguments can be read back from its bytes. -/
theorem C06_xyMove_recoverable (dx dy dur dx' dy' dur' : Int)
    (h : (legacyEmit true true (.xyMove dx dy dur)).map wires =
         (legacyEmit true true (.xyMove dx' dy' dur')).map wires) :
    dx = dx' ∧ dy = dy' ∧ dur = dur' := by
  simp only [legacyEmit, legacyEmitWith, if_true, Option.map_some, wires, List.map_cons, List.map_nil,
    Option.some.injEq, List.cons.injEq, and_true] at h
  have := Cmd.wire_inj_args (c₁ := ⟨"SM", [dur, dy, dx]⟩) (c₂ := ⟨"SM", [dur', dy', dx']⟩) rfl h
  simp at this
  omega

/-- F4: the truthiness tests of the unrepaired sources (`if pin:`, `if clear:`, `if position1 and
position2:`) agree with the presence tests whenever no optional argument is a supplied zero — the
defect is confined to zero-valued optional arguments. -/
theorem C06_truthiness_confined (port fwOk : Bool) (b : Board) (r : Req) (hz : ¬ suppliedZero r) :
    legacyEmitWith truthy port fwOk r = legacyEmit port fwOk r ∧
    ebb3EmitWith truthy port b r = ebb3Emit port b r := by
  constructor
  · cases r with
    | absMove rate p1 p2 =>
      cases p1 with
      | none => cases p2 <;> simp [legacyEmit, legacyEmitWith, truthy, present]
      | some v =>
        cases p2 with
        | none => simp [legacyEmit, legacyEmitWith, truthy, present]
        | some w =>
          have hv : (v != 0) = true := by simp [suppliedZero] at hz; simpa using hz.1
          have hw : (w != 0) = true := by simp [suppliedZero] at hz; simpa using hz.2
          simp [legacyEmit, legacyEmitWith, truthy, present, hv, hw]
    | lowLevel r1 s1 a1 r2 s2 a2 clear =>
      cases clear with
      | none => simp [legacyEmit, legacyEmitWith, truthy, present]
      | some v =>
        have hv : (v != 0) = true := by simpa [suppliedZero] using hz
        simp [legacyEmit, legacyEmitWith, truthy, present, hv]
    | penDown d pin =>
      cases pin with
      | none => simp [legacyEmit, legacyEmitWith, truthy, present]
      | some v =>
        have hv : (v != 0) = true := by simpa [suppliedZero] using hz
        simp [legacyEmit, legacyEmitWith, truthy, present, hv]
    | penUp d pin =>
      cases pin with
      | none => simp [legacyEmit, legacyEmitWith, truthy, present]
      | some v =>
        have hv : (v != 0) = true := by simpa [suppliedZero] using hz
        simp [legacyEmit, legacyEmitWith, truthy, present, hv]
    | _ => simp [legacyEmit, legacyEmitWith]
  · cases r with
    | penDown d pin =>
      cases pin with
      | none => simp [ebb3Emit, ebb3EmitWith, truthy, present]
      | some v =>
        have hv : (v != 0) = true := by simpa [suppliedZero] using hz
        simp [ebb3Emit, ebb3EmitWith, truthy, present, hv]
    | penUp d pin =>
      cases pin with
      | none => simp [ebb3Emit, ebb3EmitWith, truthy, present]
      | some v =>
        have hv : (v != 0) = true := by simpa [suppliedZero] using hz
        simp [ebb3Emit, ebb3EmitWith, truthy, present, hv]
    | _ => simp [ebb3Emit, ebb3EmitWith]

example : ¬ suppliedZero (.absMove 1000 (some 7) (some 500)) := by decide
/-- the witnesses of F4: with the truthiness tests a supplied zero is dropped -/
example : legacyEmitWith truthy true true (.absMove 1000 (some 0) (some 500)) = some [⟨"HM", [1000]⟩] := by decide
example : legacyEmitWith truthy true true (.penDown 200 (some 0)) = some [⟨"SP", [0, 200]⟩] := by decide
example : ebb3EmitWith truthy true ⟨0, 0⟩ (.penUp 200 (some 0)) = some [⟨"SP", [1, 200]⟩] := by decide
example : legacyEmitWith truthy true true (.lowLevel 1 1 0 0 0 0 (some 0)) = some [⟨"LM", [1, 1, 0, 0, 0, 0]⟩] := by
  decide

end Plotink
