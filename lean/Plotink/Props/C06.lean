import Plotink.Proofs.C06
import Plotink.Proofs.C06GenTop
import Plotink.Proofs.C06GenEbb3Methods
import Plotink.Proofs.C06GenEbb3Full
import Plotink.Proofs.C06GenQueryPI

/-! # C06 — motion / configuration helpers emit exactly the documented EBB command text

`C06.legacyEmit` / `C06.ebb3Emit` model the text written by the helpers of `ebb_motion.py` and of
`ebb3_motion.py` + `ebb3_serial.py` against a board that acknowledges everything (`Model/C06.lean`, tied
to the sources by the differential run of `harness/c06.py`); `C06.documented` is the command reference.
`legacyEmit port fwOk r = none` / `ebb3Emit port board r = none`: the layer has no helper for `r`.
All theorems are for **all** integer arguments (zero and negative included) and all optional-argument
patterns. -/

namespace Plotink
open C06

/-- Legacy layer: every helper writes exactly the documented command(s) — preceded, for the two helpers
that are gated on a firmware version (`servo_timeout`, `queryVoltage`), by the version query `V`. -/
theorem C06_legacy_documented (b : Board) (r : Req) (l : List Cmd)
    (h : legacyEmit true true r = some l) : l = legacyGate r ++ documented b r := by
  cases r with
  | absMove rate p1 p2 =>
    cases p1 <;> cases p2 <;>
      simp [legacyEmit, legacyEmitWith, documented, legacyGate, present] at h ⊢ <;> exact h.symm
  | lowLevel r1 s1 a1 r2 s2 a2 clear =>
    simp only [legacyEmit, legacyEmitWith, if_true, Option.some.injEq] at h
    subst h
    simp only [documented, legacyGate, List.nil_append]
    by_cases hc : (r1 = 0 ∧ a1 = 0 ∨ s1 = 0) ∧ (r2 = 0 ∧ a2 = 0 ∨ s2 = 0)
    · have hn := (lm_cond_iff r1 s1 a1 r2 s2 a2).mp hc
      simp [hc, hn]
    · have hn : axisCanMove r1 s1 a1 ∨ axisCanMove r2 s2 a2 :=
        Classical.byContradiction (fun hnn => hc ((lm_cond_iff r1 s1 a1 r2 s2 a2).mpr hnn))
      cases clear <;> simp [hc, hn, present]
  | timedPause n =>
    simp only [legacyEmit, legacyEmitWith, if_true, Option.some.injEq] at h
    subst h
    simp only [documented, legacyGate, List.nil_append, pauseChunk]
    rw [legacyPauseLoop_eq_doc _ _ (Nat.le_refl _)]
  | penDown delay pin =>
    cases pin <;> simp [legacyEmit, legacyEmitWith, documented, legacyGate, present] at h ⊢ <;> exact h.symm
  | penUp delay pin =>
    cases pin <;> simp [legacyEmit, legacyEmitWith, documented, legacyGate, present] at h ⊢ <;> exact h.symm
  | enable r1 r2 =>
    simp [legacyEmit, legacyEmitWith] at h
    obtain ⟨rfl, rfl⟩ := h
    simp [documented, legacyGate, clampRes_eq]
  | pbConfig pin state dir =>
    simp [legacyEmit, legacyEmitWith] at h
    obtain ⟨rfl, rfl⟩ := h
    simp [documented, legacyGate]
  | servoTimeout ms state =>
    cases state <;>
      simp [legacyEmit, legacyEmitWith, documented, legacyGate, versionQuery] at h ⊢ <;> exact h.symm
  | _ =>
    simp [legacyEmit, legacyEmitWith, documented, legacyGate, versionQuery] at h ⊢ <;> exact h.symm

example : legacyEmit true true (.absMove 1000 (some 0) (some 500)) = some [⟨"HM", [1000, 0, 500]⟩] := by decide

/-- When the board's firmware does not pass the gate, a gated legacy helper sends the version query and
nothing else; ungated helpers do not depend on the firmware version. -/
theorem C06_legacy_gate (r : Req) :
    (legacyGate r ≠ [] → legacyEmit true false r = some (legacyGate r)) ∧
    (legacyGate r = [] → legacyEmit true false r = legacyEmit true true r) := by
  cases r <;> simp [legacyGate, legacyEmit, legacyEmitWith, versionQuery]

example : legacyGate (.servoTimeout 5 none) ≠ [] := by decide
example : legacyGate (.xyMove 1 2 3) = [] := by decide

/-- EBB3 layer (core): every method hands exactly the documented command(s) to `command`/`query`. -/
theorem C06_ebb3_documented (b : Board) (r : Req) (l : List Cmd)
    (h : ebb3Emit true b r = some l) : l = documented b r := by
  cases r with
  | absMove rate p1 p2 =>
    cases p1 <;> cases p2 <;> simp [ebb3Emit, ebb3EmitWith, documented] at h ⊢ <;> exact h.symm
  | timedPause n =>
    simp only [ebb3Emit, ebb3EmitWith, if_true, Option.some.injEq] at h
    subst h
    simp only [documented, pauseChunk]
    rw [ebb3PauseLoop_eq_legacy, legacyPauseLoop_eq_doc _ _ (Nat.le_refl _)]
  | penDown delay pin =>
    cases pin <;> simp [ebb3Emit, ebb3EmitWith, documented, present] at h ⊢ <;> exact h.symm
  | penUp delay pin =>
    cases pin <;> simp [ebb3Emit, ebb3EmitWith, documented, present] at h ⊢ <;> exact h.symm
  | enable r1 r2 =>
    simp only [ebb3Emit, ebb3EmitWith, if_true, Option.some.injEq] at h
    subst h
    exact ebb3Enable_eq_doc b r1 r2
  | servoTimeout ms state =>
    cases state <;> simp [ebb3Emit, ebb3EmitWith, documented] at h ⊢ <;> exact h.symm
  | varWriteInt32 v i =>
    simp only [ebb3Emit, ebb3EmitWith, if_true] at h
    exact varWriteInt32_eq_doc b v i l h
  | varReadInt32 i =>
    simp [ebb3Emit, ebb3EmitWith, documented, List.range, List.range.loop] at h ⊢
    exact h.symm
  | _ =>
    simp [ebb3Emit, ebb3EmitWith, documented] at h ⊢ <;> exact h.symm

example : ebb3Emit true ⟨0, 0⟩ (.enable 0 9) =
    some [⟨"CU", [50, 0]⟩, ⟨"QE", []⟩, ⟨"EM", [5, 5]⟩, ⟨"EM", [0, 5]⟩] := by decide

/-- The two layers emit the same text for the same request (the legacy layer's version-gate query aside). -/
theorem C06_layers_agree (b : Board) (r : Req) (l₁ l₂ : List Cmd)
    (h₁ : legacyEmit true true r = some l₁) (h₂ : ebb3Emit true b r = some l₂) :
    l₁ = legacyGate r ++ l₂ := by
  rw [C06_legacy_documented b r l₁ h₁, C06_ebb3_documented b r l₂ h₂]

example : legacyEmit true true (.timedPause 1501) = some [⟨"SM", [750, 0, 0]⟩, ⟨"SM", [750, 0, 0]⟩, ⟨"SM", [1, 0, 0]⟩]
    ∧ ebb3Emit true ⟨0, 0⟩ (.timedPause 1501) = some [⟨"SM", [750, 0, 0]⟩, ⟨"SM", [750, 0, 0]⟩, ⟨"SM", [1, 0, 0]⟩] := by
  decide

/-- Which requests each layer serves. -/
theorem C06_supports (port fwOk : Bool) (b : Board) (r : Req) :
    ((legacyEmit port fwOk r).isSome ↔ legacySupports r) ∧
    ((ebb3Emit true b r).isSome ↔ ebb3Supports r) := by
  constructor
  · cases r <;> simp [legacyEmit, legacyEmitWith, legacySupports]
  · cases r <;> simp [ebb3Emit, ebb3EmitWith, ebb3Supports, toBytes4, int32InRange]

/-- XY moves send the duration, then the axis-1 (Y) delta, then the axis-2 (X) delta — byte for byte. -/
theorem C06_order (b : Board) (dx dy dur : Int) :
    (legacyEmit true true (.xyMove dx dy dur)).map wires =
      some ["SM," ++ Int.repr dur ++ "," ++ Int.repr dy ++ "," ++ Int.repr dx ++ "\r"] ∧
    (ebb3Emit true b (.xyMove dx dy dur)).map wires =
      some ["SM," ++ Int.repr dur ++ "," ++ Int.repr dy ++ "," ++ Int.repr dx ++ "\r"] := by
  have e : ("SM," : String) = "SM" ++ "," := by decide
  constructor <;>
    (simp [legacyEmit, legacyEmitWith, ebb3Emit, ebb3EmitWith, wires, Cmd.wire, Cmd.text, argsText,
      String.append_assoc]
     rw [e, String.append_assoc])

/-- Motor resolutions: every `EM` command either layer sends for an enable request carries arguments in
0..5, and the request ends with `EM,clamp r1,clamp r2`. -/
theorem C06_clamp (b : Board) (r1 r2 : Int) (l : List Cmd)
    (h : ebb3Emit true b (.enable r1 r2) = some l ∨ legacyEmit true true (.enable r1 r2) = some l) :
    (∀ c ∈ l, c.name = "EM" → ∀ a ∈ c.args, 0 ≤ a ∧ a ≤ 5) ∧
    l.getLast? = some ⟨"EM", [clampDoc r1, clampDoc r2]⟩ ∧
    (clampDoc r1 = if r1 < 0 then 0 else if 5 < r1 then 5 else r1) := by
  have hl : l = documented b (.enable r1 r2) := by
    rcases h with h | h
    · exact C06_ebb3_documented b _ l h
    · have := C06_legacy_documented b _ l h
      simpa [legacyGate] using this
  subst hl
  exact ⟨docEnable_em_range b r1 r2, docEnable_last b r1 r2, rfl⟩

example : ebb3Emit true ⟨3, 3⟩ (.enable (-4) 77) = some [⟨"CU", [50, 0]⟩, ⟨"QE", []⟩, ⟨"EM", [5, 5]⟩, ⟨"EM", [0, 5]⟩] := by
  decide

/-- Timed pause: both layers emit zero-moves `SM,d,0,0` whose durations `d` each lie in 1..750 and sum to
`n` when `n ≥ 1`, and emit nothing when `n ≤ 0`. -/
theorem C06_pause (b : Board) (n : Int) :
    ∃ ds : List Int,
      legacyEmit true true (.timedPause n) = some (ds.map (fun d => ⟨"SM", [d, 0, 0]⟩)) ∧
      ebb3Emit true b (.timedPause n) = some (ds.map (fun d => ⟨"SM", [d, 0, 0]⟩)) ∧
      (n ≤ 0 → ds = []) ∧
      (1 ≤ n → (∀ d ∈ ds, 1 ≤ d ∧ d ≤ 750) ∧ ds.sum = n) := by
  refine ⟨legacyPauseLoop pauseChunk n.toNat n, ?_, ?_, ?_, ?_⟩
  · simp [legacyEmit, legacyEmitWith]
  · simp [ebb3Emit, ebb3EmitWith, ebb3PauseLoop_eq_legacy]
  · intro h
    exact legacyPauseLoop_nonpos _ _ _ h
  · intro h
    obtain ⟨h1, h2⟩ := legacyPauseLoop_spec pauseChunk (by decide) n.toNat n (Nat.le_refl _)
    refine ⟨fun d hd => ?_, ?_⟩
    · have := h1 d hd
      simpa [pauseChunk] using this
    · rw [h2]
      have : ¬ n ≤ 0 := by omega
      simp [this]

/-- The chunking loops are correct for any chunk size ≥ 1 (the source's 750 is compared with the model's
`pauseChunk` on every run). -/
theorem C06_pause_any_chunk (chunk : Int) (hc : 1 ≤ chunk) (n : Int) :
    ebb3PauseLoop chunk n.toNat n = legacyPauseLoop chunk n.toNat n ∧
    (∀ d ∈ legacyPauseLoop chunk n.toNat n, 1 ≤ d ∧ d ≤ chunk) ∧
    (legacyPauseLoop chunk n.toNat n).sum = (if n ≤ 0 then 0 else n) :=
  ⟨ebb3PauseLoop_eq_legacy chunk _ _, legacyPauseLoop_spec chunk hc _ _ (Nat.le_refl _)⟩

example : (1 : Int) ≤ 750 := by decide

/-- A low-level move is suppressed exactly when neither axis can move. -/
theorem C06_suppress (r1 s1 a1 r2 s2 a2 : Int) (clear : Option Int) :
    (legacyEmit true true (.lowLevel r1 s1 a1 r2 s2 a2 clear) = some [] ↔
      ((r1 = 0 ∧ a1 = 0) ∨ s1 = 0) ∧ ((r2 = 0 ∧ a2 = 0) ∨ s2 = 0)) ∧
    (((r1 = 0 ∧ a1 = 0) ∨ s1 = 0) ∧ ((r2 = 0 ∧ a2 = 0) ∨ s2 = 0) ↔
      ¬ (axisCanMove r1 s1 a1 ∨ axisCanMove r2 s2 a2)) := by
  refine ⟨?_, lm_cond_iff r1 s1 a1 r2 s2 a2⟩
  by_cases hc : (r1 = 0 ∧ a1 = 0 ∨ s1 = 0) ∧ (r2 = 0 ∧ a2 = 0 ∨ s2 = 0)
  · simp [legacyEmit, legacyEmitWith, hc]
  · cases clear <;> simp [legacyEmit, legacyEmitWith, hc, present]

/-- With no port, nothing is sent (either layer, any request, any firmware). -/
theorem C06_noport (fwOk : Bool) (b : Board) (r : Req) (l : List Cmd) :
    (legacyEmit false fwOk r = some l → l = []) ∧ (ebb3Emit false b r = some l → l = []) := by
  constructor
  · intro h
    cases r <;> simp [legacyEmit, legacyEmitWith] at h <;>
      first | exact h | exact h.2 | exact h.symm | exact h.2.symm
  · intro h
    cases r <;> simp [ebb3Emit, ebb3EmitWith] at h <;> first | exact h | exact h.symm

/-- Every supplied argument is recoverable from the transmitted text: two request lines with the same
command name and the same bytes carry the same argument list (integer rendering is injective and a
numeral never contains the separator). -/
theorem C06_args_recoverable (c₁ c₂ : Cmd) (hn : c₁.name = c₂.name) (h : c₁.wire = c₂.wire) :
    c₁.args = c₂.args :=
  Cmd.wire_inj_args hn h

example : (⟨"SM", [1, -2, 3]⟩ : Cmd).name = (⟨"SM", [1, -2, 3]⟩ : Cmd).name := rfl

/-- …in particular an XY move's three arguments can be read back from its bytes. -/
theorem C06_xyMove_recoverable (dx dy dur dx' dy' dur' : Int)
    (h : (legacyEmit true true (.xyMove dx dy dur)).map wires =
         (legacyEmit true true (.xyMove dx' dy' dur')).map wires) :
    dx = dx' ∧ dy = dy' ∧ dur = dur' := by
  simp only [legacyEmit, legacyEmitWith, if_true, Option.map_some, wires, List.map_cons, List.map_nil,
    Option.some.injEq, List.cons.injEq, and_true] at h
  have := Cmd.wire_inj_args (c₁ := ⟨"SM", [dur, dy, dx]⟩) (c₂ := ⟨"SM", [dur', dy', dx']⟩) rfl h
  simp at this
  omega

/-- F4: the truthiness tests of the unrepaired sources (`if pin:`, `if clear:`, `if position1 and
position2:`) agree with the presence tests whenever no optional argument is a supplied zero — the
defect is confined to zero-valued optional arguments. -/
theorem C06_truthiness_confined (port fwOk : Bool) (b : Board) (r : Req) (hz : ¬ suppliedZero r) :
    legacyEmitWith truthy port fwOk r = legacyEmit port fwOk r ∧
    ebb3EmitWith truthy port b r = ebb3Emit port b r := by
  constructor
  · cases r with
    | absMove rate p1 p2 =>
      cases p1 with
      | none => cases p2 <;> simp [legacyEmit, legacyEmitWith, truthy, present]
      | some v =>
        cases p2 with
        | none => simp [legacyEmit, legacyEmitWith, truthy, present]
        | some w =>
          have hv : (v != 0) = true := by simp [suppliedZero] at hz; simpa using hz.1
          have hw : (w != 0) = true := by simp [suppliedZero] at hz; simpa using hz.2
          simp [legacyEmit, legacyEmitWith, truthy, present, hv, hw]
    | lowLevel r1 s1 a1 r2 s2 a2 clear =>
      cases clear with
      | none => simp [legacyEmit, legacyEmitWith, truthy, present]
      | some v =>
        have hv : (v != 0) = true := by simpa [suppliedZero] using hz
        simp [legacyEmit, legacyEmitWith, truthy, present, hv]
    | penDown d pin =>
      cases pin with
      | none => simp [legacyEmit, legacyEmitWith, truthy, present]
      | some v =>
        have hv : (v != 0) = true := by simpa [suppliedZero] using hz
        simp [legacyEmit, legacyEmitWith, truthy, present, hv]
    | penUp d pin =>
      cases pin with
      | none => simp [legacyEmit, legacyEmitWith, truthy, present]
      | some v =>
        have hv : (v != 0) = true := by simpa [suppliedZero] using hz
        simp [legacyEmit, legacyEmitWith, truthy, present, hv]
    | _ => simp [legacyEmit, legacyEmitWith]
  · cases r with
    | penDown d pin =>
      cases pin with
      | none => simp [ebb3Emit, ebb3EmitWith, truthy, present]
      | some v =>
        have hv : (v != 0) = true := by simpa [suppliedZero] using hz
        simp [ebb3Emit, ebb3EmitWith, truthy, present, hv]
    | penUp d pin =>
      cases pin with
      | none => simp [ebb3Emit, ebb3EmitWith, truthy, present]
      | some v =>
        have hv : (v != 0) = true := by simpa [suppliedZero] using hz
        simp [ebb3Emit, ebb3EmitWith, truthy, present, hv]
    | _ => simp [ebb3Emit, ebb3EmitWith]

example : ¬ suppliedZero (.absMove 1000 (some 7) (some 500)) := by decide
/-- the witnesses of F4: with the truthiness tests a supplied zero is dropped -/
example : legacyEmitWith truthy true true (.absMove 1000 (some 0) (some 500)) = some [⟨"HM", [1000]⟩] := by decide
example : legacyEmitWith truthy true true (.penDown 200 (some 0)) = some [⟨"SP", [0, 200]⟩] := by decide
example : ebb3EmitWith truthy true ⟨0, 0⟩ (.penUp 200 (some 0)) = some [⟨"SP", [1, 200]⟩] := by decide
example : legacyEmitWith truthy true true (.lowLevel 1 1 0 0 0 0 (some 0)) = some [⟨"LM", [1, 1, 0, 0, 0, 0]⟩] := by
  decide


/-! ## The same statements about the SOURCE-REGENERATED code

`Gen.ebb_motion_*` (the legacy helpers) and `Gen.EBBMotionWrap_*` / `Gen.EBB3_*` (the EBB3 methods) are regenerated
from `plotink/ebb_motion.py`, `ebb3_motion.py`, `ebb3_serial.py` on every run (`translator/pyio2lean.py`); they call the
regenerated `ebb_serial.command/query` (bridged to `Model/C07.lean` by `C07_gen_bridge`) and the regenerated
`EBB3.command` (bridged to `Model/Ebb3.lean` by `Ebb3Gen.command_bridge`).  `C06Gen.legacyGen fuel port verbose w r` /
`C06Gen.ebb3Gen fuel w r` is the call of the regenerated helper / method that serves the request `r`, on the encoded
arguments; `C06Gen.Wrote o w (some l)` / `Wrote3`: the call ended (value or escaping exception, never out of fuel) and
the port's write log grew by exactly the wire texts of `l`.

Domain.  Legacy: `C06Gen.Dom w.port` — every scripted fault is a serial I/O exception and every scripted line is ASCII
(acknowledgements, silence, error replies, garbage and I/O faults in any order: much more than the acknowledging board
of the model); fuel ≥ 101, plus one pass per chunk for the pause loop.  EBB3: `Ebb3Gen.Good w` and no recorded error;
fuel ≥ 26.  Covered: every request the legacy layer serves except `queryMotorsPI` (23 helpers); the 14 EBB3 methods that
transmit a single command (`C06Gen.Ebb3Covered`).  A source whose helper formats another text, tests an optional
argument by truthiness, chunks or suppresses differently no longer satisfies these theorems (the build fails). -/

open C06Gen in
/-- **Legacy layer, regenerated code.**  Each bridged helper writes exactly the documented command(s), preceded by the
version query for the two gated helpers — or, when the gate did not return `True`, only the version query. -/
theorem C06_gen_legacy_documented (b : Board) (fuel : Nat) (vb : PyObj.Val) (w : PyObj.World PyObj.NoObj) (r : Req)
    (o : PyObj.Out PyObj.NoObj) (hf : FuelFor fuel r) (hd : Dom w.port) (ho : legacyGen fuel true vb w r = some o) :
    ∃ sent, Wrote o w (some sent) ∧
      (sent = legacyGate r ++ documented b r ∨ (legacyGate r ≠ [] ∧ sent = legacyGate r)) := by
  obtain ⟨fwOk, hw⟩ := legacyGen_emit fuel true vb w r o hf hd ho
  have hs : legacySupports r := ((legacyGen_isSome fuel true vb w r).mp (by rw [ho]; rfl)).1
  have hsome : ∀ f, ∃ l, legacyEmit true f r = some l := fun f =>
    Option.isSome_iff_exists.mp ((C06_supports true f b r).1.mpr hs)
  obtain ⟨l, hl⟩ := hsome fwOk
  refine ⟨l, by rw [← hl]; exact hw, ?_⟩
  cases fwOk with
  | true => exact Or.inl (C06_legacy_documented b r l hl)
  | false =>
    by_cases hg : legacyGate r = []
    · rw [(C06_legacy_gate r).2 hg] at hl
      exact Or.inl (C06_legacy_documented b r l hl)
    · rw [(C06_legacy_gate r).1 hg] at hl
      cases hl
      exact Or.inr ⟨hg, rfl⟩

open C06Gen Ebb3Gen in
/-- **EBB3 layer, regenerated code.**  On a connected object with no recorded error each bridged method hands exactly
the documented command to the port, whatever the board replies. -/
theorem C06_gen_ebb3_documented (b : Board) (fuel : Nat) (hf : 26 ≤ fuel) (w : PyObj.World Gen.EBB3_Obj) (hg : Good w)
    (he : w.obj.err = .none) (hc : connected w = true) (r : Req) (o : PyObj.Out Gen.EBB3_Obj)
    (ho : ebb3Gen fuel w r = some o) :
    Wrote3 o w (some (documented b r)) := by
  have hw := ebb3Gen_emit fuel hf b w hg he r o ho
  rw [hc] at hw
  have hcov : Ebb3Covered r := (ebb3Gen_isSome fuel w r).mp (by rw [ho]; rfl)
  obtain ⟨l, hl⟩ := Option.isSome_iff_exists.mp (ebb3Emit_isSome_of_covered b r hcov)
  rw [hl] at hw
  rw [← C06_ebb3_documented b r l hl]
  exact hw

open C06Gen Ebb3Gen in
/-- **The two regenerated layers transmit the same text** for the same request (the legacy gate query aside). -/
theorem C06_gen_layers_agree (b : Board) (fuel : Nat) (hf : 101 ≤ fuel) (vb : PyObj.Val) (r : Req)
    (w₁ : PyObj.World PyObj.NoObj) (o₁ : PyObj.Out PyObj.NoObj) (hf₁ : FuelFor fuel r) (hd : Dom w₁.port)
    (h₁ : legacyGen fuel true vb w₁ r = some o₁)
    (w₂ : PyObj.World Gen.EBB3_Obj) (o₂ : PyObj.Out Gen.EBB3_Obj) (hg : Good w₂) (he : w₂.obj.err = .none)
    (hc : connected w₂ = true) (h₂ : ebb3Gen fuel w₂ r = some o₂) :
    ∃ l₁ l₂, Wrote o₁ w₁ (some l₁) ∧ Wrote3 o₂ w₂ (some l₂) ∧
      (l₁ = legacyGate r ++ l₂ ∨ (legacyGate r ≠ [] ∧ l₁ = legacyGate r)) := by
  obtain ⟨l₁, hw₁, hcase⟩ := C06_gen_legacy_documented b fuel vb w₁ r o₁ hf₁ hd h₁
  exact ⟨l₁, documented b r, hw₁, C06_gen_ebb3_documented b fuel (by omega) w₂ hg he hc r o₂ h₂, hcase⟩

open C06Gen Ebb3Gen in
/-- **Order, regenerated code**: both `doXYMove` and `xy_move` append the bytes `SM,<dur>,<dy>,<dx>\r`. -/
theorem C06_gen_order (b : Board) (fuel : Nat) (hf : 101 ≤ fuel) (dx dy dur : Int) (vb : PyObj.Val) :
    (∀ (w : PyObj.World PyObj.NoObj), C07Gen.IoScript w.port →
      ∃ w', outWorld (Gen.ebb_motion_doXYMove fuel .port (.int dx) (.int dy) (.int dur) vb w) = some w' ∧
        w'.port.log = w.port.log ++
          [("SM," ++ Int.repr dur ++ "," ++ Int.repr dy ++ "," ++ Int.repr dx ++ "\r").toList]) ∧
    (∀ (w : PyObj.World Gen.EBB3_Obj), Good w → w.obj.err = .none → connected w = true →
      ∃ w', outWorld3 (Gen.EBBMotionWrap_xy_move fuel (.int dx) (.int dy) (.int dur) w) = some w' ∧
        w'.port.log = w.port.log ++
          [("SM," ++ Int.repr dur ++ "," ++ Int.repr dy ++ "," ++ Int.repr dx ++ "\r").toList]) := by
  have hwire : Cmd.wire ⟨"SM", [dur, dy, dx]⟩ = "SM," ++ Int.repr dur ++ "," ++ Int.repr dy ++ "," ++ Int.repr dx ++ "\r" := by
    have h := (C06_order b dx dy dur).1
    simpa [legacyEmit, legacyEmitWith, wires] using h
  constructor
  · intro w hio
    obtain ⟨w', h1, h2⟩ := doXYMove_bridge fuel hf true true dx dy dur vb w hio
    refine ⟨w', h1, ?_⟩
    rw [h2]
    simp [legacyEmit, legacyEmitWith, hwire]
  · intro w hg he hc
    obtain ⟨w', h1, h2⟩ := xy_move_bridge fuel (by omega) b dx dy dur w hg he
    refine ⟨w', h1, ?_⟩
    rw [h2, hc]
    simp [ebb3Emit, ebb3EmitWith, hwire]

open C06Gen in
/-- **Clamp, regenerated code**: `sendEnableMotors` appends `EM,<c>,<c>` with `c = clamp res` in 0..5. -/
theorem C06_gen_clamp (fuel : Nat) (hf : 101 ≤ fuel) (res : Int) (vb : PyObj.Val) (w : PyObj.World PyObj.NoObj)
    (hio : C07Gen.IoScript w.port) :
    ∃ w', outWorld (Gen.ebb_motion_sendEnableMotors fuel .port (.int res) vb w) = some w' ∧
      w'.port.log = w.port.log ++ [(Cmd.wire ⟨"EM", [clampDoc res, clampDoc res]⟩).toList] ∧
      0 ≤ clampDoc res ∧ clampDoc res ≤ 5 := by
  obtain ⟨w', h1, h2⟩ := sendEnableMotors_bridge fuel hf true true res vb w hio
  refine ⟨w', h1, ?_, clampDoc_range res⟩
  rw [h2]
  simp [legacyEmit, legacyEmitWith, clampRes_eq]

open C06Gen in
/-- **Pause, regenerated code**: `doTimedPause` appends zero-moves `SM,<d>,0,0` whose durations each lie in 1..750 and
sum to `n` when `n ≥ 1`, and nothing when `n ≤ 0`. -/
theorem C06_gen_pause (fuel : Nat) (hf : 101 ≤ fuel) (n : Int) (hn : n.toNat + 1 ≤ fuel) (vb : PyObj.Val)
    (w : PyObj.World PyObj.NoObj) (hd : Dom w.port) :
    ∃ (ds : List Int) (w' : PyObj.World PyObj.NoObj) (v : PyObj.Val),
      Gen.ebb_motion_doTimedPause fuel .port (.int n) vb w = .val v w' ∧
      w'.port.log = w.port.log ++ ds.map (fun d => (Cmd.wire ⟨"SM", [d, 0, 0]⟩).toList) ∧
      (n ≤ 0 → ds = []) ∧ (1 ≤ n → (∀ d ∈ ds, 1 ≤ d ∧ d ≤ 750) ∧ ds.sum = n) := by
  obtain ⟨ds, hl, _, h0, h1⟩ := C06_pause ⟨0, 0⟩ n
  obtain ⟨w', v, e, hlog, _⟩ := doTimedPause_bridge fuel hf true true n hn vb w hd
  refine ⟨ds, w', v, e, ?_, h0, h1⟩
  rw [hlog, hl]
  simp [List.map_map, Function.comp_def]

open C06Gen in
/-- **Suppression, regenerated code**: `doLowLevelMove` leaves the write log untouched exactly when neither axis can
move. -/
theorem C06_gen_suppress (fuel : Nat) (hf : 101 ≤ fuel) (r1 s1 a1 r2 s2 a2 : Int) (clear : Option Int) (vb : PyObj.Val)
    (w : PyObj.World PyObj.NoObj) (hio : C07Gen.IoScript w.port) :
    ∃ w', outWorld (Gen.ebb_motion_doLowLevelMove fuel .port (.int r1) (.int s1) (.int a1) (.int r2) (.int s2) (.int a2)
        (encOpt clear) vb w) = some w' ∧
      (w'.port.log = w.port.log ↔ ((r1 = 0 ∧ a1 = 0) ∨ s1 = 0) ∧ ((r2 = 0 ∧ a2 = 0) ∨ s2 = 0)) := by
  obtain ⟨w', h1, h2⟩ := doLowLevelMove_bridge fuel hf true true r1 s1 a1 r2 s2 a2 clear vb w hio
  refine ⟨w', h1, ?_⟩
  have hs := (C06_suppress r1 s1 a1 r2 s2 a2 clear).1
  obtain ⟨l, hl⟩ := Option.isSome_iff_exists.mp
    ((C06_supports true true ⟨0, 0⟩ (.lowLevel r1 s1 a1 r2 s2 a2 clear)).1.mpr (by simp [legacySupports]))
  rw [hl] at h2 hs
  rw [h2, ← hs]
  simp only [Option.getD_some, List.append_right_eq_self, List.map_eq_nil_iff, Option.some.injEq]

open C06Gen Ebb3Gen in
/-- **No port, regenerated code**: with `port_name = None` (legacy) or `self.port = None` (EBB3) nothing is written. -/
theorem C06_gen_noport (b : Board) (fuel : Nat) (vb : PyObj.Val) (r : Req) :
    (∀ (w : PyObj.World PyObj.NoObj) (o : PyObj.Out PyObj.NoObj), FuelFor fuel r → Dom w.port →
      legacyGen fuel false vb w r = some o → ∃ w', outWorld o = some w' ∧ w'.port.log = w.port.log) ∧
    (∀ (w : PyObj.World Gen.EBB3_Obj) (o : PyObj.Out Gen.EBB3_Obj), 26 ≤ fuel → Good w → w.obj.err = .none →
      connected w = false → ebb3Gen fuel w r = some o → ∃ w', outWorld3 o = some w' ∧ w'.port.log = w.port.log) := by
  constructor
  · intro w o hf hd ho
    obtain ⟨fwOk, w', h1, h2⟩ := legacyGen_emit fuel false vb w r o hf hd ho
    refine ⟨w', h1, ?_⟩
    cases hl : legacyEmit false fwOk r with
    | none => rw [hl] at h2; simpa using h2
    | some l =>
      have := (C06_noport fwOk b r l).1 hl
      subst this
      rw [hl] at h2; simpa using h2
  · intro w o hf hg he hc ho
    obtain ⟨w', h1, h2⟩ := ebb3Gen_emit fuel hf b w hg he r o ho
    refine ⟨w', h1, ?_⟩
    rw [hc] at h2
    cases hl : ebb3Emit false b r with
    | none => rw [hl] at h2; simpa using h2
    | some l =>
      have := (C06_noport true b r l).2 hl
      subst this
      rw [hl] at h2; simpa using h2


/-! ## Every constructor both layers serve (regenerated code)

`legacyGenFull` / `ebb3GenFull` add the helpers that were still missing above: legacy `query_enable_motors` (under
`RepliesFor`: each of its five replies carries the marker `PI,`), and the 15 remaining EBB3 methods — the query methods
(`var_read`, `dio_b_read`, `query_steps`, `query_voltage`, `query_current`, `motors_query_enabled`, `query_nickname`,
`query_statusbyte`) and the direct writes (`reboot`, `bootload`) for every script of the domain, and the methods that
transmit several requests (`timed_pause`, `motors_enable`, `dio_b_config`, `var_write_int32`, `var_read_int32`) under the
acknowledging-script hypothesis `C06Gen.AckFor` (`Ebb3.Acked`: each documented request, in turn, is answered within its
retry window by a line beginning with its name and without `Err:`, on a write that does not fault; `QL` payloads are
integers; the `QE` payload reports the board state).  The EBB3 side goes through the master bridge `Ebb3Gen.gen_bridge`
(regenerated method ~ `Ebb3.run srcParams scriptDev`). -/

open C06Gen in
/-- **Legacy layer, regenerated code, all 24 requests.** -/
theorem C06_gen_legacy_documented_full (b : Board) (fuel : Nat) (vb : PyObj.Val) (w : PyObj.World PyObj.NoObj) (r : Req)
    (o : PyObj.Out PyObj.NoObj) (hf : FuelFor fuel r) (hd : Dom w.port) (hrep : RepliesFor r w.port)
    (ho : legacyGenFull fuel true vb w r = some o) :
    ∃ sent, Wrote o w (some sent) ∧
      (sent = legacyGate r ++ documented b r ∨ (legacyGate r ≠ [] ∧ sent = legacyGate r)) := by
  obtain ⟨fwOk, hw⟩ := legacyGenFull_emit fuel true vb w r o hf hd (fun _ => hrep) ho
  have hs : legacySupports r := (legacyGenFull_isSome fuel true vb w r).mp (by rw [ho]; rfl)
  have hsome : ∀ f, ∃ l, legacyEmit true f r = some l := fun f =>
    Option.isSome_iff_exists.mp ((C06_supports true f b r).1.mpr hs)
  obtain ⟨l, hl⟩ := hsome fwOk
  refine ⟨l, by rw [← hl]; exact hw, ?_⟩
  cases fwOk with
  | true => exact Or.inl (C06_legacy_documented b r l hl)
  | false =>
    by_cases hg : legacyGate r = []
    · rw [(C06_legacy_gate r).2 hg] at hl
      exact Or.inl (C06_legacy_documented b r l hl)
    · rw [(C06_legacy_gate r).1 hg] at hl
      cases hl
      exact Or.inr ⟨hg, rfl⟩

open C06Gen Ebb3Gen in
/-- **EBB3 layer, regenerated code, all 29 requests.**  On a connected object with no recorded error every method hands
exactly the documented request(s) to the port — the multi-request methods when the script acknowledges them. -/
theorem C06_gen_ebb3_documented_full (b : Board) (fuel : Nat) (w : PyObj.World Gen.EBB3_Obj) (hg : Good w)
    (he : w.obj.err = .none) (hc : connected w = true) (r : Req) (o : PyObj.Out Gen.EBB3_Obj)
    (hside : Ebb3Side fuel w r) (hsup : ebb3Supports r) (hack : AckFor b r (absWorld w).dev)
    (ho : ebb3GenFull fuel w r = some o) :
    Wrote3 o w (some (documented b r)) := by
  unfold ebb3GenFull at ho
  cases h : ebb3Gen fuel w r with
  | some o' =>
    rw [h] at ho
    simp only [Option.some.injEq] at ho
    subst ho
    exact C06_gen_ebb3_documented b fuel hside.1 w hg he hc r o' h
  | none =>
    rw [h] at ho
    cases hcall : callNew r with
    | none => rw [hcall] at ho; cases ho
    | some c =>
      rw [hcall] at ho
      simp only [Option.map_some, Option.some.injEq] at ho
      subst ho
      obtain ⟨hfc, hpc⟩ := hside.2 c hcall
      exact ebb3New_emit fuel b w hg he hc r c hcall hfc hpc hsup hack

open C06Gen Ebb3Gen in
/-- **The two regenerated layers transmit the same text** for every request both serve (the legacy gate query aside). -/
theorem C06_gen_layers_agree_full (b : Board) (fuel : Nat) (vb : PyObj.Val) (r : Req)
    (w₁ : PyObj.World PyObj.NoObj) (o₁ : PyObj.Out PyObj.NoObj) (hf₁ : FuelFor fuel r) (hd : Dom w₁.port)
    (hrep : RepliesFor r w₁.port) (h₁ : legacyGenFull fuel true vb w₁ r = some o₁)
    (w₂ : PyObj.World Gen.EBB3_Obj) (o₂ : PyObj.Out Gen.EBB3_Obj) (hg : Good w₂) (he : w₂.obj.err = .none)
    (hc : connected w₂ = true) (hside : Ebb3Side fuel w₂ r) (hsup : ebb3Supports r) (hack : AckFor b r (absWorld w₂).dev)
    (h₂ : ebb3GenFull fuel w₂ r = some o₂) :
    ∃ l₁ l₂, Wrote o₁ w₁ (some l₁) ∧ Wrote3 o₂ w₂ (some l₂) ∧
      (l₁ = legacyGate r ++ l₂ ∨ (legacyGate r ≠ [] ∧ l₁ = legacyGate r)) := by
  obtain ⟨l₁, hw₁, hcase⟩ := C06_gen_legacy_documented_full b fuel vb w₁ r o₁ hf₁ hd hrep h₁
  exact ⟨l₁, documented b r, hw₁, C06_gen_ebb3_documented_full b fuel w₂ hg he hc r o₂ hside hsup hack h₂, hcase⟩

open C06Gen Ebb3Gen in
/-- **Coverage**: `ebb3GenFull` serves exactly the requests the EBB3 layer serves (for in-range 32-bit values), and
`legacyGenFull` exactly those the legacy layer serves. -/
theorem C06_gen_full_coverage (fuel : Nat) (b : Board) (vb : PyObj.Val) (w₁ : PyObj.World PyObj.NoObj)
    (w₂ : PyObj.World Gen.EBB3_Obj) (r : Req) :
    ((legacyGenFull fuel true vb w₁ r).isSome ↔ legacySupports r) ∧
    (ebb3Supports r → (ebb3GenFull fuel w₂ r).isSome) := by
  refine ⟨legacyGenFull_isSome fuel true vb w₁ r, fun h => ?_⟩
  exact ebb3GenFull_isSome fuel w₂ b r ((C06_supports true true b r).2.mpr h)

open C06Gen Ebb3Gen in
/-- **Pause, regenerated EBB3 code**: when the script acknowledges them, `timed_pause` appends zero-moves `SM,<d>,0,0`
whose durations each lie in 1..750 and sum to `n` (`n ≥ 1`), and nothing when `n ≤ 0`. -/
theorem C06_gen_pause_ebb3 (b : Board) (fuel : Nat) (n : Int) (hf : max 26 (n.toNat + 1) ≤ fuel) (w : PyObj.World Gen.EBB3_Obj)
    (hg : Good w) (he : w.obj.err = .none) (hc : connected w = true) (hack : AckFor b (.timedPause n) (absWorld w).dev) :
    ∃ (ds : List Int) (w' : PyObj.World Gen.EBB3_Obj),
      outWorld3 (Gen.EBBMotionWrap_timed_pause fuel (.int n) w) = some w' ∧
      w'.port.log = w.port.log ++ ds.map (fun d => (Cmd.wire ⟨"SM", [d, 0, 0]⟩).toList) ∧
      (n ≤ 0 → ds = []) ∧ (1 ≤ n → (∀ d ∈ ds, 1 ≤ d ∧ d ≤ 750) ∧ ds.sum = n) := by
  obtain ⟨ds, _, hl, h0, h1⟩ := C06_pause b n
  have hdoc : documented b (.timedPause n) = ds.map (fun d => ⟨"SM", [d, 0, 0]⟩) := by
    have := C06_ebb3_documented b (.timedPause n) _ hl
    exact this.symm
  obtain ⟨w', e1, e2⟩ := ebb3New_emit fuel b w hg he hc (.timedPause n) (.timed_pause n) rfl hf trivial trivial hack
  refine ⟨ds, w', e1, ?_, h0, h1⟩
  rw [e2, hdoc]
  simp [List.map_map, Function.comp_def]


section
open C06Gen Ebb3Gen PyObj
/-- non-vacuity of the domains: a script with an acknowledgement, a silent read, a serial fault and a failing write -/
def C06Gen.exPort : PyIO.Port := ⟨[.line ['O', 'K', '\r', '\n'], .empty, .raise .serialException], [.ok, .raise .osError], [], 0⟩
example : Dom C06Gen.exPort := by
  refine ⟨⟨fun c hc => ?_, fun c hc => ?_⟩, by decide⟩
  · simp [C06Gen.exPort] at hc; subst hc; show PyIO.catches _ _ = true; decide
  · simp [C06Gen.exPort] at hc; subst hc; show PyIO.catches _ _ = true; decide
example : FuelFor 1000 (.timedPause 751) := by unfold FuelFor; decide
example : (legacyGen 101 true .none ⟨⟨⟩, C06Gen.exPort, ⟨.ok (.list []), .none, true⟩⟩ (.absMove 1000 (some 0) (some 500))).isSome = true := rfl
example : Good ⟨{ Gen.EBB3_Obj.init with port := .port }, C06Gen.exPort, ⟨.ok (.list []), .none, true⟩⟩ := by
  refine ⟨⟨Or.inl rfl, trivial, trivial, Or.inl rfl, trivial, trivial, trivial⟩, fun c hc => ?_, fun c hc => ?_, fun b hb => ?_⟩
  · simp [C06Gen.exPort] at hc; subst hc; show PyIO.catches _ _ = true; decide
  · simp [C06Gen.exPort] at hc; subst hc; show PyIO.catches _ _ = true; decide
  · simp [C06Gen.exPort] at hb; subst hb; decide
/-- non-vacuity of the acknowledging-script and reply hypotheses -/
example : AckFor ⟨0, 0⟩ (.pbConfig 1 1 0) ⟨[.line ['P', 'O', '\r', '\n'], .line [], .line ['P', 'D']], []⟩ := by
  refine ⟨⟨rfl, ['P', 'O'], by decide, by decide, by decide⟩, ⟨rfl, ['P', 'D'], by decide, by decide, by decide⟩, trivial⟩
example : RepliesFor .queryMotorsPI ⟨[.line ['P', 'I', ',', '1'], .line ['P', 'I', ',', '0'], .line ['P', 'I', ',', '1'], .line ['P', 'I', ',', '1'], .line ['P', 'I', ',', '1']], [], [], 0⟩ := by
  refine ⟨⟨['P', 'I', ',', '1'], by decide, ['1'], rfl⟩, ⟨['P', 'I', ',', '0'], by decide, ['0'], rfl⟩,
    ⟨['P', 'I', ',', '1'], by decide, ['1'], rfl⟩, ⟨['P', 'I', ',', '1'], by decide, ['1'], rfl⟩,
    ⟨['P', 'I', ',', '1'], by decide, ['1'], rfl⟩, trivial⟩
end

end Plotink
