import Plotink.Proofs.C07
import Plotink.Proofs.C07Gen

/-! # C07 — legacy serial primitives: one write, aligned replies, no exception on faults

Theorems about the hand-written model `Plotink.C07.query` / `command` / `call`
(`Model/C07.lean`, tied to `plotink/ebb_serial.py` by the correspondence run of `harness/c07.py`).

Domain: request texts are ASCII `str` (or `None`); the lines a board sends are ASCII bytes.  The
read script ranges over `line b | empty | raiseIO`, the write script over `ok | raiseIO`; error
replies are lines.  `P : Params` is arbitrary (any retry limit, any no-OK list) except that the retry
loop of `query` decodes what it reads (`P.decodeRetry = true`; `C07_decode_needed` shows that the
hypothesis cannot be dropped). -/

namespace Plotink
open C07

/-- **Exactly one write.**  With a port and a text, the call appends exactly the request to the
write log — for every read script, every write script, every parameter set; with no port or no
text nothing is touched and `None` is returned. -/
theorem C07_one_write (P : Params) (r : Req) (port : Option Port) :
    (∀ p c, port = some p → r.cmd = some c → isAscii c = true →
      ∃ p', (call P r port).2 = some p' ∧ p'.log = p.log ++ [c]) ∧
    ((port = none ∨ r.cmd = none) → call P r port = (.ok .none, port)) := by
  constructor
  · intro p c hp hcmd hc
    subst hp
    unfold call
    simp only [hcmd]
    refine ⟨_, rfl, ?_⟩
    cases r.isQuery
    · simpa using command_log P c p hc
    · simpa using query_log P c p hc
  · intro h
    unfold call
    rcases h with h | h
    · subst h; rfl
    · rw [h]; cases port <;> rfl

/-- **Never raises.**  For every read script over {ASCII line, empty, I/O exception} and every write
script, a call returns normally; what is left of the script is again such a script (so the statement
applies to every later call as well). -/
theorem C07_no_raise (P : Params) (hdec : P.decodeRetry = true) (r : Req) (port : Option Port)
    (hc : ∀ c, r.cmd = some c → isAscii c = true)
    (hp : ∀ p, port = some p → allAscii p.reads = true) :
    (∃ v, (call P r port).1 = .ok v) ∧
    (∀ p', (call P r port).2 = some p' → allAscii p'.reads = true) := by
  unfold call
  cases port with
  | none => exact ⟨⟨_, rfl⟩, by intro p' h; cases h⟩
  | some p =>
    cases hcmd : r.cmd with
    | none => exact ⟨⟨_, rfl⟩, by intro p' h; cases h; exact hp p rfl⟩
    | some c =>
      have hc' := hc c hcmd
      have hp' := hp p rfl
      simp only
      cases r.isQuery
      · have := command_ok P c p hc' hp'
        exact ⟨⟨_, this.1⟩, by intro p' h; cases h; exact this.2⟩
      · have := query_text P c p hdec hc' hp'
        exact ⟨⟨_, this.1⟩, by intro p' h; cases h; exact this.2⟩

/-- **`query` returns text**: a `str`, namely what arrived within the first `retry + 1` reads (the
first non-empty line, no read before it having raised), and `''` when the write failed. -/
theorem C07_text (P : Params) (hdec : P.decodeRetry = true) (c : Str) (p : Port)
    (hc : isAscii c = true) (hp : allAscii p.reads = true) :
    (call P ⟨true, some c⟩ (some p)).1 =
      .ok (.str (if firstWriteOk p = true then arrived (P.retry + 1) p.reads else [])) := by
  unfold call
  exact (query_text P c p hdec hc hp).1

/-- `arrived`, spelled out (1): a non-empty line preceded by at most `retry` empty reads is what arrived -/
theorem C07_text_data (k d : Nat) (data : Bytes) (rest : List Rd) (hd : d ≤ k) (hn : data ≠ []) :
    arrived (k + 1) (List.replicate d .empty ++ .line data :: rest) = data := by
  induction d generalizing k with
  | zero => simp [arrived, hn]
  | succ d ih =>
    obtain ⟨m, rfl⟩ : ∃ m, k = m + 1 := ⟨k - 1, by omega⟩
    simp only [List.replicate_succ, List.cons_append, arrived]
    exact ih m (by omega)

/-- `arrived`, spelled out (2): silence (only empty reads, then nothing), or an I/O exception before any
line, means that nothing arrived -/
theorem C07_text_silence (k d : Nat) (tail : List Rd) (ht : tail = [] ∨ ∃ c t, tail = .raise c :: t) :
    arrived k (List.replicate d .empty ++ tail) = [] := by
  induction d generalizing k with
  | zero =>
    rcases ht with rfl | ⟨c, t, rfl⟩
    · simpa using arrived_nil k
    · cases k <;> simp [arrived]
  | succ d ih =>
    cases k with
    | zero => simp [arrived]
    | succ k =>
      simp only [List.replicate_succ, List.cons_append, arrived]
      exact ih k

/-- **Reads consumed.**  With the request written: an ordinary query consumes exactly the data line
and the trailing line, each with the (at most `retry`) empty reads before it; a query of the no-OK
list and a command consume exactly one line with its empties; nothing after that is touched.  And for
*every* script an ordinary query makes at most `2·(retry+1)` reads, the others at most `retry+1`. -/
theorem C07_reads (P : Params) (hdec : P.decodeRetry = true) (c : Str) (hc : isAscii c = true)
    (d1 d2 : Nat) (data trail : Bytes) (rest : List Rd) (writes : List Wr) (log : List Bytes) (nread : Nat)
    (h1 : d1 ≤ P.retry) (h2 : d2 ≤ P.retry) (hd : data ≠ []) (ht : trail ≠ [])
    (ha : isAscii data = true) (hat : isAscii trail = true)
    (hw : ∀ w, writes.head? = some w → w = .ok) :
    (P.noOK.contains (reqName c) = false →
      query P c ⟨List.replicate d1 .empty ++ .line data :: (List.replicate d2 .empty ++ .line trail :: rest),
          writes, log, nread⟩
        = (.ok (.str data), ⟨rest, writes.tail, log ++ [c], nread + d1 + d2 + 2⟩)) ∧
    (P.noOK.contains (reqName c) = true →
      query P c ⟨List.replicate d1 .empty ++ .line data :: rest, writes, log, nread⟩
        = (.ok (.str data), ⟨rest, writes.tail, log ++ [c], nread + d1 + 1⟩)) ∧
    command P c ⟨List.replicate d1 .empty ++ .line trail :: rest, writes, log, nread⟩
        = (.ok .none, ⟨rest, writes.tail, log ++ [c], nread + d1 + 1⟩) ∧
    (∀ p : Port, (query P c p).2.nread ≤ p.nread +
        (if P.noOK.contains (reqName c) then P.retry + 1 else 2 * (P.retry + 1))) ∧
    (∀ p : Port, (command P c p).2.nread ≤ p.nread + (P.retry + 1)) := by
  have hwok : ∀ reads, firstWriteOk ⟨reads, writes, log, nread⟩ = true := by
    intro reads
    unfold firstWriteOk
    cases writes with
    | nil => rfl
    | cons w ws =>
      have := hw w rfl
      subst this; rfl
  exact ⟨fun hno => query_reads_ordinary P c d1 d2 data trail rest writes log nread hdec hc hno h1 h2 hd ht ha (hwok _),
    fun hno => query_reads_noOK P c d1 data rest writes log nread hdec hc hno h1 hd ha (hwok _),
    command_reads P c d1 trail rest writes log nread hc h1 ht hat (hwok _),
    query_nread P c, command_nread P c⟩

/-- what `runSeq` must produce against a conforming board: per call the expected value and an
empty device queue -/
def C07.alignedTrace (es : List Exch) : List (Except PyExc Val × List Rd) :=
  es.map (fun e => (e.expected, []))

/-- **Alignment.**  For every list of requests against a conforming legacy board (reply queued when
the request is written; data line then `OK` for ordinary queries, one line for no-OK queries, `OK`
for commands, each line preceded by at most `retry` empty reads), starting from an empty device
queue and with writes that succeed: the `k`-th call returns the data line of the `k`-th request
(`None` for a command) and the device queue is empty after every call. -/
theorem C07_aligned (P : Params) (hdec : P.decodeRetry = true) (es : List Exch)
    (hconf : ∀ e ∈ es, e.Conforms P) (p : Port) (hq : p.reads = [])
    (hw : ∀ w ∈ p.writes, w = .ok) :
    runSeq P es p = C07.alignedTrace es := by
  induction es generalizing p with
  | nil => rfl
  | cons e es ih =>
    obtain ⟨reads, writes, log, nread⟩ := p
    simp only at hq hw
    subst hq
    obtain ⟨hc, h1, hrest⟩ := hconf e (List.mem_cons_self)
    have hwok : ∀ reads, firstWriteOk ⟨reads, writes, log, nread⟩ = true := by
      intro reads
      unfold firstWriteOk
      cases writes with
      | nil => rfl
      | cons w ws =>
        have := hw w (List.mem_cons_self)
        subst this; rfl
    have hwt : ∀ w ∈ writes.tail, w = .ok := fun w h => hw w (List.mem_of_mem_tail h)
    have key : ∃ n', (if e.isQuery then query P e.cmd else command P e.cmd)
        ⟨[] ++ e.reply P, writes, log, nread⟩ = (e.expected, ⟨[], writes.tail, log ++ [e.cmd], n'⟩) := by
      unfold Exch.reply Exch.expected
      cases hq : e.isQuery
      · simp only [hq, Bool.false_eq_true, ↓reduceIte] at hrest
        simp only [Bool.false_eq_true, ↓reduceIte, List.nil_append]
        exact ⟨_, command_reads P e.cmd e.d1 e.trail [] writes log nread hc h1 hrest.1 hrest.2 (hwok _)⟩
      · simp only [hq, ↓reduceIte] at hrest
        obtain ⟨hd, ha, hord⟩ := hrest
        cases hno : P.noOK.contains (reqName e.cmd)
        · obtain ⟨h2, ht⟩ := hord hno
          simp only [↓reduceIte, Bool.false_eq_true, List.nil_append, List.append_assoc,
            List.cons_append]
          exact ⟨_, query_reads_ordinary P e.cmd e.d1 e.d2 e.data e.trail [] writes log nread hdec hc hno
            h1 h2 hd ht ha (hwok _)⟩
        · simp only [↓reduceIte, List.nil_append]
          exact ⟨_, query_reads_noOK P e.cmd e.d1 e.data [] writes log nread hdec hc hno h1 hd ha (hwok _)⟩
    obtain ⟨n', key⟩ := key
    unfold runSeq
    simp only [key, C07.alignedTrace, List.map_cons, List.cons.injEq, true_and]
    exact ih (fun e' he' => hconf e' (List.mem_cons_of_mem _ he')) _ rfl hwt

/-- **The decode in the retry loop is needed** (defect F5 of the unchanged tree, stated on the model):
if the retry loop of `query` does not decode, then after an empty first read — unless the very next
read raises — `query` raises `TypeError` (`'Err:' in <bytes>`). -/
theorem C07_decode_needed (P : Params) (hdec : P.decodeRetry = false) (hr : 1 ≤ P.retry) (c : Str)
    (hc : isAscii c = true) (r : Rd) (rest : List Rd) (writes : List Wr) (log : List Bytes) (nread : Nat)
    (hw : firstWriteOk ⟨.empty :: r :: rest, writes, log, nread⟩ = true) (hne : ∀ c, r ≠ .raise c) :
    (query P c ⟨.empty :: r :: rest, writes, log, nread⟩).1 = .error .typeError :=
  query_undecoded P hdec hr c hc r rest writes log nread hw hne


/-! ## The same statements about the SOURCE-REGENERATED code

`Gen.ebb_serial_query` / `Gen.ebb_serial_command` are regenerated from `plotink/ebb_serial.py` on every run
(`translator/pyio2lean.py`, combinators and exception semantics of `Plotink/PyIO.lean`).  `C07_gen_bridge` connects
them to the hand model with the parameters `std` — the retry bound 100, the no-OK list and the decode in the retry
loop are thereby read off the regenerated code by the proof (a source with other values no longer satisfies the
bridge and the build fails).  Domain of the bridge: the port object and a `str` text are passed (any `verbose`),
fuel ≥ 101 (the loops make at most 100 passes), and every scripted fault is of a class the handlers name
(`C07Gen.IoScript`: `SerialException` and subclasses, `OSError`/`IOError`, `RuntimeError`). -/

/-- where a call of a regenerated function leaves the port -/
def C07.outPort : PyIO.Out → Option Port
  | .val _ p => some p
  | .exc _ p => some p
  | .fuelOut => none

/-- **Bridge.**  The regenerated `query` and `command` compute exactly what the hand model computes: same value
and type, same escaping exception, same script left, same write log and read count. -/
theorem C07_gen_bridge (fuel : Nat) (hf : 101 ≤ fuel) (c : Str) (vb : PyIO.Val) (p : Port)
    (hio : C07Gen.IoScript p) :
    Gen.ebb_serial_query fuel .port (.str c) vb p = C07Gen.encOut (query std c p) ∧
    Gen.ebb_serial_command fuel .port (.str c) vb p = C07Gen.encOut (command std c p) :=
  ⟨C07Gen.query_bridge fuel hf c vb p hio, C07Gen.command_bridge fuel hf c vb p hio⟩

/-- **Exactly one write** (regenerated code): with a port and an ASCII text the call ends (value or escaping
exception, never out of fuel) with exactly the request appended to the write log; with no port (`None`) or no text
nothing is touched and `None` is returned. -/
theorem C07_gen_one_write (fuel : Nat) (hf : 101 ≤ fuel) (c : Str) (hc : isAscii c = true) (vb : PyIO.Val)
    (p : Port) (hio : C07Gen.IoScript p) :
    (∃ p', C07.outPort (Gen.ebb_serial_query fuel .port (.str c) vb p) = some p' ∧ p'.log = p.log ++ [c]) ∧
    (∃ p', C07.outPort (Gen.ebb_serial_command fuel .port (.str c) vb p) = some p' ∧ p'.log = p.log ++ [c]) ∧
    (∀ cmd, Gen.ebb_serial_query fuel .none cmd vb p = .val .none p ∧
            Gen.ebb_serial_command fuel .none cmd vb p = .val .none p) ∧
    Gen.ebb_serial_query fuel .port .none vb p = .val .none p ∧
    Gen.ebb_serial_command fuel .port .none vb p = .val .none p := by
  obtain ⟨hq, hcm⟩ := C07_gen_bridge fuel hf c vb p hio
  refine ⟨⟨(query std c p).2, ?_, query_log std c p hc⟩, ⟨(command std c p).2, ?_, command_log std c p hc⟩,
    fun cmd => ⟨C07Gen.query_noop fuel .none cmd vb p (Or.inl rfl), C07Gen.command_noop fuel .none cmd vb p (Or.inl rfl)⟩,
    C07Gen.query_noop fuel .port .none vb p (Or.inr ⟨Or.inl rfl, rfl⟩),
    C07Gen.command_noop fuel .port .none vb p (Or.inr ⟨Or.inl rfl, rfl⟩)⟩
  · rw [hq]
    rcases query std c p with ⟨r, p'⟩
    cases r <;> rfl
  · rw [hcm]
    rcases command std c p with ⟨r, p'⟩
    cases r <;> rfl

/-- **Never raises** (regenerated code): on every script over {ASCII line, empty, serial I/O exception} the
regenerated functions return a value; `query` returns a `str`, `command` returns `None`. -/
theorem C07_gen_no_raise (fuel : Nat) (hf : 101 ≤ fuel) (c : Str) (hc : isAscii c = true) (vb : PyIO.Val)
    (p : Port) (hio : C07Gen.IoScript p) (hp : allAscii p.reads = true) :
    (∃ s p', Gen.ebb_serial_query fuel .port (.str c) vb p = .val (.str s) p') ∧
    (∃ p', Gen.ebb_serial_command fuel .port (.str c) vb p = .val .none p') := by
  obtain ⟨hq, hcm⟩ := C07_gen_bridge fuel hf c vb p hio
  have h1 := (query_text std c p rfl hc hp).1
  have h2 := (command_ok std c p hc hp).1
  constructor
  · rw [hq]
    rcases hqq : query std c p with ⟨r, p'⟩
    rw [hqq] at h1
    simp only at h1
    subst h1
    exact ⟨_, p', rfl⟩
  · rw [hcm]
    rcases hqq : command std c p with ⟨r, p'⟩
    rw [hqq] at h2
    simp only at h2
    subst h2
    exact ⟨p', rfl⟩

/-- **`query` returns text** (regenerated code): the `str` that arrived within the first 101 reads, `''` when
nothing arrived or the write failed. -/
theorem C07_gen_text (fuel : Nat) (hf : 101 ≤ fuel) (c : Str) (hc : isAscii c = true) (vb : PyIO.Val)
    (p : Port) (hio : C07Gen.IoScript p) (hp : allAscii p.reads = true) :
    ∃ p', Gen.ebb_serial_query fuel .port (.str c) vb p =
      .val (.str (if firstWriteOk p = true then arrived 101 p.reads else [])) p' := by
  have hq := (C07_gen_bridge fuel hf c vb p hio).1
  have h1 := (query_text std c p rfl hc hp).1
  rw [hq]
  rcases hqq : query std c p with ⟨r, p'⟩
  rw [hqq] at h1
  simp only at h1
  subst h1
  exact ⟨p', rfl⟩

/-- **Reads consumed** (regenerated code): on a well-formed reply (each line after at most 100 empty reads) an
ordinary query consumes exactly data line and trailing line, a no-OK query and a command exactly one line, and
nothing of what follows (`rest`). -/
theorem C07_gen_reads (fuel : Nat) (hf : 101 ≤ fuel) (c : Str) (hc : isAscii c = true) (vb : PyIO.Val)
    (d1 d2 : Nat) (data trail : Bytes) (rest : List Rd) (writes : List Wr) (log : List Bytes) (nread : Nat)
    (h1 : d1 ≤ 100) (h2 : d2 ≤ 100) (hd : data ≠ []) (ht : trail ≠ [])
    (ha : isAscii data = true) (hat : isAscii trail = true)
    (hw : ∀ w, writes.head? = some w → w = .ok) (hws : C07Gen.IoWrites writes) (hrest : C07Gen.IoReads rest) :
    (std.noOK.contains (reqName c) = false →
      Gen.ebb_serial_query fuel .port (.str c) vb
          ⟨List.replicate d1 .empty ++ .line data :: (List.replicate d2 .empty ++ .line trail :: rest), writes, log, nread⟩
        = .val (.str data) ⟨rest, writes.tail, log ++ [c], nread + d1 + d2 + 2⟩) ∧
    (std.noOK.contains (reqName c) = true →
      Gen.ebb_serial_query fuel .port (.str c) vb ⟨List.replicate d1 .empty ++ .line data :: rest, writes, log, nread⟩
        = .val (.str data) ⟨rest, writes.tail, log ++ [c], nread + d1 + 1⟩) ∧
    Gen.ebb_serial_command fuel .port (.str c) vb ⟨List.replicate d1 .empty ++ .line trail :: rest, writes, log, nread⟩
        = .val .none ⟨rest, writes.tail, log ++ [c], nread + d1 + 1⟩ := by
  obtain ⟨r1, r2, r3, _, _⟩ := C07_reads std rfl c hc d1 d2 data trail rest writes log nread h1 h2 hd ht ha hat hw
  have hmem : ∀ (d : Nat) (l : Rd) (tl : List Rd) (cl : PyIO.ExcClass),
      PyIO.Rd.raise cl ∈ List.replicate d PyIO.Rd.empty ++ l :: tl → PyIO.Rd.raise cl = l ∨ PyIO.Rd.raise cl ∈ tl := by
    intro d l tl cl hm
    rcases List.mem_append.mp hm with hm | hm
    · exact absurd (List.eq_of_mem_replicate hm) (by intro h; cases h)
    · exact List.mem_cons.mp hm
  refine ⟨fun hno => ?_, fun hno => ?_, ?_⟩
  · have hio : C07Gen.IoScript
        ⟨List.replicate d1 .empty ++ .line data :: (List.replicate d2 .empty ++ .line trail :: rest), writes, log, nread⟩ := by
      refine ⟨fun cl hm => ?_, hws⟩
      rcases hmem _ _ _ _ hm with h | hm
      · cases h
      · rcases hmem _ _ _ _ hm with h | hm
        · cases h
        · exact hrest cl hm
    rw [(C07_gen_bridge fuel hf c vb _ hio).1, r1 hno]
    rfl
  · have hio : C07Gen.IoScript ⟨List.replicate d1 .empty ++ .line data :: rest, writes, log, nread⟩ := by
      refine ⟨fun cl hm => ?_, hws⟩
      rcases hmem _ _ _ _ hm with h | hm
      · cases h
      · exact hrest cl hm
    rw [(C07_gen_bridge fuel hf c vb _ hio).1, r2 hno]
    rfl
  · have hio : C07Gen.IoScript ⟨List.replicate d1 .empty ++ .line trail :: rest, writes, log, nread⟩ := by
      refine ⟨fun cl hm => ?_, hws⟩
      rcases hmem _ _ _ _ hm with h | hm
      · cases h
      · exact hrest cl hm
    rw [(C07_gen_bridge fuel hf c vb _ hio).2, r3]
    rfl

/-- a list of exchanges run on the regenerated functions (the board queues its reply when the request is
written); the run stops at a call that runs out of fuel -/
def C07.genRunSeq (fuel : Nat) (vb : PyIO.Val) : List Exch → Port → List PyIO.Out
  | [], _ => []
  | e :: es, p =>
    let out := (if e.isQuery then Gen.ebb_serial_query fuel .port (.str e.cmd) vb
                else Gen.ebb_serial_command fuel .port (.str e.cmd) vb) { p with reads := p.reads ++ e.reply std }
    match C07.outPort out with
    | some p' => out :: C07.genRunSeq fuel vb es p'
    | none => [out]

/-- what is observed of one call: the value returned (`none` = an exception escaped or the fuel ran out), the
device queue and the write log afterwards -/
def C07.outView : PyIO.Out → Option PyIO.Val × List Rd × List Bytes
  | .val v p => (some v, p.reads, p.log)
  | .exc _ p => (Option.none, p.reads, p.log)
  | .fuelOut => (Option.none, [], [])

/-- what a conforming board requires: the data line of each request (`None` for a command), the queue empty after
every call, exactly the requests so far in the write log -/
def C07.genAlignedTrace : List Exch → List Bytes → List (Option PyIO.Val × List Rd × List Bytes)
  | [], _ => []
  | e :: es, lg =>
    (some (if e.isQuery then .str e.data else .none), [], lg ++ [e.cmd]) :: C07.genAlignedTrace es (lg ++ [e.cmd])

/-- **Alignment** (regenerated code): against a conforming legacy board, from an empty device queue and with
writes that succeed, the `k`-th call of the regenerated functions returns the data line of the `k`-th request
(`None` for a command), leaves the device queue empty, and the write log holds exactly the requests so far. -/
theorem C07_gen_aligned (fuel : Nat) (hf : 101 ≤ fuel) (vb : PyIO.Val) (es : List Exch)
    (hconf : ∀ e ∈ es, e.Conforms std) (p : Port) (hq : p.reads = []) (hw : ∀ w ∈ p.writes, w = .ok) :
    (C07.genRunSeq fuel vb es p).map C07.outView = C07.genAlignedTrace es p.log := by
  induction es generalizing p with
  | nil => rfl
  | cons e es ih =>
    obtain ⟨reads, writes, log, nread⟩ := p
    simp only at hq hw
    subst hq
    have hce := hconf e List.mem_cons_self
    obtain ⟨n', hstep⟩ := exch_step std rfl e hce writes log nread hw
    have hio : C07Gen.IoScript ⟨[] ++ e.reply std, writes, log, nread⟩ :=
      ⟨fun cl hm => absurd (by simpa using hm) (reply_no_raise std e cl), fun cl hm => by cases hw _ hm⟩
    obtain ⟨bq, bc⟩ := C07_gen_bridge fuel hf e.cmd vb _ hio
    have hwt : ∀ w ∈ writes.tail, w = .ok := fun w h => hw w (List.mem_of_mem_tail h)
    have hout : (if e.isQuery then Gen.ebb_serial_query fuel .port (.str e.cmd) vb
                else Gen.ebb_serial_command fuel .port (.str e.cmd) vb) ⟨[] ++ e.reply std, writes, log, nread⟩
        = .val (if e.isQuery then .str e.data else .none) ⟨[], writes.tail, log ++ [e.cmd], n'⟩ := by
      cases hqe : e.isQuery
      · simp only [hqe, Bool.false_eq_true, ↓reduceIte] at hstep ⊢
        rw [bc, hstep]
        simp only [Exch.expected, hqe, Bool.false_eq_true, ↓reduceIte]
        rfl
      · simp only [hqe, ↓reduceIte] at hstep ⊢
        rw [bq, hstep]
        simp only [Exch.expected, hqe, ↓reduceIte]
        rfl
    unfold C07.genRunSeq
    simp only [hout, C07.outPort, List.map_cons, C07.outView, C07.genAlignedTrace, List.cons.injEq, true_and]
    exact ih (fun e' he' => hconf e' (List.mem_cons_of_mem _ he')) ⟨[], writes.tail, log ++ [e.cmd], n'⟩ rfl hwt

/-! ## Non-vacuity: the hypotheses are met by concrete instances, and the model computes the
expected answers on them (kernel evaluation). -/

/-- `std` satisfies the parameter hypothesis -/
example : std.decodeRetry = true := rfl

/-- scripts of the fault alphabet satisfy the hypotheses of `C07_no_raise` / `C07_text`: an error line,
timeouts, an I/O exception, a fragment without terminator -/
example : isAscii "QS\r".toList = true ∧
    allAscii [.line "!8 Err: Unknown command\r\n".toList, .empty, .raise .serialException, .line "3,".toList] = true := by
  decide

/-- the hypotheses of `C07_reads` are satisfiable at the boundary: exactly `retry` empties before each line -/
example : (query std "QS\r".toList
    ⟨List.replicate 100 .empty ++ .line "3,4\r\n".toList :: (List.replicate 100 .empty ++ .line "OK\r\n".toList :: [.line "next".toList]),
      [], [], 0⟩) = (.ok (.str "3,4\r\n".toList), ⟨[.line "next".toList], [], [] ++ ["QS\r".toList], 0 + 100 + 100 + 2⟩) :=
  (C07_reads std rfl "QS\r".toList (by decide) 100 100 "3,4\r\n".toList "OK\r\n".toList [.line "next".toList] [] [] 0
    (by decide) (by decide) (by decide) (by decide) (by decide) (by decide) (by intro w h; cases h)).1 (by decide)

/-- one empty read more than the limit: nothing arrived in time, and the reply is left behind (why the
conformance bound of `C07_aligned` is `retry`; here with `retry = 3`) -/
example : (query { std with retry := 3 } "V\r".toList ⟨List.replicate 4 .empty ++ [.line "EBB\r\n".toList], [], [], 0⟩)
    = (.ok (.str []), ⟨[.line "EBB\r\n".toList], [], ["V\r".toList], 4⟩) := by
  decide

/-- the fault hypothesis of the bridge is met by the exception classes pyserial and the OS raise; an exception
of another class (`ValueError`) is not a serial I/O exception -/
example : C07Gen.IoClass .serialException ∧ C07Gen.IoClass .serialTimeoutException ∧ C07Gen.IoClass .portNotOpenError ∧
    C07Gen.IoClass .osError ∧ C07Gen.IoClass .runtimeError ∧ ¬ C07Gen.IoClass .valueError := by
  refine ⟨rfl, rfl, rfl, rfl, rfl, ?_⟩
  intro h
  cases h

example : C07Gen.IoScript ⟨[.empty, .raise .serialTimeoutException, .line "1\r\n".toList], [.raise .osError], [], 0⟩ := by
  constructor
  · intro c hc
    simp only [List.mem_cons, List.mem_nil_iff, or_false, reduceCtorEq, false_or, PyIO.Rd.raise.injEq] at hc
    subst hc
    rfl
  · intro c hc
    simp only [List.mem_cons, List.mem_nil_iff, or_false, PyIO.Wr.raise.injEq] at hc
    subst hc
    rfl

/-- the regenerated `query`, evaluated by the kernel: a timeout, the data line, the trailing `OK` -/
example : Gen.ebb_serial_query 101 .port (.str "QS\r".toList) (.bool true)
    ⟨[.empty, .line "3,4\r\n".toList, .line "OK\r\n".toList, .line "next".toList], [], [], 0⟩
    = .val (.str "3,4\r\n".toList) ⟨[.line "next".toList], [], ["QS\r".toList], 3⟩ := by
  rfl

/-- … and an `OSError` on a retry read: contained by the handler, `''` is returned -/
example : Gen.ebb_serial_query 101 .port (.str "QS\r".toList) (.bool false)
    ⟨[.empty, .raise .osError, .line "3,4\r\n".toList], [], [], 0⟩
    = .val (.str []) ⟨[.line "3,4\r\n".toList], [], ["QS\r".toList], 2⟩ := by
  rfl

/-- an ordinary query after one timeout, then a no-OK query, then a command: a conforming history -/
def C07.demo : List Exch :=
  [⟨true, "QS\r".toList, 1, "3,4\r\n".toList, 0, "OK\r\n".toList⟩,
   ⟨true, "V\r".toList, 0, "EBBv13\r\n".toList, 0, "OK\r\n".toList⟩,
   ⟨false, "EM,1,1\r".toList, 2, [], 0, "OK\r\n".toList⟩]

example : ∀ e ∈ C07.demo, e.Conforms std := by
  decide

example : runSeq std C07.demo ⟨[], [], [], 0⟩ =
    [(.ok (.str "3,4\r\n".toList), []), (.ok (.str "EBBv13\r\n".toList), []), (.ok .none, [])] := by
  decide

/-- a fault history: write raises / read raises / silence — `''`, never an exception -/
example : (call std ⟨true, some "QS\r".toList⟩ (some ⟨[.line "1\r\n".toList], [.raise .serialException], [], 0⟩)).1
    = .ok (.str []) := by decide
example : (call std ⟨true, some "QS\r".toList⟩ (some ⟨[.empty, .raise .serialException, .line "1\r\n".toList], [], [], 0⟩)).1
    = .ok (.str []) := by decide
/-- the unrepaired retry loop on the same kind of history -/
example : (query { std with decodeRetry := false } "QS\r".toList ⟨[.empty, .line "1\r\n".toList], [], [], 0⟩).1
    = .error .typeError := by decide

end Plotink
