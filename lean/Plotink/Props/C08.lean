import Plotink.Model.C08
import Plotink.Proofs.C08
import Plotink.Proofs.C08Gen

/-! # C08 — segment clipping returns exactly the part of the segment inside the rectangle

Theorems about the hand-written model `C08.clipSegment` of `plot_utils.clip_segment` (exact rational
arithmetic; tied to the Python text by the correspondence run of `harness/c08.py`), against the
specification `C08.Inside` (closed rectangle) and `C08.On s t = a + t·(b − a)`.

They hold for *every* segment and *every* rectangle — in particular for all rectangles with
`min ≤ max` (`Rect.Valid`, the property's domain), degenerate segments and zero-area rectangles
included; the hypothesis `min ≤ max` turns out not to be needed by any of the proofs. -/

namespace Plotink
open C08

/-- `clip_segment` always returns through trivial accept or trivial reject: no division by zero (the
divisor is the difference of two coordinates that a non-shared outcode bit forces to differ), no
unbound `x_new`, and the `iterations > 3` failsafe is never reached (every clip resolves one of the
four boundary lines and unresolves none, so the fifth pass at the latest returns before it looks at
the counter). -/
theorem C08_total (r : Rect) (s : Seg) :
    ∃ acc s', clipSegment r s = .ok (some (acc, s')) := by
  obtain ⟨acc, s', h, _⟩ := clip_spec r s
  exact ⟨acc, s', h⟩

/-- accept ⇔ some point of the input segment lies in the (closed) rectangle -/
theorem C08_accept_iff (r : Rect) (s : Seg) (acc : Bool) (s' : Seg)
    (h : clipSegment r s = .ok (some (acc, s'))) :
    acc = true ↔ ∃ t, 0 ≤ t ∧ t ≤ 1 ∧ Inside r (On s t) := by
  obtain ⟨acc', s'', h', ⟨u, v, hu0, huv, hv1, ha, hb, hin⟩, hA, hR⟩ := clip_spec r s
  rw [h] at h'
  injection h' with h'; injection h' with h'; injection h' with e1 e2
  subst e1; subst e2
  constructor
  · intro hacc
    exact ⟨u, hu0, by linarith, by rw [← ha]; exact (hA hacc).1⟩
  · rintro ⟨t, ht0, ht1, hins⟩
    cases acc with
    | true => rfl
    | false =>
      exfalso
      obtain ⟨sd, o1, o2⟩ := hR rfl
      obtain ⟨h3, h4⟩ := hin t ht0 ht1 hins
      rw [ha] at o1; rw [hb] at o2
      exact (inside_iff r _).1 hins sd (out_between r sd s u v t h3 h4 o1 o2)

/-- on accept the returned segment is `(On s t0, On s t1)` with `0 ≤ t0 ≤ t1 ≤ 1` (on the input
segment, same orientation) and the points of the input segment inside the rectangle are exactly
those with parameter in `[t0, t1]` (the result is inside the rectangle and covers all of the inside
part) -/
theorem C08_exact (r : Rect) (s : Seg) (s' : Seg)
    (h : clipSegment r s = .ok (some (true, s'))) :
    ∃ t0 t1, 0 ≤ t0 ∧ t0 ≤ t1 ∧ t1 ≤ 1 ∧ s'.a = On s t0 ∧ s'.b = On s t1 ∧
      ∀ t, 0 ≤ t → t ≤ 1 → (Inside r (On s t) ↔ t0 ≤ t ∧ t ≤ t1) := by
  obtain ⟨acc', s'', h', ⟨u, v, hu0, huv, hv1, ha, hb, hin⟩, hA, hR⟩ := clip_spec r s
  rw [h] at h'
  injection h' with h'; injection h' with h'; injection h' with e1 e2
  subst e1; subst e2
  obtain ⟨i1, i2⟩ := hA rfl
  rw [ha] at i1; rw [hb] at i2
  refine ⟨u, v, hu0, huv, hv1, ha, hb, fun t ht0 ht1 => ⟨hin t ht0 ht1, fun ⟨h3, h4⟩ => ?_⟩⟩
  exact inside_between r s u v t h3 h4 i1 i2

/-- the executable specification used by the check (`specInterval`, Liang–Barsky: no outcodes, no
iteration) computes exactly the set `{t ∈ [0,1] | Inside r (On s t)}`: `none` iff it is empty, else its
two ends -/
theorem C08_spec_interval (r : Rect) (s : Seg) :
    (specInterval r s = none → ¬ ∃ t, 0 ≤ t ∧ t ≤ 1 ∧ Inside r (On s t)) ∧
    (∀ t0 t1, specInterval r s = some (t0, t1) → 0 ≤ t0 ∧ t0 ≤ t1 ∧ t1 ≤ 1 ∧
      ∀ t, 0 ≤ t → t ≤ 1 → (Inside r (On s t) ↔ t0 ≤ t ∧ t ≤ t1)) := by
  have h := specInterval_represents r s
  constructor
  · intro hn; rw [hn] at h
    rintro ⟨t, ht⟩; exact h t ht
  · intro t0 t1 hs; rw [hs] at h
    obtain ⟨h01, hS⟩ := h
    have a := (hS t0).2 ⟨le_refl _, h01⟩
    have b := (hS t1).2 ⟨h01, le_refl _⟩
    refine ⟨a.1, h01, b.2.1, fun t ht0 ht1 => ?_⟩
    rw [← hS t]
    exact ⟨fun hi => ⟨ht0, ht1, hi⟩, fun hh => hh.2.2⟩

/-- the model agrees with the executable specification on every input: it accepts iff the specified
inside part is non-empty, and then returns exactly that part -/
theorem C08_model_eq_spec (r : Rect) (s : Seg) (acc : Bool) (s' : Seg)
    (h : clipSegment r s = .ok (some (acc, s'))) :
    (acc = false → specClip r s = none) ∧ (acc = true → specClip r s = some s') := by
  obtain ⟨hnone, hsome⟩ := C08_spec_interval r s
  have hiff := C08_accept_iff r s acc s' h
  unfold specClip
  constructor
  · intro ha
    cases hsp : specInterval r s with
    | none => rfl
    | some ab =>
      exfalso
      obtain ⟨t0, t1⟩ := ab
      obtain ⟨a0, a01, a1, ai⟩ := hsome t0 t1 hsp
      have : acc = true := hiff.2 ⟨t0, a0, by linarith, (ai t0 a0 (by linarith)).2 ⟨le_refl _, a01⟩⟩
      rw [ha] at this; cases this
  · intro ha
    subst ha
    obtain ⟨u, v, hu0, huv, hv1, ea, eb, hin⟩ := C08_exact r s s' h
    cases hsp : specInterval r s with
    | none =>
      exfalso
      exact hnone hsp ⟨u, hu0, by linarith, (hin u hu0 (by linarith)).2 ⟨le_refl _, huv⟩⟩
    | some ab =>
      obtain ⟨t0, t1⟩ := ab
      obtain ⟨a0, a01, a1, ai⟩ := hsome t0 t1 hsp
      have hu_in := (hin u hu0 (by linarith)).2 ⟨le_refl _, huv⟩
      have hv_in := (hin v (by linarith) hv1).2 ⟨huv, le_refl _⟩
      have ht0_in := (ai t0 a0 (by linarith)).2 ⟨le_refl _, a01⟩
      have ht1_in := (ai t1 (by linarith) a1).2 ⟨a01, le_refl _⟩
      have e0 : t0 = u := le_antisymm ((ai u hu0 (by linarith)).1 hu_in).1 ((hin t0 a0 (by linarith)).1 ht0_in).1
      have e1 : t1 = v := le_antisymm ((hin t1 (by linarith) a1).1 ht1_in).2 ((ai v (by linarith) hv1).1 hv_in).2
      show some (⟨On s t0, On s t1⟩ : Seg) = some s'
      rw [e0, e1, ← ea, ← eb]

/-- non-vacuity of the hypotheses of `C08_accept_iff`/`C08_exact`: every input produces a result of
that shape (by `C08_total`), and the domain predicate is inhabited, also by a zero-area rectangle -/
example (r : Rect) (s : Seg) : ∃ acc s', clipSegment r s = .ok (some (acc, s')) := C08_total r s
/-- `C08_exact` is not vacuous: a segment starting inside a (zero-area) rectangle is accepted -/
example : ∃ s', clipSegment ⟨3, 1, 3, 1⟩ ⟨⟨3, 1⟩, ⟨7, 5⟩⟩ = .ok (some (true, s')) := by
  obtain ⟨acc, s', h⟩ := C08_total ⟨3, 1, 3, 1⟩ ⟨⟨3, 1⟩, ⟨7, 5⟩⟩
  have := (C08_accept_iff _ _ acc s' h).2 ⟨0, le_refl _, zero_le_one, by simp [Inside, On]⟩
  subst this
  exact ⟨s', h⟩
example : Rect.Valid ⟨0, 0, 10, 10⟩ ∧ Rect.Valid ⟨3, 1, 3, 1⟩ := by
  simp [Rect.Valid]

/-! ## The same statements about the SOURCE-REGENERATED code

`Gen.clip_code` / `Gen.clip_segment` are regenerated from `plotink/plot_utils.py` by the translator on every run
(`lean/Plotink/Gen/clip_code.lean`, `clip_segment.lean`); the theorems below are about those definitions, in exact
arithmetic (`Rounding.exact`), for every fuel ≥ 5 (the `while True` loop is translated with an explicit fuel).
Coordinates are Python `int`s or `float`s in any mixture (`Py.IsNum v q`: `v` is `.flt q` or an `.int` equal to
`q`); `C08.EncSeg`/`C08.EncRect` say that a value is a list `[[a, b], [c, d]]` of such numbers. Proofs:
`Proofs/C08Gen.lean` (one generated loop pass = one unfolding of the model's loop, then induction on the fuel). -/

open Py in
/-- `clip_code`, regenerated: the outcode of the numeric values — for every rounding mode and whatever the tags
(the function only compares) -/
theorem C08_gen_clip_code (R : Rounding) (amb : Nat) (x y x0 x1 y0 y1 : Py.Val) :
    Gen.clip_code R amb x y x0 x1 y0 y1
      = .int (clipCode (num x) (num y) ⟨num x0, num y0, num x1, num y1⟩ : Nat) :=
  clip_code_bridge R amb x y x0 x1 y0 y1

/-- **bridge** `Gen.clip_segment = C08.clipSegment` (all-`float` encoding, as an equation) -/
theorem C08_gen_bridge (amb fuel : Nat) (hf : 5 ≤ fuel) (r : Rect) (s : Seg) :
    Gen.clip_segment Rounding.exact amb fuel (encSeg s) (encRect r) = encResult (clipSegment r s) :=
  clip_segment_bridge_flt amb fuel hf r s

/-- **bridge**, `int`/`float` mixtures: the generated code returns `(accept, segment)` with the model's accept
flag and a segment whose numbers encode the model's segment -/
theorem C08_gen_bridge_num (amb fuel : Nat) (hf : 5 ≤ fuel) (r : Rect) (s : Seg) (vs vr : Py.Val)
    (hs : EncSeg Py.IsNum vs s) (hr : EncRect Py.IsNum vr r) :
    ∃ acc s' vs', clipSegment r s = .ok (some (acc, s')) ∧ EncSeg Py.IsNum vs' s' ∧
      Gen.clip_segment Rounding.exact amb fuel vs vr = .val (.tup [.bool_ acc, vs']) :=
  clip_segment_bridge Py.enc_isNum amb fuel hf r s vs vr hs hr

/-- `C08_total` for the regenerated code: with fuel ≥ 5 it returns a pair `(accept, segment)` — the fuel does not
run out, no exception, and the segment is again a list of numbers -/
theorem C08_gen_total (amb fuel : Nat) (hf : 5 ≤ fuel) (r : Rect) (s : Seg) (vs vr : Py.Val)
    (hs : EncSeg Py.IsNum vs s) (hr : EncRect Py.IsNum vr r) :
    ∃ acc vs' s', Gen.clip_segment Rounding.exact amb fuel vs vr = .val (.tup [.bool_ acc, vs']) ∧
      EncSeg Py.IsNum vs' s' := by
  obtain ⟨acc, s', vs', _, hvs', hg⟩ := C08_gen_bridge_num amb fuel hf r s vs vr hs hr
  exact ⟨acc, vs', s', hg, hvs'⟩

/-- `C08_accept_iff` for the regenerated code -/
theorem C08_gen_accept_iff (amb fuel : Nat) (hf : 5 ≤ fuel) (r : Rect) (s : Seg) (vs vr : Py.Val)
    (hs : EncSeg Py.IsNum vs s) (hr : EncRect Py.IsNum vr r) (acc : Bool) (vs' : Py.Val)
    (h : Gen.clip_segment Rounding.exact amb fuel vs vr = .val (.tup [.bool_ acc, vs'])) :
    acc = true ↔ ∃ t, 0 ≤ t ∧ t ≤ 1 ∧ Inside r (On s t) := by
  obtain ⟨acc0, s', vs0, hm, _, hg⟩ := C08_gen_bridge_num amb fuel hf r s vs vr hs hr
  rw [hg] at h
  injection h with h; injection h with h; injection h with h1 _; injection h1 with h1
  subst h1
  exact C08_accept_iff r s acc0 s' hm

/-- `C08_exact` for the regenerated code: on accept the returned list encodes `(On s t0, On s t1)`, `0 ≤ t0 ≤ t1 ≤ 1`,
and the points of the input segment inside the rectangle are exactly those with parameter in `[t0, t1]` -/
theorem C08_gen_exact (amb fuel : Nat) (hf : 5 ≤ fuel) (r : Rect) (s : Seg) (vs vr : Py.Val)
    (hs : EncSeg Py.IsNum vs s) (hr : EncRect Py.IsNum vr r) (vs' : Py.Val)
    (h : Gen.clip_segment Rounding.exact amb fuel vs vr = .val (.tup [.bool_ true, vs'])) :
    ∃ s' t0 t1, EncSeg Py.IsNum vs' s' ∧ 0 ≤ t0 ∧ t0 ≤ t1 ∧ t1 ≤ 1 ∧ s'.a = On s t0 ∧ s'.b = On s t1 ∧
      ∀ t, 0 ≤ t → t ≤ 1 → (Inside r (On s t) ↔ t0 ≤ t ∧ t ≤ t1) := by
  obtain ⟨acc0, s', vs0, hm, hvs0, hg⟩ := C08_gen_bridge_num amb fuel hf r s vs vr hs hr
  rw [hg] at h
  injection h with h; injection h with h; injection h with h1 h2; injection h1 with h1
  injection h2 with h2 _
  subst h1; subst h2
  obtain ⟨t0, t1, a0, a01, a1, ea, eb, hin⟩ := C08_exact r s s' hm
  exact ⟨s', t0, t1, hvs0, a0, a01, a1, ea, eb, hin⟩

/-- non-vacuity: a concrete segment with `int` and `float` coordinates and an `int` rectangle meet the hypotheses,
and the generated code accepts it (the segment starts inside) -/
example : EncSeg Py.IsNum (.tup [.tup [.int 3, .flt (1/2)], .tup [.int 7, .int 5]]) ⟨⟨3, 1/2⟩, ⟨7, 5⟩⟩ ∧
    EncRect Py.IsNum (.tup [.tup [.int 0, .int 0], .tup [.int 4, .int 3]]) ⟨0, 0, 4, 3⟩ :=
  ⟨⟨_, _, _, _, rfl, Or.inr ⟨3, rfl, by norm_num⟩, Or.inl rfl, Or.inr ⟨7, rfl, by norm_num⟩, Or.inr ⟨5, rfl, by norm_num⟩⟩,
   ⟨_, _, _, _, rfl, Or.inr ⟨0, rfl, by norm_num⟩, Or.inr ⟨0, rfl, by norm_num⟩, Or.inr ⟨4, rfl, by norm_num⟩,
     Or.inr ⟨3, rfl, by norm_num⟩⟩⟩
example : ∃ vs', Gen.clip_segment Rounding.exact 53 5 (encSeg ⟨⟨3, 1⟩, ⟨7, 5⟩⟩) (encRect ⟨0, 0, 4, 3⟩)
    = .val (.tup [.bool_ true, vs']) := by
  obtain ⟨acc, vs', s', h, _⟩ := C08_gen_total 53 5 (le_refl _) ⟨0, 0, 4, 3⟩ ⟨⟨3, 1⟩, ⟨7, 5⟩⟩ _ _
    (Enc4.mono (fun _ _ => Py.IsFlt.isNum) (encSeg_isFlt _)) (Enc4.mono (fun _ _ => Py.IsFlt.isNum) (encRect_isFlt _))
  have := (C08_gen_accept_iff 53 5 (le_refl _) _ _ _ _
    (Enc4.mono (fun _ _ => Py.IsFlt.isNum) (encSeg_isFlt _)) (Enc4.mono (fun _ _ => Py.IsFlt.isNum) (encRect_isFlt _)) acc vs' h).2
    ⟨0, le_refl _, zero_le_one, by norm_num [Inside, On]⟩
  subst this
  exact ⟨vs', h⟩

end Plotink
