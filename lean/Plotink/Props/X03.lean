import Plotink.Gen.pathdata_first_point
import Plotink.Gen.pathdata_last_point
import Plotink.Proofs.PyLemmas

/-! # X03 — supplementary: `plot_utils.pathdata_first_point` / `pathdata_last_point`

Not one of the twenty listed properties; not registered in MANIFEST.json.  Both functions are regenerated from the source
on every run; the call of the dependency's parser `simplepath.parsePath(path)` is replaced by the parameter `parsed_path`
(a generic translator rule, recorded in `Gen/report.json`), i.e. the theorems are about what the functions do with *any*
parse result: a list of `(command, [numbers…])` pairs. -/

namespace Plotink
open Py Py.Val

/-- one parsed path segment `(command, params)` as the Python value -/
def encSeg (s : String × List Val) : Val := .tup [.str s.1, .tup s.2]
/-- a parsed path as the Python value -/
def encPath (p : List (String × List Val)) : Val := .tup (p.map encSeg)

/-- the `[x, y]` answer taken from the first two parameters of a segment -/
def xyOf (ps : List Val) : Val := .tup [getItem (.tup ps) 0, getItem (.tup ps) 1]

/-- the search loop shared by both functions: the first `M` segment of the list wins -/
theorem X03_loop_first (R : Rounding) (amb : Nat) (its : List (String × List Val)) (c0 p0 : Val) :
    (∃ s, its.find? (fun s => s.1 == "M") = some s ∧
      Gen.pathdata_first_point_loop1 R amb (its.map encSeg) c0 p0 = .ret (xyOf s.2)) ∨
    (its.find? (fun s => s.1 == "M") = none ∧
      ∃ c p, Gen.pathdata_first_point_loop1 R amb (its.map encSeg) c0 p0 = .done (c, p)) := by
  induction its generalizing c0 p0 with
  | nil => exact Or.inr ⟨rfl, c0, p0, rfl⟩
  | cons s its ih =>
    obtain ⟨c, ps⟩ := s
    by_cases h : c == "M"
    · refine Or.inl ⟨(c, ps), by simp [List.find?, h], ?_⟩
      simp only [List.map, Gen.pathdata_first_point_loop1, Gen.pathdata_first_point_body1, encSeg, unpackN_tup2,
        getItem_cons_zero, getItem_cons_succ, Py.eq, h, ↓reduceIte, xyOf]
    · rcases ih (.str c) (.tup ps) with ⟨s, hs, e⟩ | ⟨hn, c', p', e⟩
      · refine Or.inl ⟨s, by simp [List.find?, h, hs], ?_⟩
        simp only [List.map, Gen.pathdata_first_point_loop1, Gen.pathdata_first_point_body1, encSeg, unpackN_tup2,
          getItem_cons_zero, getItem_cons_succ, Py.eq, h, Bool.false_eq_true, ↓reduceIte]
        exact e
      · refine Or.inr ⟨by simp [List.find?, h, hn], c', p', ?_⟩
        simp only [List.map, Gen.pathdata_first_point_loop1, Gen.pathdata_first_point_body1, encSeg, unpackN_tup2,
          getItem_cons_zero, getItem_cons_succ, Py.eq, h, Bool.false_eq_true, ↓reduceIte]
        exact e

/-- **`pathdata_first_point`**: the first two parameters of the first `M` (moveto) segment of the parse result, `None`
when there is none — for every parse result -/
theorem X03_first_point (R : Rounding) (amb : Nat) (p : List (String × List Val)) :
    Gen.pathdata_first_point R amb (encPath p) =
      match p.find? (fun s => s.1 == "M") with
      | some s => xyOf s.2
      | none => .none_ := by
  unfold Gen.pathdata_first_point encPath
  simp only [Py.iter]
  rcases X03_loop_first R amb p .err .err with ⟨s, hs, e⟩ | ⟨hn, c, q, e⟩
  · rw [e, hs]
  · rw [e, hn]

example : Gen.pathdata_first_point Rounding.exact 15
    (encPath [("M", [.flt 1, .flt 2]), ("L", [.flt 3, .flt 4])]) = .tup [.flt 1, .flt 2] := by
  rw [X03_first_point]; rfl

/-- the same loop as regenerated inside `pathdata_last_point` -/
theorem X03_loop_last (R : Rounding) (amb : Nat) (its : List (String × List Val)) (c0 p0 : Val) :
    (∃ s, its.find? (fun s => s.1 == "M") = some s ∧
      Gen.pathdata_last_point_loop1 R amb (its.map encSeg) c0 p0 = .ret (xyOf s.2)) ∨
    (its.find? (fun s => s.1 == "M") = none ∧
      ∃ c p, Gen.pathdata_last_point_loop1 R amb (its.map encSeg) c0 p0 = .done (c, p)) := by
  induction its generalizing c0 p0 with
  | nil => exact Or.inr ⟨rfl, c0, p0, rfl⟩
  | cons s its ih =>
    obtain ⟨c, ps⟩ := s
    by_cases h : c == "M"
    · refine Or.inl ⟨(c, ps), by simp [List.find?, h], ?_⟩
      simp only [List.map, Gen.pathdata_last_point_loop1, Gen.pathdata_last_point_body1, encSeg, unpackN_tup2,
        getItem_cons_zero, getItem_cons_succ, Py.eq, h, ↓reduceIte, xyOf]
    · rcases ih (.str c) (.tup ps) with ⟨s, hs, e⟩ | ⟨hn, c', p', e⟩
      · refine Or.inl ⟨s, by simp [List.find?, h, hs], ?_⟩
        simp only [List.map, Gen.pathdata_last_point_loop1, Gen.pathdata_last_point_body1, encSeg, unpackN_tup2,
          getItem_cons_zero, getItem_cons_succ, Py.eq, h, Bool.false_eq_true, ↓reduceIte]
        exact e
      · refine Or.inr ⟨by simp [List.find?, h, hn], c', p', ?_⟩
        simp only [List.map, Gen.pathdata_last_point_loop1, Gen.pathdata_last_point_body1, encSeg, unpackN_tup2,
          getItem_cons_zero, getItem_cons_succ, Py.eq, h, Bool.false_eq_true, ↓reduceIte]
        exact e

theorem X03_index_last (l : List Val) (x : Val) : Py.index (.tup (l ++ [x])) (.int (-1)) = x := by
  simp only [Py.index, Py.kind, Py.toInt, List.length_append, List.length_cons, List.length_nil]
  have h1 : ((-1 : Int) < 0) := by decide
  simp only [h1, ↓reduceIte]
  have e : (-1 : Int) + ((l.length + (0 + 1) : Nat) : Int) = (l.length : Int) := by push_cast; omega
  rw [e]
  have h2 : (0 : Int) ≤ (l.length : Int) ∧ (l.length : Int) < ((l.length + (0 + 1) : Nat) : Int) := by
    constructor <;> (push_cast; omega)
  rw [if_pos h2]
  simp

theorem X03_slice_init (l : List Val) (x : Val) :
    Py.slice (.tup (l ++ [x])) .none_ (.int (-1)) = .tup l := by
  simp only [Py.slice, Py.sliceBound, List.length_append, List.length_cons, List.length_nil]
  have h1 : ((-1 : Int) < 0) := by decide
  simp only [h1, ↓reduceIte]
  have e : ((-1 : Int) + ((l.length + (0 + 1) : Nat) : Int)).toNat = l.length := by push_cast; omega
  rw [e]
  simp

/-- **`pathdata_last_point`** on a non-empty parse result `pre ++ [(c, ps)]`: when the last command is `Z`/`z` (closepath)
the answer is the first two parameters of the *last* `M` before it (`None` if there is none); otherwise it is the last
two parameters of the last segment -/
theorem X03_last_point (R : Rounding) (amb : Nat) (pre : List (String × List Val)) (c : String) (ps : List Val) :
    Gen.pathdata_last_point R amb (encPath (pre ++ [(c, ps)])) =
      if Py.eq (Py.str_upper (.str c)) (.str "Z") then
        match pre.reverse.find? (fun s => s.1 == "M") with
        | some s => xyOf s.2
        | none => .none_
      else .tup [Py.index (.tup ps) (.int (-2)), Py.index (.tup ps) (.int (-1))] := by
  unfold Gen.pathdata_last_point encPath
  simp only [List.map_append, List.map_cons, List.map_nil, X03_index_last, X03_slice_init, encSeg, unpackN_tup2,
    getItem_cons_zero, getItem_cons_succ]
  split
  · simp only [Py.reversed_, Py.iter]
    have hr : (List.map encSeg pre).reverse = pre.reverse.map encSeg := by
      rw [← List.map_reverse]
    rw [hr]
    rcases X03_loop_last R amb pre.reverse (.str c) (.tup ps) with ⟨s, hs, e⟩ | ⟨hn, c', q, e⟩
    · rw [e, hs]
    · rw [e, hn]
  · rfl

example : Gen.pathdata_last_point Rounding.exact 15
    (encPath ([("M", [.flt 1, .flt 2]), ("L", [.flt 3, .flt 4])] ++ [("Z", [])])) = .tup [.flt 1, .flt 2] := by
  rw [X03_last_point]; rfl
example : Gen.pathdata_last_point Rounding.exact 15
    (encPath ([("M", [.flt 1, .flt 2])] ++ [("C", [.flt 0, .flt 0, .flt 5, .flt 5, .flt 3, .flt 4])])) = .tup [.flt 3, .flt 4] := by
  rw [X03_last_point]; rfl

end Plotink
