import Plotink.Gen.distance
import Plotink.Gen.dotProductXY
import Plotink.Gen.position_scale
import Plotink.Gen.points_near
import Plotink.Gen.points_equal
import Plotink.Gen.square_dist
import Plotink.Gen.vInitial_VF_A_Dx
import Plotink.Gen.vFinal_Vi_A_Dx
import Plotink.Proofs.PyLemmas
import Plotink.Proofs.Contract
import Plotink.Proofs.ContractSqrtIeee
import Mathlib.Tactic.Linarith
import Mathlib.Tactic.Positivity

/-! # X01 — supplementary: geometry / kinematics helpers of `plot_utils` outside the twenty listed properties

`distance`, `dotProductXY`, `position_scale`, `points_near`, `vInitial_VF_A_Dx`, `vFinal_Vi_A_Dx` are regenerated
from plotink/plot_utils.py on every run like every other `Gen` definition; the theorems below are stated about the
regenerated definitions.  They decide none of C01..C20 (this file is *not* registered in MANIFEST.json); they extend
the part of the library that is inside the model.  `math.sqrt` is `Py.math_sqrt`: the correctly rounded binary64
root, i.e. `R.mpSqrt 53` (its contract `ContractSqrt` is proved for `Rounding.ieee`). -/

namespace Plotink
open Py Py.Val

/-! ## `dotProductXY` — a dot product clamped to `[-1, 1]` -/

/-- for every pair of arguments the result of `dotProductXY` lies in `[-1, 1]` -/
theorem X01_dot_clamped (R : Rounding) (amb : Nat) (a b : Val) :
    -1 ≤ num (Gen.dotProductXY R amb a b) ∧ num (Gen.dotProductXY R amb a b) ≤ 1 := by
  unfold Gen.dotProductXY
  simp only [Py.gt, Py.lt, gt_iff_lt]
  generalize (add R amb (mul R amb (getItem a 0) (getItem b 0)) (mul R amb (getItem a 1) (getItem b 1))) = t
  have c1 : num (int 1) = 1 := by simp [num]
  have c2 : num (int (-1)) = -1 := by simp [num]
  simp only [c1, c2]
  by_cases h1 : (1 : Rat) < num t
  · rw [if_pos (by simpa using h1), c1]; norm_num
  · rw [if_neg (by simpa using h1)]
    by_cases h2 : num t < (-1 : Rat)
    · rw [if_pos (by simpa using h2), c2]; norm_num
    · rw [if_neg (by simpa using h2)]
      exact ⟨not_lt.mp h2, not_lt.mp h1⟩

/-- inside the range the computed dot product itself is returned (float vectors; `R` is whatever rounding the
three float operations use) -/
theorem X01_dot_value (R : Rounding) (amb : Nat) (x0 y0 x1 y1 : Rat)
    (h : -1 ≤ R.f64 (R.f64 (x0 * x1) + R.f64 (y0 * y1)) ∧ R.f64 (R.f64 (x0 * x1) + R.f64 (y0 * y1)) ≤ 1) :
    Gen.dotProductXY R amb (.tup [.flt x0, .flt y0]) (.tup [.flt x1, .flt y1])
      = .flt (R.f64 (R.f64 (x0 * x1) + R.f64 (y0 * y1))) := by
  unfold Gen.dotProductXY
  simp only [getItem_cons_zero, getItem_cons_succ, mul_flt_flt, add_flt_flt, Py.gt, Py.lt, gt_iff_lt, num]
  have a : ¬ ((1 : Rat) < R.f64 (R.f64 (x0 * x1) + R.f64 (y0 * y1))) := not_lt.mpr h.2
  have b : ¬ (R.f64 (R.f64 (x0 * x1) + R.f64 (y0 * y1)) < (-1 : Rat)) := not_lt.mpr h.1
  simp [a, b]

example : Gen.dotProductXY Rounding.exact 15 (.tup [.flt 3, .flt 4]) (.tup [.flt 3, .flt 4]) = .int 1 := by
  unfold Gen.dotProductXY
  simp only [getItem_cons_zero, getItem_cons_succ, mul_flt_flt, add_flt_flt, Py.gt, num, Rounding.exact, id]
  norm_num

/-! ## `points_near` — the strict squared-distance test, through `square_dist` -/

/-- `points_near a b t` is exactly `square_dist a b < t` (same operations in the same order) -/
theorem X01_points_near_square_dist (R : Rounding) (amb : Nat) (a b t : Val) :
    Gen.points_near R amb a b t = .bool_ (Py.lt (Gen.square_dist R amb a b) t) := by
  unfold Gen.points_near Gen.square_dist
  rfl

/-- with ideal arithmetic: true exactly when the squared Euclidean distance is strictly below the bound -/
theorem X01_points_near_exact (amb : Nat) (ax ay bx by_ t : Rat) :
    Gen.points_near Rounding.exact amb (.tup [.flt ax, .flt ay]) (.tup [.flt bx, .flt by_]) (.flt t)
      = .bool_ (decide ((ax - bx) * (ax - bx) + (ay - by_) * (ay - by_) < t)) := by
  unfold Gen.points_near
  simp only [getItem_cons_zero, getItem_cons_succ, sub_flt_flt, mul_flt_flt, add_flt_flt, Py.lt, num,
    Rounding.exact, id]
  congr

/-- symmetric in the two points under ideal arithmetic -/
theorem X01_points_near_symm (amb : Nat) (ax ay bx by_ t : Rat) :
    Gen.points_near Rounding.exact amb (.tup [.flt ax, .flt ay]) (.tup [.flt bx, .flt by_]) (.flt t)
      = Gen.points_near Rounding.exact amb (.tup [.flt bx, .flt by_]) (.tup [.flt ax, .flt ay]) (.flt t) := by
  rw [X01_points_near_exact, X01_points_near_exact]
  congr 2
  apply propext
  have e : (ax - bx) * (ax - bx) + (ay - by_) * (ay - by_) = (bx - ax) * (bx - ax) + (by_ - ay) * (by_ - ay) := by ring
  rw [e]

/-- `square_dist` under ideal arithmetic is the squared Euclidean distance: non-negative, symmetric, zero exactly for
coincident points -/
theorem X01_square_dist_exact (amb : Nat) (ax ay bx by_ : Rat) :
    Gen.square_dist Rounding.exact amb (.tup [.flt ax, .flt ay]) (.tup [.flt bx, .flt by_])
      = .flt ((ax - bx) * (ax - bx) + (ay - by_) * (ay - by_)) := by
  unfold Gen.square_dist
  simp only [getItem_cons_zero, getItem_cons_succ, sub_flt_flt, mul_flt_flt, add_flt_flt, Rounding.exact, id]

theorem X01_square_dist_nonneg_zero (ax ay bx by_ : Rat) :
    0 ≤ (ax - bx) * (ax - bx) + (ay - by_) * (ay - by_) ∧
    ((ax - bx) * (ax - bx) + (ay - by_) * (ay - by_) = 0 ↔ ax = bx ∧ ay = by_) := by
  have h1 := mul_self_nonneg (ax - bx)
  have h2 := mul_self_nonneg (ay - by_)
  refine ⟨by linarith, ⟨fun h => ?_, fun ⟨h1', h2'⟩ => by subst h1'; subst h2'; ring⟩⟩
  have e1 : (ax - bx) * (ax - bx) = 0 := by linarith
  have e2 : (ay - by_) * (ay - by_) = 0 := by linarith
  exact ⟨by have := mul_self_eq_zero.mp e1; linarith, by have := mul_self_eq_zero.mp e2; linarith⟩

/-- a larger bound accepts everything a smaller one does (ideal arithmetic) -/
theorem X01_points_near_mono (amb : Nat) (ax ay bx by_ t t' : Rat) (htt : t ≤ t')
    (h : Gen.points_near Rounding.exact amb (.tup [.flt ax, .flt ay]) (.tup [.flt bx, .flt by_]) (.flt t) = .bool_ true) :
    Gen.points_near Rounding.exact amb (.tup [.flt ax, .flt ay]) (.tup [.flt bx, .flt by_]) (.flt t') = .bool_ true := by
  rw [X01_points_near_exact] at h ⊢
  have h' : decide ((ax - bx) * (ax - bx) + (ay - by_) * (ay - by_) < t) = true := by
    injection h
  have : (ax - bx) * (ax - bx) + (ay - by_) * (ay - by_) < t' := lt_of_lt_of_le (of_decide_eq_true h') htt
  simp [this]

/-! ## `points_equal` — `math.isclose` on both coordinates (default `rel_tol = 1e-9`, `abs_tol = 0`) -/

/-- the regenerated `points_equal` is `isclose` on each coordinate -/
theorem X01_points_equal_def (R : Rounding) (amb : Nat) (ax ay bx by_ : Val) :
    Gen.points_equal R amb (.tup [ax, ay]) (.tup [bx, by_]) = .bool_ (Py.isclose R ax bx && Py.isclose R ay by_) := by
  unfold Gen.points_equal
  simp [getItem_cons_zero, getItem_cons_succ, Py.truthy]

/-- every point equals itself (whatever the rounding) -/
theorem X01_points_equal_refl (R : Rounding) (amb : Nat) (x y : Rat) :
    Gen.points_equal R amb (.tup [.flt x, .flt y]) (.tup [.flt x, .flt y]) = .bool_ true := by
  rw [X01_points_equal_def]
  simp [Py.isclose, Py.asF64]

theorem X01_abs_ite (d : Rat) : (if d < 0 then -d else d) = |d| := by
  split
  · rename_i h; rw [abs_of_neg h]
  · rename_i h; rw [abs_of_nonneg (not_lt.mp h)]

/-- **what "equal" means**: two floats judged close by the regenerated test differ by at most `rel_tol` (the double
nearest `1e-9`) times the larger magnitude, up to the two roundings of the test itself -/
theorem X01_isclose_bound (R : Rounding) (hR : ContractBasic R) (x y : Rat)
    (h : Py.isclose R (.flt x) (.flt y) = true) :
    |y - x| * (1 - 1 / 2 ^ 53) ≤ Py.relTolLit * max |x| |y| * (1 + 1 / 2 ^ 53) := by
  have ht : (0 : Rat) ≤ Py.relTolLit := by unfold Py.relTolLit; norm_num
  have hmax : 0 ≤ max |x| |y| := le_max_of_le_left (abs_nonneg x)
  have hrhs : 0 ≤ Py.relTolLit * max |x| |y| * (1 + 1 / 2 ^ 53) := by positivity
  unfold Py.isclose at h
  simp only [Py.asF64] at h
  by_cases hxy : x = y
  · subst hxy; simpa using hrhs
  · simp only [hxy, ↓reduceIte, X01_abs_ite, Bool.or_eq_true, decide_eq_true_eq] at h
    have hd := hR.f64_err (y - x)
    have hd' : |y - x| * (1 - 1 / 2 ^ 53) ≤ |R.f64 (y - x)| := by
      have := abs_sub_abs_le_abs_sub (y - x) (R.f64 (y - x))
      have e : |y - x - R.f64 (y - x)| = |R.f64 (y - x) - (y - x)| := abs_sub_comm _ _
      rw [e] at this
      linarith
    have side : ∀ z : Rat, |z| ≤ max |x| |y| → |R.f64 (Py.relTolLit * z)| ≤ Py.relTolLit * max |x| |y| * (1 + 1 / 2 ^ 53) := by
      intro z hz
      have e1 := hR.f64_err (Py.relTolLit * z)
      have e2 : |R.f64 (Py.relTolLit * z)| ≤ |Py.relTolLit * z| + |R.f64 (Py.relTolLit * z) - Py.relTolLit * z| := by
        have := abs_add_le (Py.relTolLit * z) (R.f64 (Py.relTolLit * z) - Py.relTolLit * z)
        simpa using this
      have e3 : |Py.relTolLit * z| = Py.relTolLit * |z| := by rw [abs_mul, abs_of_nonneg ht]
      have e4 : Py.relTolLit * |z| ≤ Py.relTolLit * max |x| |y| := mul_le_mul_of_nonneg_left hz ht
      have e5 : |Py.relTolLit * z| / 2 ^ 53 = |Py.relTolLit * z| * (1 / 2 ^ 53) := by ring
      nlinarith [e1, e2, e3, e4, e5]
    rcases h with (h | h) | h
    · exact le_trans hd' (le_trans h (side y (le_max_right _ _)))
    · exact le_trans hd' (le_trans h (side x (le_max_left _ _)))
    · exact le_trans hd' (le_trans h hrhs)

example : Py.isclose Rounding.exact (.flt 1) (.flt (1 + 1 / 10 ^ 10)) = true := by
  simp [Py.isclose, Py.asF64, Rounding.exact, Py.relTolLit]; norm_num

/-! ## `position_scale` — inches to the unit selected by `units_code` -/

/-- the two unit factors standing in the regenerated code are the doubles nearest to 2.54 and 25.4 -/
def cmLit : Rat := (2859785763380265 : Rat) / 1125899906842624
def mmLit : Rat := (3574732204225331 : Rat) / 140737488355328

theorem X01_cmLit_close : |cmLit - 254 / 100| ≤ (254 / 100) / 2 ^ 53 := by
  unfold cmLit; rw [abs_le]; constructor <;> norm_num
theorem X01_mmLit_close : |mmLit - 254 / 10| ≤ (254 / 10) / 2 ^ 53 := by
  unfold mmLit; rw [abs_le]; constructor <;> norm_num

/-- `units_code` 1 → centimetres, 2 → millimetres, any other integer → unchanged (inches) -/
theorem X01_position_scale (R : Rounding) (amb : Nat) (x y : Rat) (c : Int) :
    Gen.position_scale R amb (.flt x) (.flt y) (.int c) =
      if c = 1 then .tup [.flt (R.f64 (x * cmLit)), .flt (R.f64 (y * cmLit))]
      else if c = 2 then .tup [.flt (R.f64 (x * mmLit)), .flt (R.f64 (y * mmLit))]
      else .tup [.flt x, .flt y] := by
  unfold Gen.position_scale cmLit mmLit
  by_cases h1 : c = 1
  · subst h1; simp [Py.eq, num, mul_flt_flt]
  · by_cases h2 : c = 2
    · subst h2; simp [Py.eq, num, mul_flt_flt]
    · have a : ¬ ((c : Rat) = 1) := by exact_mod_cast h1
      have b : ¬ ((c : Rat) = 2) := by exact_mod_cast h2
      simp [Py.eq, num, h1, h2, a, b]

/-- each scaled coordinate is within one rounding (relative `2^-53`) of the product with the factor literal -/
theorem X01_position_scale_err (R : Rounding) (hR : ContractBasic R) (x : Rat) :
    |R.f64 (x * cmLit) - x * cmLit| ≤ |x * cmLit| / 2 ^ 53 ∧ |R.f64 (x * mmLit) - x * mmLit| ≤ |x * mmLit| / 2 ^ 53 :=
  ⟨hR.f64_err _, hR.f64_err _⟩

/-! ## `distance` — `sqrt(x*x + y*y)` -/

/-- on floats: the result is a non-negative float whose square is within `3·2^-53` (relative) of the computed sum
of squares -/
theorem X01_distance (R : Rounding) (hR : Contract R) (amb : Nat) (x y : Rat) :
    ∃ r, Gen.distance R amb (.flt x) (.flt y) = .flt r ∧ 0 ≤ r ∧
      |r ^ 2 - R.f64 (R.f64 (x * x) + R.f64 (y * y))| ≤ 3 * R.f64 (R.f64 (x * x) + R.f64 (y * y)) / 2 ^ 53 := by
  have z : R.f64 0 = 0 := hR.f64_exact 0 ⟨0, 0, by simp, by positivity⟩
  have hx : 0 ≤ R.f64 (x * x) := by
    have := hR.f64_mono 0 (x * x) (mul_self_nonneg x); rwa [z] at this
  have hy : 0 ≤ R.f64 (y * y) := by
    have := hR.f64_mono 0 (y * y) (mul_self_nonneg y); rwa [z] at this
  have hs : 0 ≤ R.f64 (R.f64 (x * x) + R.f64 (y * y)) := by
    have := hR.f64_mono 0 _ (add_nonneg hx hy); rwa [z] at this
  obtain ⟨h0, herr⟩ := hR.sqrt_sq 53 _ hs
  refine ⟨R.mpSqrt 53 (R.f64 (R.f64 (x * x) + R.f64 (y * y))), ?_, h0, herr⟩
  unfold Gen.distance
  simp only [mul_flt_flt, add_flt_flt, Py.math_sqrt, not_lt.mpr hs, ↓reduceIte]

/-- Pythagorean triples are exact: for integers with `a² + b² = c²`, `0 ≤ c < 2^26`, `distance a b` is exactly `c`
(as a float), whatever rounding satisfies the contract -/
theorem X01_distance_pythagorean (R : Rounding) (hR : Contract R) (amb : Nat) (a b c : Int)
    (h : a * a + b * b = c * c) (hc0 : 0 ≤ c) (hc : c < 2 ^ 26) :
    Gen.distance R amb (.int a) (.int b) = .flt (c : Rat) := by
  unfold Gen.distance
  simp only [mul_int_int, add_int_int, h, Py.math_sqrt]
  have hcc : 0 ≤ c * c := mul_nonneg hc0 hc0
  have hlt : c * c < 2 ^ 53 := by nlinarith
  have hrep : Rep 53 ((c * c : Int) : Rat) := rep_int 53 (c * c) (by rw [abs_of_nonneg hcc]; exact hlt)
  have hrepc : Rep 53 (c : Rat) := rep_int 53 c (by rw [abs_of_nonneg hc0]; linarith [show (2 : Int) ^ 26 ≤ 2 ^ 53 by norm_num])
  rw [if_neg (not_lt.mpr hcc), hR.f64_exact _ hrep]
  have e : ((c * c : Int) : Rat) = (c : Rat) * (c : Rat) := by push_cast; ring
  rw [e, hR.sqrt_exact 53 (c : Rat) (by exact_mod_cast hc0) hrepc]

example : Gen.distance Rounding.ieee 15 (.int 3) (.int 4) = .flt 5 :=
  X01_distance_pythagorean Rounding.ieee contract_ieee 15 3 4 5 (by norm_num) (by norm_num) (by norm_num)

/-! ## `vInitial_VF_A_Dx`, `vFinal_Vi_A_Dx` — `sqrt(v² ∓ 2·a·Δx)`, or `-1` when no real root exists -/

/-- computed radicand of `vInitial_VF_A_Dx` on floats -/
def radInitial (R : Rounding) (v a d : Rat) : Rat := R.f64 (R.f64 (v * v) - R.f64 (R.f64 (((2 : Int) : Rat) * a) * d))
/-- computed radicand of `vFinal_Vi_A_Dx` on floats -/
def radFinal (R : Rounding) (v a d : Rat) : Rat := R.f64 (R.f64 (R.f64 (((2 : Int) : Rat) * a) * d) + R.f64 (v * v))

/-- `-1` exactly when the computed radicand is negative; otherwise its correctly rounded root -/
theorem X01_vInitial (R : Rounding) (amb : Nat) (v a d : Rat) :
    Gen.vInitial_VF_A_Dx R amb (.flt v) (.flt a) (.flt d) =
      if 0 ≤ radInitial R v a d then .flt (R.mpSqrt 53 (radInitial R v a d)) else .int (-1) := by
  unfold Gen.vInitial_VF_A_Dx radInitial
  simp only [mul_flt_flt, mul_int_flt, sub_flt_flt, Py.ge, num, Py.math_sqrt, ge_iff_le, Int.cast_zero,
    decide_eq_true_eq]
  split
  · rename_i h; rw [if_neg (not_lt.mpr h)]
  · rfl

theorem X01_vFinal (R : Rounding) (amb : Nat) (v a d : Rat) :
    Gen.vFinal_Vi_A_Dx R amb (.flt v) (.flt a) (.flt d) =
      if 0 ≤ radFinal R v a d then .flt (R.mpSqrt 53 (radFinal R v a d)) else .int (-1) := by
  unfold Gen.vFinal_Vi_A_Dx radFinal
  simp only [mul_flt_flt, mul_int_flt, add_flt_flt, Py.ge, num, Py.math_sqrt, ge_iff_le, Int.cast_zero,
    decide_eq_true_eq]
  split
  · rename_i h; rw [if_neg (not_lt.mpr h)]
  · rfl

/-- the result is never negative except for the failure marker `-1`, and a returned root squares back to the
radicand within `3·2^-53` (relative) -/
theorem X01_vFinal_root (R : Rounding) (hR : Contract R) (amb : Nat) (v a d : Rat) (h : 0 ≤ radFinal R v a d) :
    ∃ r, Gen.vFinal_Vi_A_Dx R amb (.flt v) (.flt a) (.flt d) = .flt r ∧ 0 ≤ r ∧
      |r ^ 2 - radFinal R v a d| ≤ 3 * radFinal R v a d / 2 ^ 53 := by
  obtain ⟨h0, herr⟩ := hR.sqrt_sq 53 _ h
  exact ⟨_, by rw [X01_vFinal, if_pos h], h0, herr⟩

theorem X01_vInitial_root (R : Rounding) (hR : Contract R) (amb : Nat) (v a d : Rat) (h : 0 ≤ radInitial R v a d) :
    ∃ r, Gen.vInitial_VF_A_Dx R amb (.flt v) (.flt a) (.flt d) = .flt r ∧ 0 ≤ r ∧
      |r ^ 2 - radInitial R v a d| ≤ 3 * radInitial R v a d / 2 ^ 53 := by
  obtain ⟨h0, herr⟩ := hR.sqrt_sq 53 _ h
  exact ⟨_, by rw [X01_vInitial, if_pos h], h0, herr⟩

/-- integer kinematics is exact and the two helpers invert each other: if `vf² = vi² + 2·a·Δx` over the integers
(all magnitudes small enough to be exact in binary64) then `vFinal(vi, a, Δx) = vf` and `vInitial(vf, a, Δx) = vi` -/
theorem X01_kinematics_inverse (R : Rounding) (hR : Contract R) (amb : Nat) (vi vf a d : Int)
    (hvi : 0 ≤ vi) (hvf : 0 ≤ vf) (hvi' : vi < 2 ^ 25) (hvf' : vf < 2 ^ 25)
    (h : vf * vf = vi * vi + 2 * a * d) :
    Gen.vFinal_Vi_A_Dx R amb (.int vi) (.int a) (.int d) = .flt (vf : Rat) ∧
    Gen.vInitial_VF_A_Dx R amb (.int vf) (.int a) (.int d) = .flt (vi : Rat) := by
  have key : ∀ c : Int, 0 ≤ c → c < 2 ^ 25 → Py.math_sqrt R (.int (c * c)) = .flt (c : Rat) := by
    intro c hc0 hc
    have hcc : 0 ≤ c * c := mul_nonneg hc0 hc0
    have hlt : c * c < 2 ^ 53 := by nlinarith
    have hrep : Rep 53 ((c * c : Int) : Rat) := rep_int 53 (c * c) (by rw [abs_of_nonneg hcc]; exact hlt)
    have hrepc : Rep 53 (c : Rat) :=
      rep_int 53 c (by rw [abs_of_nonneg hc0]; linarith [show (2 : Int) ^ 25 ≤ 2 ^ 53 by norm_num])
    simp only [Py.math_sqrt]
    rw [if_neg (not_lt.mpr hcc), hR.f64_exact _ hrep]
    have e : ((c * c : Int) : Rat) = (c : Rat) * (c : Rat) := by push_cast; ring
    rw [e, hR.sqrt_exact 53 (c : Rat) (by exact_mod_cast hc0) hrepc]
  constructor
  · unfold Gen.vFinal_Vi_A_Dx
    have e : 2 * a * d + vi * vi = vf * vf := by rw [h]; ring
    simp only [mul_int_int, add_int_int, e]
    have hge : Py.ge (.int (vf * vf)) (.int 0) = true := by
      simp only [Py.ge, num, ge_iff_le, decide_eq_true_eq]; exact_mod_cast mul_nonneg hvf hvf
    rw [if_pos hge]
    exact key vf hvf hvf'
  · unfold Gen.vInitial_VF_A_Dx
    have e : vf * vf - 2 * a * d = vi * vi := by rw [h]; ring
    simp only [mul_int_int, sub_int_int, e]
    have hge : Py.ge (.int (vi * vi)) (.int 0) = true := by
      simp only [Py.ge, num, ge_iff_le, decide_eq_true_eq]; exact_mod_cast mul_nonneg hvi hvi
    rw [if_pos hge]
    exact key vi hvi hvi'

example : (0 : Int) ≤ 3 ∧ (5 : Int) * 5 = 3 * 3 + 2 * 2 * 4 := by decide

end Plotink
