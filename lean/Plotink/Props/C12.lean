import Plotink.Proofs.C12Core
import Plotink.Proofs.C12Parse
import Plotink.Proofs.C12Gen
import Plotink.Proofs.C12GenAttr

/-! # C12 — length parsing and unit conversion are mutually consistent and follow SVG units

About the hand-written models of `parseLengthWithUnits`, `unitsToUserUnits`, `userUnitToUnits`,
`getLength`, `getLengthInches` in `Model/C12.lean` (each with its own copy of the unit table; tied to
the source by differential execution and by AST extraction of every table literal, `harness/c12.py`).
`svgFactor u` is the independent specification: user units per unit `u` at 96 px/in.
`parseLength s = some (.fin v, u)` says the text `s` reads as the finite value `v` with unit `u`. -/

namespace Plotink
open C12 PyFloat

/-- `unitsToUserUnits` multiplies by the SVG factor -/
theorem C12_tables_unitsToUserUnits (s : Option (List Char)) (ref : Option Rat) (v f : Rat) (u : List Char)
    (hp : parseLength s = some (.fin v, u)) (hf : svgFactor u = some f) :
    unitsToUserUnits s ref = .val (v * f) := by
  unfold unitsToUserUnits
  rw [hp]
  rcases svgFactor_cases u f hf with h | h | h | h | h | h | h <;> obtain ⟨rfl, rfl⟩ := h <;>
    simp [conv, pxPerInch, UU.cMm, UU.cCm, UU.cQ, UU.cPc, UU.cPt] <;> ring

/-- `userUnitToUnits` divides by the SVG factor (`''` reads as px, `q` as `Q`) -/
theorem C12_tables_userUnitToUnits (d f : Rat) (u : List Char) (hf : svgFactor u = some f) :
    userUnitToUnits (some d) u = some (d / f) ∧
    userUnitToUnits (some d) [] = some d ∧
    userUnitToUnits (some d) ['q'] = userUnitToUnits (some d) ['Q'] := by
  refine ⟨?_, by simp [userUnitToUnits], by simp [userUnitToUnits]⟩
  unfold userUnitToUnits
  rcases svgFactor_cases u f hf with h | h | h | h | h | h | h <;> obtain ⟨rfl, rfl⟩ := h <;>
    simp [pxPerInch, Back.cMm, Back.cCm, Back.cQa, Back.cQb, Back.cPc, Back.cPt] <;> ring

/-- `getLength` multiplies by the SVG factor -/
theorem C12_tables_getLength (s : List Char) (dflt v f : Rat) (u : List Char) (hs : s ≠ [])
    (hp : parseLength (some s) = some (.fin v, u)) (hf : svgFactor u = some f) :
    getLength (some s) dflt = .val (v * f) := by
  unfold getLength
  simp only [hs, if_false]
  rw [hp]
  rcases svgFactor_cases u f hf with h | h | h | h | h | h | h <;> obtain ⟨rfl, rfl⟩ := h <;>
    simp [conv, pxPerInch, GL.cMm, GL.cCm, GL.cQa, GL.cQb, GL.cPc, GL.cPt] <;> ring

/-- `getLengthInches` multiplies by the SVG factor and divides by 96 -/
theorem C12_tables_getLengthInches (s : List Char) (v f : Rat) (u : List Char) (hs : s ≠ [])
    (hp : parseLength (some s) = some (.fin v, u)) (hf : svgFactor u = some f) :
    getLengthInches (some s) = .val (v * f / 96) := by
  unfold getLengthInches
  simp only [hs, if_false]
  rw [hp]
  rcases svgFactor_cases u f hf with h | h | h | h | h | h | h <;> obtain ⟨rfl, rfl⟩ := h <;>
    simp [conv, GI.cMm, GI.cCm, GI.cQa, GI.cQb, GI.cPc, GI.cPt, GI.cPx] <;> ring

example : unitsToUserUnits (some [' ','2','5','.','4','m','m']) none = .val 96 := by
  have := C12_tables_unitsToUserUnits (some [' ','2','5','.','4','m','m']) none (127/5) (96 / (254 / 10)) ['m','m']
    (by decide +kernel) (by decide +kernel)
  rw [this]; norm_num

/-- converting to user units and back returns the original value, exactly, for every unit the parser
can produce (for `%` when no reference is supplied) -/
theorem C12_roundtrip (s : Option (List Char)) (ref : Option Rat) (v : Rat) (u : List Char)
    (hp : parseLength s = some (.fin v, u)) (h : u ≠ ['%'] ∨ ref = none) :
    ∃ x, unitsToUserUnits s ref = .val x ∧ userUnitToUnits (some x) u = some v := by
  have hu := parseLength_unit_mem s _ u hp
  simp only [List.mem_cons, List.not_mem_nil, or_false] at hu
  rcases hu with rfl | rfl | rfl | rfl | rfl | rfl | rfl | rfl
  · exact ⟨v * 1, C12_tables_unitsToUserUnits s ref v 1 _ hp (by decide +kernel), by simp [userUnitToUnits]⟩
  · refine ⟨v * 96, C12_tables_unitsToUserUnits s ref v 96 _ hp (by decide +kernel), ?_⟩
    simp [userUnitToUnits, pxPerInch]
  · refine ⟨v * (96 / (254 / 10)), C12_tables_unitsToUserUnits s ref v _ _ hp (by decide +kernel), ?_⟩
    simp [userUnitToUnits, pxPerInch, Back.cMm] <;> ring
  · refine ⟨v * (96 / (254 / 100)), C12_tables_unitsToUserUnits s ref v _ _ hp (by decide +kernel), ?_⟩
    simp [userUnitToUnits, pxPerInch, Back.cCm] <;> ring
  · refine ⟨v * (96 / 72), C12_tables_unitsToUserUnits s ref v _ _ hp (by decide +kernel), ?_⟩
    simp [userUnitToUnits, pxPerInch, Back.cPt] <;> ring
  · refine ⟨v * 16, C12_tables_unitsToUserUnits s ref v _ _ hp (by decide +kernel), ?_⟩
    simp [userUnitToUnits, pxPerInch, Back.cPc] <;> ring
  · refine ⟨v * (96 / (1016 / 10)), C12_tables_unitsToUserUnits s ref v _ _ hp (by decide +kernel), ?_⟩
    simp [userUnitToUnits, pxPerInch, Back.cQa, Back.cQb] <;> ring
  · have hr : ref = none := by
      rcases h with h | h
      · exact absurd rfl h
      · exact h
    subst hr
    refine ⟨v / 100, ?_, ?_⟩
    · unfold unitsToUserUnits; rw [hp]; simp [conv, UU.cPct]
    · simp [userUnitToUnits, Back.cPct]

/-- the document-attribute readers: pixels = 96 × inches on every unit both accept; a percentage is
taken of the supplied reference — for **every** reference, 0 included — by `getLength` and by
`unitsToUserUnits` alike; and the two agree on every non-empty attribute text -/
theorem C12_attr (s : List Char) (hs : s ≠ []) (v : Rat) (u : List Char)
    (hp : parseLength (some s) = some (.fin v, u)) :
    (u ≠ ['%'] → ∃ px inch, getLength (some s) 0 = .val px ∧ getLengthInches (some s) = .val inch ∧ px = 96 * inch) ∧
    (u = ['%'] → ∀ r : Rat, getLength (some s) r = .val (r * v / 100) ∧
        unitsToUserUnits (some s) (some r) = .val (v * r / 100) ∧ getLengthInches (some s) = .none) ∧
    (∀ r : Rat, getLength (some s) r = unitsToUserUnits (some s) (some r)) := by
  have hu := parseLength_unit_mem (some s) _ u hp
  simp only [List.mem_cons, List.not_mem_nil, or_false] at hu
  refine ⟨?_, ?_, ?_⟩
  · intro hne
    have hfac : ∃ f, svgFactor u = some f := by
      rcases hu with rfl | rfl | rfl | rfl | rfl | rfl | rfl | rfl <;>
        first | exact absurd rfl hne | simp [svgFactor]
    obtain ⟨f, hf⟩ := hfac
    exact ⟨v * f, v * f / 96, C12_tables_getLength s 0 v f u hs hp hf,
      C12_tables_getLengthInches s v f u hs hp hf, by ring⟩
  · rintro rfl r
    refine ⟨?_, ?_, ?_⟩
    · unfold getLength; simp only [hs, if_false]; rw [hp]; simp [conv, GL.cPct]
    · unfold unitsToUserUnits; rw [hp]; simp [conv, UU.cPctRef]
    · unfold getLengthInches; simp only [hs, if_false]; rw [hp]; simp
  · intro r
    unfold getLength unitsToUserUnits
    simp only [hs, if_false]
    rw [hp]
    rcases hu with rfl | rfl | rfl | rfl | rfl | rfl | rfl | rfl <;>
      simp [conv, pxPerInch, GL.cMm, GL.cCm, GL.cQa, GL.cQb, GL.cPc, GL.cPt, GL.cPct, UU.cMm, UU.cCm, UU.cQ, UU.cPc,
        UU.cPt, UU.cPctRef] <;> ring

example : getLength (some ['5','0','%']) 0 = .val 0 ∧ unitsToUserUnits (some ['5','0','%']) (some 0) = .val 0 := by
  have h := (C12_attr ['5','0','%'] (by decide) 50 ['%'] (by decide +kernel)).2.1 rfl 0
  exact ⟨by rw [h.1]; norm_num, by rw [h.2.1]; norm_num⟩

/-- Parsing.  For every numeral `body` that Python's `float()` accepts (value `v`), that starts with a
non-blank and ends in a digit or `.`, every unit spelling `u` of the nine (`''` and `px` read as `px`,
`q` and `Q` as `Q`) and any surrounding ASCII blanks, `parseLengthWithUnits` yields that value and unit. -/
theorem C12_parse (ws ws' body u : List Char) (v : Num)
    (hws : ∀ c ∈ ws, isPySpace c = true) (hws' : ∀ c ∈ ws', isPySpace c = true)
    (hv : parseFloat body = some v)
    (hfirst : ∀ c, body.head? = some c → isPySpace c = false)
    (hlast : ∃ d, body.getLast? = some d ∧ (isDigit d = true ∨ d = '.'))
    (hu : u ∈ [[], ['p','x'], ['i','n'], ['m','m'], ['c','m'], ['p','t'], ['p','c'], ['Q'], ['q'], ['%']]) :
    parseLength (some (ws ++ ((body ++ u) ++ ws'))) = some (v, canonUnit u) :=
  parseLength_spec ws ws' body u v hws hws' hv hfirst hlast hu

example : parseLength (some ([' ', '\t'] ++ ((['-','1','.','5','e','1'] ++ ['q']) ++ ['\n']))) = some (.fin (-15), ['Q']) :=
  C12_parse _ _ _ _ _ (by decide) (by decide) (by decide +kernel) (by decide) ⟨'1', by decide, by decide⟩ (by decide)

/-- Rejection.  (1) Text whose stripped form ends in a character that is neither a digit nor `.`, is not
the end of a supported unit, and is not `f`/`y`/`n` in either case (the endings of `inf`, `infinity`,
`nan`, which Python's `float()` accepts) — this covers `em ex rem ch vw vh vmax deg m pxx …` — yields
`None` from the parser and from the three functions that call it.  (2) A unit, or nothing, without a
numeric part yields `None`.  (3) `userUnitToUnits` yields `None` for `None` and for every unit string
other than the ten supported spellings. -/
theorem C12_reject :
    (∀ (s : List Char) (c : Char), (pyStrip s).getLast? = some c → isDigit c = false → c ≠ '.' →
      lowerAscii c ∉ ['f', 'y', 'n'] →
      lastN 2 (pyStrip s) ∉ [['p','x'], ['i','n'], ['m','m'], ['c','m'], ['p','t'], ['p','c']] →
      c ∉ ['Q', 'q', '%'] →
      parseLength (some s) = none ∧ (∀ ref, unitsToUserUnits (some s) ref = .none) ∧
      (∀ d, getLength (some s) d = .none) ∧ getLengthInches (some s) = .none) ∧
    (∀ (ws ws' u : List Char), (∀ c ∈ ws, isPySpace c = true) → (∀ c ∈ ws', isPySpace c = true) →
      u ∈ [[], ['p','x'], ['i','n'], ['m','m'], ['c','m'], ['p','t'], ['p','c'], ['Q'], ['q'], ['%']] →
      parseLength (some (ws ++ (u ++ ws'))) = none ∧
      (∀ ref, unitsToUserUnits (some (ws ++ (u ++ ws'))) ref = .none) ∧
      (ws ++ (u ++ ws') ≠ [] → ∀ d, getLength (some (ws ++ (u ++ ws'))) d = .none) ∧
      getLengthInches (some (ws ++ (u ++ ws'))) = .none) ∧
    (∀ (d : Option Rat) (u : List Char),
      u ∉ [[], ['p','x'], ['i','n'], ['m','m'], ['c','m'], ['p','t'], ['p','c'], ['Q'], ['q'], ['%']] →
      userUnitToUnits d u = none) ∧
    (∀ u, userUnitToUnits none u = none) ∧
    parseLength none = none ∧ (∀ ref, unitsToUserUnits none ref = .none) ∧ getLengthInches none = .none := by
  refine ⟨?_, ?_, ?_, fun u => rfl, rfl, fun ref => rfl, rfl⟩
  · intro s c hc hd hdot hfyn h2 h1
    have hp := parseLength_reject_suffix s c hc hd hdot hfyn h2 h1
    have hs : s ≠ [] := by
      intro e; subst e
      have : pyStrip [] = [] := by decide
      rw [this] at hc; simp at hc
    obtain ⟨a, b, c'⟩ := none_of_parse_none s hp
    exact ⟨hp, a, b hs, c'⟩
  · intro ws ws' u hws hws' hu
    have hp := parseLength_reject_nonum ws ws' u hws hws' hu
    obtain ⟨a, b, c'⟩ := none_of_parse_none _ hp
    exact ⟨hp, a, b, c'⟩
  · intro d u hu
    simp only [List.mem_cons, List.not_mem_nil, or_false, not_or] at hu
    obtain ⟨h0, h1, h2, h3, h4, h5, h6, h7, h8, h9⟩ := hu
    cases d with
    | none => rfl
    | some x => simp [userUnitToUnits, h0, h1, h2, h3, h4, h5, h6, h7, h8, h9]

example : parseLength (some ['1','2','e','m',' ']) = none ∧ getLength (some ['1','2','e','m',' ']) 7 = .none := by
  obtain ⟨a, _, b, _⟩ := C12_reject.1 ['1','2','e','m',' '] 'm' (by decide) (by decide) (by decide) (by decide) (by decide) (by decide)
  exact ⟨a, b 7⟩

/-! ## Statements about the SOURCE-REGENERATED code

`Gen.parseLengthWithUnits`, `Gen.unitsToUserUnits`, `Gen.userUnitToUnits`, `Gen.getLength`, `Gen.getLengthInches` are
regenerated from `plotink/plot_utils.py` by the translator on every run.  A Python `str` is `Py.Val.str s` (`s : String`,
`Py.ofL l = .str (String.ofList l)`); numbers are `int`s or `float`s (`Py.IsNum v q`).  The parser theorem holds
for every rounding mode; the table theorems are in exact arithmetic (`Rounding.exact`) with the float literals
of the source as the doubles they denote (`C12.genFactor`), which is why the SVG factor appears up to `2^-52`.
Proofs: `Proofs/C12Gen.lean`. -/

/-- **bridge** (parser) `Gen.parseLengthWithUnits = C12.parseLength`: `None` gives `(None, None)`; text the model
rejects gives `(None, None)`; text the model reads as the finite value `q` with unit `u` gives
`(float correctly rounded from q, u)`.  Every rounding mode. -/
theorem C12_gen_parse (R : Rounding) (amb : Nat) :
    Gen.parseLengthWithUnits R amb .none_ = .tup [.none_, .none_] ∧
    ∀ s : String,
      (parseLength (some s.toList) = none → Gen.parseLengthWithUnits R amb (.str s) = .tup [.none_, .none_]) ∧
      (∀ q u, parseLength (some s.toList) = some (.fin q, u) →
        Gen.parseLengthWithUnits R amb (.str s) = .tup [.flt (R.f64 q), Py.ofL u]) :=
  ⟨parse_none_arg R amb, fun s => parse_bridge R amb s⟩

/-- `C12_parse` for the regenerated parser: numeral, unit spelling and surrounding blanks -/
theorem C12_gen_parse_spec (R : Rounding) (amb : Nat) (ws ws' body u : List Char) (q : Rat)
    (hws : ∀ c ∈ ws, isPySpace c = true) (hws' : ∀ c ∈ ws', isPySpace c = true)
    (hv : parseFloat body = some (.fin q))
    (hfirst : ∀ c, body.head? = some c → isPySpace c = false)
    (hlast : ∃ d, body.getLast? = some d ∧ (isDigit d = true ∨ d = '.'))
    (hu : u ∈ [[], ['p','x'], ['i','n'], ['m','m'], ['c','m'], ['p','t'], ['p','c'], ['Q'], ['q'], ['%']]) :
    Gen.parseLengthWithUnits R amb (Py.ofL (ws ++ ((body ++ u) ++ ws'))) = .tup [.flt (R.f64 q), Py.ofL (canonUnit u)] := by
  have h := C12_parse ws ws' body u (.fin q) hws hws' hv hfirst hlast hu
  have := (parse_bridge R amb (String.ofList (ws ++ ((body ++ u) ++ ws')))).2 q (canonUnit u)
    (by rw [String.toList_ofList]; exact h)
  exact this

/-- `C12_tables_unitsToUserUnits` for the regenerated code: value × factor, the factor being the SVG factor up to
the representation error of the source's float literals (relative `2^-52`) -/
theorem C12_gen_tables_unitsToUserUnits (amb : Nat) (s : String) (ref : Py.Val) (v f : Rat) (u : List Char)
    (hp : parseLength (some s.toList) = some (.fin v, u)) (hf : svgFactor u = some f) :
    ∃ f', genFactor u = some f' ∧ |f' - f| ≤ f / 2 ^ 52 ∧
      Gen.unitsToUserUnits Rounding.exact amb (.str s) ref = .flt (v * f') := by
  obtain ⟨f', h1, h2⟩ := genFactor_close u f hf
  exact ⟨f', h1, h2, uu_tables amb s ref v f' u hp h1⟩

/-- `C12_tables_userUnitToUnits` for the regenerated code: value ÷ factor; `''` reads as px, `q` as `Q` -/
theorem C12_gen_tables_userUnitToUnits (amb : Nat) (dv : Py.Val) (d f : Rat) (u : List Char)
    (hd : Py.IsNum dv d) (hf : svgFactor u = some f) :
    (∃ g, genBackFactor u = some g ∧ |g - f| ≤ f / 2 ^ 52 ∧
      Gen.userUnitToUnits Rounding.exact amb dv (Py.ofL u) = .flt (d / g)) ∧
    Gen.userUnitToUnits Rounding.exact amb dv (Py.ofL []) = .flt d ∧
    Gen.userUnitToUnits Rounding.exact amb dv (Py.ofL ['q']) = Gen.userUnitToUnits Rounding.exact amb dv (Py.ofL ['Q']) := by
  obtain ⟨g, h1, h2⟩ := genBackFactor_close u f hf
  refine ⟨⟨g, h1, h2, back_tables amb dv d g u hd h1⟩, ?_, ?_⟩
  · rw [back_tables amb dv d 1 [] hd (by decide +kernel), div_one]
  · rw [back_tables amb dv d _ ['q'] hd (by decide +kernel : genBackFactor ['q'] = some (96 / (40 * lit2_54))),
      back_tables amb dv d _ ['Q'] hd (by decide +kernel : genBackFactor ['Q'] = some (96 / (40 * lit2_54)))]

/-- percentages in the regenerated code: of the supplied reference — every reference, `0` included — else of 1;
and back -/
theorem C12_gen_percent (amb : Nat) (s : String) (v : Rat)
    (hp : parseLength (some s.toList) = some (.fin v, ['%'])) :
    Gen.unitsToUserUnits Rounding.exact amb (.str s) .none_ = .flt (v / 100) ∧
    (∀ (rv : Py.Val) (r : Rat), Py.IsNum rv r →
      Gen.unitsToUserUnits Rounding.exact amb (.str s) rv = .flt (v * r / 100)) ∧
    (∀ (dv : Py.Val) (d : Rat), Py.IsNum dv d →
      Gen.userUnitToUnits Rounding.exact amb dv (Py.ofL ['%']) = .flt (d * 100)) :=
  ⟨(uu_percent amb s v hp).1, (uu_percent amb s v hp).2, fun dv d hd => back_percent amb dv d hd⟩

/-- `C12_roundtrip` for the regenerated code (exact arithmetic): to user units and back returns the value — exactly
for every unit but `Q`; for `Q` up to relative `2^-52`, because the source writes that factor as `101.6` in one
function and as `40.0 * 2.54` in the other, which are two different doubles -/
theorem C12_gen_roundtrip (amb : Nat) (s : String) (v : Rat) (u : List Char)
    (hp : parseLength (some s.toList) = some (.fin v, u)) :
    (u ≠ ['Q'] → u ≠ ['%'] → ∀ ref,
      Gen.userUnitToUnits Rounding.exact amb (Gen.unitsToUserUnits Rounding.exact amb (.str s) ref) (Py.ofL u) = .flt v) ∧
    (u = ['%'] →
      Gen.userUnitToUnits Rounding.exact amb (Gen.unitsToUserUnits Rounding.exact amb (.str s) .none_) (Py.ofL u) = .flt v) ∧
    (u = ['Q'] → ∀ ref, ∃ v',
      Gen.userUnitToUnits Rounding.exact amb (Gen.unitsToUserUnits Rounding.exact amb (.str s) ref) (Py.ofL u) = .flt v' ∧
      |v' - v| ≤ |v| / 2 ^ 52) :=
  gen_roundtrip amb s v u hp

/-- `C12_reject` for the regenerated code (every rounding mode): rejected text, `None` input and unsupported unit
strings give `None` -/
theorem C12_gen_reject (R : Rounding) (amb : Nat) :
    (∀ ref, Gen.unitsToUserUnits R amb .none_ ref = .none_) ∧
    (∀ (s : String) ref, parseLength (some s.toList) = none → Gen.unitsToUserUnits R amb (.str s) ref = .none_) ∧
    (∀ uv, Gen.userUnitToUnits R amb .none_ uv = .none_) ∧
    (∀ (dv : Py.Val) (u : List Char),
      u ∉ [[], ['p','x'], ['i','n'], ['m','m'], ['c','m'], ['p','t'], ['p','c'], ['Q'], ['q'], ['%']] →
      Gen.userUnitToUnits R amb dv (Py.ofL u) = .none_) :=
  ⟨fun ref => (uu_none R amb ref).1, fun s ref h => (uu_none R amb ref).2 s h, (back_none R amb).1, (back_none R amb).2⟩

/-! ### the document-attribute readers, regenerated

`Gen.getLength R amb attr default` / `Gen.getLengthInches R amb attr` are regenerated from `plot_utils.getLength` /
`getLengthInches`; the translator replaces the opaque lookup `altself.document.getroot().get(name)` by the parameter
`attr` — the attribute text `.str s`, or `.none_` for an absent attribute (recorded as `abstracted` in
`Gen/report.json`; that the document returns that text is outside the model).  Proofs: `Proofs/C12GenAttr.lean`. -/

/-- `C12_tables_getLength` for the regenerated code: value × factor whatever the default, the factor being the SVG
factor up to the representation error of the source's float literals (relative `2^-52`) -/
theorem C12_gen_tables_getLength (amb : Nat) (s : String) (dv : Py.Val) (v f : Rat) (u : List Char)
    (hp : parseLength (some s.toList) = some (.fin v, u)) (hf : svgFactor u = some f) :
    ∃ g, genBackFactor u = some g ∧ |g - f| ≤ f / 2 ^ 52 ∧
      Gen.getLength Rounding.exact amb (.str s) dv = .flt (v * g) := by
  obtain ⟨g, h1, h2⟩ := genBackFactor_close u f hf
  exact ⟨g, h1, h2, len_tables amb s dv v g u hp h1⟩

/-- `C12_tables_getLengthInches` for the regenerated code: value × that same factor ÷ 96 -/
theorem C12_gen_tables_getLengthInches (amb : Nat) (s : String) (v f : Rat) (u : List Char)
    (hp : parseLength (some s.toList) = some (.fin v, u)) (hf : svgFactor u = some f) :
    ∃ g, genBackFactor u = some g ∧ |g - f| ≤ f / 2 ^ 52 ∧
      Gen.getLengthInches Rounding.exact amb (.str s) = .flt (v * g / 96) := by
  obtain ⟨g, h1, h2⟩ := genBackFactor_close u f hf
  exact ⟨g, h1, h2, inch_tables amb s v g u hp h1⟩

/-- `C12_attr` for the regenerated readers (exact arithmetic), for every attribute text the parser reads as `v` with
unit `u`: pixels = 96 × inches *exactly* on every unit both accept, whatever the default; a percentage is taken of the
supplied default — **every** number, 0 included — by `getLength` and by `unitsToUserUnits` alike, and is `None` in
inches; `getLength` and `unitsToUserUnits` return the same value on the same text and reference for every unit but `Q`,
where the source writes the factor as `40.0 * 2.54` in one and `101.6` in the other (relative deviation ≤ `2^-52`) -/
theorem C12_gen_attr (amb : Nat) (s : String) (v : Rat) (u : List Char)
    (hp : parseLength (some s.toList) = some (.fin v, u)) :
    (u ≠ ['%'] → ∀ dv : Py.Val, ∃ px inch, Gen.getLength Rounding.exact amb (.str s) dv = .flt px ∧
        Gen.getLengthInches Rounding.exact amb (.str s) = .flt inch ∧ px = 96 * inch) ∧
    (u = ['%'] → ∀ (rv : Py.Val) (r : Rat), Py.IsNum rv r →
        Gen.getLength Rounding.exact amb (.str s) rv = .flt (r * v / 100) ∧
        Gen.unitsToUserUnits Rounding.exact amb (.str s) rv = .flt (v * r / 100) ∧
        Gen.getLengthInches Rounding.exact amb (.str s) = .none_) ∧
    (u ≠ ['Q'] → ∀ (rv : Py.Val) (r : Rat), Py.IsNum rv r →
        Gen.getLength Rounding.exact amb (.str s) rv = Gen.unitsToUserUnits Rounding.exact amb (.str s) rv) ∧
    (u = ['Q'] → ∀ rv : Py.Val, ∃ a b, Gen.getLength Rounding.exact amb (.str s) rv = .flt a ∧
        Gen.unitsToUserUnits Rounding.exact amb (.str s) rv = .flt b ∧ |a - b| ≤ |b| / 2 ^ 52) := by
  refine ⟨fun hu dv => gen_attr_px_inch amb s dv v u hp hu, ?_, fun hQ rv r hr => len_eq_uu amb s v u hp hQ rv r hr, ?_⟩
  · rintro rfl rv r hr
    exact ⟨len_percent amb s v hp rv r hr, (uu_percent amb s v hp).2 rv r hr, inch_percent _ amb s v hp⟩
  · rintro rfl rv
    exact len_uu_Q amb s v hp rv

/-- absent attribute (`None`), empty text, and text the parser rejects (every rounding mode): `getLength` returns
`float(default)` for the first two and `None` for rejected text; `getLengthInches` returns `None` in all three -/
theorem C12_gen_attr_absent (R : Rounding) (amb : Nat) :
    (∀ dv, Gen.getLength R amb .none_ dv = Py.float_ R dv ∧ Gen.getLength R amb (.str "") dv = Py.float_ R dv) ∧
    Gen.getLengthInches R amb .none_ = .none_ ∧ Gen.getLengthInches R amb (.str "") = .none_ ∧
    (∀ (s : String) dv, s ≠ "" → parseLength (some s.toList) = none → Gen.getLength R amb (.str s) dv = .none_) ∧
    (∀ s : String, parseLength (some s.toList) = none → Gen.getLengthInches R amb (.str s) = .none_) :=
  ⟨fun dv => len_absent R amb dv, (inch_absent R amb).1, (inch_absent R amb).2,
    fun s dv hs h => len_reject R amb s dv hs h, fun s h => inch_reject R amb s h⟩

/-- non-vacuity: `"0"` reads as the value 0 in px (so `getLength` returns `0.0`, not `None`), `"50%"` as 50 percent -/
example : Gen.getLength Rounding.exact 53 (.str "0") (.int 321) = .flt 0 ∧
    Gen.getLengthInches Rounding.exact 53 (.str "0") = .flt 0 := by
  have hp : parseLength (some ("0" : String).toList) = some (.fin 0, ['p', 'x']) := by decide +kernel
  refine ⟨?_, ?_⟩
  · rw [len_tables 53 "0" _ 0 1 _ hp (by decide +kernel)]; norm_num
  · rw [inch_tables 53 "0" 0 1 _ hp (by decide +kernel)]; norm_num
example : Gen.getLength Rounding.exact 53 (.str "50%") (.int 0) = .flt 0 := by
  have hp : parseLength (some ("50%" : String).toList) = some (.fin 50, ['%']) := by decide +kernel
  rw [((C12_gen_attr 53 "50%" 50 ['%'] hp).2.1 rfl (.int 0) 0 (Or.inr ⟨0, rfl, by norm_num⟩)).1]; norm_num

/-- non-vacuity: `" 25.4mm"` meets the hypotheses; the regenerated converter returns `25.4 × 96 / (the double 25.4)` -/
example : parseLength (some (" 25.4mm" : String).toList) = some (.fin (127 / 5), ['m', 'm']) ∧
    svgFactor ['m', 'm'] = some (96 / (254 / 10)) := ⟨by decide +kernel, by decide +kernel⟩
example : Gen.unitsToUserUnits Rounding.exact 53 (.str " 25.4mm") .none_ = .flt (127 / 5 * (96 / lit25_4)) :=
  uu_tables 53 " 25.4mm" .none_ (127 / 5) _ ['m', 'm'] (by decide +kernel) (by decide +kernel)

end Plotink
