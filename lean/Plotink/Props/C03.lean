import Plotink.Proofs.C03Top
import Plotink.Proofs.C03Sim
import Plotink.Proofs.C03Bridge
import Plotink.Proofs.ContractSqrtIeee
/-! # C03 — step-limited (LM) move duration is the first tick that exhausts the step budget

Spec: `Fw.lmSpec` (`Model/C03.lean`, built from the firmware recurrence of `Model/Firmware.lean`).
Model: `C03.calculate_lm` — exact integer model of the (repaired) `ebb_calc.calculate_lm`, same branch
structure as the code, tied to the source by the correspondence run (implementation = `Gen(ieee)` = model
on every generated input). `C03_degenerate`, `C03_legacy_mirror` and `C03_alias` are stated directly about
the generated definitions `Gen.calculate_lm` / `Gen.moveTimeLM` (regenerated from the source on every run).

Layers (DESIGN §7 C03): 1 `C03_taken_monotone`, `C03_firstTick_iff`; 2 `C03_taken_closed_form(_mirror)`;
3 `C03_ceilRoot_spec`, `C03_ceilRoot_small_spec`; 4 `C03_model` (every branch) and its corollaries. -/
namespace Plotink
open Fw C03

/-! ## Layer 1 -/

/-- the number of motor steps taken never decreases -/
theorem C03_taken_monotone (rate accel a0 : Int) (s t : Nat) (h : s ≤ t) :
    ltTaken rate accel a0 s ≤ ltTaken rate accel a0 t :=
  ltTaken_mono rate accel a0 h

/-- the Spec's search returns `t` exactly when the budget is reached at `t` and not one tick earlier -/
theorem C03_firstTick_iff (rate accel a0 n : Int) (hn : 1 ≤ n) (fuel t : Nat) :
    lmFirstTick rate accel a0 n fuel = some t ↔
      (1 ≤ t ∧ t ≤ fuel ∧ n ≤ ltTaken rate accel a0 t ∧ ltTaken rate accel a0 (t - 1) < n) := by
  rw [lmFirstTick_eq_some_iff rate accel a0 n hn, isFirst_iff]
  tauto

example : lmFirstTick 10 (-8) 0 1 5 = some 3 := by decide

/-- the linear-time simulation the driver runs for `c03 spec` is the Spec's first-tick search -/
theorem C03_spec_sim (n rate accel : Int) (acc : Option Int) (fuel : Nat) :
    lmSim n rate accel (lmStart rate accel acc) fuel = lmSpecPos n rate accel acc fuel :=
  lmSim_eq n rate accel acc fuel

/-! ## Layer 2: the step count in closed form (no summation) -/

/-- backward until tick `τ`, forward afterwards -/
theorem C03_taken_closed_form (rate accel a0 : Int) (τ t : Nat)
    (h1 : ∀ k : Nat, 1 ≤ k → k ≤ τ → ltRate rate accel k ≤ 0)
    (h2 : ∀ k : Nat, τ < k → 0 ≤ ltRate rate accel k) :
    ltTaken rate accel a0 t =
      ((ltPos rate accel a0 (min t τ) - ltPos rate accel a0 0).natAbs : Int) +
      ((ltPos rate accel a0 t - ltPos rate accel a0 (min t τ)).natAbs : Int) := by
  have hd : ∀ s : Nat, s ≤ τ → ltTaken rate accel a0 s = ltPos rate accel a0 0 - ltPos rate accel a0 s := by
    intro s hs
    have := ltTaken_down rate accel a0 0 s (Nat.zero_le _) (fun k hk hk' => h1 k hk (by omega))
    rw [this, ltTaken_zero]; ring
  rcases Nat.le_total t τ with h | h
  · rw [Nat.min_eq_left h]
    have a := hd t h
    have b := ltTaken_nonneg rate accel a0 t
    omega
  · rw [Nat.min_eq_right h]
    have a := hd τ (le_refl _)
    have b := ltTaken_nonneg rate accel a0 τ
    have c := ltTaken_up rate accel a0 τ t h (fun k hk _ => h2 k hk)
    have d := ltTaken_mono rate accel a0 h
    omega

/-- forward until tick `τ`, backward afterwards -/
theorem C03_taken_closed_form_mirror (rate accel a0 : Int) (τ t : Nat)
    (h1 : ∀ k : Nat, 1 ≤ k → k ≤ τ → 0 ≤ ltRate rate accel k)
    (h2 : ∀ k : Nat, τ < k → ltRate rate accel k ≤ 0) :
    ltTaken rate accel a0 t =
      ((ltPos rate accel a0 (min t τ) - ltPos rate accel a0 0).natAbs : Int) +
      ((ltPos rate accel a0 t - ltPos rate accel a0 (min t τ)).natAbs : Int) := by
  have hd : ∀ s : Nat, s ≤ τ → ltTaken rate accel a0 s = ltPos rate accel a0 s - ltPos rate accel a0 0 := by
    intro s hs
    have := ltTaken_up rate accel a0 0 s (Nat.zero_le _) (fun k hk hk' => h1 k hk (by omega))
    rw [this, ltTaken_zero]; ring
  rcases Nat.le_total t τ with h | h
  · rw [Nat.min_eq_left h]
    have a := hd t h
    have b := ltTaken_nonneg rate accel a0 t
    omega
  · rw [Nat.min_eq_right h]
    have a := hd τ (le_refl _)
    have b := ltTaken_nonneg rate accel a0 τ
    have c := ltTaken_down rate accel a0 τ t h (fun k hk _ => h2 k hk)
    have d := ltTaken_mono rate accel a0 h
    omega

/-- the moves of the two closed forms exist: `rate = -802, accel = 4` runs backward up to tick 201 -/
example : (∀ k : Nat, 1 ≤ k → k ≤ 201 → ltRate (-802) 4 k ≤ 0) ∧ (∀ k : Nat, 201 < k → 0 ≤ ltRate (-802) 4 k) := by
  constructor <;> intro k <;> rw [ltRate_eq] <;> simp only [tdiv] <;> omega

/-! ## Layer 3: the ceiled roots, computed with integer square roots -/

/-- for `a > 0` the ceiled larger root `⌈(⌈√D⌉ − k)/(2a)⌉` is the least integer `t` at/after the vertex with
`a·t² + k·t + 2c ≥ 0` -/
theorem C03_ceilRoot_spec (a k c : Int) (ha : 0 < a) (hD : 0 ≤ k * k - 8 * a * c) (t : Int) :
    cdiv (csqrt (k * k - 8 * a * c) - k) (2 * a) ≤ t ↔
      (0 ≤ 2 * a * t + k ∧ 0 ≤ a * t * t + k * t + 2 * c) :=
  big_root_spec a k c ha hD t

/-- for `a > 0` the ceiled smaller root `⌈(−⌊√D⌋ − k)/(2a)⌉` is the least integer `t` that is at/after the
vertex or has `a·t² + k·t + 2c ≤ 0` -/
theorem C03_ceilRoot_small_spec (a k c : Int) (ha : 0 < a) (hD : 0 ≤ k * k - 8 * a * c) (t : Int) :
    cdiv (-fsqrt (k * k - 8 * a * c) - k) (2 * a) ≤ t ↔
      (0 ≤ 2 * a * t + k ∨ a * t * t + k * t + 2 * c ≤ 0) :=
  small_root_spec a k c ha hD t

example : (0 : Int) < 2 ∧ (0 : Int) ≤ 3 * 3 - 8 * 2 * (-5) := by decide

/-! ## Layer 4: the model returns the Spec's result, in every branch -/

/-- **C03 (model).** For every request inside the property's domain — a given accumulator in `[0, 2^31)`,
the budget reached (the Spec, searched with any fuel, returns a result) and every per-tick rate up to the
reported tick within `±(2^31 − 1)` — the exact integer model of `calculate_lm` returns exactly the Spec's
`(first tick, position, accumulator)`; requests that cannot move give `(0, 0, 0)`; the legacy negative-step
form is the mirrored move. All branches: constant rate; no reversal; reversal before the first tick;
budget used up before the reversal; reversal before the first step; steps in both directions. -/
theorem C03_model (steps rate accel : Int) (acc : Option Int) (fuel : Nat) (res : Int × Int × Int)
    (hspec : lmSpec steps rate accel acc fuel = some res)
    (hv : ValidLM steps rate accel acc res.1) :
    C03.calculate_lm steps rate accel acc = res := by
  unfold lmSpec at hspec
  unfold C03.calculate_lm
  by_cases hd : lmDegenerate steps rate accel
  · rw [if_pos hd] at hspec
    simp only [Option.some.injEq] at hspec
    subst hspec
    unfold lmDegenerate at hd
    split_ifs <;> first | rfl | (exfalso; omega)
  · rw [if_neg hd] at hspec
    unfold lmDegenerate at hd
    have h1 : steps ≠ 0 := by omega
    have h2 : ¬ (accel = 0 ∧ rate = 0) := by omega
    rw [if_neg h1, if_neg h2]
    have hR := hv.rates
    unfold eff at hR
    by_cases hs : steps < 0
    · rw [if_pos hs] at hspec
      have hr : ¬ rate < 0 := by omega
      rw [if_pos hs, if_neg hr]
      simp only [hs, if_true] at hR
      exact lmPos_correct (-steps) (-rate) (-accel) acc fuel res (by omega) (by omega)
        (lmStart_range steps rate accel acc res.1 hv _ _) hspec hR
    · rw [if_neg hs] at hspec
      rw [if_neg hs]
      simp only [hs, if_false] at hR
      exact lmPos_correct steps rate accel acc fuel res (by omega) (by omega)
        (lmStart_range steps rate accel acc res.1 hv _ _) hspec hR

/-- non-vacuity, and the two defect witnesses of the unrepaired code (F1, F2 of DESIGN §9): the Spec's
answers are `(3, −1, 2^31 − 6)` and the model agrees (the unrepaired code returned `(0, 1, −2^31)`). -/
example : lmSpec 1 10 (-8) none 4 = some (3, -1, 2147483642) ∧
    C03.calculate_lm 1 10 (-8) none = (3, -1, 2147483642) ∧
    ValidLM 1 10 (-8) none 3 := by
  refine ⟨by decide +kernel, by decide +kernel, ⟨(fun a h => by cases h), (fun k hk hk' => ?_)⟩⟩
  rw [ltRate_eq]; simp only [eff, tdiv, two31]; norm_num; omega

/-- F2: the symmetric reversal `(1, −802, 4, clear)`: Spec and model give `(402, 1, 803)` (the unrepaired code
returned `(401, 1, −1)`); the Spec is evaluated through the proved-equal linear simulation -/
example : lmSpecPos 1 (-802) 4 none 500 = some (402, 1, 803) ∧
    C03.calculate_lm 1 (-802) 4 none = (402, 1, 803) := by
  rw [← C03_spec_sim]
  exact ⟨by decide +kernel, by decide +kernel⟩

/-- **Accumulator range** -/
theorem C03_acc_range (steps rate accel : Int) (acc : Option Int) (fuel : Nat) (res : Int × Int × Int)
    (hspec : lmSpec steps rate accel acc fuel = some res)
    (hv : ValidLM steps rate accel acc res.1) :
    0 ≤ (C03.calculate_lm steps rate accel acc).2.2 ∧ (C03.calculate_lm steps rate accel acc).2.2 < two31 := by
  rw [C03_model steps rate accel acc fuel res hspec hv]
  unfold lmSpec at hspec
  split_ifs at hspec with h1 h2
  · simp only [Option.some.injEq] at hspec; subst hspec; decide
  all_goals
    unfold lmSpecPos at hspec
    simp only at hspec
    split at hspec
    · simp only [Option.some.injEq] at hspec
      subst hspec
      exact ⟨Int.emod_nonneg _ (by decide), Int.emod_lt_of_pos _ (by decide)⟩
    · cases hspec

/-- **Feeding the duration to the timed-move predictor**: the C01 Spec (`Fw.ltSpec`) for the (mirrored)
rate and acceleration, the same accumulator argument and the reported duration gives the reported position
and accumulator. -/
theorem C03_feeds_lt (steps rate accel : Int) (acc : Option Int) (fuel : Nat) (res : Int × Int × Int)
    (hspec : lmSpec steps rate accel acc fuel = some res)
    (hv : ValidLM steps rate accel acc res.1)
    (hnd : ¬ lmDegenerate steps rate accel) :
    ltSpec (eff steps rate) (eff steps accel) (C03.calculate_lm steps rate accel acc).1.toNat acc
      = ((C03.calculate_lm steps rate accel acc).2.1, (C03.calculate_lm steps rate accel acc).2.2) := by
  rw [C03_model steps rate accel acc fuel res hspec hv]
  unfold lmSpec at hspec
  rw [if_neg hnd] at hspec
  have key : ∀ n r a : Int, lmSpecPos n r a acc fuel = some res →
      ltSpec r a res.1.toNat acc = (res.2.1, res.2.2) := by
    intro n r a h
    have hrange := lmStart_range steps rate accel acc res.1 hv r a
    unfold lmSpecPos at h
    simp only at h
    split at h
    · simp only [Option.some.injEq] at h
      rw [← h]
      simp only [Int.toNat_natCast]
      rw [pos0 r a _ hrange.1 hrange.2]
      cases acc <;> simp [ltSpec, lmStart, ltPos]
    · cases h
  unfold eff
  by_cases hs : steps < 0
  · rw [if_pos hs] at hspec
    simp only [hs, if_true]
    exact key _ _ _ hspec
  · rw [if_neg hs] at hspec
    simp only [hs, if_false]
    exact key _ _ _ hspec

/-! ## Statements about the generated definitions (regenerated from the source on every run) -/

open Py Py.Val in
/-- **Requests that cannot move** report `(0, 0, 0)` — generated `calculate_lm`, any rounding, any ambient
precision, any accumulator argument. -/
theorem C03_degenerate (R : Rounding) (amb : Nat) (steps rate accel : Int) (acc : Py.Val)
    (h : lmDegenerate steps rate accel) :
    Gen.calculate_lm R amb (.int steps) (.int rate) (.int accel) acc = .tup [.int 0, .int 0, .int 0] := by
  unfold Gen.calculate_lm
  show (if Py.eq (Py.int_ (.int steps)) (.int 0) = true then _ else
        if (Py.eq (Py.int_ (.int accel)) (.int 0) && Py.eq (Py.int_ (.int rate)) (.int 0)) = true then _ else
        if Py.lt (Py.int_ (.int steps)) (.int 0) = true then
          (if Py.lt (Py.int_ (.int rate)) (.int 0) = true then _ else _) else _) = _
  by_cases c1 : Py.eq (Py.int_ (.int steps)) (.int 0) = true
  · rw [if_pos c1]
  · rw [if_neg c1]
    by_cases c2 : (Py.eq (Py.int_ (.int accel)) (.int 0) && Py.eq (Py.int_ (.int rate)) (.int 0)) = true
    · rw [if_pos c2]
    · rw [if_neg c2]
      rw [Bool.and_eq_true, C03.eq_int_int, C03.eq_int_int] at c2
      rw [C03.eq_int_int] at c1
      have h3 : steps < 0 ∧ rate < 0 := by
        rcases h with h | ⟨h1, h2⟩ | h
        · exact absurd h c1
        · exact absurd ⟨h2, h1⟩ c2
        · exact h
      rw [if_pos ((C03.lt_int_int _ _).mpr h3.1), if_pos ((C03.lt_int_int _ _).mpr h3.2)]

example : lmDegenerate (-3) (-1) 7 := by decide

/-- the model agrees on the requests that cannot move -/
theorem C03_degenerate_model (steps rate accel : Int) (acc : Option Int)
    (h : lmDegenerate steps rate accel) : C03.calculate_lm steps rate accel acc = (0, 0, 0) := by
  unfold C03.calculate_lm lmDegenerate at *
  split_ifs <;> first | rfl | (exfalso; omega)

open Py Py.Val in
/-- **Legacy negative-step form mirrors the move** — generated `calculate_lm`: a negative step count with a
non-negative rate is the request `(n, −rate, −accel)` with the same accumulator argument. -/
theorem C03_legacy_mirror (R : Rounding) (amb : Nat) (n rate accel : Int) (acc : Py.Val)
    (hn : 0 < n) (hr : 0 ≤ rate) :
    Gen.calculate_lm R amb (.int (-n)) (.int rate) (.int accel) acc
      = Gen.calculate_lm R amb (.int n) (.int (-rate)) (.int (-accel)) acc := by
  by_cases hnz : rate = 0 ∧ accel = 0
  · rw [C03_degenerate R amb (-n) rate accel acc (Or.inr (Or.inl hnz)),
      C03_degenerate R amb n (-rate) (-accel) acc (Or.inr (Or.inl (by omega)))]
  · -- with `- -n` on the right both sides are the same term once the early exits are decided
    have aux : Gen.calculate_lm R amb (.int (-n)) (.int rate) (.int accel) acc
        = Gen.calculate_lm R amb (.int (- -n)) (.int (-rate)) (.int (-accel)) acc := by
      have a1 : ¬ (Py.eq (Py.int_ (.int (-n))) (.int 0) = true) := by rw [C03.eq_int_int]; omega
      have a2 : ¬ ((Py.eq (Py.int_ (.int accel)) (.int 0) && Py.eq (Py.int_ (.int rate)) (.int 0)) = true) := by
        rw [Bool.and_eq_true, C03.eq_int_int, C03.eq_int_int]; tauto
      have a3 : Py.lt (Py.int_ (.int (-n))) (.int 0) = true := by rw [C03.lt_int_int]; omega
      have a4 : ¬ (Py.lt (Py.int_ (.int rate)) (.int 0) = true) := by rw [C03.lt_int_int]; omega
      have b1 : ¬ (Py.eq (Py.int_ (.int (- -n))) (.int 0) = true) := by rw [C03.eq_int_int]; omega
      have b2 : ¬ ((Py.eq (Py.int_ (.int (-accel))) (.int 0) && Py.eq (Py.int_ (.int (-rate))) (.int 0)) = true) := by
        rw [Bool.and_eq_true, C03.eq_int_int, C03.eq_int_int]; omega
      have b3 : ¬ (Py.lt (Py.int_ (.int (- -n))) (.int 0) = true) := by rw [C03.lt_int_int]; omega
      conv_lhs =>
        unfold Gen.calculate_lm
        change (if Py.eq (Py.int_ (.int (-n))) (.int 0) = true then _ else
            if (Py.eq (Py.int_ (.int accel)) (.int 0) && Py.eq (Py.int_ (.int rate)) (.int 0)) = true then _ else
            if Py.lt (Py.int_ (.int (-n))) (.int 0) = true then
              (if Py.lt (Py.int_ (.int rate)) (.int 0) = true then _ else _) else _)
        rw [if_neg a1, if_neg a2, if_pos a3, if_neg a4]
      conv_rhs =>
        unfold Gen.calculate_lm
        change (if Py.eq (Py.int_ (.int (- -n))) (.int 0) = true then _ else
            if (Py.eq (Py.int_ (.int (-accel))) (.int 0) && Py.eq (Py.int_ (.int (-rate))) (.int 0)) = true then _ else
            if Py.lt (Py.int_ (.int (- -n))) (.int 0) = true then _ else _)
        rw [if_neg b1, if_neg b2, if_neg b3]
      rfl
    rwa [neg_neg] at aux

example : (0 : Int) < 5 ∧ (0 : Int) ≤ 3 := by decide

/-- the same for the model and for the Spec -/
theorem C03_legacy_mirror_model (n rate accel : Int) (acc : Option Int) (fuel : Nat) (hn : 0 < n) (hr : 0 ≤ rate) :
    C03.calculate_lm (-n) rate accel acc = C03.calculate_lm n (-rate) (-accel) acc ∧
    lmSpec (-n) rate accel acc fuel = lmSpec n (-rate) (-accel) acc fuel := by
  constructor
  · unfold C03.calculate_lm
    split_ifs <;> first | rfl | (exfalso; omega) | (rw [neg_neg])
  · have d : lmDegenerate (-n) rate accel ↔ lmDegenerate n (-rate) (-accel) := by
      unfold lmDegenerate; omega
    unfold lmSpec
    by_cases h : lmDegenerate n (-rate) (-accel)
    · rw [if_pos h, if_pos (d.mpr h)]
    · rw [if_neg h, if_neg (fun h' => h (d.mp h')), if_pos (by omega), if_neg (by omega), neg_neg]

open Py Py.Val in
/-- **Deprecated wrapper**: `moveTimeLM(rate, steps, accel)` is the first component of
`calculate_lm(steps, rate, accel, "clear")` — generated definitions. -/
theorem C03_alias (R : Rounding) (amb : Nat) (rate steps accel t p c : Py.Val)
    (h : Gen.calculate_lm R amb steps rate accel (.str "clear") = .tup [t, p, c]) :
    Gen.moveTimeLM R amb rate steps accel = t := by
  unfold Gen.moveTimeLM
  simp only [h, Py.unpackN_tup3, Py.getItem_cons_zero]

example : ∃ t p c, Gen.calculate_lm Rounding.exact 15 (.int 0) (.int 1) (.int 1) (.str "clear") = .tup [t, p, c] :=
  ⟨_, _, _, C03_degenerate Rounding.exact 15 0 1 1 _ (Or.inl rfl)⟩

/-! ## Layer 5: the numeric bridge — the generated code computes the exact integer model

Under the rounding contract (`Proofs/Contract.lean`: exactness, round-to-nearest error bound and monotonicity
for binary64 and `mp`, and `sqrt_sq`/`sqrt_exact` for the square root) the definition the translator
regenerates from `ebb_calc.calculate_lm` on every run returns exactly the triple of the exact integer model,
for every request in the magnitude envelope `BridgeDom` (|rate|, |accel| ≤ 2^32, |steps| ≤ 2^31, a given
accumulator in [0, 2^31)), whatever the ambient `mp.dps`. No reachability or rate-range hypothesis is needed.

How: `C03.gen_staged` identifies the generated text with a composition of its blocks by `rfl` (so the proof
is about the current source); every block is evaluated under the contract (`Proofs/C03Bridge.lean`); the
square-root block uses the ceil-no-flip argument: `D` is exact at 103 bits, the computed root brackets
correctly against half-integers because `v² − D4 = 4a·q(t)` with `q(t)` an integer, a non-root integer leaves
a gap of `4a`, i.e. a margin `a·2^-52` in the root and `2^-52` in the quotient, and an exact integer root means
a perfect-square `D` and exact quotient (`Proofs/C03BridgeNum.lean`); `t_rev = floor(0.5 − rate/accel)` in
binary64 is exact because a non-integer `(accel − 2·rate)/(2·accel)` is `1/(2|accel|)` away from the integers. -/

open C03 in
/-- **C03 bridge (every branch).** -/
theorem C03_bridge {R : Rounding} (hR : Contract R) (amb : Nat) (steps rate accel : Int) (acc : Option Int)
    (hd : BridgeDom steps rate accel acc) :
    Gen.calculate_lm R amb (.int steps) (.int rate) (.int accel) (accArg acc)
      = tupOf (C03.calculate_lm steps rate accel acc) := by
  -- after the early exits the generated function is the staged composition of its blocks: definitional
  have gen_staged : ∀ (n r a : Int) (av : Py.Val), 0 < n → ¬ (a = 0 ∧ r = 0) →
      Gen.calculate_lm R amb (.int n) (.int r) (.int a) av = G.staged R (.int n) (.int r) (.int a) av := by
    intro n r a av hn hnz
    have b1 : ¬ (Py.eq (Py.int_ (.int n)) (.int 0) = true) := by rw [C03.eq_int_int]; omega
    have b2 : ¬ ((Py.eq (Py.int_ (.int a)) (.int 0) && Py.eq (Py.int_ (.int r)) (.int 0)) = true) := by
      rw [Bool.and_eq_true, C03.eq_int_int, C03.eq_int_int]; omega
    have b3 : ¬ (Py.lt (Py.int_ (.int n)) (.int 0) = true) := by rw [C03.lt_int_int]; omega
    unfold Gen.calculate_lm
    show (if Py.eq (Py.int_ (.int n)) (.int 0) = true then _ else
          if (Py.eq (Py.int_ (.int a)) (.int 0) && Py.eq (Py.int_ (.int r)) (.int 0)) = true then _ else
          if Py.lt (Py.int_ (.int n)) (.int 0) = true then _ else _) = _
    rw [if_neg b1, if_neg b2, if_neg b3]
    rfl
  obtain ⟨hs, hr, ha, hacc⟩ := hd
  by_cases hdeg : lmDegenerate steps rate accel
  · rw [C03_degenerate R amb steps rate accel _ hdeg, C03_degenerate_model steps rate accel acc hdeg]; rfl
  · unfold lmDegenerate at hdeg
    rw [abs_le] at hs
    by_cases hneg : steps < 0
    · have hr0 : 0 ≤ rate := by omega
      have hm := C03_legacy_mirror R amb (-steps) rate accel (accArg acc) (by omega) hr0
      rw [neg_neg] at hm
      rw [hm]
      have hmodel : C03.calculate_lm steps rate accel acc = lmPos (-steps) (-rate) (-accel) acc := by
        unfold C03.calculate_lm
        rw [if_neg (by omega), if_neg (by omega), if_pos hneg, if_neg (by omega)]
      rw [hmodel, gen_staged (-steps) (-rate) (-accel) _ (by omega) (by omega)]
      exact bridge_pos hR (-steps) (-rate) (-accel) acc (by omega) (by omega) (by omega)
        (by rwa [abs_neg]) (by rwa [abs_neg]) hacc
    · have hmodel : C03.calculate_lm steps rate accel acc = lmPos steps rate accel acc := by
        unfold C03.calculate_lm
        rw [if_neg (by omega), if_neg (by omega), if_neg hneg]
      rw [hmodel, gen_staged steps rate accel _ (by omega) (by omega)]
      exact bridge_pos hR steps rate accel acc (by omega) (by omega) (by omega) hr ha hacc

example : BridgeDom 1 (-802) 4 none := ⟨by norm_num, by norm_num, by norm_num, fun a h => by cases h⟩

open C03 in
/-- the constant-rate branch (`accel = 0`): one `mp` division, `ceil`, and the final accumulator -/
theorem C03_bridge_linear {R : Rounding} (hR : Contract R) (amb : Nat) (steps rate : Int) (acc : Option Int)
    (hd : BridgeDom steps rate 0 acc) :
    Gen.calculate_lm R amb (.int steps) (.int rate) (.int 0) (accArg acc)
      = tupOf (C03.calculate_lm steps rate 0 acc) := C03_bridge hR amb steps rate 0 acc hd

example : BridgeDom 5 300 0 (some 7) :=
  ⟨by norm_num, by norm_num, by norm_num, fun a h => by cases h; norm_num⟩

open C03 in
/-- accelerated moves without a reversal in play (the model's "no reversal" test holds): square root via the
contract, ceil-no-flip -/
theorem C03_bridge_noreversal {R : Rounding} (hR : Contract R) (amb : Nat) (steps rate accel : Int)
    (acc : Option Int) (hd : BridgeDom steps rate accel acc) (_ha : accel ≠ 0) (_hs : 0 < steps)
    (_hnr : noRev steps rate accel (startAcc rate accel acc)) :
    Gen.calculate_lm R amb (.int steps) (.int rate) (.int accel) (accArg acc)
      = tupOf (C03.calculate_lm steps rate accel acc) := C03_bridge hR amb steps rate accel acc hd

example : BridgeDom 3 100 7 none ∧ (7 : Int) ≠ 0 ∧ noRev 3 100 7 (startAcc 100 7 none) :=
  ⟨⟨by norm_num, by norm_num, by norm_num, fun a h => by cases h⟩, by decide, by decide⟩

open C03 in
/-- moves with a reversal in play (reversal before the first step, or steps in both directions), including the
binary64 `t_rev = floor(0.5 − rate/accel)` -/
theorem C03_bridge_reversal {R : Rounding} (hR : Contract R) (amb : Nat) (steps rate accel : Int)
    (acc : Option Int) (hd : BridgeDom steps rate accel acc) (_hs : 0 < steps)
    (_hrev : ¬ noRev steps rate accel (startAcc rate accel acc)) :
    Gen.calculate_lm R amb (.int steps) (.int rate) (.int accel) (accArg acc)
      = tupOf (C03.calculate_lm steps rate accel acc) := C03_bridge hR amb steps rate accel acc hd

example : BridgeDom 1 (-802) 4 none ∧ ¬ noRev 1 (-802) 4 (startAcc (-802) 4 none) :=
  ⟨⟨by norm_num, by norm_num, by norm_num, fun a h => by cases h⟩, by decide⟩

open C03 in
/-- **C03 for the source-regenerated code.** On the property's domain (Spec result exists, rates in range up to
it) and inside the envelope, the generated `calculate_lm` returns the Spec's
`(first tick, position, accumulator)`. -/
theorem C03_main {R : Rounding} (hR : Contract R) (amb : Nat) (steps rate accel : Int) (acc : Option Int)
    (fuel : Nat) (res : Int × Int × Int)
    (hd : BridgeDom steps rate accel acc)
    (hspec : lmSpec steps rate accel acc fuel = some res)
    (hv : ValidLM steps rate accel acc res.1) :
    Gen.calculate_lm R amb (.int steps) (.int rate) (.int accel) (accArg acc) = tupOf res := by
  rw [C03_bridge hR amb steps rate accel acc hd, C03_model steps rate accel acc fuel res hspec hv]

open C03 in
/-- the deprecated wrapper, source-regenerated: `moveTimeLM` returns the Spec's first tick -/
theorem C03_main_moveTimeLM {R : Rounding} (hR : Contract R) (amb : Nat) (steps rate accel : Int)
    (fuel : Nat) (res : Int × Int × Int)
    (hd : BridgeDom steps rate accel none)
    (hspec : lmSpec steps rate accel none fuel = some res)
    (hv : ValidLM steps rate accel none res.1) :
    Gen.moveTimeLM R amb (.int rate) (.int steps) (.int accel) = .int res.1 :=
  C03_alias R amb _ _ _ _ _ _ (C03_main hR amb steps rate accel none fuel res hd hspec hv)

/-- and the model's wrapper -/
theorem C03_alias_model (rate steps accel : Int) :
    C03.moveTimeLM rate steps accel = (C03.calculate_lm steps rate accel none).1 := rfl

/-- non-vacuity of the rounding hypothesis `Contract R` of `C03_bridge` / `C03_main`: the concrete
IEEE / mpmath round-to-nearest instance (including its correctly rounded square root), which the driver
executes and every run compares with CPython/mpmath, satisfies the full contract -/
theorem C03_contract_ieee : Contract Rounding.ieee := contract_ieee

/-- **argument type of the start accumulator, regenerated code**: a float start accumulator is the integer `int()` makes
of it, never `"clear"` (`rfl` on the regenerated definition). -/
theorem C03_gen_acc_float (R : Rounding) (amb : Nat) (steps rate accel : Py.Val) (q : Rat) :
    Gen.calculate_lm R amb steps rate accel (.flt q) = Gen.calculate_lm R amb steps rate accel (.int (Py.intOfRat q)) := by rfl

end Plotink
