import Plotink.Proofs.C17Main
import Plotink.Proofs.ContractBridge

/-! # C17 — Reported peak T3 rate brackets the true peak within one jerk increment

Theorems about the *generated* `Gen.max_rate_t3` (which calls the generated `Gen.rate_t3`), for any
rounding `R` meeting the round-to-nearest contract `T3.Contract` — so the binary64 quotient `t_mid`,
the float window test `1.5 < t_mid < time − 1.5` and `math.ceil` are covered, not only ideal
arithmetic — on the firmware-valid domain `T3.ValidT3` (see `C02_valid_iff`). The true peak is
`Fw.t3Peak rate accel jerk T`, characterised by `C17_peak_spec`. -/

namespace Plotink
open Py Py.Val Fw T3

/-- `Fw.t3Peak … n` is the maximum of `|r_k|` over ticks `1..n`: an upper bound, attained when `n ≥ 1` -/
theorem C17_peak_spec (rate accel jerk : Int) (n : Nat) :
    (∀ k : Nat, 1 ≤ k → k ≤ n → |t3Rate rate accel jerk k| ≤ t3Peak rate accel jerk n) ∧
    (1 ≤ n → ∃ k : Nat, 1 ≤ k ∧ k ≤ n ∧ t3Peak rate accel jerk n = |t3Rate rate accel jerk k|) ∧
    0 ≤ t3Peak rate accel jerk n := by
  induction n with
  | zero =>
    refine ⟨fun k h1 h2 => by omega, fun h => by omega, by simp [t3Peak]⟩
  | succ n ih =>
    obtain ⟨ih1, ih2, ih3⟩ := ih
    have hstep : t3Peak rate accel jerk (n + 1)
        = max (t3Peak rate accel jerk n) |t3Rate rate accel jerk (n + 1)| := by
      simp only [t3Peak, Int.natCast_natAbs]
    refine ⟨?_, ?_, ?_⟩
    · intro k h1 h2
      rw [hstep]
      by_cases hk : k = n + 1
      · rw [hk]; exact le_max_right _ _
      · exact le_trans (ih1 k h1 (by omega)) (le_max_left _ _)
    · intro _
      rw [hstep]
      by_cases hle : t3Peak rate accel jerk n ≤ |t3Rate rate accel jerk (n + 1)|
      · exact ⟨n + 1, by omega, le_refl _, max_eq_right hle⟩
      · have hlt := not_le.mp hle
        have hn : 1 ≤ n := by
          by_contra h0
          have : n = 0 := by omega
          rw [this] at hlt
          simp only [t3Peak] at hlt
          have := abs_nonneg (t3Rate rate accel jerk (0 + 1))
          omega
        obtain ⟨k, hk1, hk2, hk3⟩ := ih2 hn
        exact ⟨k, hk1, by omega, by rw [max_eq_left (le_of_lt hlt)]; exact hk3⟩
    · rw [hstep]; exact le_trans ih3 (le_max_left _ _)

/-- the reported value is the absolute rate of some tick of the move, hence never above the true peak -/
theorem C17_attained {R : Rounding} (hR : T3.Contract R) (amb : Nat) (T rate accel jerk : Int)
    (hv : ValidT3 rate accel jerk T) :
    ∃ (res : Int) (k : Nat), Gen.max_rate_t3 R amb (.int T) (.int rate) (.int accel) (.int jerk) = .int res ∧
      1 ≤ k ∧ (k : Int) ≤ T ∧ res = |t3Rate rate accel jerk k| ∧ res ≤ t3Peak rate accel jerk T.toNat := by
  obtain ⟨res, hres, ⟨k, hk1, hkT, hk⟩, _, _, _⟩ := max_main hR amb T rate accel jerk (envelope_of_valid hv)
  refine ⟨res, k, hres, hk1, hkT, hk, ?_⟩
  rw [hk]
  exact (C17_peak_spec rate accel jerk T.toNat).1 k hk1 (by have := hv.hT1; omega)

/-- it is at least the absolute rate at the first and at the last tick -/
theorem C17_ends {R : Rounding} (hR : T3.Contract R) (amb : Nat) (T rate accel jerk : Int)
    (hv : ValidT3 rate accel jerk T) (res : Int)
    (h : Gen.max_rate_t3 R amb (.int T) (.int rate) (.int accel) (.int jerk) = .int res) :
    |t3Rate rate accel jerk 1| ≤ res ∧ |t3Rate rate accel jerk T.toNat| ≤ res := by
  obtain ⟨res', hres, _, h1, hT, _⟩ := max_main hR amb T rate accel jerk (envelope_of_valid hv)
  rw [hres] at h
  injection h with h
  subst h
  exact ⟨h1, hT⟩

/-- it falls short of the true peak by at most `|jerk|` -/
theorem C17_shortfall {R : Rounding} (hR : T3.Contract R) (amb : Nat) (T rate accel jerk : Int)
    (hv : ValidT3 rate accel jerk T) (res : Int)
    (h : Gen.max_rate_t3 R amb (.int T) (.int rate) (.int accel) (.int jerk) = .int res) :
    t3Peak rate accel jerk T.toNat - res ≤ |jerk| := by
  obtain ⟨res', hres, _, _, _, hs⟩ := max_main hR amb T rate accel jerk (envelope_of_valid hv)
  rw [hres] at h
  injection h with h
  subst h
  have hT1 := hv.hT1
  obtain ⟨k, hk1, hk2, hk3⟩ := (C17_peak_spec rate accel jerk T.toNat).2.1 (by omega)
  rw [hk3]
  have := hs k hk1 (by omega)
  linarith

/-- a move reported as within the `2^31−1` rate limit exceeds it by at most one jerk increment -/
theorem C17_limit {R : Rounding} (hR : T3.Contract R) (amb : Nat) (T rate accel jerk : Int)
    (hv : ValidT3 rate accel jerk T) (res : Int)
    (h : Gen.max_rate_t3 R amb (.int T) (.int rate) (.int accel) (.int jerk) = .int res)
    (hlim : res ≤ 2 ^ 31 - 1) :
    t3Peak rate accel jerk T.toNat ≤ 2 ^ 31 - 1 + |jerk| := by
  have := C17_shortfall hR amb T rate accel jerk hv res h
  linarith

/-- non-vacuity: the contract and the domain are inhabited (vertex of the rate parabola at tick 2.9, inside the move) -/
example : T3.Contract Rounding.exact := contract_exact
example : ValidT3 100 (-12) 5 5 := by
  refine ⟨by norm_num, by norm_num, ?_, ?_⟩
  · intro k h1 h2
    have : k = 1 ∨ k = 2 ∨ k = 3 ∨ k = 4 ∨ k = 5 := by omega
    rcases this with rfl | rfl | rfl | rfl | rfl <;> decide
  · intro k h2
    have : k = 0 ∨ k = 1 ∨ k = 2 ∨ k = 3 ∨ k = 4 ∨ k = 5 := by omega
    rcases this with rfl | rfl | rfl | rfl | rfl | rfl <;> decide
example : t3Peak 100 (-12) 5 5 = 96 := by decide

/-- non-vacuity of the rounding hypothesis for the arithmetic that is actually modelled and executed:
the concrete IEEE/mpmath round-to-nearest instance `Rounding.ieee` (run by the driver and compared with
CPython/mpmath on every check) satisfies the contract assumed above -/
theorem C17_contract_ieee : T3.Contract Rounding.ieee := T3.contract_ieee

end Plotink
