import Plotink.Proofs.C19
import Plotink.Proofs.C19Gen3

/-! # C19 — port discovery picks only EiBotBoards, in enumeration order, and finds by name

Model: `Plotink/Model/C19.lean`; `Legacy.*` mirrors `ebb_serial.py` (`findPort`, `listEBBports`,
`list_named_ebbs`, `find_named_ebb`), `Ebb3.*` mirrors `ebb3_serial.py` (`find_first`, `list_ebb_ports`,
`list_named_ebbs`, `find_named`).  A port is `(dev, desc, hwid)`; strings are ASCII `List Char`.
"`key` is a case variant of `t`" is `lower key = lower t`.  `Matches3` / `MatchesL` (Model) state the
lookup criteria as propositions about list structure (`<:+:` infix, `<+:` prefix). -/

namespace Plotink
open C19

/-- **first-board discovery** (both layers): the first port whose description starts with
`EiBotBoard`, otherwise the first whose hardware id starts with `USB VID:PID=04D8:FD92`, otherwise
`none`; the two tests are exactly the prefix relations. -/
theorem C19_first (ports : List Port) :
    Ebb3.findFirst ports = ((ports.find? descMatch).orElse fun _ => ports.find? idMatch).map (·.dev) ∧
    Legacy.findFirst ports = ((ports.find? descMatch).orElse fun _ => ports.find? idMatch).map (·.dev) ∧
    (∀ p : Port, (descMatch p = true ↔ "EiBotBoard".toList <+: p.desc) ∧
                 (idMatch p = true ↔ "USB VID:PID=04D8:FD92".toList <+: p.hwid)) := by
  refine ⟨?_, ?_, fun p => ⟨List.isPrefixOf_iff_prefix, List.isPrefixOf_iff_prefix⟩⟩
  · simp only [Ebb3.findFirst, firstBy_eq]
    cases h : ports.find? descMatch <;> simp
  · simp only [Legacy.findFirst, firstBy_eq]
    cases h : ports.find? descMatch <;> simp

/-- **board listing** (both layers): exactly the ports passing either test, in enumeration order,
`none` when there are none; the name list has one entry per listed port. -/
theorem C19_list (ports : List Port) :
    Ebb3.listPorts ports = specList ports ∧ Legacy.listPorts ports = specList ports ∧
    Ebb3.listNamed ports = (specList ports).map (·.map Ebb3.nameOf) ∧
    Legacy.listNamed ports = (specList ports).map (·.map Legacy.nameOf) := by
  have h3 : Ebb3.listPorts ports = specList ports := by
    simp only [Ebb3.listPorts, specList, listLoop_eq, List.isEmpty_iff]
  have hL : Legacy.listPorts ports = specList ports := by
    simp only [Legacy.listPorts, specList, listLoop_eq, List.isEmpty_iff]
  refine ⟨h3, hL, ?_, ?_⟩
  · simp only [Ebb3.listNamed, h3]; cases specList ports <;> rfl
  · simp only [Legacy.listNamed, hL]; cases specList ports <;> rfl

/-- **membership**: whatever a discovery or lookup function returns is the device name of a port of
the list (any key, both layers); listed ports are ports of the list. -/
theorem C19_member (ports : List Port) (key : Option Str) (d : Str) :
    (Ebb3.findNamed key ports = some d → ∃ p ∈ ports, p.dev = d) ∧
    (Legacy.findNamed key ports = some d → ∃ p ∈ ports, p.dev = d) ∧
    (Ebb3.findFirst ports = some d → ∃ p ∈ ports, p.dev = d) ∧
    (Legacy.findFirst ports = some d → ∃ p ∈ ports, p.dev = d) ∧
    (∀ l, Ebb3.listPorts ports = some l → ∀ p ∈ l, p ∈ ports) ∧
    (∀ l, Legacy.listPorts ports = some l → ∀ p ∈ l, p ∈ ports) := by
  have hfind : ∀ f : Port → Bool, (ports.find? f).map (·.dev) = some d → ∃ p ∈ ports, p.dev = d := by
    intro f h
    cases hf : ports.find? f with
    | none => simp [hf] at h
    | some p =>
      simp only [hf, Option.map_some, Option.some.injEq] at h
      exact ⟨p, List.mem_of_find?_eq_some hf, h⟩
  have hfirst : ((ports.find? descMatch).orElse fun _ => ports.find? idMatch).map (·.dev) = some d →
      ∃ p ∈ ports, p.dev = d := by
    intro h
    cases h1 : ports.find? descMatch with
    | none => rw [h1] at h; exact hfind idMatch (by simpa using h)
    | some p => rw [h1] at h; exact hfind descMatch (by rw [h1]; simpa using h)
  have hlist : ∀ l, specList ports = some l → ∀ p ∈ l, p ∈ ports := by
    intro l h p hp
    simp only [specList] at h
    split at h
    · cases h
    · cases h; exact (List.mem_filter.mp hp).1
  refine ⟨?_, ?_, ?_, ?_, ?_, ?_⟩
  · cases key with
    | none => intro h; cases h
    | some k => simp only [Ebb3.findNamed, findLoop3_eq]; exact hfind _
  · cases key with
    | none => intro h; cases h
    | some k => simp only [Legacy.findNamed, findLoopL_eq]; exact hfind _
  · rw [(C19_first ports).1]; exact hfirst
  · rw [(C19_first ports).2.1]; exact hfirst
  · rw [(C19_list ports).1]; exact hlist
  · rw [(C19_list ports).2.1]; exact hlist

/-- **lookup is "first matching port"** (both layers), in terms of the propositional criteria -/
theorem C19_first_match (ports : List Port) (key d : Str) :
    (Ebb3.findNamed (some key) ports = some d ↔
      ∃ pre p post, ports = pre ++ p :: post ∧ p.dev = d ∧ Matches3 key p ∧ ∀ q ∈ pre, ¬ Matches3 key q) ∧
    (Ebb3.findNamed (some key) ports = none ↔ ∀ q ∈ ports, ¬ Matches3 key q) ∧
    (Legacy.findNamed (some key) ports = some d ↔
      ∃ pre p post, ports = pre ++ p :: post ∧ p.dev = d ∧ MatchesL key p ∧ ∀ q ∈ pre, ¬ MatchesL key q) ∧
    (Legacy.findNamed (some key) ports = none ↔ ∀ q ∈ ports, ¬ MatchesL key q) := by
  have gen : ∀ (f : Port → Bool) (M : Port → Prop), (∀ q, f q = true ↔ M q) →
      (((ports.find? f).map (·.dev) = some d ↔
        ∃ pre p post, ports = pre ++ p :: post ∧ p.dev = d ∧ M p ∧ ∀ q ∈ pre, ¬ M q) ∧
       ((ports.find? f).map (·.dev) = none ↔ ∀ q ∈ ports, ¬ M q)) := by
    intro f M hfM
    constructor
    · constructor
      · intro h
        cases hf : ports.find? f with
        | none => simp [hf] at h
        | some p =>
          simp only [hf, Option.map_some, Option.some.injEq] at h
          obtain ⟨pre, post, hl, hp, hq⟩ := find?_split f ports p hf
          exact ⟨pre, p, post, hl, h, (hfM p).mp hp, fun q hq' hm => by
            have := hq q hq'; rw [(hfM q).mpr hm] at this; cases this⟩
      · rintro ⟨pre, p, post, rfl, rfl, hp, hq⟩
        rw [find?_first f pre post p (fun q hq' => by
          cases hfq : f q with
          | false => rfl
          | true => exact absurd ((hfM q).mp hfq) (hq q hq')) ((hfM p).mpr hp)]
        rfl
    · rw [Option.map_eq_none_iff, List.find?_eq_none]
      exact ⟨fun h q hq hm => h q hq ((hfM q).mpr hm), fun h q hq hf => h q hq ((hfM q).mp hf)⟩
  have g3 := gen (matches3B key) (Matches3 key) (matches3B_iff key)
  have gL := gen (matchesLB key) (MatchesL key) (matchesLB_iff key)
  simp only [Ebb3.findNamed, Legacy.findNamed, findLoop3_eq, findLoopL_eq]
  exact ⟨g3.1, g3.2, gL.1, gL.2⟩

/-- **lookup (EBB3 layer)**: for a port `p` at any position, and `key` any case variant of (a) the name
`list_named_ebbs` reports for `p`, (b) its `SER=` tag value when the hardware string has the
`SER=… LOCAT` shape, or (c) its device name: if no earlier port matches `key`, `find_named` returns
`p`'s device. -/
theorem C19_lookup (pre post : List Port) (p : Port) (key : Str)
    (hkey : lower key = lower (Ebb3.nameOf p) ∨ (∃ t, serTag p = some t ∧ lower key = lower t) ∨
            lower key = lower p.dev)
    (hpre : ∀ q ∈ pre, ¬ Matches3 key q) :
    Ebb3.findNamed (some key) (pre ++ p :: post) = some p.dev := by
  have hp : Matches3 key p := by
    rcases hkey with h | ⟨t, ht, h⟩ | h
    · exact matches3_of_name key p h
    · obtain ⟨hs, rfl⟩ := serTag_some p t ht
      exact matches3_of_serSlice key p hs h
    · exact matches3_of_dev key p h
  exact ((C19_first_match (pre ++ p :: post) key p.dev).1).mpr ⟨pre, p, post, rfl, rfl, hp, hpre⟩

example : Ebb3.nameOf ⟨"COM3".toList, "USB Serial Device (COM3)".toList,
    "USB VID:PID=04D8:FD92 SER=Bob LOCATION=1-2".toList⟩ = "Bob".toList := by decide
/- non-vacuity: the hypotheses of `C19_lookup` hold for a foreign port followed by a Windows-style board -/
example : lower "bOB".toList = lower (Ebb3.nameOf ⟨"COM3".toList, "USB Serial Device (COM3)".toList,
    "USB VID:PID=04D8:FD92 SER=Bob LOCATION=1-2".toList⟩) := by decide
example : ∀ q ∈ [(⟨"COM9".toList, "Arduino Uno (COM9)".toList, "USB VID:PID=2341:0043".toList⟩ : Port)],
    ¬ Matches3 "bOB".toList q := by
  intro q hq; simp only [List.mem_singleton] at hq; subst hq
  rw [← matches3B_iff]; decide

/-- **lookup (legacy layer)**: the same with the legacy name (which may come from an `SNR=` tag), and
additionally (d) the `SNR=` tag value. -/
theorem C19_lookup_legacy (pre post : List Port) (p : Port) (key : Str)
    (hkey : lower key = lower (Legacy.nameOf p) ∨ (∃ t, serTag p = some t ∧ lower key = lower t) ∨
            lower key = lower p.dev ∨ (∃ t, snrName p = some t ∧ lower key = lower t))
    (hpre : ∀ q ∈ pre, ¬ MatchesL key q) :
    Legacy.findNamed (some key) (pre ++ p :: post) = some p.dev := by
  have hp : MatchesL key p := by
    rcases hkey with h | ⟨t, ht, h⟩ | h | ⟨t, ht, h⟩
    · exact matchesL_of_name key p h
    · obtain ⟨hs, rfl⟩ := serTag_some p t ht
      exact Or.inl (matches3_of_serSlice key p hs h)
    · exact Or.inl (matches3_of_dev key p h)
    · exact matchesL_of_snrName key t p ht h
  exact ((C19_first_match (pre ++ p :: post) key p.dev).2.2.1).mpr ⟨pre, p, post, rfl, rfl, hp, hpre⟩

example : Legacy.nameOf ⟨"COM3".toList, "USB Serial Device (COM3)".toList,
    "USB VID:PID=04D8:FD92 SNR=Bob".toList⟩ = "Bob".toList := by decide
example : ∀ q ∈ [(⟨"COM9".toList, "Arduino Uno (COM9)".toList, "USB VID:PID=2341:0043".toList⟩ : Port)],
    ¬ MatchesL "bOB".toList q := by
  intro q hq; simp only [List.mem_singleton] at hq; subst hq
  rw [← matchesLB_iff]; decide

/-- **the layers agree**: first-board discovery and listing always; the reported names when no
hardware string contains `SNR=`; the lookup when no hardware string contains `snr=<key>` (lower-cased)
— and in general the legacy lookup is the EBB3 lookup with the extra `SNR=` criterion (`MatchesL`,
`C19_first_match`). -/
theorem C19_layers (ports : List Port) (key : Option Str) :
    Legacy.findFirst ports = Ebb3.findFirst ports ∧
    Legacy.listPorts ports = Ebb3.listPorts ports ∧
    ((∀ p ∈ ports, ¬ snrK <:+: p.hwid) → Legacy.listNamed ports = Ebb3.listNamed ports) ∧
    ((∀ k, key = some k → ∀ p ∈ ports, ¬ lower (snrK ++ k) <:+: lower p.hwid) →
      Legacy.findNamed key ports = Ebb3.findNamed key ports) := by
  refine ⟨rfl, rfl, ?_, ?_⟩
  · intro h
    rw [(C19_list ports).2.2.1, (C19_list ports).2.2.2]
    cases hl : specList ports with
    | none => rfl
    | some l =>
      simp only [Option.map_some, Option.some.injEq]
      apply List.map_congr_left
      intro p hp
      have hmem : p ∈ ports := by
        simp only [specList] at hl
        split at hl
        · cases hl
        · cases hl; exact (List.mem_filter.mp hp).1
      have : snrName p = none := snrName_none p ((isInfixB_false_iff _ _).mpr (h p hmem))
      simp only [Legacy.nameOf, Ebb3.nameOf, this]
  · intro h
    cases key with
    | none => rfl
    | some k =>
      simp only [Legacy.findNamed, Ebb3.findNamed, findLoopL_eq, findLoop3_eq]
      congr 1
      apply find?_congr'
      intro p hp
      have : isInfixB (lower (snrK ++ k)) (lower p.hwid) = false :=
        (isInfixB_false_iff _ _).mpr (h k rfl p hp)
      simp [matchesLB, this]


/-! # The same properties about the REGENERATED discovery code

`Gen/ebb_serial_{findPort,listEBBports,list_named_ebbs,find_named_ebb}.lean`, `Gen/EBB3_find_first.lean` and
`Gen/ebb3_serial_{list_ebb_ports,list_named_ebbs,find_named}.lean` are rewritten from `plotink/ebb_serial.py` /
`plotink/ebb3_serial.py` on every run (`translator/pyio2lean.py`); `comports()` is the input `w.ext.comports`.
`Enumerates w ports` says that input is the encoded port list.  The bridges (`Proofs/LegacyGen.lean`,
`Proofs/C19Gen1-3.lean`) identify each regenerated function with the hand model of its layer, for every fuel, world
and enumeration; the theorems below restate the property through them.  Values: `encPort p` is the 3-tuple of
strings, `encOptStr` maps `none ↦ None`. -/

open PyObj Gen LegacyGen C19Gen

/-- **first-board discovery, regenerated code** (both layers).  `findPort` returns, and `EBB3.find_first` stores in
`self.port_name` (returning `None`, changing nothing else), the first port whose description starts with `EiBotBoard`,
otherwise the first whose hardware id starts with `USB VID:PID=04D8:FD92`, otherwise `None`
(`specFirst ports = ((ports.find? descMatch).orElse fun _ => ports.find? idMatch).map (·.dev)`) — of the CURRENT
enumeration: the statement about the object holds for every prior object state `w3.obj` (fresh object, or one that
already holds a `port_name` from an earlier discovery). -/
theorem C19_gen_first (fuel : Nat) (ports : List Port) (w : World NoObj) (w3 : World EBB3_Obj)
    (hc : Enumerates w ports) (hc3 : Enumerates w3 ports) :
    ebb_serial_findPort fuel w = .val (encOptStr (specFirst ports)) w ∧
    EBB3_find_first fuel w3 = .val .none { w3 with obj := { w3.obj with port_name := encOptStr (specFirst ports) } } := by
  rw [findPort_bridge fuel ports w hc, find_first_bridge fuel ports w3 hc3, (C19_first ports).1, (C19_first ports).2.1]
  exact ⟨rfl, rfl⟩

/-- the object-state reading spelled out: after `find_first` on ANY object, `port_name` is determined by the current
enumeration alone; in particular with no board in the list it is `None` even if it held a port before -/
theorem C19_gen_first_fresh_and_reused (fuel : Nat) (ports : List Port) (w3 : World EBB3_Obj) (hc3 : Enumerates w3 ports)
    (hnone : ∀ p ∈ ports, descMatch p = false ∧ idMatch p = false) :
    ∃ w', EBB3_find_first fuel w3 = .val .none w' ∧ w'.obj.port_name = .none := by
  refine ⟨_, (C19_gen_first fuel ports ⟨NoObj.mk, w3.port, w3.ext⟩ w3 hc3 hc3).2, ?_⟩
  have h1 : ports.find? descMatch = none := List.find?_eq_none.mpr (fun p hp => by simp [(hnone p hp).1])
  have h2 : ports.find? idMatch = none := List.find?_eq_none.mpr (fun p hp => by simp [(hnone p hp).2])
  simp [specFirst, h1, h2, encOptStr]

example : ∀ p ∈ [(⟨"COM9".toList, "Arduino Uno (COM9)".toList, "USB VID:PID=2341:0043".toList⟩ : Port)],
    descMatch p = false ∧ idMatch p = false := by
  intro p hp; simp only [List.mem_singleton] at hp; subst hp; decide

/-- **board listing, regenerated code** (both layers): exactly the ports passing either test, in enumeration order,
`None` when there are none; `list_named_ebbs` returns one name per listed port (the model's `nameOf`), `None` when
there are none. -/
theorem C19_gen_list (fuel : Nat) (ports : List Port) (w : World NoObj) (hc : Enumerates w ports) :
    ebb_serial_listEBBports fuel w = .val (encPorts (specList ports)) w ∧
    ebb3_serial_list_ebb_ports fuel w = .val (encPorts (specList ports)) w ∧
    ebb3_serial_list_named_ebbs fuel w = .val (encNames ((specList ports).map (·.map C19.Ebb3.nameOf))) w ∧
    ebb_serial_list_named_ebbs fuel w = .val (encNames ((specList ports).map (·.map Legacy.nameOf))) w := by
  rw [ebb_serial_listEBBports_bridge fuel ports w hc, ebb3_serial_list_ebb_ports_bridge fuel ports w hc,
    list_named_ebbs3_bridge fuel ports w hc, list_named_ebbsL_bridge fuel ports w hc,
    (C19_list ports).1, (C19_list ports).2.1, (C19_list ports).2.2.1, (C19_list ports).2.2.2]
  exact ⟨rfl, rfl, rfl, rfl⟩

/-- **membership, regenerated code**: a string returned by a lookup (any key) or by first-board discovery, or stored
in `port_name`, is the device name of a port of the list. -/
theorem C19_gen_member (fuel : Nat) (ports : List Port) (key : Option C19.Str) (d : C19.Str) (w w' : World NoObj)
    (w3 w3' : World EBB3_Obj) (hc : Enumerates w ports) (hc3 : Enumerates w3 ports) :
    (ebb3_serial_find_named fuel (encOptStr key) w = .val (.str d) w' → ∃ p ∈ ports, p.dev = d) ∧
    (ebb_serial_find_named_ebb fuel (encOptStr key) w = .val (.str d) w' → ∃ p ∈ ports, p.dev = d) ∧
    (ebb_serial_findPort fuel w = .val (.str d) w' → ∃ p ∈ ports, p.dev = d) ∧
    (EBB3_find_first fuel w3 = .val .none w3' → w3'.obj.port_name = .str d → ∃ p ∈ ports, p.dev = d) := by
  have hm := C19_member ports key d
  refine ⟨?_, ?_, ?_, ?_⟩
  · rw [find_named_bridge fuel key ports w hc]
    intro h
    simp only [Out.val.injEq] at h
    exact hm.1 (encOptStr_eq_str h.1)
  · rw [find_named_ebb_bridge fuel key ports w hc]
    intro h
    simp only [Out.val.injEq] at h
    exact hm.2.1 (encOptStr_eq_str h.1)
  · rw [findPort_bridge fuel ports w hc]
    intro h
    simp only [Out.val.injEq] at h
    exact hm.2.2.2.1 (encOptStr_eq_str h.1)
  · rw [find_first_bridge fuel ports w3 hc3]
    intro h hp
    simp only [Out.val.injEq, true_and] at h
    rw [← h] at hp
    exact hm.2.2.1 (encOptStr_eq_str hp)

/-- **lookup is "first matching port", regenerated code** (both layers) -/
theorem C19_gen_first_match (fuel : Nat) (ports : List Port) (key d : C19.Str) (w : World NoObj) (hc : Enumerates w ports) :
    (ebb3_serial_find_named fuel (.str key) w = .val (.str d) w ↔
      ∃ pre p post, ports = pre ++ p :: post ∧ p.dev = d ∧ Matches3 key p ∧ ∀ q ∈ pre, ¬ Matches3 key q) ∧
    (ebb3_serial_find_named fuel (.str key) w = .val .none w ↔ ∀ q ∈ ports, ¬ Matches3 key q) ∧
    (ebb_serial_find_named_ebb fuel (.str key) w = .val (.str d) w ↔
      ∃ pre p post, ports = pre ++ p :: post ∧ p.dev = d ∧ MatchesL key p ∧ ∀ q ∈ pre, ¬ MatchesL key q) ∧
    (ebb_serial_find_named_ebb fuel (.str key) w = .val .none w ↔ ∀ q ∈ ports, ¬ MatchesL key q) := by
  have h3 : ebb3_serial_find_named fuel (.str key) w = _ := find_named_bridge fuel (some key) ports w hc
  have hL : ebb_serial_find_named_ebb fuel (.str key) w = _ := find_named_ebb_bridge fuel (some key) ports w hc
  have hm := C19_first_match ports key d
  have e1 : ∀ o : Option C19.Str, ((Out.val (encOptStr o) w : Out NoObj) = .val (.str d) w) ↔ o = some d := by
    intro o
    constructor
    · intro h; simp only [Out.val.injEq, and_true] at h; exact encOptStr_eq_str h
    · intro h; rw [h]; rfl
  have e2 : ∀ o : Option C19.Str, ((Out.val (encOptStr o) w : Out NoObj) = .val .none w) ↔ o = none := by
    intro o
    constructor
    · intro h; simp only [Out.val.injEq, and_true] at h; exact encOptStr_eq_none h
    · intro h; rw [h]; rfl
  rw [h3, hL, e1, e2, e1, e2]
  exact hm

/-- **lookup, regenerated `find_named` (EBB3 layer)**: as `C19_lookup` -/
theorem C19_gen_lookup (fuel : Nat) (pre post : List Port) (p : Port) (key : C19.Str) (w : World NoObj)
    (hc : Enumerates w (pre ++ p :: post))
    (hkey : lower key = lower (C19.Ebb3.nameOf p) ∨ (∃ t, serTag p = some t ∧ lower key = lower t) ∨
            lower key = lower p.dev)
    (hpre : ∀ q ∈ pre, ¬ Matches3 key q) :
    ebb3_serial_find_named fuel (.str key) w = .val (.str p.dev) w := by
  have h := find_named_bridge fuel (some key) (pre ++ p :: post) w hc
  rw [C19_lookup pre post p key hkey hpre] at h
  exact h

/-- **lookup, regenerated `find_named_ebb` (legacy layer)**: as `C19_lookup_legacy` -/
theorem C19_gen_lookup_legacy (fuel : Nat) (pre post : List Port) (p : Port) (key : C19.Str) (w : World NoObj)
    (hc : Enumerates w (pre ++ p :: post))
    (hkey : lower key = lower (Legacy.nameOf p) ∨ (∃ t, serTag p = some t ∧ lower key = lower t) ∨
            lower key = lower p.dev ∨ (∃ t, snrName p = some t ∧ lower key = lower t))
    (hpre : ∀ q ∈ pre, ¬ MatchesL key q) :
    ebb_serial_find_named_ebb fuel (.str key) w = .val (.str p.dev) w := by
  have h := find_named_ebb_bridge fuel (some key) (pre ++ p :: post) w hc
  rw [C19_lookup_legacy pre post p key hkey hpre] at h
  exact h

/-- non-vacuity of `Enumerates`: the world whose enumerator yields the list -/
example (ports : List Port) : Enumerates (⟨NoObj.mk, ⟨[], [], [], 0⟩, { comports := .ok (.list (ports.map encPort)) }⟩ : World NoObj) ports :=
  rfl

/-- **the layers agree, regenerated code**: what `findPort` returns is what `find_first` stores; the listings are
equal; the reported names are equal when no hardware string contains `SNR=`; the lookups are equal when no
lower-cased hardware string contains `snr=<key>`. -/
theorem C19_gen_layers (fuel : Nat) (ports : List Port) (key : Option C19.Str) (w : World NoObj) (w3 : World EBB3_Obj)
    (hc : Enumerates w ports) (hc3 : Enumerates w3 ports) :
    (∃ v, ebb_serial_findPort fuel w = .val v w ∧
          EBB3_find_first fuel w3 = .val .none { w3 with obj := { w3.obj with port_name := v } }) ∧
    ebb_serial_listEBBports fuel w = ebb3_serial_list_ebb_ports fuel w ∧
    ((∀ p ∈ ports, ¬ snrK <:+: p.hwid) → ebb_serial_list_named_ebbs fuel w = ebb3_serial_list_named_ebbs fuel w) ∧
    ((∀ k, key = some k → ∀ p ∈ ports, ¬ lower (snrK ++ k) <:+: lower p.hwid) →
      ebb_serial_find_named_ebb fuel (encOptStr key) w = ebb3_serial_find_named fuel (encOptStr key) w) := by
  have hl := C19_layers ports key
  refine ⟨⟨_, findPort_bridge fuel ports w hc, ?_⟩, ?_, ?_, ?_⟩
  · rw [find_first_bridge fuel ports w3 hc3, hl.1]
  · rw [ebb_serial_listEBBports_bridge fuel ports w hc, ebb3_serial_list_ebb_ports_bridge fuel ports w hc, hl.2.1]
  · intro h
    rw [list_named_ebbsL_bridge fuel ports w hc, list_named_ebbs3_bridge fuel ports w hc, hl.2.2.1 h]
  · intro h
    rw [find_named_ebb_bridge fuel key ports w hc, find_named_bridge fuel key ports w hc, hl.2.2.2 h]

end Plotink
