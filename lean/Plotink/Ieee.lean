import Plotink.Py
namespace Plotink

def pow2 (e : Int) : Rat := if 0 ≤ e then (2 : Rat) ^ e.toNat else 1 / (2 : Rat) ^ (-e).toNat

/-- floor(log2 |q|) for q ≠ 0 -/
def ilog2 (q : Rat) : Int :=
  let n := q.num.natAbs
  let d := q.den
  let l0 : Int := (Nat.log2 n : Int) - (Nat.log2 d : Int)
  let a : Rat := (n : Rat) / (d : Rat)
  if pow2 (l0 + 1) ≤ a then l0 + 1 else if pow2 l0 ≤ a then l0 else l0 - 1

/-- round to nearest, ties to even, `p` significant bits, unbounded exponent -/
def roundBits (p : Nat) (q : Rat) : Rat :=
  if q = 0 then 0 else
  let a : Rat := if q < 0 then -q else q
  let e : Int := ilog2 a - ((p : Int) - 1)
  let m : Int := Py.roundHE (a / pow2 e)
  let r : Rat := (m : Rat) * pow2 e
  if q < 0 then -r else r

/-- correctly rounded square root at `p` bits (q ≥ 0) -/
def sqrtBits (p : Nat) (q : Rat) : Rat :=
  if q ≤ 0 then 0 else
  let k : Nat := p + 4 + Nat.log2 q.den + (if q < 1 then Nat.log2 q.den - Nat.log2 q.num.natAbs + 2 else 0)
  let x : Rat := q * (4 : Rat) ^ k
  let t : Nat := Nat.sqrt x.floor.toNat
  let standin : Rat := if ((t : Rat) * t = x) then (t : Rat) / (2 : Rat) ^ k else (2 * (t : Rat) + 1) / (2 : Rat) ^ (k + 1)
  roundBits p standin

def Rounding.ieee : Rounding := ⟨roundBits 53, roundBits, sqrtBits⟩

end Plotink
