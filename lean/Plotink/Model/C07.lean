import Plotink.PyIO
/-! # C07 — legacy serial primitives `ebb_serial.query` / `ebb_serial.command`

Executable model (core Lean only), mirroring the control flow of `plotink/ebb_serial.py`.

* A port is a **script** (DESIGN §5d): `reads` is consumed left to right by successive `readline()`
  calls, `writes` by successive `write()` calls; an exhausted list means silence (`b''`) resp. success.
* Python value types are explicit: `readline()` yields `bytes`, `.decode('ascii')` yields `str`,
  `'Err:' in x` raises `TypeError` when `x` is `bytes`.  Exceptions that the code does **not** catch
  (`TypeError`, `UnicodeDecodeError`, `UnicodeEncodeError`) are results `Except.error …`; the serial
  I/O exceptions named by the handler (`SerialException`, `IOError`, `OSError`, `RuntimeError`) are
  script outcomes `raise c` and are contained by the handler, as in the code.
* The retry limit, the list of queries without a trailing `OK`, and whether the retry loop of `query`
  decodes what it reads are **parameters** (`Params`); the harness extracts their values from the
  current source and compares them with `std`.  All theorems are stated for every retry limit and
  every no-OK list, with `decodeRetry = true`.
-/
namespace Plotink
namespace C07

/-- Python `str` -/
abbrev Str := List Char
/-- Python `bytes`: one `Char` per byte (code point = byte value) -/
abbrev Bytes := List Char

/-- the Python values that occur -/
inductive Val where
  | str (s : Str)
  | bytes (b : Bytes)
  | none
  deriving Repr, DecidableEq

/-- exceptions the code does not catch -/
inductive PyExc where
  | typeError            -- `'Err:' in b'...'`
  | unicodeDecodeError   -- `.decode('ascii')` of a byte ≥ 0x80
  | unicodeEncodeError   -- `.encode('ascii')` of a non-ASCII character
  deriving Repr, DecidableEq

/-! the scripted port is the one of the runtime for source-regenerated I/O code (`Plotink/PyIO.lean`):
`Rd = line b | empty | raise c`, `Wr = ok | raise c`, `Port = {reads, writes, log, nread}`.  In this model every
`raise` outcome is a serial I/O exception of a class the handlers name (`SerialException`, `IOError`/`OSError`,
`RuntimeError`), whatever the class `c`; the bridge to the regenerated code carries that as a hypothesis. -/

export PyIO (Rd Wr Port)

structure Params where
  /-- bound of the retry-on-empty loops -/
  retry : Nat
  /-- queries that are not followed by an `OK` line -/
  noOK : List Str
  /-- does the retry loop of `query` decode what it reads? -/
  decodeRetry : Bool
  deriving Repr, DecidableEq

/-- the values the proofs were written against (compared with the source on every run) -/
def std : Params :=
  ⟨100, [['a'], ['i'], ['m', 'r'], ['p', 'i'], ['q', 'm'], ['q', 'g'], ['v']], true⟩

/-! ## Python string primitives (ASCII alphabet) -/

export PyIO (isAscii isWs lowerChar lower strip isPrefixOf isInfix)

/-- `s.split(",")[0]` -/
def firstField (s : Str) : Str := s.takeWhile (· ≠ ',')

/-- `cmd.split(",")[0].strip().lower()` -/
def reqName (cmd : Str) : Str := lower (strip (firstField cmd))

/-- `x.encode('ascii')` -/
def encode (s : Str) : Option Bytes := if isAscii s then some s else none
/-- `b.decode('ascii')` -/
def decode (b : Bytes) : Option Str := if isAscii b then some b else none

def Val.len : Val → Nat
  | .str s => s.length
  | .bytes b => b.length
  | .none => 0

/-- `'Err:' in response`: `TypeError` when `response` is `bytes` -/
def errIn : Val → Option Bool
  | .str s => some (isInfix ['E', 'r', 'r', ':'] s)
  | _ => Option.none

/-! ## Port primitives -/

/-- `port.readline()`: `none` = raised a serial I/O exception -/
def readline (p : Port) : Option Bytes × Port :=
  match p.reads with
  | [] => (some [], { p with nread := p.nread + 1 })
  | .line b :: r => (some b, { p with reads := r, nread := p.nread + 1 })
  | .empty :: r => (some [], { p with reads := r, nread := p.nread + 1 })
  | .raise _ :: r => (Option.none, { p with reads := r, nread := p.nread + 1 })

/-- `port.write(b)`: `false` = raised a serial I/O exception -/
def write (b : Bytes) (p : Port) : Bool × Port :=
  match p.writes with
  | [] => (true, { p with log := p.log ++ [b] })
  | .ok :: w => (true, { p with writes := w, log := p.log ++ [b] })
  | .raise _ :: w => (false, { p with writes := w, log := p.log ++ [b] })

/-- how a `try` body ended -/
inductive Flow where
  | done                 -- ran to its end
  | io                   -- a serial I/O exception was raised (the handler catches and logs it)
  | py (e : PyExc)       -- another exception was raised (propagates to the caller)
  deriving Repr, DecidableEq

/-- `while len(response) == 0 and n < retry: response = port.readline()[.decode('ascii')]; n += 1`
(first argument: `retry - n`).  Returns how the loop ended, the value of `response`, the port. -/
def retryResp (dec : Bool) : Nat → Val → Port → Flow × Val × Port
  | 0, v, p => (.done, v, p)
  | n + 1, v, p =>
    if v.len ≠ 0 then (.done, v, p) else
    match readline p with
    | (Option.none, p') => (.io, v, p')
    | (some b, p') =>
      if dec then
        match decode b with
        | Option.none => (.py .unicodeDecodeError, v, p')
        | some s => retryResp dec n (.str s) p'
      else retryResp dec n (.bytes b) p'

/-- `while len(unused_response) == 0 and n < retry: unused_response = port.readline(); n += 1`;
`false` = a serial I/O exception was raised -/
def retryUnused : Nat → Bytes → Port → Bool × Port
  | 0, _, p => (true, p)
  | n + 1, u, p =>
    if u.length ≠ 0 then (true, p) else
    match readline p with
    | (Option.none, p') => (false, p')
    | (some b, p') => retryUnused n b p'

/-- the part of the `try` body of `query` after the retry loop: skip the trailing `OK` line unless
the query is one of the no-OK list (`response` keeps its value `v`) -/
def queryTrail (P : Params) (cmd : Str) (v : Val) (p3 : Port) : Flow × Val × Port :=
  if P.noOK.contains (reqName cmd) then (.done, v, p3)
  else
    match readline p3 with
    | (Option.none, p4) => (.io, v, p4)
    | (some u, p4) =>
      match retryUnused P.retry u p4 with
      | (true, p5) => (.done, v, p5)
      | (false, p5) => (.io, v, p5)

/-- the `try` body of `query`; `response` starts as `''` -/
def queryBody (P : Params) (cmd : Str) (p : Port) : Flow × Val × Port :=
  match encode cmd with
  | Option.none => (.py .unicodeEncodeError, .str [], p)
  | some req =>
    match write req p with
    | (false, p1) => (.io, .str [], p1)
    | (true, p1) =>
      match readline p1 with
      | (Option.none, p2) => (.io, .str [], p2)
      | (some l, p2) =>
        match decode l with
        | Option.none => (.py .unicodeDecodeError, .str [], p2)
        | some s =>
          match retryResp P.decodeRetry P.retry (.str s) p2 with
          | (.done, v, p3) => queryTrail P cmd v p3
          | (f, v, p3) => (f, v, p3)

/-- `ebb_serial.query(port, cmd)` for a port and a text that are present -/
def query (P : Params) (cmd : Str) (p : Port) : Except PyExc Val × Port :=
  match queryBody P cmd p with
  | (.py e, _, p') => (.error e, p')
  | (_, v, p') =>            -- body finished, or the handler logged the I/O exception
    match errIn v with       -- `if 'Err:' in response:` (then only logging of str values)
    | Option.none => (.error .typeError, p')
    | some _ => (.ok v, p')

/-- the `try` body of `command` (every read is decoded) -/
def commandBody (P : Params) (cmd : Str) (p : Port) : Flow × Port :=
  match encode cmd with
  | Option.none => (.py .unicodeEncodeError, p)
  | some req =>
    match write req p with
    | (false, p1) => (.io, p1)
    | (true, p1) =>
      match readline p1 with
      | (Option.none, p2) => (.io, p2)
      | (some l, p2) =>
        match decode l with
        | Option.none => (.py .unicodeDecodeError, p2)
        | some s =>
          match retryResp true P.retry (.str s) p2 with
          | (f, _, p3) => (f, p3)   -- then `response.strip().startswith("OK")` decides what is logged

/-- `ebb_serial.command(port, cmd)` for a port and a text that are present; returns `None` -/
def command (P : Params) (cmd : Str) (p : Port) : Except PyExc Val × Port :=
  match commandBody P cmd p with
  | (.py e, p') => (.error e, p')
  | (_, p') => (.ok .none, p')

/-- a request: which primitive, and its text (`none` = Python `None`) -/
structure Req where
  isQuery : Bool
  cmd : Option Str
  deriving Repr, DecidableEq

/-- the guard `if port_name is not None and cmd is not None:` — otherwise `None` is returned and
nothing is touched -/
def call (P : Params) (r : Req) (port : Option Port) : Except PyExc Val × Option Port :=
  match port, r.cmd with
  | some p, some c =>
    let res := if r.isQuery then query P c p else command P c p
    (res.1, some res.2)
  | _, _ => (.ok .none, port)

/-! ## Specification side (independent of the control flow above) -/

/-- what arrives within `k` reads: the first non-empty line, provided no read before it raised -/
def arrived : Nat → List Rd → Bytes
  | 0, _ => []
  | _, [] => []
  | k + 1, .line b :: r => if b = [] then arrived k r else b
  | k + 1, .empty :: r => arrived k r
  | _ + 1, .raise _ :: _ => []

def allAscii (rs : List Rd) : Bool :=
  rs.all (fun r => match r with | .line b => isAscii b | _ => true)

instance : DecidableEq (Except PyExc Val) := fun a b =>
  match a, b with
  | .ok x, .ok y => if h : x = y then isTrue (by rw [h]) else isFalse (by intro e; cases e; exact h rfl)
  | .error x, .error y => if h : x = y then isTrue (by rw [h]) else isFalse (by intro e; cases e; exact h rfl)
  | .ok _, .error _ => isFalse (by intro e; cases e)
  | .error _, .ok _ => isFalse (by intro e; cases e)

def firstWriteOk (p : Port) : Bool :=
  match p.writes with
  | .raise _ :: _ => false
  | _ => true

/-- one exchange with a conforming legacy board: the request and the reply the board produces
for it (`d1` empty reads, then the data line — or, for a command, directly the `OK` line `trail` —
and for ordinary queries `d2` further empty reads and the trailing `OK` line) -/
structure Exch where
  isQuery : Bool
  cmd : Str
  d1 : Nat
  data : Bytes
  d2 : Nat
  trail : Bytes
  deriving Repr, DecidableEq

def Exch.reply (P : Params) (e : Exch) : List Rd :=
  if e.isQuery then
    if P.noOK.contains (reqName e.cmd) then List.replicate e.d1 .empty ++ [.line e.data]
    else List.replicate e.d1 .empty ++ [.line e.data] ++ (List.replicate e.d2 .empty ++ [.line e.trail])
  else List.replicate e.d1 .empty ++ [.line e.trail]

/-- the exchange conforms: the request is ASCII text; the lines of the reply are non-empty (the data
line ASCII), each preceded by at most `retry` empty reads -/
def Exch.Conforms (P : Params) (e : Exch) : Prop :=
  isAscii e.cmd = true ∧ e.d1 ≤ P.retry ∧
  (if e.isQuery = true then
    e.data ≠ [] ∧ isAscii e.data = true ∧
      (P.noOK.contains (reqName e.cmd) = false → e.d2 ≤ P.retry ∧ e.trail ≠ [])
   else e.trail ≠ [] ∧ isAscii e.trail = true)

instance (P : Params) (e : Exch) : Decidable (e.Conforms P) := by
  unfold Exch.Conforms; infer_instance

/-- what the caller must get back -/
def Exch.expected (e : Exch) : Except PyExc Val :=
  if e.isQuery then .ok (.str e.data) else .ok .none

/-- run a list of exchanges: the board queues its reply when the request is written (the request is
the first I/O action of a call, so the reply is appended to what is still queued); returns per call
the result and what is left in the device queue afterwards -/
def runSeq (P : Params) : List Exch → Port → List (Except PyExc Val × List Rd)
  | [], _ => []
  | e :: es, p =>
    let res := (if e.isQuery then query P e.cmd else command P e.cmd) { p with reads := p.reads ++ e.reply P }
    (res.1, res.2.reads) :: runSeq P es res.2

end C07
end Plotink
