/-! # Python `float(str)` and the `str` helpers used by the string-handling models (ASCII only)

Executable model of CPython's `float(s)` for `s : str` restricted to ASCII code points
(`PyFloat_FromString` → strip C-whitespace → `_Py_string_to_number_with_underscores` →
`_Py_dg_strtod` / `_Py_parse_inf_or_nan`), returning the **exact** rational value of the numeral
(CPython then rounds it correctly to binary64; that rounding is runtime residue and is applied on the
Python side of the correspondence run).  Differential-tested against CPython by `harness/c12.py`.

Also: `str.strip()`, `str.split()`, `str.lower()`, `str.replace(',', ' ')` on `List Char`.
Core Lean only (linked into the native driver). -/
namespace Plotink
namespace PyFloat

/-- result of `float(s)`: a finite value (exact, before binary64 rounding), an infinity, or a NaN -/
inductive Num where
  | fin (q : Rat)
  | inf (neg : Bool)
  | nan
  deriving DecidableEq, Repr

/-- C `isspace` in the C locale (what `float()` strips on ASCII strings) -/
def isCSpace (c : Char) : Bool := c.toNat == 32 || (9 ≤ c.toNat && c.toNat ≤ 13)
/-- ASCII characters for which `str.isspace()` holds (what `str.strip()` / `str.split()` use) -/
def isPySpace (c : Char) : Bool := isCSpace c || (28 ≤ c.toNat && c.toNat ≤ 31)
def isDigit (c : Char) : Bool := 48 ≤ c.toNat && c.toNat ≤ 57
/-- `str.lower()` on ASCII -/
def lowerAscii (c : Char) : Char :=
  if 65 ≤ c.toNat && c.toNat ≤ 90 then Char.ofNat (c.toNat + 32) else c
def lower (s : List Char) : List Char := s.map lowerAscii

/-- strip characters satisfying `p` from both ends -/
def stripBy (p : Char → Bool) (s : List Char) : List Char :=
  ((s.dropWhile p).reverse.dropWhile p).reverse
/-- `s.strip()` -/
def pyStrip (s : List Char) : List Char := stripBy isPySpace s
/-- `s.replace(',', ' ')` -/
def commaToBlank (s : List Char) : List Char := s.map (fun c => if c = ',' then ' ' else c)

/-- `s.split()` (no argument: runs of whitespace separate, no empty tokens); `cur` is the token
being collected, reversed -/
def splitGo : List Char → List Char → List (List Char)
  | [], cur => if cur = [] then [] else [cur.reverse]
  | c :: r, cur =>
    if isPySpace c then (if cur = [] then splitGo r [] else cur.reverse :: splitGo r [])
    else splitGo r (c :: cur)
def pySplit (s : List Char) : List (List Char) := splitGo s []

/-- value of a string of decimal digits -/
def digitsVal (ds : List Char) : Nat := ds.foldl (fun acc c => acc * 10 + (c.toNat - 48)) 0

def splitSign : List Char → Bool × List Char
  | [] => (false, [])
  | c :: r => if c = '-' then (true, r) else if c = '+' then (false, r) else (false, c :: r)

def pow10 (e : Int) : Rat :=
  if 0 ≤ e then ((10 ^ e.toNat : Nat) : Rat) else 1 / ((10 ^ (-e).toNat : Nat) : Rat)

/-- `_Py_string_to_number_with_underscores`: an underscore must stand between two digits; the
underscores are removed.  `prev` is the previous character. -/
def stripUnderscores : Option Char → List Char → Option (List Char)
  | prev, [] => if prev = some '_' then none else some []
  | prev, c :: r =>
    if c = '_' then
      (match prev with
       | some p => if isDigit p then stripUnderscores (some c) r else none
       | none => none)
    else if prev = some '_' && !isDigit c then none
    else (stripUnderscores (some c) r).map (c :: ·)

/-- the exponent part after `e`/`E`: optional sign, at least one digit, nothing else -/
def parseExp (r3 : List Char) : Option Int :=
  let sr := splitSign r3
  if sr.2.isEmpty || !sr.2.all isDigit then none
  else some (if sr.1 then -(digitsVal sr.2 : Int) else (digitsVal sr.2 : Int))

/-- `_Py_dg_strtod` on an unsigned numeral that must be consumed entirely:
digits [`.` digits] with at least one digit, then optionally `e|E [sign] digits+`. -/
def parseDecimal (r : List Char) : Option Rat :=
  let ip := r.takeWhile isDigit
  let r1 := r.dropWhile isDigit
  let fr : List Char × List Char := match r1 with
    | [] => ([], [])
    | c :: t => if c = '.' then (t.takeWhile isDigit, t.dropWhile isDigit) else ([], r1)
  if ip.isEmpty && fr.1.isEmpty then none else
  let mant : Rat := (digitsVal (ip ++ fr.1) : Rat) / ((10 ^ fr.1.length : Nat) : Rat)
  match fr.2 with
  | [] => some mant
  | e :: r3 =>
    if e = 'e' || e = 'E' then
      match parseExp r3 with
      | some ev => some (mant * pow10 ev)
      | none => none
    else none

/-- `_Py_parse_inf_or_nan` on the sign-less remainder -/
def parseSpecial (neg : Bool) (r : List Char) : Option Num :=
  let l := lower r
  if l = ['i', 'n', 'f'] || l = ['i', 'n', 'f', 'i', 'n', 'i', 't', 'y'] then some (.inf neg)
  else if l = ['n', 'a', 'n'] then some .nan
  else none

/-- Python `float(s)` for an ASCII `str`; `none` = `ValueError` -/
def parseFloat (s : List Char) : Option Num :=
  match stripUnderscores none (stripBy isCSpace s) with
  | none => none
  | some u =>
    let sr := splitSign u
    match parseDecimal sr.2 with
    | some q => some (.fin (if sr.1 then -q else q))
    | none => parseSpecial sr.1 sr.2

end PyFloat
end Plotink
