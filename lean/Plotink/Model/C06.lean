/-! # C06 — motion / configuration helpers emit exactly the documented EBB command text

Stand-alone model (core Lean only) of *what text* the helpers of the two layers transmit:

* legacy, function style: `plotink/ebb_motion.py` (each helper builds a format string that already ends
  in `\r` and hands it to `ebb_serial.command` / `ebb_serial.query`, which write it unchanged);
* EBB3, class style: `plotink/ebb3_motion.py` (`EBBMotionWrap`) and the variable / status helpers of
  `plotink/ebb3_serial.py` (`EBB3`): each method builds the text *without* terminator and hands it to
  `self.command` / `self.query`, which write `text + "\r"` (a few write `"XX\r"` directly).

Both are compared at the level of "bytes on the wire" (`Cmd.wire`).  The board acknowledges every
command (so no error is ever latched: C04/C05 are about the other case).

## Census of the helpers that transmit text

Modelled, both layers (legacy name / EBB3 name):
  `doXYMove`/`xy_move` (xyMove), `doAbsMove`/`abs_move` (absMove), `doTimedPause`/`timed_pause`
  (timedPause), `sendPenDown`/`pen_lower` (penDown), `sendPenUp`/`pen_raise` (penUp),
  `sendEnableMotors res`/`motors_enable r1 r2` (enable; legacy = the diagonal `r1 = r2`),
  `sendDisableMotors`/`motors_disable` (disable), `PBOutConfig`/`dio_b_config` (pbConfig; legacy = direction 0),
  `PBOutValue`/`dio_b_set` (pbSet), `setPenDownPos`/`pen_pos_down`, `setPenUpPos`/`pen_pos_up`,
  `setPenDownRate`/`pen_rate_down`, `setPenUpRate`/`pen_rate_up`, `servo_timeout`/`servo_timeout`
  (legacy first sends the firmware-version gate query `V`), `query_steps`/`query_steps` (QS),
  `queryVoltage`/`query_voltage` (QC; legacy gated by `V`).
Modelled, legacy only:
  `doABMove` (XM), `doLowLevelMove` (LM), `TogglePen` (TP), `setEBBLV` (SL,v), `queryEBBLV` (QL),
  `QueryPenUp` (QP), `QueryPRGButton` (QB), `query_enable_motors` (five PI queries).
Modelled, EBB3 only:
  `clear_steps` (CS), `clear_accumulators` (T3,…,3), `var_write` (SL,v,i), `var_read` (QL,i),
  `var_write_int32` (four SL), `var_read_int32` (four QL), `dio_b_read` (PI,B,pin),
  `motors_query_enabled` (QE), `query_current` (QC), `query_nickname` (QT), `query_statusbyte` (QG),
  `reboot` (RB), `bootload` (BL).
Deliberately left out:
  `write_nickname` (both layers: free-text argument, trimming and read-back are C16's subject, framing C05's);
  `connect`/`testPort`/`openPort`/`min_version`/`queryVersion` (identification handshake: C15, C19);
  raw `command`/`query` (C05, C07); the pure calculators (`moveDistLM` …: C01–C03).
-/

namespace Plotink
namespace C06

/-- one EBB request line: command name (may include fixed letter arguments such as `PO,B`) and the
integer arguments in transmission order -/
structure Cmd where
  name : String
  args : List Int
  deriving DecidableEq, Repr, Inhabited

/-- `,a1,a2,…` — Python's `'{}'.format(i)` / f-string rendering of an `int` is the decimal numeral with a
leading `-` for negatives, i.e. `Int.repr` -/
def argsText : List Int → String
  | [] => ""
  | a :: as => "," ++ Int.repr a ++ argsText as

/-- the text an EBB3 method hands to `command`/`query` -/
def Cmd.text (c : Cmd) : String := c.name ++ argsText c.args

/-- the bytes on the wire: legacy format strings end in `\r`; EBB3 `command`/`query` append it -/
def Cmd.wire (c : Cmd) : String := c.text ++ "\r"

/-- the requests (one constructor per documented request).  Optional arguments are `Option Int`
(`none` = argument not supplied / `None`). -/
inductive Req where
  | xyMove (dx dy dur : Int)
  | abMove (da db dur : Int)
  | absMove (rate : Int) (p1 p2 : Option Int)
  | lowLevel (r1 s1 a1 r2 s2 a2 : Int) (clear : Option Int)
  | timedPause (n : Int)
  | penDown (delay : Int) (pin : Option Int)
  | penUp (delay : Int) (pin : Option Int)
  | enable (r1 r2 : Int)
  | disable
  | pbConfig (pin state dir : Int)
  | pbSet (pin state : Int)
  | pbRead (pin : Int)
  | togglePen
  | penPosDown (v : Int)
  | penPosUp (v : Int)
  | penRateDown (v : Int)
  | penRateUp (v : Int)
  | setLayer (v : Int)
  | queryLayer
  | servoTimeout (ms : Int) (state : Option Int)
  | clearSteps
  | clearAccumulators
  | varWrite (v i : Int)
  | varRead (i : Int)
  | varWriteInt32 (v i : Int)
  | varReadInt32 (i : Int)
  | queryPenUp
  | queryButton
  | querySteps
  | queryVoltage
  | queryCurrent
  | queryMotorsPI
  | queryMotorsQE
  | queryNickname
  | queryStatus
  | reboot
  | bootload
  deriving DecidableEq, Repr

/-- what the (acknowledging) board reports when asked: the motor state a `QE` reply decodes to, in
`EM` units (0 = disabled, 1..5 = step mode), per the table in `motors_query_enabled`'s docstring -/
structure Board where
  res1 : Int
  res2 : Int
  deriving DecidableEq, Repr

/-! ## The documented commands (EBB command reference as quoted in the docstrings) -/

/-- the longest zero-move the helpers use for a pause (ms) -/
def pauseChunk : Int := 750

/-- `EM`: "If res == 0 → motor disabled … res == 5 → no microstepping": resolutions are 0..5 -/
def clampDoc (r : Int) : Int := if r < 0 then 0 else if 5 < r then 5 else r

/-- an LM axis moves iff it has steps to take and a non-zero rate or acceleration -/
def axisCanMove (rate steps accel : Int) : Prop := steps ≠ 0 ∧ (rate ≠ 0 ∨ accel ≠ 0)

instance (r s a : Int) : Decidable (axisCanMove r s a) := by unfold axisCanMove; exact inferInstance

/-- canonical chunking of a pause: full chunks, then the remainder -/
def docPause (n : Int) : List Int :=
  if n ≤ 0 then [] else
    List.replicate (n / 750).toNat 750 ++ (if n % 750 = 0 then [] else [n % 750])

/-- the resolution scale currently in use: that of whichever motor is enabled -/
def scaleInUse (b : Board) : Int := if b.res1 ≠ 0 then b.res1 else b.res2

/-- big-endian two's-complement bytes of a signed 32-bit value -/
def int32Bytes (v : Int) : List Int :=
  let u := v % 4294967296
  [u / 16777216, u / 65536 % 256, u / 256 % 256, u % 256]

def int32InRange (v : Int) : Prop := -2147483648 ≤ v ∧ v ≤ 2147483647
instance (v : Int) : Decidable (int32InRange v) := by unfold int32InRange; exact inferInstance

/-- the command(s) documented for each request -/
def documented (b : Board) : Req → List Cmd
  -- "SM,<move_duration>,<axis1>,<axis2><CR>", axis 1 = Y, axis 2 = X
  | .xyMove dx dy dur => let axis1 := dy; let axis2 := dx; [⟨"SM", [dur, axis1, axis2]⟩]
  -- "XM,<move_duration>,<axisA>,<axisB><CR>"
  | .abMove da db dur => [⟨"XM", [dur, da, db]⟩]
  -- "HM,<rate>[,<position1>,<position2>]<CR>": both positions given → go there, otherwise home
  | .absMove rate p1 p2 =>
      match p1, p2 with
      | some position1, some position2 => [⟨"HM", [rate, position1, position2]⟩]
      | _, _ => [⟨"HM", [rate]⟩]
  -- "LM,<Rate1>,<Steps1>,<Accel1>,<Rate2>,<Steps2>,<Accel2>[,Clear]<CR>", nothing when neither axis can move
  | .lowLevel r1 s1 a1 r2 s2 a2 clear =>
      if axisCanMove r1 s1 a1 ∨ axisCanMove r2 s2 a2 then
        [⟨"LM", [r1, s1, a1, r2, s2, a2] ++ clear.toList⟩]
      else []
  -- zero-distance SM moves, each 1..750 ms, total n
  | .timedPause n => (docPause n).map (fun d => ⟨"SM", [d, 0, 0]⟩)
  -- "SP,<value>,<duration>[,<portBpin>]": value 0 = lower, 1 = raise
  | .penDown delay pin => [⟨"SP", [0, delay] ++ pin.toList⟩]
  | .penUp delay pin => [⟨"SP", [1, delay] ++ pin.toList⟩]
  -- "EM,<res1>,<res2>", resolutions clamped; CU,50,0 permits a single motor to be enabled; when only
  -- motor 2 is enabled the scale is first set through motor 1 unless it is already in use
  | .enable r1 r2 =>
      let c1 := clampDoc r1
      let c2 := clampDoc r2
      (if (c1 = 0 ∧ c2 ≠ 0) ∨ (c1 ≠ 0 ∧ c2 = 0) then [⟨"CU", [50, 0]⟩] else []) ++
      (if c1 = 0 ∧ c2 ≠ 0 then
         ⟨"QE", []⟩ :: (if scaleInUse b = c2 then [] else [⟨"EM", [c2, c2]⟩])
       else []) ++
      [⟨"EM", [c1, c2]⟩]
  | .disable => [⟨"EM", [0, 0]⟩]
  -- "PO,B,<pin>,<state>" sets the value, "PD,B,<pin>,<direction>" the direction
  | .pbConfig pin state dir => [⟨"PO,B", [pin, state]⟩, ⟨"PD,B", [pin, dir]⟩]
  | .pbSet pin state => [⟨"PO,B", [pin, state]⟩]
  | .pbRead pin => [⟨"PI,B", [pin]⟩]
  | .togglePen => [⟨"TP", []⟩]
  -- SC,5 pen-down position; SC,4 pen-up position; SC,12 lowering rate; SC,11 raising rate
  | .penPosDown v => [⟨"SC", [5, v]⟩]
  | .penPosUp v => [⟨"SC", [4, v]⟩]
  | .penRateDown v => [⟨"SC", [12, v]⟩]
  | .penRateUp v => [⟨"SC", [11, v]⟩]
  | .setLayer v => [⟨"SL", [v]⟩]
  | .queryLayer => [⟨"QL", []⟩]
  -- "SR,<timeout_ms>[,<state>]"
  | .servoTimeout ms state => [⟨"SR", [ms] ++ state.toList⟩]
  | .clearSteps => [⟨"CS", []⟩]
  -- a one-interval T3 move with every rate zero and Clear = 3 (both accumulators)
  | .clearAccumulators => [⟨"T3", [1, 0, 0, 0, 0, 0, 0, 3]⟩]
  -- "SL,<value>,<index>", "QL,<index>"
  | .varWrite v i => [⟨"SL", [v, i]⟩]
  | .varRead i => [⟨"QL", [i]⟩]
  -- four unsigned bytes, big-endian, at index .. index+3
  | .varWriteInt32 v i =>
      match int32Bytes v with
      | [b0, b1, b2, b3] => [⟨"SL", [b0, i]⟩, ⟨"SL", [b1, i + 1]⟩, ⟨"SL", [b2, i + 2]⟩, ⟨"SL", [b3, i + 3]⟩]
      | _ => []
  | .varReadInt32 i => [⟨"QL", [i]⟩, ⟨"QL", [i + 1]⟩, ⟨"QL", [i + 2]⟩, ⟨"QL", [i + 3]⟩]
  | .queryPenUp => [⟨"QP", []⟩]
  | .queryButton => [⟨"QB", []⟩]
  | .querySteps => [⟨"QS", []⟩]
  | .queryVoltage => [⟨"QC", []⟩]
  | .queryCurrent => [⟨"QC", []⟩]
  -- motor-1 enable (E0), motor-2 enable (C1), MS1 (E2), MS2 (E1), MS3 (A6)
  | .queryMotorsPI => [⟨"PI,E", [0]⟩, ⟨"PI,C", [1]⟩, ⟨"PI,E", [2]⟩, ⟨"PI,E", [1]⟩, ⟨"PI,A", [6]⟩]
  | .queryMotorsQE => [⟨"QE", []⟩]
  | .queryNickname => [⟨"QT", []⟩]
  | .queryStatus => [⟨"QG", []⟩]
  | .reboot => [⟨"RB", []⟩]
  | .bootload => [⟨"BL", []⟩]

/-! ## Legacy layer (`ebb_motion.py`) -/

/-- presence test on an optional argument, as the (repaired) code has it: `x is not None` -/
def present (x : Option Int) : Bool := x.isSome

/-- Python truthiness of an optional int (`if x:`), the test the unrepaired sources use — defect F4 -/
def truthy (x : Option Int) : Bool :=
  match x with
  | none => false
  | some v => v != 0

/-- `doTimedPause`'s loop; `fuel` bounds the number of iterations (`n.toNat` suffices) -/
def legacyPauseLoop (chunk : Int) : Nat → Int → List Int
  | 0, _ => []
  | fuel + 1, n =>
    if n > 0 then
      let d := if n > chunk then chunk else (if n < 1 then 1 else n)
      d :: legacyPauseLoop chunk fuel (n - d)
    else []

/-- `max(min(...))` clamp of `sendEnableMotors` / `motors_enable` -/
def clampRes (r : Int) : Int := min (max r 0) 5

/-- the firmware-version gate query some legacy helpers send first -/
def versionQuery : Cmd := ⟨"V", []⟩

/-- commands written by the legacy helper for `r`; `none` when the layer has no helper for `r`.
`port = false`: `port_name is None`.  `fwOk`: the board's version passes the helper's `min_version` gate.
`pt`: the presence test applied to optional arguments. -/
def legacyEmitWith (pt : Option Int → Bool) (port fwOk : Bool) : Req → Option (List Cmd)
  | .xyMove dx dy dur => some (if port then [⟨"SM", [dur, dy, dx]⟩] else [])
  | .abMove da db dur => some (if port then [⟨"XM", [dur, da, db]⟩] else [])
  | .absMove rate p1 p2 =>
      some (if port then
        (match pt p1 && pt p2, p1, p2 with
         | true, some a, some b => [⟨"HM", [rate, a, b]⟩]
         | _, _, _ => [⟨"HM", [rate]⟩])
      else [])
  | .lowLevel r1 s1 a1 r2 s2 a2 clear =>
      some (if port then
        (if ((r1 = 0 ∧ a1 = 0) ∨ s1 = 0) ∧ ((r2 = 0 ∧ a2 = 0) ∨ s2 = 0) then []
         else match pt clear, clear with
           | true, some c => [⟨"LM", [r1, s1, a1, r2, s2, a2, c]⟩]
           | _, _ => [⟨"LM", [r1, s1, a1, r2, s2, a2]⟩])
      else [])
  | .timedPause n =>
      some (if port then (legacyPauseLoop pauseChunk n.toNat n).map (fun d => ⟨"SM", [d, 0, 0]⟩) else [])
  | .penDown delay pin =>
      some (if port then
        (match pt pin, pin with
         | true, some p => [⟨"SP", [0, delay, p]⟩]
         | _, _ => [⟨"SP", [0, delay]⟩])
      else [])
  | .penUp delay pin =>
      some (if port then
        (match pt pin, pin with
         | true, some p => [⟨"SP", [1, delay, p]⟩]
         | _, _ => [⟨"SP", [1, delay]⟩])
      else [])
  | .enable r1 r2 =>
      if r1 = r2 then
        let res := clampRes r1
        some (if port then [⟨"EM", [res, res]⟩] else [])
      else none
  | .disable => some (if port then [⟨"EM", [0, 0]⟩] else [])
  | .pbConfig pin state dir =>
      if dir = 0 then some (if port then [⟨"PO,B", [pin, state]⟩, ⟨"PD,B", [pin, 0]⟩] else []) else none
  | .pbSet pin state => some (if port then [⟨"PO,B", [pin, state]⟩] else [])
  | .togglePen => some (if port then [⟨"TP", []⟩] else [])
  | .penPosDown v => some (if port then [⟨"SC", [5, v]⟩] else [])
  | .penPosUp v => some (if port then [⟨"SC", [4, v]⟩] else [])
  | .penRateDown v => some (if port then [⟨"SC", [12, v]⟩] else [])
  | .penRateUp v => some (if port then [⟨"SC", [11, v]⟩] else [])
  | .setLayer v => some (if port then [⟨"SL", [v]⟩] else [])
  | .queryLayer => some (if port then [⟨"QL", []⟩] else [])
  | .servoTimeout ms state =>
      some (if port then
        versionQuery ::
          (if fwOk then
            (match state with
             | none => [⟨"SR", [ms]⟩]
             | some s => [⟨"SR", [ms, s]⟩])
           else [])
      else [])
  | .queryPenUp => some (if port then [⟨"QP", []⟩] else [])
  | .queryButton => some (if port then [⟨"QB", []⟩] else [])
  | .querySteps => some (if port then [⟨"QS", []⟩] else [])
  | .queryVoltage => some (if port then versionQuery :: (if fwOk then [⟨"QC", []⟩] else []) else [])
  | .queryMotorsPI =>
      some (if port then [⟨"PI,E", [0]⟩, ⟨"PI,C", [1]⟩, ⟨"PI,E", [2]⟩, ⟨"PI,E", [1]⟩, ⟨"PI,A", [6]⟩] else [])
  | _ => none

/-- the legacy layer with `is not None` presence tests (the repaired source) -/
def legacyEmit (port fwOk : Bool) (r : Req) : Option (List Cmd) := legacyEmitWith present port fwOk r

/-- the version-gate prefix of the legacy helpers that have one -/
def legacyGate : Req → List Cmd
  | .servoTimeout _ _ => [versionQuery]
  | .queryVoltage => [versionQuery]
  | _ => []

/-! ## EBB3 layer (`ebb3_motion.py`, `ebb3_serial.py`) -/

/-- `timed_pause`'s loop (`max(pause_time, 1)` instead of the nested `if`) -/
def ebb3PauseLoop (chunk : Int) : Nat → Int → List Int
  | 0, _ => []
  | fuel + 1, n =>
    if n > 0 then
      let d := if n > chunk then chunk else max n 1
      d :: ebb3PauseLoop chunk fuel (n - d)
    else []

/-- `motors_enable` on a connected object whose requests are all acknowledged -/
def ebb3Enable (b : Board) (r1 r2 : Int) : List Cmd :=
  let c1 := min (max r1 0) 5
  let c2 := min (max r2 0) 5
  let cu : List Cmd := if c1 ≠ c2 ∧ c1 * c2 = 0 then [⟨"CU", [50, 0]⟩] else []
  let pre : List Cmd :=
    if c1 = 0 ∧ c2 ≠ 0 then
      let old0 : Int := 0
      let old1 := if b.res2 ≠ 0 then b.res2 else old0
      let old2 := if b.res1 ≠ 0 then b.res1 else old1
      ⟨"QE", []⟩ :: (if old2 ≠ c2 then [⟨"EM", [c2, c2]⟩] else [])
    else []
  cu ++ pre ++ [⟨"EM", [c1, c2]⟩]

/-- `int.to_bytes(4, byteorder='big', signed=True)`: `none` = `OverflowError` -/
def toBytes4 (v : Int) : Option (List Int) :=
  if -2147483648 ≤ v ∧ v ≤ 2147483647 then
    some [v / 16777216 % 256, v / 65536 % 256, v / 256 % 256, v % 256]
  else none

/-- `var_write_int32`'s loop: `var_write(byte, start_index); start_index += 1` -/
def writeBytes : List Int → Int → List Cmd
  | [], _ => []
  | byte :: rest, idx => ⟨"SL", [byte, idx]⟩ :: writeBytes rest (idx + 1)

/-- texts handed to `command`/`query` (or written directly) by the EBB3 method for `r`, on an object
with no recorded error; `none` when the layer has no method for `r`, or the method raises before
transmitting anything (`var_write_int32` outside the signed 32-bit range).
`port = false`: `self.port is None`. -/
def ebb3EmitWith (pt : Option Int → Bool) (port : Bool) (b : Board) : Req → Option (List Cmd)
  | .xyMove dx dy dur => some (if port then [⟨"SM", [dur, dy, dx]⟩] else [])
  | .absMove rate p1 p2 =>
      some (if port then
        (match p1, p2 with
         | some a, some c => [⟨"HM", [rate, a, c]⟩]
         | _, _ => [⟨"HM", [rate]⟩])
      else [])
  | .timedPause n =>
      some (if port then (ebb3PauseLoop pauseChunk n.toNat n).map (fun d => ⟨"SM", [d, 0, 0]⟩) else [])
  | .penDown delay pin =>
      some (if port then
        (match pt pin, pin with
         | true, some p => [⟨"SP", [0, delay, p]⟩]
         | _, _ => [⟨"SP", [0, delay]⟩])
      else [])
  | .penUp delay pin =>
      some (if port then
        (match pt pin, pin with
         | true, some p => [⟨"SP", [1, delay, p]⟩]
         | _, _ => [⟨"SP", [1, delay]⟩])
      else [])
  | .enable r1 r2 => some (if port then ebb3Enable b r1 r2 else [])
  | .disable => some (if port then [⟨"EM", [0, 0]⟩] else [])
  | .pbConfig pin state dir => some (if port then [⟨"PO,B", [pin, state]⟩, ⟨"PD,B", [pin, dir]⟩] else [])
  | .pbSet pin state => some (if port then [⟨"PO,B", [pin, state]⟩] else [])
  | .pbRead pin => some (if port then [⟨"PI,B", [pin]⟩] else [])
  | .penPosDown v => some (if port then [⟨"SC", [5, v]⟩] else [])
  | .penPosUp v => some (if port then [⟨"SC", [4, v]⟩] else [])
  | .penRateDown v => some (if port then [⟨"SC", [12, v]⟩] else [])
  | .penRateUp v => some (if port then [⟨"SC", [11, v]⟩] else [])
  | .servoTimeout ms state =>
      some (if port then
        (match state with
         | none => [⟨"SR", [ms]⟩]
         | some s => [⟨"SR", [ms, s]⟩])
      else [])
  | .clearSteps => some (if port then [⟨"CS", []⟩] else [])
  | .clearAccumulators => some (if port then [⟨"T3", [1, 0, 0, 0, 0, 0, 0, 3]⟩] else [])
  | .varWrite v i => some (if port then [⟨"SL", [v, i]⟩] else [])
  | .varRead i => some (if port then [⟨"QL", [i]⟩] else [])
  | .varWriteInt32 v i =>
      if port then (toBytes4 v).map (fun bytes => writeBytes bytes i) else some []
  | .varReadInt32 i =>
      some (if port then (List.range 4).map (fun (off : Nat) => (⟨"QL", [i + (off : Int)]⟩ : Cmd)) else [])
  | .querySteps => some (if port then [⟨"QS", []⟩] else [])
  | .queryVoltage => some (if port then [⟨"QC", []⟩] else [])
  | .queryCurrent => some (if port then [⟨"QC", []⟩] else [])
  | .queryMotorsQE => some (if port then [⟨"QE", []⟩] else [])
  | .queryNickname => some (if port then [⟨"QT", []⟩] else [])
  | .queryStatus => some (if port then [⟨"QG", []⟩] else [])
  | .reboot => some (if port then [⟨"RB", []⟩] else [])
  | .bootload => some (if port then [⟨"BL", []⟩] else [])
  | _ => none

/-- the EBB3 layer with `is not None` presence tests (the repaired source) -/
def ebb3Emit (port : Bool) (b : Board) (r : Req) : Option (List Cmd) := ebb3EmitWith present port b r

/-- requests each layer has a helper for (and on which that helper does not raise) -/
def legacySupports : Req → Prop
  | .enable r1 r2 => r1 = r2
  | .pbConfig _ _ dir => dir = 0
  | .pbRead _ | .clearSteps | .clearAccumulators | .varWrite _ _ | .varRead _ | .varWriteInt32 _ _
  | .varReadInt32 _ | .queryCurrent | .queryMotorsQE | .queryNickname | .queryStatus | .reboot
  | .bootload => False
  | _ => True

def ebb3Supports : Req → Prop
  | .abMove _ _ _ | .lowLevel _ _ _ _ _ _ _ | .togglePen | .setLayer _ | .queryLayer | .queryPenUp
  | .queryButton | .queryMotorsPI => False
  | .varWriteInt32 v _ => int32InRange v
  | _ => True

/-- an optional argument that the unrepaired truthiness tests look at is a supplied zero -/
def suppliedZero : Req → Prop
  | .absMove _ p1 p2 => p1 = some 0 ∨ p2 = some 0
  | .lowLevel _ _ _ _ _ _ clear => clear = some 0
  | .penDown _ pin => pin = some 0
  | .penUp _ pin => pin = some 0
  | _ => False

instance : DecidablePred suppliedZero := fun r => by
  cases r <;> simp only [suppliedZero] <;> exact inferInstance

/-- bytes on the wire -/
def wires (l : List Cmd) : List String := l.map Cmd.wire

end C06
end Plotink
