import Plotink.Model.C09
/-! # C10 — Bezier subdivision (`plot_utils.subdivideCubicPath`, `bezmisc.beziersplitatt`)

Executable model over `Rat` mirroring the Python control flow (in-place handle rewrite, node insertion,
index `i`), and the independent Spec: Bernstein evaluation `bez`, restriction to a parameter interval by
blossoming (`restrict`), dyadic tilings of `[0,1]`. Core Lean only. -/
namespace Plotink
namespace C10
open C09 (Pt distSq pointsInTol)

/-- a path node `[handle_in, point, handle_out]` -/
structure Node where
  hin : Pt
  p : Pt
  hout : Pt
  deriving DecidableEq, Repr

/-- the four control points of one cubic piece -/
structure Cubic where
  p0 : Pt
  p1 : Pt
  p2 : Pt
  p3 : Pt
  deriving DecidableEq, Repr

/-! ## `bezmisc` -/

/-- `bezmisc.tpoint` -/
def tpoint (a b : Pt) (t : Rat) : Pt := (a.1 + t * (b.1 - a.1), a.2 + t * (b.2 - a.2))

/-- `bezmisc.beziersplitatt` (de Casteljau) -/
def splitAt (c : Cubic) (t : Rat) : Cubic × Cubic :=
  let m1 := tpoint c.p0 c.p1 t
  let m2 := tpoint c.p1 c.p2 t
  let m3 := tpoint c.p2 c.p3 t
  let m4 := tpoint m1 m2 t
  let m5 := tpoint m2 m3 t
  let m := tpoint m4 m5 t
  (⟨c.p0, m1, m4, m⟩, ⟨m, m5, m3, c.p3⟩)

/-- the literal `0.5` -/
def half : Rat := 1 / 2

/-! ## `subdivideCubicPath` -/

/-- `points_in_tolerance((p_0, p_1, p_2, p_3), flat)` -/
def isFlat (c : Cubic) (flat : Rat) : Option Bool := pointsInTol [c.p0, c.p1, c.p2, c.p3] flat

/-- piece number `i` of the node list: `(s_p[i-1][1], s_p[i-1][2], s_p[i][0], s_p[i][1])` -/
def pieceOf (a b : Node) : Cubic := ⟨a.p, a.hout, b.hin, b.p⟩

/-- One step of fuel per evaluation of the flatness test (both `while True` loops flattened):
flat → `i += 1`; not flat → split at one half, `s_p[i-1][2] = one[1]`, `s_p[i][0] = two[2]`,
insert `[one[2], one[3], two[1]]` at index `i`, same `i` again.  `none` = out of fuel (or an
AssertionError / IndexError, which cannot happen: `C10_terminates` shows that enough fuel always gives `some`). -/
def subdivide (flat : Rat) : Nat → List Node → Nat → Option (List Node)
  | 0, _, _ => none
  | fuel + 1, sp, i =>
    if i ≥ sp.length then some sp else
    match sp[i - 1]?, sp[i]? with
    | some a, some b =>
      let c := pieceOf a b
      match isFlat c flat with
      | none => none
      | some true => subdivide flat fuel sp (i + 1)
      | some false =>
        let one := (splitAt c half).1
        let two := (splitAt c half).2
        let sp1 := sp.set (i - 1) { a with hout := one.p1 }
        let sp2 := sp1.set i { b with hin := two.p2 }
        subdivide flat fuel (sp2.take i ++ ⟨one.p2, one.p3, two.p1⟩ :: sp2.drop i) i
    | _, _ => none

/-- `subdivideCubicPath(s_p, flat)` (default `i=1`): the node list after the call -/
def subdivideCubicPath (fuel : Nat) (sp : List Node) (flat : Rat) : Option (List Node) :=
  subdivide flat fuel sp 1

/-! ## Spec -/

/-- the cubic pieces traced by a node list -/
def pieces : List Node → List Cubic
  | a :: b :: t => pieceOf a b :: pieces (b :: t)
  | _ => []

/-- Bernstein form of the curve -/
def bez (c : Cubic) (t : Rat) : Pt :=
  ((1 - t) * (1 - t) * (1 - t) * c.p0.1 + 3 * (1 - t) * (1 - t) * t * c.p1.1 + 3 * (1 - t) * t * t * c.p2.1 + t * t * t * c.p3.1,
   (1 - t) * (1 - t) * (1 - t) * c.p0.2 + 3 * (1 - t) * (1 - t) * t * c.p1.2 + 3 * (1 - t) * t * t * c.p2.2 + t * t * t * c.p3.2)

def lerp (a b : Pt) (t : Rat) : Pt := ((1 - t) * a.1 + t * b.1, (1 - t) * a.2 + t * b.2)

/-- polar form (blossom) of the cubic: symmetric, multi-affine, `blossom c t t t = bez c t` -/
def blossom (c : Cubic) (u v w : Rat) : Pt :=
  lerp (lerp (lerp c.p0 c.p1 u) (lerp c.p1 c.p2 u) v) (lerp (lerp c.p1 c.p2 u) (lerp c.p2 c.p3 u) v) w

/-- control points of the curve restricted to the parameter interval `[t0, t1]` -/
def restrict (c : Cubic) (t0 t1 : Rat) : Cubic :=
  ⟨blossom c t0 t0 t0, blossom c t0 t0 t1, blossom c t0 t1 t1, blossom c t1 t1 t1⟩

/-- `[j/2^k, (j+1)/2^k]` inside `[0,1]` -/
def DyadicIv (iv : Rat × Rat) : Prop :=
  ∃ k j : Nat, j < 2 ^ k ∧ iv.1 = (j : Rat) / 2 ^ k ∧ iv.2 = ((j : Rat) + 1) / 2 ^ k

/-- consecutive intervals abut and cover `[t0, t1]` -/
def Tiles : List (Rat × Rat) → Rat → Rat → Prop
  | [], _, _ => False
  | [iv], t0, t1 => iv.1 = t0 ∧ iv.2 = t1
  | iv :: iv' :: rest, t0, t1 => iv.1 = t0 ∧ Tiles (iv' :: rest) iv.2 t1

/-- `l` is the piece `c` cut into restrictions to dyadic intervals that tile `[0,1]` -/
def DyadicRefinement (c : Cubic) (l : List Cubic) : Prop :=
  ∃ ivs : List (Rat × Rat), (∀ iv ∈ ivs, DyadicIv iv) ∧ Tiles ivs 0 1 ∧
    l = ivs.map (fun iv => restrict c iv.1 iv.2)

/-- piece by piece: the new piece list is the old one with every piece replaced by a dyadic refinement -/
inductive RefinesPath : List Cubic → List Cubic → Prop
  | nil : RefinesPath [] []
  | cons {c : Cubic} {l : List Cubic} {cs ls : List Cubic} :
      DyadicRefinement c l → RefinesPath cs ls → RefinesPath (c :: cs) (l ++ ls)

/-- flatness postcondition of one piece: both inner control points closer than `flat` to the chord -/
def FlatPiece (c : Cubic) (flat : Rat) : Prop :=
  distSq c.p0 c.p3 c.p1 < flat * flat ∧ distSq c.p0 c.p3 c.p2 < flat * flat

end C10
end Plotink
