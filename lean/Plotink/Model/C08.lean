/-! # C08 — segment clipping (`plot_utils.clip_code`, `plot_utils.clip_segment`)

Hand-written executable model mirroring the control flow of the Python code, over exact rational
arithmetic, plus the independent specification (`Inside`, `On`, and an executable Liang–Barsky
parameter interval `specInterval`). Core Lean only. -/
namespace Plotink
namespace C08

structure Pt where
  x : Rat
  y : Rat
  deriving DecidableEq, Repr

structure Seg where
  a : Pt
  b : Pt
  deriving DecidableEq, Repr

/-- bounds `[[x_min, y_min], [x_max, y_max]]` -/
structure Rect where
  xmin : Rat
  ymin : Rat
  xmax : Rat
  ymax : Rat
  deriving Repr

/-- the domain of the property: `min ≤ max` on both axes (zero-area rectangles included) -/
def Rect.Valid (r : Rect) : Prop := r.xmin ≤ r.xmax ∧ r.ymin ≤ r.ymax

/-- exceptions the Python text can raise on numeric input -/
inductive PyExc where
  | zeroDivision   -- `slope = … / (x_2 - x_1)` with equal coordinates
  | unboundLocal   -- `x_new` read although none of the four `if code & k` branches ran
  deriving DecidableEq, Repr

/-! ## Model -/

/-- `clip_code`: `code = 0; if x < x_min: code = 1; if x > x_max: code |= 2; if y < y_min: code |= 4;
if y > y_max: code |= 8` -/
def clipCode (x y : Rat) (r : Rect) : Nat :=
  let code := 0
  let code := if x < r.xmin then 1 else code
  let code := if x > r.xmax then code ||| 2 else code
  let code := if y < r.ymin then code ||| 4 else code
  let code := if y > r.ymax then code ||| 8 else code
  code

/-- the `if code & 1 … elif code & 2 … elif code & 4 … elif code & 8` block: intersection of the line
through the current endpoints with the boundary selected by the lowest set bit. The base point of
the interpolation is always endpoint 1, as in the code. -/
def newPoint (code : Nat) (s : Seg) (r : Rect) : Except PyExc Pt :=
  let x1 := s.a.x; let y1 := s.a.y; let x2 := s.b.x; let y2 := s.b.y
  if code &&& 1 ≠ 0 then
    if x2 - x1 = 0 then .error .zeroDivision
    else
      let slope := (y2 - y1) / (x2 - x1)
      .ok ⟨r.xmin, slope * (r.xmin - x1) + y1⟩
  else if code &&& 2 ≠ 0 then
    if x2 - x1 = 0 then .error .zeroDivision
    else
      let slope := (y2 - y1) / (x2 - x1)
      .ok ⟨r.xmax, slope * (r.xmax - x1) + y1⟩
  else if code &&& 4 ≠ 0 then
    if y2 - y1 = 0 then .error .zeroDivision
    else
      let slope := (x2 - x1) / (y2 - y1)
      .ok ⟨slope * (r.ymin - y1) + x1, r.ymin⟩
  else if code &&& 8 ≠ 0 then
    if y2 - y1 = 0 then .error .zeroDivision
    else
      let slope := (x2 - x1) / (y2 - y1)
      .ok ⟨slope * (r.ymax - y1) + x1, r.ymax⟩
  else .error .unboundLocal

/-- the `while True` loop with `fuel` passes left and the code's own `iterations` counter.
`some (accept, segment)` is a `return` through trivial accept / trivial reject; `none` is the
failsafe `iterations > 3` return (or fuel exhaustion, which `clipSegment`'s fuel excludes). -/
def clipLoop (r : Rect) : Nat → Nat → Seg → Except PyExc (Option (Bool × Seg))
  | 0, _, _ => .ok none
  | fuel + 1, iterations, s =>
    let code1 := clipCode s.a.x s.a.y r
    let code2 := clipCode s.b.x s.b.y r
    if code1 = 0 ∧ code2 = 0 then .ok (some (true, s))
    else if code1 &&& code2 ≠ 0 then .ok (some (false, s))
    else if iterations > 3 then .ok none
    else
      let code := if code1 ≠ 0 then code1 else code2
      match newPoint code s r with
      | .error e => .error e
      | .ok p =>
        let s' : Seg := if code = code1 then ⟨p, s.b⟩ else ⟨s.a, p⟩
        clipLoop r fuel (iterations + 1) s'

/-- `clip_segment(segment, bounds)` -/
def clipSegment (r : Rect) (s : Seg) : Except PyExc (Option (Bool × Seg)) :=
  clipLoop r 5 0 s

/-! ## Specification (independent of the algorithm) -/

/-- the closed rectangle -/
def Inside (r : Rect) (p : Pt) : Prop :=
  r.xmin ≤ p.x ∧ p.x ≤ r.xmax ∧ r.ymin ≤ p.y ∧ p.y ≤ r.ymax

instance (r : Rect) (p : Pt) : Decidable (Inside r p) := by
  unfold Inside; infer_instance

/-- the point of parameter `t` on the segment: `a + t·(b − a)` -/
def On (s : Seg) (t : Rat) : Pt :=
  ⟨s.a.x + t * (s.b.x - s.a.x), s.a.y + t * (s.b.y - s.a.y)⟩

/-- one Liang–Barsky constraint `p·t ≤ q` intersected with the interval `[t0, t1]` -/
def lbCut (p q : Rat) (iv : Option (Rat × Rat)) : Option (Rat × Rat) :=
  match iv with
  | none => none
  | some (t0, t1) =>
    if p = 0 then (if q < 0 then none else some (t0, t1))
    else
      let c := q / p
      if p < 0 then (if c > t1 then none else some (if c > t0 then c else t0, t1))
      else (if c < t0 then none else some (t0, if c < t1 then c else t1))

/-- executable specification: the exact parameter interval `{t ∈ [0,1] | Inside r (On s t)}`
(`none` when empty), by Liang–Barsky — no outcodes, no iteration -/
def specInterval (r : Rect) (s : Seg) : Option (Rat × Rat) :=
  let dx := s.b.x - s.a.x
  let dy := s.b.y - s.a.y
  lbCut dy (r.ymax - s.a.y) <| lbCut (-dy) (s.a.y - r.ymin) <|
  lbCut dx (r.xmax - s.a.x) <| lbCut (-dx) (s.a.x - r.xmin) <| some (0, 1)

/-- executable specification of the result: accept flag and, on accept, the clipped segment -/
def specClip (r : Rect) (s : Seg) : Option Seg :=
  match specInterval r s with
  | none => none
  | some (t0, t1) => some ⟨On s t0, On s t1⟩

end C08
end Plotink
