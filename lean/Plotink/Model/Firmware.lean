/-! # EBB firmware step-accumulator recurrences (the Spec side of C01, C02, C03, C17)

Written from the property statements, independent of the Python code. Core Lean only. -/
namespace Plotink
namespace Fw

/-- truncation toward zero of `a / d` for `d > 0`, in a form `omega` understands -/
def tdiv (a : Int) (d : Int) : Int := if 0 ≤ a then a / d else -((-a) / d)

def two31 : Int := 2147483648

/-- LT/LM move: state `(rate, total)` after `k` ticks; each tick does `rate += accel; total += rate` -/
def lt (accel : Int) : Nat → Int × Int → Int × Int
  | 0, s => s
  | k + 1, s => let (r, t) := lt accel k s; (r + accel, t + (r + accel))

/-- rate added to the accumulator at tick `k ≥ 1` of an LT move (after the one-off `accel/2` lowering) -/
def ltRate (rate accel : Int) (k : Nat) : Int := (lt accel k (rate - tdiv accel 2, 0)).1

/-- total (unreduced) accumulator after `T` ticks starting from accumulator `a0` -/
def ltTotal (rate accel : Int) (T : Nat) (a0 : Int) : Int := (lt accel T (rate - tdiv accel 2, a0)).2

/-- "first non-zero motion is backward": some tick `k ≥ 1` has a negative rate and all earlier ticks have
rate 0. For an arithmetic progression only ticks 1 and 2 can matter; the *definition* looks at the first
`fuel` ticks and the theorems show 2 is enough. -/
def firstMotionBackward (rates : Nat → Int) : Nat → Nat → Bool
  | _, 0 => false
  | k, fuel + 1 => if rates k < 0 then true else if rates k > 0 then false else firstMotionBackward rates (k + 1) fuel

/-- cleared accumulator of an LT move: 2^31-1 when the first non-zero motion is backward, else 0 -/
def ltClear (rate accel : Int) : Int :=
  if firstMotionBackward (ltRate rate accel) 1 2 then two31 - 1 else 0

/-- the prediction the firmware recurrence yields for a timed move -/
def ltSpec (rate accel : Int) (T : Nat) (acc : Option Int) : Int × Int :=
  let a0 := match acc with | some a => a | none => ltClear rate accel
  let tot := ltTotal rate accel T a0
  (tot / two31, tot % two31)

/-- T3 move: state `(rate, accel, total)`; each tick does `rate += accel; accel += jerk; total += rate` -/
def t3 (jerk : Int) : Nat → Int × Int × Int → Int × Int × Int
  | 0, s => s
  | k + 1, s => let (r, a, t) := t3 jerk k s; (r + a, a + jerk, t + (r + a))

def t3Start (rate accel jerk a0 : Int) : Int × Int × Int :=
  (rate - tdiv accel 2 + tdiv jerk 6, accel, a0)

def t3Rate (rate accel jerk : Int) (k : Nat) : Int := (t3 jerk k (t3Start rate accel jerk 0)).1
def t3Accel (rate accel jerk : Int) (k : Nat) : Int := (t3 jerk k (t3Start rate accel jerk 0)).2.1
def t3Total (rate accel jerk : Int) (T : Nat) (a0 : Int) : Int := (t3 jerk T (t3Start rate accel jerk a0)).2.2

/-- cleared accumulator of a T3 move: 2^31-1 exactly when the first non-zero rate among ticks 1..3 is negative -/
def t3Clear (rate accel jerk : Int) : Int :=
  if firstMotionBackward (t3Rate rate accel jerk) 1 3 then two31 - 1 else 0

def t3Spec (rate accel jerk : Int) (T : Nat) (acc : Option Int) : Int × Int :=
  let a0 := match acc with | some a => a | none => t3Clear rate accel jerk
  let tot := t3Total rate accel jerk T a0
  (tot / two31, tot % two31)

/-- largest absolute per-tick rate over ticks 1..T (T ≥ 1) -/
def t3Peak (rate accel jerk : Int) : Nat → Int
  | 0 => 0
  | k + 1 => max (t3Peak rate accel jerk k) (t3Rate rate accel jerk (k + 1)).natAbs

/-- step position after `k` ticks of an LT-type move -/
def ltPos (rate accel : Int) (a0 : Int) (k : Nat) : Int := ltTotal rate accel k a0 / two31

/-- motor steps taken (in either direction) during ticks 1..k -/
def ltTaken (rate accel a0 : Int) : Nat → Int
  | 0 => 0
  | k + 1 => ltTaken rate accel a0 k + ((ltPos rate accel a0 (k + 1) - ltPos rate accel a0 k).natAbs : Int)

/-- first tick `t ≥ 1` (searching up to `fuel`) at which the steps taken reach the budget `n` -/
def lmFirstTick (rate accel a0 n : Int) (fuel : Nat) : Option Nat :=
  (List.range' 1 fuel).find? (fun t => decide (ltTaken rate accel a0 t ≥ n))

end Fw
end Plotink
