/-! # C16 — board-state round trips through the EBB3 layer

Three layers, all executable, core Lean only:

* **the board** (`Board`, `parseReq`, `boardStep`, `boardRecv`): the meaning of "a board that implements
  the documented variable, nickname and motor-enable commands" — TRUSTED; written from the EBB command
  reference (https://evil-mad.github.io/EggBot/ebb.html, firmware 3.x, "future" syntax) as quoted in the
  doc strings of `plotink/ebb3_serial.py` and `plotink/ebb3_motion.py`; every clause is documented below;
* **the link** (`command`, `query`): `EBB3.command` / `EBB3.query` statement by statement over a
  *conforming link* (every write reaches the board, the next `readline` returns the board's reply line,
  later `readline`s time out with `b''`);
* **the methods** (`var_write`, `var_read`, `var_write_int32`, `var_read_int32`, `write_nickname`,
  `query_nickname`, `motors_enable`, `motors_query_enabled`), statement by statement, Python-level
  conversions (`f'{…}'`, `int()`, `split(',')`, `to_bytes`, `from_bytes`, `strip`, `isspace`, clamp,
  dictionary lookup) included, Python exceptions explicit (`Except Exc`).

`Spec` (bottom) is written from the property statement only. -/
namespace Plotink
namespace C16

abbrev Str := List Char

/-! ## Python `str` primitives (ASCII range; non-ASCII text is outside the property: `encode('ascii')` raises) -/

/-- the ASCII characters for which `str.isspace()` is true (what `str.strip()` removes):
TAB LF VT FF CR, FS GS RS US, SPACE -/
def isPySpace (c : Char) : Bool :=
  (9 ≤ c.toNat && c.toNat ≤ 13) || (28 ≤ c.toNat && c.toNat ≤ 32)

def lstrip : Str → Str
  | [] => []
  | c :: cs => if isPySpace c then lstrip cs else c :: cs

def rstrip (s : Str) : Str := (lstrip s.reverse).reverse

/-- `s.strip()` -/
def strip (s : Str) : Str := rstrip (lstrip s)

/-- `s.isspace()` (false for the empty string) -/
def isspace (s : Str) : Bool := !s.isEmpty && s.all isPySpace

/-- `s.startswith(p)` -/
def startsWith : Str → Str → Bool
  | _, [] => true
  | [], _ :: _ => false
  | c :: cs, p :: ps => c == p && startsWith cs ps

/-- `p in s` -/
def isInfix (p : Str) : Str → Bool
  | [] => p.isEmpty
  | c :: cs => startsWith (c :: cs) p || isInfix p cs

/-- `s.split(sep)` for a one-character separator (always at least one field) -/
def splitOn (sep : Char) : Str → List Str
  | [] => [[]]
  | c :: cs =>
    if c = sep then [] :: splitOn sep cs
    else match splitOn sep cs with
      | h :: t => (c :: h) :: t
      | [] => [[c]]

/-! ## decimal numbers on the wire -/

def parseNatAux : Nat → Str → Option Nat
  | acc, [] => some acc
  | acc, c :: cs => if c.isDigit then parseNatAux (acc * 10 + (c.toNat - 48)) cs else none

/-- a non-empty string of ASCII digits -/
def parseNat? (s : Str) : Option Nat := if s.isEmpty then none else parseNatAux 0 s

/-- optional `-`, then digits -/
def parseInt? : Str → Option Int
  | [] => none
  | c :: cs => if c = '-' then (parseNat? cs).map (fun n => -(n : Int))
               else (parseNat? (c :: cs)).map (fun n => (n : Int))

/-- decimal rendering of a natural number: `Nat.toDigits 10` (`= (Nat.repr n).toList`, core lemma `Nat.toList_repr`) -/
def showNat (n : Nat) : Str := Nat.toDigits 10 n

/-- `f'{z}'` / `str(z)` for a Python int -/
def showInt (z : Int) : Str := if z < 0 then '-' :: showNat (-z).toNat else showNat z.toNat

/-! ## The board (TRUSTED: this is what "implements the documented commands" means) -/

/-- State of an EiBotBoard as far as the variable, nickname and motor-enable commands can see it. -/
structure Board where
  /-- `SL`/`QL` RAM: 32 slots (index 0..31), each an unsigned byte 0..255 -/
  vars : List Nat
  /-- `ST`/`QT` name tag, 0..16 characters -/
  name : Str
  /-- motor 1 / motor 2 driver enabled -/
  m1 : Bool
  m2 : Bool
  /-- GLOBAL microstep mode in `EM` numbering: 1 = 1/16 step (power-on default), 2 = 1/8, 3 = 1/4,
  4 = 1/2, 5 = full step. There is only one mode for both motors. -/
  mode : Nat
  /-- `CU,50`: "automatic motor enable" (motion commands enable both motors first); power-on default on -/
  autoEnable : Bool
  deriving DecidableEq, Repr

/-- board invariant ("any board" in the theorems means any board satisfying this) -/
structure Board.WF (b : Board) : Prop where
  len : b.vars.length = 32
  byte : ∀ x ∈ b.vars, x < 256
  mode : 1 ≤ b.mode ∧ b.mode ≤ 5

instance (b : Board) : Decidable b.WF :=
  if h : b.vars.length = 32 ∧ (∀ x ∈ b.vars, x < 256) ∧ (1 ≤ b.mode ∧ b.mode ≤ 5) then
    isTrue ⟨h.1, h.2.1, h.2.2⟩
  else isFalse (fun w => h ⟨w.len, w.byte, w.mode⟩)

/-- a parsed request line -/
inductive Request where
  | sl (v : Int) (i : Int)          -- `SL,VariableValue[,VariableIndex]`  (index defaults to 0)
  | ql (i : Int)                    -- `QL[,VariableIndex]`
  | st (name : Str)                 -- `ST,NewNickname`
  | qt                              -- `QT`
  | em (e1 : Int) (e2 : Option Int) -- `EM,Enable1[,Enable2]`
  | qe                              -- `QE`
  | cu (p : Int) (v : Int)          -- `CU,ParamNumber,ParamValue`
  | bad                             -- anything else
  deriving DecidableEq, Repr

inductive Reply where
  | ack (name : Str)                -- future syntax: the command name alone, e.g. `SL`
  | data (name : Str) (payload : Str)   -- `QL,4`
  | paramErr                        -- `!8 Err: Parameter outside allowed range`
  | unknownErr                      -- `!3 Err: Unknown command` (also: wrong number/kind of parameters)
  | silent                          -- no reply at all (request line not terminated by CR)
  deriving DecidableEq, Repr

def cSL : Str := ['S', 'L']
def cQL : Str := ['Q', 'L']
def cST : Str := ['S', 'T']
def cQT : Str := ['Q', 'T']
def cEM : Str := ['E', 'M']
def cQE : Str := ['Q', 'E']
def cCU : Str := ['C', 'U']

/-- request line (without the terminating CR) → request. Fields are separated by commas, numbers are
decimal; the nickname is everything after `ST,`. -/
def parseReq (line : Str) : Request :=
  if startsWith line (cST ++ [',']) then .st (line.drop 3)
  else
    match splitOn ',' line with
    | [] => .bad
    | name :: args =>
      let nums := args.map parseInt?
      if name = cSL then
        match nums with
        | [some v] => .sl v 0
        | [some v, some i] => .sl v i
        | _ => .bad
      else if name = cQL then
        match nums with
        | [] => .ql 0
        | [some i] => .ql i
        | _ => .bad
      else if name = cST then
        match args with
        | [] => .st []
        | _ => .bad
      else if name = cQT then
        match args with
        | [] => .qt
        | _ => .bad
      else if name = cEM then
        match nums with
        | [some a] => .em a none
        | [some a, some b] => .em a (some b)
        | _ => .bad
      else if name = cQE then
        match args with
        | [] => .qe
        | _ => .bad
      else if name = cCU then
        match nums with
        | [some p, some v] => .cu p v
        | _ => .bad
      else .bad

/-- `QE` encoding of the global mode: "1: enabled, full step; 2: 1/2 step; 4: 1/4; 8: 1/8; 16: 1/16" -/
def qeCode (mode : Nat) : Nat :=
  if mode = 1 then 16 else if mode = 2 then 8 else if mode = 3 then 4 else if mode = 4 then 2 else 1

/-- the optional second `EM` parameter is absent or 0..5 -/
def em2Ok : Option Int → Bool
  | none => true
  | some e => decide (0 ≤ e ∧ e ≤ 5)

/-- The documented command semantics.

* `SL,v,i` — "VariableValue 0..255, VariableIndex 0..31": stores `v` in slot `i`; anything outside those
  ranges is a parameter error and changes nothing.
* `QL,i` — replies `QL,<value of slot i>` in decimal.
* `ST,name` — "0 to 16 characters": stores the name tag; longer is a parameter error.
* `QT` — replies `QT,<name>`.
* `EM,e1,e2` — each 0..5. `e1 = 0` disables motor 1; `e1 = 1..5` enables motor 1 **and sets the global
  step mode to `e1`**. `e2 = 0` disables motor 2; `e2 = 1..5` enables motor 2 "at whatever the previously
  set global step mode is" — the *value* of a non-zero `e2` is ignored (this is the quirk that
  `motors_enable` works around). `e2` omitted: motor 2 unchanged.
* `QE` — replies `QE,s1,s2`, `s = 0` for a disabled motor, else the `qeCode` of the global mode.
* `CU,50,v` — automatic motor enable off (`0`) / on (non-zero); no effect on `EM`/`QE` state.
  Other `CU` parameters are acknowledged and have no effect on the state modelled here. -/
def boardStep (b : Board) : Request → Board × Reply
  | .sl v i =>
    if 0 ≤ v ∧ v ≤ 255 ∧ 0 ≤ i ∧ i ≤ 31 ∧ i.toNat < b.vars.length then
      ({ b with vars := b.vars.set i.toNat v.toNat }, .ack cSL)
    else (b, .paramErr)
  | .ql i =>
    if 0 ≤ i ∧ i ≤ 31 then
      match b.vars[i.toNat]? with
      | some x => (b, .data cQL (showNat x))
      | none => (b, .paramErr)
    else (b, .paramErr)
  | .st name =>
    if name.length ≤ 16 then ({ b with name := name }, .ack cST) else (b, .paramErr)
  | .qt => (b, .data cQT b.name)
  | .em e1 e2 =>
    if 0 ≤ e1 ∧ e1 ≤ 5 ∧ em2Ok e2 = true then
      ({ b with
          mode := if e1 = 0 then b.mode else e1.toNat
          m1 := decide (e1 ≠ 0)
          m2 := match e2 with | none => b.m2 | some e => decide (e ≠ 0) }, .ack cEM)
    else (b, .paramErr)
  | .qe =>
    let s1 := if b.m1 then qeCode b.mode else 0
    let s2 := if b.m2 then qeCode b.mode else 0
    (b, .data cQE (showNat s1 ++ [','] ++ showNat s2))
  | .cu p v =>
    if p = 50 then ({ b with autoEnable := decide (v ≠ 0) }, .ack cCU) else (b, .ack cCU)
  | .bad => (b, .unknownErr)

def errParam : Str := "!8 Err: Parameter outside allowed range".toList
def errUnknown : Str := "!3 Err: Unknown command".toList

/-- reply line as sent by the board ("future" syntax: terminated by a single LF) -/
def renderReply : Reply → Str
  | .ack name => name ++ ['\n']
  | .data name payload => name ++ [','] ++ payload ++ ['\n']
  | .paramErr => errParam ++ ['\n']
  | .unknownErr => errUnknown ++ ['\n']
  | .silent => []

/-- the bytes of one `write` arrive at the board: a request is a line terminated by CR -/
def boardRecv (b : Board) (bytes : Str) : Board × Str :=
  match bytes.reverse with
  | c :: rest =>
    if c = '\r' then
      let (b', r) := boardStep b (parseReq rest.reverse)
      (b', renderReply r)
    else (b, [])
  | [] => (b, [])

/-! ## The EBB3 object over a conforming link -/

inductive Exc where
  | indexError | valueError | keyError | typeError | overflowError
  deriving DecidableEq, Repr

/-- Python values returned by the methods -/
inductive Val where
  | none
  | bool (b : Bool)
  | int (z : Int)
  | pair (a b : Int)
  deriving DecidableEq, Repr

/-- the fields of the `EBB3` object that the methods read or write -/
structure Py where
  /-- `self.port is not None` -/
  connected : Bool
  /-- `self.err is not None` (the message text is the subject of C04/C05, not of C16) -/
  err : Bool
  /-- `self.name` -/
  name : Option Str
  deriving DecidableEq, Repr

structure World where
  py : Py
  board : Board
  /-- request lines written so far, newest first (observed by the correspondence run only) -/
  sent : List Str
  deriving DecidableEq, Repr

/-- `record_error`: only "is there an error" is tracked -/
def recordError (p : Py) : Py := { p with err := true }

/-- the `cmd_name` computation shared by `command` and `query` (`cmd[1]` on `''` raises IndexError) -/
def cmdName : Str → Except Exc Str
  | [] => .error .indexError
  | [c] => .ok [c]
  | c :: d :: _ => if d = ',' then .ok [c] else .ok [c, d]

/-- one write + the reads that follow, on a conforming link: `(cmd + '\r')` reaches the board; the first
`readline().decode('ascii').strip()` sees the board's reply line; if that is empty the 25 retries all
time out (`b''`), so the response stays `''`. -/
def exchange (b : Board) (cmd : Str) : Board × Str :=
  let (b', reply) := boardRecv b (cmd ++ ['\r'])
  (b', strip reply)

def sErr : Str := ['E', 'r', 'r', ':']

/-- `EBB3.command(cmd)` (cmd a `str`) -/
def command (w : World) (cmd : Str) : Except Exc (Bool × World) :=
  if !w.py.connected || w.py.err then .ok (false, w) else do
    let cmd := strip cmd
    let name ← cmdName cmd
    let (b', response) := exchange w.board cmd
    let py1 := if !startsWith response name then recordError w.py else w.py
    let py2 := if isInfix sErr response then recordError py1 else py1
    .ok (!py2.err, { py := py2, board := b', sent := cmd :: w.sent })

/-- `EBB3.query(qry)`: the reply minus the name minus one comma; `None` on error -/
def query (w : World) (qry : Str) : Except Exc (Option Str × World) :=
  if !w.py.connected || w.py.err then .ok (none, w) else do
    let qry := strip qry
    let name ← cmdName qry
    let (b', response) := exchange w.board qry
    let w' : World := { py := w.py, board := b', sent := qry :: w.sent }
    if isInfix sErr response || !startsWith response name then
      .ok (none, { w' with py := recordError w.py })
    else
      let rest := response.drop name.length
      -- `if len(response) > header_len: if response[header_len] == ',': header_len += 1`
      let payload := match rest with
        | c :: tl => if c = ',' then tl else rest
        | [] => rest
      .ok (some payload, w')

/-- Python `int(s)` for the strings a board can send: surrounding whitespace, optional `-`, digits.
(CPython also accepts `+`, `_` separators and non-ASCII digits; a conforming board never sends those.) -/
def pyInt (s : Str) : Except Exc Int :=
  match parseInt? (strip s) with
  | some z => .ok z
  | none => .error .valueError

/-- `var_write(value, index)` -/
def var_write (w : World) (value index : Int) : Except Exc (Val × World) :=
  if !w.py.connected || w.py.err then .ok (.bool false, w) else do
    let (_, w1) ← command w (cSL ++ [','] ++ showInt value ++ [','] ++ showInt index)
    if w1.py.err then .ok (.bool false, w1) else .ok (.bool true, w1)

/-- `var_read(index)` -/
def var_read (w : World) (index : Int) : Except Exc (Val × World) :=
  if !w.py.connected || w.py.err then .ok (.none, w) else do
    let (value, w1) ← query w (cQL ++ [','] ++ showInt index)
    if w1.py.err then .ok (.none, w1) else
      match value with
      | some s => do let z ← pyInt s; .ok (.int z, w1)
      | none => .error .typeError        -- `int(None)`; unreachable: `query` returns None only with `err` set

/-- `value.to_bytes(4, byteorder='big', signed=True)` — library semantics: two's complement, most
significant byte first; OverflowError outside `-2^31 .. 2^31-1` -/
def toBytes4 (v : Int) : Except Exc (List Int) :=
  if -2147483648 ≤ v ∧ v < 2147483648 then
    let u := if v < 0 then v + 4294967296 else v
    .ok [u / 16777216 % 256, u / 65536 % 256, u / 256 % 256, u % 256]
  else .error .overflowError

/-- `for byte in bytes_sequence: self.var_write(byte, start_index); start_index += 1` -/
def writeLoop (w : World) : List Int → Int → Except Exc World
  | [], _ => .ok w
  | byte :: rest, idx => do
    let (_, w1) ← var_write w byte idx
    writeLoop w1 rest (idx + 1)

/-- `var_write_int32(value, start_index)` -/
def var_write_int32 (w : World) (value start : Int) : Except Exc (Val × World) :=
  if !w.py.connected || w.py.err then .ok (.bool false, w) else do
    let bytes ← toBytes4 value
    let w1 ← writeLoop w bytes start
    if w1.py.err then .ok (.bool false, w1) else .ok (.bool true, w1)

/-- `for byte_offset in range(0,4): value = self.var_read(start_index + byte_offset); … append(value)` -/
def readLoop (w : World) (start : Int) : List Int → Except Exc (List Val × World)
  | [] => .ok ([], w)
  | off :: rest => do
    let (v, w1) ← var_read w (start + off)
    let (vs, w2) ← readLoop w1 start rest
    .ok (v :: vs, w2)

/-- `int.from_bytes(list, byteorder='big', signed=True)` on a list of four Python values -/
def fromBytes4 (vals : List Val) : Except Exc Int :=
  match vals with
  | [.int a, .int b, .int c, .int d] =>
    if 0 ≤ a ∧ a ≤ 255 ∧ 0 ≤ b ∧ b ≤ 255 ∧ 0 ≤ c ∧ c ≤ 255 ∧ 0 ≤ d ∧ d ≤ 255 then
      let u := a * 16777216 + b * 65536 + c * 256 + d
      .ok (if u ≥ 2147483648 then u - 4294967296 else u)
    else .error .valueError
  | _ => .error .typeError

/-- `var_read_int32(start_index)` (returns `False`, not `None`, when the guard fails — as the code does) -/
def var_read_int32 (w : World) (start : Int) : Except Exc (Val × World) :=
  if !w.py.connected || w.py.err then .ok (.bool false, w) else do
    let (vals, w1) ← readLoop w start [0, 1, 2, 3]
    if w1.py.err then .ok (.none, w1) else do
      let z ← fromBytes4 vals
      .ok (.int z, w1)

/-- `query_nickname()` -/
def query_nickname (w : World) : Except Exc (Val × World) :=
  if !w.py.connected || w.py.err then .ok (.none, w) else do
    let (raw, w1) ← query w cQT
    match raw with
    | some r =>
      if !isspace r then .ok (.none, { w1 with py := { w1.py with name := some (strip r) } })
      else .ok (.none, w1)
    | none => .ok (.none, w1)

/-- `write_nickname(nickname)` for a `str` argument (`None` returns False before anything else):
`nickname = nickname.strip()`; `if not self.command('ST,' + nickname): return False`; `self.name = nickname`;
`return True`. The raw argument is only trimmed — never cut — so its length is irrelevant; the board's 16-character
limit applies to the trimmed name. The `try/except` around `command` never fires (`command` catches the I/O
exceptions itself). -/
def write_nickname (w : World) (nickname : Str) : Except Exc (Val × World) :=
  if !w.py.connected || w.py.err then .ok (.bool false, w) else do
    let nickname := strip nickname
    let (ok, w1) ← command w (cST ++ [','] ++ nickname)
    if !ok then .ok (.bool false, w1)
    else .ok (.bool true, { w1 with py := { w1.py with name := some nickname } })

/-- `res_map = {16: 1, 8: 2, 4: 3, 2: 4, 1: 5, 0: 0}`; a missing key raises KeyError -/
def resMap (z : Int) : Except Exc Int :=
  if z = 16 then .ok 1 else if z = 8 then .ok 2 else if z = 4 then .ok 3 else if z = 2 then .ok 4
  else if z = 1 then .ok 5 else if z = 0 then .ok 0 else .error .keyError

/-- `l[i]` -/
def index (l : List Str) (i : Nat) : Except Exc Str :=
  match l[i]? with
  | some s => .ok s
  | none => .error .indexError

/-- `motors_query_enabled()`; the pair is `(res_1, res_2)`, `none` is Python `None` -/
def motors_query_enabled (w : World) : Except Exc (Option (Int × Int) × World) :=
  if !w.py.connected || w.py.err then .ok (none, w) else do
    let (response, w1) ← query w cQE
    match response with
    | none => .ok (none, w1)
    | some r => do
      let resList := splitOn ',' r
      let a ← resMap (← pyInt (← index resList 0))
      let b ← resMap (← pyInt (← index resList 1))
      .ok (some (a, b), w1)

/-- `max(int(r), 0)` then `min(·, 5)` (for an `int` argument `int(r)` is `r`) -/
def clamp05 (r : Int) : Int := min (max r 0) 5

def cmdEM (a b : Int) : Str := cEM ++ [','] ++ showInt a ++ [','] ++ showInt b
def cmdCU50 : Str := cCU ++ [',', '5', '0', ',', '0']

/-- `old_res = 0`; `if motor_res[1] != 0: old_res = motor_res[1]`; `if motor_res[0] != 0: old_res = motor_res[0]` -/
def oldRes (a b : Int) : Int :=
  let o : Int := 0
  let o := if b ≠ 0 then b else o
  if a ≠ 0 then a else o

/-- `motors_enable(resolution_1, resolution_2)` for `int` arguments -/
def motors_enable (w : World) (r1 r2 : Int) : Except Exc (Val × World) :=
  if !w.py.connected || w.py.err then .ok (.none, w) else do
    let r1 := clamp05 r1
    let r2 := clamp05 r2
    -- enabling only one motor: `CU,50,0`
    let w ← if r1 ≠ r2 ∧ r1 * r2 = 0 then (do let (_, w') ← command w cmdCU50; pure w') else pure w
    if r1 = 0 ∧ r2 ≠ 0 then do
      let (motorRes, w) ← motors_query_enabled w
      match motorRes with
      | none => .ok (.none, w)
      | some (a, b) => do
        let w ← if oldRes a b ≠ r2 then (do let (_, w') ← command w (cmdEM r2 r2); pure w') else pure w
        let (_, w) ← command w (cmdEM r1 r2)
        .ok (.none, w)
    else do
      let (_, w) ← command w (cmdEM r1 r2)
      .ok (.none, w)

/-! ## Operations and the specification (written from the property statement) -/

inductive Op where
  | varWrite (v i : Int)
  | varRead (i : Int)
  | writeInt32 (v i : Int)
  | readInt32 (i : Int)
  | motorsEnable (r1 r2 : Int)
  | motorsQuery
  | writeNick (s : Str)
  | queryNick
  deriving DecidableEq, Repr

/-- run one modelled method; `motors_query_enabled`'s tuple becomes `Val.pair` -/
def runOp (w : World) : Op → Except Exc (Val × World)
  | .varWrite v i => var_write w v i
  | .varRead i => var_read w i
  | .writeInt32 v i => var_write_int32 w v i
  | .readInt32 i => var_read_int32 w i
  | .motorsEnable r1 r2 => motors_enable w r1 r2
  | .motorsQuery => do
    let (r, w') ← motors_query_enabled w
    match r with
    | some (a, b) => .ok (.pair a b, w')
    | none => .ok (.none, w')
  | .writeNick s => write_nickname w s
  | .queryNick => query_nickname w

def runOps (w : World) : List Op → Except Exc (List Val × World)
  | [] => .ok ([], w)
  | op :: rest => do
    let (v, w1) ← runOp w op
    let (vs, w2) ← runOps w1 rest
    .ok (v :: vs, w2)

namespace Spec

/-- byte `k` (0 = most significant) of the 32-bit two's-complement representation of `v` -/
def beByte (v : Int) (k : Nat) : Nat := ((v % 4294967296) / (256 ^ (3 - k)) % 256).toNat

/-- the signed value of four big-endian bytes -/
def decode32 (a b c d : Nat) : Int :=
  let u : Int := a * 16777216 + b * 65536 + c * 256 + d
  if u < 2147483648 then u else u - 4294967296

def clamp (r : Int) : Int := if r < 0 then 0 else if r > 5 then 5 else r

/-- characters a nickname may consist of: printable ASCII (space .. `~`) -/
def printable (c : Char) : Bool := 32 ≤ c.toNat && c.toNat ≤ 126

/-- the abstract effect of each operation on the board and the value it must return, for in-domain
arguments; `pyName` is the `name` attribute of the Python object -/
structure Abs where
  board : Board
  pyName : Option Str
  deriving DecidableEq, Repr

def setBytes (vars : List Nat) (i : Nat) (v : Int) : List Nat :=
  (((vars.set i (beByte v 0)).set (i + 1) (beByte v 1)).set (i + 2) (beByte v 2)).set (i + 3) (beByte v 3)

def step (s : Abs) : Op → Val × Abs
  | .varWrite v i => (.bool true, { s with board := { s.board with vars := s.board.vars.set i.toNat v.toNat } })
  | .varRead i => (.int (s.board.vars.getD i.toNat 0), s)
  | .writeInt32 v i => (.bool true, { s with board := { s.board with vars := setBytes s.board.vars i.toNat v } })
  | .readInt32 i =>
    let n := i.toNat
    (.int (decode32 (s.board.vars.getD n 0) (s.board.vars.getD (n + 1) 0) (s.board.vars.getD (n + 2) 0)
      (s.board.vars.getD (n + 3) 0)), s)
  | .motorsEnable r1 r2 =>
    let c1 := clamp r1
    let c2 := clamp r2
    let mode := if c1 ≠ 0 then c1.toNat else if c2 ≠ 0 then c2.toNat else s.board.mode
    let auto := if c1 ≠ c2 ∧ (c1 = 0 ∨ c2 = 0) then false else s.board.autoEnable
    (.none, { s with board := { s.board with m1 := decide (c1 ≠ 0), m2 := decide (c2 ≠ 0), mode := mode,
                                             autoEnable := auto } })
  | .motorsQuery =>
    (.pair (if s.board.m1 then s.board.mode else 0) (if s.board.m2 then s.board.mode else 0), s)
  | .writeNick n => (.bool true, { board := { s.board with name := strip n }, pyName := some (strip n) })
  | .queryNick => (.none, { s with pyName := some (strip s.board.name) })

def steps (s : Abs) : List Op → List Val × Abs
  | [] => ([], s)
  | op :: rest =>
    let (v, s1) := step s op
    let (vs, s2) := steps s1 rest
    (v :: vs, s2)

end Spec

/-! ## Domain predicates of the theorems (part of what the reader accepts as "valid") -/

/-- the EBB3 object is connected and has no recorded error -/
def Ready (w : World) : Prop := w.py.connected = true ∧ w.py.err = false

/-- a signed 32-bit value -/
def IsInt32 (v : Int) : Prop := -2147483648 ≤ v ∧ v < 2147483648

/-- nicknames inside the property. Every clause is about the TRIMMED name `strip s`; the raw argument may carry any
amount of leading/trailing whitespace (raw length is unconstrained). After trimming at most 16 characters (the documented `ST` limit — the code
has no guard of its own, a longer name is rejected by the board and recorded as an error), printable ASCII
(an interior control character would split the request line), and not containing the protocol's error marker
`Err:` (`query` treats any reply containing it as an error report). -/
def NickOK (s : Str) : Prop :=
  (strip s).length ≤ 16 ∧ (∀ c ∈ strip s, Spec.printable c = true) ∧ isInfix sErr (strip s) = false

/-- arguments inside the property's quantifier -/
def OpOK : Op → Prop
  | .varWrite v i => (0 ≤ v ∧ v ≤ 255) ∧ (0 ≤ i ∧ i ≤ 31)
  | .varRead i => 0 ≤ i ∧ i ≤ 31
  | .writeInt32 v i => IsInt32 v ∧ (0 ≤ i ∧ i ≤ 28)
  | .readInt32 i => 0 ≤ i ∧ i ≤ 28
  | .motorsEnable _ _ => True
  | .motorsQuery => True
  | .writeNick s => NickOK s
  | .queryNick => True

/-- the operation does not write any of the slots `n .. n+3` -/
def Disjoint (n : Nat) : Op → Prop
  | .varWrite _ j => j.toNat < n ∨ n + 4 ≤ j.toNat
  | .writeInt32 _ j => j.toNat + 4 ≤ n ∨ n + 4 ≤ j.toNat
  | _ => True

/-- invariant of operation sequences: object ready, board well formed, stored name free of the error marker
`Err:` (the stored name may have leading/trailing blanks: it need not have been written through this layer) -/
def Inv (w : World) : Prop :=
  Ready w ∧ w.board.WF ∧ isInfix sErr w.board.name = false

end C16
end Plotink
