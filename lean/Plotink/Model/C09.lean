/-! # C09 — vertex reduction (`plot_utils.supersample`, `points_in_tolerance`, `max_dist_from_n_points`)

Executable model over `Rat`, mirroring the control flow of the Python code, and the independent Spec
(`atSq`: squared distance to the point of parameter `t` on the segment; `Reduced`: "only interior runs
are deleted, each deleted vertex closer than the tolerance to the segment joining the survivors around it").
Core Lean only.

Vertices are values of an arbitrary type `α` with a coordinate projection `xy : α → Pt`, so that two
vertices with equal coordinates are still different *objects* (the harness tags them with their index). -/
namespace Plotink
namespace C09

abbrev Pt := Rat × Rat

/-! ## Spec side -/

/-- squared distance from `p` to the point of parameter `t` of the segment `a b` -/
def atSq (a b p : Pt) (t : Rat) : Rat :=
  (a.1 + t * (b.1 - a.1) - p.1) * (a.1 + t * (b.1 - a.1) - p.1)
    + (a.2 + t * (b.2 - a.2) - p.2) * (a.2 + t * (b.2 - a.2) - p.2)

/-- squared distance from `p` to the segment `a b` by the three-region formula (before the start,
past the end, perpendicular) — what `ffgeom.Segment.distanceToPoint` computes, squared -/
def distSq (a b p : Pt) : Rat :=
  let dx := b.1 - a.1; let dy := b.2 - a.2
  let wx := p.1 - a.1; let wy := p.2 - a.2
  let c1 := wx * dx + wy * dy
  if c1 ≤ 0 then wx * wx + wy * wy
  else
    let c2 := dx * dx + dy * dy
    if c2 ≤ c1 then (p.1 - b.1) * (p.1 - b.1) + (p.2 - b.2) * (p.2 - b.2)
    else (wx * dy - dx * wy) * (wx * dy - dx * wy) / c2

/-- all vertices except the first and the last (`input_points[1:-1]`) -/
def interior {β : Type} (l : List β) : List β := (l.drop 1).dropLast

/-- Python `max` of a list of rationals (the value; 0 stands in for the `ValueError` on an empty list,
which cannot occur behind the `len >= 3` assertion) -/
def maxList : List Rat → Rat
  | [] => 0
  | [x] => x
  | x :: y :: ys => if maxList (y :: ys) ≤ x then x else maxList (y :: ys)

/-- `max_dist_from_n_points`, squared (the Python function takes `math.sqrt`/divides by the length at the
very end of each of the three regions); `none` = the `assert len(input_points) >= 3` -/
def maxDistSq (pts : List Pt) : Option Rat :=
  if pts.length < 3 then none else
  match pts.head?, pts.getLast? with
  | some a, some b => some (maxList ((interior pts).map (distSq a b)))
  | _, _ => none

/-! ## `points_in_tolerance`, branch by branch -/

/-- body of the `for point in input_points[1:-1]` loop: `true` = falls through / `continue`,
`false` = `return False` -/
def ptOk (s0 s1 : Pt) (tolSq : Rat) (p : Pt) : Bool :=
  let sdx := s1.1 - s0.1
  let sdy := s1.2 - s0.2
  let dxp := p.1 - s0.1
  let dyp := p.2 - s0.2
  let temp1 := dxp * sdx + dyp * sdy
  if temp1 ≤ 0 then
    if dxp * dxp + dyp * dyp ≥ tolSq then false else true
  else
    let segLenSq := sdx * sdx + sdy * sdy
    if segLenSq ≤ temp1 then
      if (p.1 - s1.1) * (p.1 - s1.1) + (p.2 - s1.2) * (p.2 - s1.2) ≥ tolSq then false else true
    else if segLenSq = 0 then false
    else
      let temp := dxp * sdy - sdx * dyp
      if temp * temp / segLenSq ≥ tolSq then false else true

/-- `points_in_tolerance(input_points, tolerance)`; `none` = AssertionError (fewer than 3 points) -/
def pointsInTol (pts : List Pt) (tol : Rat) : Option Bool :=
  if pts.length < 3 then none else
  match pts.head?, pts.getLast? with
  | some s0, some s1 => some ((interior pts).all (ptOk s0 s1 (tol * tol)))
  | _, _ => none

/-! ## `supersample` -/
section
variable {α : Type} (xy : α → Pt)

/-- Python slice `v[i:j]` for `0 ≤ i`, `0 ≤ j` -/
def slice (v : List α) (i j : Nat) : List α := (v.take j).drop i

/-- the inner `while points_in_tolerance(vertices[start:end+1], tol) and end < len(vertices): end += 1`;
returns the final `end_index`; `none` = out of fuel or AssertionError -/
def extend (v : List α) (tol : Rat) (start : Nat) : Nat → Nat → Option Nat
  | 0, _ => none
  | fuel + 1, e =>
    match pointsInTol ((slice v start (e + 1)).map xy) tol with
    | none => none
    | some ok => if ok && decide (e < v.length) then extend v tol start fuel (e + 1) else some e

/-- the outer `while start_index < len(vertices) - 2` loop with the slice deletion
`vertices[start+1:end-1] = []` -/
def outer (tol : Rat) : Nat → List α → Nat → Option (List α)
  | 0, _, _ => none
  | fuel + 1, v, start =>
    if start + 2 < v.length then
      match extend xy v tol start v.length (start + 2) with
      | none => none
      | some e => outer tol fuel (v.take (start + 1) ++ v.drop (e - 1)) (start + 1)
    else some v

/-- `supersample(vertices, tolerance)`: the list after the call. Fuel: `len(vertices)` for both loops. -/
def supersample (v : List α) (tol : Rat) : Option (List α) :=
  if v.length ≤ 2 then some v
  else if tol ≤ 0 then some v
  else outer xy tol v.length v 0

/-- Spec of the result: `Reduced tolSq v r` — `r` arises from `v` by deleting runs of vertices strictly
between two survivors `a`, `b`, every deleted vertex at squared distance `< tolSq` from the segment `a b`;
the first and the last vertex survive. -/
inductive Reduced (tolSq : Rat) : List α → List α → Prop
  | nil : Reduced tolSq [] []
  | single (a : α) : Reduced tolSq [a] [a]
  | step (a : α) (run : List α) (b : α) (rest r : List α) :
      (∀ p ∈ run, distSq (xy a) (xy b) (xy p) < tolSq) →
      Reduced tolSq (b :: rest) r → Reduced tolSq (a :: (run ++ b :: rest)) (a :: r)

end
end C09
end Plotink
