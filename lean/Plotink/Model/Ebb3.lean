/-!
# Model of the EBB3 serial layer  (`plotink/ebb3_serial.py` class `EBB3`,
# `plotink/ebb3_motion.py` class `EBBMotionWrap`)

One model serves C04 (error latch) and C05 (framing / fault handling); it is written so that
C06 / C15 / C16 can run the same methods against other devices.  Core Lean only (this file is
linked into the native driver).  Layers, bottom up:

1. **Strings** – the `str` operations the code uses, on `List Char` (ASCII alphabet).
2. **Python values / exceptions / `int()`** – `Val`, `PyExc`, `pyInt`.
3. **Versions** – release-only model of `packaging.version.parse` and its order.
4. **Devices** – a port is a `Device σ` (what one `write`, one `readline`, one
   `reset_input_buffer` do to a device state `σ`).  `Script` (two outcome lists, DESIGN §5d) is the
   instance used by C04/C05; `Proofs/C05Conf.lean` has a responsive device (`confDev`); a board
   state machine (C16) or an all-acknowledging device (C06) are further instances of the same
   interface.
5. **Object state and the monad `M`** – `St` (the attributes of the Python object), `World`
   (object state + device state + log of everything handed to `port.write` + number of `readline`
   calls), `M σ α = World σ → Except PyExc α × World σ` (an exception keeps the world: the Python
   object survives a raised exception with whatever was mutated before it).
6. **Primitives** – `recordError`, `command`, `query`, `queryStatusByte`, raw writes, mirroring
   the code statement by statement.  Exceptions the Python code raises on its own
   (`None.split`, `int('x')`, `''[1]`, `None >= Version`, `to_bytes` overflow …) are explicit
   `PyExc` values; `SerialException` raised by the port is a *device outcome* and is handled where
   (and only where) the code has a matching `except`.
7. **Methods** – every public method of both classes as a `Prog` = *guard* (the
   `if (self.port is None) or (self.err is not None): return <failure value>` first statement,
   present exactly where the Python method has it) + *body*.
8. **The table** – `Method` (38 public methods), `Call` (a method with its arguments),
   `guardOf : Method → Option Val` (the finite table of guards and failure values),
   `prog : Call → Prog`, `run`, `runCall`, `runCalls` (histories).
9. **Spec** – list-combinator specification of one request/reply exchange (`Spec.firstReply`,
   `Spec.readsUsed`, `Spec.commandError`, `Spec.queryError`, `Spec.queryValue`), independent of the
   read loop of section 6.

The model mirrors the source *with the four C05 repairs of `fixes/c05_*.diff` applied*
(`query_voltage`, `query_current`: `None` check before `.split`; `query_statusbyte`: return after
an unexpected reply; `write_nickname`: result of `command` decides) — marked "(repair …)" below.

Parameters (`Params`) are the constants read from the source by `translator/extract_params.py`
into `Gen/Params.lean` (`Model/Ebb3Params.lean : srcParams`): retry limits, the names whose I/O
errors are ignored, the pause chunk, the minimum firmware version, the default voltage threshold.

Helper methods modelled only as far as needed (they never touch the port): `find_first` (the
result of the `comports()` scan is an argument of the call; C19 models the scan), `parse_version` /
`min_version` (release-only versions `N(.N)*`; anything else is `invalidVersion`), `connect`
(port search result and whether `serial.Serial()` opens are arguments of the call);
`record_error`, `disconnect` are modelled fully.

Proof toolkit (`Proofs/C04Latch.lean`, `C05Frame.lean`, `C05Decode.lean`, `C05Methods.lean`,
`C05FailRep.lean`): symbolic execution lemmas (`bind_ok`, `bind_inv`), the guard lemma
(`run_blocked`), compositional predicates (`KeepsErr`, `NoIO`, `Inert`, `RetNone`), execution of
`command` / `query` on scripts (`commandCore_script`, `queryCore_script`), and the generic
`total_of_sound`: for any device and invariant for which the four port primitives are sound,
every request method returns and keeps the invariant.
-/

namespace Plotink
namespace Ebb3

abbrev Str := List Char

/-! ## 1. Strings -/

/-- Python `str.isspace` / `strip()` whitespace, restricted to ASCII:
TAB LF VT FF CR, FS GS RS US, SPACE. -/
def isSpace (c : Char) : Bool :=
  let n := c.toNat
  n == 32 || (9 ≤ n && n ≤ 13) || (28 ≤ n && n ≤ 31)

def lstrip (s : Str) : Str := s.dropWhile isSpace

def rstrip : Str → Str
  | [] => []
  | c :: cs =>
    match rstrip cs with
    | [] => if isSpace c then [] else [c]
    | r => c :: r

/-- `str.strip()` -/
def strip (s : Str) : Str := rstrip (lstrip s)

/-- `s.startswith(p)` -/
def startsWith (p s : Str) : Bool := p.isPrefixOf s

/-- `p in s` for strings -/
def hasSub (p : Str) : Str → Bool
  | [] => p.isEmpty
  | c :: cs => p.isPrefixOf (c :: cs) || hasSub p cs

/-- `'Err:' in s` -/
def hasErr (s : Str) : Bool := hasSub "Err:".toList s

/-- `s.lower()` (ASCII) -/
def lower (s : Str) : Str := s.map Char.toLower

/-- `s.isspace()` -/
def isSpaceStr (s : Str) : Bool := !s.isEmpty && s.all isSpace

/-- `s.split(sep)` for a one-character separator -/
def splitOn (sep : Char) : Str → List Str
  | [] => [[]]
  | c :: cs =>
    if c = sep then [] :: splitOn sep cs
    else match splitOn sep cs with
      | [] => [[c]]
      | h :: t => (c :: h) :: t

/-- `s.split(sep, 1)`: `(s, none)` when `sep` does not occur -/
def split1 (sep : Char) : Str → Str × Option Str
  | [] => ([], none)
  | c :: cs =>
    if c = sep then ([], some cs)
    else let (a, b) := split1 sep cs; (c :: a, b)

/-- `s.split(p, 1)` for a string separator: the parts around the first occurrence -/
def splitSub1 (p : Str) : Str → Option (Str × Str)
  | [] => if p.isEmpty then some ([], []) else none
  | c :: cs =>
    if p.isPrefixOf (c :: cs) then some ([], (c :: cs).drop p.length)
    else (splitSub1 p cs).map (fun ab => (c :: ab.1, ab.2))

/-- f-string rendering of an `int` -/
def showInt (z : Int) : Str := (toString z).toList

/-! ## 2. Python values, exceptions, `int()` -/

/-- exceptions that can escape a method (`serialException` only where the code has no handler) -/
inductive PyExc where
  | attributeError | valueError | indexError | typeError | keyError | overflowError
  | invalidVersion | serialException
  deriving DecidableEq, Repr

/-- the values methods take and return -/
inductive Val where
  | none
  | bool (b : Bool)
  | int (z : Int)
  | str (s : Str)
  | pair (a b : Val)
  deriving DecidableEq, Repr

/-- value of one digit in `base` -/
def digitVal (base : Nat) (c : Char) : Option Nat :=
  let n := c.toNat
  let v : Option Nat :=
    if 48 ≤ n ∧ n ≤ 57 then some (n - 48)
    else if 97 ≤ n ∧ n ≤ 122 then some (n - 87)
    else if 65 ≤ n ∧ n ≤ 90 then some (n - 55)
    else Option.none
  match v with
  | some d => if d < base then some d else Option.none
  | Option.none => Option.none

/-- where we are in a digit string: nothing yet, right after a `0x` prefix, after a digit, after `_` -/
inductive DigSt where
  | start | pfx | digit | under
  deriving DecidableEq, Repr

/-- digits with single underscores between them (`1_000`) -/
def parseDigits (base : Nat) : Str → Nat → DigSt → Option Nat
  | [], acc, .digit => some acc
  | [], _, _ => Option.none
  | c :: cs, acc, s =>
    if c.toNat = 95 then
      (match s with
       | .digit => parseDigits base cs acc .under
       | .pfx => parseDigits base cs acc .under
       | _ => Option.none)
    else match digitVal base c with
      | some d => parseDigits base cs (acc * base + d) .digit
      | Option.none => Option.none

def has0x (s : Str) : Bool :=
  match s with
  | a :: b :: _ => a.toNat == 48 && (b.toNat == 120 || b.toNat == 88)
  | _ => false

/-- whitespace skipped by `int()` on ASCII text (C `isspace`): TAB LF VT FF CR SPACE — unlike
`str.strip()` it does *not* include FS GS RS US -/
def isSpaceC (c : Char) : Bool :=
  c.toNat == 32 || (9 ≤ c.toNat && c.toNat ≤ 13)

def rstripC : Str → Str
  | [] => []
  | c :: cs =>
    match rstripC cs with
    | [] => if isSpaceC c then [] else [c]
    | r => c :: r

/-- `int(s, base)` for `base ∈ {10, 16}` on ASCII text; `none` = `ValueError` -/
def pyInt (base : Nat) (s : Str) : Option Int :=
  let t := rstripC (s.dropWhile isSpaceC)
  let (neg, u) : Bool × Str :=
    match t with
    | c :: r => if c.toNat = 45 then (true, r) else if c.toNat = 43 then (false, r) else (false, t)
    | [] => (false, [])
  let v := if base = 16 ∧ has0x u then parseDigits 16 (u.drop 2) 0 .pfx
           else parseDigits base u 0 .start
  v.map (fun n => if neg then -(n : Int) else (n : Int))

/-! ## 3. Versions (release-only model of `packaging.version`) -/

def parseNat? (s : Str) : Option Nat :=
  if s.isEmpty then Option.none
  else s.foldl (fun acc c => match acc with
    | some a => if 48 ≤ c.toNat ∧ c.toNat ≤ 57 then some (a * 10 + (c.toNat - 48)) else Option.none
    | Option.none => Option.none) (some 0)

/-- `packaging.version.parse` restricted to release-only versions `N(.N)*` (surrounding whitespace
allowed); everything else is `none` (= `InvalidVersion`; pre/post/dev/local/epoch forms are outside
the model and logged as out of domain by the harness). -/
def parseRelease (s : Str) : Option (List Nat) :=
  ((splitOn '.' (strip s)).map parseNat?).foldr
    (fun o acc => match o, acc with | some a, some l => some (a :: l) | _, _ => Option.none) (some [])

def dropTrailingZeros (l : List Nat) : List Nat :=
  (l.reverse.dropWhile (· == 0)).reverse

def lexLe : List Nat → List Nat → Bool
  | [], _ => true
  | _ :: _, [] => false
  | a :: as, b :: bs => a < b || (a == b && lexLe as bs)

/-- `Version(a) <= Version(b)` on releases: trailing zeros are insignificant -/
def vle (a b : List Nat) : Bool := lexLe (dropTrailingZeros a) (dropTrailingZeros b)

/-! ## 4. Devices -/

/-- outcome of one `readline()`: the raw line (ASCII, `[]` = timeout) or `SerialException` -/
inductive ReadEv where
  | line (s : Str)
  | raise
  deriving DecidableEq, Repr

/-- a read that times out -/
abbrev ReadEv.empty : ReadEv := .line []

/-- outcome of one `write()` -/
inductive WriteEv where
  | ok
  | raise
  deriving DecidableEq, Repr

/-- what the port does, as a state machine over a device state `σ` -/
structure Device (σ : Type) where
  /-- `port.write(text)` -/
  write : σ → Str → WriteEv × σ
  /-- `port.readline()` -/
  read : σ → ReadEv × σ
  /-- `port.reset_input_buffer()` -/
  reset : σ → σ

/-- DESIGN §5d: a port as two outcome lists; an exhausted list means silence resp. ok. -/
structure Script where
  reads : List ReadEv
  writes : List WriteEv
  deriving DecidableEq, Repr

def scriptDev : Device Script where
  write sc _ := match sc.writes with
    | [] => (.ok, sc)
    | w :: ws => (w, { sc with writes := ws })
  read sc := match sc.reads with
    | [] => (.line [], sc)
    | r :: rs => (r, { sc with reads := rs })
  reset sc := sc

/-! ## 5. Object state, world, monad -/

/-- attributes of the Python object -/
structure St where
  /-- `self.port is not None` -/
  port : Bool
  /-- `self.err` -/
  err : Option Str
  /-- `self.version` -/
  version : Option Str
  /-- `self.version_parsed` (release segments) -/
  versionParsed : Option (List Nat)
  /-- `self.name` -/
  name : Option Str
  /-- `self.caller` -/
  caller : Option Str
  /-- `self.port_name` -/
  portName : Option Str
  deriving DecidableEq, Repr

/-- a fresh object (`__init__`) -/
def St.init : St := ⟨false, .none, .none, .none, .none, .none, .none⟩

/-- the guard condition `(self.port is None) or (self.err is not None)` -/
def St.blocked (st : St) : Bool := !st.port || st.err.isSome

structure World (σ : Type) where
  st : St
  dev : σ
  /-- every text handed to `port.write`, oldest first (including writes that raised) -/
  out : List Str
  /-- number of `readline()` calls so far -/
  nreads : Nat

/-- computations: an exception keeps the world -/
def M (σ α : Type) := World σ → Except PyExc α × World σ

namespace M
variable {σ α β : Type}

@[inline] def ret (a : α) : M σ α := fun w => (.ok a, w)

@[inline] def andThen (x : M σ α) (f : α → M σ β) : M σ β := fun w =>
  match x w with
  | (.ok a, w') => f a w'
  | (.error e, w') => (.error e, w')

instance : Monad (M σ) where
  pure := M.ret
  bind := M.andThen

def raise (e : PyExc) : M σ α := fun w => (.error e, w)

def getSt : M σ St := fun w => (.ok w.st, w)

def modifySt (f : St → St) : M σ Unit := fun w => (.ok (), { w with st := f w.st })

/-- lift `Option` with the exception to raise on `none` -/
def ofOption (e : PyExc) : Option α → M σ α
  | some a => ret a
  | .none => raise e

end M

open M

variable {σ : Type}

/-- parameters read from the source -/
structure Params where
  /-- `n_retry_count < retryCmd` in `command` -/
  retryCmd : Nat
  /-- `n_retry_count < retryQry` in `query` -/
  retryQry : Nat
  /-- lower-cased names whose I/O exceptions are ignored in `command` -/
  ignoreCmd : List Str
  /-- the same list in `query` -/
  ignoreQry : List Str
  /-- `pause_time > pauseCmp` in `timed_pause` -/
  pauseCmp : Int
  /-- `time_delay = pauseChunk` -/
  pauseChunk : Int
  /-- `MIN_VERSION_STRING` -/
  minVersion : Str
  /-- default `threshold` of `query_voltage` -/
  vThreshold : Int

/-! ## 6. Primitives

Style rule for everything below (it keeps the terms that proofs see small): inside a `do` block a
conditional is either the *last* statement or a parenthesised term with both branches, so that the
`do` elaborator never has to introduce a join point for the code after it. -/

/-- `record_error`: first error wins -/
def recordErrorSt (msg : Str) (st : St) : St :=
  if st.err.isNone then { st with err := some msg } else st

def recordError (msg : Str) : M σ Unit := modifySt (recordErrorSt msg)

/-- `self.port.write(text)`; `true` = ok, `false` = raised `SerialException` -/
def portWrite (D : Device σ) (text : Str) : M σ Bool := fun w =>
  let r := D.write w.dev text
  (.ok (r.1 == .ok), { w with dev := r.2, out := w.out ++ [text] })

/-- `self.port.readline().decode('ascii')`; `none` = raised `SerialException` -/
def portRead (D : Device σ) : M σ (Option Str) := fun w =>
  let r := D.read w.dev
  (.ok (match r.1 with | .line s => some s | .raise => Option.none),
   { w with dev := r.2, nreads := w.nreads + 1 })

def portReset (D : Device σ) : M σ Unit := fun w => (.ok (), { w with dev := D.reset w.dev })

/-- `self.disconnect()` (an exception in `close()` is swallowed by the code) -/
def disconnectM : M σ Unit := modifySt (fun st => { st with port := false })

/-- The one- or two-letter name of a trimmed request (`IndexError` on the empty string). -/
def cmdName (cmd : Str) : Except PyExc Str :=
  match cmd with
  | [] => .error .indexError
  | [c] => .ok [c]
  | c :: d :: _ => if d = ',' then .ok [c] else .ok [c, d]

/-- the read loop: at most `n` reads, stop at the first non-empty (after `strip`) line;
`some []` = all empty; `none` = a read raised -/
def readLoop (D : Device σ) : Nat → M σ (Option Str)
  | 0 => pure (some [])
  | n + 1 => do
    let r ← portRead D
    match r with
    | .none => pure .none
    | some l => if (strip l).isEmpty then readLoop D n else pure (some (strip l))

/-- the guard as a combinator: in a blocked state return `fv` and touch nothing -/
def guardM (fv : Val) (body : M σ Val) : M σ Val := fun w =>
  if w.st.blocked then (.ok fv, w) else body w

/-- a method: optional guard (with the value returned when blocked) and body -/
structure Prog (σ : Type) where
  guard : Option Val
  body : M σ Val

def Prog.run (p : Prog σ) : M σ Val :=
  match p.guard with
  | some fv => guardM fv p.body
  | .none => p.body

namespace Msg
def cmdUnexpected (cmd resp : Str) : Str :=
  "\nUnexpected response from EBB.    Command: ".toList ++ cmd ++ "\n    Response: ".toList ++ resp
def cmdTimeout (cmd : Str) : Str := "EBB Serial Timeout after command: ".toList ++ cmd
def cmdUsb (cmd : Str) : Str := "USB communication error after command: ".toList ++ cmd
def cmdErr (cmd resp : Str) : Str :=
  "Error reported by EBB.\n    Command: ".toList ++ cmd ++ "\n    Response: ".toList ++ resp
def qryUnexpected (q resp : Str) : Str :=
  "\nUnexpected response from EBB.    Query: ".toList ++ q ++ "\n    Response: ".toList ++ resp
def qryTimeout (q : Str) : Str := "EBB Serial Timeout after query: ".toList ++ q
def qryUsb (q : Str) : Str := "USB communication error after query: ".toList ++ q
def qgUnexpected (resp : Str) : Str :=
  "\nUnexpected response from EBB.    Response to QG query: ".toList ++ resp
def qgTimeout : Str := "EBB Serial Timeout while reading status byte.".toList
def qgUsb : Str := "USB communication error after status byte query".toList
def qgErr (resp : Str) : Str :=
  "Error reported by EBB.\n    Query: QG\n    Response: ".toList ++ resp
def noDevice : Str := "Unable to locate device on USB".toList
def noNamed (n : Str) : Str := "Unable to locate ".toList ++ n ++ " on USB".toList
def usbTest (pn : Str) : Str := "Error testing USB connection (port name: ".toList ++ pn ++ ")".toList
def connectFail (pn : Str) : Str := "Failed to connect via USB (port name: ".toList ++ pn ++ ")".toList
def oldFirmware (ver minv : Str) : Str :=
  "Firmware version (".toList ++ ver ++ ") not supported.\nFirmware ".toList ++ minv ++
  " or newer is required.\nVisit https://bantam.tools/ndfw to update your firmware.".toList
end Msg

/-- `write(text + '\r')` then the bounded read loop (`1 + retry` reads at most);
`none` = some I/O call raised (`response` is then `''`) -/
def exchange (D : Device σ) (retry : Nat) (text : Str) : M σ (Option Str) := do
  let okw ← portWrite D (text ++ ['\r'])
  if okw then readLoop D (retry + 1) else pure .none

/-- what `command` records for the outcome of the exchange -/
def commandJudge (P : Params) (cmd name : Str) : Option Str → M σ Unit
  | .none =>
    -- `except (serial.SerialException, IOError, RuntimeError, OSError)`; `response == ''`
    if P.ignoreCmd.contains (lower name) then pure () else recordError (Msg.cmdUsb cmd)
  | some resp => do
    (if startsWith name resp then pure ()
     else if resp.isEmpty then recordError (Msg.cmdTimeout cmd)
     else recordError (Msg.cmdUnexpected cmd resp))
    (if hasErr resp then recordError (Msg.cmdErr cmd resp) else pure ())

/-- `return bool(self.err is None)` -/
def errIsNone : M σ Val := do
  let st ← getSt
  pure (.bool st.err.isNone)

/-- `command` on the trimmed text -/
def commandCore (P : Params) (D : Device σ) (cmd : Str) : M σ Val :=
  match cmdName cmd with
  | .error e => raise e
  | .ok name => do
    let r ← exchange D P.retryCmd cmd
    commandJudge P cmd name r
    errIsNone

/-- body of `EBB3.command` after its guard -/
def commandBody (P : Params) (D : Device σ) : Option Str → M σ Val
  | .none => pure (.bool false)
  | some cmd0 => commandCore P D (strip cmd0)

/-- `EBB3.command` -/
def commandP (P : Params) (D : Device σ) (cmd : Option Str) : Prog σ :=
  ⟨some (.bool false), commandBody P D cmd⟩

/-- remove one leading comma, if there is one -/
def dropComma : Str → Str
  | c :: rest => if c = ',' then rest else c :: rest
  | [] => []

/-- strip the name and one separating comma off an accepted reply -/
def stripHeader (name resp : Str) : Str :=
  match resp.drop name.length with
  | c :: rest => if c = ',' then rest else c :: rest
  | [] => []

/-- validation of the (possibly empty) response of a query -/
def queryJudge (q name resp : Str) : M σ Val :=
  if hasErr resp || !(startsWith name resp) then do
    (if resp.isEmpty then recordError (Msg.qryTimeout q) else recordError (Msg.qryUnexpected q resp))
    pure .none
  else pure (.str (stripHeader name resp))

/-- `query` on the trimmed text -/
def queryCore (P : Params) (D : Device σ) (q : Str) : M σ Val :=
  match cmdName q with
  | .error e => raise e
  | .ok name => do
    let r ← exchange D P.retryQry q
    match r with
    | some resp => queryJudge q name resp
    | .none =>
      -- an ignored exception falls through with `response == ''`
      if P.ignoreQry.contains (lower name) then queryJudge q name []
      else do
        recordError (Msg.qryUsb q)
        pure .none

/-- body of `EBB3.query` after its guard; returns `none` or `str` -/
def queryBody (P : Params) (D : Device σ) : Option Str → M σ Val
  | .none => pure .none
  | some q0 => queryCore P D (strip q0)

/-- `EBB3.query` -/
def queryP (P : Params) (D : Device σ) (qry : Option Str) : Prog σ :=
  ⟨some .none, queryBody P D qry⟩

/-- validation of the reply to `QG` (with repair `c05_statusbyte_wrong_reply`: a reply that does not
begin with `QG` is a failure and `None` is returned) -/
def qgJudge (resp : Str) : M σ Val :=
  if !(startsWith "QG".toList resp) then do
    (if resp.isEmpty then recordError Msg.qgTimeout else recordError (Msg.qgUnexpected resp))
    pure .none
  else if hasErr resp then do
    recordError (Msg.qgErr resp)
    pure .none
  else match pyInt 16 (resp.drop 3) with
    | some v => pure (.int v)
    | .none => pure .none          -- `except (TypeError, ValueError): return None`

def qgUsbFail : M σ Val := do
  recordError Msg.qgUsb
  pure .none

/-- body of `EBB3.query_statusbyte` (one read, no retry) -/
def queryStatusByteBody (D : Device σ) : M σ Val := do
  let okw ← portWrite D "QG\r".toList
  if okw then do
    let r ← portRead D
    match r with
    | .none => qgUsbFail
    | some l => qgJudge (strip l)
  else qgUsbFail

def queryStatusByteP (D : Device σ) : Prog σ := ⟨some .none, queryStatusByteBody D⟩

/-- body of `reboot` / `bootload`: raw write, close on success, I/O error ⇒ `False` (not recorded) -/
def rawCloseBody (D : Device σ) (text : Str) : M σ Val := do
  let okw ← portWrite D text
  if okw then do
    disconnectM
    pure (.bool true)
  else pure (.bool false)

def rebootP (D : Device σ) : Prog σ := ⟨some (.bool false), rawCloseBody D "RB\r".toList⟩
def bootloadP (D : Device σ) : Prog σ := ⟨some (.bool false), rawCloseBody D "BL\r".toList⟩

/-! ## 7. Methods of `EBB3` -/

def setName (n : Str) : M σ Unit := modifySt (fun st => { st with name := some n })

/-- `query_nickname` -/
def queryNicknameP (P : Params) (D : Device σ) : Prog σ :=
  ⟨some .none, do
    let r ← (queryP P D (some "QT".toList)).run
    match r with
    | .str raw => do
      (if isSpaceStr raw then pure () else setName (strip raw))
      pure .none
    | _ => pure .none⟩

/-- `write_nickname` (with repair `c05_write_nickname_result`: the result of `command` decides) -/
def writeNicknameP (P : Params) (D : Device σ) (nick : Option Str) : Prog σ :=
  ⟨some (.bool false),
    match nick with
    | .none => pure (.bool false)
    | some n0 => do
      let r ← (commandP P D (some ("ST,".toList ++ strip n0))).run
      match r with
      | .bool true => do
        setName (strip n0)
        pure (.bool true)
      | _ => pure (.bool false)⟩

/-- `var_write` -/
def varWriteP (P : Params) (D : Device σ) (value index : Int) : Prog σ :=
  ⟨some (.bool false), do
    let _ ← (commandP P D (some ("SL,".toList ++ showInt value ++ [','] ++ showInt index))).run
    errIsNone⟩

/-- `int(value)` where `value` is what `query` returned -/
def intOfVal : Val → M σ Val
  | .str s => match pyInt 10 s with
    | some z => pure (.int z)
    | .none => raise .valueError
  | .int z => pure (.int z)
  | .bool b => pure (.int (if b then 1 else 0))
  | _ => raise .typeError

/-- `var_read` -/
def varReadP (P : Params) (D : Device σ) (index : Int) : Prog σ :=
  ⟨some .none, do
    let v ← (queryP P D (some ("QL,".toList ++ showInt index))).run
    let st ← getSt
    if st.err.isSome then pure .none else intOfVal v⟩

/-- `value.to_bytes(4, byteorder='big', signed=True)` -/
def toBytes4 (v : Int) : Except PyExc (Int × Int × Int × Int) :=
  if -2147483648 ≤ v ∧ v < 2147483648 then
    .ok ((v % 4294967296) / 16777216, ((v % 4294967296) / 65536) % 256,
         ((v % 4294967296) / 256) % 256, (v % 4294967296) % 256)
  else .error .overflowError

/-- `int.from_bytes(list, byteorder='big', signed=True)` for a list of four values -/
def fromBytes4 (a b c d : Val) : Except PyExc Int :=
  match a, b, c, d with
  | .int a, .int b, .int c, .int d =>
    if (0 ≤ a ∧ a < 256) ∧ (0 ≤ b ∧ b < 256) ∧ (0 ≤ c ∧ c < 256) ∧ (0 ≤ d ∧ d < 256) then
      .ok (if a * 16777216 + b * 65536 + c * 256 + d < 2147483648
           then a * 16777216 + b * 65536 + c * 256 + d
           else a * 16777216 + b * 65536 + c * 256 + d - 4294967296)
    else .error .valueError
  | _, _, _, _ => .error .typeError

/-- `var_write_int32` -/
def varWriteInt32P (P : Params) (D : Device σ) (value start : Int) : Prog σ :=
  ⟨some (.bool false),
    match toBytes4 value with
    | .error e => raise e
    | .ok (b3, b2, b1, b0) => do
      let _ ← (varWriteP P D b3 start).run
      let _ ← (varWriteP P D b2 (start + 1)).run
      let _ ← (varWriteP P D b1 (start + 2)).run
      let _ ← (varWriteP P D b0 (start + 3)).run
      errIsNone⟩

/-- `var_read_int32` (blocked value is `False`, as in the code) -/
def varReadInt32P (P : Params) (D : Device σ) (start : Int) : Prog σ :=
  ⟨some (.bool false), do
    let a ← (varReadP P D start).run
    let b ← (varReadP P D (start + 1)).run
    let c ← (varReadP P D (start + 2)).run
    let d ← (varReadP P D (start + 3)).run
    let st ← getSt
    if st.err.isSome then pure .none
    else match fromBytes4 a b c d with
      | .ok z => pure (.int z)
      | .error e => raise e⟩

/-- `record_error` (public, never touches the port) -/
def recordErrorP (msg : Str) : Prog σ := ⟨.none, do recordError msg; pure .none⟩

/-- `disconnect` -/
def disconnectP : Prog σ := ⟨.none, do disconnectM; pure .none⟩

/-- `find_first`: `found` is what the scan of `comports()` yields (C19 models the scan itself) -/
def findFirstP (found : Option Str) : Prog σ :=
  ⟨.none, do modifySt (fun st => { st with portName := found }); pure .none⟩

/-- `self.version = v; self.version_parsed = parse(v)` -/
def setVersion (v : Str) : M σ Unit := do
  modifySt (fun st => { st with version := some v })
  match parseRelease v with
  | some r => modifySt (fun st => { st with versionParsed := some r })
  | .none => raise .invalidVersion

/-- `parse_version` -/
def parseVersionM (s : Str) : M σ Unit :=
  match splitSub1 "Firmware Version ".toList s with
  | .none => pure ()
  | some ab => setVersion (strip ab.2)

def parseVersionP (s : Str) : Prog σ := ⟨.none, do parseVersionM s; pure .none⟩

/-- `min_version`: `None` for an unparsable argument, `TypeError` when no version is known -/
def minVersionM (vs : Str) : M σ Val :=
  match parseRelease vs with
  | .none => pure .none
  | some want => do
    let st ← getSt
    match st.versionParsed with
    | .none => raise .typeError
    | some have_ => pure (.bool (vle want have_))

def minVersionP (vs : Str) : Prog σ := ⟨.none, minVersionM vs⟩

/-- one identification probe of `connect`: `none` = I/O raised, `some s` = stripped reply -/
def probe (D : Device σ) : M σ (Option Str) := do
  let okw ← portWrite D "v\r".toList
  if okw then do
    let r ← portRead D
    match r with
    | some l => pure (some (strip l))
    | .none => pure .none
  else pure .none

def isEbbReply (s : Str) : Bool := !s.isEmpty && hasSub "EBB".toList s

/-- `_get_port_name`: `found` = result of `find_first` / `find_named(given)` -/
def getPortName (given found : Option Str) : M σ Unit := do
  modifySt (fun st => { st with portName := found })
  if found.isNone then
    recordError (match given with | .none => Msg.noDevice | some g => Msg.noNamed g)
  else pure ()

/-- the `except serial.SerialException` arm of `connect` -/
def probeFail (pn : Str) : M σ (Option Str) := do
  recordError (Msg.usbTest pn)
  disconnectM
  pure .none

/-- the `try` block of `connect`: open, reset, one or two probes; `some s` = verified reply -/
def identify (D : Device σ) (pn : Str) (openOk : Bool) : M σ (Option Str) :=
  if openOk then do
    modifySt (fun st => { st with port := true })
    portReset D
    let p1 ← probe D
    match p1 with
    | .none => probeFail pn
    | some s1 =>
      if isEbbReply s1 then pure (some s1)
      else do
        let p2 ← probe D
        match p2 with
        | .none => probeFail pn
        | some s2 => if isEbbReply s2 then pure (some s2) else pure .none
  else probeFail pn

def setCaller (caller : Option Str) : M σ Unit :=
  if caller.isSome then modifySt (fun st => { st with caller := caller }) else pure ()

/-- tail of `connect`: future-syntax mode (not inside a `try`: a `SerialException` escapes),
nickname, caller -/
def enterFuture (P : Params) (D : Device σ) (caller : Option Str) : M σ Val := do
  let okw ← portWrite D "CU,10,1\r".toList
  if okw then do
    let r ← portRead D
    match r with
    | .none => raise .serialException
    | some _ => do
      portReset D
      let _ ← (queryNicknameP P D).run
      setCaller caller
      pure (.bool true)
  else raise .serialException

/-- version check of `connect` -/
def checkVersion (P : Params) (D : Device σ) (caller : Option Str) (sv : Str) : M σ Val := do
  parseVersionM sv
  let mv ← minVersionM P.minVersion
  if mv = .bool true then enterFuture P D caller
  else do
    let st ← getSt
    recordError (Msg.oldFirmware (st.version.getD "None".toList) P.minVersion)
    pure (.bool false)

def connectFailed (pn : Str) : M σ Val := do
  recordError (Msg.connectFail pn)
  disconnectM
  pure (.bool false)

/-- `connect(given_name, caller)`.  Environment of the call, supplied as extra arguments:
`found` = result of the port search (`find_first` / `find_named(given_name)`), `openOk` = whether
`serial.Serial(...)` opens. -/
def connectBody (P : Params) (D : Device σ) (given caller found : Option Str) (openOk : Bool) : M σ Val := do
  let st ← getSt
  if st.port then pure (.bool true)
  else do
    getPortName given found
    match found with
    | .none => pure (.bool false)
    | some pn => do
      let v ← identify D pn openOk
      match v with
      | .none => connectFailed pn
      | some sv => checkVersion P D caller sv

def connectP (P : Params) (D : Device σ) (given caller found : Option Str) (openOk : Bool) : Prog σ :=
  ⟨.none, connectBody P D given caller found openOk⟩

/-! ## 7b. Methods of `EBBMotionWrap` -/

/-- `self.command(text)` with the result dropped -/
def cmd_ (P : Params) (D : Device σ) (text : Str) : M σ Unit := do
  let _ ← (commandP P D (some text)).run
  pure ()

/-- a method whose body is one `command` with a computed text (guard, then `self.command(text)`) -/
def cmdP (P : Params) (D : Device σ) (text : Str) : Prog σ :=
  ⟨some .none, do cmd_ P D text; pure .none⟩

def commaInts (l : List Int) : Str :=
  match l with
  | [] => []
  | [a] => showInt a
  | a :: rest => showInt a ++ [','] ++ commaInts rest

/-- the durations of the `SM,<d>,0,0` commands of `timed_pause` (fuel = number of iterations) -/
def pauseChunks (P : Params) : Nat → Int → List Int
  | 0, _ => []
  | fuel + 1, t =>
    if t > 0 then
      (if t > P.pauseCmp then P.pauseChunk else max t 1) ::
        pauseChunks P fuel (t - (if t > P.pauseCmp then P.pauseChunk else max t 1))
    else []

def runCmds (P : Params) (D : Device σ) : List Str → M σ Unit
  | [] => pure ()
  | c :: cs => do cmd_ P D c; runCmds P D cs

def pauseText (d : Int) : Str := "SM,".toList ++ showInt d ++ ",0,0".toList

/-- `timed_pause`.  Fuel `|t| + 1` is enough whenever `pauseChunk ≥ 1` (each round subtracts ≥ 1). -/
def timedPauseP (P : Params) (D : Device σ) (t : Int) : Prog σ :=
  ⟨some .none, do
    runCmds P D ((pauseChunks P (t.toNat + 1) t).map pauseText)
    pure .none⟩

def xyMoveP (P : Params) (D : Device σ) (dx dy dur : Int) : Prog σ :=
  cmdP P D ("SM,".toList ++ commaInts [dur, dy, dx])

def absMoveText (rate : Int) : Option Int → Option Int → Str
  | some a, some b => "HM,".toList ++ commaInts [rate, a, b]
  | _, _ => "HM,".toList ++ showInt rate

def absMoveP (P : Params) (D : Device σ) (rate : Int) (p1 p2 : Option Int) : Prog σ :=
  cmdP P D (absMoveText rate p1 p2)

def motorsDisableP (P : Params) (D : Device σ) : Prog σ := cmdP P D "EM,0,0".toList

/-- decode table of `motors_query_enabled` (`KeyError` outside it) -/
def resMap (z : Int) : Option Int :=
  if z = 16 then some 1 else if z = 8 then some 2 else if z = 4 then some 3
  else if z = 2 then some 4 else if z = 1 then some 5 else if z = 0 then some 0
  else Option.none

/-- `res_map[int(l[0])], res_map[int(l[1])]` (evaluated left to right) -/
def qeDecode (l : List Str) : M σ Val := do
  let a ← ofOption .valueError (pyInt 10 (l.getD 0 []))      -- `split` never returns `[]`
  let ra ← ofOption .keyError (resMap a)
  match l with
  | _ :: s1 :: _ => do
    let b ← ofOption .valueError (pyInt 10 s1)
    let rb ← ofOption .keyError (resMap b)
    pure (.pair (.int ra) (.int rb))
  | _ => raise .indexError

/-- `motors_query_enabled` -/
def motorsQueryEnabledP (P : Params) (D : Device σ) : Prog σ :=
  ⟨some .none, do
    let r ← (queryP P D (some "QE".toList)).run
    match r with
    | .str resp => qeDecode (splitOn ',' resp)
    | _ => pure .none⟩

def clampRes (r : Int) : Int := min (max r 0) 5

def emText (x y : Int) : Str := "EM,".toList ++ commaInts [x, y]

/-- resolution in use according to `motors_query_enabled` -/
def oldRes (m0 m1 : Int) : Int := if m0 ≠ 0 then m0 else if m1 ≠ 0 then m1 else 0

/-- `motors_enable` after clamping -/
def motorsEnableCore (P : Params) (D : Device σ) (a b : Int) : M σ Val := do
  (if a ≠ b ∧ a * b = 0 then cmd_ P D "CU,50,0".toList else pure ())
  if a = 0 ∧ b ≠ 0 then do
    let mr ← (motorsQueryEnabledP P D).run
    match mr with
    | .pair (.int m0) (.int m1) => do
      (if oldRes m0 m1 ≠ b then cmd_ P D (emText b b) else pure ())
      cmd_ P D (emText a b)
      pure .none
    | _ => pure .none      -- `if motor_res is None: return`
  else do
    cmd_ P D (emText a b)
    pure .none

def motorsEnableP (P : Params) (D : Device σ) (r1 r2 : Int) : Prog σ :=
  ⟨some .none, motorsEnableCore P D (clampRes r1) (clampRes r2)⟩

/-- `int(l[0]), int(l[1])` -/
def int2 (l : List Str) : M σ Val := do
  let a ← ofOption .valueError (pyInt 10 (l.getD 0 []))
  match l with
  | _ :: s1 :: _ => do
    let b ← ofOption .valueError (pyInt 10 s1)
    pure (.pair (.int a) (.int b))
  | _ => raise .indexError

/-- `if self.err:` — an empty error string counts as no error there -/
def errTruthy (st : St) : Bool :=
  match st.err with
  | some e => !e.isEmpty
  | .none => false

/-- `query_steps` -/
def queryStepsP (P : Params) (D : Device σ) : Prog σ :=
  ⟨some .none, do
    let r ← (queryP P D (some "QS".toList)).run
    let st ← getSt
    if errTruthy st then pure .none
    else match r with
      | .str s => int2 (splitOn ',' (strip s))
      | _ => raise .attributeError⟩      -- `None.strip()`

def clearStepsP (P : Params) (D : Device σ) : Prog σ := cmdP P D "CS".toList
def clearAccumulatorsP (P : Params) (D : Device σ) : Prog σ := cmdP P D "T3,1,0,0,0,0,0,0,3".toList

/-- `if pin is not None:` — a supplied pin (0 included) is sent -/
def penText (updown delay : Int) : Option Int → Str
  | some p => "SP,".toList ++ commaInts [updown, delay, p]
  | .none => "SP,".toList ++ commaInts [updown, delay]

def penLowerP (P : Params) (D : Device σ) (delay : Int) (pin : Option Int) : Prog σ :=
  cmdP P D (penText 0 delay pin)
def penRaiseP (P : Params) (D : Device σ) (delay : Int) (pin : Option Int) : Prog σ :=
  cmdP P D (penText 1 delay pin)

def dioBConfigP (P : Params) (D : Device σ) (pin state dir : Int) : Prog σ :=
  ⟨some .none, do
    cmd_ P D ("PO,B,".toList ++ commaInts [pin, state])
    cmd_ P D ("PD,B,".toList ++ commaInts [pin, dir])
    pure .none⟩

def dioBSetP (P : Params) (D : Device σ) (pin state : Int) : Prog σ :=
  cmdP P D ("PO,B,".toList ++ commaInts [pin, state])

/-- `bool(int(response))` -/
def boolOfStr (s : Str) : M σ Val :=
  match pyInt 10 s with
  | some z => pure (.bool (z ≠ 0))
  | .none => raise .valueError

/-- `dio_b_read` -/
def dioBReadP (P : Params) (D : Device σ) (pin : Int) : Prog σ :=
  ⟨some .none, do
    let r ← (queryP P D (some ("PI,B,".toList ++ showInt pin))).run
    match r with
    | .str s => boolOfStr s
    | _ => pure .none⟩

def penPosDownP (P : Params) (D : Device σ) (v : Int) : Prog σ := cmdP P D ("SC,5,".toList ++ showInt v)
def penPosUpP (P : Params) (D : Device σ) (v : Int) : Prog σ := cmdP P D ("SC,4,".toList ++ showInt v)
def penRateDownP (P : Params) (D : Device σ) (v : Int) : Prog σ := cmdP P D ("SC,12,".toList ++ showInt v)
def penRateUpP (P : Params) (D : Device σ) (v : Int) : Prog σ := cmdP P D ("SC,11,".toList ++ showInt v)

def servoText (ms : Int) : Option Int → Str
  | .none => "SR,".toList ++ showInt ms
  | some s => "SR,".toList ++ commaInts [ms, s]

def servoTimeoutP (P : Params) (D : Device σ) (ms : Int) (state : Option Int) : Prog σ :=
  cmdP P D (servoText ms state)

/-- decode of `query_voltage` on `response.split(",", 1)` -/
def voltageDecode (th : Int) : Str × Option Str → M σ Val
  | (_, some s1) => match pyInt 10 s1 with
    | some v => pure (.bool (!(v < th)))
    | .none => raise .valueError
  | (_, .none) => pure .none

/-- `query_voltage(threshold=None)` (with repair `c05_query_voltage_none`: a failed query returns
`None` instead of dereferencing it) -/
def queryVoltageP (P : Params) (D : Device σ) (threshold : Option Int) : Prog σ :=
  ⟨some .none, do
    let r ← (queryP P D (some "QC".toList)).run
    match r with
    | .str s => voltageDecode (threshold.getD P.vThreshold) (split1 ',' s)
    | _ => pure .none⟩

/-- decode of `query_current` on `response.split(",", 1)` -/
def currentDecode : Str × Option Str → M σ Val
  | (s0, some s1) => do
    let a ← ofOption .valueError (pyInt 10 s0)
    let b ← ofOption .valueError (pyInt 10 s1)
    pure (.pair (.int a) (.int b))
  | (_, .none) => pure (.pair .none .none)

/-- `query_current` (with repair `c05_query_current_none`) -/
def queryCurrentP (P : Params) (D : Device σ) : Prog σ :=
  ⟨some (.pair .none .none), do
    let r ← (queryP P D (some "QC".toList)).run
    match r with
    | .str s => currentDecode (split1 ',' s)
    | _ => pure (.pair .none .none)⟩

/-! ## 8. The table -/

/-- the public methods of `EBB3` (17) and `EBBMotionWrap` (21), by their Python names -/
inductive Method where
  | find_first | reboot | bootload | record_error | parse_version | query_nickname
  | write_nickname | disconnect | connect | min_version | command | query | query_statusbyte
  | var_write | var_read | var_write_int32 | var_read_int32
  | timed_pause | xy_move | abs_move | motors_disable | motors_enable | motors_query_enabled
  | query_steps | clear_steps | clear_accumulators | pen_lower | pen_raise | dio_b_config
  | dio_b_set | dio_b_read | pen_pos_down | pen_pos_up | pen_rate_down | pen_rate_up
  | servo_timeout | query_voltage | query_current
  deriving DecidableEq, Repr

open Method in
def Method.all : List Method :=
  [find_first, reboot, bootload, record_error, parse_version, query_nickname,
   write_nickname, disconnect, connect, min_version, command, query, query_statusbyte,
   var_write, var_read, var_write_int32, var_read_int32,
   timed_pause, xy_move, abs_move, motors_disable, motors_enable, motors_query_enabled,
   query_steps, clear_steps, clear_accumulators, pen_lower, pen_raise, dio_b_config,
   dio_b_set, dio_b_read, pen_pos_down, pen_pos_up, pen_rate_down, pen_rate_up,
   servo_timeout, query_voltage, query_current]

/-- methods that never reach `port.write` / `readline` -/
def Method.isHelper : Method → Bool
  | .find_first | .record_error | .parse_version | .min_version => true
  | _ => false

/-- the 32 *request* methods: everything except the helpers and `connect` / `disconnect` -/
def Method.isRequest (m : Method) : Bool :=
  !m.isHelper && m != .connect && m != .disconnect

/-- THE GUARD TABLE: `some v` iff the Python method starts with
`if (self.port is None) or (self.err is not None): return v`. -/
def guardOf : Method → Option Val
  | .find_first | .record_error | .parse_version | .min_version | .connect | .disconnect => .none
  | .reboot | .bootload | .write_nickname | .command | .var_write | .var_write_int32
  | .var_read_int32 => some (.bool false)
  | .query_current => some (.pair .none .none)
  | _ => some .none

/-- a public method together with its arguments -/
inductive Call where
  | find_first (found : Option Str)
  | reboot | bootload
  | record_error (msg : Str)
  | parse_version (s : Str)
  | query_nickname
  | write_nickname (nick : Option Str)
  | disconnect
  | connect (given caller found : Option Str) (openOk : Bool)
  | min_version (vs : Str)
  | command (cmd : Option Str)
  | query (qry : Option Str)
  | query_statusbyte
  | var_write (value index : Int)
  | var_read (index : Int)
  | var_write_int32 (value start : Int)
  | var_read_int32 (start : Int)
  | timed_pause (t : Int)
  | xy_move (dx dy dur : Int)
  | abs_move (rate : Int) (p1 p2 : Option Int)
  | motors_disable
  | motors_enable (r1 r2 : Int)
  | motors_query_enabled
  | query_steps | clear_steps | clear_accumulators
  | pen_lower (delay : Int) (pin : Option Int)
  | pen_raise (delay : Int) (pin : Option Int)
  | dio_b_config (pin state dir : Int)
  | dio_b_set (pin state : Int)
  | dio_b_read (pin : Int)
  | pen_pos_down (v : Int) | pen_pos_up (v : Int) | pen_rate_down (v : Int) | pen_rate_up (v : Int)
  | servo_timeout (ms : Int) (state : Option Int)
  | query_voltage (threshold : Option Int)
  | query_current
  deriving DecidableEq, Repr

def Call.method : Call → Method
  | .find_first _ => .find_first | .reboot => .reboot | .bootload => .bootload
  | .record_error _ => .record_error | .parse_version _ => .parse_version
  | .query_nickname => .query_nickname | .write_nickname _ => .write_nickname
  | .disconnect => .disconnect | .connect .. => .connect | .min_version _ => .min_version
  | .command _ => .command | .query _ => .query | .query_statusbyte => .query_statusbyte
  | .var_write .. => .var_write | .var_read _ => .var_read
  | .var_write_int32 .. => .var_write_int32 | .var_read_int32 _ => .var_read_int32
  | .timed_pause _ => .timed_pause | .xy_move .. => .xy_move | .abs_move .. => .abs_move
  | .motors_disable => .motors_disable | .motors_enable .. => .motors_enable
  | .motors_query_enabled => .motors_query_enabled | .query_steps => .query_steps
  | .clear_steps => .clear_steps | .clear_accumulators => .clear_accumulators
  | .pen_lower .. => .pen_lower | .pen_raise .. => .pen_raise
  | .dio_b_config .. => .dio_b_config | .dio_b_set .. => .dio_b_set | .dio_b_read _ => .dio_b_read
  | .pen_pos_down _ => .pen_pos_down | .pen_pos_up _ => .pen_pos_up
  | .pen_rate_down _ => .pen_rate_down | .pen_rate_up _ => .pen_rate_up
  | .servo_timeout .. => .servo_timeout | .query_voltage _ => .query_voltage
  | .query_current => .query_current

/-- the program of each call -/
def prog (P : Params) (D : Device σ) : Call → Prog σ
  | .find_first f => findFirstP f
  | .reboot => rebootP D
  | .bootload => bootloadP D
  | .record_error m => recordErrorP m
  | .parse_version s => parseVersionP s
  | .query_nickname => queryNicknameP P D
  | .write_nickname n => writeNicknameP P D n
  | .disconnect => disconnectP
  | .connect g c f o => connectP P D g c f o
  | .min_version v => minVersionP v
  | .command c => commandP P D c
  | .query q => queryP P D q
  | .query_statusbyte => queryStatusByteP D
  | .var_write v i => varWriteP P D v i
  | .var_read i => varReadP P D i
  | .var_write_int32 v i => varWriteInt32P P D v i
  | .var_read_int32 i => varReadInt32P P D i
  | .timed_pause t => timedPauseP P D t
  | .xy_move dx dy dur => xyMoveP P D dx dy dur
  | .abs_move r a b => absMoveP P D r a b
  | .motors_disable => motorsDisableP P D
  | .motors_enable a b => motorsEnableP P D a b
  | .motors_query_enabled => motorsQueryEnabledP P D
  | .query_steps => queryStepsP P D
  | .clear_steps => clearStepsP P D
  | .clear_accumulators => clearAccumulatorsP P D
  | .pen_lower d p => penLowerP P D d p
  | .pen_raise d p => penRaiseP P D d p
  | .dio_b_config p s d => dioBConfigP P D p s d
  | .dio_b_set p s => dioBSetP P D p s
  | .dio_b_read p => dioBReadP P D p
  | .pen_pos_down v => penPosDownP P D v
  | .pen_pos_up v => penPosUpP P D v
  | .pen_rate_down v => penRateDownP P D v
  | .pen_rate_up v => penRateUpP P D v
  | .servo_timeout m s => servoTimeoutP P D m s
  | .query_voltage t => queryVoltageP P D t
  | .query_current => queryCurrentP P D

/-- run one call -/
def run (P : Params) (D : Device σ) (c : Call) : M σ Val := (prog P D c).run

/-- what one call did, as the harness observes it -/
structure Outcome (σ : Type) where
  /-- returned value or escaped exception -/
  res : Except PyExc Val
  /-- texts handed to `port.write` during this call -/
  written : List Str
  /-- number of `readline` calls during this call -/
  reads : Nat
  /-- world after the call -/
  world : World σ

def runCall (P : Params) (D : Device σ) (c : Call) (w : World σ) : Outcome σ :=
  let r := run P D c w
  ⟨r.1, r.2.out.drop w.out.length, r.2.nreads - w.nreads, r.2⟩

/-- a history: the calls in order, each starting in the world the previous one left
(also after an exception) -/
def runCalls (P : Params) (D : Device σ) : List Call → World σ → List (Outcome σ)
  | [], _ => []
  | c :: cs, w => let o := runCall P D c w; o :: runCalls P D cs o.world

/-- world after a history -/
def finalWorld (P : Params) (D : Device σ) : List Call → World σ → World σ
  | [], w => w
  | c :: cs, w => finalWorld P D cs (run P D c w).2

/-! ## 9. Specification of one request/reply exchange (independent of the loop in `readLoop`)

Written with list combinators over the read outcomes that follow a successful write:
the *window* is the first `n = 1 + retry` outcomes, the *reply* is the first outcome in the window
that is not a blank line. -/

namespace Spec

/-- a read that returns nothing but whitespace (a timeout is the empty line) -/
def isBlank : ReadEv → Bool
  | .line s => (strip s).isEmpty
  | .raise => false

/-- what a request sees -/
inductive Reply where
  | text (t : Str)     -- first non-blank line in the window, stripped
  | timeout            -- the whole window is blank (an exhausted script is silent)
  | ioError            -- a read raised before any non-blank line
  deriving DecidableEq, Repr

/-- a non-blank outcome as a reply -/
def replyOfEv : ReadEv → Reply
  | .line s => .text (strip s)
  | .raise => .ioError

def firstReply (n : Nat) (reads : List ReadEv) : Reply :=
  match ((reads.take n).dropWhile isBlank).head? with
  | Option.none => .timeout
  | some ev => replyOfEv ev

/-- number of `readline` calls: the blank prefix of the window plus the reply, or the whole
window (`n` calls, also beyond the end of the script) when there is no reply -/
def readsUsed (n : Nat) (reads : List ReadEv) : Nat :=
  if ((reads.take n).takeWhile isBlank).length < (reads.take n).length
  then ((reads.take n).takeWhile isBlank).length + 1 else n

/-- a reply is accepted when it begins with the request's name and carries no `Err:` -/
def accepted (name : Str) : Reply → Bool
  | .text t => startsWith name t && !hasErr t
  | _ => false

/-- the error `command` records (`none` = success), given the outcome of the write and the reads -/
def commandError (P : Params) (cmd name : Str) (wo : WriteEv) (reads : List ReadEv) : Option Str :=
  let usb := if P.ignoreCmd.contains (lower name) then Option.none else some (Msg.cmdUsb cmd)
  match wo with
  | .raise => usb
  | .ok =>
    match firstReply (P.retryCmd + 1) reads with
    | .ioError => usb
    | .timeout => some (Msg.cmdTimeout cmd)
    | .text t =>
      if !startsWith name t then some (Msg.cmdUnexpected cmd t)
      else if hasErr t then some (Msg.cmdErr cmd t)
      else Option.none

/-- the error `query` records (`none` = success) -/
def queryError (P : Params) (q name : Str) (wo : WriteEv) (reads : List ReadEv) : Option Str :=
  let usb := if P.ignoreQry.contains (lower name) then some (Msg.qryTimeout q) else some (Msg.qryUsb q)
  match wo with
  | .raise => usb
  | .ok =>
    match firstReply (P.retryQry + 1) reads with
    | .ioError => usb
    | .timeout => some (Msg.qryTimeout q)
    | .text t =>
      if hasErr t || !startsWith name t then some (Msg.qryUnexpected q t) else Option.none

/-- the value `query` returns: the accepted reply without its header, else `None` -/
def queryValue (P : Params) (q name : Str) (wo : WriteEv) (reads : List ReadEv) : Val :=
  match queryError P q name wo reads, firstReply (P.retryQry + 1) reads with
  | Option.none, .text t => .str (stripHeader name t)
  | _, _ => .none

/-- first write outcome of a script -/
def firstWrite (sc : Script) : WriteEv := sc.writes.head?.getD .ok

end Spec

end Ebb3
end Plotink
