/-! # C19 — model of port discovery (`ebb_serial.py` legacy layer, `ebb3_serial.py` EBB3 layer)

Core Lean only.  A Python `str` (ASCII) is a `List Char`; an enumerated port is the triple
`(device, description, hwid)` the code reads as `port[0]`, `port[1]`, `port[2]`.
Each function mirrors the control flow of the Python function named in its doc comment. -/
namespace Plotink
namespace C19

abbrev Str := List Char

structure Port where
  dev : Str
  desc : Str
  hwid : Str
deriving DecidableEq, Repr

/-! ## string primitives -/

/-- `str.lower()` on ASCII text -/
def lowerC (c : Char) : Char :=
  if 65 ≤ c.toNat ∧ c.toNat ≤ 90 then Char.ofNat (c.toNat + 32) else c

def lower (s : Str) : Str := s.map lowerC

/-- `n in h` -/
def isInfixB (n : Str) : Str → Bool
  | [] => n.isPrefixOf []
  | c :: t => n.isPrefixOf (c :: t) || isInfixB n t

/-- `h.find(n)`: index of the first occurrence (`none` = Python's `-1`) -/
def findIdx (n : Str) : Str → Option Nat
  | [] => if n.isPrefixOf [] then some 0 else none
  | c :: t => if n.isPrefixOf (c :: t) then some 0 else (findIdx n t).map (· + 1)

/-- `h.find(n, start)` for `start ≤ len(h)` -/
def findFrom (n h : Str) (start : Nat) : Option Nat := (findIdx n (h.drop start)).map (· + start)

/-- `h[i:j]` where `j` is a result of `find` (`none` = `-1`, i.e. "up to the last character") -/
def sliceTo (h : Str) (i : Nat) (j : Option Nat) : Str :=
  match j with
  | some j => (h.take j).drop i
  | none => (h.take (h.length - 1)).drop i

/-! ## constants -/
def ebbName : Str := "EiBotBoard".toList
def vidpid : Str := "USB VID:PID=04D8:FD92".toList
def serK : Str := "SER=".toList
def snrK : Str := "SNR=".toList
def locatK : Str := " LOCAT".toList

/-- `port[1].startswith("EiBotBoard")` -/
def descMatch (p : Port) : Bool := ebbName.isPrefixOf p.desc
/-- `port[2].startswith("USB VID:PID=04D8:FD92")` -/
def idMatch (p : Port) : Bool := vidpid.isPrefixOf p.hwid

/-- one `for port in com_ports_list: if test: ebb_port = port[0]; break` pass -/
def firstBy (f : Port → Bool) : List Port → Option Str
  | [] => none
  | p :: ps => if f p then some p.dev else firstBy f ps

/-- the filtering loop shared by `listEBBports` / `list_ebb_ports` -/
def listLoop : List Port → List Port
  | [] => []
  | p :: ps =>
    let has := if descMatch p then true else if idMatch p then true else false
    if has then p :: listLoop ps else listLoop ps

/-- `p_2[index1:index2]` of the `SER=… LOCAT` branch (`-1 + 4 = 3` when `find` fails) -/
def serSlice (h : Str) : Str :=
  let index1 := match findIdx serK h with
    | some i => i + 4
    | none => 3
  sliceTo h index1 (findFrom locatK h index1)

/-- first naming step: the text after `"EiBotBoard,"` in the description -/
def descName (p : Port) : Option Str :=
  if descMatch p then
    let t := p.desc.drop 11
    if t ≠ [] then some t else none
  else none

/-- second naming step: `SER=XXXX LOCAT` pattern -/
def serName (p : Port) : Option Str :=
  if isInfixB serK p.hwid && isInfixB locatK p.hwid then
    let t := serSlice p.hwid
    if t.length < 3 then none else some t
  else none

/-- third naming step (legacy only): `…SNR=XXXX` pattern -/
def snrName (p : Port) : Option Str :=
  if isInfixB snrK p.hwid then
    let index1 := match findIdx snrK p.hwid with
      | some i => i + 4
      | none => 3
    let t := p.hwid.drop index1
    if t.length < 3 then none else some t
  else none

/-! ## EBB3 layer (`ebb3_serial.py`) -/
namespace Ebb3

/-- `EBB3.find_first` (the value stored in `self.port_name`) -/
def findFirst (ports : List Port) : Option Str :=
  match firstBy descMatch ports with
  | some d => some d
  | none => firstBy idMatch ports

/-- `list_ebb_ports` -/
def listPorts (ports : List Port) : Option (List Port) :=
  let l := listLoop ports
  if l.isEmpty then none else some l

/-- the name appended for one port by `list_named_ebbs` -/
def nameOf (p : Port) : Str :=
  match descName p with
  | some t => t
  | none =>
    match serName p with
    | some t => t
    | none => p.dev

/-- `list_named_ebbs` -/
def listNamed (ports : List Port) : Option (List Str) :=
  match listPorts ports with
  | none => none
  | some l => some (l.map nameOf)

/-- the loop of `find_named` -/
def findLoop (needle needle2 plower : Str) : List Port → Option Str
  | [] => none
  | p :: ps =>
    let p0 := lower p.dev
    let p1 := lower p.desc
    let p2 := lower p.hwid
    if isInfixB needle p2 || isInfixB needle2 p1 then some p.dev
    else
      let p1' := p1.drop 11
      if plower.isPrefixOf p1' || plower.isPrefixOf p0 then some p.dev
      -- `needle.replace(" ", "_")` discards its result: the same needle is tested again
      else if isInfixB needle p2 then some p.dev
      else findLoop needle needle2 plower ps

/-- `find_named(port_name)` -/
def findNamed (key : Option Str) (ports : List Port) : Option Str :=
  match key with
  | none => none
  | some k => findLoop (lower (serK ++ k)) (lower ('(' :: k ++ [')'])) (lower k) ports

end Ebb3

/-! ## legacy layer (`ebb_serial.py`) -/
namespace Legacy

/-- `findPort` -/
def findFirst (ports : List Port) : Option Str :=
  match firstBy descMatch ports with
  | some d => some d
  | none => firstBy idMatch ports

/-- `listEBBports` -/
def listPorts (ports : List Port) : Option (List Port) :=
  let l := listLoop ports
  if l.isEmpty then none else some l

/-- the name appended for one port by `list_named_ebbs` -/
def nameOf (p : Port) : Str :=
  match descName p with
  | some t => t
  | none =>
    match serName p with
    | some t => t
    | none =>
      match snrName p with
      | some t => t
      | none => p.dev

/-- `list_named_ebbs` -/
def listNamed (ports : List Port) : Option (List Str) :=
  match listPorts ports with
  | none => none
  | some l => some (l.map nameOf)

/-- the loop of `find_named_ebb` -/
def findLoop (needle needle2 needle3 plower : Str) : List Port → Option Str
  | [] => none
  | p :: ps =>
    let p0 := lower p.dev
    let p1 := lower p.desc
    let p2 := lower p.hwid
    if isInfixB needle p2 then some p.dev
    else if isInfixB needle2 p2 then some p.dev
    else if isInfixB needle3 p1 then some p.dev
    else
      let p1' := p1.drop 11
      if plower.isPrefixOf p1' then some p.dev
      else if plower.isPrefixOf p0 then some p.dev
      -- the two `replace` calls discard their results
      else if isInfixB needle p2 then some p.dev
      else if isInfixB needle2 p2 then some p.dev
      else findLoop needle needle2 needle3 plower ps

/-- `find_named_ebb(port_name)` -/
def findNamed (key : Option Str) (ports : List Port) : Option Str :=
  match key with
  | none => none
  | some k => findLoop (lower (serK ++ k)) (lower (snrK ++ k)) (lower ('(' :: k ++ [')'])) (lower k) ports

end Legacy

/-! ## Spec (independent of the loops): matching criteria as propositions over list structure -/

/-- `key` (any case) matches port `q` by one of the EBB3 criteria: the lower-cased hardware string
contains `ser=<key>`, the lower-cased description contains `(<key>)`, the lower-cased description after
its first 11 characters starts with `<key>`, or the lower-cased device name starts with `<key>` -/
def Matches3 (key : Str) (q : Port) : Prop :=
  lower (serK ++ key) <:+: lower q.hwid ∨ lower ('(' :: key ++ [')']) <:+: lower q.desc ∨
  lower key <+: (lower q.desc).drop 11 ∨ lower key <+: lower q.dev

/-- the legacy layer additionally accepts `snr=<key>` in the hardware string -/
def MatchesL (key : Str) (q : Port) : Prop :=
  Matches3 key q ∨ lower (snrK ++ key) <:+: lower q.hwid

/-- executable versions (used by the driver as Spec and by the layer-agreement theorem) -/
def matches3B (key : Str) (q : Port) : Bool :=
  isInfixB (lower (serK ++ key)) (lower q.hwid) || isInfixB (lower ('(' :: key ++ [')'])) (lower q.desc) ||
  (lower key).isPrefixOf ((lower q.desc).drop 11) || (lower key).isPrefixOf (lower q.dev)

def matchesLB (key : Str) (q : Port) : Bool :=
  matches3B key q || isInfixB (lower (snrK ++ key)) (lower q.hwid)

/-- Spec of first-board discovery -/
def specFirst (ports : List Port) : Option Str :=
  ((ports.find? descMatch).orElse fun _ => ports.find? idMatch).map (·.dev)

/-- Spec of the board listing -/
def specList (ports : List Port) : Option (List Port) :=
  let l := ports.filter (fun p => descMatch p || idMatch p)
  if l = [] then none else some l

end C19
end Plotink
