/-! # C14 — model of `plotink/rtree.py` (`class Index`), core Lean only.

`Index.__init__` distributes the id-tagged boxes into four overlapping quadrants around a centre
point, keeps all boxes in a leaf when one quadrant does not shrink, otherwise recurses into the four
quadrant lists; `intersection` tests every box of a leaf and descends into a subtree only when the
query meets the subtree's extent.

* `center` is a **parameter** of `build` (any function of the box list).  The code's running mean
  (`meanCenter rnd`, with `rnd` = identity for `Fraction` inputs and `roundBits 53` for ints/floats) is
  one instance; the theorems hold for every `center`.
* The strictness of the eight quadrant comparisons is a parameter (`Strict`): the harness reads the
  comparison operators off the current source and runs the model with exactly those.
* `build` is defined by well-founded recursion on the number of boxes: Lean accepts it only together
  with the proof that every quadrant list is strictly shorter in the non-leaf branch, which is
  "construction terminates". -/
namespace Plotink
namespace C14

structure Box where
  x1 : Rat
  y1 : Rat
  x2 : Rat
  y2 : Rat

abbrev IBox := Nat × Box

/-- `not (x_1 > xmax or y_1 > ymax or x_2 < xmin or y_2 < ymin)`; `q` is the query, `b` the stored box -/
def overlaps (q b : Box) : Bool :=
  !(decide (q.x1 > b.x2) || decide (q.y1 > b.y2) || decide (q.x2 < b.x1) || decide (q.y2 < b.y1))

/-- which of the eight quadrant comparisons are strict (`true`: `<` / `>`, `false`: `<=` / `>=`);
`xk`, `yk` are the x- and y-test of quadrant `k` in source order -/
structure Strict where
  x0 : Bool
  y0 : Bool
  x1 : Bool
  y1 : Bool
  x2 : Bool
  y2 : Bool
  x3 : Bool
  y3 : Bool
deriving DecidableEq, Repr

def Strict.all : Strict := ⟨true, true, true, true, true, true, true, true⟩
def Strict.none : Strict := ⟨false, false, false, false, false, false, false, false⟩

/-- `a < c` resp. `a <= c` -/
def lo (strict : Bool) (a c : Rat) : Bool := if strict then decide (a < c) else decide (a ≤ c)
/-- `a > c` resp. `a >= c` -/
def hi (strict : Bool) (a c : Rat) : Bool := if strict then decide (a > c) else decide (a ≥ c)

/-- the four list-comprehension conditions of `Index.__init__` -/
def quad (s : Strict) (cx cy : Rat) (k : Fin 4) (b : IBox) : Bool :=
  match k with
  | 0 => lo s.x0 b.2.x1 cx && lo s.y0 b.2.y1 cy
  | 1 => hi s.x1 b.2.x2 cx && lo s.y1 b.2.y1 cy
  | 2 => lo s.x2 b.2.x1 cx && hi s.y2 b.2.y2 cy
  | 3 => hi s.x3 b.2.x2 cx && hi s.y3 b.2.y2 cy

/-- the loop `self.xmin = min(self.xmin, xmin) …` started from `(inf, inf, -inf, -inf)`; `none`
stands for that start value (an empty list) -/
def extStep : Option Box → IBox → Option Box
  | .none, b => some ⟨b.2.x1, b.2.y1, b.2.x2, b.2.y2⟩
  | .some e, b => some ⟨min e.x1 b.2.x1, min e.y1 b.2.y1, max e.x2 b.2.x2, max e.y2 b.2.y2⟩

def extent (bs : List IBox) : Option Box := bs.foldl extStep .none

/-- the pruning test of `intersection` against a subtree's extent (`-inf`/`inf` extents of an empty
subtree are disjoint from every finite query) -/
def extentHit (q : Box) : Option Box → Bool
  | .none => false
  | .some e => !(decide (q.x1 > e.x2) || decide (q.y1 > e.y2) || decide (q.x2 < e.x1) || decide (q.y2 < e.y1))

inductive Tree where
  | leaf (bs : List IBox)
  | node (e0 e1 e2 e3 : Option Box) (t0 t1 t2 t3 : Tree)

def build (s : Strict) (center : List IBox → Rat × Rat) (bs : List IBox) : Tree :=
  let c := center bs
  let s0 := bs.filter (quad s c.1 c.2 0)
  let s1 := bs.filter (quad s c.1 c.2 1)
  let s2 := bs.filter (quad s c.1 c.2 2)
  let s3 := bs.filter (quad s c.1 c.2 3)
  if h : max (max s0.length s1.length) (max s2.length s3.length) = bs.length then Tree.leaf bs
  else
    have h0 : s0.length ≤ bs.length := List.length_filter_le _ _
    have h1 : s1.length ≤ bs.length := List.length_filter_le _ _
    have h2 : s2.length ≤ bs.length := List.length_filter_le _ _
    have h3 : s3.length ≤ bs.length := List.length_filter_le _ _
    have : s0.length < bs.length := by omega
    have : s1.length < bs.length := by omega
    have : s2.length < bs.length := by omega
    have : s3.length < bs.length := by omega
    Tree.node (extent s0) (extent s1) (extent s2) (extent s3)
      (build s center s0) (build s center s1) (build s center s2) (build s center s3)
termination_by bs.length
decreasing_by all_goals (first | assumption | omega)

/-- `Index.intersection` (ids in visiting order; the code collects them in a set) -/
def query (q : Box) : Tree → List Nat
  | .leaf bs => (bs.filter (fun b => overlaps q b.2)).map (·.1)
  | .node e0 e1 e2 e3 t0 t1 t2 t3 =>
    (if extentHit q e0 then query q t0 else []) ++ (if extentHit q e1 then query q t1 else []) ++
    (if extentHit q e2 then query q t2 else []) ++ (if extentHit q e3 then query q t3 else [])

def Tree.depth : Tree → Nat
  | .leaf _ => 0
  | .node _ _ _ _ t0 t1 t2 t3 => 1 + max (max t0.depth t1.depth) (max t2.depth t3.depth)

/-- the centre the code computes: `center_x += (xmin/2 + xmax/2) / len(bboxes)` from `0`, every
arithmetic result passed through `rnd` (identity: exact rationals; `roundBits 53`: binary64) -/
def meanCenter (rnd : Rat → Rat) (bs : List IBox) : Rat × Rat :=
  let n : Rat := (bs.length : Rat)
  bs.foldl (fun (c : Rat × Rat) b =>
      (rnd (c.1 + rnd (rnd (rnd (b.2.x1 / 2) + rnd (b.2.x2 / 2)) / n)),
       rnd (c.2 + rnd (rnd (rnd (b.2.y1 / 2) + rnd (b.2.y2 / 2)) / n)))) (0, 0)

/-! ## Spec: brute force -/

/-- ids of all boxes that pass the closed-interval test against `q`, in list order -/
def bruteForce (q : Box) (bs : List IBox) : List Nat :=
  (bs.filter (fun b => decide (b.2.x1 ≤ q.x2) && decide (q.x1 ≤ b.2.x2) &&
                       decide (b.2.y1 ≤ q.y2) && decide (q.y1 ≤ b.2.y2))).map (·.1)

/-! ## Abstract coverage test for a strictness assignment

`o = compare a c`; a quadrant test depends only on the four orderings of `x1,x2` against `cx` and of
`y1,y2` against `cy`.  `coversB s` checks, over the 36 order patterns a box with `min ≤ max` can show,
that at least one quadrant accepts; it contains no rational arithmetic, so `decide` evaluates it. -/

def loA (strict : Bool) : Ordering → Bool
  | .lt => true
  | .eq => !strict
  | .gt => false

def hiA (strict : Bool) : Ordering → Bool
  | .lt => false
  | .eq => !strict
  | .gt => true

def quadA (s : Strict) (k : Fin 4) (ox1 ox2 oy1 oy2 : Ordering) : Bool :=
  match k with
  | 0 => loA s.x0 ox1 && loA s.y0 oy1
  | 1 => hiA s.x1 ox2 && loA s.y1 oy1
  | 2 => loA s.x2 ox1 && hiA s.y2 oy2
  | 3 => hiA s.x3 ox2 && hiA s.y3 oy2

/-- possible `(compare a c, compare b c)` when `a ≤ b` -/
def okPair : Ordering → Ordering → Bool
  | .lt, _ => true
  | .eq, .lt => false
  | .eq, _ => true
  | .gt, .gt => true
  | .gt, _ => false

def ords : List Ordering := [.lt, .eq, .gt]

def coversB (s : Strict) : Bool :=
  ords.all fun ox1 => ords.all fun ox2 => ords.all fun oy1 => ords.all fun oy2 =>
    !(okPair ox1 ox2 && okPair oy1 oy2) ||
      (quadA s 0 ox1 ox2 oy1 oy2 || quadA s 1 ox1 ox2 oy1 oy2 || quadA s 2 ox1 ox2 oy1 oy2 || quadA s 3 ox1 ox2 oy1 oy2)

end C14
end Plotink
