import Plotink.Model.PyFloat
/-! # C12 — length parsing and unit conversion (`plotink/plot_utils.py`)

Hand-written executable model of `parseLengthWithUnits`, `unitsToUserUnits`, `userUnitToUnits`,
`getLength`, `getLengthInches`, mirroring each function's own control flow and its **own copy** of the
unit table.  Every numeric literal of a function is a named constant in that function's namespace
(`consts` lists them in source order); `harness/c12.py` re-extracts the literals from the current
source on every run and compares.  Arithmetic is exact (`Rat`); a float literal stands for its decimal
reading (`25.4 = 127/5`); binary64 rounding is runtime residue (compared within a measured tolerance).

The `%` branch of `unitsToUserUnits` models the *repaired* test `percent_ref is not None`
(DESIGN §9 F7: the unchanged tree tests truthiness and so ignores a supplied reference of 0). -/
namespace Plotink
namespace C12
open PyFloat

/-- `PX_PER_INCH` -/
def pxPerInch : Rat := 96

/-- `string[-n:]` -/
def lastN (n : Nat) (s : List Char) : List Char := s.drop (s.length - n)
/-- `string[:-n]` (n > 0) -/
def dropLastN (n : Nat) (s : List Char) : List Char := s.take (s.length - n)

/-- the suffix cascade of `parseLengthWithUnits` on the stripped string: (numeric text, units) -/
def splitUnit (s : List Char) : List Char × List Char :=
  if lastN 2 s = ['p', 'x'] then (dropLastN 2 s, ['p', 'x'])
  else if lastN 2 s = ['i', 'n'] then (dropLastN 2 s, ['i', 'n'])
  else if lastN 2 s = ['m', 'm'] then (dropLastN 2 s, ['m', 'm'])
  else if lastN 2 s = ['c', 'm'] then (dropLastN 2 s, ['c', 'm'])
  else if lastN 2 s = ['p', 't'] then (dropLastN 2 s, ['p', 't'])
  else if lastN 2 s = ['p', 'c'] then (dropLastN 2 s, ['p', 'c'])
  else if lastN 1 s = ['Q'] ∨ lastN 1 s = ['q'] then (dropLastN 1 s, ['Q'])
  else if lastN 1 s = ['%'] then (dropLastN 1 s, ['%'])
  else (s, ['p', 'x'])

/-- `parseLengthWithUnits`: `none` is Python's `(None, None)` -/
def parseLength (arg : Option (List Char)) : Option (Num × List Char) :=
  match arg with
  | none => none
  | some s0 =>
    let su := splitUnit (pyStrip s0)
    match parseFloat su.1 with
    | none => none
    | some v => some (v, su.2)

/-- what a converter returns: Python `None`, a finite number, or `inf`/`nan` -/
inductive Out where
  | none
  | val (q : Rat)
  | nonfinite
  deriving DecidableEq, Repr

/-- `float(value) <op> finite constants`: a non-finite value stays non-finite -/
def conv (v : Num) (f : Rat → Rat) : Out :=
  match v with
  | .fin q => .val (f q)
  | _ => .nonfinite

namespace UU  -- literals of unitsToUserUnits, in source order
def cMm : Rat := 127 / 5      -- 25.4
def cCm : Rat := 127 / 50     -- 2.54
def cQ : Rat := 508 / 5       -- 101.6
def cPc : Rat := 6            -- 6.0
def cPt : Rat := 72           -- 72.0
def cPctRef : Rat := 100      -- 100.0
def cPct : Rat := 100         -- 100.0
def consts : List Rat := [cMm, cCm, cQ, cPc, cPt, cPctRef, cPct]
end UU

/-- `unitsToUserUnits(input_string, percent_ref)` -/
def unitsToUserUnits (s : Option (List Char)) (ref : Option Rat) : Out :=
  match parseLength s with
  | none => .none
  | some (v, u) =>
    if u = [] ∨ u = ['p', 'x'] then conv v (fun x => x)
    else if u = ['i', 'n'] then conv v (fun x => x * pxPerInch)
    else if u = ['m', 'm'] then conv v (fun x => x * pxPerInch / UU.cMm)
    else if u = ['c', 'm'] then conv v (fun x => x * pxPerInch / UU.cCm)
    else if u = ['Q'] ∨ u = ['q'] then conv v (fun x => x * pxPerInch / UU.cQ)
    else if u = ['p', 'c'] then conv v (fun x => x * pxPerInch / UU.cPc)
    else if u = ['p', 't'] then conv v (fun x => x * pxPerInch / UU.cPt)
    else if u = ['%'] then
      match ref with
      | some r => conv v (fun x => x * r / UU.cPctRef)
      | none => conv v (fun x => x / UU.cPct)
    else .none

namespace Back  -- literals of userUnitToUnits
def cMm : Rat := 127 / 5      -- 25.4
def cCm : Rat := 127 / 50     -- 2.54
def cQa : Rat := 40           -- 40.0
def cQb : Rat := 127 / 50     -- 2.54
def cPc : Rat := 6            -- 6.0
def cPt : Rat := 72           -- 72.0
def cPct : Rat := 100         -- 100.0
def consts : List Rat := [cMm, cCm, cQa, cQb, cPc, cPt, cPct]
end Back

/-- `userUnitToUnits(distance_uu, unit_string)`; `none` is Python's `None` -/
def userUnitToUnits (d : Option Rat) (u : List Char) : Option Rat :=
  match d with
  | none => none
  | some x =>
    if u = [] ∨ u = ['p', 'x'] then some x
    else if u = ['i', 'n'] then some (x / pxPerInch)
    else if u = ['m', 'm'] then some (x / (pxPerInch / Back.cMm))
    else if u = ['c', 'm'] then some (x / (pxPerInch / Back.cCm))
    else if u = ['Q'] ∨ u = ['q'] then some (x / (pxPerInch / (Back.cQa * Back.cQb)))
    else if u = ['p', 'c'] then some (x / (pxPerInch / Back.cPc))
    else if u = ['p', 't'] then some (x / (pxPerInch / Back.cPt))
    else if u = ['%'] then some (x * Back.cPct)
    else none

namespace GL  -- literals of getLength
def cMm : Rat := 127 / 5
def cCm : Rat := 127 / 50
def cQa : Rat := 40
def cQb : Rat := 127 / 50
def cPc : Rat := 6
def cPt : Rat := 72
def cPct : Rat := 100
def consts : List Rat := [cMm, cCm, cQa, cQb, cPc, cPt, cPct]
end GL

/-- `getLength(altself, name, default)` with `attr = altself.document.getroot().get(name)` -/
def getLength (attr : Option (List Char)) (dflt : Rat) : Out :=
  match attr with
  | none => .val dflt
  | some s =>
    if s = [] then .val dflt else
    match parseLength (some s) with
    | none => .none
    | some (v, u) =>
      if u = [] ∨ u = ['p', 'x'] then conv v (fun x => x)
      else if u = ['i', 'n'] then conv v (fun x => x * pxPerInch)
      else if u = ['m', 'm'] then conv v (fun x => x * pxPerInch / GL.cMm)
      else if u = ['c', 'm'] then conv v (fun x => x * pxPerInch / GL.cCm)
      else if u = ['Q'] ∨ u = ['q'] then conv v (fun x => x * pxPerInch / (GL.cQa * GL.cQb))
      else if u = ['p', 'c'] then conv v (fun x => x * pxPerInch / GL.cPc)
      else if u = ['p', 't'] then conv v (fun x => x * pxPerInch / GL.cPt)
      else if u = ['%'] then conv v (fun x => dflt * x / GL.cPct)
      else .none

namespace GI  -- literals of getLengthInches
def cMm : Rat := 127 / 5
def cCm : Rat := 127 / 50
def cQa : Rat := 40
def cQb : Rat := 127 / 50
def cPc : Rat := 6
def cPt : Rat := 72
def cPx : Rat := 96           -- 96.0 (a literal, not PX_PER_INCH)
def consts : List Rat := [cMm, cCm, cQa, cQb, cPc, cPt, cPx]
end GI

/-- `getLengthInches(altself, name)` -/
def getLengthInches (attr : Option (List Char)) : Out :=
  match attr with
  | none => .none
  | some s =>
    if s = [] then .none else
    match parseLength (some s) with
    | none => .none
    | some (v, u) =>
      if u = ['i', 'n'] then conv v (fun x => x)
      else if u = ['m', 'm'] then conv v (fun x => x / GI.cMm)
      else if u = ['c', 'm'] then conv v (fun x => x / GI.cCm)
      else if u = ['Q'] ∨ u = ['q'] then conv v (fun x => x / (GI.cQa * GI.cQb))
      else if u = ['p', 'c'] then conv v (fun x => x / GI.cPc)
      else if u = ['p', 't'] then conv v (fun x => x / GI.cPt)
      else if u = [] ∨ u = ['p', 'x'] then conv v (fun x => x / GI.cPx)
      else .none

/-! ## Spec: the SVG/CSS absolute units at 96 px per inch -/

/-- user units (px) per one unit, as SVG defines them at 96 px/in -/
def svgFactor (u : List Char) : Option Rat :=
  if u = ['p', 'x'] then some 1
  else if u = ['i', 'n'] then some 96
  else if u = ['m', 'm'] then some (96 / (254 / 10))       -- 1 in = 25.4 mm
  else if u = ['c', 'm'] then some (96 / (254 / 100))      -- 1 in = 2.54 cm
  else if u = ['p', 't'] then some (96 / 72)               -- 1 in = 72 pt
  else if u = ['p', 'c'] then some 16                      -- 1 pc = 12 pt
  else if u = ['Q'] then some (96 / (1016 / 10))           -- 1 Q = 1/4 mm : 101.6 Q per inch
  else none

end C12
end Plotink
