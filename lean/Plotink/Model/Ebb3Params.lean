import Plotink.Model.Ebb3
import Plotink.Gen.Params
/-! The `Ebb3.Params` instance read from the current source (`Gen/Params.lean`, regenerated on
every run by `translator/extract_params.py`). -/
namespace Plotink
namespace Ebb3

def srcParams : Params where
  retryCmd := Gen.Params.ebb3RetryCmd
  retryQry := Gen.Params.ebb3RetryQry
  ignoreCmd := Gen.Params.ebb3IgnoreCmd.map String.toList
  ignoreQry := Gen.Params.ebb3IgnoreQry.map String.toList
  pauseCmp := Gen.Params.ebb3PauseCmp
  pauseChunk := Gen.Params.ebb3PauseChunk
  minVersion := Gen.Params.ebb3MinVersion.toList
  vThreshold := Gen.Params.ebb3VThreshold

end Ebb3
end Plotink
