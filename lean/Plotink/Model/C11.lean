import Plotink.Model.PyFloat
/-! # C11 — `plot_utils.vb_scale`: viewBox scaling per SVG 1.1 preserveAspectRatio

Hand-written executable model mirroring the code's control flow: attribute tokenisation
(`strip().replace(',', ' ')[.lower()].split()`), the `defer` skip, the string-set tests on the align
token, the two "fill X"/"fill Y" classes.  Numbers are exact (`Rat`); binary64 rounding is runtime
residue.  A viewBox token that `float()` rejects yields the identity transform (this is the
*repaired* behaviour, DESIGN §9 F6: the unchanged tree raises `ValueError`). Tokens `nan`/`inf`
(accepted by `float()`, not numbers) give the outcome `nonfinite`, about which nothing is claimed. -/
namespace Plotink
namespace C11
open PyFloat

def sXminYmin : List Char := ['x','m','i','n','y','m','i','n']
def sXmidYmin : List Char := ['x','m','i','d','y','m','i','n']
def sXmaxYmin : List Char := ['x','m','a','x','y','m','i','n']
def sXminYmid : List Char := ['x','m','i','n','y','m','i','d']
def sXmidYmid : List Char := ['x','m','i','d','y','m','i','d']
def sXmaxYmid : List Char := ['x','m','a','x','y','m','i','d']
def sXminYmax : List Char := ['x','m','i','n','y','m','a','x']
def sXmidYmax : List Char := ['x','m','i','d','y','m','a','x']
def sXmaxYmax : List Char := ['x','m','a','x','y','m','a','x']
def sNone : List Char := ['n','o','n','e']
def sMeet : List Char := ['m','e','e','t']
def sSlice : List Char := ['s','l','i','c','e']
def sDefer : List Char := ['d','e','f','e','r']

/-- the pair `(par_align, par_mos)` the code computes from the preserveAspectRatio attribute -/
def parTokens (par : Option (List Char)) : List Char × List Char :=
  match par with
  | none => (sXmidYmid, sMeet)
  | some p =>
    match pySplit (lower (commaToBlank (pyStrip p))) with
    | [] => (sXmidYmid, sMeet)
    | par0 :: rest =>
      if par0 = sDefer then
        match rest with
        | [] => (sXmidYmid, sMeet)
        | a :: rest2 =>
          match rest2 with
          | [] => (a, sMeet)
          | m :: _ => (a, m)
      else
        match rest with
        | [] => (par0, sMeet)
        | m :: _ => (par0, m)

/-- outcome of reading the viewBox attribute -/
inductive VB where
  | missing                    -- attribute absent
  | short                      -- fewer than four tokens
  | bad                        -- one of the first four tokens is not accepted by `float()`
  | nonfinite                  -- `float()` accepted `nan`/`inf`
  | ok (x y w h : Rat)
  deriving DecidableEq, Repr

def finOf : Num → Option Rat
  | .fin q => some q
  | _ => none

def parseVB (vb : Option (List Char)) : VB :=
  match vb with
  | none => .missing
  | some v =>
    match pySplit (commaToBlank (pyStrip v)) with
    | t0 :: t1 :: t2 :: t3 :: _ =>
      match parseFloat t0, parseFloat t1, parseFloat t2, parseFloat t3 with
      | some a, some b, some c, some d =>
        match finOf a, finOf b, finOf c, finOf d with
        | some x, some y, some w, some h => .ok x y w h
        | _, _, _, _ => .nonfinite
      | _, _, _, _ => .bad
    | _ => .short

/-- `(s_x, s_y, o_x, o_y)`; a point maps as `x ↦ (x + o_x) * s_x` -/
structure Xf where
  sx : Rat
  sy : Rat
  ox : Rat
  oy : Rat
  deriving DecidableEq, Repr

def identity : Xf := ⟨1, 1, 0, 0⟩

/-- the numeric part of `vb_scale`, from `ar_doc = …` on, with the code's own tests on the tokens -/
def vbCore (align mos : List Char) (minX minY w h W H : Rat) : Xf :=
  let arDoc := H / W
  let arVb := h / w
  if align = sNone then ⟨W / w, H / h, -minX, -minY⟩
  else if (arDoc ≥ arVb ∧ mos = sMeet) ∨ (arDoc < arVb ∧ mos = sSlice) then
    -- case 1: fill X
    let sx := W / w
    let excess := arDoc * w - h
    let oy :=
      if align = sXminYmin ∨ align = sXmidYmin ∨ align = sXmaxYmin then -minY
      else if align = sXminYmax ∨ align = sXmidYmax ∨ align = sXmaxYmax then -minY + excess
      else -minY + excess / 2
    ⟨sx, sx, -minX, oy⟩
  else
    -- case 2: fill Y
    let sy := H / h
    let excess := h / arDoc - w
    let ox :=
      if align = sXminYmin ∨ align = sXminYmid ∨ align = sXminYmax then -minX
      else if align = sXmaxYmin ∨ align = sXmaxYmid ∨ align = sXmaxYmax then -minX + excess
      else -minX + excess / 2
    ⟨sy, sy, ox, -minY⟩

inductive Out where
  | xf (t : Xf)
  | nonfinite
  deriving DecidableEq, Repr

/-- `vb_scale(v_b, p_a_r, doc_width, doc_height)` for numeric document sizes -/
def vbScale (vb par : Option (List Char)) (W H : Rat) : Out :=
  match parseVB vb with
  | .missing => .xf identity
  | .short => .xf identity
  | .bad => .xf identity
  | .nonfinite => .nonfinite
  | .ok x y w h =>
    if w ≤ 0 ∨ h ≤ 0 then .xf identity
    else if W ≤ 0 ∨ H ≤ 0 then .xf identity
    else
      let t := parTokens par
      .xf (vbCore t.1 t.2 x y w h W H)

/-- branch identifier (evidence: model-path coverage) -/
def path (vb par : Option (List Char)) (W H : Rat) : String :=
  match parseVB vb with
  | .missing => "id:missing"
  | .short => "id:short"
  | .bad => "id:bad"
  | .nonfinite => "nonfinite"
  | .ok _ _ w h =>
    if w ≤ 0 ∨ h ≤ 0 then "id:vb<=0"
    else if W ≤ 0 ∨ H ≤ 0 then "id:doc<=0"
    else
      let t := parTokens par
      let a := t.1
      if a = sNone then "none"
      else if (H / W ≥ h / w ∧ t.2 = sMeet) ∨ (H / W < h / w ∧ t.2 = sSlice) then
        (if a = sXminYmin ∨ a = sXmidYmin ∨ a = sXmaxYmin then "fillX:ymin"
         else if a = sXminYmax ∨ a = sXmidYmax ∨ a = sXmaxYmax then "fillX:ymax" else "fillX:ymid")
      else
        (if a = sXminYmin ∨ a = sXminYmid ∨ a = sXminYmax then "fillY:xmin"
         else if a = sXmaxYmin ∨ a = sXmaxYmid ∨ a = sXmaxYmax then "fillY:xmax" else "fillY:xmid")

/-! ## Spec vocabulary (used by the theorems only) -/

inductive Pos where
  | min | mid | max
  deriving DecidableEq, Repr

inductive MOS where
  | meet | slice
  deriving DecidableEq, Repr

def posName : Pos → List Char
  | .min => ['m','i','n']
  | .mid => ['m','i','d']
  | .max => ['m','a','x']

/-- lower-cased SVG name `x<pos>y<pos>` of an alignment -/
def alignName (ax ay : Pos) : List Char := 'x' :: posName ax ++ 'y' :: posName ay

def mosName : MOS → List Char
  | .meet => sMeet
  | .slice => sSlice

/-- where on the page (length `L`) the named position lies, and on the viewBox (origin `m`, length `l`) -/
def pagePt (p : Pos) (L : Rat) : Rat :=
  match p with
  | .min => 0
  | .mid => L / 2
  | .max => L

def vbPt (p : Pos) (m l : Rat) : Rat :=
  match p with
  | .min => m
  | .mid => m + l / 2
  | .max => m + l

end C11
end Plotink
