/-! # C13 — model of `plotink/spatial_grid.py` class `Index` (exact arithmetic over `Rat`)

Core Lean only (linked into the native driver).  The functions mirror the control flow and the
*scanning order* of the Python code, so that ties between equally distant ends are resolved the same
way:

* `build`     = `Index.__init__`   (extent, shim, bin sizes, one pass over `enumerate(vertices)`)
* `adjacents` = `Index.find_adjacents`
* `nearest`   = `Index.nearest`    (neighbourhood scan, the `if best_index:` test — which is false for
                                   `None` *and for identifier 0* —, then the scan of the remaining cells
                                   that continues with the running best)
* `remove`    = `Index.remove_path`

Python exceptions are `none`: `ZeroDivisionError` in `__init__` (zero extent, or `bins = 0`),
`IndexError`/`ValueError` in `remove_path` (identifier out of range / already removed).

The second half of the file is the independent *Spec*: what an end identifier means (`endPoint`),
when an end is live (`LiveEnd`), the cell of a point (`cellOf`) and the neighbour relation (`Near`),
none of which mention cells, lookup tables or adjacency lists.  -/

namespace Plotink
namespace C13

abbrev Pt := Rat × Rat
/-- `[first_vertex, last_vertex]` of one path -/
abbrev Path := Pt × Pt

/-- `plot_utils.square_dist` -/
def sqDist (a b : Pt) : Rat :=
  let dx := a.1 - b.1
  let dy := a.2 - b.2
  dx * dx + dy * dy

/-- grid geometry: `bins_per_side`, `xmin`, `ymin`, `bin_size_x`, `bin_size_y` -/
structure Geo where
  bins : Nat
  xmin : Rat
  ymin : Rat
  bx : Rat
  by_ : Rat

/-- the mutable state of an `Index` object (`adjacents` is a function of `bins`, see `adjacents`) -/
structure Grid extends Geo where
  rev : Bool
  n : Nat
  verts : List Path
  cells : List (List Nat)
  lookup : List Nat

/-! ## find_adjacents -/

/-- the list built for cell `index_i = x_col + y_row * bins`, in the order of the `append`s -/
def adjOf (bins x y : Nat) : List Nat :=
  let maxBin := bins - 1
  let i := x + y * bins
  [i]
  ++ (if x > 0 then
        [i - 1] ++ (if y > 0 then [i - bins - 1] else []) ++ (if y < maxBin then [i + bins - 1] else [])
      else [])
  ++ (if x < maxBin then
        [i + 1] ++ (if y > 0 then [i - bins + 1] else []) ++ (if y < maxBin then [i + bins + 1] else [])
      else [])
  ++ (if y > 0 then [i - bins] else [])
  ++ (if y < maxBin then [i + bins] else [])

/-- `self.adjacents`: entry `i` belongs to column `i % bins`, row `i / bins` -/
def adjacents (bins : Nat) : List (List Nat) :=
  (List.range (bins * bins)).map fun i => adjOf bins (i % bins) (i / bins)

/-! ## bin assignment -/

/-- `min(math.floor((x - lo) / size), max_bin)` (as in `__init__`: no lower clamp) -/
def binHi (bins : Nat) (lo size x : Rat) : Int :=
  min ((x - lo) / size).floor ((bins : Int) - 1)

/-- `max(min(math.floor((x - lo) / size), max_bin), 0)` (as in `nearest`) -/
def binClamp (bins : Nat) (lo size x : Rat) : Int :=
  max (binHi bins lo size x) 0

/-- `x_bin + bins * y_bin` of `__init__` -/
def cellIdxHi (G : Geo) (p : Pt) : Nat :=
  (binHi G.bins G.xmin G.bx p.1 + (G.bins : Int) * binHi G.bins G.ymin G.by_ p.2).toNat

/-- `x_bin + bins * y_bin` of `nearest` -/
def cellIdx (G : Geo) (p : Pt) : Nat :=
  (binClamp G.bins G.xmin G.bx p.1 + (G.bins : Int) * binClamp G.bins G.ymin G.by_ p.2).toNat

/-! ## __init__ -/

/-- the vertices that take part in the extent computation, in the order of the loop -/
def points (verts : List Path) (rev : Bool) : List Pt :=
  verts.flatMap fun p => if rev then [p.1, p.2] else [p.1]

/-- `(xmin, xmax, ymin, ymax)` of the running `min`/`max` loop; `none` when there is no vertex
(Python is left with `inf`/`-inf`) -/
def extent : List Pt → Option (Rat × Rat × Rat × Rat)
  | [] => none
  | p :: ps => some (ps.foldl (fun a q => min a q.1) p.1, ps.foldl (fun a q => max a q.1) p.1,
                     ps.foldl (fun a q => min a q.2) p.2, ps.foldl (fun a q => max a q.2) p.2)

/-- the `for (index_i, [[x_1, y_1], [x_2, y_2]]) in enumerate(vertices)` loop -/
def buildLoop (G : Geo) (rev : Bool) (n : Nat) :
    List Path → Nat → List (List Nat) × List Nat → List (List Nat) × List Nat
  | [], _, st => st
  | p :: ps, i, (cells, lookup) =>
    let gi := cellIdxHi G p.1
    let cells := cells.modify gi (· ++ [i])
    let lookup := lookup.set i gi
    if rev then
      let gj := cellIdxHi G p.2
      buildLoop G rev n ps (i + 1) (cells.modify gj (· ++ [n + i]), lookup.set (n + i) gj)
    else
      buildLoop G rev n ps (i + 1) (cells, lookup)

/-- the geometry computed by `__init__`; `none` = `ZeroDivisionError` (or no vertex at all) -/
def geometry (verts : List Path) (bins : Nat) (rev : Bool) : Option Geo :=
  if bins = 0 then none else
  match extent (points verts rev) with
  | none => none
  | some (x0, x1, y0, y1) =>
    let shim := (x1 - x0 + y1 - y0) / 200
    let xmin := x0 - shim
    let ymin := y0 - shim
    let xmax := x1 + shim
    let ymax := y1 + shim
    let bx := (xmax - xmin) / bins
    let by_ := (ymax - ymin) / bins
    if bx = 0 ∨ by_ = 0 then none else some ⟨bins, xmin, ymin, bx, by_⟩

def build (verts : List Path) (bins : Nat) (rev : Bool) : Option Grid :=
  match geometry verts bins rev with
  | none => none
  | some G =>
    let n := verts.length
    let lookup0 := List.replicate (if rev then 2 * n else n) 0
    let cells0 : List (List Nat) := List.replicate (bins * bins) []
    let st := buildLoop G rev n verts 0 (cells0, lookup0)
    some { toGeo := G, rev := rev, n := n, verts := verts, cells := st.1, lookup := st.2 }

/-! ## nearest -/

/-- `self.vertices[path_index - self.path_count][1]` / `self.vertices[path_index][0]`.
(An identifier outside the table is an `IndexError` in Python; `Inv` excludes it, and the property
theorems speak about `endPoint` below, which is partial.) -/
def endPtV (verts : List Path) (n id : Nat) : Pt :=
  if id ≥ n then (verts.getD (id - n) ((0, 0), (0, 0))).2 else (verts.getD id ((0, 0), (0, 0))).1

def endPt (g : Grid) (id : Nat) : Pt := endPtV g.verts g.n id

/-- one step of the inner loop; the state is `(best_dist, best_index)`, `none` = `(inf, None)` -/
def better (g : Grid) (q : Pt) (st : Option (Rat × Nat)) (id : Nat) : Option (Rat × Nat) :=
  let d := sqDist q (endPt g id)
  match st with
  | none => some (d, id)
  | some (bd, bi) => if d < bd then some (d, id) else some (bd, bi)

def scan (g : Grid) (q : Pt) (st : Option (Rat × Nat)) (ids : List Nat) : Option (Rat × Nat) :=
  ids.foldl (better g q) st

/-- `self.grid[cell]` -/
def cellAt (g : Grid) (c : Nat) : List Nat := g.cells.getD c []

/-- `neighborhood_cells = self.adjacents[last_cell].copy()` -/
def nbCells (g : Grid) (q : Pt) : List Nat := (adjacents g.bins).getD (cellIdx g.toGeo q) []

/-- the identifiers visited by the first pair of loops, in order -/
def nbIds (g : Grid) (q : Pt) : List Nat := (nbCells g q).flatMap (cellAt g)

/-- the identifiers visited by the fallback loops (`if cell in neighborhood_cells: continue`), in order -/
def restIds (g : Grid) (q : Pt) : List Nat :=
  ((List.range (adjacents g.bins).length).filter fun c => !((nbCells g q).contains c)).flatMap (cellAt g)

def nearest (g : Grid) (q : Pt) : Option Nat :=
  match scan g q none (nbIds g q) with
  | some (_, i + 1) => some (i + 1)                        -- `if best_index: return best_index`
  | st1 => (scan g q st1 (restIds g q)).map (·.2)          -- `None` or `0`: fall through with the running best

/-! ## remove_path -/

/-- `self.grid[self.lookup[id]].remove(id)` -/
def removeId (cells : List (List Nat)) (lookup : List Nat) (id : Nat) : Option (List (List Nat)) :=
  match lookup[id]? with
  | none => none
  | some c =>
    match cells[c]? with
    | none => none
    | some ids => if id ∈ ids then some (cells.set c (ids.erase id)) else none

def remove (g : Grid) (p : Nat) : Option Grid :=
  if p < g.n then
    match removeId g.cells g.lookup p with
    | none => none
    | some cells1 =>
      if g.rev then
        match removeId cells1 g.lookup (p + g.n) with
        | none => none
        | some cells2 => some { g with cells := cells2 }
      else some { g with cells := cells1 }
  else none

/-- a sequence of removals -/
def removeAll (g : Grid) : List Nat → Option Grid
  | [] => some g
  | p :: ps => match remove g p with
    | none => none
    | some g' => removeAll g' ps

/-! ## Spec (independent of cells / lookup / adjacency lists) -/

/-- the end that identifier `id` names: the start of path `id` for `id < n`, the end of path `id - n`
for `n ≤ id < 2n` when reversal is enabled -/
def endPoint (verts : List Path) (rev : Bool) (id : Nat) : Option Pt :=
  if id < verts.length then verts[id]?.map (·.1)
  else if rev then verts[id - verts.length]?.map (·.2) else none

def pathOf (n id : Nat) : Nat := if id < n then id else id - n

/-- `id` names the end `p` of a path that has not been removed -/
def LiveEnd (verts : List Path) (rev : Bool) (live : List Nat) (id : Nat) (p : Pt) : Prop :=
  endPoint verts rev id = some p ∧ pathOf verts.length id ∈ live

/-- column and row of the grid cell of a point (clamped into the grid) -/
def cellOf (G : Geo) (p : Pt) : Int × Int :=
  (binClamp G.bins G.xmin G.bx p.1, binClamp G.bins G.ymin G.by_ p.2)

/-- same cell or one of the eight neighbours -/
def Near (a b : Int × Int) : Prop :=
  a.1 ≤ b.1 + 1 ∧ b.1 ≤ a.1 + 1 ∧ a.2 ≤ b.2 + 1 ∧ b.2 ≤ a.2 + 1

instance (a b : Int × Int) : Decidable (Near a b) := by unfold Near; infer_instance

/-- executable form of the property for one query (used by the driver as a second opinion):
`live` = paths not removed, `r` = value returned -/
def specCheck (verts : List Path) (rev : Bool) (G : Geo) (live : List Nat) (q : Pt) (r : Option Nat) : Bool :=
  let n := verts.length
  let ids := (List.range (2 * n)).filter fun id => (endPoint verts rev id).isSome && live.contains (pathOf n id)
  let pt := fun id => (endPoint verts rev id).getD (0, 0)
  match r with
  | none => ids.isEmpty
  | some r =>
    ids.contains r &&
    (let nb := ids.filter fun id => decide (Near (cellOf G q) (cellOf G (pt id)))
     let d := sqDist q (pt r)
     nb.all (fun id => decide (d ≤ sqDist q (pt id))) &&
     (if nb.isEmpty then ids.all (fun id => decide (d ≤ sqDist q (pt id))) else true) &&
     (let w := min G.bx G.by_
      if ids.any (fun id => decide (sqDist q (pt id) ≤ w * w)) then ids.all (fun id => decide (d ≤ sqDist q (pt id)))
      else true))

/-! ## the invariant -/

def ValidId (g : Grid) (id : Nat) : Prop :=
  id < g.n ∨ (g.rev = true ∧ g.n ≤ id ∧ id < 2 * g.n)

/-- every end identifier of a live path occurs exactly once, in cell `lookup[id]`; the cells contain
nothing else; `lookup[id]` is the (clamped) cell of that end -/
structure Inv (g : Grid) (live : List Nat) : Prop where
  bins_pos : 0 < g.bins
  bx_pos : 0 < g.bx
  by_pos : 0 < g.by_
  nverts : g.verts.length = g.n
  ncells : g.cells.length = g.bins * g.bins
  live_lt : ∀ k ∈ live, k < g.n
  mem_iff : ∀ c id, id ∈ cellAt g c ↔ (ValidId g id ∧ pathOf g.n id ∈ live ∧ g.lookup[id]? = some c)
  nodup : ∀ c, (cellAt g c).Nodup
  lookup_eq : ∀ id, ValidId g id → g.lookup[id]? = some (cellIdx g.toGeo (endPt g id))

end C13
end Plotink
